(* SearchAStar.v — C05: the mirror of AStarSearch.plan_on returns a real path of least
   cost (any consistent heuristic, any tie-break values, any action order), and falls
   through to "no plan" only when no goal is reachable. *)
From Coq Require Import List Arith ZArith Bool Lia.
From MSDM Require Import model.Search theory.SearchTheory theory.SearchInv.
Import ListNotations.
Local Open Scope Z_scope.

(* ---- heappop ---- *)
Definition ole (a b : option Z) : Prop :=
  match a, b with
  | Some x, Some y => x <= y
  | _, None => True
  | None, Some _ => False
  end.

Lemma ole_refl a : ole a a.
Proof. destruct a; simpl; auto; lia. Qed.

Lemma ole_trans a b c : ole a b -> ole b c -> ole a c.
Proof. destruct a, b, c; simpl; auto; try lia; contradiction. Qed.

Lemma node_leb_f x y : node_leb x y = true -> ole (nd_f x) (nd_f y).
Proof.
  unfold node_leb. destruct (nd_f x) as [a|], (nd_f y) as [b|]; simpl; auto.
  - destruct (a <? b) eqn:E1; [apply Z.ltb_lt in E1; lia|].
    destruct (b <? a) eqn:E2; [discriminate|]. apply Z.ltb_ge in E1. lia.
  - discriminate.
Qed.

Lemma node_leb_false_f x y : node_leb x y = false -> ole (nd_f y) (nd_f x).
Proof.
  unfold node_leb. destruct (nd_f x) as [a|], (nd_f y) as [b|]; simpl; auto.
  - destruct (a <? b) eqn:E1; [discriminate|]. apply Z.ltb_ge in E1. auto.
  - discriminate.
Qed.

Lemma node_eqb_refl x : node_eqb x x = true.
Proof.
  unfold node_eqb. rewrite !Z.eqb_refl, Nat.eqb_refl.
  destruct (nd_f x); simpl; [rewrite Z.eqb_refl|]; reflexivity.
Qed.

Lemma pop_min_none q : pop_min q = None -> q = [].
Proof.
  destruct q as [|x q]; auto. simpl. destruct (pop_min q) as [[m r]|]; [|discriminate].
  destruct (node_leb x m); discriminate.
Qed.

Lemma pop_min_spec q : forall m r, pop_min q = Some (m, r) ->
  In m q /\ (forall x, In x r -> In x q) /\ (forall x, In x q -> x = m \/ In x r) /\
  (forall x, In x q -> ole (nd_f m) (nd_f x)) /\ length q = S (length r).
Proof.
  induction q as [|x q IH]; intros m r H; simpl in H; [discriminate|].
  destruct (pop_min q) as [[m' r']|] eqn:P.
  - destruct (IH _ _ eq_refl) as [Hm [Hr [Hq [Hmin Hlen]]]].
    destruct (node_leb x m') eqn:L; inversion H; subst; clear H.
    + split; [now left|]. split; [intros y Hy; now right|]. split.
      * intros y [E | Hy]; auto.
      * split; [|reflexivity]. intros y [E | Hy]; [subst; apply ole_refl|].
        apply node_leb_f in L. specialize (Hmin _ Hy). eapply ole_trans; eauto.
    + split; [now right|]. split.
      * intros y [E | Hy]; [now left | right; auto].
      * split.
        -- intros y [E | Hy]; [right; now left|]. destruct (Hq _ Hy); auto. right. now right.
        -- split; [|simpl; lia]. intros y [E | Hy]; [subst; now apply node_leb_false_f | auto].
  - inversion H; subst. apply pop_min_none in P. subst q.
    split; [now left|]. split; [intros y []|]. split; [intros y [E | []]; auto|].
    split; [|reflexivity]. intros y [E | []]. subst. apply ole_refl.
Qed.

Section AStar.
Variable g : graph.
Variable start : nat.
Variable ord : nat -> list edge -> list edge.
Variable hz : nat -> Z.                                   (* a finite heuristic ... *)
Let h : nat -> option Z := fun s => Some (hz s).          (* ... as the loop sees it (None would be +inf) *)
Variable tbs : nat -> Z.

Hypothesis Hwf : wf_graph g.
Hypothesis Hstart : (start < g_n g)%nat.

(* h u <= c + h v along every transition, h = 0 on goals (cost convention; msdm is given -h) *)
Definition consistent : Prop :=
  forall s, (s < g_n g)%nat ->
    (g_goal g s = true -> hz s = 0) /\
    (forall e, In e (g_succ g s) -> hz s <= e_cost e + hz (e_dst e)).
Hypothesis Hcons : consistent.
Hypothesis Hord : forall k l e, In e (ord k l) <-> In e l.

Lemma wcost_cost p : wcost e_cost p = cost p.
Proof. reflexivity. Qed.

Lemma consistent_walk v p u : (v < g_n g)%nat -> walk g v p u -> hz v <= cost p + hz u.
Proof.
  intros Hv W. induction W as [v | v e p u He W IH].
  - unfold cost; simpl; lia.
  - destruct (Hwf _ _ Hv He) as [Hd _]. specialize (IH Hd).
    destruct (Hcons _ Hv) as [_ Hc]. specialize (Hc _ He). rewrite cost_cons. lia.
Qed.

Definition OpA (st : astate) (t : nat) (gt : Z) : Prop :=
  exists b, lookup t (a_best st) = Some b /\ nd_g b = gt.

Record ainv (st : astate) (ps : nat) (pend : list edge) : Prop := {
  a_s : sinv g start e_cost (a_came st) (a_visited st) (OpA st) ps pend;
  a_qf : forall nd, In nd (a_queue st) -> nd_f nd = Some (nd_g nd + hz (nd_s nd));
  a_bq : forall t b, lookup t (a_best st) = Some b -> In b (a_queue st) /\ nd_s b = t;
  a_qb : forall nd, In nd (a_queue st) -> ~ In (nd_s nd) (map fst (a_visited st)) ->
           exists b, lookup (nd_s nd) (a_best st) = Some b /\ (b = nd \/ nd_g b < nd_g nd);
  a_vg : forall x gx, In (x, gx) (a_visited st) -> g_goal g x = false
}.

(* ---- initial state ---- *)
Lemma ainv_init : ainv (astar_init start h tbs) start [].
Proof.
  unfold astar_init, a_push. simpl. constructor; simpl.
  - constructor; simpl.
    + constructor.
    + intros t gt [b [L E]]. left. simpl in L.
      destruct (t =? start)%nat eqn:Et; [|discriminate]. apply Nat.eqb_eq in Et.
      inversion L; subst. auto.
    + intros t gt _ [].
    + left. split; auto. exists (Some (0 + hz start), tbs 0%nat, 0, start). simpl. rewrite Nat.eqb_refl. auto.
    + intros x gx e [].
    + intros x gx p [].
  - intros nd [E | []]. subst nd. reflexivity.
  - intros t b L. destruct (t =? start)%nat eqn:Et; [|discriminate]. apply Nat.eqb_eq in Et.
    inversion L; subst. split; [now left | reflexivity].
  - intros nd [E | []] _. subst nd. simpl. rewrite Nat.eqb_refl. eexists. split; eauto.
  - intros x gx [].
Qed.

(* ---- one relaxation ---- *)
Lemma a_relax_visited s gs st e : a_visited (a_relax h tbs s gs st e) = a_visited st.
Proof.
  unfold a_relax. destruct (memn _ _); auto.
  destruct (lookup (e_dst e) (a_best st)) as [b|]; [destruct (nd_g b <=? gs + e_cost e)|]; reflexivity.
Qed.

Lemma a_relax_inv s gs st e pend :
  ainv st s (e :: pend) -> In (s, gs) (a_visited st) -> In e (g_succ g s) ->
  ainv (a_relax h tbs s gs st e) s pend.
Proof.
  intros I Hs He. unfold a_relax.
  destruct (memn (e_dst e) (map fst (a_visited st))) eqn:Mv.
  { (* target closed *)
    apply memn_In in Mv. constructor; try apply I.
    eapply sinv_discharge; eauto. apply I. }
  apply memn_false in Mv.
  set (g' := gs + e_cost e).
  assert (Hskip : forall b, lookup (e_dst e) (a_best st) = Some b -> nd_g b <= g' ->
                  ainv st s pend).
  { intros b L Hle. constructor; try apply I.
    eapply sinv_discharge; eauto. apply I. right. exists (nd_g b). split; auto. exists b. auto. }
  assert (Hpush : (forall b, lookup (e_dst e) (a_best st) = Some b -> g' < nd_g b) ->
    ainv (let st' := a_push tbs st (oplus g' (h (e_dst e))) g' (e_dst e) in
          mkA (a_queue st') (a_best st') (a_visited st') ((e_dst e, (s, e_act e)) :: a_came st') (a_pushes st'))
         s pend).
  { intros Hb. simpl. set (nd := (Some (g' + hz (e_dst e)), tbs (a_pushes st), g', e_dst e) : node).
    constructor; simpl.
    - apply sinv_push with (Op := OpA st) (gs := gs); auto.
      + apply I.
      + intros gy [b [L E]]. specialize (Hb _ L). subst g'. lia.
      + exists nd. simpl. rewrite Nat.eqb_refl. auto.
      + intros gt [b [L E]]. simpl in L. rewrite Nat.eqb_refl in L. inversion L; subst. reflexivity.
      + intros y gy Hy. unfold OpA. simpl. apply Nat.eqb_neq in Hy. rewrite Hy. tauto.
    - intros nd' [E | Hin]; [subst nd'; reflexivity | apply I; auto].
    - intros t b L. destruct (t =? e_dst e)%nat eqn:Et.
      + apply Nat.eqb_eq in Et. inversion L; subst. split; [now left | reflexivity].
      + destruct (a_bq _ _ _ I _ _ L). split; auto.
    - intros nd' Hin Hnv. destruct (nd_s nd' =? e_dst e)%nat eqn:Et.
      + apply Nat.eqb_eq in Et. exists nd. split; auto. destruct Hin as [E | Hin]; auto.
        right. destruct (a_qb _ _ _ I _ Hin Hnv) as [b [L Hor]]. rewrite Et in L.
        specialize (Hb _ L). change (nd_g nd) with g'. destruct Hor as [-> | Hlt]; lia.
      + destruct Hin as [E | Hin].
        * subst nd'. simpl in Et. rewrite Nat.eqb_refl in Et. discriminate.
        * apply (a_qb _ _ _ I _ Hin Hnv).
    - apply I. }
  destruct (lookup (e_dst e) (a_best st)) as [b|] eqn:L.
  - destruct (nd_g b <=? g') eqn:Le.
    + apply Z.leb_le in Le. eapply Hskip; eauto.
    + apply Z.leb_gt in Le. apply Hpush. intros b' Eb. inversion Eb; subst. exact Le.
  - apply Hpush. intros b' Eb. discriminate.
Qed.

Lemma a_expand_inv s gs es : forall st,
  ainv st s es -> In (s, gs) (a_visited st) -> (forall e, In e es -> In e (g_succ g s)) ->
  ainv (a_expand h tbs s gs st es) s [].
Proof.
  induction es as [|e es IH]; intros st I Hs Hes; simpl; auto.
  apply IH.
  - apply a_relax_inv; auto. apply Hes. now left.
  - now rewrite a_relax_visited.
  - intros e' He'. apply Hes. now right.
Qed.

(* ---- the popped node ---- *)
Lemma popped_is_best st ps nd q' :
  ainv st ps [] -> pop_min (a_queue st) = Some (nd, q') ->
  ~ In (nd_s nd) (map fst (a_visited st)) ->
  lookup (nd_s nd) (a_best st) = Some nd.
Proof.
  intros I P Hnv. destruct (pop_min_spec _ _ _ P) as [Hm [_ [_ [Hmin _]]]].
  destruct (a_qb _ _ _ I _ Hm Hnv) as [b [L [E | Hlt]]]; [now subst|].
  destruct (a_bq _ _ _ I _ _ L) as [Hb Es].
  specialize (Hmin _ Hb). rewrite (a_qf _ _ _ I _ Hb), (a_qf _ _ _ I _ Hm), Es in Hmin. simpl in Hmin. lia.
Qed.

(* the popped key is below cost + h of every walk from the start to a state that is not closed *)
Lemma popped_bound st ps nd q' p u :
  ainv st ps [] -> pop_min (a_queue st) = Some (nd, q') ->
  walk g start p u -> ~ In u (map fst (a_visited st)) ->
  nd_g nd + hz (nd_s nd) <= cost p + hz u.
Proof.
  intros I P W Hu. destruct (pop_min_spec _ _ _ P) as [Hm [_ [_ [Hmin _]]]].
  destruct (frontier _ _ _ _ _ _ _ (a_s _ _ _ I) _ _ W Hu) as [p1 [p2 [y [gy [E [W1 [W2 [[b [L Eg]] B]]]]]]]].
  destruct (a_bq _ _ _ I _ _ L) as [Hb Es].
  specialize (Hmin _ Hb). rewrite (a_qf _ _ _ I _ Hb), (a_qf _ _ _ I _ Hm), Es, Eg in Hmin. simpl in Hmin.
  assert (Hy : (y < g_n g)%nat) by (apply (walk_wf _ _ _ _ Hwf Hstart W1)).
  pose proof (consistent_walk _ _ _ Hy W2). rewrite wcost_cost in B.
  subst p. rewrite cost_app. lia.
Qed.

Lemma queue_empty_no_goal st ps p u :
  ainv st ps [] -> a_queue st = [] -> walk g start p u -> g_goal g u = false.
Proof.
  intros I Q W. destruct (g_goal g u) eqn:G; auto. exfalso.
  assert (Hu : ~ In u (map fst (a_visited st))).
  { intros Hin. apply in_map_iff in Hin. destruct Hin as [[x gx] [E Hx]]. simpl in E. subst x.
    rewrite (a_vg _ _ _ I _ _ Hx) in G. discriminate. }
  destruct (frontier _ _ _ _ _ _ _ (a_s _ _ _ I) _ _ W Hu) as [p1 [p2 [y [gy [_ [_ [_ [[b [L _]] _]]]]]]]].
  destruct (a_bq _ _ _ I _ _ L) as [Hb _]. rewrite Q in Hb. contradiction.
Qed.

Definition result_ok (r : sresult) : Prop :=
  match r with
  | Found path acts v _ => valid_plan g start (Some (path, acts, v))
  | NoPlan _ => valid_plan g start None
  | Broken => False
  | OutOfFuel => True
  end.

(* ---- fuel: every iteration pops one node, every expansion pushes at most out-degree many ---- *)
Definition deg (x : nat) : nat := length (g_succ g x).
Definition unexp (Vs l : list nat) : nat :=
  fold_right (fun x acc => if memn x Vs then acc else (deg x + acc)%nat) O l.
Definition mu (st : astate) : nat :=
  (length (a_queue st) + unexp (map fst (a_visited st)) (seq 0 (g_n g)))%nat.

Lemma unexp_total : unexp [] (seq 0 (g_n g)) = total_deg g.
Proof.
  unfold total_deg. induction (seq 0 (g_n g)) as [|x l IH]; simpl; auto.
Qed.

Lemma unexp_close Vs s : ~ In s Vs -> forall l, NoDup l ->
  (In s l -> (unexp (s :: Vs) l + deg s)%nat = unexp Vs l) /\
  (~ In s l -> unexp (s :: Vs) l = unexp Vs l).
Proof.
  intros Hs. induction l as [|x l IH]; intros N.
  - split; [intros [] | reflexivity].
  - inversion N as [|? ? Hx N']; subst. destruct (IH N') as [IH1 IH2]. simpl.
    destruct (Nat.eq_dec x s) as [E | Hn].
    + subst x. rewrite Nat.eqb_refl. simpl. apply memn_false in Hs. rewrite Hs. split.
      * intros _. rewrite IH2 by auto. lia.
      * intros H. exfalso. apply H. now left.
    + apply Nat.eqb_neq in Hn. rewrite Hn. simpl. apply Nat.eqb_neq in Hn. split.
      * intros [E | Hin]; [congruence|]. specialize (IH1 Hin). destruct (memn x Vs); lia.
      * intros H. rewrite IH2 by (intros Hin; apply H; now right). reflexivity.
Qed.

Lemma a_relax_queue s gs st e :
  (length (a_queue (a_relax h tbs s gs st e)) <= S (length (a_queue st)))%nat.
Proof.
  unfold a_relax. destruct (memn _ _); auto.
  destruct (lookup (e_dst e) (a_best st)) as [b|]; [destruct (nd_g b <=? gs + e_cost e)|]; simpl; auto.
Qed.

Lemma a_expand_queue s gs es : forall st,
  (length (a_queue (a_expand h tbs s gs st es)) <= length (a_queue st) + length es)%nat.
Proof.
  induction es as [|e es IH]; intros st; simpl; [lia|].
  specialize (IH (a_relax h tbs s gs st e)). pose proof (a_relax_queue s gs st e). lia.
Qed.

Lemma a_expand_visited s gs es : forall st,
  a_visited (a_expand h tbs s gs st es) = a_visited st.
Proof.
  induction es as [|e es IH]; intros st; simpl; auto. now rewrite IH, a_relax_visited.
Qed.

Definition ord_short : Prop := forall k l, (length (ord k l) <= length l)%nat.

Lemma astar_loop_ok : forall fuel st ps, ainv st ps [] ->
  result_ok (astar_loop g start ord h tbs fuel st) /\
  (ord_short -> (mu st < fuel)%nat -> astar_loop g start ord h tbs fuel st <> OutOfFuel).
Proof.
  induction fuel as [|fuel IH]; intros st ps I; [split; [exact Logic.I | intros _ H; lia]|].
  cbn [astar_loop].
  destruct (pop_min (a_queue st)) as [[nd q']|] eqn:P.
  2:{ split; [|discriminate]. simpl. intros p u W. apply pop_min_none in P. eapply queue_empty_no_goal; eauto. }
  destruct (pop_min_spec _ _ _ P) as [Hm [Hr [Hq [Hmin Hlen]]]].
  destruct (memn (nd_s nd) (map fst (a_visited st))) eqn:Mv.
  { (* stale node *)
    apply memn_In in Mv.
    match goal with |- result_ok (astar_loop _ _ _ _ _ _ ?st') /\ _ =>
      assert (I' : ainv st' ps []) end.
    { constructor; simpl; try apply I.
      - intros nd' Hin. apply (a_qf _ _ _ I). auto.
      - intros t b L. destruct (a_bq _ _ _ I _ _ L) as [Hb Es]. split; auto.
        destruct (Hq _ Hb) as [E | Hin]; auto. exfalso. subst b.
        assert (O : OpA st t (nd_g nd)) by (exists nd; auto).
        apply (s_opv _ _ _ _ _ _ _ _ (a_s _ _ _ I) _ _ O). now rewrite <- Es.
      - intros nd' Hin Hnv. apply (a_qb _ _ _ I); auto. }
    destruct (IH _ _ I') as [IH1 IH2]. split; auto.
    intros Ho Hmu. apply IH2; auto. unfold mu in *. simpl. lia. }
  apply memn_false in Mv.
  pose proof (popped_is_best _ _ _ _ I P Mv) as Lb.
  assert (Ops : OpA st (nd_s nd) (nd_g nd)) by (exists nd; auto).
  assert (Hs : (nd_s nd < g_n g)%nat).
  { destruct (s_opr _ _ _ _ _ _ _ _ (a_s _ _ _ I) _ _ Ops) as [[_ [E _]] | [x [a [gx [e [_ [Hx [He [_ [Ed _]]]]]]]]]].
    - now rewrite E.
    - destruct (closed_realised _ _ _ _ _ _ _ _ _ _ (a_s _ _ _ I) Hx) as [p [W _]].
      rewrite <- Ed. apply (Hwf x); auto. apply (walk_wf _ _ _ _ Hwf Hstart W). }
  rewrite Lb, node_eqb_refl. cbn [negb].          (* the stale-skip branch is dead for finite keys *)
  assert (Hbound : forall p u, walk g start p u -> ~ In u (map fst (a_visited st)) ->
                               nd_g nd + hz (nd_s nd) <= cost p + hz u).
  { intros p u W Hu. eapply popped_bound; eauto. }
  destruct (g_goal g (nd_s nd)) eqn:G.
  { (* goal popped *)
    assert (Hh : hz (nd_s nd) = 0) by (apply (Hcons _ Hs); auto).
    assert (Hmin' : forall p' u', walk g start p' u' -> g_goal g u' = true -> nd_g nd <= cost p').
    { intros p' u' W' G'.
      assert (Hu' : ~ In u' (map fst (a_visited st))).
      { intros Hin. apply in_map_iff in Hin. destruct Hin as [[x gx] [E Hx]]. simpl in E. subst x.
        rewrite (a_vg _ _ _ I _ _ Hx) in G'. discriminate. }
      specialize (Hbound _ _ W' Hu').
      assert (hz u' = 0) by (apply (Hcons u'); auto; apply (walk_wf _ _ _ _ Hwf Hstart W')). lia. }
    destruct (s_opr _ _ _ _ _ _ _ _ (a_s _ _ _ I) _ _ Ops) as [[Ev [Es Eg]] | L].
    - rewrite Ev, Es. simpl. rewrite Nat.eqb_refl. simpl. rewrite Es in G.
      split; [|discriminate].
      exists [], start. split; [constructor|]. split; [exact G|]. split; [reflexivity|].
      split; [reflexivity|]. split; [rewrite Eg; reflexivity | exact Hmin'].
    - destruct (recon_open _ _ _ _ _ _ _ (s_ch _ _ _ _ _ _ _ _ (a_s _ _ _ I)) L) as [p [R [W Cst]]].
      rewrite R. split; [|discriminate]. simpl. exists p, (nd_s nd). repeat split; auto. }
  (* expansion *)
  set (st1 := mkA q' (del (nd_s nd) (a_best st)) ((nd_s nd, nd_g nd) :: a_visited st) (a_came st) (a_pushes st)).
  set (es := ord (length (a_visited st)) (g_succ g (nd_s nd))).
  assert (I2 : ainv (a_expand h tbs (nd_s nd) (nd_g nd) st1 es) (nd_s nd) []).
  { apply a_expand_inv.
  - constructor; simpl.
    + apply sinv_close with (Op := OpA st) (ps := ps); auto.
      * apply I.
      * intros p W. specialize (Hbound _ _ W Mv). rewrite wcost_cost. lia.
      * intros t gt. unfold OpA. simpl. split.
        -- intros [b [L E]]. destruct (Nat.eq_dec t (nd_s nd)) as [Et | Hn].
           ++ subst t. rewrite lookup_del_eq in L. discriminate.
           ++ rewrite lookup_del_neq in L by auto. split; eauto.
        -- intros [[b [L E]] Hn]. exists b. rewrite lookup_del_neq by auto. auto.
      * intros e He. apply Hord. exact He.
    + intros nd' Hin. apply (a_qf _ _ _ I). auto.
    + intros t b L. destruct (Nat.eq_dec t (nd_s nd)) as [Et | Hn].
      * subst t. rewrite lookup_del_eq in L. discriminate.
      * rewrite lookup_del_neq in L by auto. destruct (a_bq _ _ _ I _ _ L) as [Hb Es]. split; auto.
        destruct (Hq _ Hb) as [E | Hin]; auto. subst b. congruence.
    + intros nd' Hin Hnv. simpl in Hnv.
      assert (Hn : nd_s nd' <> nd_s nd) by (intros E; apply Hnv; now left).
      rewrite lookup_del_neq by auto. apply (a_qb _ _ _ I); auto.
    + intros x gx [E | Hx]; [inversion E; subst; auto | eapply a_vg; eauto].
  - simpl. now left.
  - intros e He. apply Hord in He. exact He. }
  destruct (IH _ _ I2) as [IH1 IH2]. split; auto.
  intros Ho Hmu. apply IH2; auto. unfold mu in *.
  rewrite a_expand_visited. pose proof (a_expand_queue (nd_s nd) (nd_g nd) es st1) as Hql.
  simpl in *. specialize (Ho (length (a_visited st)) (g_succ g (nd_s nd))). fold es in Ho.
  destruct (unexp_close (map fst (a_visited st)) (nd_s nd) Mv (seq 0 (g_n g)) (seq_NoDup _ _)) as [Hu _].
  specialize (Hu ltac:(apply in_seq; lia)). unfold deg in Hu. lia.
Qed.

(* a returned path is a real walk of least cost; falling through means no goal is reachable *)
Theorem astar_sound_optimal : result_ok (astar g start ord h tbs).
Proof. unfold astar. apply (astar_loop_ok _ _ start ainv_init). Qed.

(* the fuel 2 + (number of transitions) is never exhausted *)
Theorem astar_terminates : ord_short -> astar g start ord h tbs <> OutOfFuel.
Proof.
  intros Ho. unfold astar.
  destruct (astar_loop_ok (S (S (total_deg g))) _ start ainv_init) as [_ H]. apply H; [exact Ho|].
  unfold mu, astar_init, a_push. simpl. rewrite unexp_total. lia.
Qed.

End AStar.

(* ---- closed statements ---- *)
Lemma consistentb_sound g hz : consistentb g (fun s => Some (hz s)) = true -> consistent g hz.
Proof.
  unfold consistentb, consistent. intros H s Hs. rewrite forallb_forall in H.
  specialize (H s ltac:(apply in_seq; lia)). apply andb_true_iff in H. destruct H as [H1 H2]. split.
  - intros G. rewrite G in H1. simpl in H1. now apply Z.eqb_eq.
  - intros e He. rewrite forallb_forall in H2. specialize (H2 _ He). simpl in H2. now apply Z.leb_le.
Qed.

Definition ord_ok (ord : nat -> list edge -> list edge) : Prop :=
  (forall k l e, In e (ord k l) <-> In e l) /\ (forall k l, (length (ord k l) <= length l)%nat).

Theorem astar_total g start ord hz tbs :
  wf_graph g -> (start < g_n g)%nat -> consistent g hz -> ord_ok ord ->
  match astar g start ord (fun s => Some (hz s)) tbs with
  | Found path acts v _ => valid_plan g start (Some (path, acts, v))
  | NoPlan _ => valid_plan g start None
  | Broken | OutOfFuel => False
  end.
Proof.
  intros Hwf Hs Hc [Ho1 Ho2].
  pose proof (astar_sound_optimal g start ord hz tbs Hwf Hs Hc Ho1) as H1.
  pose proof (astar_terminates g start ord hz tbs Hwf Hs Hc Ho1 Ho2) as H2.
  destruct (astar g start ord (fun s => Some (hz s)) tbs); simpl in *; auto.
Qed.

(* sound + optimal: the returned path is a real path to a goal, its reported value is the sum of
   its costs, and no path to any goal costs less *)
Theorem astar_sound_optimal_found g start ord hz tbs path acts v vis :
  wf_graph g -> (start < g_n g)%nat -> consistent g hz -> ord_ok ord ->
  astar g start ord (fun s => Some (hz s)) tbs = Found path acts v vis ->
  exists p u, walk g start p u /\ g_goal g u = true /\ verts start p = path /\ map e_act p = acts /\
              cost p = v /\
              (forall p' u', walk g start p' u' -> g_goal g u' = true -> v <= cost p').
Proof.
  intros Hwf Hs Hc Ho E. pose proof (astar_total g start ord hz tbs Hwf Hs Hc Ho) as H. rewrite E in H. exact H.
Qed.

Theorem astar_complete g start ord hz tbs :
  wf_graph g -> (start < g_n g)%nat -> consistent g hz -> ord_ok ord ->
  ((exists vis, astar g start ord (fun s => Some (hz s)) tbs = NoPlan vis) <->
   (forall p u, walk g start p u -> g_goal g u = false)).
Proof.
  intros Hwf Hs Hc Ho. pose proof (astar_total g start ord hz tbs Hwf Hs Hc Ho) as H. split.
  - intros [vis E]. rewrite E in H. exact H.
  - intros Hn. destruct (astar g start ord (fun s => Some (hz s)) tbs) as [| |vis|path acts v vis]; try contradiction.
    + eauto.
    + destruct H as [p [u [W [G _]]]]. rewrite (Hn _ _ W) in G. discriminate.
Qed.

Theorem astar_complete_total g start ord hz tbs :
  wf_graph g -> (start < g_n g)%nat -> consistent g hz -> ord_ok ord ->
  ((exists vis, astar g start ord (fun s => Some (hz s)) tbs = NoPlan vis) <->
   (forall p u, walk g start p u -> g_goal g u = false)) /\
  astar g start ord (fun s => Some (hz s)) tbs <> OutOfFuel /\ astar g start ord (fun s => Some (hz s)) tbs <> Broken.
Proof.
  intros Hwf Hs Hc Ho. split; [apply astar_complete; auto|].
  pose proof (astar_total g start ord hz tbs Hwf Hs Hc Ho) as H.
  destruct (astar g start ord (fun s => Some (hz s)) tbs); split; try discriminate; contradiction.
Qed.

(* non-vacuity: a consistent non-zero heuristic (the exact distances) on the example graph; lifo
   tie-breaking; the loop returns the cost-3 path through the zero-cost edge *)
Example astar_example :
  let hx := hz_of [3; 2; 2; 0; 0] in
  wf_graph ex_graph /\ (0 < g_n ex_graph)%nat /\ consistent ex_graph hx /\ ord_ok (fun _ l => l) /\
  astar ex_graph 0 (fun _ l => l) (fun s => Some (hx s)) tbs_lifo = Found [0; 1; 2; 3]%nat [0; 0; 0]%nat 3 [2; 1; 0]%nat.
Proof.
  split; [apply wf_graphb_sound; reflexivity|]. split; [simpl; lia|].
  split; [apply consistentb_sound; reflexivity|].
  split; [split; [intros k l e; tauto | intros k l; lia] | reflexivity].
Qed.

(* ---- potential certificate (model/Search.v pot_clauses): a consistent potential that vanishes on
   goals and equals the reported value at the start proves the value minimal ---- *)
Theorem pot_cert_sound g start phi r :
  wf_graph g -> (start < g_n g)%nat -> pot_cert g start phi r = true ->
  r <> None /\ valid_plan g start r.
Proof.
  intros Hwf Hs H. unfold pot_cert, pot_clauses in H.
  destruct r as [[[path acts] v]|]; [|simpl in H; discriminate].
  split; [discriminate|]. simpl.
  destruct path as [|s0 rest]; [simpl in H; discriminate|].
  destruct (path_edges g s0 rest acts) as [p|] eqn:Pe.
  2:{ simpl in H. rewrite !andb_false_r in H. discriminate. }
  simpl in H. repeat (apply andb_true_iff in H; destruct H as [H ?]).
  apply Nat.eqb_eq in H; subst s0.
  destruct (path_edges_sound _ _ _ _ _ Pe) as [W [V M]].
  exists p, (last (start :: rest) start). repeat split; auto.
  - apply Z.eqb_eq; auto.
  - intros p' u' W' G'.
    match goal with Hc : _ && (phi start =? v) = true |- _ => apply andb_true_iff in Hc; destruct Hc as [Hc He] end.
    match goal with Hc : consistentb _ _ = true |- _ => apply consistentb_sound in Hc;
      pose proof (consistent_walk g start phi Hwf Hs Hc start p' u' Hs W') as B;
      destruct (Hc u' ltac:(apply (walk_wf _ _ _ _ Hwf Hs W'))) as [Hz _]; specialize (Hz G') end.
    match goal with He : (phi start =? v) = true |- _ => apply Z.eqb_eq in He end. lia.
Qed.

Theorem bfs_pot_cert_sound g start phi r :
  wf_graph g -> (start < g_n g)%nat -> bfs_pot_cert g start phi r = true ->
  r <> None /\ valid_bfs_plan g start r.
Proof.
  intros Hwf Hs H. unfold bfs_pot_cert in H.
  apply pot_cert_sound in H; [|apply wf_unit; auto | exact Hs]. destruct H as [Hn H].
  destruct r as [[path acts]|]; simpl in *; [|congruence]. split; [discriminate|].
  destruct H as [p [u [W [G [V [M [C Hmin]]]]]]].
  destruct (unit_walk _ _ _ _ W) as [p' [W' E]]. subst p.
  exists p', u. rewrite verts_unit in V. rewrite acts_unit in M. rewrite cost_unit in C.
  repeat split; auto. intros p2 u2 W2 G2.
  specialize (Hmin _ _ (walk_unit _ _ _ _ W2) G2). rewrite cost_unit in Hmin. lia.
Qed.

Example pot_cert_example :
  pot_cert ex_graph 0 (hz_of [3; 2; 2; 0; 0]) (Some ([0; 1; 2; 3]%nat, [0; 0; 0]%nat, 3)) = true /\
  pot_cert ex_graph 0 (hz_of [3; 2; 2; 0; 0]) (Some ([0; 2; 3]%nat, [1; 0]%nat, 6)) = false /\
  bfs_pot_cert ex_graph 0 (hz_of [2; 2; 1; 0; 0]) (Some ([0; 2; 3]%nat, [1; 0]%nat)) = true.
Proof. repeat split; reflexivity. Qed.
