(* PBVITheory.v — C08: PBVI is a lower bound, QMDP an upper bound of the optimal POMDP value;
   horizon tail; policy checker soundness.  All statements for POMDPs of ANY size (nS, nA, nO),
   R instance of model/PBVI.v. *)
From Coq Require Import Reals Lra Lia List Arith Bool.
From MSDM Require Import base.Num base.NumInst base.NumR model.MDP model.POMDP model.PBVI
     theory.Bellman.
Import ListNotations.
Local Open Scope R_scope.

Lemma neqb_Req' x y : @neqb R NumR x y = true <-> x = y.
Proof.
  unfold neqb; numR. rewrite andb_true_iff, !Rleb_true. split; [lra|intros ->; lra].
Qed.
Lemma nleb_Rle' x y : @nleb R NumR x y = true <-> x <= y.
Proof. numR. apply Rleb_true. Qed.

Lemma retab_eq n (f : nat -> R) i : (i < n)%nat -> retab n f i = f i.
Proof. intros Hi. unfold retab. apply (untab_tab n f i Hi). Qed.

Lemma maxf_all_some n (f : nat -> R) : (0 < n)%nat -> exists x, maxf n (fun _ => true) f = Some x.
Proof. intros Hn. apply (maxf_some_ex n (fun _ => true) f 0%nat Hn eq_refl). Qed.

(* sum_s u s * (r s + g * sum_o sum_ns t o s ns * c o ns)
   = sum_s u s * r s + g * sum_o sum_ns (sum_s u s * t o s ns) * c o ns *)
Lemma dot_backup nS nO (u r : nat -> R) (t : nat -> nat -> nat -> R) (c : nat -> nat -> R) g :
  sumf nS (fun s => u s * (r s + g * sumf nO (fun o => sumf nS (fun ns => t o s ns * c o ns)))) =
  sumf nS (fun s => u s * r s) +
  g * sumf nO (fun o => sumf nS (fun ns => sumf nS (fun s => u s * t o s ns) * c o ns)).
Proof.
  rewrite <- sumf_scal.
  transitivity (sumf nS (fun s => u s * r s + g * (u s * sumf nO (fun o => sumf nS (fun ns => t o s ns * c o ns))))).
  { apply sumf_ext. intros s _. lra. }
  rewrite sumf_plus. f_equal. rewrite sumf_scal, sumf_scal. f_equal.
  transitivity (sumf nS (fun s => sumf nO (fun o => sumf nS (fun ns => u s * t o s ns * c o ns)))).
  { apply sumf_ext. intros s _. rewrite <- sumf_scal. apply sumf_ext. intros o _.
    rewrite <- sumf_scal. apply sumf_ext. intros ns _. lra. }
  rewrite sumf_swap. apply sumf_ext. intros o _. rewrite sumf_swap. apply sumf_ext. intros ns _.
  rewrite <- sumf_scal_r. reflexivity.
Qed.

Section Theory.
Variable p : pomdp R.
Notation m := (base p).
Notation nSp := (nS (base p)).
Notation nAp := (nA (base p)).
Notation nOp := (nO p).
Variable tO : nat -> nat -> nat -> nat -> R.
Variable rM : nat -> nat -> R.

Notation dot := (dot p).
Notation step := (step p tO).
Notation stepf := (stepf p tO).
Notation Wopt := (Wopt p tO rM).

Definition nonneg (u : nat -> R) : Prop := forall s, (s < nSp)%nat -> 0 <= u s.

(* the hypotheses the lower bound needs: only signs *)
Record wf0 : Prop := {
  w0_g : 0 <= gamma m;
  w0_t : forall a o s ns, (a < nAp)%nat -> (o < nOp)%nat -> (s < nSp)%nat -> (ns < nSp)%nat ->
         0 <= tO a o s ns
}.

Lemma dot_ext u u' al al' :
  (forall s, (s < nSp)%nat -> u s = u' s) -> (forall s, (s < nSp)%nat -> al s = al' s) ->
  dot u al = dot u' al'.
Proof. intros H1 H2. apply sumf_ext. intros s Hs. now rewrite H1, H2. Qed.

Lemma step_eq u a o ns : (ns < nSp)%nat -> step u a o ns = stepf u a o ns.
Proof. intros H. unfold PBVI.step. now apply retab_eq. Qed.

Lemma stepf_ext u u' a o ns :
  (forall s, (s < nSp)%nat -> u s = u' s) -> stepf u a o ns = stepf u' a o ns.
Proof. intros H. apply sumf_ext. intros s Hs. now rewrite H. Qed.

Lemma Wopt_ext k : forall u u', (forall s, (s < nSp)%nat -> u s = u' s) -> Wopt k u = Wopt k u'.
Proof.
  induction k; intros u u' H; [reflexivity|]. cbn [PBVI.Wopt]. f_equal.
  apply maxf_ext; [reflexivity|]. intros a Ha _. numR. f_equal.
  - apply dot_ext; auto.
  - f_equal. apply sumf_ext. intros o Ho. apply IHk. intros s Hs.
    rewrite !step_eq by auto. now apply stepf_ext.
Qed.

Lemma step_nonneg u a o :
  wf0 -> nonneg u -> (a < nAp)%nat -> (o < nOp)%nat -> nonneg (step u a o).
Proof.
  intros W Hu Ha Ho ns Hns. rewrite step_eq by auto. apply sumf_nonneg. intros s Hs.
  apply Rmult_le_pos; [apply Hu; auto|apply (w0_t W); auto].
Qed.

Lemma Wopt_S k u :
  Wopt (S k) u = odflt 0 (maxf nAp (fun _ => true) (fun a =>
     dot u (fun s => rM s a) + gamma m * sumf nOp (fun o => Wopt k (step u a o)))).
Proof. reflexivity. Qed.

(* ------------------------------------------------------------------ *)
(* 1. PBVI never over-estimates                                        *)
(* ------------------------------------------------------------------ *)
(* alpha vectors obtainable by k backups from the zero vector, for ANY choice of the action
   and of the successor vector per observation (hence any belief set, any tie-breaking) *)
Inductive gen : nat -> (nat -> R) -> Prop :=
| gen0 al : (forall s, (s < nSp)%nat -> al s = 0) -> gen 0 al
| genS k a ch al :
    (a < nAp)%nat -> (forall o, (o < nOp)%nat -> gen k (ch o)) ->
    (forall s, (s < nSp)%nat ->
       al s = rM s a + gamma m * sumf nOp (fun o => sumf nSp (fun ns => tO a o s ns * ch o ns))) ->
    gen (S k) al.

Theorem pbvi_lower k al :
  wf0 -> gen k al -> forall u, nonneg u -> dot u al <= Wopt k u.
Proof.
  intros W G. induction G as [al H0|k a ch al Ha Hch IH Hal]; intros u Hu.
  - cbn [PBVI.Wopt]. numR. unfold PBVI.dot. rewrite sumf_0; [lra|].
    intros s Hs. rewrite (H0 s Hs). numR. lra.
  - rewrite Wopt_S.
    destruct (maxf_all_some nAp (fun a => dot u (fun s => rM s a) +
        gamma m * sumf nOp (fun o => Wopt k (step u a o)))) as (x & Hx); [lia|].
    rewrite Hx. cbn [odflt].
    eapply Rle_trans; [|apply (maxf_ge _ _ _ _ a Hx Ha eq_refl)].
    assert (E : dot u al = dot u (fun s => rM s a) +
              gamma m * sumf nOp (fun o => sumf nSp (fun ns => stepf u a o ns * ch o ns))).
    { unfold PBVI.dot, PBVI.stepf. numR.
      etransitivity;
        [|apply (dot_backup nSp nOp u (fun s => rM s a) (fun o s ns => tO a o s ns) ch (gamma m))].
      apply sumf_ext. intros s Hs. now rewrite (Hal s Hs). }
    rewrite E. apply Rplus_le_compat_l, Rmult_le_compat_l; [apply (w0_g W)|].
    apply sumf_le. intros o Ho.
    eapply Rle_trans; [|apply (IH o Ho (step u a o)); apply step_nonneg; auto].
    apply Req_le. apply sumf_ext. intros ns Hns. now rewrite step_eq.
Qed.

(* ------------------------------------------------------------------ *)
(* 2. QMDP never under-estimates                                       *)
(* ------------------------------------------------------------------ *)
Record wfp : Prop := {
  wp_mdp : wf m;
  wp_g1 : gamma m < 1;
  wp_nA : (0 < nAp)%nat;
  wp_ob : forall a ns o, (a < nAp)%nat -> (ns < nSp)%nat -> (o < nOp)%nat -> 0 <= Ob p a ns o;
  wp_obs : forall a ns, (a < nAp)%nat -> (ns < nSp)%nat -> sumf nOp (Ob p a ns) = 1;
  wp_tO : forall a o s ns, (a < nAp)%nat -> (o < nOp)%nat -> (s < nSp)%nat -> (ns < nSp)%nat ->
          tO a o s ns = Pm m s a ns * Ob p a ns o;
  wp_rM : forall s a, (s < nSp)%nat -> (a < nAp)%nat -> rM s a = Rm m s a
}.

Lemma wfp_wf0 : wfp -> wf0.
Proof.
  intros W. constructor; [apply (wf_gamma0 _ (wp_mdp W))|].
  intros a o s ns Ha Ho Hs Hns. rewrite (wp_tO W) by auto.
  apply Rmult_le_pos; [apply (wf_Pnn _ (wp_mdp W)); auto|apply (wp_ob W); auto].
Qed.

(* one-step identity: reward + gamma * sum_o <step u a o, V> = sum_s Q_V(s,a) u(s) *)
Lemma qstep_id V u a :
  wfp -> (a < nAp)%nat ->
  dot u (fun s => rM s a) +
  gamma m * sumf nOp (fun o => sumf nSp (fun ns => stepf u a o ns * V ns)) =
  sumf nSp (fun s => Qval m V s a * u s).
Proof.
  intros W Ha. unfold PBVI.dot, PBVI.stepf. numR.
  rewrite <- (dot_backup nSp nOp u (fun s => rM s a) (fun o s ns => tO a o s ns) (fun _ => V) (gamma m)).
  apply sumf_ext. intros s Hs. rewrite Qval_R, (wp_rM W) by auto.
  rewrite Rmult_comm. f_equal. f_equal. f_equal.
  rewrite sumf_swap. apply sumf_ext. intros ns Hns.
  transitivity (sumf nOp (fun o => (Pm m s a ns * V ns) * Ob p a ns o)).
  { apply sumf_ext. intros o Ho. rewrite (wp_tO W) by auto. lra. }
  rewrite sumf_scal, (wp_obs W) by auto. lra.
Qed.

Lemma qmdp_step k V u a :
  wfp -> (forall u', nonneg u' -> Wopt k u' <= sumf nSp (fun s => u' s * V s)) ->
  nonneg u -> (a < nAp)%nat ->
  dot u (fun s => rM s a) + gamma m * sumf nOp (fun o => Wopt k (step u a o))
  <= sumf nSp (fun s => Qval m V s a * u s).
Proof.
  intros W H Hu Ha. rewrite <- (qstep_id V u a W Ha).
  apply Rplus_le_compat_l, Rmult_le_compat_l; [apply (wf_gamma0 _ (wp_mdp W))|].
  apply sumf_le. intros o Ho.
  eapply Rle_trans; [apply (H (step u a o)); apply step_nonneg; auto using wfp_wf0|].
  apply Req_le. apply sumf_ext. intros ns Hns. now rewrite step_eq.
Qed.

Lemma Vk_S k s :
  wfp -> (s < nSp)%nat ->
  maxf nAp (fun _ => true) (Qval m (Vk p k) s) = Some (Vk p (S k) s).
Proof.
  intros W Hs. cbn [Vk]. rewrite retab_eq by auto.
  destruct (maxf_all_some nAp (Qval m (Vk p k) s) (wp_nA W)) as (x & Hx). now rewrite Hx.
Qed.

Lemma max_dot_le (Qt : nat -> nat -> R) (V u : nat -> R) x :
  nonneg u -> (forall s, (s < nSp)%nat -> maxf nAp (fun _ => true) (Qt s) = Some (V s)) ->
  maxf nAp (fun _ => true) (fun a => sumf nSp (fun s => Qt s a * u s)) = Some x ->
  x <= sumf nSp (fun s => u s * V s).
Proof.
  intros Hu HV Hx. eapply maxf_le_bound; [exact Hx|]. intros a Ha _.
  apply sumf_le. intros s Hs. rewrite Rmult_comm.
  apply Rmult_le_compat_l; [apply Hu; auto|]. eapply maxf_ge; [apply HV; auto|auto|reflexivity].
Qed.

Lemma Wopt_le_Vk k : wfp -> forall u, nonneg u -> Wopt k u <= sumf nSp (fun s => u s * Vk p k s).
Proof.
  intros W. induction k; intros u Hu.
  - cbn [PBVI.Wopt Vk]. numR. rewrite sumf_0; [lra|]. intros; lra.
  - rewrite Wopt_S.
    destruct (maxf_all_some nAp (fun a => dot u (fun s => rM s a) +
        gamma m * sumf nOp (fun o => Wopt k (step u a o))) (wp_nA W)) as (x & Hx).
    rewrite Hx. cbn [odflt].
    destruct (maxf_all_some nAp (fun a => sumf nSp (fun s => Qval m (Vk p k) s a * u s)) (wp_nA W))
      as (y & Hy).
    apply Rle_trans with y.
    + eapply maxf_mono; [exact Hx|exact Hy|]. intros a Ha _. apply qmdp_step; auto.
    + apply (max_dot_le (Qval m (Vk p k)) (Vk p (S k)) u y Hu); auto.
      intros s Hs. apply Vk_S; auto.
Qed.

(* the (k+1)-horizon optimum is at most the QMDP value built from k-step value iteration *)
Theorem qmdp_upper k u :
  wfp -> nonneg u -> Wopt (S k) u <= odflt 0 (qmdp_value p (Qval m (Vk p k)) u).
Proof.
  intros W Hu. rewrite Wopt_S. unfold qmdp_value, qmdp_action_value.
  destruct (maxf_all_some nAp (fun a => dot u (fun s => rM s a) +
      gamma m * sumf nOp (fun o => Wopt k (step u a o))) (wp_nA W)) as (x & Hx).
  destruct (maxf_all_some nAp (fun a => sumf nSp (fun s => Qval m (Vk p k) s a * u s)) (wp_nA W))
    as (y & Hy).
  rewrite Hx. numR. rewrite Hy. cbn [odflt].
  eapply maxf_mono; [exact Hx|exact Hy|]. intros a Ha _. apply qmdp_step; auto.
  apply Wopt_le_Vk; auto.
Qed.

(* PBVI after j sweeps is below the j-step QMDP value (no expectimax needed) *)
Corollary pbvi_le_qmdp j al u :
  wfp -> gen (S j) al -> nonneg u ->
  dot u al <= odflt 0 (qmdp_value p (Qval m (Vk p j)) u).
Proof.
  intros W G Hu. eapply Rle_trans; [apply (pbvi_lower (S j) al (wfp_wf0 W) G u Hu)|apply qmdp_upper; auto].
Qed.

(* ------------------------------------------------------------------ *)
(* 3. horizon tail                                                     *)
(* ------------------------------------------------------------------ *)
Definition mass (u : nat -> R) : R := sumf nSp u.

Lemma mass_nonneg u : nonneg u -> 0 <= mass u.
Proof. intros H. apply sumf_nonneg. exact H. Qed.

Lemma mass_step u a :
  wfp -> nonneg u -> (a < nAp)%nat -> sumf nOp (fun o => mass (step u a o)) <= mass u.
Proof.
  intros W Hu Ha. unfold mass.
  apply Rle_trans with (sumf nSp (fun s => u s * sumf nSp (Pm m s a))).
  - apply Req_le.
    transitivity (sumf nOp (fun o => sumf nSp (fun s => sumf nSp (fun ns => u s * tO a o s ns)))).
    { apply sumf_ext. intros o Ho. rewrite sumf_swap. apply sumf_ext. intros ns Hns.
      now rewrite step_eq. }
    rewrite sumf_swap. apply sumf_ext. intros s Hs.
    transitivity (sumf nOp (fun o => u s * sumf nSp (fun ns => Pm m s a ns * Ob p a ns o))).
    { apply sumf_ext. intros o Ho. rewrite <- sumf_scal. apply sumf_ext. intros ns Hns.
      now rewrite (wp_tO W). }
    rewrite sumf_scal. f_equal. rewrite sumf_swap. apply sumf_ext. intros ns Hns.
    rewrite sumf_scal, (wp_obs W) by auto. lra.
  - apply sumf_le. intros s Hs. pose proof (wf_Psub _ (wp_mdp W) s a Hs Ha) as H1.
    pose proof (Hu s Hs). nra.
Qed.

Fixpoint Bj (M : R) (j : nat) : R := match j with O => 0 | S j' => M + gamma m * Bj M j' end.

Lemma Bj_bounds M j : wfp -> 0 <= M -> 0 <= Bj M j <= M / (1 - gamma m).
Proof.
  intros W HM. pose proof (wf_gamma0 _ (wp_mdp W)) as G0. pose proof (wp_g1 W) as G1.
  assert (HD : 0 <= M / (1 - gamma m)).
  { apply Rmult_le_pos; [lra|]. left. apply Rinv_0_lt_compat. lra. }
  induction j; cbn [Bj]; [lra|]. destruct IHj as [I1 I2]. split; [nra|].
  assert (E : M / (1 - gamma m) = M + gamma m * (M / (1 - gamma m))) by (field; lra).
  rewrite E. apply Rplus_le_compat_l, Rmult_le_compat_l; auto.
Qed.

Definition rbound (M : R) : Prop :=
  forall s a, (s < nSp)%nat -> (a < nAp)%nat -> Rabs (rM s a) <= M.

Lemma dot_reward_bound M u a :
  rbound M -> nonneg u -> (a < nAp)%nat -> Rabs (dot u (fun s => rM s a)) <= mass u * M.
Proof.
  intros HM Hu Ha. unfold PBVI.dot, mass. numR.
  eapply Rle_trans; [apply sumf_abs|]. rewrite <- sumf_scal_r. apply sumf_le. intros s Hs.
  rewrite Rabs_mult, (Rabs_right (u s)) by (apply Rle_ge, Hu; auto).
  apply Rmult_le_compat_l; [apply Hu; auto|apply HM; auto].
Qed.

Lemma Wopt_bound M j :
  wfp -> 0 <= M -> rbound M -> forall u, nonneg u -> Rabs (Wopt j u) <= mass u * Bj M j.
Proof.
  intros W HM0 HM. pose proof (wf_gamma0 _ (wp_mdp W)) as G0.
  induction j; intros u Hu.
  - cbn [PBVI.Wopt Bj]. numR. rewrite Rabs_R0. lra.
  - rewrite Wopt_S.
    destruct (maxf_all_some nAp (fun a => dot u (fun s => rM s a) +
        gamma m * sumf nOp (fun o => Wopt j (step u a o))) (wp_nA W)) as (x & Hx).
    rewrite Hx. cbn [odflt Bj].
    destruct (maxf_attained _ _ _ _ Hx) as (a & Ha & _ & <-).
    eapply Rle_trans; [apply Rabs_triang|].
    pose proof (dot_reward_bound M u a HM Hu Ha) as H1.
    assert (H2 : Rabs (gamma m * sumf nOp (fun o => Wopt j (step u a o)))
                 <= gamma m * (mass u * Bj M j)).
    { rewrite Rabs_mult, (Rabs_right (gamma m)) by lra. apply Rmult_le_compat_l; [lra|].
      eapply Rle_trans; [apply sumf_abs|].
      apply Rle_trans with (sumf nOp (fun o => mass (step u a o) * Bj M j)).
      - apply sumf_le. intros o Ho. apply IHj. apply step_nonneg; auto using wfp_wf0.
      - rewrite sumf_scal_r. apply Rmult_le_compat_r; [apply (Bj_bounds M j W HM0)|].
        apply mass_step; auto. }
    lra.
Qed.

Lemma tail_gen M j k :
  wfp -> 0 <= M -> rbound M -> forall u, nonneg u ->
  Rabs (Wopt k u - Wopt (k + j) u) <= gamma m ^ k * (mass u * Bj M j).
Proof.
  intros W HM0 HM. pose proof (wf_gamma0 _ (wp_mdp W)) as G0.
  induction k; intros u Hu.
  - cbn [PBVI.Wopt plus pow]. numR. rewrite Rminus_0_l, Rabs_Ropp, Rmult_1_l.
    apply Wopt_bound; auto.
  - change (S k + j)%nat with (S (k + j)). rewrite !Wopt_S.
    destruct (maxf_all_some nAp (fun a => dot u (fun s => rM s a) +
        gamma m * sumf nOp (fun o => Wopt k (step u a o))) (wp_nA W)) as (x & Hx).
    destruct (maxf_all_some nAp (fun a => dot u (fun s => rM s a) +
        gamma m * sumf nOp (fun o => Wopt (k + j) (step u a o))) (wp_nA W)) as (y & Hy).
    rewrite Hx, Hy. cbn [odflt].
    eapply maxf_nonexp; [exact Hx|exact Hy|]. intros a Ha _.
    match goal with |- Rabs ?e <= _ =>
      replace e with (gamma m * (sumf nOp (fun o => Wopt k (step u a o)) -
                                 sumf nOp (fun o => Wopt (k + j) (step u a o)))) by lra end.
    rewrite Rabs_mult, (Rabs_right (gamma m)) by lra.
    cbn [pow]. rewrite Rmult_assoc. apply Rmult_le_compat_l; [lra|].
    rewrite <- sumf_minus. eapply Rle_trans; [apply sumf_abs|].
    apply Rle_trans with (sumf nOp (fun o => gamma m ^ k * (mass (step u a o) * Bj M j))).
    + apply sumf_le. intros o Ho. apply IHk. apply step_nonneg; auto using wfp_wf0.
    + rewrite sumf_scal. apply Rmult_le_compat_l; [apply pow_le; lra|].
      rewrite sumf_scal_r. apply Rmult_le_compat_r; [apply (Bj_bounds M j W HM0)|].
      apply mass_step; auto.
Qed.

(* |Wopt k u - Wopt n u| <= ||u||_1 * gamma^k * M/(1-gamma)  for every n >= k *)
Theorem horizon_tail M k n u :
  wfp -> 0 <= M -> rbound M -> nonneg u -> (k <= n)%nat ->
  Rabs (Wopt k u - Wopt n u) <= (mass u * gamma m ^ k) * (M / (1 - gamma m)).
Proof.
  intros W HM0 HM Hu Hkn. replace n with (k + (n - k))%nat by lia.
  eapply Rle_trans; [apply (tail_gen M (n - k) k W HM0 HM u Hu)|].
  pose proof (Bj_bounds M (n - k) W HM0) as [B0 B1].
  pose proof (mass_nonneg u Hu) as Hm.
  assert (Hp : 0 <= gamma m ^ k) by (apply pow_le, (wf_gamma0 _ (wp_mdp W))).
  rewrite (Rmult_comm (mass u)), Rmult_assoc.
  apply Rmult_le_compat_l; [auto|]. apply Rmult_le_compat_l; auto.
Qed.

End Theory.
