(* PBVITheory.v — C08: PBVI is a lower bound, QMDP an upper bound of the optimal POMDP value;
   horizon tail; policy checker soundness.  All statements for POMDPs of ANY size (nS, nA, nO),
   R instance of model/PBVI.v. *)
From Coq Require Import Reals Lra Lia List Arith Bool.
From MSDM Require Import base.Num base.NumInst base.NumR model.MDP model.POMDP model.PBVI
     theory.Bellman.
Import ListNotations.
Local Open Scope R_scope.

Lemma neqb_Req' x y : @neqb R NumR x y = true <-> x = y.
Proof.
  unfold neqb; numR. rewrite andb_true_iff, !Rleb_true. split; [lra|intros ->; lra].
Qed.
Lemma nleb_Rle' x y : @nleb R NumR x y = true <-> x <= y.
Proof. numR. apply Rleb_true. Qed.

Lemma retab_eq n (f : nat -> R) i : (i < n)%nat -> retab n f i = f i.
Proof. intros Hi. unfold retab. apply (untab_tab n f i Hi). Qed.

Lemma maxf_all_some n (f : nat -> R) : (0 < n)%nat -> exists x, maxf n (fun _ => true) f = Some x.
Proof. intros Hn. apply (maxf_some_ex n (fun _ => true) f 0%nat Hn eq_refl). Qed.

(* sum_s u s * (r s + g * sum_o sum_ns t o s ns * c o ns)
   = sum_s u s * r s + g * sum_o sum_ns (sum_s u s * t o s ns) * c o ns *)
Lemma dot_backup nS nO (u r : nat -> R) (t : nat -> nat -> nat -> R) (c : nat -> nat -> R) g :
  sumf nS (fun s => u s * (r s + g * sumf nO (fun o => sumf nS (fun ns => t o s ns * c o ns)))) =
  sumf nS (fun s => u s * r s) +
  g * sumf nO (fun o => sumf nS (fun ns => sumf nS (fun s => u s * t o s ns) * c o ns)).
Proof.
  rewrite <- sumf_scal.
  transitivity (sumf nS (fun s => u s * r s + g * (u s * sumf nO (fun o => sumf nS (fun ns => t o s ns * c o ns))))).
  { apply sumf_ext. intros s _. lra. }
  rewrite sumf_plus. f_equal. rewrite sumf_scal, sumf_scal. f_equal.
  transitivity (sumf nS (fun s => sumf nO (fun o => sumf nS (fun ns => u s * t o s ns * c o ns)))).
  { apply sumf_ext. intros s _. rewrite <- sumf_scal. apply sumf_ext. intros o _.
    rewrite <- sumf_scal. apply sumf_ext. intros ns _. lra. }
  rewrite sumf_swap. apply sumf_ext. intros o _. rewrite sumf_swap. apply sumf_ext. intros ns _.
  rewrite <- sumf_scal_r. reflexivity.
Qed.

Section Theory.
Variable p : pomdp R.
Notation m := (base p).
Notation nSp := (nS (base p)).
Notation nAp := (nA (base p)).
Notation nOp := (nO p).
Variable tO : nat -> nat -> nat -> nat -> R.
Variable rM : nat -> nat -> R.

Notation dot := (dot p).
Notation step := (step p tO).
Notation stepf := (stepf p tO).
Notation Wopt := (Wopt p tO rM).

Definition nonneg (u : nat -> R) : Prop := forall s, (s < nSp)%nat -> 0 <= u s.

(* the hypotheses the lower bound needs: only signs *)
Record wf0 : Prop := {
  w0_g : 0 <= gamma m;
  w0_t : forall a o s ns, (a < nAp)%nat -> (o < nOp)%nat -> (s < nSp)%nat -> (ns < nSp)%nat ->
         0 <= tO a o s ns
}.

Lemma dot_ext u u' al al' :
  (forall s, (s < nSp)%nat -> u s = u' s) -> (forall s, (s < nSp)%nat -> al s = al' s) ->
  dot u al = dot u' al'.
Proof. intros H1 H2. apply sumf_ext. intros s Hs. now rewrite H1, H2. Qed.

Lemma step_eq u a o ns : (ns < nSp)%nat -> step u a o ns = stepf u a o ns.
Proof. intros H. unfold PBVI.step. now apply retab_eq. Qed.

Lemma stepf_ext u u' a o ns :
  (forall s, (s < nSp)%nat -> u s = u' s) -> stepf u a o ns = stepf u' a o ns.
Proof. intros H. apply sumf_ext. intros s Hs. now rewrite H. Qed.

Lemma Wopt_ext k : forall u u', (forall s, (s < nSp)%nat -> u s = u' s) -> Wopt k u = Wopt k u'.
Proof.
  induction k; intros u u' H; [reflexivity|]. cbn [PBVI.Wopt]. f_equal.
  apply maxf_ext; [reflexivity|]. intros a Ha _. numR. f_equal.
  - apply dot_ext; auto.
  - f_equal. apply sumf_ext. intros o Ho. apply IHk. intros s Hs.
    rewrite !step_eq by auto. now apply stepf_ext.
Qed.

Lemma step_nonneg u a o :
  wf0 -> nonneg u -> (a < nAp)%nat -> (o < nOp)%nat -> nonneg (step u a o).
Proof.
  intros W Hu Ha Ho ns Hns. rewrite step_eq by auto. apply sumf_nonneg. intros s Hs.
  apply Rmult_le_pos; [apply Hu; auto|apply (w0_t W); auto].
Qed.

Lemma Wopt_S k u :
  Wopt (S k) u = odflt 0 (maxf nAp (fun _ => true) (fun a =>
     dot u (fun s => rM s a) + gamma m * sumf nOp (fun o => Wopt k (step u a o)))).
Proof. reflexivity. Qed.

(* ------------------------------------------------------------------ *)
(* 1. PBVI never over-estimates                                        *)
(* ------------------------------------------------------------------ *)
(* alpha vectors obtainable by k backups from the zero vector, for ANY choice of the action
   and of the successor vector per observation (hence any belief set, any tie-breaking) *)
Inductive gen : nat -> (nat -> R) -> Prop :=
| gen0 al : (forall s, (s < nSp)%nat -> al s = 0) -> gen 0 al
| genS k a ch al :
    (a < nAp)%nat -> (forall o, (o < nOp)%nat -> gen k (ch o)) ->
    (forall s, (s < nSp)%nat ->
       al s = rM s a + gamma m * sumf nOp (fun o => sumf nSp (fun ns => tO a o s ns * ch o ns))) ->
    gen (S k) al.

Theorem pbvi_lower k al :
  wf0 -> gen k al -> forall u, nonneg u -> dot u al <= Wopt k u.
Proof.
  intros W G. induction G as [al H0|k a ch al Ha Hch IH Hal]; intros u Hu.
  - cbn [PBVI.Wopt]. numR. unfold PBVI.dot. rewrite sumf_0; [lra|].
    intros s Hs. rewrite (H0 s Hs). numR. lra.
  - rewrite Wopt_S.
    destruct (maxf_all_some nAp (fun a => dot u (fun s => rM s a) +
        gamma m * sumf nOp (fun o => Wopt k (step u a o)))) as (x & Hx); [lia|].
    rewrite Hx. cbn [odflt].
    eapply Rle_trans; [|apply (maxf_ge _ _ _ _ a Hx Ha eq_refl)].
    assert (E : dot u al = dot u (fun s => rM s a) +
              gamma m * sumf nOp (fun o => sumf nSp (fun ns => stepf u a o ns * ch o ns))).
    { unfold PBVI.dot, PBVI.stepf. numR.
      etransitivity;
        [|apply (dot_backup nSp nOp u (fun s => rM s a) (fun o s ns => tO a o s ns) ch (gamma m))].
      apply sumf_ext. intros s Hs. now rewrite (Hal s Hs). }
    rewrite E. apply Rplus_le_compat_l, Rmult_le_compat_l; [apply (w0_g W)|].
    apply sumf_le. intros o Ho.
    eapply Rle_trans; [|apply (IH o Ho (step u a o)); apply step_nonneg; auto].
    apply Req_le. apply sumf_ext. intros ns Hns. now rewrite step_eq.
Qed.

(* ------------------------------------------------------------------ *)
(* 2. QMDP never under-estimates                                       *)
(* ------------------------------------------------------------------ *)
Record wfp : Prop := {
  wp_mdp : wf m;
  wp_g1 : gamma m < 1;
  wp_nA : (0 < nAp)%nat;
  wp_ob : forall a ns o, (a < nAp)%nat -> (ns < nSp)%nat -> (o < nOp)%nat -> 0 <= Ob p a ns o;
  wp_obs : forall a ns, (a < nAp)%nat -> (ns < nSp)%nat -> sumf nOp (Ob p a ns) = 1;
  wp_tO : forall a o s ns, (a < nAp)%nat -> (o < nOp)%nat -> (s < nSp)%nat -> (ns < nSp)%nat ->
          tO a o s ns = Pm m s a ns * Ob p a ns o;
  wp_rM : forall s a, (s < nSp)%nat -> (a < nAp)%nat -> rM s a = Rm m s a
}.

Lemma wfp_wf0 : wfp -> wf0.
Proof.
  intros W. constructor; [apply (wf_gamma0 _ (wp_mdp W))|].
  intros a o s ns Ha Ho Hs Hns. rewrite (wp_tO W) by auto.
  apply Rmult_le_pos; [apply (wf_Pnn _ (wp_mdp W)); auto|apply (wp_ob W); auto].
Qed.

(* one-step identity: reward + gamma * sum_o <step u a o, V> = sum_s Q_V(s,a) u(s) *)
Lemma qstep_id V u a :
  wfp -> (a < nAp)%nat ->
  dot u (fun s => rM s a) +
  gamma m * sumf nOp (fun o => sumf nSp (fun ns => stepf u a o ns * V ns)) =
  sumf nSp (fun s => Qval m V s a * u s).
Proof.
  intros W Ha. unfold PBVI.dot, PBVI.stepf. numR.
  rewrite <- (dot_backup nSp nOp u (fun s => rM s a) (fun o s ns => tO a o s ns) (fun _ => V) (gamma m)).
  apply sumf_ext. intros s Hs. rewrite Qval_R, (wp_rM W) by auto.
  rewrite Rmult_comm. f_equal. f_equal. f_equal.
  rewrite sumf_swap. apply sumf_ext. intros ns Hns.
  transitivity (sumf nOp (fun o => (Pm m s a ns * V ns) * Ob p a ns o)).
  { apply sumf_ext. intros o Ho. rewrite (wp_tO W) by auto. lra. }
  rewrite sumf_scal, (wp_obs W) by auto. lra.
Qed.

Lemma qmdp_step k V u a :
  wfp -> (forall u', nonneg u' -> Wopt k u' <= sumf nSp (fun s => u' s * V s)) ->
  nonneg u -> (a < nAp)%nat ->
  dot u (fun s => rM s a) + gamma m * sumf nOp (fun o => Wopt k (step u a o))
  <= sumf nSp (fun s => Qval m V s a * u s).
Proof.
  intros W H Hu Ha. rewrite <- (qstep_id V u a W Ha).
  apply Rplus_le_compat_l, Rmult_le_compat_l; [apply (wf_gamma0 _ (wp_mdp W))|].
  apply sumf_le. intros o Ho.
  eapply Rle_trans; [apply (H (step u a o)); apply step_nonneg; auto using wfp_wf0|].
  apply Req_le. apply sumf_ext. intros ns Hns. now rewrite step_eq.
Qed.

Lemma Vk_S k s :
  wfp -> (s < nSp)%nat ->
  maxf nAp (fun _ => true) (Qval m (Vk p k) s) = Some (Vk p (S k) s).
Proof.
  intros W Hs. cbn [Vk]. rewrite retab_eq by auto.
  destruct (maxf_all_some nAp (Qval m (Vk p k) s) (wp_nA W)) as (x & Hx). now rewrite Hx.
Qed.

Lemma max_dot_le (Qt : nat -> nat -> R) (V u : nat -> R) x :
  nonneg u -> (forall s, (s < nSp)%nat -> maxf nAp (fun _ => true) (Qt s) = Some (V s)) ->
  maxf nAp (fun _ => true) (fun a => sumf nSp (fun s => Qt s a * u s)) = Some x ->
  x <= sumf nSp (fun s => u s * V s).
Proof.
  intros Hu HV Hx. eapply maxf_le_bound; [exact Hx|]. intros a Ha _.
  apply sumf_le. intros s Hs. rewrite Rmult_comm.
  apply Rmult_le_compat_l; [apply Hu; auto|]. eapply maxf_ge; [apply HV; auto|auto|reflexivity].
Qed.

Lemma Wopt_le_Vk k : wfp -> forall u, nonneg u -> Wopt k u <= sumf nSp (fun s => u s * Vk p k s).
Proof.
  intros W. induction k; intros u Hu.
  - cbn [PBVI.Wopt Vk]. numR. rewrite sumf_0; [lra|]. intros; lra.
  - rewrite Wopt_S.
    destruct (maxf_all_some nAp (fun a => dot u (fun s => rM s a) +
        gamma m * sumf nOp (fun o => Wopt k (step u a o))) (wp_nA W)) as (x & Hx).
    rewrite Hx. cbn [odflt].
    destruct (maxf_all_some nAp (fun a => sumf nSp (fun s => Qval m (Vk p k) s a * u s)) (wp_nA W))
      as (y & Hy).
    apply Rle_trans with y.
    + eapply maxf_mono; [exact Hx|exact Hy|]. intros a Ha _. apply qmdp_step; auto.
    + apply (max_dot_le (Qval m (Vk p k)) (Vk p (S k)) u y Hu); auto.
      intros s Hs. apply Vk_S; auto.
Qed.

(* the (k+1)-horizon optimum is at most the QMDP value built from k-step value iteration *)
Theorem qmdp_upper k u :
  wfp -> nonneg u -> Wopt (S k) u <= odflt 0 (qmdp_value p (Qval m (Vk p k)) u).
Proof.
  intros W Hu. rewrite Wopt_S. unfold qmdp_value, qmdp_action_value.
  destruct (maxf_all_some nAp (fun a => dot u (fun s => rM s a) +
      gamma m * sumf nOp (fun o => Wopt k (step u a o))) (wp_nA W)) as (x & Hx).
  destruct (maxf_all_some nAp (fun a => sumf nSp (fun s => Qval m (Vk p k) s a * u s)) (wp_nA W))
    as (y & Hy).
  rewrite Hx. numR. rewrite Hy. cbn [odflt].
  eapply maxf_mono; [exact Hx|exact Hy|]. intros a Ha _. apply qmdp_step; auto.
  apply Wopt_le_Vk; auto.
Qed.

(* PBVI after j sweeps is below the j-step QMDP value (no expectimax needed) *)
Corollary pbvi_le_qmdp j al u :
  wfp -> gen (S j) al -> nonneg u ->
  dot u al <= odflt 0 (qmdp_value p (Qval m (Vk p j)) u).
Proof.
  intros W G Hu. eapply Rle_trans; [apply (pbvi_lower (S j) al (wfp_wf0 W) G u Hu)|apply qmdp_upper; auto].
Qed.

(* ------------------------------------------------------------------ *)
(* 3. horizon tail                                                     *)
(* ------------------------------------------------------------------ *)
Definition mass (u : nat -> R) : R := sumf nSp u.

Lemma mass_nonneg u : nonneg u -> 0 <= mass u.
Proof. intros H. apply sumf_nonneg. exact H. Qed.

Lemma mass_step u a :
  wfp -> nonneg u -> (a < nAp)%nat -> sumf nOp (fun o => mass (step u a o)) <= mass u.
Proof.
  intros W Hu Ha. unfold mass.
  apply Rle_trans with (sumf nSp (fun s => u s * sumf nSp (Pm m s a))).
  - apply Req_le.
    transitivity (sumf nOp (fun o => sumf nSp (fun s => sumf nSp (fun ns => u s * tO a o s ns)))).
    { apply sumf_ext. intros o Ho. rewrite sumf_swap. apply sumf_ext. intros ns Hns.
      now rewrite step_eq. }
    rewrite sumf_swap. apply sumf_ext. intros s Hs.
    transitivity (sumf nOp (fun o => u s * sumf nSp (fun ns => Pm m s a ns * Ob p a ns o))).
    { apply sumf_ext. intros o Ho. rewrite <- sumf_scal. apply sumf_ext. intros ns Hns.
      now rewrite (wp_tO W). }
    rewrite sumf_scal. f_equal. rewrite sumf_swap. apply sumf_ext. intros ns Hns.
    rewrite sumf_scal, (wp_obs W) by auto. lra.
  - apply sumf_le. intros s Hs. pose proof (wf_Psub _ (wp_mdp W) s a Hs Ha) as H1.
    pose proof (Hu s Hs). nra.
Qed.

Fixpoint Bj (M : R) (j : nat) : R := match j with O => 0 | S j' => M + gamma m * Bj M j' end.

Lemma Bj_bounds M j : wfp -> 0 <= M -> 0 <= Bj M j <= M / (1 - gamma m).
Proof.
  intros W HM. pose proof (wf_gamma0 _ (wp_mdp W)) as G0. pose proof (wp_g1 W) as G1.
  assert (HD : 0 <= M / (1 - gamma m)).
  { apply Rmult_le_pos; [lra|]. left. apply Rinv_0_lt_compat. lra. }
  induction j; cbn [Bj]; [lra|]. destruct IHj as [I1 I2]. split; [nra|].
  assert (E : M / (1 - gamma m) = M + gamma m * (M / (1 - gamma m))) by (field; lra).
  rewrite E. apply Rplus_le_compat_l, Rmult_le_compat_l; auto.
Qed.

Definition rbound (M : R) : Prop :=
  forall s a, (s < nSp)%nat -> (a < nAp)%nat -> Rabs (rM s a) <= M.

Lemma dot_reward_bound M u a :
  rbound M -> nonneg u -> (a < nAp)%nat -> Rabs (dot u (fun s => rM s a)) <= mass u * M.
Proof.
  intros HM Hu Ha. unfold PBVI.dot, mass. numR.
  eapply Rle_trans; [apply sumf_abs|]. rewrite <- sumf_scal_r. apply sumf_le. intros s Hs.
  rewrite Rabs_mult, (Rabs_right (u s)) by (apply Rle_ge, Hu; auto).
  apply Rmult_le_compat_l; [apply Hu; auto|apply HM; auto].
Qed.

Lemma Wopt_bound M j :
  wfp -> 0 <= M -> rbound M -> forall u, nonneg u -> Rabs (Wopt j u) <= mass u * Bj M j.
Proof.
  intros W HM0 HM. pose proof (wf_gamma0 _ (wp_mdp W)) as G0.
  induction j; intros u Hu.
  - cbn [PBVI.Wopt Bj]. numR. rewrite Rabs_R0. lra.
  - rewrite Wopt_S.
    destruct (maxf_all_some nAp (fun a => dot u (fun s => rM s a) +
        gamma m * sumf nOp (fun o => Wopt j (step u a o))) (wp_nA W)) as (x & Hx).
    rewrite Hx. cbn [odflt Bj].
    destruct (maxf_attained _ _ _ _ Hx) as (a & Ha & _ & <-).
    eapply Rle_trans; [apply Rabs_triang|].
    pose proof (dot_reward_bound M u a HM Hu Ha) as H1.
    assert (H2 : Rabs (gamma m * sumf nOp (fun o => Wopt j (step u a o)))
                 <= gamma m * (mass u * Bj M j)).
    { rewrite Rabs_mult, (Rabs_right (gamma m)) by lra. apply Rmult_le_compat_l; [lra|].
      eapply Rle_trans; [apply sumf_abs|].
      apply Rle_trans with (sumf nOp (fun o => mass (step u a o) * Bj M j)).
      - apply sumf_le. intros o Ho. apply IHj. apply step_nonneg; auto using wfp_wf0.
      - rewrite sumf_scal_r. apply Rmult_le_compat_r; [apply (Bj_bounds M j W HM0)|].
        apply mass_step; auto. }
    lra.
Qed.

Lemma tail_gen M j k :
  wfp -> 0 <= M -> rbound M -> forall u, nonneg u ->
  Rabs (Wopt k u - Wopt (k + j) u) <= gamma m ^ k * (mass u * Bj M j).
Proof.
  intros W HM0 HM. pose proof (wf_gamma0 _ (wp_mdp W)) as G0.
  induction k; intros u Hu.
  - cbn [PBVI.Wopt plus pow]. numR. rewrite Rminus_0_l, Rabs_Ropp, Rmult_1_l.
    apply Wopt_bound; auto.
  - change (S k + j)%nat with (S (k + j)). rewrite !Wopt_S.
    destruct (maxf_all_some nAp (fun a => dot u (fun s => rM s a) +
        gamma m * sumf nOp (fun o => Wopt k (step u a o))) (wp_nA W)) as (x & Hx).
    destruct (maxf_all_some nAp (fun a => dot u (fun s => rM s a) +
        gamma m * sumf nOp (fun o => Wopt (k + j) (step u a o))) (wp_nA W)) as (y & Hy).
    rewrite Hx, Hy. cbn [odflt].
    eapply maxf_nonexp; [exact Hx|exact Hy|]. intros a Ha _. cbv beta.
    match goal with |- Rabs ?e <= _ =>
      replace e with (gamma m * (sumf nOp (fun o => Wopt k (step u a o)) -
                                 sumf nOp (fun o => Wopt (k + j) (step u a o)))) by lra end.
    rewrite Rabs_mult, (Rabs_right (gamma m)) by lra.
    cbn [pow]. rewrite Rmult_assoc. apply Rmult_le_compat_l; [lra|].
    rewrite <- sumf_minus. eapply Rle_trans; [apply sumf_abs|].
    apply Rle_trans with (sumf nOp (fun o => gamma m ^ k * (mass (step u a o) * Bj M j))).
    + apply sumf_le. intros o Ho. apply IHk. apply step_nonneg; auto using wfp_wf0.
    + rewrite sumf_scal. apply Rmult_le_compat_l; [apply pow_le; lra|].
      rewrite sumf_scal_r. apply Rmult_le_compat_r; [apply (Bj_bounds M j W HM0)|].
      apply mass_step; auto.
Qed.

(* |Wopt k u - Wopt n u| <= ||u||_1 * gamma^k * M/(1-gamma)  for every n >= k *)
Theorem horizon_tail M k n u :
  wfp -> 0 <= M -> rbound M -> nonneg u -> (k <= n)%nat ->
  Rabs (Wopt k u - Wopt n u) <= (mass u * gamma m ^ k) * (M / (1 - gamma m)).
Proof.
  intros W HM0 HM Hu Hkn. replace n with (k + (n - k))%nat by lia.
  eapply Rle_trans; [apply (tail_gen M (n - k) k W HM0 HM u Hu)|].
  pose proof (Bj_bounds M (n - k) W HM0) as [B0 B1].
  pose proof (mass_nonneg u Hu) as Hm.
  assert (Hp : 0 <= gamma m ^ k) by (apply pow_le, (wf_gamma0 _ (wp_mdp W))).
  replace ((mass u * gamma m ^ k) * (M / (1 - gamma m)))
    with (gamma m ^ k * (mass u * (M / (1 - gamma m)))) by ring.
  apply Rmult_le_compat_l; [auto|]. apply Rmult_le_compat_l; auto.
Qed.

(* ------------------------------------------------------------------ *)
(* 4. the infinite-horizon optimum W* and the bracket                  *)
(* ------------------------------------------------------------------ *)
Definition tailR (M : R) (k : nat) (u : nat -> R) : R := (mass u * gamma m ^ k) * (M / (1 - gamma m)).

(* W is the infinite-horizon optimal value at u: the limit of Wopt k u, with explicit rate *)
Definition is_Wstar (M : R) (u : nat -> R) (W : R) : Prop :=
  forall k, Rabs (Wopt k u - W) <= tailR M k u.

Lemma pow_small g c e : 0 <= g < 1 -> 0 <= c -> 0 < e -> exists N, forall n, (N <= n)%nat -> c * g ^ n < e.
Proof.
  intros [G0 G1] Hc He. destruct (Req_dec c 0) as [->|Hc0].
  - exists 0%nat. intros n _. lra.
  - assert (Hcp : 0 < c) by lra.
    destruct (pow_lt_1_zero g) with (y := e / c) as (N & HN).
    + rewrite Rabs_right; lra.
    + apply Rdiv_lt_0_compat; lra.
    + exists N. intros n Hn. specialize (HN n Hn). rewrite Rabs_right in HN by (apply Rle_ge, pow_le; lra).
      apply Rmult_lt_compat_l with (r := c) in HN; [|lra].
      replace (c * (e / c)) with e in HN by (field; lra). exact HN.
Qed.

Lemma le_of_pow x y g c (N : nat) :
  0 <= g < 1 -> 0 <= c -> (forall n, (N <= n)%nat -> x <= y + c * g ^ n) -> x <= y.
Proof.
  intros Hg Hc H. destruct (Rle_dec x y) as [|Hn]; [auto|]. exfalso.
  destruct (pow_small g c (x - y) Hg Hc) as (N' & HN'); [lra|].
  specialize (H (Nat.max N N') (Nat.le_max_l _ _)). specialize (HN' (Nat.max N N') (Nat.le_max_r _ _)). lra.
Qed.

Theorem Wstar_exists M u :
  wfp -> 0 <= M -> rbound M -> nonneg u -> exists W, is_Wstar M u W.
Proof.
  intros W HM0 HM Hu.
  pose proof (wf_gamma0 _ (wp_mdp W)) as G0. pose proof (wp_g1 W) as G1.
  pose proof (mass_nonneg u Hu) as Hm.
  set (c := mass u * (M / (1 - gamma m))).
  assert (Hc : 0 <= c).
  { unfold c. apply Rmult_le_pos; [auto|]. apply Rmult_le_pos; [lra|]. left. apply Rinv_0_lt_compat. lra. }
  assert (Ht : forall k, tailR M k u = c * gamma m ^ k) by (intros k; unfold tailR, c; ring).
  assert (HC : Cauchy_crit (fun n => Wopt n u)).
  { intros e He. destruct (pow_small (gamma m) c e (conj G0 G1) Hc He) as (N & HN).
    exists N. intros n k Hn Hk. unfold R_dist.
    destruct (Nat.le_ge_cases n k) as [Hnk|Hnk].
    - eapply Rle_lt_trans; [apply (horizon_tail M n k u W HM0 HM Hu Hnk)|].
      fold (tailR M n u). rewrite Ht. apply HN. lia.
    - rewrite Rabs_minus_sym.
      eapply Rle_lt_trans; [apply (horizon_tail M k n u W HM0 HM Hu Hnk)|].
      fold (tailR M k u). rewrite Ht. apply HN. lia. }
  destruct (R_complete _ HC) as (l & Hl). exists l. intros k.
  apply le_epsilon. intros e He. destruct (Hl e He) as (N & HN).
  specialize (HN (Nat.max N k) (Nat.le_max_l _ _)). unfold R_dist in HN.
  pose proof (horizon_tail M k (Nat.max N k) u W HM0 HM Hu (Nat.le_max_r _ _)) as H1.
  fold (tailR M k u) in H1.
  replace (Wopt k u - l) with ((Wopt k u - Wopt (Nat.max N k) u) + (Wopt (Nat.max N k) u - l)) by lra.
  eapply Rle_trans; [apply Rabs_triang|]. lra.
Qed.

Lemma tailR_nonneg M k u : wfp -> 0 <= M -> nonneg u -> 0 <= tailR M k u.
Proof.
  intros W HM0 Hu. unfold tailR. apply Rmult_le_pos.
  - apply Rmult_le_pos; [apply mass_nonneg; auto|apply pow_le, (wf_gamma0 _ (wp_mdp W))].
  - apply Rmult_le_pos; [lra|]. left. apply Rinv_0_lt_compat. pose proof (wp_g1 W). lra.
Qed.

(* PBVI: alpha vectors that went through j sweeps are at most W* + tail(j) *)
Theorem pbvi_le_Wstar M j al u Ws :
  wfp -> gen j al -> nonneg u -> is_Wstar M u Ws -> dot u al <= Ws + tailR M j u.
Proof.
  intros W G Hu HW. pose proof (pbvi_lower j al (wfp_wf0 W) G u Hu) as H1.
  specialize (HW j). apply Rabs_le_inv' in HW. lra.
Qed.

(* ... and, for the finite-depth oracle the harness evaluates: *)
Theorem pbvi_bracket M j n al u :
  wfp -> 0 <= M -> rbound M -> gen j al -> nonneg u -> (j <= n)%nat ->
  dot u al <= Wopt n u + tailR M j u.
Proof.
  intros W HM0 HM G Hu Hjn. pose proof (pbvi_lower j al (wfp_wf0 W) G u Hu) as H1.
  pose proof (horizon_tail M j n u W HM0 HM Hu Hjn) as H2. fold (tailR M j u) in H2.
  apply Rabs_le_inv' in H2. lra.
Qed.

(* optimal values of the underlying (masked) MDP: fixed point of the optimality operator *)
Definition fixp (Vs : nat -> R) : Prop :=
  forall s, (s < nSp)%nat -> maxf nAp (fun _ => true) (Qval m Vs s) = Some (Vs s).

Lemma Vk_conv Vs D k :
  wfp -> fixp Vs -> 0 <= D -> (forall s, (s < nSp)%nat -> Rabs (Vs s) <= D) ->
  forall s, (s < nSp)%nat -> Rabs (Vk p k s - Vs s) <= gamma m ^ k * D.
Proof.
  intros W Hf HD0 HD. pose proof (wf_gamma0 _ (wp_mdp W)) as G0. induction k; intros s Hs.
  - cbn [Vk pow]. numR. rewrite Rminus_0_l, Rabs_Ropp, Rmult_1_l. auto.
  - eapply (maxf_nonexp nAp (fun _ => true) (Qval m (Vk p k) s) (Qval m Vs s)).
    + apply Vk_S; auto.
    + apply Hf; auto.
    + intros a Ha _. cbn [pow]. rewrite Rmult_assoc.
      apply (Qval_diff m (Vk p k) Vs s a (gamma m ^ k * D) (wp_mdp W) Hs Ha IHk).
      apply Rmult_le_pos; [apply pow_le; auto|auto].
Qed.

Theorem qmdp_upper_star Vs D k u :
  wfp -> fixp Vs -> 0 <= D -> (forall s, (s < nSp)%nat -> Rabs (Vs s) <= D) -> nonneg u ->
  Wopt (S k) u <= odflt 0 (qmdp_value p (Qval m Vs) u) + (mass u * D) * gamma m ^ (S k).
Proof.
  intros W Hf HD0 HD Hu. pose proof (wf_gamma0 _ (wp_mdp W)) as G0.
  eapply Rle_trans; [apply qmdp_upper; auto|].
  unfold qmdp_value, qmdp_action_value. numR.
  destruct (maxf_all_some nAp (fun a => sumf nSp (fun s => Qval m (Vk p k) s a * u s)) (wp_nA W)) as (x & Hx).
  destruct (maxf_all_some nAp (fun a => sumf nSp (fun s => Qval m Vs s a * u s)) (wp_nA W)) as (y & Hy).
  rewrite Hx, Hy. cbn [odflt].
  assert (H : Rabs (x - y) <= (mass u * D) * gamma m ^ (S k)).
  { eapply maxf_nonexp; [exact Hx|exact Hy|]. intros a Ha _. cbv beta.
    rewrite <- sumf_minus. eapply Rle_trans; [apply sumf_abs|].
    replace ((mass u * D) * gamma m ^ S k) with (sumf nSp (fun s => u s * (gamma m * (gamma m ^ k * D)))).
    2:{ rewrite sumf_scal_r. unfold mass. cbn [pow]. ring. }
    apply sumf_le. intros s Hs.
    replace (Qval m (Vk p k) s a * u s - Qval m Vs s a * u s)
      with (u s * (Qval m (Vk p k) s a - Qval m Vs s a)) by ring.
    rewrite Rabs_mult, (Rabs_right (u s)) by (apply Rle_ge, Hu; auto).
    apply Rmult_le_compat_l; [apply Hu; auto|].
    apply (Qval_diff m (Vk p k) Vs s a (gamma m ^ k * D) (wp_mdp W) Hs Ha).
    - intros ns Hns. apply Vk_conv; auto.
    - apply Rmult_le_pos; [apply pow_le; auto|auto]. }
  apply Rabs_le_inv' in H. lra.
Qed.

(* QMDP with the optimal Q table never under-estimates W* *)
Theorem Wstar_le_qmdp M Vs u Ws :
  wfp -> 0 <= M -> fixp Vs -> nonneg u -> is_Wstar M u Ws ->
  Ws <= odflt 0 (qmdp_value p (Qval m Vs) u).
Proof.
  intros W HM0 Hf Hu HW.
  pose proof (wf_gamma0 _ (wp_mdp W)) as G0. pose proof (wp_g1 W) as G1.
  destruct (finite_sup nSp Vs) as (D & HD0 & HD & _).
  pose proof (mass_nonneg u Hu) as Hm.
  assert (HMg : 0 <= M / (1 - gamma m)).
  { apply Rmult_le_pos; [lra|]. left. apply Rinv_0_lt_compat. lra. }
  apply (le_of_pow _ _ (gamma m) (mass u * D + mass u * (M / (1 - gamma m))) 1%nat); [lra| |].
  { apply Rplus_le_le_0_compat; apply Rmult_le_pos; auto. }
  intros n Hn. destruct n as [|n]; [lia|].
  pose proof (qmdp_upper_star Vs D n u W Hf HD0 HD Hu) as H1.
  pose proof (HW (S n)) as H2. apply Rabs_le_inv' in H2. unfold tailR in H2.
  replace ((mass u * D + mass u * (M / (1 - gamma m))) * gamma m ^ S n)
    with ((mass u * D) * gamma m ^ S n + (mass u * gamma m ^ S n) * (M / (1 - gamma m))) by ring.
  lra.
Qed.

(* finite-depth form evaluated by the harness: Wopt k - tail k <= QMDP value *)
Theorem qmdp_bracket M Vs k u :
  wfp -> 0 <= M -> rbound M -> fixp Vs -> nonneg u ->
  Wopt k u - tailR M k u <= odflt 0 (qmdp_value p (Qval m Vs) u).
Proof.
  intros W HM0 HM Hf Hu. destruct (Wstar_exists M u W HM0 HM Hu) as (Ws & HW).
  pose proof (Wstar_le_qmdp M Vs u Ws W HM0 Hf Hu HW) as H1.
  specialize (HW k). apply Rabs_le_inv' in HW. lra.
Qed.

(* so PBVI never exceeds QMDP by more than the slack of the sweeps it ran *)
Corollary pbvi_le_qmdp_star M j al Vs u :
  wfp -> 0 <= M -> rbound M -> gen j al -> fixp Vs -> nonneg u ->
  dot u al <= odflt 0 (qmdp_value p (Qval m Vs) u) + tailR M j u.
Proof.
  intros W HM0 HM G Hf Hu. destruct (Wstar_exists M u W HM0 HM Hu) as (Ws & HW).
  pose proof (pbvi_le_Wstar M j al u Ws W G Hu HW).
  pose proof (Wstar_le_qmdp M Vs u Ws W HM0 Hf Hu HW). lra.
Qed.

(* ------------------------------------------------------------------ *)
(* 5. the mirror of point_based_value_iteration only produces gen-vectors *)
(* ------------------------------------------------------------------ *)
Lemma argmaxf_some n (f : nat -> R) : (0 < n)%nat -> exists i v, argmaxf n f = Some (i, v) /\ (i < n)%nat.
Proof.
  induction n; intros Hn; [lia|]. cbn [argmaxf]. destruct n.
  - cbn [argmaxf]. exists 0%nat, (f 0%nat). split; [reflexivity|lia].
  - destruct IHn as (i & v & E & Hi); [lia|]. rewrite E.
    destruct (nltb v (f (S n))); [exists (S n), (f (S n))|exists i, v]; split; auto; lia.
Qed.

Lemma pick_in amb (cands : list (list R)) u :
  cands <> [] -> In (fst (pick p amb cands u)) cands.
Proof.
  intros Hne. unfold pick.
  destruct (argmaxf_some (length cands)
      (fun i => nth i (map (fun c => dot u (untab c)) cands) n0)) as (i & v & E & Hi).
  { destruct cands; [congruence|simpl; lia]. }
  rewrite E. cbn [fst]. apply nth_In. exact Hi.
Qed.

Definition genl (j : nat) (G : list (list R)) : Prop := Forall (fun al => gen j (untab al)) G.

Lemma point_backup_gen amb j G b :
  (0 < nAp)%nat -> genl j G -> G <> [] -> gen (S j) (untab (fst (point_backup p tO rM amb G b))).
Proof.
  intros HnA HG Hne. unfold point_backup. cbn [fst].
  set (per_a := map _ (seq 0 nAp)).
  assert (Hin : In (fst (pick p amb (map fst per_a) (untab b))) (map fst per_a)).
  { apply pick_in. unfold per_a. destruct nAp; [lia|]. rewrite <- cons_seq. discriminate. }
  apply in_map_iff in Hin as (x & Hx & Hxin). unfold per_a in Hxin.
  apply in_map_iff in Hxin as (a & Ha & Hain). apply in_seq in Hain.
  rewrite <- Hx, <- Ha. cbn [fst].
  set (chs := map (fun o => pick p amb G (step (untab b) a o)) (seq 0 nOp)).
  apply (genS j a (fun o => untab (fst (nth o chs (zerov p, false))))); [lia| |].
  - intros o Ho. unfold chs.
    rewrite (nth_indep _ _ (pick p amb G (step (untab b) a 0%nat))) by (rewrite map_length, seq_length; auto).
    rewrite (map_nth (fun o => pick p amb G (step (untab b) a o))), seq_nth by auto.
    unfold genl in HG. rewrite Forall_forall in HG. apply HG. apply pick_in; auto.
  - intros s Hs. unfold back_vec. rewrite untab_tab by auto. reflexivity.
Qed.

Lemma sweep_gen amb j B G :
  (0 < nAp)%nat -> genl j G -> length G = length B ->
  genl (S j) (fst (sweep p tO rM amb B G)) /\ length (fst (sweep p tO rM amb B G)) = length B.
Proof.
  intros HnA HG HL. unfold sweep. cbn [fst]. split; [|now rewrite !map_length].
  unfold genl. rewrite map_map. apply Forall_forall. intros al Hal.
  apply in_map_iff in Hal as (b & <- & Hb). apply point_backup_gen; auto.
  intros ->. destruct B; [inversion Hb|discriminate].
Qed.

Lemma pbvi_loop_gen amb eps B fuel : (0 < nAp)%nat ->
  forall j G fl, genl j G -> length G = length B ->
  let r := pbvi_loop p tO rM fuel j amb eps B G fl in genl (snd (fst r)) (fst (fst r)).
Proof.
  intros HnA. induction fuel; intros j G fl HG HL; cbn [pbvi_loop]; [exact HG|].
  destruct (nltb _ eps); [exact HG|].
  destruct (sweep_gen amb j B G HnA HG HL) as [H1 H2]. apply IHfuel; auto.
Qed.

(* every alpha vector the mirror returns, for any belief list, thresholds and sweep cap, is a
   gen-vector of the reported sweep count; hence pbvi_lower / pbvi_le_Wstar apply to it *)
Theorem pbvi_run_gen horizon amb eps B :
  (0 < nAp)%nat ->
  let r := pbvi_run p tO rM horizon amb eps B in genl (snd (fst r)) (fst (fst r)).
Proof.
  intros HnA. unfold pbvi_run. apply pbvi_loop_gen; auto.
  - unfold genl. apply Forall_forall. intros al Hal. apply in_map_iff in Hal as (b & <- & _).
    apply gen0. intros s Hs. unfold zerov. now rewrite untab_tab.
  - now rewrite map_length.
Qed.

(* alpha_value of a list of gen-vectors *)
Lemma alpha_value_le j G u x bound :
  genl j G -> alpha_value p G u = Some x ->
  (forall al, gen j al -> dot u al <= bound) -> x <= bound.
Proof.
  intros HG Hx Hb. unfold alpha_value in Hx. eapply maxf_le_bound; [exact Hx|].
  intros i Hi _. apply Hb. unfold genl in HG. rewrite Forall_forall in HG. apply HG.
  apply nth_In. exact Hi.
Qed.

(* one sweep on gen-vectors, whatever the tie-breaking: its value is below the next horizon's optimum *)
Theorem backup_value_le j G u a :
  wf0 -> genl j G -> G <> [] -> nonneg u -> (a < nAp)%nat ->
  backup_value p tO rM G u a <= Wopt (S j) u.
Proof.
  intros W HG Hne Hu Ha. rewrite Wopt_S.
  destruct (maxf_all_some nAp (fun a => dot u (fun s => rM s a) +
      gamma m * sumf nOp (fun o => Wopt j (step u a o)))) as (x & Hx); [lia|].
  rewrite Hx. cbn [odflt]. eapply Rle_trans; [|apply (maxf_ge _ _ _ _ a Hx Ha eq_refl)].
  unfold backup_value. numR. apply Rplus_le_compat_l, Rmult_le_compat_l; [apply (w0_g W)|].
  apply sumf_le. intros o Ho.
  destruct (maxf_all_some (length G) (fun i => dot (step u a o) (untab (nth i G [])))) as (y & Hy).
  { destruct G; [congruence|simpl; lia]. }
  unfold alpha_value. rewrite Hy. cbn [odflt].
  apply (alpha_value_le j G (step u a o) y _ HG Hy). intros al Hal.
  apply pbvi_lower; auto. apply step_nonneg; auto.
Qed.

End Theory.

(* ------------------------------------------------------------------ *)
(* 6. action_dist: uniform over exactly the maximisers                 *)
(* ------------------------------------------------------------------ *)
Theorem greedy_check_sound ptol n (av d : nat -> R) :
  greedy_check ptol n av d = true ->
  exists mx, maxf n (fun _ => true) av = Some mx /\
    (forall a, (a < n)%nat -> av a <= mx) /\ (exists a, (a < n)%nat /\ av a = mx) /\
    forall a, (a < n)%nat ->
      (av a = mx -> Rabs (d a * INR (countb n (fun a' => neqb (av a') mx)) - 1) <= ptol) /\
      (av a <> mx -> d a = 0).
Proof.
  unfold greedy_check. destruct (maxf n (fun _ => true) av) as [mx|] eqn:E; [|discriminate].
  intros H. exists mx. split; [reflexivity|]. split; [|split].
  - intros a Ha. eapply maxf_ge; eauto.
  - destruct (maxf_attained _ _ _ _ E) as (a & Ha & _ & Hv). eauto.
  - rewrite forallbn_spec in H. intros a Ha. specialize (H a Ha).
    destruct (neqb (av a) mx) eqn:Eq.
    + apply neqb_Req' in Eq. split; [|congruence]. intros _.
      apply ncloseb_R in H. now rewrite nofnat_R in H.
    + split.
      * intros Hv. apply neqb_Req' in Hv. congruence.
      * intros _. now apply neqb_Req'.
Qed.

(* QMDP's action value is the belief-weighted action value of the table it was given *)
Theorem qmdp_action_value_def (p : pomdp R) Qt u a :
  qmdp_action_value p Qt u a = sumf (nS (base p)) (fun s => u s * Qt s a).
Proof. unfold qmdp_action_value. apply sumf_ext. intros s _. numR. lra. Qed.

(* ------------------------------------------------------------------ *)
(* 7. boolean hypotheses / tabulated tables discharge the Prop ones    *)
(* ------------------------------------------------------------------ *)
Section Bool.
Variable p : pomdp R.
Notation m := (base p).

Lemma unable_disc' s : gamma m < 1 -> unable_to_reach m s = false.
Proof.
  intros G. unfold unable_to_reach.
  assert (E : @nltb R NumR (gamma m) n1 = true) by (apply nltb_R; numR; exact G).
  now rewrite E.
Qed.

Lemma tO_tab_eq a o s ns :
  (a < nA m)%nat -> (o < nO p)%nat -> (s < nS m)%nat -> (ns < nS m)%nat ->
  tO_tab p a o s ns = tO_def p a o s ns.
Proof.
  intros Ha Ho Hs Hns. unfold tO_tab, untab2, tab2.
  rewrite (nth_indep _ [] (map (fun o => map (fun i => tab (nS m) (fun ns => tO_def p 0 o i ns)) (seq 0 (nS m))) (seq 0 (nO p))))
    by (rewrite map_length, seq_length; auto).
  rewrite (map_nth (fun a => map (fun o => map (fun i => tab (nS m) (fun ns => tO_def p a o i ns)) (seq 0 (nS m))) (seq 0 (nO p)))),
    seq_nth by auto.
  rewrite (nth_indep _ [] (map (fun i => tab (nS m) (fun ns => tO_def p (0 + a) 0 i ns)) (seq 0 (nS m))))
    by (rewrite map_length, seq_length; auto).
  rewrite (map_nth (fun o => map (fun i => tab (nS m) (fun ns => tO_def p (0 + a) o i ns)) (seq 0 (nS m)))),
    seq_nth by auto.
  rewrite (nth_indep _ [] (tab (nS m) (fun ns => tO_def p (0 + a) (0 + o) 0 ns)))
    by (rewrite map_length, seq_length; auto).
  rewrite (map_nth (fun i => tab (nS m) (fun ns => tO_def p (0 + a) (0 + o) i ns))), seq_nth by auto.
  now rewrite untab_tab.
Qed.

Lemma rM_tab_eq s a : (s < nS m)%nat -> (a < nA m)%nat -> rM_tab p s a = rM_def p s a.
Proof.
  intros Hs Ha. unfold rM_tab, untab2, tab2.
  rewrite (nth_indep _ [] (tab (nA m) (rM_def p 0))) by (rewrite map_length, seq_length; auto).
  rewrite (map_nth (fun i => tab (nA m) (rM_def p i))), seq_nth by auto.
  now rewrite untab_tab.
Qed.

Lemma wfpomdpb_wfp_gen tO rM :
  wfpomdpb p = true ->
  (forall a o s ns, (a < nA m)%nat -> (o < nO p)%nat -> (s < nS m)%nat -> (ns < nS m)%nat ->
     tO a o s ns = tO_def p a o s ns) ->
  (forall s a, (s < nS m)%nat -> (a < nA m)%nat -> rM s a = rM_def p s a) ->
  wfp p tO rM.
Proof.
  unfold wfpomdpb. rewrite !andb_true_iff. intros [[[[G0 G1] HnA] HP] HO] HtO HrM.
  apply nleb_Rle' in G0. apply nltb_R in G1. numR.
  apply negb_true_iff, Nat.eqb_neq in HnA.
  rewrite forallbn_spec in HP. rewrite forallbn_spec in HO.
  assert (HPs : forall s a, (s < nS m)%nat -> (a < nA m)%nat ->
            avail m s a = true /\ (forall ns, (ns < nS m)%nat -> 0 <= P m s a ns) /\
            sumf (nS m) (P m s a) = 1).
  { intros s a Hs Ha. specialize (HP s Hs). rewrite forallbn_spec in HP. specialize (HP a Ha).
    rewrite !andb_true_iff in HP. destruct HP as [[H1 H2] H3]. split; [auto|]. split.
    - rewrite forallbn_spec in H2. intros ns Hns. apply nleb_Rle'. auto.
    - now apply neqb_Req' in H3. }
  assert (HOs : forall a ns, (a < nA m)%nat -> (ns < nS m)%nat ->
            (forall o, (o < nO p)%nat -> 0 <= Ob p a ns o) /\ sumf (nO p) (Ob p a ns) = 1).
  { intros a ns Ha Hns. specialize (HO a Ha). rewrite forallbn_spec in HO. specialize (HO ns Hns).
    rewrite andb_true_iff in HO. destruct HO as [H1 H2]. split.
    - rewrite forallbn_spec in H1. intros o Ho. apply nleb_Rle'. auto.
    - now apply neqb_Req' in H2. }
  constructor; auto; try lia.
  - constructor; try lra.
    + intros s a ns Hs Ha Hns. unfold Pm. destruct (masked m s); [numR; lra|].
      apply (HPs s a Hs Ha); auto.
    + intros s a Hs Ha. unfold Pm. destruct (masked m s).
      * rewrite sumf_0; [lra|auto].
      * change (sumf (nS m) (P m s a) <= 1). destruct (HPs s a Hs Ha) as (_ & _ & ->). lra.
    + intros s Hs. exists 0%nat. split; [lia|]. apply (HPs s 0%nat Hs). lia.
  - intros a ns o Ha Hns Ho. apply (HOs a ns Ha Hns); auto.
  - intros a ns Ha Hns. apply (HOs a ns Ha Hns).
Qed.

Lemma wfpomdpb_wfp_def : wfpomdpb p = true -> wfp p (tO_def p) (rM_def p).
Proof. intros H. apply wfpomdpb_wfp_gen; auto. Qed.
Lemma wfpomdpb_wfp_tab : wfpomdpb p = true -> wfp p (tO_tab p) (rM_tab p).
Proof. intros H. apply wfpomdpb_wfp_gen; auto using tO_tab_eq, rM_tab_eq. Qed.

Lemma nonnegb_nonneg u : nonnegb p u = true -> nonneg p u.
Proof. unfold nonnegb. rewrite forallbn_spec. intros H s Hs. apply nleb_Rle'. auto. Qed.

Lemma rmaxabs_bound rM : (0 < nA m)%nat -> 0 <= rmaxabs p rM /\ rbound p rM (rmaxabs p rM).
Proof.
  intros HnA. unfold rmaxabs.
  set (f := fun s => odflt n0 (maxf (nA m) (fun _ => true) (fun a => nabs (rM s a)))).
  assert (Hf : forall s a, (a < nA m)%nat -> Rabs (rM s a) <= f s).
  { intros s a Ha. unfold f.
    destruct (maxf_all_some (nA m) (fun a => nabs (rM s a)) HnA) as (x & Hx). rewrite Hx. cbn [odflt].
    rewrite <- nabs_R. apply (maxf_ge _ _ _ _ a Hx Ha eq_refl). }
  destruct (Nat.eq_dec (nS m) 0) as [E|E].
  - rewrite E. cbn [maxf odflt]. numR. split; [lra|]. intros s a Hs. lia.
  - destruct (maxf_all_some (nS m) f) as (x & Hx); [lia|]. rewrite Hx. cbn [odflt].
    assert (Hb : forall s a, (s < nS m)%nat -> (a < nA m)%nat -> Rabs (rM s a) <= x).
    { intros s a Hs Ha. eapply Rle_trans; [apply Hf; auto|]. apply (maxf_ge _ _ _ _ s Hx Hs eq_refl). }
    split; [|exact Hb].
    eapply Rle_trans; [apply Rabs_pos|apply (Hb 0%nat 0%nat); lia].
Qed.

Lemma npow_R x k : @npow R NumR x k = x ^ k.
Proof. induction k; cbn [npow pow]; numR; [reflexivity|now rewrite IHk]. Qed.

Lemma norm1_mass u : nonneg p u -> norm1 p u = mass p u.
Proof.
  intros Hu. unfold norm1, mass. apply sumf_ext. intros s Hs. rewrite nabs_R, Rabs_right; auto.
  apply Rle_ge, Hu; auto.
Qed.

Lemma tail_tailR rM k u :
  gamma m < 1 -> nonneg p u -> tail p rM k u = tailR p (rmaxabs p rM) k u.
Proof.
  intros G Hu. unfold tail, tailR. numR. rewrite npow_R, norm1_mass by auto.
  rewrite Rdivg_nz by lra. reflexivity.
Qed.

Lemma chk_qtable_fixp qtol Vs Qt :
  chk_qtable p qtol Vs Qt = true ->
  fixp p (untab Vs) /\
  forall s a, (s < nS m)%nat -> (a < nA m)%nat -> Rabs (Qt s a - Qval m (untab Vs) s a) <= qtol.
Proof.
  unfold chk_qtable. rewrite forallbn_spec. intros H. split.
  - intros s Hs. specialize (H s Hs). apply andb_true_iff in H as [H _].
    destruct (maxf _ _ _) as [b|]; [|discriminate]. apply neqb_Req' in H. now rewrite H.
  - intros s a Hs Ha. specialize (H s Hs). apply andb_true_iff in H as [_ H].
    rewrite forallbn_spec in H. specialize (H a Ha). now apply ncloseb_R in H.
Qed.

End Bool.

(* ------------------------------------------------------------------ *)
(* 8. every observation reveals the state: QMDP is exact               *)
(* ------------------------------------------------------------------ *)
Lemma maxf_char n (f : nat -> R) y :
  (forall a, (a < n)%nat -> f a <= y) -> (exists a, (a < n)%nat /\ f a = y) ->
  maxf n (fun _ => true) f = Some y.
Proof.
  intros Hle (a & Ha & Hy). destruct (maxf_all_some n f) as (x & Hx); [lia|]. rewrite Hx. f_equal.
  apply Rle_antisym.
  - eapply maxf_le_bound; [exact Hx|]. intros; auto.
  - rewrite <- Hy. apply (maxf_ge _ _ _ _ a Hx Ha eq_refl).
Qed.

Section FullObs.
Variable p : pomdp R.
Notation m := (base p).
Variable tO : nat -> nat -> nat -> nat -> R.
Variable rM : nat -> nat -> R.

Definition fullobs : Prop :=
  nO p = nS m /\
  forall a ns o, (a < nA m)%nat -> (ns < nS m)%nat -> (o < nO p)%nat ->
    Ob p a ns o = if Nat.eqb o ns then 1 else 0.

Lemma fullobsb_fullobs : fullobsb p = true -> fullobs.
Proof.
  unfold fullobsb. rewrite andb_true_iff, forallbn_spec. intros [E H]. apply Nat.eqb_eq in E.
  split; [exact E|]. intros a ns o Ha Hns Ho. specialize (H a Ha). rewrite forallbn_spec in H.
  specialize (H ns Hns). rewrite forallbn_spec in H. specialize (H o Ho). apply neqb_Req' in H.
  rewrite H. destruct (Nat.eqb o ns); reflexivity.
Qed.

Definition QW (k : nat) (u : nat -> R) : R :=
  match k with O => 0 | S k' => odflt 0 (qmdp_value p (Qval m (Vk p k')) u) end.

Hypothesis W : wfp p tO rM.
Hypothesis F : fullobs.

Lemma stepf_off u a o ns :
  (a < nA m)%nat -> (o < nO p)%nat -> (ns < nS m)%nat -> ns <> o -> stepf p tO u a o ns = 0.
Proof.
  intros Ha Ho Hns Hne. unfold stepf. apply sumf_0. intros s Hs.
  rewrite (wp_tO _ _ _ W) by auto. destruct F as [_ FO]. rewrite FO by auto.
  assert (E : Nat.eqb o ns = false) by (apply Nat.eqb_neq; congruence). rewrite E. numR. lra.
Qed.

Lemma QW_step k u a o :
  nonneg p u -> (a < nA m)%nat -> (o < nO p)%nat ->
  QW k (step p tO u a o) = stepf p tO u a o o * Vk p k o.
Proof.
  intros Hu Ha Ho. destruct F as [E _]. assert (Ho' : (o < nS m)%nat) by lia.
  destruct k; cbn [QW].
  - cbn [Vk]. numR. lra.
  - unfold qmdp_value, qmdp_action_value.
    set (c := stepf p tO u a o o).
    assert (Hc : 0 <= c).
    { pose proof (step_nonneg p tO u a o (wfp_wf0 _ _ _ W) Hu Ha Ho o Ho') as H.
      now rewrite step_eq in H. }
    assert (Hs : forall a', sumf (nS m) (fun s => Qval m (Vk p k) s a' * step p tO u a o s)
                            = Qval m (Vk p k) o a' * c).
    { intros a'. rewrite (sumf_single _ _ o Ho').
      - now rewrite step_eq.
      - intros s Hs Hne. rewrite step_eq, stepf_off by auto. lra. }
    pose proof (Vk_S p tO rM k o W Ho') as HV.
    rewrite (maxf_char (nA m) _ (c * Vk p (S k) o)); [reflexivity| |].
    + intros a' Ha'. numR. rewrite Hs. rewrite Rmult_comm. apply Rmult_le_compat_l; [auto|].
      apply (maxf_ge _ _ _ _ a' HV Ha' eq_refl).
    + destruct (maxf_attained _ _ _ _ HV) as (a' & Ha' & _ & Hq). exists a'. split; [auto|].
      numR. rewrite Hs, Hq. lra.
Qed.

Theorem fullobs_Wopt_QW k : forall u, nonneg p u -> Wopt p tO rM k u = QW k u.
Proof.
  induction k; intros u Hu; [reflexivity|].
  rewrite Wopt_S. cbn [QW]. unfold qmdp_value, qmdp_action_value. f_equal.
  apply maxf_ext; [reflexivity|]. intros a Ha _.
  rewrite <- (qstep_id p tO rM (Vk p k) u a W Ha). numR. f_equal. f_equal.
  apply sumf_ext. intros o Ho. destruct F as [E _].
  rewrite IHk by (apply step_nonneg; auto; apply (wfp_wf0 _ _ _ W)).
  rewrite QW_step by auto. symmetry.
  apply (sumf_single (nS m) (fun ns => stepf p tO u a o ns * Vk p k ns) o); [lia|].
  intros ns Hns Hne. rewrite stepf_off by auto. lra.
Qed.

(* the (k+1)-horizon optimal value IS the k-step QMDP value, at every belief *)
Corollary fullobs_qmdp_exact k u :
  nonneg p u -> Wopt p tO rM (S k) u = odflt 0 (qmdp_value p (Qval m (Vk p k)) u).
Proof. intros Hu. now rewrite fullobs_Wopt_QW. Qed.

(* hence W* = QMDP value with the optimal table *)
Theorem fullobs_Wstar_eq_qmdp M Vs u Ws :
  0 <= M -> fixp p Vs -> nonneg p u -> is_Wstar p tO rM M u Ws ->
  Ws = odflt 0 (qmdp_value p (Qval m Vs) u).
Proof.
  intros HM0 Hf Hu HW. apply Rle_antisym; [apply (Wstar_le_qmdp p tO rM M Vs u Ws); auto|].
  pose proof (wf_gamma0 _ (wp_mdp _ _ _ W)) as G0. pose proof (wp_g1 _ _ _ W) as G1.
  destruct (finite_sup (nS m) Vs) as (D & HD0 & HD & _).
  pose proof (mass_nonneg p u Hu) as Hm.
  assert (HMg : 0 <= M / (1 - gamma m)).
  { apply Rmult_le_pos; [lra|]. left. apply Rinv_0_lt_compat. lra. }
  apply (le_of_pow _ _ (gamma m) (mass p u * D + mass p u * (M / (1 - gamma m))) 1%nat); [lra| |].
  { apply Rplus_le_le_0_compat; apply Rmult_le_pos; auto. }
  intros n Hn. destruct n as [|n]; [lia|].
  pose proof (HW (S n)) as H2. apply Rabs_le_inv' in H2. unfold tailR in H2.
  rewrite fullobs_qmdp_exact in H2 by auto.
  (* |qmdp_n - qmdp*| <= mass u * D * gamma^(n+1) *)
  unfold qmdp_value, qmdp_action_value in *.
  destruct (maxf_all_some (nA m) (fun a => sumf (nS m) (fun s => (Qval m (Vk p n) s a * u s)%num)) (wp_nA _ _ _ W)) as (x & Hx).
  destruct (maxf_all_some (nA m) (fun a => sumf (nS m) (fun s => (Qval m Vs s a * u s)%num)) (wp_nA _ _ _ W)) as (y & Hy).
  rewrite Hx in H2. rewrite Hy. cbn [odflt] in *.
  assert (H : Rabs (x - y) <= (mass p u * D) * gamma m ^ (S n)).
  { eapply maxf_nonexp; [exact Hx|exact Hy|]. intros a Ha _. cbv beta. numR.
    rewrite <- sumf_minus. eapply Rle_trans; [apply sumf_abs|].
    replace ((mass p u * D) * gamma m ^ S n) with (sumf (nS m) (fun s => u s * (gamma m * (gamma m ^ n * D)))).
    2:{ rewrite sumf_scal_r. unfold mass. cbn [pow]. ring. }
    apply sumf_le. intros s Hs.
    replace (Qval m (Vk p n) s a * u s - Qval m Vs s a * u s)
      with (u s * (Qval m (Vk p n) s a - Qval m Vs s a)) by ring.
    rewrite Rabs_mult, (Rabs_right (u s)) by (apply Rle_ge, Hu; auto).
    apply Rmult_le_compat_l; [apply Hu; auto|].
    apply (Qval_diff m (Vk p n) Vs s a (gamma m ^ n * D) (wp_mdp _ _ _ W) Hs Ha).
    - intros ns Hns. apply (Vk_conv p tO rM Vs D n W Hf HD0 HD ns Hns).
    - apply Rmult_le_pos; [apply pow_le; auto|auto]. }
  apply Rabs_le_inv' in H.
  replace ((mass p u * D + mass p u * (M / (1 - gamma m))) * gamma m ^ S n)
    with ((mass p u * D) * gamma m ^ S n + (mass p u * gamma m ^ S n) * (M / (1 - gamma m))) by ring.
  lra.
Qed.

End FullObs.
