(* PBVITheory.v — C08: PBVI is a lower bound, QMDP an upper bound of the optimal POMDP value;
   horizon tail; policy checker soundness.  All statements for POMDPs of ANY size (nS, nA, nO),
   R instance of model/PBVI.v. *)
From Coq Require Import Reals Lra Lia List Arith Bool.
From MSDM Require Import base.Num base.NumInst base.NumR model.MDP model.POMDP model.PBVI
     theory.Bellman.
Import ListNotations.
Local Open Scope R_scope.

Lemma neqb_Req' x y : @neqb R NumR x y = true <-> x = y.
Proof.
  unfold neqb; numR. rewrite andb_true_iff, !Rleb_true. split; [lra|intros ->; lra].
Qed.
Lemma nleb_Rle' x y : @nleb R NumR x y = true <-> x <= y.
Proof. numR. apply Rleb_true. Qed.

Lemma retab_eq n (f : nat -> R) i : (i < n)%nat -> retab n f i = f i.
Proof. intros Hi. unfold retab. apply (untab_tab n f i Hi). Qed.

Lemma maxf_all_some n (f : nat -> R) : (0 < n)%nat -> exists x, maxf n (fun _ => true) f = Some x.
Proof. intros Hn. apply (maxf_some_ex n (fun _ => true) f 0%nat Hn eq_refl). Qed.

(* sum_s u s * (r s + g * sum_o sum_ns t o s ns * c o ns)
   = sum_s u s * r s + g * sum_o sum_ns (sum_s u s * t o s ns) * c o ns *)
Lemma dot_backup nS nO (u r : nat -> R) (t : nat -> nat -> nat -> R) (c : nat -> nat -> R) g :
  sumf nS (fun s => u s * (r s + g * sumf nO (fun o => sumf nS (fun ns => t o s ns * c o ns)))) =
  sumf nS (fun s => u s * r s) +
  g * sumf nO (fun o => sumf nS (fun ns => sumf nS (fun s => u s * t o s ns) * c o ns)).
Proof.
  rewrite <- sumf_scal.
  transitivity (sumf nS (fun s => u s * r s + g * (u s * sumf nO (fun o => sumf nS (fun ns => t o s ns * c o ns))))).
  { apply sumf_ext. intros s _. lra. }
  rewrite sumf_plus. f_equal. rewrite sumf_scal, sumf_scal. f_equal.
  transitivity (sumf nS (fun s => sumf nO (fun o => sumf nS (fun ns => u s * t o s ns * c o ns)))).
  { apply sumf_ext. intros s _. rewrite <- sumf_scal. apply sumf_ext. intros o _.
    rewrite <- sumf_scal. apply sumf_ext. intros ns _. lra. }
  rewrite sumf_swap. apply sumf_ext. intros o _. rewrite sumf_swap. apply sumf_ext. intros ns _.
  rewrite <- sumf_scal_r. reflexivity.
Qed.

Section Theory.
Variable p : pomdp R.
Notation m := (base p).
Notation nSp := (nS (base p)).
Notation nAp := (nA (base p)).
Notation nOp := (nO p).
Variable tO : nat -> nat -> nat -> nat -> R.
Variable rM : nat -> nat -> R.

Notation dot := (dot p).
Notation step := (step p tO).
Notation stepf := (stepf p tO).
Notation Wopt := (Wopt p tO rM).

Definition nonneg (u : nat -> R) : Prop := forall s, (s < nSp)%nat -> 0 <= u s.

(* the hypotheses the lower bound needs: only signs *)
Record wf0 : Prop := {
  w0_g : 0 <= gamma m;
  w0_t : forall a o s ns, (a < nAp)%nat -> (o < nOp)%nat -> (s < nSp)%nat -> (ns < nSp)%nat ->
         0 <= tO a o s ns
}.

Lemma dot_ext u u' al al' :
  (forall s, (s < nSp)%nat -> u s = u' s) -> (forall s, (s < nSp)%nat -> al s = al' s) ->
  dot u al = dot u' al'.
Proof. intros H1 H2. apply sumf_ext. intros s Hs. now rewrite H1, H2. Qed.

Lemma step_eq u a o ns : (ns < nSp)%nat -> step u a o ns = stepf u a o ns.
Proof. intros H. unfold PBVI.step. now apply retab_eq. Qed.

Lemma stepf_ext u u' a o ns :
  (forall s, (s < nSp)%nat -> u s = u' s) -> stepf u a o ns = stepf u' a o ns.
Proof. intros H. apply sumf_ext. intros s Hs. now rewrite H. Qed.

Lemma Wopt_ext k : forall u u', (forall s, (s < nSp)%nat -> u s = u' s) -> Wopt k u = Wopt k u'.
Proof.
  induction k; intros u u' H; [reflexivity|]. cbn [PBVI.Wopt]. f_equal.
  apply maxf_ext; [reflexivity|]. intros a Ha _. numR. f_equal.
  - apply dot_ext; auto.
  - f_equal. apply sumf_ext. intros o Ho. apply IHk. intros s Hs.
    rewrite !step_eq by auto. now apply stepf_ext.
Qed.

Lemma step_nonneg u a o :
  wf0 -> nonneg u -> (a < nAp)%nat -> (o < nOp)%nat -> nonneg (step u a o).
Proof.
  intros W Hu Ha Ho ns Hns. rewrite step_eq by auto. apply sumf_nonneg. intros s Hs.
  apply Rmult_le_pos; [apply Hu; auto|apply (w0_t W); auto].
Qed.

Lemma Wopt_S k u :
  Wopt (S k) u = odflt 0 (maxf nAp (fun _ => true) (fun a =>
     dot u (fun s => rM s a) + gamma m * sumf nOp (fun o => Wopt k (step u a o)))).
Proof. reflexivity. Qed.

(* ------------------------------------------------------------------ *)
(* 1. PBVI never over-estimates                                        *)
(* ------------------------------------------------------------------ *)
(* alpha vectors obtainable by k backups from the zero vector, for ANY choice of the action
   and of the successor vector per observation (hence any belief set, any tie-breaking) *)
Inductive gen : nat -> (nat -> R) -> Prop :=
| gen0 al : (forall s, (s < nSp)%nat -> al s = 0) -> gen 0 al
| genS k a ch al :
    (a < nAp)%nat -> (forall o, (o < nOp)%nat -> gen k (ch o)) ->
    (forall s, (s < nSp)%nat ->
       al s = rM s a + gamma m * sumf nOp (fun o => sumf nSp (fun ns => tO a o s ns * ch o ns))) ->
    gen (S k) al.

Theorem pbvi_lower k al :
  wf0 -> gen k al -> forall u, nonneg u -> dot u al <= Wopt k u.
Proof.
  intros W G. induction G as [al H0|k a ch al Ha Hch IH Hal]; intros u Hu.
  - cbn [PBVI.Wopt]. numR. unfold PBVI.dot. rewrite sumf_0; [lra|].
    intros s Hs. rewrite (H0 s Hs). numR. lra.
  - rewrite Wopt_S.
    destruct (maxf_all_some nAp (fun a => dot u (fun s => rM s a) +
        gamma m * sumf nOp (fun o => Wopt k (step u a o)))) as (x & Hx); [lia|].
    rewrite Hx. cbn [odflt].
    eapply Rle_trans; [|apply (maxf_ge _ _ _ _ a Hx Ha eq_refl)].
    assert (E : dot u al = dot u (fun s => rM s a) +
              gamma m * sumf nOp (fun o => sumf nSp (fun ns => stepf u a o ns * ch o ns))).
    { unfold PBVI.dot, PBVI.stepf. numR.
      etransitivity;
        [|apply (dot_backup nSp nOp u (fun s => rM s a) (fun o s ns => tO a o s ns) ch (gamma m))].
      apply sumf_ext. intros s Hs. now rewrite (Hal s Hs). }
    rewrite E. apply Rplus_le_compat_l, Rmult_le_compat_l; [apply (w0_g W)|].
    apply sumf_le. intros o Ho.
    eapply Rle_trans; [|apply (IH o Ho (step u a o)); apply step_nonneg; auto].
    apply Req_le. apply sumf_ext. intros ns Hns. now rewrite step_eq.
Qed.

End Theory.
