(* VIMain.v — C01 end-to-end statements: "the checker, as executed by vm_compute on the
   exact rationals of msdm's output, returned all-true"  ==>  property clauses over R. *)
From Coq Require Import QArith Qreals Reals Lra Lia List Bool.
From MSDM Require Import base.Num base.NumInst base.NumR base.Transfer model.MDP model.VI
     theory.Bellman theory.VITheory theory.VITransfer.
Import ListNotations.
Local Open Scope R_scope.

Definition all_true : list bool := [true; true; true; true; true; true; true; true].

Section Main.
Variables (nS nA : nat) (P Rw : list (list (list Q))) (av : list (list bool)) (ab : list bool)
          (ini : list Q) (g : Q) (V : list Q) (Qv : list (list (option Q))) (Pi : list (list Q))
          (iv : Q) (tl : @tols Q).

(* the real-valued MDP and result denoted by the rational data *)
Definition mR : mdp R := mk_mdp nS nA (map3 Q2R P) (map3 Q2R Rw) av ab (map Q2R ini) (Q2R g).
Definition oR : @planout R := mk_out (map Q2R V) (map2 (option_map Q2R) Qv) (map2 Q2R Pi) (Q2R iv).
Definition tR : @tols R := tolsR tl.

Hypothesis Hchk :
  @c01_check Q NumQ (mk_mdp nS nA P Rw av ab ini g) (mk_out V Qv Pi iv) tl = all_true.

Lemma chkR : c01_check mR oR tR = all_true.
Proof. unfold mR, oR, tR. rewrite <- c01_check_transfer. exact Hchk. Qed.

Lemma clauses :
  wfb mR = true /\ c_abs mR oR = true /\ c_mask mR oR tR = true /\ c_res mR oR tR = true /\
  c_q mR oR tR = true /\ c_pol mR oR tR = true /\ c_init mR oR tR = true /\ c_polu mR oR tR = true.
Proof.
  pose proof chkR as H. unfold c01_check, all_true in H.
  injection H as E1 E2 E3 E4 E5 E6 E7 E8. repeat split; assumption.
Qed.

Lemma mR_wf : wf mR.
Proof. apply wfb_wf. apply clauses. Qed.

Theorem main_values Vs :
  Q2R g < 1 -> 0 <= Q2R (epsb tl) -> fixpoint mR Vs ->
  forall s, (s < nS)%nat -> Rabs (oV oR s - Vs s) <= Q2R (epsb tl) / (1 - Q2R g).
Proof.
  intros G He Hfix s Hs. destruct clauses as (_ & Ha & _ & Hr & _).
  apply (c01_values mR oR tR Vs mR_wf G Hfix He Ha Hr s Hs).
Qed.

Theorem main_absorbing_zero s a :
  (s < nS)%nat -> (a < nA)%nat -> absorbing mR s = true ->
  oV oR s = 0 /\ (avail mR s a = true -> oQ oR s a = Some 0).
Proof. intros Hs Ha Hab. destruct clauses as (_ & H & _). apply (c01_absorbing_zero mR oR s a H Hs Ha Hab). Qed.

Theorem main_support Vs s a :
  Q2R g < 1 -> 0 <= Q2R (epsb tl) -> fixpoint mR Vs ->
  (s < nS)%nat -> (a < nA)%nat -> masked mR s = false -> 0 < oPi oR s a ->
  exists mx, maxQ mR oR s = Some mx /\ avail mR s a = true /\ Vs s - eta mR tR mx <= Qval mR Vs s a.
Proof.
  intros G He Hfix Hs Ha Hm Hp. destruct clauses as (_ & Hab & _ & Hr & Hq & Hpol & _).
  apply (c01_support mR oR tR Vs s a mR_wf G Hfix He Hab Hr Hq Hpol Hs Ha Hm Hp).
Qed.

Theorem main_ties_shared s a mx :
  (s < nS)%nat -> (a < nA)%nat -> masked mR s = false -> maxQ mR oR s = Some mx ->
  avail mR s a = true -> mx - band_lo tR mx <= Qfin oR s a -> 0 < oPi oR s a.
Proof.
  intros Hs Ha Hm Hmx Hav Hge. destruct clauses as (_ & _ & _ & _ & _ & Hpol & _).
  apply (c01_ties_shared mR oR tR s a mx Hpol Hs Ha Hm Hmx Hav Hge).
Qed.

Theorem main_uniform s a :
  (s < nS)%nat -> (a < nA)%nat -> masked mR s = false ->
  (0 < oPi oR s a -> Rabs (oPi oR s a * INR (suppcount mR oR s) - 1) <= Q2R (ptol tl)) /\
  (~ 0 < oPi oR s a -> oPi oR s a = 0).
Proof.
  intros Hs Ha Hm. destruct clauses as (_ & _ & _ & _ & _ & Hpol & _).
  apply (c01_uniform mR oR tR s a Hpol Hs Ha Hm).
Qed.

Theorem main_policy_return Vs Vpi B :
  Q2R g < 1 -> 0 <= Q2R (epsb tl) -> 0 <= Q2R (qtol tl) ->
  0 <= Q2R (atol_lo tl) -> 0 <= Q2R (rtol_lo tl) ->
  fixpoint mR Vs -> fixpol mR (upol mR oR) Vpi ->
  0 <= B -> (forall s mx, (s < nS)%nat -> maxQ mR oR s = Some mx -> band_hi tR mx <= B) ->
  forall s, (s < nS)%nat ->
    Rabs (Vpi s - Vs s) <=
    (B + 2 * Q2R (qtol tl) + 2 * (Q2R g * (Q2R (epsb tl) / (1 - Q2R g)))) / (1 - Q2R g).
Proof.
  intros G He Hq0 Hat Hrt Hfix Hfp HB0 HB. destruct clauses as (_ & Hab & _ & Hr & Hq & Hpol & _).
  apply (c01_policy_return mR oR tR Vs Vpi B mR_wf G Hfix He Hq0 Hat Hrt Hab Hr Hq Hpol Hfp HB0 HB).
Qed.

Theorem main_initial_value :
  Rabs (oInit oR - sumf nS (fun s => init mR s * oV oR s)) <= Q2R (itol tl).
Proof. destruct clauses as (_ & _ & _ & _ & _ & _ & H & _). apply (c01_initial_value mR oR tR H). Qed.

(* the placeholder clause (only bites when gamma >= 1) *)
Theorem main_placeholder s :
  (s < nS)%nat -> unable_to_reach mR s = true -> oV oR s = Q2R (undef tl).
Proof.
  intros Hs Hu. destruct clauses as (_ & _ & H & _). unfold c_mask in H.
  rewrite forallbn_spec in H. specialize (H s Hs). rewrite Hu in H. now apply neqb_Req in H.
Qed.

(* at a placeholder state (gamma >= 1) the policy row is a distribution over the available actions *)
Theorem main_placeholder_policy s :
  (s < nS)%nat -> unable_to_reach mR s = true -> absorbing mR s = false ->
  (forall a, (a < nA)%nat -> 0 < oPi oR s a -> avail mR s a = true) /\
  Rabs (sumf nA (oPi oR s) - 1) <= Q2R (ptol tl).
Proof.
  intros Hs Hu Hab. destruct clauses as (_ & _ & _ & _ & _ & _ & _ & Hpol).
  apply (c_pol_placeholder mR oR tR s Hpol Hs); [|exact Hab].
  unfold masked. rewrite Hu. reflexivity.
Qed.

End Main.

(* uniqueness: "the" optimal value function of the statements above *)
Theorem optimal_value_unique (m : mdp R) V1 V2 :
  wf m -> gamma m < 1 -> fixpoint m V1 -> fixpoint m V2 ->
  forall s, (s < nS m)%nat -> V1 s = V2 s.
Proof. apply fixpoint_unique. Qed.

(* ---------------- undiscounted case ---------------- *)
From MSDM Require Import theory.VIUndisc.
Section MainUndisc.
Variables (nS nA : nat) (P Rw : list (list (list Q))) (av : list (list bool)) (ab : list bool)
          (ini : list Q) (g : Q) (V : list Q) (Qv : list (list (option Q))) (Pi : list (list Q))
          (iv : Q) (tl : @tols Q) (N : list Q).
Notation mR' := (mR nS nA P Rw av ab ini g).
Notation oR' := (oR V Qv Pi iv).

Hypothesis Hchk :
  @c01_check Q NumQ (mk_mdp nS nA P Rw av ab ini g) (mk_out V Qv Pi iv) tl = all_true.
Hypothesis HchkU :
  @c01_undisc_check Q NumQ (mk_mdp nS nA P Rw av ab ini g) (mk_out V Qv Pi iv) N = [true; true; true].

Lemma clausesU :
  c_nonpos mR' oR' = true /\ c_rnonpos mR' = true /\ c_N mR' oR' (untab (map Q2R N)) = true.
Proof.
  pose proof HchkU as H. rewrite c01_undisc_check_transfer in H.
  unfold c01_undisc_check in H. injection H as H1 H2 H3. repeat split; assumption.
Qed.

(* every value-iteration iterate T^k 0 — hence their limit — is at least V - delta*N *)
Theorem main_undisc_lower B :
  0 <= Q2R (epsb tl) -> 0 <= Q2R (qtol tl) -> 0 <= Q2R (atol_lo tl) -> 0 <= Q2R (rtol_lo tl) -> 0 <= B ->
  (forall s mx, (s < nS)%nat -> maxQ mR' oR' s = Some mx -> band_hi (tR tl) mx <= B) ->
  forall k s, (s < nS)%nat ->
    Vz mR' oR' s - (Q2R (epsb tl) + B + 2 * Q2R (qtol tl)) * untab (map Q2R N) s <= itT mR' k s.
Proof.
  intros He Hq0 Hat Hrt HB0 HB k s Hs.
  destruct (clauses nS nA P Rw av ab ini g V Qv Pi iv tl Hchk) as (_ & Hab & _ & Hr & Hq & Hpol & _).
  destruct clausesU as (Hnp & _ & HcN).
  apply (undisc_lower mR' oR' (tR tl) (untab (map Q2R N)) B
           (mR_wf nS nA P Rw av ab ini g V Qv Pi iv tl Hchk) He Hq0 Hat Hrt HB0 Hab Hr Hq Hpol Hnp HcN HB k s Hs).
Qed.

Lemma rewards_nonpos s a :
  (s < nS)%nat -> (a < nA)%nat -> avail mR' s a = true -> Rm mR' s a <= 0.
Proof.
  intros Hs Ha Hav. destruct clausesU as (_ & H & _). unfold c_rnonpos in H.
  rewrite forallbn_spec in H. specialize (H s Hs). rewrite forallbn_spec in H. specialize (H a Ha).
  rewrite Hav in H. simpl in H. now apply nleb_Rle in H.
Qed.

(* the iterates decrease, so every iterate from k on lies below T^k 0 *)
Theorem main_undisc_antitone j k s :
  (k <= j)%nat -> (s < nS)%nat -> itT mR' j s <= itT mR' k s.
Proof.
  intros Hle Hs.
  exact (itT_antitone mR' (mR_wf nS nA P Rw av ab ini g V Qv Pi iv tl Hchk) rewards_nonpos j k s Hle Hs).
Qed.

(* and every iterate dominates every non-positive sub-solution (e.g. the optimal total reward) *)
Theorem main_undisc_upper U :
  (forall s, (s < nS)%nat -> U s <= 0) -> (forall s, (s < nS)%nat -> U s <= Top mR' U s) ->
  forall k s, (s < nS)%nat -> U s <= itT mR' k s.
Proof.
  intros H0 Hsub k s Hs.
  exact (itT_upper mR' U (mR_wf nS nA P Rw av ab ini g V Qv Pi iv tl Hchk) H0 Hsub k s Hs).
Qed.

End MainUndisc.

(* the two value-iteration implementations agree: both results accepted on the same MDP *)
Theorem main_vi_agree nS nA P Rw av ab ini g V1 Q1 Pi1 iv1 tl1 V2 Q2 Pi2 iv2 tl2 Vs :
  @c01_check Q NumQ (mk_mdp nS nA P Rw av ab ini g) (mk_out V1 Q1 Pi1 iv1) tl1 = all_true ->
  @c01_check Q NumQ (mk_mdp nS nA P Rw av ab ini g) (mk_out V2 Q2 Pi2 iv2) tl2 = all_true ->
  Q2R g < 1 -> 0 <= Q2R (epsb tl1) -> 0 <= Q2R (epsb tl2) -> fixpoint (mR nS nA P Rw av ab ini g) Vs ->
  forall s, (s < nS)%nat ->
    Rabs (oV (oR V1 Q1 Pi1 iv1) s - oV (oR V2 Q2 Pi2 iv2) s)
      <= (Q2R (epsb tl1) + Q2R (epsb tl2)) / (1 - Q2R g).
Proof.
  intros H1 H2 G E1 E2 Hfix s Hs.
  pose proof (main_values nS nA P Rw av ab ini g V1 Q1 Pi1 iv1 tl1 H1 Vs G E1 Hfix s Hs) as A.
  pose proof (main_values nS nA P Rw av ab ini g V2 Q2 Pi2 iv2 tl2 H2 Vs G E2 Hfix s Hs) as B.
  apply Rabs_le_inv' in A. apply Rabs_le_inv' in B. apply Rabs_le.
  unfold Rdiv in *. rewrite Rmult_plus_distr_r. lra.
Qed.
