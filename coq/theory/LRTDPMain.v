(* LRTDPMain.v — C04 end-to-end statements:
   "the checker / the machine replay, as executed by vm_compute on the exact rationals of msdm's
   output and operation log, returned all-true"  ==>  property clauses over R.
   Plus the non-vacuity example. *)
From Coq Require Import QArith Qreals Reals Lra Lia List Bool.
From MSDM Require Import base.Num base.NumInst base.NumR base.Transfer model.MDP model.VI model.LRTDP
     theory.Bellman theory.VITransfer theory.LRTDPTheory theory.LRTDPMachine theory.LRTDPTransfer.
Import ListNotations.
Local Open Scope R_scope.

Definition all_true13 : list bool :=
  [true; true; true; true; true; true; true; true; true; true; true; true; true].

(* value of a stochastic policy row: sum_a pi(a) Q(s,a) *)
Definition Qmix (m : mdp R) (pi : nat -> nat -> R) (V : nat -> R) (s : nat) : R :=
  sumf (nA m) (fun a => pi s a * Qlr m V s a).

Section Main.
Variables (nS nA : nat) (P Rw : list (list (list Q))) (av : list (list bool)) (ab : list bool)
          (ini : list Q) (g : Q) (V : list Q) (sol tch : list bool) (pi : list nat)
          (Qv : list (list (option Q))) (ret : list (list Q)) (iv : Q)
          (N Vpi Vs W : list Q) (tl : @lrtols Q).

Definition lmR : mdp R := mk_mdp nS nA (map3 Q2R P) (map3 Q2R Rw) av ab (map Q2R ini) (Q2R g).
Definition loR : @lrout R :=
  mk_lrout (map Q2R V) sol tch pi (map2 (option_map Q2R) Qv) (map2 Q2R ret) (Q2R iv).
Definition lcR : @lrcert R := mk_cert (map Q2R N) (map Q2R Vpi) (map Q2R Vs) (map Q2R W).
Definition ltR : @lrtols R := ltolsR tl.

Hypothesis Hchk :
  @c04_check Q NumQ (mk_mdp nS nA P Rw av ab ini g) (mk_lrout V sol tch pi Qv ret iv)
             (mk_cert N Vpi Vs W) tl = all_true13.

Lemma lchkR : c04_check lmR loR lcR ltR = all_true13.
Proof. unfold lmR, loR, lcR, ltR. rewrite <- c04_check_transfer. exact Hchk. Qed.

Lemma lclauses :
  lr_wfb lmR = true /\ c_initsolved lmR loR = true /\ c_solved lmR loR ltR = true /\
  c_greedy lmR loR ltR = true /\ c_N lmR loR lcR = true /\ c_vpi lmR loR lcR = true /\
  c_vstar lmR lcR = true /\ c_w lmR lcR = true /\ c_upper lmR loR lcR ltR = true /\
  c_abs lmR loR = true /\ c_q lmR loR ltR = true /\ c_init lmR loR ltR = true /\
  c_ret lmR loR = true.
Proof.
  pose proof lchkR as H. unfold c04_check, all_true13 in H.
  injection H as E1 E2 E3 E4 E5 E6 E7 E8 E9 E10 E11 E12 E13. repeat split; assumption.
Qed.

Lemma lmR_wf : lrwf lmR.
Proof. apply lr_wfb_wf. apply lclauses. Qed.

(* the optimal value function is unique: cVs is THE optimum *)
Theorem main_optimal_unique V2 :
  optfix lmR V2 -> forall s, (s < nS)%nat -> absflag lmR s = false -> V2 s = cVs lcR s.
Proof.
  intros H2 s Hs Hab. destruct lclauses as (_ & _ & _ & _ & _ & _ & Hvs & Hw & _).
  apply (optfix_unique lmR (cW lcR) V2 (cVs lcR) lmR_wf (c_w_weights lmR lcR Hw) H2
                       (c_vstar_optfix lmR lcR Hvs) s Hs Hab).
Qed.

(* value estimates never fall below the optimal values (any optimality fixed point Vopt) *)
Theorem main_upper Vopt :
  optfix lmR Vopt -> forall s, (s < nS)%nat -> absflag lmR s = false ->
  Vopt s - Q2R (tu tl) <= lV loR s.
Proof.
  intros Hf s Hs Hab. rewrite (main_optimal_unique Vopt Hf s Hs Hab).
  destruct lclauses as (_ & _ & _ & _ & _ & _ & _ & _ & Hu & _).
  apply (c_upper_spec lmR loR lcR ltR s Hu Hs Hab).
Qed.

(* per labelled state: V within margin*N above the optimum; greedy policy within margin*N below *)
Theorem main_bound_state Vopt :
  0 <= Q2R (teps tl) -> optfix lmR Vopt ->
  forall s, (s < nS)%nat -> live lmR loR s = true ->
    - Q2R (tu tl) <= lV loR s - Vopt s <= Q2R (teps tl) * cN lcR s /\
    0 <= Vopt s - cVpi lcR s <= Q2R (teps tl) * cN lcR s + Q2R (tu tl).
Proof.
  intros He Hf s Hs Hl.
  destruct lclauses as (_ & _ & Hsol & _ & HN & Hvp & Hvs & _ & Hu & _).
  assert (Hab : absflag lmR s = false) by (apply (live_spec lmR loR s) in Hl; tauto).
  rewrite (main_optimal_unique Vopt Hf s Hs Hab).
  apply (cert_bound_state lmR loR lcR ltR lmR_wf He Hsol HN Hvp Hvs Hu s Hs Hl).
Qed.

(* from the initial distribution (absorbing initial states count 0) *)
Theorem main_bound_initial :
  0 <= Q2R (teps tl) -> 0 <= Q2R (tu tl) ->
    - Q2R (tu tl) <= Einit lmR (lV loR) - Einit lmR (cVs lcR) <= Q2R (teps tl) * Einit lmR (cN lcR) /\
    0 <= Einit lmR (cVs lcR) - Einit lmR (cVpi lcR) <= Q2R (teps tl) * Einit lmR (cN lcR) + Q2R (tu tl) /\
    Rabs (linit loR - Einit lmR (lV loR)) <= Q2R (ti tl).
Proof.
  intros He Hu0.
  destruct lclauses as (_ & Hi & Hsol & _ & HN & Hvp & Hvs & _ & Hu & _ & _ & Hin & _).
  destruct (cert_bound_initial lmR loR lcR ltR lmR_wf He Hu0 Hi Hsol HN Hvp Hvs Hu) as (H1 & H2).
  split; [exact H1|split; [exact H2|]]. apply (cert_initial_value lmR loR ltR Hin).
Qed.

Theorem main_initial_solved s :
  (s < nS)%nat -> 0 < init lmR s -> lsolved loR s = true.
Proof. intros Hs Hp. destruct lclauses as (_ & Hi & _). apply (c_initsolved_spec lmR loR s Hi Hs Hp). Qed.

Theorem main_absorbing_zero s a :
  (s < nS)%nat -> (a < nA)%nat -> absflag lmR s = true ->
  (forall V', zabs lmR V' s = 0 /\ Qlr lmR V' s a = 0) /\
  (ltouched loR s = true -> lV loR s = 0 /\ (forall x, lQ loR s a = Some x -> x = 0)).
Proof.
  intros Hs Ha Hab. destruct lclauses as (_ & _ & _ & _ & _ & _ & _ & _ & _ & H & _).
  apply (cert_absorbing_zero lmR loR s a H Hs Ha Hab).
Qed.

Theorem main_reported_q s a x :
  (s < nS)%nat -> (a < nA)%nat -> ltouched loR s = true -> lQ loR s a = Some x ->
  avail lmR s a = true /\ Rabs (x - Qlr lmR (lV loR) s a) <= Q2R (tq tl).
Proof.
  intros Hs Ha Ht Hx. destruct lclauses as (_ & _ & _ & _ & _ & _ & _ & _ & _ & _ & H & _).
  apply (cert_reported_q lmR loR ltR s a x H Hs Ha Ht Hx).
Qed.

(* Bellman residual of the final values on the labelled states; the reported action is greedy *)
Theorem main_residual s b :
  (s < nS)%nat -> live lmR loR s = true -> Blr lmR (lV loR) s = Some b ->
  Rabs (lV loR s - b) <= Q2R (teps tl) + Q2R (tgre tl) /\ Qlr lmR (lV loR) s (lpi loR s) <= b.
Proof.
  intros Hs Hl Hb. destruct lclauses as (_ & _ & Hsol & Hg & _).
  apply (cert_residual lmR loR ltR s b lmR_wf Hsol Hg Hs Hl Hb).
Qed.

(* the RETURNED policy: any exact evaluation of res.policy on the labelled states is the exact
   evaluation of the greedy policy, hence within the margin of optimal *)
Theorem main_returned_policy Vret :
  (forall s, (s < nS)%nat -> live lmR loR s = true -> Vret s = Qmix lmR (lret loR) Vret s) ->
  forall s, (s < nS)%nat -> live lmR loR s = true -> Vret s = cVpi lcR s.
Proof.
  intros HV.
  destruct lclauses as (_ & _ & Hsol & _ & HN & Hvp & _ & _ & _ & _ & _ & _ & Hret).
  assert (HV' : forall s, (s < nS)%nat -> live lmR loR s = true -> Vret s = Qlr lmR Vret s (lpi loR s)).
  { intros s Hs Hl. rewrite (HV s Hs Hl) at 1. unfold Qmix.
    destruct (c_solved_spec lmR loR ltR s Hsol Hs Hl) as (Ha & _).
    rewrite (sumf_single _ _ (lpi loR s)); [| exact Ha |].
    - rewrite (cert_returned_policy lmR loR s (lpi loR s) Hret Hs Ha Hl), Nat.eqb_refl. lra.
    - intros a Ha' Hne. rewrite (cert_returned_policy lmR loR s a Hret Hs Ha' Hl).
      apply Nat.eqb_neq in Hne. rewrite Hne. lra. }
  assert (G : forall A B : nat -> R,
            (forall s, (s < nS)%nat -> live lmR loR s = true -> A s = Qlr lmR A s (lpi loR s)) ->
            (forall s, (s < nS)%nat -> live lmR loR s = true -> B s = Qlr lmR B s (lpi loR s)) ->
            forall s, (s < nS)%nat -> live lmR loR s = true -> A s - B s <= 0).
  { intros A B HA HB s Hs Hl. replace 0 with ((0 + 0) * cN lcR s) by lra.
    apply (lin_gap lmR (live lmR loR) A B (cN lcR) 0 0 lmR_wf); auto; [lra| |].
    - intros s' Hs'. apply (c_N_spec lmR loR lcR s' HN Hs').
    - clear s Hs Hl. intros s Hs Hl.
      assert (Hab : absflag lmR s = false) by (apply (live_spec lmR loR s) in Hl; tauto).
      split; [exact Hab|]. destruct (c_solved_spec lmR loR ltR s Hsol Hs Hl) as (Ha & Hav & Hres & Hcl).
      exists (lpi loR s). split; [exact Ha|]. split; [|split; [|split]].
      + intros ns Hns Hp Hn. apply (live_closed lmR loR ltR s ns Hsol Hs Hl Hns Hp Hn).
      + apply (c_N_spec lmR loR lcR s HN Hs); auto.
      + rewrite <- (HA s Hs Hl). lra.
      + rewrite <- (HB s Hs Hl). lra. }
  intros s Hs Hl.
  pose proof (G Vret (cVpi lcR) HV' (fun s Hs Hl => c_vpi_spec lmR loR lcR s Hvp Hs Hl) s Hs Hl).
  pose proof (G (cVpi lcR) Vret (fun s Hs Hl => c_vpi_spec lmR loR lcR s Hvp Hs Hl) HV' s Hs Hl).
  lra.
Qed.

End Main.

(* ------------------------------------------------------------------ *)
(* trace conformance: an accepted replay IS a run of the machine        *)
(* ------------------------------------------------------------------ *)
Lemma beqlist_eq a b : beqlist a b = true -> a = b.
Proof.
  unfold beqlist. rewrite andb_true_iff. intros [Hl H]. apply Nat.eqb_eq in Hl.
  revert b Hl H. induction a as [|x a IH]; intros [|y b] Hl H; simpl in *; try lia; [reflexivity|].
  apply andb_true_iff in H as [E H]. f_equal; [destruct x, y; simpl in E; congruence|].
  apply IH; [lia|exact H].
Qed.

Lemma run_cmp_run (m : mdp R) eps ord tol st ops st' b :
  run_cmp m eps ord tol st ops = Some (st', b) -> run m eps ord st (map fst ops) = Some st'.
Proof.
  revert st st' b. induction ops as [|[op v] r IH]; intros st st' b H; simpl in *.
  - inversion H; reflexivity.
  - destruct (step m eps ord st op) as [st1|]; [|discriminate].
    destruct (run_cmp m eps ord tol st1 r) as [[st2 b2]|] eqn:E; [|discriminate].
    inversion H; subst. apply (IH st1 st' b2 E).
Qed.

Lemma vclose_R tol x y :
  @vclose R NumR tol x y = true -> Rabs (x - y) <= tol.
Proof.
  unfold vclose. intros H. apply nleb_Rle' in H.
  change (@nabs R NumR (x - y) <= tol) in H.
  rewrite (NumR.nabs_R (x - y)) in H. exact H.
Qed.

Definition all_true5 : list bool := [true; true; true; true; true].

Section Trace.
Variables (nS nA : nat) (P Rw : list (list (list Q))) (av : list (list bool)) (ab : list bool)
          (ini : list Q) (g eps : Q) (ordl : list (list nat)) (tol : Q) (h : list Q)
          (ops : list (lop * Q)) (solI : list bool) (VI : list Q) (actI : list nat).

Definition tmR : mdp R := mk_mdp nS nA (map3 Q2R P) (map3 Q2R Rw) av ab (map Q2R ini) (Q2R g).

Hypothesis Hrpl :
  @replay_check Q NumQ (mk_mdp nS nA P Rw av ab ini g) eps (ordf ordl) tol h ops solI VI actI = all_true5.

(* the recorded operation sequence is a run of the abstract machine (all guards hold) that ends
   in the labels the implementation reports, up to tol in its values, and whose recorded
   greedy actions are the actions the implementation returns at the labelled states *)
Theorem main_trace :
  exists st, run tmR (Q2R eps) (ordf ordl) (init_state tmR (map Q2R h)) (map fst ops) = Some st /\
             stSolved st = solI /\
             (forall s, (s < nS)%nat ->
               Rabs (sV st s - untab (map Q2R VI) s) <= Q2R tol) /\
             (forall s, (s < nS)%nat -> sSol st s = true -> absflag tmR s = false ->
               sAct st s = nth s actI 0%nat).
Proof.
  pose proof Hrpl as H. rewrite replay_check_transfer in H. fold tmR in H.
  unfold replay_check in H.
  destruct (run_cmp tmR (Q2R eps) (ordf ordl) (Q2R tol) (init_state tmR (map Q2R h)) (opsR ops))
    as [[st b]|] eqn:E; [|discriminate].
  unfold all_true5 in H. injection H as Hb Hs Hv Ha. exists st. split; [|split; [|split]].
  - apply run_cmp_run in E. unfold opsR in E. rewrite map_map in E. simpl in E. exact E.
  - apply beqlist_eq. exact Hs.
  - intros s Hs'. rewrite forallbn_spec in Hv. specialize (Hv s Hs').
    apply vclose_R in Hv. exact Hv.
  - intros s Hs' Hsol Hab. rewrite forallbn_spec in Ha. specialize (Ha s Hs').
    change (nth s ab false) with (absflag tmR s) in Ha.
    rewrite Hsol, Hab in Ha. simpl in Ha. now apply Nat.eqb_eq in Ha.
Qed.

End Trace.
