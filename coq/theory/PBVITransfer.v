(* PBVITransfer.v — C08: what vm_compute evaluates on Q / bigQ (the oracle WoptF, the mirror
   pbvi_runF / mirror_cmp and the chk_* functions of model/PBVI.v) is the Q2R-preimage of the
   R functions the theorems of PBVITheory.v are about, by the parametricity translation. *)
From Coq Require Import QArith Qreals Reals List Bool.
From Bignums Require Import BigQ.
From Param Require Import Param.
From MSDM Require Import base.Num base.NumInst base.Transfer model.MDP model.POMDP model.PBVI.
Import ListNotations.

Parametricity Recursive mk_pomdp.
Parametricity Recursive wfpomdpb.
Parametricity Recursive fullobsb.
Parametricity Recursive nonnegb.
Parametricity Recursive WoptF.
Parametricity Recursive pbvi_runF.
Parametricity Recursive mirror_cmp.
Parametricity Recursive chk_pbvi_upperF.
Parametricity Recursive chk_pbvi_le_qmdpF.
Parametricity Recursive chk_qmdp_lowerF.
Parametricity Recursive chk_qtableF.
Parametricity Recursive chk_crossF.
Parametricity Recursive chk_fullobs_geF.
Parametricity Recursive chk_sweepF.
Parametricity Recursive alpha_valueF.
Parametricity Recursive alpha_avF.
Parametricity Recursive qmdp_avF.
Parametricity Recursive greedy_checkF.

Section Rel.
(* any executable number type related to R: instantiated with (Q, QR, NumQR) and (bigQ, BR, NumBR) *)
Variables (A : Type) (RR : A -> R -> Type) (NA : Num A) (NR_ : Num_R A R RR NA NumR) (f : A -> R).
Hypothesis Hf : forall a, RR a (f a).

Definition m1 := map f.
Definition m2 := map (map f).
Definition m3 := map (map (map f)).
Lemma r1 l : list_R A R RR l (m1 l).
Proof. apply list_R_map. exact Hf. Qed.
Lemma r2 l : list_R _ _ (list_R A R RR) l (m2 l).
Proof. apply list_R_map. intros x. apply r1. Qed.
Lemma r3 l : list_R _ _ (list_R _ _ (list_R A R RR)) l (m3 l).
Proof. apply list_R_map. intros x. apply r2. Qed.

Variables (nS nA nO : nat) (P Rw : list (list (list A))) (ab : list bool) (ini : list A) (g : A)
          (Obl : list (list (list A))).
Definition pA : pomdp A := mk_pomdp nS nA nO P Rw ab ini g Obl.
Definition pR : pomdp R := mk_pomdp nS nA nO (m3 P) (m3 Rw) ab (m1 ini) (f g) (m3 Obl).

Lemma pAR : pomdp_R A R RR pA pR.
Proof.
  apply (mk_pomdp_R A R RR NA NumR NR_); try apply nat_R_refl;
    auto using r1, r2, r3, list_R_bool_refl.
Qed.

Lemma t_wf : wfpomdpb pA = wfpomdpb pR.
Proof. apply bool_R_inv, (wfpomdpb_R A R RR NA NumR NR_), pAR. Qed.
Lemma t_fullobs : fullobsb pA = fullobsb pR.
Proof. apply bool_R_inv, (fullobsb_R A R RR NA NumR NR_), pAR. Qed.
Lemma t_Wopt k u : RR (WoptF pA k u) (WoptF pR k (m1 u)).
Proof. apply (WoptF_R A R RR NA NumR NR_); auto using pAR, nat_R_refl, r1. Qed.
Lemma t_upper tol k j G u :
  chk_pbvi_upperF pA tol k j G u = chk_pbvi_upperF pR (f tol) k j (m2 G) (m1 u).
Proof. apply bool_R_inv, (chk_pbvi_upperF_R A R RR NA NumR NR_); auto using pAR, nat_R_refl, r1, r2. Qed.
Lemma t_le_qmdp tol j G u :
  chk_pbvi_le_qmdpF pA tol j G u = chk_pbvi_le_qmdpF pR (f tol) j (m2 G) (m1 u).
Proof. apply bool_R_inv, (chk_pbvi_le_qmdpF_R A R RR NA NumR NR_); auto using pAR, nat_R_refl, r1, r2. Qed.
Lemma t_qmdp_lower tol k Qt u :
  chk_qmdp_lowerF pA tol k Qt u = chk_qmdp_lowerF pR (f tol) k (m2 Qt) (m1 u).
Proof. apply bool_R_inv, (chk_qmdp_lowerF_R A R RR NA NumR NR_); auto using pAR, nat_R_refl, r1, r2. Qed.
Lemma t_qtable qtol Vs Qt :
  chk_qtableF pA qtol Vs Qt = chk_qtableF pR (f qtol) (m1 Vs) (m2 Qt).
Proof. apply bool_R_inv, (chk_qtableF_R A R RR NA NumR NR_); auto using pAR, r1, r2. Qed.
Lemma t_cross tol j G Qt u :
  chk_crossF pA tol j G Qt u = chk_crossF pR (f tol) j (m2 G) (m2 Qt) (m1 u).
Proof. apply bool_R_inv, (chk_crossF_R A R RR NA NumR NR_); auto using pAR, nat_R_refl, r1, r2. Qed.
Lemma t_fullobs_ge tol j G u :
  chk_fullobs_geF pA tol j G u = chk_fullobs_geF pR (f tol) j (m2 G) (m1 u).
Proof. apply bool_R_inv, (chk_fullobs_geF_R A R RR NA NumR NR_); auto using pAR, nat_R_refl, r1, r2. Qed.
Lemma t_sweep tol Gp B cand idx :
  chk_sweepF pA tol Gp B cand idx = chk_sweepF pR (f tol) (m2 Gp) (m2 B) (m3 cand) idx.
Proof. apply bool_R_inv, (chk_sweepF_R A R RR NA NumR NR_); auto using pAR, r1, r2, r3, list_R_nat_refl. Qed.
Lemma t_greedy ptol av d :
  greedy_checkF pA ptol av d = greedy_checkF pR (f ptol) (m1 av) (m1 d).
Proof. apply bool_R_inv, (greedy_checkF_R A R RR NA NumR NR_); auto using pAR, r1. Qed.
Lemma t_alpha_value G u : RR (alpha_valueF pA G u) (alpha_valueF pR (m2 G) (m1 u)).
Proof. apply (alpha_valueF_R A R RR NA NumR NR_); auto using pAR, r1, r2. Qed.
Lemma t_alpha_av G u : list_R A R RR (alpha_avF pA G u) (alpha_avF pR (m2 G) (m1 u)).
Proof. apply (alpha_avF_R A R RR NA NumR NR_); auto using pAR, r1, r2. Qed.
Lemma t_qmdp_av Qt u : list_R A R RR (qmdp_avF pA Qt u) (qmdp_avF pR (m2 Qt) (m1 u)).
Proof. apply (qmdp_avF_R A R RR NA NumR NR_); auto using pAR, r1, r2. Qed.

(* the mirror: same sweep count, same flag, related alpha vectors *)
Lemma t_run H amb eps B :
  prod_R _ _ (prod_R _ _ (list_R _ _ (list_R A R RR)) nat nat nat_R) bool bool bool_R
    (pbvi_runF pA H amb eps B) (pbvi_runF pR H (f amb) (f eps) (m2 B)).
Proof. apply (pbvi_runF_R A R RR NA NumR NR_); auto using pAR, nat_R_refl, r2. Qed.
Lemma t_mirror H amb eps B Gi tol :
  mirror_cmp pA H amb eps B Gi tol = mirror_cmp pR H (f amb) (f eps) (m2 B) (m2 Gi) (f tol).
Proof.
  pose proof (mirror_cmp_R A R RR NA NumR NR_ pA pR pAR H H (nat_R_refl H) amb (f amb) (Hf amb)
                eps (f eps) (Hf eps) B (m2 B) (r2 B) Gi (m2 Gi) (r2 Gi) tol (f tol) (Hf tol)) as X.
  destruct X as [? ? [? ? X1 ? ? X2] ? ? X3].
  apply nat_R_eq in X1. apply bool_R_inv in X2. apply bool_R_inv in X3. congruence.
Qed.
End Rel.

(* ---- the two instances the harness runs ---- *)
Definition BQ2R (b : bigQ) : R := Q2R (BigQ.to_Q b).
Lemma QR_refl (q : Q) : QR q (Q2R q). Proof. reflexivity. Qed.
Lemma BR_refl (b : bigQ) : BR b (BQ2R b). Proof. reflexivity. Qed.

(* Q: oracle and checks *)
Definition C08_transfer_Q := (t_wf Q QR NumQ NumQR Q2R QR_refl, t_upper Q QR NumQ NumQR Q2R QR_refl,
  t_le_qmdp Q QR NumQ NumQR Q2R QR_refl, t_qmdp_lower Q QR NumQ NumQR Q2R QR_refl,
  t_qtable Q QR NumQ NumQR Q2R QR_refl, t_cross Q QR NumQ NumQR Q2R QR_refl,
  t_fullobs_ge Q QR NumQ NumQR Q2R QR_refl, t_sweep Q QR NumQ NumQR Q2R QR_refl, t_greedy Q QR NumQ NumQR Q2R QR_refl).
(* bigQ: the mirror *)
Definition C08_transfer_B := (t_wf bigQ BR NumB NumBR BQ2R BR_refl, t_mirror bigQ BR NumB NumBR BQ2R BR_refl,
  t_run bigQ BR NumB NumBR BQ2R BR_refl).
Print Assumptions C08_transfer_Q.

