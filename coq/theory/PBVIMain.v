(* PBVIMain.v — C08 end-to-end: "the mirror / table check, as executed by vm_compute on exact
   rationals together with msdm's output, accepted"  ==>  bounds on msdm's own alpha vectors and
   Q table with respect to the optimal POMDP value W*, over R. *)
From Coq Require Import QArith Qreals Reals Lra Lia List Bool.
From Bignums Require Import BigQ.
From MSDM Require Import base.Num base.NumInst base.NumR base.Transfer model.MDP model.POMDP model.PBVI
     theory.Bellman theory.PBVITheory theory.PBVITransfer.
Import ListNotations.
Local Open Scope R_scope.

Lemma vclose_spec tol (l1 l2 : list R) :
  0 <= tol -> vclose tol l1 l2 = true -> forall s, Rabs (untab l1 s - untab l2 s) <= tol.
Proof.
  intros Ht. revert l2. induction l1 as [|x r1 IH]; intros [|y r2] H s; try discriminate.
  - unfold untab. destruct s; cbn [nth]; numR; rewrite Rminus_0_r, Rabs_R0; lra.
  - cbn [vclose] in H. apply andb_true_iff in H as [H1 H2]. apply NumR.ncloseb_R in H1.
    destruct s; [exact H1|]. apply (IH r2 H2 s).
Qed.

Lemma gclose_spec tol (G1 G2 : list (list R)) :
  gclose tol G1 G2 = true ->
  length G1 = length G2 /\
  forall i, (i < length G1)%nat -> vclose tol (nth i G1 []) (nth i G2 []) = true.
Proof.
  revert G2. induction G1 as [|x r1 IH]; intros [|y r2] H; try discriminate.
  - split; [reflexivity|]. intros i Hi. inversion Hi.
  - cbn [gclose] in H. apply andb_true_iff in H as [H1 H2]. destruct (IH r2 H2) as [L HI].
    split; [simpl; congruence|]. intros [|i] Hi; [exact H1|]. apply HI. simpl in Hi. lia.
Qed.

Section R.
Variable p : pomdp R.
Notation m := (base p).
Variables (tO : nat -> nat -> nat -> nat -> R) (rM : nat -> nat -> R).
Hypothesis W : wfp p tO rM.

Lemma dot_close u a1 a2 tol :
  nonneg p u -> (forall s, Rabs (a1 s - a2 s) <= tol) ->
  Rabs (dot p u a1 - dot p u a2) <= mass p u * tol.
Proof. intros Hu H. unfold dot, mass. numR. apply wsum_diff_bound; auto. Qed.

(* msdm's alpha vectors, if within tol of the mirror's, are at most W* + tail + tol *)
Theorem pbvi_certified_R M H amb eps B Gi tol u Ws x :
  0 <= tol ->
  gclose tol (fst (fst (pbvi_run p tO rM H amb eps B))) Gi = true ->
  nonneg p u -> is_Wstar p tO rM M u Ws -> alpha_value p Gi u = Some x ->
  x <= Ws + tailR p M (snd (fst (pbvi_run p tO rM H amb eps B))) u + mass p u * tol.
Proof.
  intros Ht Hc Hu HW Hx.
  pose proof (pbvi_run_gen p tO rM H amb eps B (wp_nA _ _ _ W)) as HG. cbv zeta in HG.
  set (r := pbvi_run p tO rM H amb eps B) in *.
  destruct (gclose_spec _ _ _ Hc) as [L HI].
  unfold alpha_value in Hx. eapply maxf_le_bound; [exact Hx|]. intros i Hi _. cbv beta.
  rewrite <- L in Hi.
  assert (Hgi : gen p tO rM (snd (fst r)) (untab (nth i (fst (fst r)) []))).
  { unfold genl in HG. rewrite Forall_forall in HG. apply HG. now apply nth_In. }
  pose proof (pbvi_le_Wstar p tO rM M _ _ u Ws W Hgi Hu HW) as H1.
  pose proof (dot_close u _ _ tol Hu (vclose_spec tol _ _ Ht (HI i Hi))) as H2.
  apply Rabs_le_inv' in H2. lra.
Qed.

(* msdm's Q table, if it passes chk_qtable against an exact fixed point, gives a QMDP value >= W* - tol *)
Theorem qmdp_certified_R M qtol Vs Qt u Ws :
  0 <= M -> chk_qtable p qtol Vs Qt = true -> nonneg p u -> is_Wstar p tO rM M u Ws ->
  Ws <= odflt 0 (qmdp_value p Qt u) + mass p u * qtol.
Proof.
  intros HM0 Hc Hu HW. destruct (chk_qtable_fixp p qtol Vs Qt Hc) as [Hf Hq].
  pose proof (Wstar_le_qmdp p tO rM M (untab Vs) u Ws W HM0 Hf Hu HW) as H1.
  unfold qmdp_value, qmdp_action_value in *. numR.
  destruct (maxf_all_some (nA m) (fun a => sumf (nS m) (fun s => Qval m (untab Vs) s a * u s)) (wp_nA _ _ _ W)) as (y & Hy).
  destruct (maxf_all_some (nA m) (fun a => sumf (nS m) (fun s => Qt s a * u s)) (wp_nA _ _ _ W)) as (x & Hx).
  rewrite Hy in H1. rewrite Hx. cbn [odflt] in *.
  assert (Hd : Rabs (x - y) <= mass p u * qtol).
  { eapply maxf_nonexp; [exact Hx|exact Hy|]. intros a Ha _. cbv beta.
    rewrite <- sumf_minus. eapply Rle_trans; [apply sumf_abs|]. unfold mass.
    rewrite <- sumf_scal_r. apply sumf_le. intros s Hs.
    replace (Qt s a * u s - Qval m (untab Vs) s a * u s) with (u s * (Qt s a - Qval m (untab Vs) s a)) by ring.
    rewrite Rabs_mult, (Rabs_right (u s)) by (apply Rle_ge, Hu; auto).
    apply Rmult_le_compat_l; [apply Hu; auto|apply Hq; auto]. }
  apply Rabs_le_inv' in Hd. lra.
Qed.

End R.

(* ---------------- on the data the harness evaluates ---------------- *)
Section Main.
Variables (nS nA nO : nat) (ab : list bool).

(* --- PBVI: the mirror runs on bigQ --- *)
Variables (PB RwB : list (list (list bigQ))) (iniB : list bigQ) (gB : bigQ) (ObB : list (list (list bigQ))).
Definition pB : pomdp bigQ := mk_pomdp nS nA nO PB RwB ab iniB gB ObB.
Definition pBR : pomdp R := pR bigQ BQ2R nS nA nO PB RwB ab iniB gB ObB.

Theorem main_pbvi H amb eps B Gi tol j fl :
  @wfpomdpb bigQ NumB pB = true ->
  @mirror_cmp bigQ NumB pB H amb eps B Gi tol = (j, fl, true) ->
  0 <= BQ2R tol ->
  forall u Ws x, nonneg pBR u ->
    is_Wstar pBR (tO_tab pBR) (rM_tab pBR) (rmaxabs pBR (rM_tab pBR)) u Ws ->
    alpha_value pBR (m2 bigQ BQ2R Gi) u = Some x ->
    x <= Ws + tailR pBR (rmaxabs pBR (rM_tab pBR)) j u + mass pBR u * BQ2R tol.
Proof.
  intros Hwf Hm Ht u Ws x Hu HW Hx.
  assert (Wf : wfp pBR (tO_tab pBR) (rM_tab pBR)).
  { apply wfpomdpb_wfp_tab. unfold pBR. rewrite <- (t_wf bigQ BR NumB NumBR BQ2R BR_refl). exact Hwf. }
  unfold pB in Hm. rewrite (t_mirror bigQ BR NumB NumBR BQ2R BR_refl) in Hm. fold pBR in Hm.
  unfold mirror_cmp, pbvi_runF in Hm. injection Hm as Hj Hfl Hc. rewrite <- Hj.
  pose proof (pbvi_certified_R pBR _ _ Wf _ H (BQ2R amb) (BQ2R eps) (m2 bigQ BQ2R B)
                (m2 bigQ BQ2R Gi) (BQ2R tol) u Ws x Ht Hc Hu HW Hx) as H1.
  exact H1.
Qed.

(* --- QMDP: the table check runs on Q --- *)
Variables (PQ RwQ : list (list (list Q))) (iniQ : list Q) (gQ : Q) (ObQ : list (list (list Q))).
Definition pQ : pomdp Q := mk_pomdp nS nA nO PQ RwQ ab iniQ gQ ObQ.
Definition pQR : pomdp R := pR Q Q2R nS nA nO PQ RwQ ab iniQ gQ ObQ.

Theorem main_qmdp qtol Vs Qt :
  @wfpomdpb Q NumQ pQ = true ->
  @chk_qtableF Q NumQ pQ qtol Vs Qt = true ->
  forall u Ws, nonneg pQR u ->
    is_Wstar pQR (tO_tab pQR) (rM_tab pQR) (rmaxabs pQR (rM_tab pQR)) u Ws ->
    Ws <= odflt 0 (qmdp_value pQR (untab2 (m2 Q Q2R Qt)) u) + mass pQR u * Q2R qtol.
Proof.
  intros Hwf Hc u Ws Hu HW.
  assert (Wf : wfp pQR (tO_tab pQR) (rM_tab pQR)).
  { apply wfpomdpb_wfp_tab. unfold pQR. rewrite <- (t_wf Q QR NumQ NumQR Q2R QR_refl). exact Hwf. }
  unfold pQ in Hc. rewrite (t_qtable Q QR NumQ NumQR Q2R QR_refl) in Hc. fold pQR in Hc.
  destruct (rmaxabs_bound pQR (rM_tab pQR) (wp_nA _ _ _ Wf)) as [HM0 _].
  apply (qmdp_certified_R pQR _ _ Wf _ (Q2R qtol) (m1 Q Q2R Vs) _ u Ws HM0 Hc Hu HW).
Qed.

Theorem main_greedy ptol av d :
  @greedy_checkF Q NumQ pQ ptol av d = true ->
  exists mx, maxf nA (fun _ => true) (untab (m1 Q Q2R av)) = Some mx /\
    (forall a, (a < nA)%nat -> untab (m1 Q Q2R av) a <= mx) /\
    (exists a, (a < nA)%nat /\ untab (m1 Q Q2R av) a = mx) /\
    forall a, (a < nA)%nat ->
      (untab (m1 Q Q2R av) a = mx ->
         Rabs (untab (m1 Q Q2R d) a * INR (countb nA (fun a' => neqb (untab (m1 Q Q2R av) a') mx)) - 1) <= Q2R ptol) /\
      (untab (m1 Q Q2R av) a <> mx -> untab (m1 Q Q2R d) a = 0).
Proof.
  intros H. unfold pQ in H. rewrite (t_greedy Q QR NumQ NumQR Q2R QR_refl) in H.
  apply (greedy_check_sound (Q2R ptol) nA _ _ H).
Qed.

End Main.
