(* EntRegTheory.v — theory of entropy-regularised policy iteration (model/EntReg.v).
   All statements are for arbitrary nS, nA, row-stochastic T, any rewards, 0 <= gamma < 1,
   positive per-state entropy weights and full-support priors (record wf of the model). *)
From Coq Require Import Reals Lra Lia List Arith Bool.
From MSDM Require Import base.Num base.NumInst base.NumR model.EntReg.
From MSDM Require theory.Bellman.   (* finite_sup only; not imported: its wf / nS names would clash *)
Local Open Scope R_scope.

(* ---------- elementary facts ---------- *)
Lemma sumf_pos n (f : nat -> R) :
  (0 < n)%nat -> (forall i, (i < n)%nat -> 0 < f i) -> 0 < sumf n f.
Proof.
  intros Hn Hf. destruct n; [lia|]. rewrite sumf_S.
  assert (0 <= sumf n f) by (apply sumf_nonneg; intros i Hi; left; apply Hf; lia).
  specialize (Hf n (Nat.lt_succ_diag_r n)). lra.
Qed.

Lemma sumf_ge_term n (f : nat -> R) k :
  (forall i, (i < n)%nat -> 0 <= f i) -> (k < n)%nat -> f k <= sumf n f.
Proof.
  induction n; intros Hf Hk; [lia|]. rewrite sumf_S.
  destruct (Nat.eq_dec k n) as [->|Hne].
  - assert (0 <= sumf n f) by (apply sumf_nonneg; intros; apply Hf; lia). lra.
  - assert (f k <= sumf n f) by (apply IHn; [intros; apply Hf; lia|lia]).
    specialize (Hf n (Nat.lt_succ_diag_r n)). lra.
Qed.

Lemma ln_le x y : 0 < x -> x <= y -> ln x <= ln y.
Proof.
  intros Hx [Hlt| ->]; [left; apply ln_increasing; auto|lra].
Qed.

Lemma ln_le_sub1 x : 0 < x -> ln x <= x - 1.
Proof.
  intros Hx. pose proof (exp_ineq1_le (ln x)) as H. rewrite exp_ln in H by auto. lra.
Qed.

Lemma ln_div x y : 0 < x -> 0 < y -> ln (x / y) = ln x - ln y.
Proof.
  intros Hx Hy. unfold Rdiv.
  rewrite ln_mult; [|auto|now apply Rinv_0_lt_compat]. rewrite ln_Rinv by auto. lra.
Qed.

Lemma Rabs_le_iff a b : Rabs a <= b <-> - b <= a <= b.
Proof. split; [apply Rabs_le_inv'|apply Rabs_le]. Qed.

(* ---------- shift invariance, pointwise and without global hypotheses: these are the lemmas
   the generated correspondence goals apply (side conditions are discharged there by
   lra / interval on the concrete data) ---------- *)
Section Shift.
Variable nA : nat.
Variable lam : nat -> R.
Variable pi0 : nat -> nat -> R.
Variable c : nat -> R.

Lemma Zsum_shift_gen q s :
  lam s <> 0 -> Zsum_sh nA lam pi0 c q s = exp (- c s / lam s) * Zsum nA lam pi0 q s.
Proof.
  intros Hl. unfold Zsum_sh, Zsum. rewrite <- sumf_scal. apply sumf_ext. intros b Hb.
  replace ((q s b - c s) / lam s) with (- c s / lam s + q s b / lam s) by (field; lra).
  rewrite exp_plus. lra.
Qed.

Lemma Zsum_pos_of_shift q s :
  lam s <> 0 -> 0 < Zsum_sh nA lam pi0 c q s -> 0 < Zsum nA lam pi0 q s.
Proof.
  intros Hl H. rewrite Zsum_shift_gen in H by auto.
  pose proof (exp_pos (- c s / lam s)) as He.
  destruct (Rlt_le_dec 0 (Zsum nA lam pi0 q s)) as [|Hle]; [auto|].
  assert (exp (- c s / lam s) * Zsum nA lam pi0 q s <= 0); [|lra].
  rewrite <- (Rmult_0_r (exp (- c s / lam s))). apply Rmult_le_compat_l; lra.
Qed.

Lemma softmax_shift_gen q s a :
  lam s <> 0 -> 0 < Zsum_sh nA lam pi0 c q s ->
  softmax_sh nA lam pi0 c q s a = softmax nA lam pi0 q s a.
Proof.
  intros Hl HZ. pose proof (Zsum_pos_of_shift q s Hl HZ) as HZ'.
  pose proof (exp_pos (- c s / lam s)) as He.
  unfold softmax_sh, softmax. rewrite Zsum_shift_gen by auto.
  replace ((q s a - c s) / lam s) with (- c s / lam s + q s a / lam s) by (field; lra).
  rewrite exp_plus. field. lra.
Qed.

Lemma lse_shift_gen q s :
  lam s <> 0 -> 0 < Zsum_sh nA lam pi0 c q s ->
  lse_sh nA lam pi0 c q s = lse nA lam pi0 q s.
Proof.
  intros Hl HZ. pose proof (Zsum_pos_of_shift q s Hl HZ) as HZ'.
  unfold lse_sh, lse. rewrite Zsum_shift_gen by auto.
  rewrite ln_mult; [|apply exp_pos|auto]. rewrite ln_exp. field. lra.
Qed.

Lemma E2_at_shift_gen atol rtol q pi s a :
  lam s <> 0 -> 0 < Zsum_sh nA lam pi0 c q s ->
  E2sh_at nA lam pi0 c atol rtol q pi s a -> E2_at nA lam pi0 atol rtol q pi s a.
Proof. intros Hl HZ. unfold E2sh_at, E2_at. now rewrite softmax_shift_gen. Qed.

Lemma E3_at_shift_gen eps v q s :
  lam s <> 0 -> 0 < Zsum_sh nA lam pi0 c q s ->
  E3sh_at nA lam pi0 c eps v q s -> E3_at nA lam pi0 eps v q s.
Proof. intros Hl HZ. unfold E3sh_at, E3_at. now rewrite lse_shift_gen. Qed.
End Shift.

(* a generic fixed-point residual argument in sup norm over indices < n *)
Section Contraction.
Variable n : nat.
Variable g : R.
Variable F : (nat -> R) -> nat -> R.
Hypothesis g1 : g < 1.
Hypothesis Fcontr : forall V W d, 0 <= d ->
  (forall i, (i < n)%nat -> Rabs (V i - W i) <= d) ->
  forall s, (s < n)%nat -> Rabs (F V s - F W s) <= g * d.

Lemma contraction_residual V Vs delta :
  (forall s, (s < n)%nat -> Vs s = F Vs s) -> 0 <= delta ->
  (forall s, (s < n)%nat -> Rabs (V s - F V s) <= delta) ->
  forall s, (s < n)%nat -> Rabs (V s - Vs s) <= delta / (1 - g).
Proof.
  intros Hfix Hd0 Hres.
  destruct (Bellman.finite_sup n (fun s => V s - Vs s)) as (D & HD0 & HDle & HDat).
  assert (HD : D <= delta / (1 - g)).
  { destruct HDat as [-> |(i & Hi & He)].
    - apply Rmult_le_pos; [lra|]. left. apply Rinv_0_lt_compat. lra.
    - cbv beta in He.
      assert (H1 : D <= delta + g * D).
      { assert (Hc : Rabs (F V i - F Vs i) <= g * D) by (apply Fcontr; auto).
        pose proof (Hres i Hi) as Hr. pose proof (Hfix i Hi) as Hf.
        apply Rabs_le_inv' in Hc. apply Rabs_le_inv' in Hr.
        rewrite <- He at 1. apply Rabs_le. lra. }
      apply Rmult_le_reg_r with (1 - g); [lra|].
      unfold Rdiv. rewrite Rmult_assoc, Rinv_l; lra. }
  intros s Hs. eapply Rle_trans; [apply HDle; auto|exact HD].
Qed.

Lemma contraction_unique V1 V2 :
  (forall s, (s < n)%nat -> V1 s = F V1 s) -> (forall s, (s < n)%nat -> V2 s = F V2 s) ->
  forall s, (s < n)%nat -> V1 s = V2 s.
Proof.
  intros H1 H2 s Hs.
  assert (H : Rabs (V1 s - V2 s) <= 0 / (1 - g)).
  { apply contraction_residual; auto; [lra|]. intros s' Hs'. rewrite <- (H1 s' Hs').
    replace (V1 s' - V1 s') with 0 by lra. rewrite Rabs_R0; lra. }
  unfold Rdiv in H. rewrite Rmult_0_l in H. apply Rabs_le_inv' in H. lra.
Qed.
End Contraction.

Section Theory.
Variables nS nA : nat.
Variables T Rw : nat -> nat -> nat -> R.
Variable gam : R.
Variable lam : nat -> R.
Variable pi0 : nat -> nat -> R.
Hypothesis W : wf nS nA T gam lam pi0.

Notation look := (lookahead nS T Rw gam).
Notation Zs := (Zsum nA lam pi0).
Notation sm := (softmax nA lam pi0).
Notation LSE := (lse nA lam pi0).
Notation hmax := (hardmax nA).

(* ---------- partition function, softmax ---------- *)
Lemma Zsum_pos q s : (s < nS)%nat -> 0 < Zs q s.
Proof.
  intros Hs. apply sumf_pos; [apply (wf_nA _ _ _ _ _ _ W)|].
  intros a Ha. apply Rmult_lt_0_compat; [apply (wf_pi0 _ _ _ _ _ _ W); auto|apply exp_pos].
Qed.

Lemma softmax_pos q s a : (s < nS)%nat -> (a < nA)%nat -> 0 < sm q s a.
Proof.
  intros Hs Ha. unfold softmax. apply Rdiv_lt_0_compat; [|apply Zsum_pos; auto].
  apply Rmult_lt_0_compat; [apply (wf_pi0 _ _ _ _ _ _ W); auto|apply exp_pos].
Qed.

Lemma softmax_sum q s : (s < nS)%nat -> sumf nA (sm q s) = 1.
Proof.
  intros Hs. pose proof (Zsum_pos q s Hs) as HZ.
  rewrite (sumf_ext nA _ (fun a => (pi0 s a * exp (q s a / lam s)) * / Zs q s))
    by (intros; reflexivity).
  rewrite sumf_scal_r. change (Zs q s * / Zs q s = 1). field. lra.
Qed.

(* ln (softmax / prior) = q / lam - ln Z *)
Lemma ln_softmax_ratio q s a :
  (s < nS)%nat -> (a < nA)%nat -> ln (sm q s a / pi0 s a) = q s a / lam s - ln (Zs q s).
Proof.
  intros Hs Ha. pose proof (Zsum_pos q s Hs) as HZ.
  pose proof (wf_pi0 _ _ _ _ _ _ W s a Hs Ha) as Hp.
  replace (sm q s a / pi0 s a) with (exp (q s a / lam s) / Zs q s)
    by (unfold softmax; field; lra).
  rewrite ln_div; [|apply exp_pos|auto]. now rewrite ln_exp.
Qed.

(* ---------- look-ahead ---------- *)
Lemma look_diff v w d s a :
  (s < nS)%nat -> (a < nA)%nat -> 0 <= d ->
  (forall n, (n < nS)%nat -> Rabs (v n - w n) <= d) ->
  Rabs (look v s a - look w s a) <= gam * d.
Proof.
  intros Hs Ha Hd0 Hd. pose proof (wf_g0 _ _ _ _ _ _ W) as G0.
  unfold lookahead. rewrite <- sumf_minus.
  rewrite (sumf_ext nS _ (fun n => gam * (T s a n * (v n - w n)))) by (intros; lra).
  rewrite sumf_scal, Rabs_mult, (Rabs_right gam) by lra.
  apply Rmult_le_compat_l; [lra|].
  rewrite (sumf_ext nS _ (fun n => T s a n * v n - T s a n * w n)) by (intros; lra).
  rewrite sumf_minus.
  eapply Rle_trans; [apply wsum_diff_bound with (d := d); auto|].
  - intros n Hn. apply (wf_Tnn _ _ _ _ _ _ W); auto.
  - rewrite (wf_Tsum _ _ _ _ _ _ W s a Hs Ha). lra.
Qed.

(* the code's matrix form of the evaluation system, per action *)
Lemma eval_system_peraction pi v :
  eval_system nS nA T Rw gam lam pi0 pi v ->
  forall s, (s < nS)%nat ->
    v s = sumf nA (fun a => pi s a * look v s a) - lam s * s_ent nA pi0 pi s.
Proof.
  intros He s Hs. specialize (He s Hs).
  assert (E : sumf nA (fun a => pi s a * look v s a)
              = s_rf nS nA T Rw pi s + gam * sumf nS (fun n => mp nA T pi s n * v n)).
  { unfold lookahead, s_rf, mp.
    rewrite (sumf_ext nS (fun n => sumf nA (fun a => pi s a * T s a n) * v n)
                         (fun n => sumf nA (fun a => pi s a * T s a n * v n)))
      by (intros; now rewrite sumf_scal_r).
    rewrite (sumf_swap nS nA (fun n a => pi s a * T s a n * v n)).
    rewrite <- (sumf_scal nA gam), <- sumf_plus. apply sumf_ext. intros a Ha. cbv beta.
    rewrite <- (sumf_scal nS (pi s a)), <- (sumf_scal nS gam), <- sumf_plus.
    apply sumf_ext. intros n Hn. lra. }
  rewrite E. lra.
Qed.

(* ---------- the log-sum-exp identity through the KL term ---------- *)
(* v = LSE(q) - lam * KL(pi || softmax(q)) whenever v solves the evaluation system of pi *)
Theorem value_gap pi v q :
  eval_system nS nA T Rw gam lam pi0 pi v ->
  (forall s a, (s < nS)%nat -> (a < nA)%nat -> q s a = look v s a) ->
  (forall s a, (s < nS)%nat -> (a < nA)%nat -> 0 < pi s a) ->
  (forall s, (s < nS)%nat -> sumf nA (pi s) = 1) ->
  forall s, (s < nS)%nat -> v s = LSE q s - lam s * kl nA pi (sm q) s.
Proof.
  intros He Hq Hpos Hsum s Hs.
  rewrite (eval_system_peraction pi v He s Hs).
  unfold s_ent, kl, lse.
  rewrite <- !sumf_scal, <- sumf_minus.
  rewrite <- (Rmult_1_l (lam s * ln (Zs q s))), <- (Hsum s Hs), <- sumf_scal_r, <- sumf_minus.
  apply sumf_ext. intros a Ha.
  pose proof (Hpos s a Hs Ha) as Hp. pose proof (softmax_pos q s a Hs Ha) as Hsm.
  pose proof (wf_pi0 _ _ _ _ _ _ W s a Hs Ha) as Hp0.
  pose proof (wf_lam _ _ _ _ _ _ W s Hs) as Hl.
  rewrite <- (Hq s a Hs Ha).
  replace (pi s a / pi0 s a) with ((pi s a / sm q s a) * (sm q s a / pi0 s a)) by (field; lra).
  rewrite ln_mult; [|apply Rdiv_lt_0_compat; auto|apply Rdiv_lt_0_compat; auto].
  rewrite ln_softmax_ratio by auto. field. lra.
Qed.

Lemma kl_self pi s : (forall a, (a < nA)%nat -> 0 < pi s a) -> kl nA pi pi s = 0.
Proof.
  intros Hp. unfold kl. apply sumf_0. intros a Ha.
  replace (pi s a / pi s a) with 1 by (field; specialize (Hp a Ha); lra).
  rewrite ln_1. lra.
Qed.

(* Gibbs' inequality *)
Lemma kl_nonneg pi pi' s :
  (forall a, (a < nA)%nat -> 0 < pi s a) -> (forall a, (a < nA)%nat -> 0 < pi' s a) ->
  sumf nA (pi s) = 1 -> sumf nA (pi' s) = 1 -> 0 <= kl nA pi pi' s.
Proof.
  intros Hp Hp' Hs1 Hs2.
  assert (H : - kl nA pi pi' s <= sumf nA (fun a => pi' s a - pi s a)).
  { unfold kl. rewrite <- (Rmult_1_l (sumf _ _)), Ropp_mult_distr_l, <- sumf_scal.
    apply sumf_le. intros a Ha. specialize (Hp a Ha). specialize (Hp' a Ha).
    assert (Hl : ln (pi' s a / pi s a) <= pi' s a / pi s a - 1)
      by (apply ln_le_sub1, Rdiv_lt_0_compat; auto).
    replace (pi s a / pi' s a) with (/ (pi' s a / pi s a)) by (field; lra).
    rewrite ln_Rinv by (apply Rdiv_lt_0_compat; auto).
    apply Rmult_le_compat_l with (r := pi s a) in Hl; [|lra].
    replace (pi s a * (pi' s a / pi s a - 1)) with (pi' s a - pi s a) in Hl by (field; lra).
    lra. }
  rewrite sumf_minus in H. lra.
Qed.

(* multiplicative band: pi <= (1+rho) pi' everywhere  =>  KL <= ln(1+rho) <= rho *)
Lemma kl_le_ratio pi pi' rho s :
  (forall a, (a < nA)%nat -> 0 < pi s a) -> (forall a, (a < nA)%nat -> 0 < pi' s a) ->
  sumf nA (pi s) = 1 -> 0 <= rho ->
  (forall a, (a < nA)%nat -> pi s a <= (1 + rho) * pi' s a) ->
  kl nA pi pi' s <= rho.
Proof.
  intros Hp Hp' Hs1 Hr Hb.
  apply Rle_trans with (sumf nA (fun a => pi s a * rho)).
  - apply sumf_le. intros a Ha. specialize (Hp a Ha). specialize (Hp' a Ha). specialize (Hb a Ha).
    apply Rmult_le_compat_l; [lra|].
    apply Rle_trans with (ln (1 + rho)).
    + apply ln_le; [apply Rdiv_lt_0_compat; auto|].
      apply Rmult_le_reg_r with (pi' s a); [auto|].
      replace (pi s a / pi' s a * pi' s a) with (pi s a) by (field; lra). lra.
    + pose proof (ln_le_sub1 (1 + rho)). lra.
  - rewrite sumf_scal_r, Hs1. lra.
Qed.

(* chi-square bound *)
Lemma kl_le_chi2 pi pi' s :
  (forall a, (a < nA)%nat -> 0 < pi s a) -> (forall a, (a < nA)%nat -> 0 < pi' s a) ->
  sumf nA (pi s) = 1 -> sumf nA (pi' s) = 1 ->
  kl nA pi pi' s <= sumf nA (fun a => (pi s a - pi' s a) * (pi s a - pi' s a) / pi' s a).
Proof.
  intros Hp Hp' Hs1 Hs2.
  apply Rle_trans with (sumf nA (fun a => (pi s a - pi' s a) * (pi s a - pi' s a) / pi' s a
                                          + (pi s a - pi' s a))).
  - apply sumf_le. intros a Ha. specialize (Hp a Ha). specialize (Hp' a Ha).
    assert (Hl : ln (pi s a / pi' s a) <= pi s a / pi' s a - 1)
      by (apply ln_le_sub1, Rdiv_lt_0_compat; auto).
    apply Rmult_le_compat_l with (r := pi s a) in Hl; [|lra].
    eapply Rle_trans; [exact Hl|]. right. field. lra.
  - rewrite sumf_plus, sumf_minus, Hs1, Hs2. lra.
Qed.

(* the code's stopping condition with pi equal to its own improvement: (E3) exactly *)
Theorem entreg_fixed_point pi v q :
  eval_system nS nA T Rw gam lam pi0 pi v ->
  (forall s a, (s < nS)%nat -> (a < nA)%nat -> q s a = look v s a) ->
  (forall s a, (s < nS)%nat -> (a < nA)%nat -> pi s a = sm q s a) ->
  forall s, (s < nS)%nat -> v s = LSE q s.
Proof.
  intros He Hq Hpi s Hs.
  rewrite (value_gap pi v q He Hq); auto.
  - assert (E : kl nA pi (sm q) s = kl nA (sm q) (sm q) s).
    { unfold kl. apply sumf_ext. intros a Ha. now rewrite (Hpi s a Hs Ha). }
    rewrite E, kl_self; [lra|]. intros a Ha. apply softmax_pos; auto.
  - intros s' a Hs' Ha. rewrite Hpi; auto. apply softmax_pos; auto.
  - intros s' Hs'. rewrite (sumf_ext nA (pi s') (sm q s')); [apply softmax_sum; auto|].
    intros a Ha. apply Hpi; auto.
Qed.

(* reported convergence: pi inside a multiplicative band of its improvement sm q.
   Then LSE - lam*rho <= v <= LSE; and v is below LSE by exactly lam*KL in general *)
Theorem entreg_fixed_point_approx pi v q rho :
  eval_system nS nA T Rw gam lam pi0 pi v ->
  (forall s a, (s < nS)%nat -> (a < nA)%nat -> q s a = look v s a) ->
  (forall s a, (s < nS)%nat -> (a < nA)%nat -> 0 < pi s a) ->
  (forall s, (s < nS)%nat -> sumf nA (pi s) = 1) ->
  0 <= rho ->
  (forall s a, (s < nS)%nat -> (a < nA)%nat -> pi s a <= (1 + rho) * sm q s a) ->
  forall s, (s < nS)%nat -> LSE q s - lam s * rho <= v s <= LSE q s.
Proof.
  intros He Hq Hpos Hsum Hr Hb s Hs.
  rewrite (value_gap pi v q He Hq Hpos Hsum s Hs).
  pose proof (wf_lam _ _ _ _ _ _ W s Hs) as Hl.
  assert (H0 : 0 <= kl nA pi (sm q) s).
  { apply kl_nonneg; auto; [intros; apply softmax_pos; auto|apply softmax_sum; auto]. }
  assert (H1 : kl nA pi (sm q) s <= rho).
  { apply kl_le_ratio; auto. intros; apply softmax_pos; auto. }
  split.
  - apply Rmult_le_compat_l with (r := lam s) in H1; lra.
  - apply Rmult_le_compat_l with (r := lam s) in H0; lra.
Qed.

Theorem entreg_fixed_point_chi2 pi v q :
  eval_system nS nA T Rw gam lam pi0 pi v ->
  (forall s a, (s < nS)%nat -> (a < nA)%nat -> q s a = look v s a) ->
  (forall s a, (s < nS)%nat -> (a < nA)%nat -> 0 < pi s a) ->
  (forall s, (s < nS)%nat -> sumf nA (pi s) = 1) ->
  forall s, (s < nS)%nat ->
    LSE q s - lam s * sumf nA (fun a => (pi s a - sm q s a) * (pi s a - sm q s a) / sm q s a)
      <= v s <= LSE q s.
Proof.
  intros He Hq Hpos Hsum s Hs.
  rewrite (value_gap pi v q He Hq Hpos Hsum s Hs).
  pose proof (wf_lam _ _ _ _ _ _ W s Hs) as Hl.
  assert (H0 : 0 <= kl nA pi (sm q) s).
  { apply kl_nonneg; auto; [intros; apply softmax_pos; auto|apply softmax_sum; auto]. }
  assert (H1 : kl nA pi (sm q) s
               <= sumf nA (fun a => (pi s a - sm q s a) * (pi s a - sm q s a) / sm q s a)).
  { apply kl_le_chi2; auto; [intros; apply softmax_pos; auto|apply softmax_sum; auto]. }
  split.
  - apply Rmult_le_compat_l with (r := lam s) in H1; lra.
  - apply Rmult_le_compat_l with (r := lam s) in H0; lra.
Qed.

(* ---------- log-sum-exp: monotone, 1-Lipschitz in sup norm ---------- *)
Lemma lse_shift_le q q' d s :
  (s < nS)%nat -> (forall a, (a < nA)%nat -> q s a <= q' s a + d) -> LSE q s <= LSE q' s + d.
Proof.
  intros Hs H. pose proof (wf_lam _ _ _ _ _ _ W s Hs) as Hl.
  pose proof (Zsum_pos q s Hs) as HZ. pose proof (Zsum_pos q' s Hs) as HZ'.
  assert (HZZ : Zs q s <= exp (d / lam s) * Zs q' s).
  { unfold Zsum. rewrite <- sumf_scal. apply sumf_le. intros a Ha.
    pose proof (wf_pi0 _ _ _ _ _ _ W s a Hs Ha) as Hp.
    rewrite (Rmult_comm (exp _)), Rmult_assoc, <- exp_plus.
    apply Rmult_le_compat_l; [lra|].
    assert (Hx : q s a / lam s <= q' s a / lam s + d / lam s).
    { replace (q' s a / lam s + d / lam s) with ((q' s a + d) / lam s) by (field; lra).
      unfold Rdiv. apply Rmult_le_compat_r; [left; apply Rinv_0_lt_compat; auto|apply H; auto]. }
    destruct Hx as [Hx|Hx]; [left; apply exp_increasing; auto|rewrite Hx; lra]. }
  unfold lse. apply ln_le in HZZ; auto.
  rewrite ln_mult, ln_exp in HZZ; [|apply exp_pos|auto].
  apply Rmult_le_compat_l with (r := lam s) in HZZ; [|lra].
  replace (lam s * (d / lam s + ln (Zs q' s))) with (lam s * ln (Zs q' s) + d) in HZZ
    by (field; lra).
  exact HZZ.
Qed.

Lemma lse_nonexp q q' d s :
  (s < nS)%nat -> (forall a, (a < nA)%nat -> Rabs (q s a - q' s a) <= d) ->
  Rabs (LSE q s - LSE q' s) <= d.
Proof.
  intros Hs H. apply Rabs_le. split.
  - assert (LSE q' s <= LSE q s + d); [|lra].
    apply lse_shift_le; auto. intros a Ha. specialize (H a Ha). apply Rabs_le_inv' in H. lra.
  - assert (LSE q s <= LSE q' s + d); [|lra].
    apply lse_shift_le; auto. intros a Ha. specialize (H a Ha). apply Rabs_le_inv' in H. lra.
Qed.

(* ---------- hard max ---------- *)
Lemma hardmax_some q s : maxf nA (fun _ => true) (q s) = Some (hmax q s).
Proof.
  unfold hardmax.
  destruct (maxf_some_ex nA (fun _ => true) (q s) 0%nat (wf_nA _ _ _ _ _ _ W) eq_refl) as (x & Hx).
  now rewrite Hx.
Qed.

Lemma hardmax_ge q s a : (a < nA)%nat -> q s a <= hmax q s.
Proof. intros Ha. eapply maxf_ge; [apply hardmax_some|auto|reflexivity]. Qed.

Lemma hardmax_attained q s : exists a, (a < nA)%nat /\ q s a = hmax q s.
Proof.
  destruct (maxf_attained _ _ _ _ (hardmax_some q s)) as (a & Ha & _ & E). eauto.
Qed.

Lemma hardmax_nonexp q q' d s :
  (forall a, (a < nA)%nat -> Rabs (q s a - q' s a) <= d) -> Rabs (hmax q s - hmax q' s) <= d.
Proof.
  intros H. eapply maxf_nonexp; [apply hardmax_some|apply hardmax_some|]. intros a Ha _. auto.
Qed.

(* ---------- soft versus hard ---------- *)
(* max_a q >= LSE >= max_a q + lam ln pi0(a* ) *)
Theorem soft_vs_hard q s :
  (s < nS)%nat ->
  exists astar, (astar < nA)%nat /\ q s astar = hmax q s /\
    hmax q s + lam s * ln (pi0 s astar) <= LSE q s <= hmax q s.
Proof.
  intros Hs. pose proof (wf_lam _ _ _ _ _ _ W s Hs) as Hl.
  pose proof (Zsum_pos q s Hs) as HZ.
  destruct (hardmax_attained q s) as (a & Ha & Ea). exists a. split; [auto|]. split; [auto|].
  pose proof (wf_pi0 _ _ _ _ _ _ W s a Hs Ha) as Hpa.
  unfold lse. split.
  - (* Z >= pi0 a * exp (max/lam) *)
    assert (HZge : pi0 s a * exp (hmax q s / lam s) <= Zs q s).
    { unfold Zsum. rewrite <- Ea.
      apply (sumf_ge_term nA (fun b => pi0 s b * exp (q s b / lam s)) a); auto.
      intros b Hb. left. apply Rmult_lt_0_compat; [apply (wf_pi0 _ _ _ _ _ _ W); auto|apply exp_pos]. }
    apply ln_le in HZge; [|apply Rmult_lt_0_compat; [auto|apply exp_pos]].
    rewrite ln_mult, ln_exp in HZge; [|auto|apply exp_pos].
    apply Rmult_le_compat_l with (r := lam s) in HZge; [|lra].
    replace (lam s * (ln (pi0 s a) + hmax q s / lam s)) with (hmax q s + lam s * ln (pi0 s a)) in HZge
      by (field; lra).
    exact HZge.
  - (* Z <= exp (max/lam) * sum pi0 *)
    assert (HZle : Zs q s <= exp (hmax q s / lam s)).
    { unfold Zsum. rewrite <- (Rmult_1_l (exp _)), <- (wf_pi0sum _ _ _ _ _ _ W s Hs), <- sumf_scal_r.
      apply sumf_le. intros b Hb. pose proof (wf_pi0 _ _ _ _ _ _ W s b Hs Hb) as Hp.
      apply Rmult_le_compat_l; [lra|].
      assert (Hx : q s b / lam s <= hmax q s / lam s).
      { unfold Rdiv. apply Rmult_le_compat_r; [left; apply Rinv_0_lt_compat; auto|apply hardmax_ge; auto]. }
      destruct Hx as [Hx|Hx]; [left; apply exp_increasing; auto|rewrite Hx; lra]. }
    apply ln_le in HZle; auto. rewrite ln_exp in HZle.
    apply Rmult_le_compat_l with (r := lam s) in HZle; [|lra].
    replace (lam s * (hmax q s / lam s)) with (hmax q s) in HZle by (field; lra).
    exact HZle.
Qed.

(* with a uniform lower bound pmin on the prior and an upper bound lmax on the weights:
   the soft operator is within lmax * ln (1/pmin) of the hard one *)
Corollary soft_hard_gap q s pmin lmax :
  (s < nS)%nat -> 0 < pmin -> pmin <= 1 ->
  (forall a, (a < nA)%nat -> pmin <= pi0 s a) -> lam s <= lmax ->
  Rabs (LSE q s - hmax q s) <= lmax * ln (/ pmin).
Proof.
  intros Hs Hp0 Hp1 Hp Hlm. pose proof (wf_lam _ _ _ _ _ _ W s Hs) as Hl.
  destruct (soft_vs_hard q s Hs) as (a & Ha & _ & Hlo & Hhi).
  assert (Hln : ln pmin <= ln (pi0 s a)) by (apply ln_le; auto).
  assert (Hln0 : ln pmin <= 0).
  { rewrite <- ln_1. apply ln_le; auto. }
  rewrite ln_Rinv by auto.
  assert (H1 : lam s * ln pmin <= lam s * ln (pi0 s a)) by (apply Rmult_le_compat_l; lra).
  assert (H2 : lmax * ln pmin <= lam s * ln pmin).
  { apply Ropp_le_cancel. rewrite !Ropp_mult_distr_r. apply Rmult_le_compat_r; lra. }
  apply Rabs_le. lra.
Qed.

(* ---------- the two optimality operators are gamma-contractions ---------- *)
Definition Tsoft (v : nat -> R) (s : nat) : R := LSE (look v) s.
Definition Thard (v : nat -> R) (s : nat) : R := hmax (look v) s.

Theorem soft_contraction v w d :
  0 <= d -> (forall n, (n < nS)%nat -> Rabs (v n - w n) <= d) ->
  forall s, (s < nS)%nat -> Rabs (Tsoft v s - Tsoft w s) <= gam * d.
Proof.
  intros Hd0 Hd s Hs. apply lse_nonexp; auto. intros a Ha. apply look_diff; auto.
Qed.

Theorem hard_contraction v w d :
  0 <= d -> (forall n, (n < nS)%nat -> Rabs (v n - w n) <= d) ->
  forall s, (s < nS)%nat -> Rabs (Thard v s - Thard w s) <= gam * d.
Proof.
  intros Hd0 Hd s Hs. apply hardmax_nonexp. intros a Ha. apply look_diff; auto.
Qed.

(* at most one soft fixed point (values), at most one hard fixed point *)
Theorem soft_fixed_unique v1 q1 v2 q2 :
  soft_fixed nS nA T Rw gam lam pi0 v1 q1 -> soft_fixed nS nA T Rw gam lam pi0 v2 q2 ->
  forall s, (s < nS)%nat -> v1 s = v2 s.
Proof.
  intros [H11 H13] [H21 H23].
  assert (F : forall v q, E1 nS nA T Rw gam 0 v q -> E3 nS nA lam pi0 0 v q ->
              forall s, (s < nS)%nat -> v s = Tsoft v s).
  { intros v q H1 H3 s Hs. specialize (H3 s Hs). unfold E3_at in H3.
    apply Rabs_le_inv' in H3.
    assert (E : LSE q s = Tsoft v s).
    { unfold Tsoft, lse, Zsum. f_equal. f_equal. apply sumf_ext. intros a Ha.
      specialize (H1 s a Hs Ha). unfold E1_at in H1. apply Rabs_le_inv' in H1.
      replace (q s a) with (look v s a) by lra. reflexivity. }
    lra. }
  apply (contraction_unique nS gam Tsoft (wf_g1 _ _ _ _ _ _ W) soft_contraction);
    eauto.
Qed.

Theorem hard_fixed_unique v1 v2 :
  hard_fixed nS nA T Rw gam v1 -> hard_fixed nS nA T Rw gam v2 ->
  forall s, (s < nS)%nat -> v1 s = v2 s.
Proof.
  intros H1 H2.
  apply (contraction_unique nS gam Thard (wf_g1 _ _ _ _ _ _ W) hard_contraction);
    auto.
Qed.

(* ---------- from the (approximate) soft equations to the hard optimum, with a rate ---------- *)
Theorem soft_to_hard_rate v q vs eps1 eps3 pmin lmax :
  E1 nS nA T Rw gam eps1 v q -> E3 nS nA lam pi0 eps3 v q ->
  hard_fixed nS nA T Rw gam vs ->
  0 <= eps1 -> 0 <= eps3 -> 0 < pmin -> pmin <= 1 ->
  (forall s a, (s < nS)%nat -> (a < nA)%nat -> pmin <= pi0 s a) ->
  (forall s, (s < nS)%nat -> lam s <= lmax) ->
  (forall s, (s < nS)%nat ->
     Rabs (v s - vs s) <= (eps1 + eps3 + lmax * ln (/ pmin)) / (1 - gam)) /\
  (forall s a, (s < nS)%nat -> (a < nA)%nat ->
     Rabs (q s a - look vs s a) <= eps1 + gam * ((eps1 + eps3 + lmax * ln (/ pmin)) / (1 - gam))).
Proof.
  intros H1 H3 Hfix He1 He3 Hp0 Hp1 Hp Hlm.
  pose proof (wf_g0 _ _ _ _ _ _ W) as G0. pose proof (wf_g1 _ _ _ _ _ _ W) as G1.
  assert (Hk : 0 <= lmax * ln (/ pmin) \/ nS = 0%nat).
  { destruct (Nat.eq_dec nS 0) as [En|En]; [auto|left].
    assert (Hs0 : (0 < nS)%nat) by lia.
    pose proof (wf_lam _ _ _ _ _ _ W 0%nat Hs0). specialize (Hlm 0%nat Hs0).
    apply Rmult_le_pos; [lra|]. rewrite ln_Rinv by auto.
    assert (ln pmin <= 0) by (rewrite <- ln_1; apply ln_le; auto). lra. }
  destruct Hk as [Hk|Hz]; [|split; intros; lia].
  assert (Hres : forall s, (s < nS)%nat -> Rabs (v s - Thard v s) <= eps1 + eps3 + lmax * ln (/ pmin)).
  { intros s Hs. unfold Thard.
    pose proof (H3 s Hs) as A. unfold E3_at in A. apply Rabs_le_inv' in A.
    assert (B : Rabs (LSE q s - LSE (look v) s) <= eps1).
    { apply lse_nonexp; auto. intros a Ha. apply (H1 s a Hs Ha). }
    apply Rabs_le_inv' in B.
    pose proof (soft_hard_gap (look v) s pmin lmax Hs Hp0 Hp1 (fun a Ha => Hp s a Hs Ha) (Hlm s Hs)) as C.
    apply Rabs_le_inv' in C. apply Rabs_le. lra. }
  assert (Hv : forall s, (s < nS)%nat ->
               Rabs (v s - vs s) <= (eps1 + eps3 + lmax * ln (/ pmin)) / (1 - gam)).
  { apply (contraction_residual nS gam Thard G1 hard_contraction); auto. lra. }
  split; [exact Hv|].
  intros s a Hs Ha.
  assert (Hd : 0 <= (eps1 + eps3 + lmax * ln (/ pmin)) / (1 - gam)).
  { apply Rmult_le_pos; [lra|]. left. apply Rinv_0_lt_compat. lra. }
  pose proof (look_diff v vs _ s a Hs Ha Hd Hv) as A. apply Rabs_le_inv' in A.
  pose proof (H1 s a Hs Ha) as B. unfold E1_at in B. apply Rabs_le_inv' in B.
  apply Rabs_le. lra.
Qed.

End Theory.

(* ---------- uniform prior, scalar weight: the lambda -> 0 clause ---------- *)
Section Uniform.
Variables nS nA : nat.
Variables T Rw : nat -> nat -> nat -> R.
Variable gam : R.
Let unif : nat -> nat -> R := fun _ _ => / INR nA.

Lemma uniform_wf l :
  wf nS nA T gam (fun _ => 1) unif -> 0 < l -> wf nS nA T gam (fun _ => l) unif.
Proof. intros W Hl. destruct W. constructor; auto. Qed.

(* explicit rate *)
Theorem soft_hard_rate_uniform l v q vs :
  wf nS nA T gam (fun _ => 1) unif -> 0 < l ->
  soft_fixed nS nA T Rw gam (fun _ => l) unif v q ->
  hard_fixed nS nA T Rw gam vs ->
  forall s a, (s < nS)%nat -> (a < nA)%nat ->
    Rabs (q s a - lookahead nS T Rw gam vs s a) <= gam * l * ln (INR nA) / (1 - gam).
Proof.
  intros W1 Hl [H1 H3] Hfix s a Hs Ha.
  pose proof (uniform_wf l W1 Hl) as W.
  assert (HnA : 0 < INR nA) by (apply lt_0_INR, (wf_nA _ _ _ _ _ _ W)).
  assert (HnA1 : 1 <= INR nA).
  { pose proof (wf_nA _ _ _ _ _ _ W) as Hn. apply (le_INR 1 nA). lia. }
  destruct (soft_to_hard_rate nS nA T Rw gam (fun _ => l) unif W v q vs 0 0 (/ INR nA) l
              H1 H3 Hfix) as [_ Hq]; try lra.
  - apply Rinv_0_lt_compat; auto.
  - rewrite <- Rinv_1. apply Rinv_le_contravar; lra.
  - intros; unfold unif; lra.
  - intros; lra.
  - specialize (Hq s a Hs Ha). rewrite Rinv_inv in Hq.
    eapply Rle_trans; [exact Hq|]. right. unfold Rdiv. ring.
Qed.

(* limit form: as the entropy weight tends to 0 (uniform prior), the action values of the
   soft fixed point tend to the optimal action values *)
Theorem soft_to_hard_limit vs :
  wf nS nA T gam (fun _ => 1) unif -> hard_fixed nS nA T Rw gam vs ->
  forall eps, 0 < eps -> exists l0, 0 < l0 /\
    forall l v q, 0 < l -> l < l0 -> soft_fixed nS nA T Rw gam (fun _ => l) unif v q ->
    forall s a, (s < nS)%nat -> (a < nA)%nat ->
      Rabs (q s a - lookahead nS T Rw gam vs s a) <= eps.
Proof.
  intros W1 Hfix eps He.
  pose proof (wf_g0 _ _ _ _ _ _ W1) as G0. pose proof (wf_g1 _ _ _ _ _ _ W1) as G1.
  assert (HnA1 : 1 <= INR nA).
  { pose proof (wf_nA _ _ _ _ _ _ W1) as Hn. apply (le_INR 1 nA). lia. }
  assert (Hln : 0 <= ln (INR nA)) by (rewrite <- ln_1; apply ln_le; lra).
  set (K := gam * ln (INR nA) / (1 - gam)).
  assert (HK : 0 <= K).
  { unfold K. apply Rmult_le_pos; [apply Rmult_le_pos; auto|]. left. apply Rinv_0_lt_compat. lra. }
  exists (eps / (K + 1)). split; [apply Rdiv_lt_0_compat; lra|].
  intros l v q Hl Hl0 Hsf s a Hs Ha.
  eapply Rle_trans; [apply (soft_hard_rate_uniform l v q vs W1 Hl Hsf Hfix s a Hs Ha)|].
  replace (gam * l * ln (INR nA) / (1 - gam)) with (l * K) by (unfold K, Rdiv; ring).
  assert (H : l * (K + 1) < eps).
  { apply Rmult_lt_compat_r with (r := K + 1) in Hl0; [|lra].
    unfold Rdiv in Hl0. rewrite Rmult_assoc, Rinv_l in Hl0; lra. }
  nra.
Qed.
End Uniform.

(* ---------- non-vacuity: a concrete instance meeting every hypothesis above ----------
   one state, two actions (self-loops), rewards 0 and ln 3, gamma = 1/2, weight 1, uniform prior:
   soft values v = 2 ln 2, q = (ln 2, ln 6), policy (1/4, 3/4); hard optimum 2 ln 3. *)
Section Example.
Let exT : nat -> nat -> nat -> R := fun _ _ _ => 1.
Let exR : nat -> nat -> nat -> R := fun _ a _ => match a with O => 0 | _ => ln 3 end.
Let exL : nat -> R := fun _ => 1.
Let exP0 : nat -> nat -> R := fun _ _ => / INR 2.
Let exPi : nat -> nat -> R := fun _ a => match a with O => 1/4 | _ => 3/4 end.
Let exV : nat -> R := fun _ => 2 * ln 2.
Let exQ : nat -> nat -> R := fun _ a => match a with O => ln 2 | _ => ln 3 + ln 2 end.

Ltac exev := cbv [eval_system lookahead softmax lse Zsum s_ent s_rf mp hardmax maxf odflt sumf
                  nadd n0 nmax nleb NumR exT exR exL exP0 exPi exV exQ INR E1_at E3_at].

Lemma two_cases (P : nat -> Prop) : P 0%nat -> P 1%nat -> forall a, (a < 2)%nat -> P a.
Proof. intros H0 H1 a Ha. destruct a as [|[|a]]; [auto|auto|lia]. Qed.
Lemma one_case (P : nat -> Prop) : P 0%nat -> forall s, (s < 1)%nat -> P s.
Proof. intros H0 s Hs. destruct s; [auto|lia]. Qed.

Lemma ex_wf : wf 1 2 exT (1/2) exL exP0.
Proof.
  constructor; try lia; try lra; intros; exev; try lra.
  all: try (apply Rinv_0_lt_compat; lra); try field.
Qed.

Lemma exp_ln2 : exp (ln 2 / 1) = 2.
Proof. replace (ln 2 / 1) with (ln 2) by field. apply exp_ln. lra. Qed.
Lemma exp_ln6 : exp ((ln 3 + ln 2) / 1) = 6.
Proof.
  replace ((ln 3 + ln 2) / 1) with (ln 3 + ln 2) by field.
  rewrite exp_plus, !exp_ln; lra.
Qed.

Lemma ex_look : forall s a, (s < 1)%nat -> (a < 2)%nat -> exQ s a = lookahead 1 exT exR (1/2) exV s a.
Proof.
  intros s a Hs. revert a. revert s Hs.
  apply (one_case (fun s => forall a, (a < 2)%nat -> exQ s a = lookahead 1 exT exR (1/2) exV s a)).
  apply two_cases; exev; lra.
Qed.

Lemma ex_pi : forall s a, (s < 1)%nat -> (a < 2)%nat -> exPi s a = softmax 2 exL exP0 exQ s a.
Proof.
  intros s a Hs. revert a. revert s Hs.
  apply (one_case (fun s => forall a, (a < 2)%nat -> exPi s a = softmax 2 exL exP0 exQ s a)).
  apply two_cases; exev; rewrite exp_ln2, exp_ln6; field.
Qed.

Lemma ex_eval : eval_system 1 2 exT exR (1/2) exL exP0 exPi exV.
Proof.
  unfold eval_system. intros s Hs. destruct s; [clear Hs|lia]. exev.
  replace (1 / 4 / / (1 + 1)) with (/ 2) by field.
  replace (3 / 4 / / (1 + 1)) with (3 * / 2) by field.
  rewrite (ln_mult 3 (/ 2)); [|lra|apply Rinv_0_lt_compat; lra]. rewrite ln_Rinv by lra. lra.
Qed.

(* hence, by entreg_fixed_point, (exV, exQ) is an exact soft fixed point *)
Lemma ex_soft_fixed : soft_fixed 1 2 exT exR (1/2) exL exP0 exV exQ.
Proof.
  split.
  - intros s a Hs Ha. unfold E1_at. rewrite <- (ex_look s a Hs Ha).
    replace (exQ s a - exQ s a) with 0 by lra. rewrite Rabs_R0. lra.
  - intros s Hs. unfold E3_at.
    rewrite <- (entreg_fixed_point 1 2 exT exR (1/2) exL exP0 ex_wf exPi exV exQ ex_eval ex_look ex_pi s Hs).
    replace (exV s - exV s) with 0 by lra. rewrite Rabs_R0. lra.
Qed.

Lemma ex_hard_fixed : hard_fixed 1 2 exT exR (1/2) (fun _ => 2 * ln 3).
Proof.
  unfold hard_fixed. intros s Hs. destruct s; [clear Hs|lia]. exev.
  assert (0 < ln 3) by (rewrite <- ln_1; apply ln_increasing; lra).
  unfold Rleb. destruct (Rle_dec _ _); lra.
Qed.

(* the instance is non-trivial: the two actions have different soft values, the policy is not
   uniform, and the soft and hard solutions differ *)
Lemma ex_nontrivial : exQ 0%nat 0%nat < exQ 0%nat 1%nat /\ exPi 0%nat 0%nat <> exPi 0%nat 1%nat /\ exV 0%nat < 2 * ln 3.
Proof.
  assert (0 < ln 3) by (rewrite <- ln_1; apply ln_increasing; lra).
  assert (ln 2 < ln 3) by (apply ln_increasing; lra).
  exev. repeat split; lra.
Qed.

Definition example_statement : Prop :=
  wf 1 2 exT (1/2) exL exP0 /\ eval_system 1 2 exT exR (1/2) exL exP0 exPi exV /\
  (forall s a, (s < 1)%nat -> (a < 2)%nat -> exQ s a = lookahead 1 exT exR (1/2) exV s a) /\
  (forall s a, (s < 1)%nat -> (a < 2)%nat -> exPi s a = softmax 2 exL exP0 exQ s a) /\
  soft_fixed 1 2 exT exR (1/2) exL exP0 exV exQ /\
  hard_fixed 1 2 exT exR (1/2) (fun _ => 2 * ln 3) /\
  exQ 0%nat 0%nat < exQ 0%nat 1%nat /\ exPi 0%nat 0%nat <> exPi 0%nat 1%nat /\ exV 0%nat < 2 * ln 3.
Lemma example_holds : example_statement.
Proof.
  repeat split; try apply ex_wf; try apply ex_eval; try apply ex_look; try apply ex_pi;
    try apply ex_soft_fixed; try apply ex_hard_fixed; try apply ex_nontrivial.
Qed.
End Example.
