(* PolicyEvalLimit.v — C02, undiscounted part, the meaning of the reported numbers:
   the k-step expected total reward Vnu (gamma = 1, rewards <= 0)
     * diverges to -inf at every state from which the policy reaches a closed non-absorbing
       class paying negative reward                                   (undisc_kstep_diverges)
     * converges, at every other state, to the solution of the transient system
                                                                      (undisc_kstep_converges)
   Both by maximum-principle arguments on the chain of the policy; no probability theory needed. *)
From Coq Require Import Reals Lra Lia List Arith Bool Relations Classical_Prop.
From MSDM Require Import base.Num base.NumInst base.NumR model.MDP model.VI model.PolicyEval
     theory.Bellman theory.VITheory theory.PolicyEvalTheory theory.PolicyEvalUndisc.
Import ListNotations.
Local Open Scope R_scope.

(* ------------------------------------------------------------------ *)
(* sequences                                                            *)
(* ------------------------------------------------------------------ *)
Lemma cv_const c : Un_cv (fun _ => c) c.
Proof. intros eps He. exists 0%nat. intros k _. unfold R_dist. rewrite Rminus_diag_eq, Rabs_R0; auto. Qed.

Lemma cv_scal w (f : nat -> R) l : w = 0 \/ Un_cv f l -> Un_cv (fun k => w * f k) (w * l).
Proof.
  intros [->|H].
  - intros eps He. exists 0%nat. intros k _. unfold R_dist.
    replace (0 * f k - 0 * l) with 0 by lra. rewrite Rabs_R0. auto.
  - destruct (Req_dec w 0) as [->|Hw].
    + intros eps He. exists 0%nat. intros k _. unfold R_dist.
      replace (0 * f k - 0 * l) with 0 by lra. rewrite Rabs_R0. auto.
    + intros eps He. pose proof (Rabs_pos_lt w Hw) as Hp.
      destruct (H (eps / Rabs w)) as (N & HN); [apply Rdiv_lt_0_compat; auto|].
      exists N. intros k Hk. specialize (HN k Hk). unfold R_dist in *.
      replace (w * f k - w * l) with (w * (f k - l)) by lra. rewrite Rabs_mult.
      apply Rmult_lt_compat_l with (r := Rabs w) in HN; auto.
      replace (Rabs w * (eps / Rabs w)) with eps in HN by (field; lra). exact HN.
Qed.

Lemma cv_wsum n (w : nat -> R) (f : nat -> nat -> R) (l : nat -> R) :
  (forall z, (z < n)%nat -> w z = 0 \/ Un_cv (fun k => f k z) (l z)) ->
  Un_cv (fun k => sumf n (fun z => w z * f k z)) (sumf n (fun z => w z * l z)).
Proof.
  induction n; intros H.
  - simpl. apply cv_const.
  - apply (CV_plus (fun k => sumf n (fun z => w z * f k z)) (fun k => w n * f k n)).
    + apply IHn. intros; apply H; lia.
    + apply cv_scal. apply H. lia.
Qed.

Lemma cv_shift (f : nat -> R) l : Un_cv f l -> Un_cv (fun k => f (S k)) l.
Proof.
  intros H eps He. destruct (H eps He) as (N & HN). exists N. intros k Hk. apply HN. lia.
Qed.

(* sums of sign-definite terms *)
Lemma sumf_le_term n (f : nat -> R) z :
  (forall i, (i < n)%nat -> f i <= 0) -> (z < n)%nat -> sumf n f <= f z.
Proof.
  induction n; intros H Hz; [lia|]. rewrite sumf_S.
  destruct (Nat.eq_dec z n) as [->|Hne].
  - assert (sumf n f <= 0).
    { replace 0 with (sumf n (fun _ => 0)) by (apply sumf_0; auto). apply sumf_le. intros; apply H; lia. }
    lra.
  - assert (sumf n f <= f z) by (apply IHn; [intros; apply H; lia|lia]).
    assert (f n <= 0) by (apply H; lia). lra.
Qed.
Lemma sumf_nonneg_zero n (f : nat -> R) :
  (forall i, (i < n)%nat -> 0 <= f i) -> sumf n f <= 0 -> forall i, (i < n)%nat -> f i = 0.
Proof.
  intros Hf Hs i Hi.
  assert (sumf n (fun j => - f j) <= - f i).
  { apply (sumf_le_term n (fun j => - f j) i); auto. intros j Hj. specialize (Hf j Hj). lra. }
  assert (E : sumf n (fun j => - f j) = - sumf n f).
  { rewrite <- (Rmult_1_l (sumf n f)), Ropp_mult_distr_l, <- sumf_scal. apply sumf_ext. intros; lra. }
  specialize (Hf i Hi). lra.
Qed.

(* argmax over a decidable non-empty subset of {0..n-1} *)
Lemma argmax n (p : nat -> bool) (f : nat -> R) :
  (exists i, (i < n)%nat /\ p i = true) ->
  exists i, (i < n)%nat /\ p i = true /\ forall k, (k < n)%nat -> p k = true -> f k <= f i.
Proof.
  induction n; intros (i & Hi & Hp); [lia|].
  destruct (existsbn n p) eqn:E.
  - apply existsbn_spec in E. destruct (IHn E) as (j & Hj & Hpj & Hmax).
    destruct (p n) eqn:Hpn.
    + destruct (Rle_dec (f n) (f j)) as [Hle|Hgt].
      * exists j. repeat split; auto. intros k Hk Hpk.
        destruct (Nat.eq_dec k n) as [->|]; [auto|apply Hmax; auto; lia].
      * exists n. repeat split; auto. intros k Hk Hpk.
        destruct (Nat.eq_dec k n) as [->|]; [lra|]. eapply Rle_trans; [apply Hmax; auto; lia|lra].
    + exists j. repeat split; auto. intros k Hk Hpk.
      destruct (Nat.eq_dec k n) as [->|]; [congruence|apply Hmax; auto; lia].
  - rewrite existsbn_false in E.
    assert (i = n) by (destruct (Nat.eq_dec i n); [auto|rewrite E in Hp; [discriminate|lia]]). subst i.
    exists n. repeat split; auto. intros k Hk Hpk.
    destruct (Nat.eq_dec k n) as [->|]; [lra|]. rewrite E in Hpk; [discriminate|lia].
Qed.

Section Limits.
Variable m : mdp R.
Variable pi : nat -> nat -> R.
Hypothesis Wfb : wfb m = true.
Hypothesis Wpb : wfpolb m pi = true.
Hypothesis Hnonpos : u_nonpos m = true.

Notation n := (nS m).
Notation rpi := (rpi m pi).
Notation Ppi := (Ppi m pi).
Notation A := (accM m pi).
Notation Vnu := (Vnu m pi).
Notation preach := (preach m pi).

Lemma Vnu_S k s : Vnu (S k) s = rpi s + sumf n (fun z => Ppi s z * Vnu k z).
Proof. reflexivity. Qed.
Lemma Vnu_le0 k s : (s < n)%nat -> Vnu k s <= 0.
Proof. intros Hs. apply (Vnu_decreasing m pi Wfb Wpb Hnonpos k s Hs). Qed.
Lemma Vnu_dec k s : (s < n)%nat -> Vnu (S k) s <= Vnu k s.
Proof. intros Hs. apply (Vnu_decreasing m pi Wfb Wpb Hnonpos k s Hs). Qed.
Lemma Vnu_antitone k k' s : (s < n)%nat -> (k <= k')%nat -> Vnu k' s <= Vnu k s.
Proof.
  intros Hs Hk. induction Hk; [lra|]. eapply Rle_trans; [apply Vnu_dec; auto|exact IHHk].
Qed.

Definition bounded_below (s : nat) : Prop := exists M, forall k, - M <= Vnu k s.

Lemma Ppos_step s z : (s < n)%nat -> (z < n)%nat -> 0 < Ppi s z -> preach s z.
Proof. intros Hs Hz Hp. apply rt_step. repeat split; auto. now apply edge_spec. Qed.

(* a lower bound propagates along positive-probability steps *)
Lemma bounded_step s z :
  (s < n)%nat -> (z < n)%nat -> 0 < Ppi s z -> bounded_below s -> bounded_below z.
Proof.
  intros Hs Hz Hp (M & HM). exists (M / Ppi s z). intros k.
  pose proof (HM (S k)) as H. rewrite Vnu_S in H.
  assert (H1 : sumf n (fun y => Ppi s y * Vnu k y) <= Ppi s z * Vnu k z).
  { apply (sumf_le_term n (fun y => Ppi s y * Vnu k y)); auto. intros y Hy.
    pose proof (Ppi_nonneg_u m pi Wfb Wpb s y Hs Hy). pose proof (Vnu_le0 k y Hy). nra. }
  pose proof (rpi_nonpos m pi Wpb Hnonpos s Hs).
  assert (- M <= Ppi s z * Vnu k z) by lra.
  apply Rmult_le_reg_l with (Ppi s z); auto.
  replace (Ppi s z * - (M / Ppi s z)) with (- M) by (field; lra). lra.
Qed.

Lemma bounded_reach s j : (s < n)%nat -> preach s j -> bounded_below s -> bounded_below j.
Proof.
  intros Hs H. apply clos_rt_rt1n in H. induction H as [x|x y z Hxy Hyz IH]; intros Hb; [auto|].
  destruct Hxy as (Hx & Hy & He). apply edge_spec in He.
  apply IH; auto. apply (bounded_step x y); auto.
Qed.

(* monotone convergence *)
Lemma limit_exists s :
  (s < n)%nat -> bounded_below s ->
  exists L, Un_cv (fun k => Vnu k s) L /\ forall k, L <= Vnu k s.
Proof.
  intros Hs (M & HM).
  assert (Hd : Un_decreasing (fun k => Vnu k s)) by (intros k; apply Vnu_dec; auto).
  assert (Hlb : has_lb (fun k => Vnu k s)).
  { exists M. intros x (k & ->). unfold opp_seq. specialize (HM k). lra. }
  destruct (decreasing_cv _ Hd Hlb) as (L & HL). exists L. split; [exact HL|].
  apply decreasing_ineq; auto.
Qed.

(* the limit satisfies the one-step equation *)
Lemma limit_equation s (L : nat -> R) :
  (s < n)%nat -> Un_cv (fun k => Vnu k s) (L s) ->
  (forall z, (z < n)%nat -> 0 < Ppi s z -> Un_cv (fun k => Vnu k z) (L z)) ->
  L s = rpi s + sumf n (fun z => Ppi s z * L z).
Proof.
  intros Hs Hcs Hcz.
  apply (UL_sequence (fun k => Vnu (S k) s)); [apply (cv_shift (fun k => Vnu k s) (L s) Hcs)|].
  apply (CV_plus (fun _ => rpi s) (fun k => sumf n (fun z => Ppi s z * Vnu k z))); [apply cv_const|].
  apply cv_wsum. intros z Hz. pose proof (Ppi_nonneg_u m pi Wfb Wpb s z Hs Hz) as Hp.
  destruct (Rle_lt_or_eq_dec _ _ Hp) as [Hpos|Hz0]; [right; apply Hcz; auto|left; auto].
Qed.

(* ------------------------------------------------------------------ *)
(* divergence on the -inf set                                           *)
(* ------------------------------------------------------------------ *)
Theorem undisc_unbounded s :
  (s < n)%nat -> reaches_negative_class m pi s -> ~ bounded_below s.
Proof.
  intros Hs (j & Hsj & Hcl & Hneg) Hb.
  pose proof (preach_lt m pi s j Hsj Hs) as Hj.
  pose proof (bounded_reach s j Hs Hsj Hb) as Hbj.
  (* limits on the class C = states reachable from j *)
  assert (HL : forall x, (x < n)%nat -> exists l, bget A j x = true ->
                 Un_cv (fun k => Vnu k x) l /\ forall k, l <= Vnu k x).
  { intros x Hx. destruct (bget A j x) eqn:E.
    - apply (acc_spec m pi j x Hj Hx) in E.
      destruct (limit_exists x Hx (bounded_reach j x Hj E Hbj)) as (l & Hl). exists l. auto.
    - exists 0. discriminate. }
  destruct (finite_choice n _ HL) as (L & HLs).
  assert (HinC : forall x, (x < n)%nat -> bget A j x = true -> closed_class m pi x /\ preach j x).
  { intros x Hx E. apply (acc_spec m pi j x Hj Hx) in E. split; [|exact E].
    apply (closed_class_member m pi j x); auto. }
  assert (Hsucc : forall x z, (x < n)%nat -> (z < n)%nat -> bget A j x = true -> 0 < Ppi x z ->
                  bget A j z = true).
  { intros x z Hx Hz E Hp. apply (acc_spec m pi j z Hj Hz).
    apply preach_trans with x; [now apply (acc_spec m pi j x Hj Hx)|apply Ppos_step; auto]. }
  assert (Heq : forall x, (x < n)%nat -> bget A j x = true ->
                L x = rpi x + sumf n (fun z => Ppi x z * L z)).
  { intros x Hx E. apply limit_equation; auto; [apply HLs; auto|].
    intros z Hz Hp. apply HLs; auto. apply (Hsucc x z); auto. }
  (* a maximiser of L on C *)
  destruct (argmax n (bget A j) L) as (x0 & Hx0 & Ex0 & Hmax).
  { exists j. split; [auto|]. apply (acc_spec m pi j j Hj Hj). apply preach_refl. }
  (* at a maximiser: zero reward, and every successor is a maximiser *)
  assert (Hprop : forall x, (x < n)%nat -> bget A j x = true -> L x = L x0 ->
                  rpi x = 0 /\ forall z, (z < n)%nat -> 0 < Ppi x z -> L z = L x0).
  { intros x Hx E Hm.
    destruct (HinC x Hx E) as [[Habs _] _].
    pose proof (rowsum_one m pi Wfb Wpb x Hx Habs) as Hrow. unfold rowsum in Hrow.
    pose proof (Heq x Hx E) as Hq.
    assert (Hd : sumf n (fun z => Ppi x z * (L x0 - L z)) = rpi x).
    { rewrite (sumf_ext _ _ (fun z => Ppi x z * L x0 - Ppi x z * L z)) by (intros; lra).
      rewrite sumf_minus, sumf_scal_r, Hrow. lra. }
    assert (Hterm : forall z, (z < n)%nat -> 0 <= Ppi x z * (L x0 - L z)).
    { intros z Hz. pose proof (Ppi_nonneg_u m pi Wfb Wpb x z Hx Hz) as Hp.
      destruct (Rle_lt_or_eq_dec _ _ Hp) as [Hpos|Hz0]; [|rewrite <- Hz0; lra].
      apply Rmult_le_pos; auto. pose proof (Hmax z Hz (Hsucc x z Hx Hz E Hpos)). lra. }
    pose proof (rpi_nonpos m pi Wpb Hnonpos x Hx) as Hr.
    assert (Hs0 : sumf n (fun z => Ppi x z * (L x0 - L z)) <= 0) by lra.
    pose proof (sumf_nonneg_zero n _ Hterm Hs0) as Hz0.
    split.
    - assert (0 <= sumf n (fun z => Ppi x z * (L x0 - L z))) by (apply sumf_nonneg; auto). lra.
    - intros z Hz Hp. specialize (Hz0 z Hz). cbv beta in Hz0. nra. }
  (* every state reachable from the maximiser is a maximiser; j is one of them *)
  assert (Hall : forall x y, clos_refl_trans_1n nat (pstep m pi) x y ->
                 (x < n)%nat -> bget A j x = true -> L x = L x0 -> L y = L x0 /\ bget A j y = true).
  { intros x y H. induction H as [x|x y z Hxy Hyz IH]; intros Hx E Hm; [auto|].
    destruct Hxy as (_ & Hy & He). apply edge_spec in He.
    apply IH; auto; [apply (Hsucc x y); auto|]. apply (Hprop x Hx E Hm); auto. }
  destruct (HinC x0 Hx0 Ex0) as [_ Hjx0].
  assert (Hx0j : preach x0 j) by (apply Hcl; exact Hjx0).
  apply clos_rt_rt1n in Hx0j.
  destruct (Hall x0 j Hx0j Hx0 Ex0 eq_refl) as [HLj Ej].
  destruct (Hprop j Hj Ej HLj) as [Hrj _]. lra.
Qed.

(* the k-step expected total reward goes to -inf *)
Theorem undisc_kstep_diverges s :
  (s < n)%nat -> reaches_negative_class m pi s ->
  forall M, exists K, forall k, (K <= k)%nat -> Vnu k s < - M.
Proof.
  intros Hs Hr M.
  destruct (classic (exists k, Vnu k s < - M)) as [(K & HK)|Hno].
  - exists K. intros k Hk. eapply Rle_lt_trans; [apply (Vnu_antitone K k s Hs Hk)|exact HK].
  - exfalso. apply (undisc_unbounded s Hs Hr). exists M. intros k.
    apply Rnot_lt_le. intro H. apply Hno. exists k. exact H.
Qed.

(* ------------------------------------------------------------------ *)
(* convergence off the -inf set                                         *)
(* ------------------------------------------------------------------ *)
Lemma countb_S k (p : nat -> bool) : countb (S k) p = (countb k p + if p k then 1 else 0)%nat.
Proof. unfold countb. rewrite seq_S, filter_app, app_length. simpl. destruct (p k); simpl; lia. Qed.
Lemma countb_mono k (p q : nat -> bool) :
  (forall i, (i < k)%nat -> p i = true -> q i = true) -> (countb k p <= countb k q)%nat.
Proof.
  induction k; intros H; [unfold countb; simpl; lia|]. rewrite !countb_S.
  assert (countb k p <= countb k q)%nat by (apply IHk; intros; apply H; auto; lia).
  destruct (p k) eqn:E; [rewrite (H k) by (auto; lia); lia|destruct (q k); lia].
Qed.
Lemma countb_strict k (p q : nat -> bool) :
  (forall i, (i < k)%nat -> p i = true -> q i = true) ->
  (exists i, (i < k)%nat /\ q i = true /\ p i = false) -> (countb k p < countb k q)%nat.
Proof.
  induction k; intros H (i & Hi & Hq & Hp); [lia|]. rewrite !countb_S.
  destruct (Nat.eq_dec i k) as [->|Hne].
  - rewrite Hq, Hp. assert (countb k p <= countb k q)%nat by (apply countb_mono; intros; apply H; auto; lia). lia.
  - assert (countb k p < countb k q)%nat.
    { apply IHk; [intros; apply H; auto; lia|]. exists i. repeat split; auto. lia. }
    destruct (p k) eqn:E; [rewrite (H k) by (auto; lia); lia|destruct (q k); lia].
Qed.

(* every state reaches a state that is not transient (absorbing or in a closed class) *)
Lemma reach_nontransient x :
  (x < n)%nat -> exists y, preach x y /\ (y < n)%nat /\ transient m pi A y = false.
Proof.
  assert (Hgen : forall c x, (x < n)%nat -> (countb n (bget A x) < c)%nat ->
                 exists y, preach x y /\ (y < n)%nat /\ transient m pi A y = false).
  { induction c; intros x0 Hx Hc; [lia|].
    destruct (transient m pi A x0) eqn:Ht.
    2:{ exists x0. split; [apply preach_refl|auto]. }
    pose proof Ht as Ht'. unfold transient in Ht'. apply andb_true_iff in Ht' as [Hor Hab].
    apply negb_true_iff in Hab.
    assert (Hlt : @nltb R NumR (rowsum m pi x0) n1 = false).
    { rewrite (rowsum_one m pi Wfb Wpb x0 Hx Hab). destruct (@nltb R NumR 1 n1) eqn:E; [|reflexivity].
      apply nltb_R in E. numR. lra. }
    rewrite Hlt, orb_false_r in Hor. apply existsbn_spec in Hor as (j & Hj & E).
    apply andb_true_iff in E as [E1 E2]. apply negb_true_iff in E2.
    pose proof (proj1 (acc_spec m pi x0 j Hx Hj) E1) as Hxj.
    destruct (IHc j Hj) as (y & Hjy & Hy & Hty).
    - eapply Nat.lt_le_trans; [|apply Nat.lt_succ_r; exact Hc].
      apply countb_strict.
      + intros i Hi Ei. apply (acc_spec m pi x0 i Hx Hi).
        apply preach_trans with j; [exact Hxj|now apply (acc_spec m pi j i Hj Hi)].
      + exists x0. repeat split; auto. apply (acc_spec m pi x0 x0 Hx Hx). apply preach_refl.
    - exists y. split; [apply preach_trans with j; auto|auto]. }
  intros Hx. apply (Hgen (S (countb n (bget A x))) x Hx). lia.
Qed.

(* maximum principle for functions that are sub-harmonic at the transient states of a
   successor-closed set and non-positive at its other states *)
Lemma max_principle (h : nat -> R) (S : nat -> bool) :
  (forall x z, (x < n)%nat -> (z < n)%nat -> S x = true -> 0 < Ppi x z -> S z = true) ->
  (forall x, (x < n)%nat -> S x = true -> transient m pi A x = false -> h x <= 0) ->
  (forall x, (x < n)%nat -> S x = true -> transient m pi A x = true ->
     h x <= sumf n (fun z => Ppi x z * h z)) ->
  forall x, (x < n)%nat -> S x = true -> h x <= 0.
Proof.
  intros Hcl Hnt Hsub x Hx HSx.
  destruct (argmax n S h) as (x0 & Hx0 & HS0 & Hmax); [eauto|].
  eapply Rle_trans; [apply (Hmax x Hx HSx)|].
  apply Rnot_lt_le. intro Hpos.
  assert (Hprop : forall y, (y < n)%nat -> S y = true -> h y = h x0 ->
                  transient m pi A y = true /\ forall z, (z < n)%nat -> 0 < Ppi y z -> h z = h x0).
  { intros y Hy HSy Hm.
    destruct (transient m pi A y) eqn:Ht.
    2:{ pose proof (Hnt y Hy HSy Ht). lra. }
    split; [reflexivity|].
    pose proof Ht as Ht'. unfold transient in Ht'. apply andb_true_iff in Ht' as [_ Hab].
    apply negb_true_iff in Hab.
    pose proof (rowsum_one m pi Wfb Wpb y Hy Hab) as Hrow. unfold rowsum in Hrow.
    pose proof (Hsub y Hy HSy Ht) as Hs.
    assert (Hd : sumf n (fun z => Ppi y z * (h x0 - h z)) = h x0 - sumf n (fun z => Ppi y z * h z)).
    { rewrite (sumf_ext _ _ (fun z => Ppi y z * h x0 - Ppi y z * h z)) by (intros; lra).
      rewrite sumf_minus, sumf_scal_r, Hrow. lra. }
    assert (Hterm : forall z, (z < n)%nat -> 0 <= Ppi y z * (h x0 - h z)).
    { intros z Hz. pose proof (Ppi_nonneg_u m pi Wfb Wpb y z Hy Hz) as Hp.
      destruct (Rle_lt_or_eq_dec _ _ Hp) as [Hpp|Hz0]; [|rewrite <- Hz0; lra].
      apply Rmult_le_pos; auto. pose proof (Hmax z Hz (Hcl y z Hy Hz HSy Hpp)). lra. }
    assert (Hs0 : sumf n (fun z => Ppi y z * (h x0 - h z)) <= 0) by lra.
    pose proof (sumf_nonneg_zero n _ Hterm Hs0) as Hz0.
    intros z Hz Hp. specialize (Hz0 z Hz). cbv beta in Hz0. nra. }
  assert (Hall : forall a b, clos_refl_trans_1n nat (pstep m pi) a b ->
                 (a < n)%nat -> S a = true -> h a = h x0 -> S b = true /\ h b = h x0).
  { intros a b H. induction H as [a|a b c Hab Hbc IH]; intros Ha HSa Hm; [auto|].
    destruct Hab as (_ & Hb & He). apply edge_spec in He.
    apply IH; auto; [apply (Hcl a b); auto|]. apply (Hprop a Ha HSa Hm); auto. }
  destruct (reach_nontransient x0 Hx0) as (y & Hxy & Hy & Hty).
  apply clos_rt_rt1n in Hxy. destruct (Hall x0 y Hxy Hx0 HS0 eq_refl) as [HSy Hhy].
  destruct (Hprop y Hy HSy Hhy) as [Ht _]. congruence.
Qed.

Notation F := (fun s => negb (neginf m pi A s)).

Lemma F_closed x z : (x < n)%nat -> (z < n)%nat -> F x = true -> 0 < Ppi x z -> F z = true.
Proof.
  intros Hx Hz HF Hp. apply negb_true_iff in HF. apply negb_true_iff.
  apply (neginf_successor m pi Wfb Wpb x z); auto.
Qed.

Lemma F_rec_zero_reward x :
  (x < n)%nat -> neginf m pi A x = false -> recurrent m pi A x = true -> rpi x = 0.
Proof.
  intros Hx HF Hrec. pose proof (rpi_nonpos m pi Wpb Hnonpos x Hx).
  destruct (Rlt_dec (rpi x) 0) as [Hlt|]; [|lra].
  assert (neginf m pi A x = true); [|congruence].
  apply (neginf_spec m pi Wfb Wpb x Hx). exists x. split; [apply preach_refl|].
  split; [now apply (recurrent_spec m pi Wfb Wpb x Hx)|exact Hlt].
Qed.

Lemma rec_successor x z :
  (x < n)%nat -> (z < n)%nat -> recurrent m pi A x = true -> 0 < Ppi x z -> recurrent m pi A z = true.
Proof.
  intros Hx Hz Hrec Hp. apply (recurrent_spec m pi Wfb Wpb z Hz).
  apply (closed_class_member m pi x z); [now apply (recurrent_spec m pi Wfb Wpb x Hx)|].
  apply Ppos_step; auto.
Qed.

(* zero-reward closed classes and absorbing states collect nothing *)
Lemma Vnu_zero k x :
  (x < n)%nat -> neginf m pi A x = false -> transient m pi A x = false -> Vnu k x = 0.
Proof.
  revert x. induction k; intros x Hx HF Ht; [reflexivity|]. rewrite Vnu_S.
  destruct (absorbing m x) eqn:Hab.
  - unfold PolicyEval.rpi, PolicyEval.Ppi. rewrite Hab. rewrite sumf_0 by (intros; numR; lra). numR. lra.
  - assert (Hrec : recurrent m pi A x = true) by (unfold recurrent; now rewrite Ht, Hab).
    rewrite (F_rec_zero_reward x Hx HF Hrec). rewrite sumf_0; [lra|]. intros z Hz.
    pose proof (Ppi_nonneg_u m pi Wfb Wpb x z Hx Hz) as Hp.
    destruct (Rle_lt_or_eq_dec _ _ Hp) as [Hpp|Hz0]; [|rewrite <- Hz0; lra].
    rewrite IHk; [lra|auto| |].
    + apply (neginf_successor m pi Wfb Wpb x z); auto.
    + pose proof (rec_successor x z Hx Hz Hrec Hpp) as Hrz. unfold recurrent in Hrz.
      apply andb_true_iff in Hrz as [Hrz _]. now apply negb_true_iff in Hrz.
Qed.

Lemma cv_ge_bound (u : nat -> R) l c : (forall k, c <= u k) -> Un_cv u l -> c <= l.
Proof.
  intros Hb Hcv. apply Rnot_lt_le. intro Hlt.
  destruct (Hcv (c - l)) as (N & HN); [lra|]. specialize (HN N (Nat.le_refl N)).
  unfold R_dist in HN. apply Rabs_def2 in HN. specialize (Hb N). lra.
Qed.

Section Converge.
Variable W : nat -> R.
Hypothesis Hex : forall s, (s < n)%nat -> neginf m pi A s = false ->
                 W s = rpi s + sumf n (fun z => Pt m pi A s z * W z).

Lemma W_nontransient x :
  (x < n)%nat -> neginf m pi A x = false -> transient m pi A x = false -> W x = 0.
Proof.
  intros Hx HF Ht. rewrite (Hex x Hx HF). unfold Pt.
  destruct (absorbing m x) eqn:Hab.
  - unfold recurrent. rewrite Hab, andb_false_r. unfold PolicyEval.rpi, PolicyEval.Ppi. rewrite Hab.
    rewrite sumf_0 by (intros; numR; lra). numR. lra.
  - assert (Hrec : recurrent m pi A x = true) by (unfold recurrent; now rewrite Ht, Hab).
    rewrite Hrec, (F_rec_zero_reward x Hx HF Hrec). rewrite sumf_0 by (intros; numR; lra). lra.
Qed.

Lemma W_transient x :
  (x < n)%nat -> neginf m pi A x = false -> transient m pi A x = true ->
  W x = rpi x + sumf n (fun z => Ppi x z * W z).
Proof.
  intros Hx HF Ht. rewrite (Hex x Hx HF) at 1. unfold Pt, recurrent. rewrite Ht. reflexivity.
Qed.

(* the solution of the transient system is non-positive off the -inf set *)
Lemma W_nonpos x : (x < n)%nat -> neginf m pi A x = false -> W x <= 0.
Proof.
  intros Hx HF. apply (max_principle W F F_closed); [| |exact Hx|now apply negb_true_iff].
  - intros y Hy HFy Ht. apply negb_true_iff in HFy. rewrite (W_nontransient y Hy HFy Ht). lra.
  - intros y Hy HFy Ht. apply negb_true_iff in HFy. rewrite (W_transient y Hy HFy Ht) at 1.
    pose proof (rpi_nonpos m pi Wpb Hnonpos y Hy). lra.
Qed.

(* off the -inf set the k-step expected total reward converges to the solution of the
   transient system: "the finite expected total reward" *)
Theorem undisc_kstep_converges s :
  (s < n)%nat -> neginf m pi A s = false -> Un_cv (fun k => Vnu k s) (W s).
Proof.
  intros Hs0 HFs0.
  assert (Hlow : forall k x, (x < n)%nat -> neginf m pi A x = false -> W x <= Vnu k x).
  { intros k x Hx HFx.
    apply (undisc_kstep_lower m pi Wfb Wpb Hnonpos W W_nonpos Hex k x Hx HFx). }
  assert (HL : forall x, (x < n)%nat -> exists l, neginf m pi A x = false ->
                 Un_cv (fun k => Vnu k x) l /\ W x <= l).
  { intros x Hx. destruct (neginf m pi A x) eqn:E; [exists 0; discriminate|].
    destruct (limit_exists x Hx) as (l & Hl & _).
    { exists (- W x). intros k. specialize (Hlow k x Hx E). lra. }
    exists l. intros _. split; [exact Hl|].
    apply (cv_ge_bound (fun k => Vnu k x) l (W x)); [intros k; apply Hlow; auto|exact Hl]. }
  destruct (finite_choice n _ HL) as (L & HLs).
  (* D = L - W is <= 0 on F by the maximum principle *)
  assert (HD : forall x, (x < n)%nat -> F x = true -> L x - W x <= 0).
  { apply (max_principle (fun x => L x - W x) F F_closed).
    - intros y Hy HFy Ht. apply negb_true_iff in HFy.
      rewrite (W_nontransient y Hy HFy Ht).
      assert (L y = 0); [|lra].
      apply (UL_sequence (fun k => Vnu k y)); [apply HLs; auto|].
      intros eps He. exists 0%nat. intros k _. rewrite (Vnu_zero k y Hy HFy Ht).
      unfold R_dist. rewrite Rminus_diag_eq, Rabs_R0; auto.
    - intros y Hy HFy Ht. apply negb_true_iff in HFy.
      assert (HLy : L y = rpi y + sumf n (fun z => Ppi y z * L z)).
      { apply limit_equation; auto; [apply HLs; auto|]. intros z Hz Hp. apply HLs; auto.
        apply (neginf_successor m pi Wfb Wpb y z); auto. }
      rewrite HLy, (W_transient y Hy HFy Ht).
      rewrite (sumf_ext _ (fun z => Ppi y z * (L z - W z)) (fun z => Ppi y z * L z - Ppi y z * W z))
        by (intros; lra).
      rewrite sumf_minus. lra. }
  destruct (HLs s Hs0 HFs0) as [Hcv Hge].
  assert (L s = W s).
  { assert (F s = true) by now apply negb_true_iff. specialize (HD s Hs0 H). lra. }
  now rewrite <- H.
Qed.

End Converge.

(* ------------------------------------------------------------------ *)
(* with an absorption-time certificate tau >= 1 + P_t tau:               *)
(* the transient system HAS a solution (the limit of the k-step returns) *)
(* and approximate solutions are within (residual * tau) of it          *)
(* ------------------------------------------------------------------ *)
Section Tau.
Variable tau : nat -> R.
Hypothesis Htau : forall x, (x < n)%nat -> neginf m pi A x = false ->
                  1 + sumf n (fun z => Pt m pi A x z * tau z) <= tau x /\ 0 <= tau x.

Lemma Pt_nontransient x z : transient m pi A x = false -> Pt m pi A x z = 0.
Proof.
  intros Ht. unfold Pt, recurrent. rewrite Ht. destruct (absorbing m x) eqn:Hab; simpl.
  - unfold PolicyEval.Ppi. rewrite Hab. reflexivity.
  - reflexivity.
Qed.
Lemma Pt_transient x z : transient m pi A x = true -> Pt m pi A x z = Ppi x z.
Proof. intros Ht. unfold Pt, recurrent. rewrite Ht. reflexivity. Qed.

Lemma tau_ge1 x : (x < n)%nat -> neginf m pi A x = false -> transient m pi A x = false -> 1 <= tau x.
Proof.
  intros Hx HF Ht. destruct (Htau x Hx HF) as [H _].
  rewrite sumf_0 in H; [lra|]. intros z Hz. rewrite Pt_nontransient; auto. lra.
Qed.

(* perturbation bound *)
Lemma tau_bound (e rho : nat -> R) delta :
  0 <= delta ->
  (forall x, (x < n)%nat -> neginf m pi A x = false ->
     e x = rho x + sumf n (fun z => Pt m pi A x z * e z)) ->
  (forall x, (x < n)%nat -> neginf m pi A x = false -> rho x <= delta) ->
  forall x, (x < n)%nat -> neginf m pi A x = false -> e x <= delta * tau x.
Proof.
  intros Hd He Hrho x Hx HF.
  cut (e x - delta * tau x <= 0); [lra|].
  apply (max_principle (fun x => e x - delta * tau x) F F_closed); [| |exact Hx|now apply negb_true_iff].
  - intros y Hy HFy Ht. apply negb_true_iff in HFy. rewrite (He y Hy HFy).
    rewrite sumf_0 by (intros z Hz; rewrite Pt_nontransient; auto; lra).
    pose proof (tau_ge1 y Hy HFy Ht). pose proof (Hrho y Hy HFy). nra.
  - intros y Hy HFy Ht. apply negb_true_iff in HFy. rewrite (He y Hy HFy).
    destruct (Htau y Hy HFy) as [H1 _]. pose proof (Hrho y Hy HFy) as H2.
    rewrite (sumf_ext _ (fun z => Pt m pi A y z * e z) (fun z => Ppi y z * e z)) by (intros; now rewrite Pt_transient).
    rewrite (sumf_ext _ (fun z => Pt m pi A y z * tau z) (fun z => Ppi y z * tau z)) in H1 by (intros; now rewrite Pt_transient).
    rewrite (sumf_ext _ (fun z => Ppi y z * (e z - delta * tau z))
                        (fun z => Ppi y z * e z - delta * (Ppi y z * tau z))) by (intros; lra).
    rewrite sumf_minus, sumf_scal. nra.
Qed.

(* the k-step returns are bounded below by -c * tau off the -inf set *)
Lemma Vnu_tau_bound c :
  (forall x, (x < n)%nat -> - c <= rpi x) -> 0 <= c ->
  forall k x, (x < n)%nat -> neginf m pi A x = false -> - (c * tau x) <= Vnu k x.
Proof.
  intros Hc Hc0. induction k; intros x Hx HF.
  - simpl. destruct (Htau x Hx HF) as [_ H]. nra.
  - destruct (transient m pi A x) eqn:Ht.
    + rewrite Vnu_S. destruct (Htau x Hx HF) as [H1 _].
      rewrite (sumf_ext _ (fun z => Pt m pi A x z * tau z) (fun z => Ppi x z * tau z)) in H1 by (intros; now rewrite Pt_transient).
      assert (H2 : sumf n (fun z => Ppi x z * (- (c * tau z))) <= sumf n (fun z => Ppi x z * Vnu k z)).
      { apply sumf_le. intros z Hz. pose proof (Ppi_nonneg_u m pi Wfb Wpb x z Hx Hz) as Hp.
        destruct (Rle_lt_or_eq_dec _ _ Hp) as [Hpp|Hz0]; [|rewrite <- Hz0; lra].
        apply Rmult_le_compat_l; auto. apply IHk; auto. apply (neginf_successor m pi Wfb Wpb x z); auto. }
      rewrite (sumf_ext _ (fun z => Ppi x z * (- (c * tau z))) (fun z => - c * (Ppi x z * tau z))) in H2 by (intros; lra).
      rewrite sumf_scal in H2. specialize (Hc x Hx). nra.
    + rewrite (Vnu_zero (S k) x Hx HF Ht). destruct (Htau x Hx HF) as [_ H]. nra.
Qed.

Theorem undisc_solution_exists :
  exists W, (forall s, (s < n)%nat -> neginf m pi A s = false ->
               W s = rpi s + sumf n (fun z => Pt m pi A s z * W z)) /\
            (forall s, (s < n)%nat -> neginf m pi A s = false -> Un_cv (fun k => Vnu k s) (W s)).
Proof.
  destruct (finite_sup n rpi) as (c & Hc0 & Hc & _).
  assert (Hcl : forall x, (x < n)%nat -> - c <= rpi x).
  { intros x Hx. specialize (Hc x Hx). apply Rabs_le_inv' in Hc. lra. }
  assert (HL : forall x, (x < n)%nat -> exists l, neginf m pi A x = false -> Un_cv (fun k => Vnu k x) l).
  { intros x Hx. destruct (neginf m pi A x) eqn:E; [exists 0; discriminate|].
    destruct (limit_exists x Hx) as (l & Hl & _); [|exists l; auto].
    exists (c * tau x). intros k. apply Vnu_tau_bound; auto. }
  destruct (finite_choice n _ HL) as (L & HLs).
  exists L. split; [|exact HLs].
  intros s Hs HF. destruct (transient m pi A s) eqn:Ht.
  - rewrite (sumf_ext _ (fun z => Pt m pi A s z * L z) (fun z => Ppi s z * L z)) by (intros; now rewrite Pt_transient).
    apply limit_equation; auto. intros z Hz Hp. apply HLs; auto.
    apply (neginf_successor m pi Wfb Wpb s z); auto.
  - rewrite sumf_0 by (intros z Hz; rewrite Pt_nontransient; auto; lra).
    assert (HL0 : L s = 0).
    { apply (UL_sequence (fun k => Vnu k s)); [apply HLs; auto|].
      intros eps He. exists 0%nat. intros k _. rewrite (Vnu_zero k s Hs HF Ht).
      unfold R_dist. rewrite Rminus_diag_eq, Rabs_R0; auto. }
    assert (Hr0 : rpi s = 0).
    { destruct (absorbing m s) eqn:Hab.
      - unfold PolicyEval.rpi. now rewrite Hab.
      - apply F_rec_zero_reward; auto. unfold recurrent. now rewrite Ht, Hab. }
    lra.
Qed.

(* approximate solutions of the transient system are close to THE expected total reward *)
Theorem undisc_values_close (V : nat -> R) delta :
  0 <= delta ->
  (forall x, (x < n)%nat -> neginf m pi A x = false ->
     Rabs (V x - (rpi x + sumf n (fun z => Pt m pi A x z * V z))) <= delta) ->
  exists W, (forall s, (s < n)%nat -> neginf m pi A s = false ->
               W s = rpi s + sumf n (fun z => Pt m pi A s z * W z)) /\
            (forall s, (s < n)%nat -> neginf m pi A s = false -> Un_cv (fun k => Vnu k s) (W s)) /\
            (forall s, (s < n)%nat -> neginf m pi A s = false -> Rabs (V s - W s) <= delta * tau s).
Proof.
  intros Hd Hres. destruct undisc_solution_exists as (W & HW & Hcv). exists W. split; [exact HW|].
  split; [exact Hcv|]. intros s Hs HF. apply Rabs_le. split.
  - cut (W s - V s <= delta * tau s); [lra|].
    apply (tau_bound (fun x => W x - V x)
             (fun x => - (V x - (rpi x + sumf n (fun z => Pt m pi A x z * V z)))) delta Hd); auto.
    + intros x Hx HFx. rewrite (HW x Hx HFx) at 1.
      rewrite (sumf_ext _ (fun z => Pt m pi A x z * (W z - V z))
                          (fun z => Pt m pi A x z * W z - Pt m pi A x z * V z)) by (intros; lra).
      rewrite sumf_minus. lra.
    + intros x Hx HFx. specialize (Hres x Hx HFx). apply Rabs_le_inv' in Hres. lra.
  - apply (tau_bound (fun x => V x - W x)
             (fun x => V x - (rpi x + sumf n (fun z => Pt m pi A x z * V z))) delta Hd); auto.
    + intros x Hx HFx. rewrite (HW x Hx HFx) at 1.
      rewrite (sumf_ext _ (fun z => Pt m pi A x z * (V z - W z))
                          (fun z => Pt m pi A x z * V z - Pt m pi A x z * W z)) by (intros; lra).
      rewrite sumf_minus. lra.
    + intros x Hx HFx. specialize (Hres x Hx HFx). apply Rabs_le_inv' in Hres. lra.
Qed.

End Tau.

End Limits.

Lemma c02_tau_spec (m : mdp R) pi (tau : list R) :
  c02_tau m pi tau = true ->
  forall x, (x < nS m)%nat -> neginf m pi (accM m pi) x = false ->
    1 + sumf (nS m) (fun z => Pt m pi (accM m pi) x z * untab tau z) <= untab tau x /\ 0 <= untab tau x.
Proof.
  unfold c02_tau. cbv zeta. rewrite forallbn_spec. intros H x Hx HF. specialize (H x Hx).
  rewrite HF in H. apply andb_true_iff in H as [H1 H2].
  apply nleb_Rle in H1. apply nleb_Rle in H2. numR. auto.
Qed.
