(* FactorTableTheory.v — C18: lemmas about model/FactorTable.v, for ALL tables
   (any variables, any number of rows). *)
From Coq Require Import QArith Qabs List Bool ZArith Arith Lia Lqa Setoid Morphisms.
From MSDM Require Import model.FactorTable.
Import ListNotations.
Local Open Scope Q_scope.

(* ================================================================== rows *)
(* semantic equality of rows = Python dict equality *)
Definition req (r1 r2 : row) : Prop := forall k, rget k r1 = rget k r2.

Lemma req_refl r : req r r. Proof. intro; reflexivity. Qed.
Lemma req_sym r1 r2 : req r1 r2 -> req r2 r1. Proof. intros H k; symmetry; apply H. Qed.
Lemma req_trans r1 r2 r3 : req r1 r2 -> req r2 r3 -> req r1 r3.
Proof. intros H1 H2 k; rewrite H1; apply H2. Qed.

Global Instance req_Equivalence : Equivalence req.
Proof. split; [exact req_refl | exact req_sym | exact req_trans]. Qed.

Lemma opt_eqb_spec a b : opt_eqb a b = true <-> a = b.
Proof.
  destruct a as [x|], b as [y|]; simpl; split; intro H; try discriminate; try reflexivity.
  - apply Z.eqb_eq in H; now subst.
  - inversion H; apply Z.eqb_refl.
Qed.

Lemma rget_none k r : rget k r = None <-> ~ In k (map fst r).
Proof.
  induction r as [|[k' v] t IH]; simpl.
  - tauto.
  - destruct (Nat.eqb_spec k k') as [->|Hne].
    + split; [discriminate | intro H; exfalso; apply H; now left].
    + rewrite IH; split; intro H; [intros [E|I]; [congruence | tauto] | tauto].
Qed.

Lemma rget_some_in k v r : rget k r = Some v -> In (k, v) r.
Proof.
  induction r as [|[k' v'] t IH]; simpl; [discriminate|].
  destruct (Nat.eqb_spec k k') as [->|Hne]; intro H.
  - inversion H; now left.
  - right; auto.
Qed.

Lemma rget_in_keys k r : In k (map fst r) -> exists v, rget k r = Some v.
Proof.
  intro H; destruct (rget k r) as [v|] eqn:E; [now exists v|].
  apply rget_none in E; contradiction.
Qed.

Lemma row_eqb_spec r1 r2 : row_eqb r1 r2 = true <-> req r1 r2.
Proof.
  unfold row_eqb; rewrite forallb_forall; split.
  - intros H k.
    destruct (in_dec Nat.eq_dec k (map fst r1 ++ map fst r2)) as [I|N].
    + apply opt_eqb_spec, H, I.
    + assert (N1 : ~ In k (map fst r1)) by (intro; apply N, in_or_app; now left).
      assert (N2 : ~ In k (map fst r2)) by (intro; apply N, in_or_app; now right).
      apply rget_none in N1, N2; congruence.
  - intros H k _; apply opt_eqb_spec, H.
Qed.

Lemma row_eqb_refl r : row_eqb r r = true.
Proof. apply row_eqb_spec; reflexivity. Qed.

Lemma row_eqb_false r1 r2 : row_eqb r1 r2 = false <-> ~ req r1 r2.
Proof.
  split.
  - intros H E; apply row_eqb_spec in E; congruence.
  - intro H; destruct (row_eqb r1 r2) eqn:E; [apply row_eqb_spec in E; contradiction | reflexivity].
Qed.

Lemma row_eqb_req_l r1 r1' r2 : req r1 r1' -> row_eqb r1 r2 = row_eqb r1' r2.
Proof.
  intro H; destruct (row_eqb r1 r2) eqn:E1, (row_eqb r1' r2) eqn:E2; try reflexivity.
  - apply row_eqb_spec in E1; apply row_eqb_false in E2; exfalso; apply E2.
    now rewrite <- H.
  - apply row_eqb_spec in E2; apply row_eqb_false in E1; exfalso; apply E1.
    now rewrite H.
Qed.

Lemma row_eqb_req_r r1 r2 r2' : req r2 r2' -> row_eqb r1 r2 = row_eqb r1 r2'.
Proof.
  intro H; destruct (row_eqb r1 r2) eqn:E1, (row_eqb r1 r2') eqn:E2; try reflexivity.
  - apply row_eqb_spec in E1; apply row_eqb_false in E2; exfalso; apply E2.
    now rewrite <- H.
  - apply row_eqb_spec in E2; apply row_eqb_false in E1; exfalso; apply E1.
    now rewrite H.
Qed.

Lemma row_eqb_sym r1 r2 : row_eqb r1 r2 = row_eqb r2 r1.
Proof.
  destruct (row_eqb r1 r2) eqn:E1, (row_eqb r2 r1) eqn:E2; try reflexivity.
  - apply row_eqb_spec in E1; apply row_eqb_false in E2; exfalso; apply E2; now symmetry.
  - apply row_eqb_spec in E2; apply row_eqb_false in E1; exfalso; apply E1; now symmetry.
Qed.

Lemma row_mem_spec r rs : row_mem r rs = true <-> exists r', In r' rs /\ req r r'.
Proof.
  unfold row_mem; rewrite existsb_exists; split; intros [r' [I E]]; exists r'; split; auto;
    now apply row_eqb_spec.
Qed.

Lemma row_mem_req r r' rs : req r r' -> row_mem r rs = row_mem r' rs.
Proof.
  intro H; unfold row_mem; induction rs as [|x t IH]; simpl; [reflexivity|].
  now rewrite IH, (row_eqb_req_l r r' x H).
Qed.

Lemma row_mem_app r l1 l2 : row_mem r (l1 ++ l2) = row_mem r l1 || row_mem r l2.
Proof. unfold row_mem; apply existsb_app. Qed.

(* rset / merge *)
Lemma rget_rset k k' v r : rget k' (rset k v r) = if Nat.eqb k' k then Some v else rget k' r.
Proof.
  induction r as [|[k0 v0] t IH]; simpl.
  - destruct (Nat.eqb k' k); reflexivity.
  - destruct (Nat.eqb_spec k k0) as [->|Hne]; simpl.
    + destruct (Nat.eqb k' k0); reflexivity.
    + rewrite IH. destruct (Nat.eqb_spec k' k0) as [->|Hne2].
      * destruct (Nat.eqb_spec k0 k); [congruence | reflexivity].
      * reflexivity.
Qed.

Lemma keys_rset k v r : forall k', In k' (map fst (rset k v r)) <-> k' = k \/ In k' (map fst r).
Proof.
  induction r as [|[k0 v0] t IH]; simpl; intro k'.
  - intuition.
  - destruct (Nat.eqb_spec k k0) as [->|Hne]; simpl.
    + intuition.
    + rewrite IH; intuition.
Qed.

Lemma NoDup_keys_rset k v r : NoDup (map fst r) -> NoDup (map fst (rset k v r)).
Proof.
  induction r as [|[k0 v0] t IH]; simpl; intro H.
  - constructor; [intros []| constructor].
  - inversion H as [|? ? Hn Hd]; subst.
    destruct (Nat.eqb_spec k k0) as [->|Hne]; simpl.
    + now constructor.
    + constructor; [|auto]. rewrite keys_rset. intros [E|I]; [congruence | contradiction].
Qed.

(* dictionaries have unique keys *)
Definition row_wf (r : row) : Prop := NoDup (map fst r).

(* value written last for key k in r (fold_left order): first hit in rev r *)
Lemma rget_merge_gen l r k :
  rget k (dict_merge l r) = match rget k (rev r) with Some v => Some v | None => rget k l end.
Proof.
  unfold dict_merge; revert l; induction r as [|[k0 v0] t IH]; intro l; simpl.
  - reflexivity.
  - rewrite IH.
    assert (A : forall (a : row) b, rget k (a ++ [b]) = match rget k a with Some v => Some v | None => rget k [b] end).
    { induction a as [|[ka va] ta IHa]; intro b0; simpl; [reflexivity|].
      destruct (Nat.eqb k ka); [reflexivity | apply IHa]. }
    rewrite A. destruct (rget k (rev t)); [reflexivity|].
    simpl. rewrite rget_rset. destruct (Nat.eqb k k0); reflexivity.
Qed.

Lemma rget_rev_wf k r : row_wf r -> rget k (rev r) = rget k r.
Proof.
  intro W.
  destruct (rget k r) as [v|] eqn:E.
  - apply rget_some_in in E.
    destruct (rget k (rev r)) as [v'|] eqn:E'.
    + apply rget_some_in in E'. rewrite <- in_rev in E'.
      f_equal.
      clear - W E E'. unfold row_wf in W. induction r as [|[k0 v0] t IH]; [destruct E|].
      simpl in *. inversion W as [|? ? Hn Hd]; subst.
      destruct E as [E|E], E' as [E'|E'].
      * congruence.
      * inversion E; subst. exfalso; apply Hn. change k with (fst (k, v')); now apply in_map.
      * inversion E'; subst. exfalso; apply Hn. change k with (fst (k, v)); now apply in_map.
      * auto.
    + apply rget_none in E'. exfalso; apply E'. rewrite map_rev, <- in_rev.
      change k with (fst (k, v)); now apply in_map.
  - apply rget_none in E. apply rget_none. intro I; apply E.
    rewrite map_rev, <- in_rev in I. exact I.
Qed.

Lemma rget_merge l r k : row_wf r ->
  rget k (dict_merge l r) = match rget k r with Some v => Some v | None => rget k l end.
Proof. intro W; rewrite rget_merge_gen, rget_rev_wf; auto. Qed.

Lemma row_wf_merge l r : row_wf l -> row_wf (dict_merge l r).
Proof.
  unfold dict_merge; revert l; induction r as [|[k v] t IH]; intros l W; simpl; [exact W|].
  apply IH. now apply NoDup_keys_rset.
Qed.

Lemma dict_match_spec l r :
  dict_match l r = true <-> forall k v v', In (k, v) r -> rget k l = Some v' -> v' = v.
Proof.
  unfold dict_match; rewrite forallb_forall; split.
  - intros H k v v' I G. specialize (H (k, v) I); simpl in H. rewrite G in H. now apply Z.eqb_eq in H.
  - intros H [k v] I; simpl. destruct (rget k l) as [v'|] eqn:G; [|reflexivity].
    apply Z.eqb_eq. eapply H; eauto.
Qed.

(* on shared keys the two rows agree *)
Lemma dict_match_agree l r k v v' :
  dict_match l r = true -> rget k l = Some v -> rget k r = Some v' -> v = v'.
Proof.
  intros M G1 G2. apply rget_some_in in G2. eapply (proj1 (dict_match_spec l r) M); eauto.
Qed.

(* under match, the merged row extends both *)
Lemma rget_merge_l l r k v : row_wf r -> dict_match l r = true ->
  rget k l = Some v -> rget k (dict_merge l r) = Some v.
Proof.
  intros W M G. rewrite rget_merge by assumption.
  destruct (rget k r) as [v'|] eqn:G2; [|assumption].
  f_equal. symmetry. eapply dict_match_agree; eauto.
Qed.

Lemma rget_merge_r l r k v : row_wf r -> rget k r = Some v -> rget k (dict_merge l r) = Some v.
Proof. intros W G. rewrite rget_merge by assumption. now rewrite G. Qed.

Lemma dict_match_req l l' r r' : row_wf r -> row_wf r' -> req l l' -> req r r' ->
  dict_match l r = dict_match l' r'.
Proof.
  intros W W' El Er.
  assert (A : forall l l' r r', row_wf r' -> req l l' -> req r r' -> dict_match l r = true -> dict_match l' r' = true).
  { clear. intros l l' r r' W' El Er M. apply dict_match_spec. intros k v v' I G.
    assert (G2 : rget k r' = Some v).
    { destruct (rget k r') as [v0|] eqn:E0.
      - apply rget_some_in in E0. f_equal.
        unfold row_wf in W'. clear - W' I E0. induction r' as [|[k0 v1] t IH]; [destruct I|].
        simpl in *. inversion W' as [|? ? Hn Hd]; subst.
        destruct I as [I|I], E0 as [E0|E0].
        + congruence.
        + inversion I; subst. exfalso; apply Hn. change k with (fst (k, v0)); now apply in_map.
        + inversion E0; subst. exfalso; apply Hn. change k with (fst (k, v)); now apply in_map.
        + auto.
      - apply rget_none in E0. exfalso; apply E0. change k with (fst (k, v)); now apply in_map. }
    rewrite <- El in G. rewrite <- Er in G2. eapply dict_match_agree; eauto. }
  destruct (dict_match l r) eqn:M1, (dict_match l' r') eqn:M2; try reflexivity.
  - rewrite (A l l' r r' W' El Er M1) in M2; discriminate.
  - rewrite (A l' l r' r W (req_sym _ _ El) (req_sym _ _ Er) M2) in M1; discriminate.
Qed.

Lemma dict_merge_req l l' r r' : row_wf r -> row_wf r' -> req l l' -> req r r' ->
  req (dict_merge l r) (dict_merge l' r').
Proof. intros W W' El Er k. rewrite !rget_merge by assumption. now rewrite Er, El. Qed.

(* ================================================================== sums *)
Lemma qsum_app l1 l2 : qsum (l1 ++ l2) == qsum l1 + qsum l2.
Proof. induction l1 as [|x t IH]; simpl; [ring | rewrite IH; ring]. Qed.

Lemma qsum_nonneg l : (forall x, In x l -> 0 <= x) -> 0 <= qsum l.
Proof.
  induction l as [|x t IH]; simpl; intro H; [apply Qle_refl|].
  assert (0 <= x) by (apply H; now left).
  assert (0 <= qsum t) by (apply IH; intros; apply H; now right). lra.
Qed.

Lemma qsum_pos l : (forall x, In x l -> 0 < x) -> l <> [] -> 0 < qsum l.
Proof.
  destruct l as [|x t]; [congruence|]. intros H _. simpl.
  assert (0 < x) by (apply H; now left).
  assert (0 <= qsum t) by (apply qsum_nonneg; intros; apply Qlt_le_weak, H; now right). lra.
Qed.

Lemma qsum_map_ext {A} (f g : A -> Q) l : (forall x, In x l -> f x == g x) -> qsum (map f l) == qsum (map g l).
Proof.
  induction l as [|x t IH]; simpl; intro H; [reflexivity|].
  rewrite (H x) by now left. rewrite IH; [reflexivity | intros; apply H; now right].
Qed.

Lemma qsum_map_scale {A} (f : A -> Q) c l : qsum (map (fun x => f x * c) l) == qsum (map f l) * c.
Proof. induction l as [|x t IH]; simpl; [ring | rewrite IH; ring]. Qed.

Lemma qzero_spec x : qzero x = true <-> x == 0.
Proof. unfold qzero; apply Qeq_bool_iff. Qed.

Lemma qzero_false x : qzero x = false <-> ~ x == 0.
Proof.
  split.
  - intros H E; apply qzero_spec in E; congruence.
  - intro H; destruct (qzero x) eqn:E; [apply qzero_spec in E; contradiction | reflexivity].
Qed.

(* ================================================================== tables: lookup *)
Lemma ft_w_req t r r' : req r r' -> ft_w t r = ft_w t r'.
Proof.
  intro H; induction t as [|[r0 w] t IH]; simpl; [reflexivity|].
  now rewrite (row_eqb_req_r r0 r r' H), IH.
Qed.

Lemma ft_w_absent t r : row_mem r (ft_rows t) = false -> ft_w t r = 0.
Proof.
  induction t as [|[r0 w] t IH]; simpl; [reflexivity|].
  intro H; apply orb_false_iff in H; destruct H as [H1 H2].
  rewrite row_eqb_sym, H1. auto.
Qed.

Lemma ft_w_app_l t1 t2 r : row_mem r (ft_rows t1) = true -> ft_w (t1 ++ t2) r = ft_w t1 r.
Proof.
  induction t1 as [|[r0 w] t IH]; simpl; [discriminate|].
  intro H. rewrite (row_eqb_sym r0 r). destruct (row_eqb r r0); [reflexivity | auto].
Qed.

Lemma ft_w_app_r t1 t2 r : row_mem r (ft_rows t1) = false -> ft_w (t1 ++ t2) r = ft_w t2 r.
Proof.
  induction t1 as [|[r0 w] t IH]; simpl; [reflexivity|].
  intro H; apply orb_false_iff in H; destruct H as [H1 H2].
  rewrite row_eqb_sym, H1. auto.
Qed.

(* rows pairwise different as dictionaries *)
Fixpoint rows_distinct (rs : list row) : Prop :=
  match rs with
  | [] => True
  | r :: t => row_mem r t = false /\ rows_distinct t
  end.

Lemma rows_distinct_app l1 l2 :
  rows_distinct (l1 ++ l2) <-> rows_distinct l1 /\ rows_distinct l2 /\ (forall r, In r l1 -> row_mem r l2 = false).
Proof.
  induction l1 as [|x t IH]; simpl.
  - intuition.
  - rewrite row_mem_app, orb_false_iff, IH. split.
    + intros [[A B] [C [D E]]]. repeat split; auto. intros r [<-|I]; auto.
    + intros [[A B] [C D]]. repeat split; auto.
Qed.

Lemma ft_w_own t r w : rows_distinct (ft_rows t) -> In (r, w) t -> ft_w t r = w.
Proof.
  induction t as [|[r0 w0] t IH]; simpl; intros D I; [destruct I|].
  destruct D as [D1 D2]. destruct I as [I|I].
  - inversion I; subst. now rewrite row_eqb_refl.
  - destruct (row_eqb r0 r) eqn:E; [|auto].
    exfalso. apply row_eqb_spec in E.
    assert (M : row_mem r0 (ft_rows t) = true).
    { apply row_mem_spec. exists r; split; [|assumption]. change r with (fst (r, w)). now apply in_map. }
    congruence.
Qed.

Lemma ft_Z_app t1 t2 : ft_Z (t1 ++ t2) == ft_Z t1 + ft_Z t2.
Proof. unfold ft_Z, ft_weights. rewrite map_app. apply qsum_app. Qed.

Lemma row_mem_false r l : row_mem r l = false <-> forall r', In r' l -> row_eqb r r' = false.
Proof.
  unfold row_mem. induction l as [|x t IH]; simpl.
  - split; [intros _ r' [] | reflexivity].
  - rewrite orb_false_iff, IH. split.
    + intros [A B] r' [<-|I]; auto.
    + intro H; split; [apply H; now left | intros; apply H; now right].
Qed.

Lemma rows_distinct_remove l1 x l2 : rows_distinct (l1 ++ x :: l2) -> rows_distinct (l1 ++ l2).
Proof.
  rewrite !rows_distinct_app. simpl. intros [A [[B C] D]]. repeat split; auto.
  intros r I. specialize (D r I). simpl in D. apply orb_false_iff in D. tauto.
Qed.

Lemma rows_distinct_map (f : row -> row) l :
  (forall x y, In x l -> In y l -> req (f x) (f y) -> req x y) ->
  rows_distinct l -> rows_distinct (map f l).
Proof.
  induction l as [|x t IH]; simpl; intros Inj D; [exact I|].
  destruct D as [D1 D2]. split.
  - destruct (row_mem (f x) (map f t)) eqn:M; [|reflexivity]. exfalso.
    apply row_mem_spec in M. destruct M as [r' [I E]]. apply in_map_iff in I.
    destruct I as [y [<- Iy]].
    assert (req x y) by (apply Inj; auto).
    assert (row_mem x t = true) by (apply row_mem_spec; exists y; auto). congruence.
  - apply IH; auto.
Qed.

Lemma ft_rows_app t1 t2 : ft_rows (t1 ++ t2) = ft_rows t1 ++ ft_rows t2.
Proof. apply map_app. Qed.

Lemma map_ft_w_own t : rows_distinct (ft_rows t) -> map (ft_w t) (ft_rows t) = ft_weights t.
Proof.
  intro D. unfold ft_rows, ft_weights. rewrite map_map. apply map_ext_in.
  intros [r w] I. simpl. now apply ft_w_own.
Qed.

(* ================================================================== product *)
Definition mg (p : row * row) : row := dict_merge (fst p) (snd p).
Definition pmatch (p : row * row) : bool := dict_match (fst p) (snd p).

Section Product.
Variables t1 t2 : table.

Definition pw (p : row * row) : Q := ft_w t1 (fst p) * ft_w t2 (snd p).
Definition ppairs : list (row * row) := list_prod (ft_rows t1) (ft_rows t2).

Record prod_inv (seen : list (row * row)) (acc : table) : Prop := {
  pi_distinct : rows_distinct (ft_rows acc);
  pi_sound : forall r w, In (r, w) acc ->
      exists p, In p seen /\ pmatch p = true /\ r = mg p /\ w = pw p /\ ~ w == 0;
  pi_complete : forall p, In p seen -> pmatch p = true -> ~ pw p == 0 ->
      row_mem (mg p) (ft_rows acc) = true }.

Lemma prod_step_inv seen acc p :
  prod_inv seen acc -> prod_inv (seen ++ [p]) (prod_step t1 t2 acc p).
Proof.
  intros [D S C]. unfold prod_step.
  change (dict_match (fst p) (snd p)) with (pmatch p).
  change (dict_merge (fst p) (snd p)) with (mg p).
  change (ft_w t1 (fst p) * ft_w t2 (snd p)) with (pw p).
  destruct (pmatch p) eqn:M.
  - destruct (row_mem (mg p) (ft_rows acc)) eqn:Mem.
    + split; auto.
      * intros r w I. destruct (S r w I) as [p' [I' R]]. exists p'; split; [apply in_or_app; now left | exact R].
      * intros p' I' M' NZ. apply in_app_or in I'. destruct I' as [I'|[<-|[]]]; auto.
    + destruct (qzero (pw p)) eqn:Zr.
      * split; auto.
        -- intros r w I. destruct (S r w I) as [p' [I' R]]. exists p'; split; [apply in_or_app; now left | exact R].
        -- intros p' I' M' NZ. apply in_app_or in I'. destruct I' as [I'|[<-|[]]]; auto.
           apply qzero_spec in Zr. contradiction.
      * apply qzero_false in Zr. split.
        -- rewrite ft_rows_app. simpl. apply rows_distinct_app. repeat split; auto.
           intros r I. simpl. rewrite orb_false_r. rewrite row_eqb_sym.
           apply (proj1 (row_mem_false _ _) Mem); auto.
        -- intros r w I. apply in_app_or in I. destruct I as [I|[I|[]]].
           ++ destruct (S r w I) as [p' [I' R]]. exists p'; split; [apply in_or_app; now left | exact R].
           ++ inversion I; subst. exists p. repeat split; auto. apply in_or_app; right; now left.
        -- intros p' I' M' NZ. rewrite ft_rows_app, row_mem_app. apply in_app_or in I'.
           destruct I' as [I'|[<-|[]]].
           ++ rewrite (C p' I' M' NZ). reflexivity.
           ++ simpl. rewrite row_eqb_refl. simpl. apply orb_true_r.
  - split; auto.
    + intros r w I. destruct (S r w I) as [p' [I' R]]. exists p'; split; [apply in_or_app; now left | exact R].
    + intros p' I' M' NZ. apply in_app_or in I'. destruct I' as [I'|[<-|[]]]; auto. congruence.
Qed.

Lemma prod_fold_inv ps : forall seen acc,
  prod_inv seen acc -> prod_inv (seen ++ ps) (fold_left (prod_step t1 t2) ps acc).
Proof.
  induction ps as [|p ps IH]; intros seen acc H; simpl.
  - now rewrite app_nil_r.
  - replace (seen ++ p :: ps) with ((seen ++ [p]) ++ ps) by (rewrite <- app_assoc; reflexivity).
    apply IH. now apply prod_step_inv.
Qed.

Lemma ft_product_inv : prod_inv ppairs (ft_product t1 t2).
Proof.
  unfold ft_product. change ppairs with ([] ++ ppairs). apply prod_fold_inv.
  split; simpl; [exact I | intros r w [] | intros p []].
Qed.

(* every row of the product is the merge of a matching pair of rows, with the product of their
   weights, which is not zero; rows are pairwise different *)
Lemma product_rows r w : In (r, w) (ft_product t1 t2) ->
  exists r1 r2, In r1 (ft_rows t1) /\ In r2 (ft_rows t2) /\ dict_match r1 r2 = true /\
                r = dict_merge r1 r2 /\ w = ft_w t1 r1 * ft_w t2 r2 /\ ~ w == 0.
Proof.
  intro I. destruct (pi_sound _ _ ft_product_inv r w I) as [[r1 r2] [Ip [M [E1 [E2 NZ]]]]].
  apply in_prod_iff in Ip. exists r1, r2. tauto.
Qed.

Lemma product_distinct : rows_distinct (ft_rows (ft_product t1 t2)).
Proof. exact (pi_distinct _ _ ft_product_inv). Qed.

(* two matching pairs that merge to the same row carry the same weight product *)
Definition coherent : Prop :=
  forall p p', In p ppairs -> In p' ppairs -> pmatch p = true -> pmatch p' = true ->
               req (mg p) (mg p') -> pw p == pw p'.

Lemma product_weight_pair : coherent ->
  forall p, In p ppairs -> pmatch p = true -> ft_w (ft_product t1 t2) (mg p) == pw p.
Proof.
  intros Co p Ip M.
  destruct (row_mem (mg p) (ft_rows (ft_product t1 t2))) eqn:Mem.
  - apply row_mem_spec in Mem. destruct Mem as [r' [I E]].
    apply in_map_iff in I. destruct I as [[r0 w] [<- I]]. simpl in E.
    rewrite (ft_w_req _ _ _ E).
    rewrite (ft_w_own _ _ _ product_distinct I).
    destruct (pi_sound _ _ ft_product_inv r0 w I) as [p' [Ip' [M' [E1 [E2 NZ]]]]].
    subst. symmetry. apply Co; auto.
  - rewrite (ft_w_absent _ _ Mem).
    destruct (Qeq_dec (pw p) 0) as [Z|NZ]; [now rewrite Z|].
    rewrite (pi_complete _ _ ft_product_inv p Ip M NZ) in Mem. discriminate.
Qed.

Lemma product_weight_other r :
  (forall p, In p ppairs -> pmatch p = true -> ~ req r (mg p)) -> ft_w (ft_product t1 t2) r = 0.
Proof.
  intro H. apply ft_w_absent.
  destruct (row_mem r (ft_rows (ft_product t1 t2))) eqn:Mem; [|reflexivity]. exfalso.
  apply row_mem_spec in Mem. destruct Mem as [r' [I E]].
  apply in_map_iff in I. destruct I as [[r0 w] [<- I]]. simpl in E.
  destruct (pi_sound _ _ ft_product_inv r0 w I) as [p' [Ip' [M' [E1 _]]]]. subst.
  exact (H p' Ip' M' E).
Qed.

(* --- tables "over variables K": every row is a dictionary with exactly the keys K --- *)
End Product.

Definition has_keys (K : list key) (r : row) : Prop := forall k, In k K <-> In k (map fst r).
Definition table_over (K : list key) (t : table) : Prop :=
  forall r, In r (ft_rows t) -> has_keys K r /\ row_wf r.

Lemma merge_inj K1 K2 a b a' b' :
  has_keys K1 a -> has_keys K1 a' -> has_keys K2 b -> has_keys K2 b' ->
  row_wf b -> row_wf b' -> dict_match a b = true -> dict_match a' b' = true ->
  req (dict_merge a b) (dict_merge a' b') -> req a a' /\ req b b'.
Proof.
  intros Ha Ha' Hb Hb' Wb Wb' M M' E. split; intro k.
  - destruct (in_dec Nat.eq_dec k K1) as [I|N].
    + destruct (rget_in_keys k a (proj1 (Ha k) I)) as [v G].
      destruct (rget_in_keys k a' (proj1 (Ha' k) I)) as [v' G'].
      pose proof (rget_merge_l a b k v Wb M G) as X.
      pose proof (rget_merge_l a' b' k v' Wb' M' G') as X'.
      rewrite E in X. congruence.
    + assert (rget k a = None) by (apply rget_none; intro; apply N, Ha; auto).
      assert (rget k a' = None) by (apply rget_none; intro; apply N, Ha'; auto). congruence.
  - destruct (in_dec Nat.eq_dec k K2) as [I|N].
    + destruct (rget_in_keys k b (proj1 (Hb k) I)) as [v G].
      destruct (rget_in_keys k b' (proj1 (Hb' k) I)) as [v' G'].
      pose proof (rget_merge_r a b k v Wb G) as X.
      pose proof (rget_merge_r a' b' k v' Wb' G') as X'.
      rewrite E in X. congruence.
    + assert (rget k b = None) by (apply rget_none; intro; apply N, Hb; auto).
      assert (rget k b' = None) by (apply rget_none; intro; apply N, Hb'; auto). congruence.
Qed.

Lemma coherent_over K1 K2 t1 t2 : table_over K1 t1 -> table_over K2 t2 -> coherent t1 t2.
Proof.
  intros O1 O2 [a b] [a' b'] I I' M M' E. unfold ppairs in *.
  apply in_prod_iff in I, I'. simpl in *. unfold pmatch, mg in *. simpl in *.
  destruct (O1 a (proj1 I)) as [Ha _]. destruct (O1 a' (proj1 I')) as [Ha' _].
  destruct (O2 b (proj2 I)) as [Hb Wb]. destruct (O2 b' (proj2 I')) as [Hb' Wb'].
  destruct (merge_inj K1 K2 a b a' b' Ha Ha' Hb Hb' Wb Wb' M M' E) as [Ea Eb].
  unfold pw; simpl. now rewrite (ft_w_req t1 _ _ Ea), (ft_w_req t2 _ _ Eb).
Qed.

(* PRODUCT = NATURAL JOIN, tables over variables K1 and K2 (shared, disjoint or overlapping) *)
Theorem product_natural_join_thm K1 K2 t1 t2 :
  table_over K1 t1 -> table_over K2 t2 ->
  (* rows: merges of matching pairs with non-zero weight product, each listed once *)
  rows_distinct (ft_rows (ft_product t1 t2)) /\
  (forall r w, In (r, w) (ft_product t1 t2) ->
     exists r1 r2, In r1 (ft_rows t1) /\ In r2 (ft_rows t2) /\ dict_match r1 r2 = true /\
                   r = dict_merge r1 r2 /\ w = ft_w t1 r1 * ft_w t2 r2 /\ ~ w == 0) /\
  (* weights: the joined row of a matching pair carries the product of the two weights
     (0 = absent when that product is 0) *)
  (forall r1 r2, In r1 (ft_rows t1) -> In r2 (ft_rows t2) -> dict_match r1 r2 = true ->
     ft_w (ft_product t1 t2) (dict_merge r1 r2) == ft_w t1 r1 * ft_w t2 r2) /\
  (* nothing else *)
  (forall r, (forall r1 r2, In r1 (ft_rows t1) -> In r2 (ft_rows t2) -> dict_match r1 r2 = true ->
                            ~ req r (dict_merge r1 r2)) -> ft_w (ft_product t1 t2) r = 0).
Proof.
  intros O1 O2. split; [apply product_distinct|]. split; [apply product_rows|]. split.
  - intros r1 r2 I1 I2 M.
    apply (product_weight_pair t1 t2 (coherent_over K1 K2 t1 t2 O1 O2) (r1, r2)); auto.
    apply in_prod_iff; auto.
  - intros r H. apply product_weight_other. intros [r1 r2] I M. apply in_prod_iff in I.
    apply H; tauto.
Qed.

(* ================================================================== probs *)
Definition ft_nonneg (t : table) : Prop := forall r w, In (r, w) t -> 0 <= w.
Definition ft_positive (t : table) : Prop := forall r w, In (r, w) t -> 0 < w.

Lemma existsb_qzero_false t : ft_positive t -> existsb qzero (ft_weights t) = false.
Proof.
  intro P. unfold ft_weights. induction t as [|[r w] t IH]; simpl; [reflexivity|].
  assert (0 < w) by (apply (P r w); now left).
  assert (Z : qzero w = false) by (apply qzero_false; lra). rewrite Z. simpl.
  apply IH. intros r' w' I. apply (P r' w'). now right.
Qed.

Lemma ft_Z_pos t : ft_positive t -> t <> [] -> 0 < ft_Z t.
Proof.
  intros P NE. unfold ft_Z. apply qsum_pos.
  - intros x I. unfold ft_weights in I. apply in_map_iff in I. destruct I as [[r w] [<- I]]. apply (P r w I).
  - unfold ft_weights. destruct t; [congruence | discriminate].
Qed.

(* the constructor's probs of a table with positive weights: w / Z, summing to 1 *)
Theorem ft_probs_normalised t : ft_positive t -> t <> [] ->
  ft_probs t = map (fun e => snd e / ft_Z t) t /\ qsum (ft_probs t) == 1.
Proof.
  intros P NE. unfold ft_probs. rewrite (existsb_qzero_false t P). split; [reflexivity|].
  pose proof (ft_Z_pos t P NE) as Zp.
  assert (A : forall l : table, qsum (map (fun e => snd e / ft_Z t) l) == qsum (map snd l) / ft_Z t).
  { induction l as [|e l IH]; simpl; [field; lra | rewrite IH; field; lra]. }
  rewrite A. change (qsum (map snd t)) with (ft_Z t). field. lra.
Qed.

Lemma product_positive t1 t2 : ft_nonneg t1 -> ft_nonneg t2 -> ft_positive (ft_product t1 t2).
Proof.
  intros N1 N2 r w I. destruct (product_rows t1 t2 r w I) as [r1 [r2 [I1 [I2 [M [E [Ew NZ]]]]]]].
  assert (A : forall t x, ft_nonneg t -> 0 <= ft_w t x).
  { clear. intros t x N. induction t as [|[r0 w0] t IH]; simpl; [apply Qle_refl|].
    destruct (row_eqb r0 x); [apply (N r0 w0); now left | apply IH; intros r' w' I; apply (N r' w'); now right]. }
  pose proof (A t1 r1 N1). pose proof (A t2 r2 N2).
  assert (0 <= w) by (rewrite Ew; apply Qmult_le_0_compat; auto).
  destruct (Qlt_le_dec 0 w) as [L|L]; [exact L|]. exfalso; apply NZ. lra.
Qed.

(* the product table is a normalised distribution whenever it has a row *)
Theorem product_normalised t1 t2 : ft_nonneg t1 -> ft_nonneg t2 -> ft_product t1 t2 <> [] ->
  qsum (ft_probs (ft_product t1 t2)) == 1 /\
  ft_probs (ft_product t1 t2) = map (fun e => snd e / ft_Z (ft_product t1 t2)) (ft_product t1 t2).
Proof.
  intros N1 N2 NE. destruct (ft_probs_normalised _ (product_positive t1 t2 N1 N2) NE). tauto.
Qed.

(* ================================================================== independent product *)
Section Independent.
Variables (K1 K2 : list key) (t1 t2 : table).
Hypothesis O1 : table_over K1 t1.
Hypothesis O2 : table_over K2 t2.
Hypothesis Disj : forall k, In k K1 -> ~ In k K2.
Hypothesis D1 : rows_distinct (ft_rows t1).
Hypothesis D2 : rows_distinct (ft_rows t2).

Lemma disjoint_match a b : In a (ft_rows t1) -> In b (ft_rows t2) -> dict_match a b = true.
Proof.
  intros Ia Ib. apply dict_match_spec. intros k v v' I G. exfalso.
  destruct (O1 a Ia) as [Ha _]. destruct (O2 b Ib) as [Hb _].
  apply (Disj k).
  - apply Ha. destruct (rget k a) eqn:E; [|discriminate].
    destruct (in_dec Nat.eq_dec k (map fst a)); [assumption|].
    apply rget_none in n. congruence.
  - apply Hb. change k with (fst (k, v)). now apply in_map.
Qed.

Lemma all_pairs_match p : In p (ppairs t1 t2) -> pmatch p = true.
Proof. destruct p as [a b]. intro I. apply in_prod_iff in I. apply disjoint_match; tauto. Qed.

Lemma pairs_merge_inj p p' : In p (ppairs t1 t2) -> In p' (ppairs t1 t2) -> req (mg p) (mg p') ->
  req (fst p) (fst p') /\ req (snd p) (snd p').
Proof.
  destruct p as [a b], p' as [a' b']. intros I I' E. unfold ppairs in *.
  apply in_prod_iff in I, I'. simpl.
  destruct (O1 a (proj1 I)) as [Ha _]. destruct (O1 a' (proj1 I')) as [Ha' _].
  destruct (O2 b (proj2 I)) as [Hb Wb]. destruct (O2 b' (proj2 I')) as [Hb' Wb'].
  apply (merge_inj K1 K2 a b a' b'); auto; apply disjoint_match; tauto.
Qed.

Lemma merges_distinct_gen R1 : (forall a, In a R1 -> In a (ft_rows t1)) -> rows_distinct R1 ->
  rows_distinct (map mg (list_prod R1 (ft_rows t2))).
Proof.
  induction R1 as [|a R1 IH]; intros Sub D; simpl; [exact I|].
  destruct D as [Da D]. rewrite map_app, map_map. apply rows_distinct_app. split; [|split].
  - apply (rows_distinct_map (fun b => mg (a, b))); [|exact D2].
    intros x y Ix Iy E.
    assert (Ia : In a (ft_rows t1)) by (apply Sub; now left).
    apply (pairs_merge_inj (a, x) (a, y)); auto; apply in_prod_iff; auto.
  - apply IH; auto. intros; apply Sub; now right.
  - intros r I. apply in_map_iff in I. destruct I as [b [<- Ib]].
    destruct (row_mem (mg (a, b)) (map mg (list_prod R1 (ft_rows t2)))) eqn:M; [|reflexivity]. exfalso.
    apply row_mem_spec in M. destruct M as [r' [I' E]]. apply in_map_iff in I'.
    destruct I' as [[a' b'] [<- Ip']].
    assert (Ia : In a (ft_rows t1)) by (apply Sub; now left).
    pose proof Ip' as Ip''. apply in_prod_iff in Ip''. destruct Ip'' as [Ia' Ib'].
    assert (Ia'' : In a' (ft_rows t1)) by (apply Sub; now right).
    destruct (pairs_merge_inj (a, b) (a', b')) as [Ea _]; auto; try (apply in_prod_iff; auto).
    simpl in Ea.
    assert (row_mem a R1 = true) by (apply row_mem_spec; exists a'; auto). congruence.
Qed.

Lemma merges_distinct : rows_distinct (map mg (ppairs t1 t2)).
Proof. apply merges_distinct_gen; auto. Qed.

Definition pentry (p : row * row) : row * Q := (mg p, pw t1 t2 p).
Definition pnz (p : row * row) : bool := negb (qzero (pw t1 t2 p)).

Lemma prod_fold_nodup ps : forall acc,
  (forall p, In p ps -> pmatch p = true) ->
  rows_distinct (ft_rows acc ++ map mg ps) ->
  fold_left (prod_step t1 t2) ps acc = acc ++ map pentry (filter pnz ps).
Proof.
  induction ps as [|p ps IH]; intros acc M D; simpl.
  - now rewrite app_nil_r.
  - unfold prod_step at 2.
    change (dict_match (fst p) (snd p)) with (pmatch p).
    change (dict_merge (fst p) (snd p)) with (mg p).
    change (ft_w t1 (fst p) * ft_w t2 (snd p)) with (pw t1 t2 p).
    rewrite (M p) by now left.
    assert (Mem : row_mem (mg p) (ft_rows acc) = false).
    { apply row_mem_false. intros r' I. rewrite row_eqb_sym.
      simpl in D. apply rows_distinct_app in D. destruct D as [_ [_ D]].
      specialize (D r' I). simpl in D. apply orb_false_iff in D. tauto. }
    rewrite Mem. unfold pnz at 1. destruct (qzero (pw t1 t2 p)) eqn:Zr; simpl.
    + apply IH; [intros; apply M; now right|]. simpl in D. now apply rows_distinct_remove in D.
    + rewrite IH.
      * rewrite <- app_assoc. reflexivity.
      * intros; apply M; now right.
      * rewrite ft_rows_app. simpl. rewrite <- app_assoc. exact D.
Qed.

Lemma product_independent_table :
  ft_product t1 t2 = map pentry (filter pnz (ppairs t1 t2)).
Proof.
  unfold ft_product. fold (ppairs t1 t2).
  rewrite prod_fold_nodup; [reflexivity | apply all_pairs_match | simpl; apply merges_distinct].
Qed.

Lemma qsum_filter_nz {A} (f : A -> Q) l :
  qsum (map f (filter (fun x => negb (qzero (f x))) l)) == qsum (map f l).
Proof.
  induction l as [|x t IH]; simpl; [reflexivity|].
  destruct (qzero (f x)) eqn:Zr; simpl; rewrite IH; [|reflexivity].
  apply qzero_spec in Zr. rewrite Zr. ring.
Qed.

Lemma qsum_prod (f g : row -> Q) R1 R2 :
  qsum (map (fun p => f (fst p) * g (snd p)) (list_prod R1 R2)) == qsum (map f R1) * qsum (map g R2).
Proof.
  induction R1 as [|a R1 IH]; simpl; [ring|].
  rewrite map_app, qsum_app, IH, map_map. simpl.
  assert (A : qsum (map (fun x => f a * g x) R2) == f a * qsum (map g R2)).
  { clear. induction R2 as [|b R2 IH]; simpl; [ring | rewrite IH; ring]. }
  rewrite A. ring.
Qed.

Lemma product_independent_Z : ft_Z (ft_product t1 t2) == ft_Z t1 * ft_Z t2.
Proof.
  rewrite product_independent_table. unfold ft_Z, ft_weights. rewrite map_map. simpl.
  unfold pnz. rewrite (qsum_filter_nz (pw t1 t2)). unfold ppairs, pw.
  rewrite (qsum_prod (ft_w t1) (ft_w t2)).
  rewrite (map_ft_w_own t1 D1), (map_ft_w_own t2 D2). reflexivity.
Qed.

(* INDEPENDENT TABLES (disjoint variables) COMBINE INTO THE PRODUCT MEASURE *)
Theorem product_independent_thm :
  ft_Z (ft_product t1 t2) == ft_Z t1 * ft_Z t2 /\
  forall r1 w1 r2 w2, In (r1, w1) t1 -> In (r2, w2) t2 ->
    dict_match r1 r2 = true /\
    ft_w (ft_product t1 t2) (dict_merge r1 r2) == w1 * w2 /\
    (0 < ft_Z t1 -> 0 < ft_Z t2 ->
     ft_w (ft_product t1 t2) (dict_merge r1 r2) / ft_Z (ft_product t1 t2) == (w1 / ft_Z t1) * (w2 / ft_Z t2)).
Proof.
  split; [apply product_independent_Z|].
  intros r1 w1 r2 w2 I1 I2.
  assert (J1 : In r1 (ft_rows t1)) by (change r1 with (fst (r1, w1)); now apply in_map).
  assert (J2 : In r2 (ft_rows t2)) by (change r2 with (fst (r2, w2)); now apply in_map).
  pose proof (disjoint_match r1 r2 J1 J2) as M.
  assert (W : ft_w (ft_product t1 t2) (dict_merge r1 r2) == w1 * w2).
  { rewrite (product_weight_pair t1 t2 (coherent_over K1 K2 t1 t2 O1 O2) (r1, r2)); auto.
    - unfold pw; simpl. now rewrite (ft_w_own t1 r1 w1 D1 I1), (ft_w_own t2 r2 w2 D2 I2).
    - apply in_prod_iff; auto. }
  split; [exact M|]. split; [exact W|].
  intros Z1 Z2. rewrite W, product_independent_Z. field. lra.
Qed.
End Independent.

(* ================================================================== scaling *)
Lemma ft_rows_scale c t : ft_rows (ft_scale c t) = ft_rows t.
Proof. unfold ft_rows, ft_scale. rewrite map_map. reflexivity. Qed.

Lemma ft_w_scale c t r : ft_w (ft_scale c t) r == ft_w t r * c.
Proof.
  induction t as [|[r0 w] t IH]; simpl; [ring|].
  destruct (row_eqb r0 r); [reflexivity | exact IH].
Qed.

Lemma ft_Z_scale c t : ft_Z (ft_scale c t) == ft_Z t * c.
Proof.
  unfold ft_Z, ft_weights, ft_scale. rewrite map_map. simpl.
  rewrite (qsum_map_scale (fun e : row * Q => snd e) c t). reflexivity.
Qed.

Lemma ft_w_div c t r : ft_w (ft_div c t) r == ft_w t r / c.
Proof.
  induction t as [|[r0 w] t IH]; simpl; [unfold Qdiv; ring|].
  destruct (row_eqb r0 r); [reflexivity | exact IH].
Qed.

(* t * c keeps the rows and multiplies every weight by c (logit + log c) *)
Theorem scale_def_thm c t :
  ft_rows (ft_scale c t) = ft_rows t /\
  (forall r, ft_w (ft_scale c t) r == ft_w t r * c) /\
  ft_Z (ft_scale c t) == ft_Z t * c /\
  (forall r, ft_w (ft_div c t) r == ft_w t r / c).
Proof.
  split; [apply ft_rows_scale|]. split; [apply ft_w_scale|]. split; [apply ft_Z_scale | apply ft_w_div].
Qed.

Lemma ft_Z_normalize t : ~ ft_Z t == 0 -> ft_Z (ft_normalize t) == 1.
Proof.
  intro NZ. unfold ft_normalize, ft_div, ft_Z at 1, ft_weights. rewrite map_map. simpl.
  assert (A : forall l : table, qsum (map (fun e => snd e / ft_Z t) l) == qsum (map snd l) / ft_Z t).
  { induction l as [|e l IH]; simpl; [field; auto | rewrite IH; field; auto]. }
  rewrite A. change (qsum (map snd t)) with (ft_Z t). field. auto.
Qed.

(* ================================================================== marginalisation *)
Lemma ft_w_tab_add m w acc r :
  ft_w (tab_add m w acc) r == ft_w acc r + (if row_eqb m r then w else 0).
Proof.
  induction acc as [|[r0 x] t IH]; simpl.
  - destruct (row_eqb m r); ring.
  - destruct (row_eqb r0 m) eqn:E0; simpl.
    + apply row_eqb_spec in E0. rewrite (row_eqb_req_l r0 m r E0).
      destruct (row_eqb m r); ring.
    + destruct (row_eqb r0 r) eqn:E1.
      * destruct (row_eqb m r) eqn:E2; [|ring]. exfalso.
        apply row_eqb_spec in E1, E2. apply row_eqb_false in E0. apply E0.
        rewrite E1. now symmetry.
      * exact IH.
Qed.

Lemma ft_Z_tab_add m w acc : ft_Z (tab_add m w acc) == ft_Z acc + w.
Proof.
  unfold ft_Z, ft_weights. induction acc as [|[r0 x] t IH]; simpl; [ring|].
  destruct (row_eqb r0 m); simpl; [ring | rewrite IH; ring].
Qed.

Lemma ft_rows_tab_add m w acc :
  ft_rows (tab_add m w acc) = if row_mem m (ft_rows acc) then ft_rows acc else ft_rows acc ++ [m].
Proof.
  induction acc as [|[r0 x] t IH]; simpl; [reflexivity|].
  rewrite (row_eqb_sym m r0). destruct (row_eqb r0 m); simpl; [reflexivity|].
  rewrite IH. destruct (row_mem m (ft_rows t)); reflexivity.
Qed.

Lemma tab_add_distinct m w acc : rows_distinct (ft_rows acc) -> rows_distinct (ft_rows (tab_add m w acc)).
Proof.
  intro D. rewrite ft_rows_tab_add. destruct (row_mem m (ft_rows acc)) eqn:M; [exact D|].
  apply rows_distinct_app. repeat split; auto.
  intros r I. simpl. rewrite orb_false_r, row_eqb_sym. apply (proj1 (row_mem_false _ _) M); auto.
Qed.

Section MargFold.
Variables (f : row * Q -> row) (g : row * Q -> Q).
Let step := fun (acc : table) (e : row * Q) => tab_add (f e) (g e) acc.

Lemma marg_fold_w l : forall acc r,
  ft_w (fold_left step l acc) r == ft_w acc r + qsum (map (fun e => if row_eqb (f e) r then g e else 0) l).
Proof.
  induction l as [|e l IH]; intros acc r; simpl; [ring|].
  rewrite IH. unfold step. rewrite ft_w_tab_add. ring.
Qed.

Lemma marg_fold_Z l : forall acc, ft_Z (fold_left step l acc) == ft_Z acc + qsum (map g l).
Proof.
  induction l as [|e l IH]; intros acc; simpl; [ring|].
  rewrite IH. unfold step. rewrite ft_Z_tab_add. ring.
Qed.

Lemma marg_fold_distinct l : forall acc, rows_distinct (ft_rows acc) -> rows_distinct (ft_rows (fold_left step l acc)).
Proof.
  induction l as [|e l IH]; intros acc D; simpl; [exact D|]. apply IH. now apply tab_add_distinct.
Qed.
End MargFold.

(* the marginal weight of an assignment m of the kept variables is the sum of the weights of
   the rows that restrict to m; total mass is preserved; each marginal row is listed once *)
Theorem marginalize_sums_thm ks t : rows_distinct (ft_rows t) ->
  (forall m, ft_w (ft_marginalize ks t) m ==
             qsum (map (fun e => if row_eqb (restrict ks (fst e)) m then snd e else 0) t)) /\
  ft_Z (ft_marginalize ks t) == ft_Z t /\
  rows_distinct (ft_rows (ft_marginalize ks t)).
Proof.
  intro D. unfold ft_marginalize. split; [|split].
  - intro m. rewrite (marg_fold_w (fun e => restrict ks (fst e)) (fun e => ft_w t (fst e))). simpl.
    rewrite Qplus_0_l. apply qsum_map_ext. intros [r w] I. simpl.
    rewrite (ft_w_own t r w D I). reflexivity.
  - rewrite (marg_fold_Z (fun e => restrict ks (fst e)) (fun e => ft_w t (fst e))).
    unfold ft_Z at 1. simpl. rewrite Qplus_0_l. unfold ft_Z, ft_weights.
    apply qsum_map_ext. intros [r w] I. simpl. rewrite (ft_w_own t r w D I). reflexivity.
  - apply (marg_fold_distinct (fun e => restrict ks (fst e)) (fun e => ft_w t (fst e))). exact I.
Qed.

(* ================================================================== mixture *)
Lemma rget_in_wf k v r : row_wf r -> In (k, v) r -> rget k r = Some v.
Proof.
  unfold row_wf. induction r as [|[k0 v0] t IH]; simpl; intros W I; [destruct I|].
  inversion W as [|? ? Hn Hd]; subst. destruct I as [I|I].
  - inversion I; subst. now rewrite Nat.eqb_refl.
  - destruct (Nat.eqb_spec k k0) as [->|Hne]; [|auto].
    exfalso; apply Hn. change k0 with (fst (k0, v)). now apply in_map.
Qed.

Section Mix.
Variables (K : list key) (t1 t2 : table).
Hypothesis O1 : table_over K t1.
Hypothesis O2 : table_over K t2.

Definition mixW (r : row) : Q := ft_w t1 r + ft_w t2 r.

Lemma mixW_req r r' : req r r' -> mixW r = mixW r'.
Proof. intro E. unfold mixW. now rewrite (ft_w_req t1 _ _ E), (ft_w_req t2 _ _ E). Qed.

Lemma same_keys_match a b : In a (ft_rows t1) -> In b (ft_rows t2) ->
  (dict_match a b = true <-> req a b).
Proof.
  intros Ia Ib. destruct (O1 a Ia) as [Ha Wa]. destruct (O2 b Ib) as [Hb Wb]. split.
  - intros M k. destruct (in_dec Nat.eq_dec k K) as [I|N].
    + destruct (rget_in_keys k a (proj1 (Ha k) I)) as [v G].
      destruct (rget_in_keys k b (proj1 (Hb k) I)) as [v' G'].
      rewrite G, G'. f_equal. eapply dict_match_agree; eauto.
    + assert (rget k a = None) by (apply rget_none; intro; apply N, Ha; auto).
      assert (rget k b = None) by (apply rget_none; intro; apply N, Hb; auto). congruence.
  - intro E. apply dict_match_spec. intros k v v' I G.
    pose proof (rget_in_wf k v b Wb I) as G'. rewrite E in G. congruence.
Qed.

Lemma merge_req_l a b : row_wf b -> req a b -> req (dict_merge a b) a.
Proof.
  intros Wb E k. rewrite rget_merge by assumption. rewrite <- E. destruct (rget k a); reflexivity.
Qed.

Definition covered (st : mixst) (x : row) : Prop :=
  row_mem x (mx_matched st) = true \/ In x (mx_unmatched st).

Record mix_inv (seen : list (row * row)) (st : mixst) : Prop := {
  mi_distinct : rows_distinct (ft_rows (mx_tab st));
  mi_weight : forall r w, In (r, w) (mx_tab st) -> w = mixW r /\ ~ w == 0;
  mi_matched : forall m, In m (mx_matched st) -> row_mem m (ft_rows (mx_tab st)) = true \/ mixW m == 0;
  mi_covered : forall p, In p seen -> covered st (fst p) /\ covered st (snd p) }.

Lemma covered_mono st st' x :
  (forall y, row_mem y (mx_matched st) = true -> row_mem y (mx_matched st') = true) ->
  (forall y, In y (mx_unmatched st) -> In y (mx_unmatched st')) ->
  covered st x -> covered st' x.
Proof. intros A B [C|C]; [left | right]; auto. Qed.

Lemma mix_step_inv seen st p : In p (ppairs t1 t2) ->
  mix_inv seen st -> mix_inv (seen ++ [p]) (mix_step t1 t2 st p).
Proof.
  intros Ip [D Wt Mt Cv]. destruct p as [a b]. apply in_prod_iff in Ip. destruct Ip as [Ia Ib].
  destruct (O2 b Ib) as [Hb Wb].
  unfold mix_step. simpl fst; simpl snd.
  destruct (dict_match a b) eqn:M.
  - pose proof (proj1 (same_keys_match a b Ia Ib) M) as E.
    pose proof (merge_req_l a b Wb E) as Ema.
    assert (Emb : req (dict_merge a b) b) by (rewrite Ema; exact E).
    assert (MonoM : forall l y, row_mem y l = true -> row_mem y (l ++ [a; b]) = true).
    { intros l y Hy. rewrite row_mem_app, Hy. reflexivity. }
    assert (CovNew : forall tab unm x, (x = a \/ x = b) -> covered (mkMix tab (mx_matched st ++ [a; b]) unm) x).
    { intros tab unm x Hx. left. simpl. rewrite row_mem_app. apply orb_true_iff. right.
      destruct Hx as [->| ->]; simpl; rewrite row_eqb_refl; simpl; auto using orb_true_r. }
    assert (CovAll : forall tab, forall q, In q (seen ++ [(a, b)]) ->
              covered (mkMix tab (mx_matched st ++ [a; b]) (mx_unmatched st)) (fst q) /\
              covered (mkMix tab (mx_matched st ++ [a; b]) (mx_unmatched st)) (snd q)).
    { intros tab q Iq. apply in_app_or in Iq. destruct Iq as [Iq|[<-|[]]].
      - destruct (Cv q Iq) as [C1 C2]. split; (eapply covered_mono; [| |eassumption]); simpl; auto.
      - simpl. split; apply CovNew; auto. }
    destruct (row_mem (dict_merge a b) (ft_rows (mx_tab st))) eqn:Mem.
    + split; simpl; auto.
      intros m Im. apply in_app_or in Im. destruct Im as [Im|[<-|[<-|[]]]]; auto; left.
      * rewrite <- (row_mem_req _ _ _ Ema). exact Mem.
      * rewrite <- (row_mem_req _ _ _ Emb). exact Mem.
    + destruct (qzero (ft_w t1 a + ft_w t2 b)) eqn:Zr.
      * apply qzero_spec in Zr. split; simpl; auto.
        intros m Im. apply in_app_or in Im. destruct Im as [Im|[<-|[<-|[]]]]; auto; right; unfold mixW.
        -- rewrite (ft_w_req t2 a b E). exact Zr.
        -- rewrite (ft_w_req t1 b a (req_sym _ _ E)). exact Zr.
      * apply qzero_false in Zr. split; simpl.
        -- rewrite ft_rows_app. apply rows_distinct_app. repeat split; auto.
           intros r I. simpl. rewrite orb_false_r, row_eqb_sym. apply (proj1 (row_mem_false _ _) Mem); auto.
        -- intros r w I. apply in_app_or in I. destruct I as [I|[I|[]]]; [auto|].
           inversion I; subst. split; [|exact Zr]. unfold mixW.
           now rewrite (ft_w_req t1 _ _ Ema), (ft_w_req t2 _ _ Emb).
        -- intros m Im. rewrite ft_rows_app, row_mem_app.
           apply in_app_or in Im. destruct Im as [Im|[<-|[<-|[]]]].
           ++ destruct (Mt m Im) as [X|X]; [left; rewrite X; reflexivity | right; exact X].
           ++ left. apply orb_true_iff. right. simpl. rewrite orb_false_r, <- (row_eqb_req_l _ _ _ Ema).
              apply row_eqb_refl.
           ++ left. apply orb_true_iff. right. simpl. rewrite orb_false_r, <- (row_eqb_req_l _ _ _ Emb).
              apply row_eqb_refl.
        -- apply CovAll.
  - split; simpl; auto.
    intros q Iq. apply in_app_or in Iq. destruct Iq as [Iq|[<-|[]]].
    + destruct (Cv q Iq) as [C1 C2]. split; (eapply covered_mono; [| |eassumption]); simpl; auto;
        intros; apply in_or_app; now left.
    + simpl. split; right; simpl; apply in_or_app; right; simpl; auto.
Qed.

Lemma mix_fold_inv ps : forall seen st, (forall p, In p ps -> In p (ppairs t1 t2)) ->
  mix_inv seen st -> mix_inv (seen ++ ps) (fold_left (mix_step t1 t2) ps st).
Proof.
  induction ps as [|p ps IH]; intros seen st Sub H; simpl.
  - now rewrite app_nil_r.
  - replace (seen ++ p :: ps) with ((seen ++ [p]) ++ ps) by (rewrite <- app_assoc; reflexivity).
    apply IH; [intros; apply Sub; now right|]. apply mix_step_inv; [apply Sub; now left | exact H].
Qed.

(* second loop *)
Record outer_inv (matched done : list row) (acc : table) : Prop := {
  oi_distinct : rows_distinct (ft_rows acc);
  oi_weight : forall r w, In (r, w) acc -> w = mixW r /\ ~ w == 0;
  oi_matched : forall m, In m matched -> row_mem m (ft_rows acc) = true \/ mixW m == 0;
  oi_done : forall u, In u done -> row_mem u (ft_rows acc) = true \/ mixW u == 0 }.

Lemma mix_outer_inv matched done acc i :
  outer_inv matched done acc -> outer_inv matched (done ++ [i]) (mix_outer t1 t2 matched acc i).
Proof.
  intros [D Wt Mt Dn]. unfold mix_outer. fold (mixW i).
  destruct (row_mem i matched) eqn:M1; simpl.
  - split; auto. intros u Iu. apply in_app_or in Iu. destruct Iu as [Iu|[<-|[]]]; auto.
    apply row_mem_spec in M1. destruct M1 as [m [Im E]].
    destruct (Mt m Im) as [X|X]; [left; now rewrite (row_mem_req _ _ _ E) | right; now rewrite (mixW_req _ _ E)].
  - destruct (row_mem i (ft_rows acc)) eqn:M2; simpl.
    + split; auto. intros u Iu. apply in_app_or in Iu. destruct Iu as [Iu|[<-|[]]]; auto.
    + destruct (qzero (mixW i)) eqn:Zr.
      * apply qzero_spec in Zr. split; auto.
        intros u Iu. apply in_app_or in Iu. destruct Iu as [Iu|[<-|[]]]; auto.
      * apply qzero_false in Zr. split.
        -- rewrite ft_rows_app. apply rows_distinct_app. repeat split; auto.
           intros r I. simpl. rewrite orb_false_r, row_eqb_sym. apply (proj1 (row_mem_false _ _) M2); auto.
        -- intros r w I. apply in_app_or in I. destruct I as [I|[I|[]]]; [auto|]. inversion I; subst. auto.
        -- intros m Im. rewrite ft_rows_app, row_mem_app.
           destruct (Mt m Im) as [X|X]; [left; rewrite X; reflexivity | right; exact X].
        -- intros u Iu. rewrite ft_rows_app, row_mem_app. apply in_app_or in Iu. destruct Iu as [Iu|[<-|[]]].
           ++ destruct (Dn u Iu) as [X|X]; [left; rewrite X; reflexivity | right; exact X].
           ++ left. simpl. rewrite row_eqb_refl. simpl. apply orb_true_r.
Qed.

Lemma mix_outer_fold matched us : forall done acc,
  outer_inv matched done acc -> outer_inv matched (done ++ us) (fold_left (mix_outer t1 t2 matched) us acc).
Proof.
  induction us as [|u us IH]; intros done acc H; simpl.
  - now rewrite app_nil_r.
  - replace (done ++ u :: us) with ((done ++ [u]) ++ us) by (rewrite <- app_assoc; reflexivity).
    apply IH. now apply mix_outer_inv.
Qed.

(* MIXTURE OF TWO TABLES OVER THE SAME VARIABLES ADDS THEIR WEIGHTS ROW BY ROW *)
Theorem mix_adds_thm :
  (forall r, ft_w (ft_mix t1 t2) r == ft_w t1 r + ft_w t2 r) /\
  (t1 <> [] -> t2 <> [] ->
   rows_distinct (ft_rows (ft_mix t1 t2)) /\ forall r w, In (r, w) (ft_mix t1 t2) -> ~ w == 0).
Proof.
  destruct t1 as [|e1 t1'] eqn:Et1; [split; [intro r; simpl; destruct t2; simpl; ring | congruence]|].
  destruct t2 as [|e2 t2'] eqn:Et2; [split; [intro r; simpl; ring | congruence]|].
  rewrite <- Et1, <- Et2 in *.
  assert (Emix : ft_mix t1 t2 =
    let st := fold_left (mix_step t1 t2) (ppairs t1 t2) (mkMix [] [] []) in
    fold_left (mix_outer t1 t2 (mx_matched st)) (mx_unmatched st) (mx_tab st)).
  { rewrite Et1, Et2. reflexivity. }
  set (st := fold_left (mix_step t1 t2) (ppairs t1 t2) (mkMix [] [] [])) in *.
  assert (H1 : mix_inv (ppairs t1 t2) st).
  { change (ppairs t1 t2) with ([] ++ ppairs t1 t2) at 1. apply mix_fold_inv; [auto|].
    split; simpl; [exact I | intros r w [] | intros m [] | intros p []]. }
  destruct H1 as [D Wt Mt Cv].
  assert (H2 : outer_inv (mx_matched st) (mx_unmatched st) (ft_mix t1 t2)).
  { rewrite Emix. simpl. change (mx_unmatched st) with ([] ++ mx_unmatched st) at 1.
    apply mix_outer_fold. split; auto; intros u []. }
  destruct H2 as [D' Wt' Mt' Dn'].
  split.
  - intro r. fold (mixW r).
    destruct (row_mem r (ft_rows (ft_mix t1 t2))) eqn:Mem.
    + apply row_mem_spec in Mem. destruct Mem as [r' [I E]].
      apply in_map_iff in I. destruct I as [[r0 w] [<- I]]. simpl in E.
      rewrite (ft_w_req _ _ _ E), (ft_w_own _ _ _ D' I), (mixW_req _ _ E).
      destruct (Wt' r0 w I) as [-> _]. reflexivity.
    + rewrite (ft_w_absent _ _ Mem).
      assert (Key : forall x, req r x -> (In x (ft_rows t1) \/ In x (ft_rows t2)) -> mixW r == 0).
      { intros x E Ix.
        assert (Cx : covered st x).
        { destruct Ix as [Ix|Ix].
          - destruct (ft_rows t2) as [|b0 R2] eqn:ER2; [rewrite Et2 in ER2; discriminate|].
            assert (Ip : In (x, b0) (ppairs t1 t2)) by (unfold ppairs; rewrite ER2; apply in_prod_iff; split; [auto | now left]).
            exact (proj1 (Cv _ Ip)).
          - destruct (ft_rows t1) as [|a0 R1] eqn:ER1; [rewrite Et1 in ER1; discriminate|].
            assert (Ip : In (a0, x) (ppairs t1 t2)) by (unfold ppairs; rewrite ER1; apply in_prod_iff; split; [now left | auto]).
            exact (proj2 (Cv _ Ip)). }
        rewrite (mixW_req _ _ E).
        destruct Cx as [Cx|Cx].
        - apply row_mem_spec in Cx. destruct Cx as [m [Im Em]].
          destruct (Mt' m Im) as [X|X].
          + rewrite <- (row_mem_req _ _ _ Em), <- (row_mem_req _ _ _ E) in X. congruence.
          + now rewrite (mixW_req _ _ Em).
        - destruct (Dn' x Cx) as [X|X]; [|exact X].
          rewrite <- (row_mem_req _ _ _ E) in X. congruence. }
      destruct (row_mem r (ft_rows t1)) eqn:M1.
      * apply row_mem_spec in M1. destruct M1 as [x [Ix E]]. symmetry. apply (Key x E). now left.
      * destruct (row_mem r (ft_rows t2)) eqn:M2.
        -- apply row_mem_spec in M2. destruct M2 as [x [Ix E]]. symmetry. apply (Key x E). now right.
        -- unfold mixW. rewrite (ft_w_absent _ _ M1), (ft_w_absent _ _ M2). ring.
  - intros _ _. split; [exact D'|]. intros r w I. exact (proj2 (Wt' r w I)).
Qed.
End Mix.

(* ================================================================== non-vacuity *)
(* concrete tables satisfying the hypotheses of the theorems above (msdm's own test tables) *)
Definition ex_A : table := [([(0%nat, 0%Z)], 9 # 10); ([(0%nat, 1%Z)], 1 # 10)].
Definition ex_B : table := [([(1%nat, 0%Z)], 1 # 2); ([(1%nat, 1%Z)], 1 # 2)].
Definition ex_AB : table := [([(0%nat, 0%Z); (1%nat, 0%Z)], 9 # 10); ([(0%nat, 1%Z); (1%nat, 1%Z)], 1 # 10)].
Definition ex_BC : table :=
  [([(1%nat, 0%Z); (2%nat, 0%Z)], 1 # 3); ([(1%nat, 1%Z); (2%nat, 0%Z)], 1 # 3); ([(1%nat, 1%Z); (2%nat, 1%Z)], 1 # 3)].
Definition ex_A2 : table := [([(0%nat, 1%Z)], 1 # 2); ([(0%nat, 2%Z)], 1 # 2)].

Ltac solve_over :=
  intros r I; simpl in I;
  repeat (destruct I as [<-|I]; [split; [intro k; simpl; intuition | unfold row_wf; simpl; repeat constructor; simpl; intuition discriminate]|]);
  destruct I.

Example ex_A_over : table_over [0%nat] ex_A. Proof. solve_over. Qed.
Example ex_B_over : table_over [1%nat] ex_B. Proof. solve_over. Qed.
Example ex_AB_over : table_over [0%nat; 1%nat] ex_AB. Proof. solve_over. Qed.
Example ex_BC_over : table_over [1%nat; 2%nat] ex_BC. Proof. solve_over. Qed.
Example ex_A2_over : table_over [0%nat] ex_A2. Proof. solve_over. Qed.

(* independent product: hypotheses hold and the conclusion is the 2 x 2 product measure *)
Example product_independent_nonvacuous :
  table_over [0%nat] ex_A /\ table_over [1%nat] ex_B /\ (forall k, In k [0%nat] -> ~ In k [1%nat]) /\
  rows_distinct (ft_rows ex_A) /\ rows_distinct (ft_rows ex_B) /\
  map snd (ft_product ex_A ex_B) = [(9 # 10) * (1 # 2); (9 # 10) * (1 # 2); (1 # 10) * (1 # 2); (1 # 10) * (1 # 2)].
Proof.
  split; [exact ex_A_over|]. split; [exact ex_B_over|]. split; [simpl; intuition lia|].
  split; [vm_compute; tauto|]. split; [vm_compute; tauto|]. reflexivity.
Qed.

(* overlapping variables: the dependent-conjunction example of msdm's tests: only the matching rows survive *)
Example product_natural_join_nonvacuous :
  table_over [0%nat; 1%nat] ex_AB /\ table_over [1%nat; 2%nat] ex_BC /\
  map snd (ft_product ex_AB ex_BC) = [(9 # 10) * (1 # 3); (1 # 10) * (1 # 3); (1 # 10) * (1 # 3)] /\
  ft_nonneg ex_AB /\ ft_nonneg ex_BC /\ ft_product ex_AB ex_BC <> [].
Proof.
  split; [exact ex_AB_over|]. split; [exact ex_BC_over|]. split; [reflexivity|].
  split; [|split; [|discriminate]]; intros r w I; simpl in I;
    repeat (destruct I as [I|I]; [inversion I; subst; discriminate|]); destruct I.
Qed.

(* mixture over the same variable: weights add on the shared row *)
Example mix_adds_nonvacuous :
  table_over [0%nat] (ft_scale (1 # 10) ex_A) /\ table_over [0%nat] (ft_scale (9 # 10) ex_A2) /\
  Qeq_bool (ft_w (ft_mix (ft_scale (1 # 10) ex_A) (ft_scale (9 # 10) ex_A2)) [(0%nat, 1%Z)])
           ((1 # 10) * (1 # 10) + (1 # 2) * (9 # 10)) = true /\
  length (ft_mix (ft_scale (1 # 10) ex_A) (ft_scale (9 # 10) ex_A2)) = 3%nat.
Proof.
  split; [solve_over|]. split; [solve_over|]. split; reflexivity.
Qed.

Example marginalize_nonvacuous :
  rows_distinct (ft_rows ex_BC) /\
  map (fun e => Qred (snd e)) (ft_marginalize [1%nat] ex_BC) = [1 # 3; 2 # 3].
Proof. split; [vm_compute; tauto | reflexivity]. Qed.

(* ================================================================== more general facts (used by the grid game) *)
Lemma match_same_keys K a b : has_keys K a -> has_keys K b -> row_wf b ->
  (dict_match a b = true <-> req a b).
Proof.
  intros Ha Hb Wb. split.
  - intros M k. destruct (in_dec Nat.eq_dec k K) as [I|N].
    + destruct (rget_in_keys k a (proj1 (Ha k) I)) as [v G].
      destruct (rget_in_keys k b (proj1 (Hb k) I)) as [v' G'].
      rewrite G, G'. f_equal. eapply dict_match_agree; eauto.
    + assert (rget k a = None) by (apply rget_none; intro; apply N, Ha; auto).
      assert (rget k b = None) by (apply rget_none; intro; apply N, Hb; auto). congruence.
  - intro E. apply dict_match_spec. intros k v v' I G.
    pose proof (rget_in_wf k v b Wb I) as G'. rewrite E in G. congruence.
Qed.

Lemma keys_merge l r k : In k (map fst (dict_merge l r)) <-> In k (map fst l) \/ In k (map fst r).
Proof.
  assert (A : forall x (s : row), In x (map fst s) <-> rget x s <> None).
  { intros x s. rewrite rget_none. destruct (in_dec Nat.eq_dec x (map fst s)); tauto. }
  rewrite !A, rget_merge_gen.
  assert (B : rget k (rev r) <> None <-> rget k r <> None).
  { rewrite <- !A, map_rev, <- in_rev. tauto. }
  destruct (rget k (rev r)) eqn:E.
  - split; [intros _; right; apply B; congruence | intros _; congruence].
  - split; [intro H; now left | intros [H|H]; [exact H | apply B in H; congruence]].
Qed.

Lemma ft_w_nonneg t x : ft_nonneg t -> 0 <= ft_w t x.
Proof.
  intro N. induction t as [|[r0 w0] t IH]; simpl; [apply Qle_refl|].
  destruct (row_eqb r0 x); [apply (N r0 w0); now left | apply IH; intros r' w' I; apply (N r' w'); now right].
Qed.

Lemma ft_w_pos_mem t x : ~ ft_w t x == 0 -> exists r w, In (r, w) t /\ req r x /\ w = ft_w t x.
Proof.
  induction t as [|[r0 w0] t IH]; simpl; intro H; [exfalso; apply H; reflexivity|].
  destruct (row_eqb r0 x) eqn:E.
  - exists r0, w0. split; [now left|]. split; [now apply row_eqb_spec | reflexivity].
  - destruct (IH H) as [r [w [I [E' W]]]]. exists r, w. split; [now right | auto].
Qed.

(* where the rows of a mixture come from, and their weights (no assumption on the variables) *)
Section MixRows.
Variables t1 t2 : table.

Definition mix_row_ok (r : row) (w : Q) : Prop :=
  ~ w == 0 /\
  ((exists a b, In a (ft_rows t1) /\ In b (ft_rows t2) /\ dict_match a b = true /\
                r = dict_merge a b /\ w = ft_w t1 a + ft_w t2 b) \/
   ((In r (ft_rows t1) \/ In r (ft_rows t2)) /\ w = ft_w t1 r + ft_w t2 r)).

Lemma mix_step_rows st p : In p (ppairs t1 t2) ->
  (forall r w, In (r, w) (mx_tab st) -> mix_row_ok r w) ->
  (forall u, In u (mx_unmatched st) -> In u (ft_rows t1) \/ In u (ft_rows t2)) ->
  (forall r w, In (r, w) (mx_tab (mix_step t1 t2 st p)) -> mix_row_ok r w) /\
  (forall u, In u (mx_unmatched (mix_step t1 t2 st p)) -> In u (ft_rows t1) \/ In u (ft_rows t2)).
Proof.
  intros Ip H1 H2. destruct p as [a b]. apply in_prod_iff in Ip. destruct Ip as [Ia Ib].
  unfold mix_step. simpl fst; simpl snd.
  destruct (dict_match a b) eqn:M.
  - destruct (row_mem (dict_merge a b) (ft_rows (mx_tab st))); simpl; [auto|].
    destruct (qzero (ft_w t1 a + ft_w t2 b)) eqn:Zr; simpl; [auto|].
    split; [|auto]. intros r w I. apply in_app_or in I. destruct I as [I|[I|[]]]; [auto|].
    inversion I; subst. split; [now apply qzero_false|]. left. exists a, b. auto.
  - simpl. split; [auto|]. intros u I. apply in_app_or in I.
    destruct I as [I|[<-|[<-|[]]]]; auto.
Qed.

Lemma mix_fold_rows ps : forall st, (forall p, In p ps -> In p (ppairs t1 t2)) ->
  (forall r w, In (r, w) (mx_tab st) -> mix_row_ok r w) ->
  (forall u, In u (mx_unmatched st) -> In u (ft_rows t1) \/ In u (ft_rows t2)) ->
  (forall r w, In (r, w) (mx_tab (fold_left (mix_step t1 t2) ps st)) -> mix_row_ok r w) /\
  (forall u, In u (mx_unmatched (fold_left (mix_step t1 t2) ps st)) -> In u (ft_rows t1) \/ In u (ft_rows t2)).
Proof.
  induction ps as [|p ps IH]; intros st Sub H1 H2; simpl; [auto|].
  destruct (mix_step_rows st p (Sub p (or_introl eq_refl)) H1 H2) as [A B].
  apply IH; auto. intros; apply Sub; now right.
Qed.

Lemma mix_outer_rows matched us : forall acc,
  (forall u, In u us -> In u (ft_rows t1) \/ In u (ft_rows t2)) ->
  (forall r w, In (r, w) acc -> mix_row_ok r w) ->
  forall r w, In (r, w) (fold_left (mix_outer t1 t2 matched) us acc) -> mix_row_ok r w.
Proof.
  induction us as [|u us IH]; intros acc Sub H; simpl; [exact H|].
  apply IH; [intros; apply Sub; now right|].
  unfold mix_outer. destruct (row_mem u matched || row_mem u (ft_rows acc)); [exact H|].
  destruct (qzero (ft_w t1 u + ft_w t2 u)) eqn:Zr; [exact H|].
  intros r w I. apply in_app_or in I. destruct I as [I|[I|[]]]; [auto|].
  inversion I; subst. split; [now apply qzero_false|]. right. split; [apply Sub; now left | reflexivity].
Qed.

Lemma mix_rows : t1 <> [] -> t2 <> [] -> forall r w, In (r, w) (ft_mix t1 t2) -> mix_row_ok r w.
Proof.
  intros N1 N2.
  assert (Emix : ft_mix t1 t2 =
    let st := fold_left (mix_step t1 t2) (ppairs t1 t2) (mkMix [] [] []) in
    fold_left (mix_outer t1 t2 (mx_matched st)) (mx_unmatched st) (mx_tab st)).
  { destruct t1; [congruence|]. destruct t2; [congruence|]. reflexivity. }
  rewrite Emix. simpl.
  destruct (mix_fold_rows (ppairs t1 t2) (mkMix [] [] [])) as [A B]; simpl; auto; try (intros ? ? []); try (intros ? []).
  apply mix_outer_rows; auto.
Qed.
End MixRows.

Lemma mix_nonneg t1 t2 : ft_nonneg t1 -> ft_nonneg t2 -> ft_nonneg (ft_mix t1 t2).
Proof.
  intros N1 N2. destruct t1 as [|e1 t1'] eqn:E1; [exact N2|]. destruct t2 as [|e2 t2'] eqn:E2; [exact N1|].
  rewrite <- E1, <- E2 in *. intros r w I.
  destruct (mix_rows t1 t2 (ltac:(rewrite E1; discriminate)) (ltac:(rewrite E2; discriminate)) r w I) as [_ [[a [b [_ [_ [_ [_ ->]]]]]]|[_ ->]]];
    pose proof (ft_w_nonneg t1); pose proof (ft_w_nonneg t2).
  - specialize (H a N1). specialize (H0 b N2). lra.
  - specialize (H r N1). specialize (H0 r N2). lra.
Qed.

Lemma scale_nonneg c t : 0 <= c -> ft_nonneg t -> ft_nonneg (ft_scale c t).
Proof.
  intros C N r w I. unfold ft_scale in I. apply in_map_iff in I. destruct I as [[r0 w0] [E I]].
  inversion E; subst. simpl. apply Qmult_le_0_compat; [eapply N; eauto | exact C].
Qed.

Lemma positive_nonneg t : ft_positive t -> ft_nonneg t.
Proof. intros P r w I. apply Qlt_le_weak, (P r w I). Qed.

(* lookup in a table built by tagging each row with a dictionary-invariant weight *)
Lemma ft_w_map (f : row -> Q) rows r :
  (forall x y, req x y -> f x = f y) -> In r rows -> ft_w (map (fun x => (x, f x)) rows) r = f r.
Proof.
  intros Fr. induction rows as [|x t IH]; simpl; intro I; [destruct I|].
  destruct (row_eqb x r) eqn:E; [apply Fr; now apply row_eqb_spec|].
  destruct I as [->|I]; [rewrite row_eqb_refl in E; discriminate | auto].
Qed.
