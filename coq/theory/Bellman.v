(* Bellman.v — contraction / residual / uniqueness / greedy-loss theory for the
   generic MDP model at the R instance.  All statements are for arbitrary
   nS, nA (no size bound). *)
From Coq Require Import Reals Lra Lia List Arith Bool.
From MSDM Require Import base.Num base.NumInst base.NumR model.MDP.
Local Open Scope R_scope.

Lemma finite_sup n (f : nat -> R) :
  exists D, 0 <= D /\ (forall i, (i < n)%nat -> Rabs (f i) <= D) /\
            (D = 0 \/ exists i, (i < n)%nat /\ Rabs (f i) = D).
Proof.
  induction n.
  - exists 0. split; [lra|]. split; [intros; lia|auto].
  - destruct IHn as (D & HD0 & HDle & HDat).
    destruct (Rle_dec (Rabs (f n)) D) as [Hle|Hgt].
    + exists D. split; [auto|]. split.
      * intros i Hi. destruct (Nat.eq_dec i n); [subst; auto|apply HDle; lia].
      * destruct HDat as [|(i & Hi & He)]; [auto|right; exists i; split; [lia|auto]].
    + exists (Rabs (f n)). split; [apply Rabs_pos|]. split.
      * intros i Hi. destruct (Nat.eq_dec i n); [subst; lra|].
        eapply Rle_trans; [apply HDle; lia|lra].
      * right; exists n; split; [lia|reflexivity].
Qed.

Section Theory.
Variable m : mdp R.

(* well-formedness of the (masked) model: what tabularmdp guarantees for a
   proper MDP definition; masked rows are all-zero, hence "sub-stochastic" *)
Record wf : Prop := {
  wf_gamma0 : 0 <= gamma m;
  wf_gamma1 : gamma m <= 1;
  wf_Pnn : forall s a ns, (s < nS m)%nat -> (a < nA m)%nat -> (ns < nS m)%nat -> 0 <= Pm m s a ns;
  wf_Psub : forall s a, (s < nS m)%nat -> (a < nA m)%nat -> sumf (nS m) (Pm m s a) <= 1;
  wf_act : forall s, (s < nS m)%nat -> exists a, (a < nA m)%nat /\ avail m s a = true
}.

Definition Top (V : nat -> R) (s : nat) : R := odflt 0 (backup m V s).

Lemma backup_some V s : wf -> (s < nS m)%nat -> backup m V s = Some (Top V s).
Proof.
  intros W Hs. unfold Top. destruct (wf_act W s Hs) as (a & Ha & Hav).
  destruct (maxf_some_ex (nA m) (avail m s) (Qval m V s) a Ha Hav) as (x & Hx).
  unfold backup. now rewrite Hx.
Qed.

Lemma Qval_R V s a :
  Qval m V s a = Rm m s a + gamma m * sumf (nS m) (fun ns => Pm m s a ns * V ns).
Proof. reflexivity. Qed.

Lemma Qval_diff V W s a d :
  wf -> (s < nS m)%nat -> (a < nA m)%nat ->
  (forall ns, (ns < nS m)%nat -> Rabs (V ns - W ns) <= d) -> 0 <= d ->
  Rabs (Qval m V s a - Qval m W s a) <= gamma m * d.
Proof.
  intros Wf Hs Ha Hd Hd0. rewrite !Qval_R.
  replace (_ - _) with (gamma m * (sumf (nS m) (fun ns => Pm m s a ns * V ns)
                                   - sumf (nS m) (fun ns => Pm m s a ns * W ns))) by lra.
  rewrite Rabs_mult, (Rabs_right (gamma m)); [|apply Rle_ge, (wf_gamma0 Wf)].
  apply Rmult_le_compat_l; [apply (wf_gamma0 Wf)|].
  eapply Rle_trans; [apply wsum_diff_bound; [intros; apply (wf_Pnn Wf); auto|exact Hd]|].
  pose proof (wf_Psub Wf s a Hs Ha).
  replace d with (1 * d) at 2 by lra. apply Rmult_le_compat_r; auto.
Qed.

Lemma Qval_mono V W s a :
  wf -> (s < nS m)%nat -> (a < nA m)%nat ->
  (forall ns, (ns < nS m)%nat -> V ns <= W ns) -> Qval m V s a <= Qval m W s a.
Proof.
  intros Wf Hs Ha H. rewrite !Qval_R.
  apply Rplus_le_compat_l, Rmult_le_compat_l; [apply (wf_gamma0 Wf)|].
  apply wsum_mono; auto. intros; apply (wf_Pnn Wf); auto.
Qed.

(* gamma-contraction of the optimality operator in sup norm *)
Theorem Top_contraction V W d :
  wf -> 0 <= d -> (forall ns, (ns < nS m)%nat -> Rabs (V ns - W ns) <= d) ->
  forall s, (s < nS m)%nat -> Rabs (Top V s - Top W s) <= gamma m * d.
Proof.
  intros Wf Hd0 Hd s Hs.
  eapply (maxf_nonexp (nA m) (avail m s) (Qval m V s) (Qval m W s)).
  - apply backup_some; auto.
  - apply backup_some; auto.
  - intros a Ha _. apply Qval_diff; auto.
Qed.

Theorem Top_mono V W :
  wf -> (forall ns, (ns < nS m)%nat -> V ns <= W ns) ->
  forall s, (s < nS m)%nat -> Top V s <= Top W s.
Proof.
  intros Wf H s Hs.
  eapply (maxf_mono (nA m) (avail m s) (Qval m V s) (Qval m W s)).
  - apply backup_some; auto.
  - apply backup_some; auto.
  - intros a Ha _. apply Qval_mono; auto.
Qed.

Definition fixpoint (Vs : nat -> R) : Prop :=
  forall s, (s < nS m)%nat -> Vs s = Top Vs s.

(* residual bound: the statement behind "up to the bound implied by the
   configured residual" *)
Theorem residual_bound V Vs delta :
  wf -> gamma m < 1 -> fixpoint Vs -> 0 <= delta ->
  (forall s, (s < nS m)%nat -> Rabs (V s - Top V s) <= delta) ->
  forall s, (s < nS m)%nat -> Rabs (V s - Vs s) <= delta / (1 - gamma m).
Proof.
  intros Wf G1 Hfix Hd0 Hres.
  pose proof (wf_gamma0 Wf) as G0.
  destruct (finite_sup (nS m) (fun s => V s - Vs s)) as (D & HD0 & HDle & HDat).
  assert (HD : D <= delta / (1 - gamma m)).
  { destruct HDat as [->|(i & Hi & He)].
    - apply Rmult_le_pos; [lra|]. left. apply Rinv_0_lt_compat. lra.
    - cbv beta in He.
      assert (H1 : D <= delta + gamma m * D).
      { assert (Hc : Rabs (Top V i - Top Vs i) <= gamma m * D)
          by (apply Top_contraction; auto).
        pose proof (Hres i Hi) as Hr. pose proof (Hfix i Hi) as Hf.
        apply Rabs_le_inv' in Hc. apply Rabs_le_inv' in Hr.
        rewrite <- He at 1. apply Rabs_le. lra. }
      apply Rmult_le_reg_r with (1 - gamma m); [lra|].
      unfold Rdiv. rewrite Rmult_assoc, Rinv_l; lra. }
  intros s Hs. eapply Rle_trans; [apply HDle; auto|exact HD].
Qed.

Corollary fixpoint_unique V1 V2 :
  wf -> gamma m < 1 -> fixpoint V1 -> fixpoint V2 -> forall s, (s < nS m)%nat -> V1 s = V2 s.
Proof.
  intros Wf G1 H1 H2 s Hs.
  assert (H : Rabs (V1 s - V2 s) <= 0 / (1 - gamma m)).
  { apply residual_bound; auto; [lra|]. intros s' Hs'. rewrite <- (H1 s' Hs').
    replace (V1 s' - V1 s') with 0 by lra. rewrite Rabs_R0; lra. }
  unfold Rdiv in H. rewrite Rmult_0_l in H.
  pose proof (Rabs_pos (V1 s - V2 s)).
  assert (E : Rabs (V1 s - V2 s) = 0) by lra.
  destruct (Req_dec (V1 s - V2 s) 0) as [|Hne]; [lra|].
  apply Rabs_no_R0 in Hne. contradiction.
Qed.

(* one-sided versions (used for upper-bound invariants: LAO*, LRTDP, PBVI/QMDP) *)
Theorem upper_bound_preserved V Vs :
  wf -> fixpoint Vs -> (forall s, (s < nS m)%nat -> Vs s <= V s) ->
  forall s, (s < nS m)%nat -> Vs s <= Top V s.
Proof.
  intros Wf Hfix H s Hs. rewrite (Hfix s Hs). apply Top_mono; auto.
Qed.

(* generic "D <= c + gamma D  at the arg-sup" argument, one-sided *)
Lemma sup_pos_part_zero (f : nat -> R) :
  wf -> gamma m < 1 ->
  (forall D, 0 <= D -> (forall s, (s < nS m)%nat -> f s <= D) ->
     forall i, (i < nS m)%nat -> f i = D -> 0 < D -> D <= gamma m * D) ->
  forall s, (s < nS m)%nat -> f s <= 0.
Proof.
  intros Wf G1 Hstep.
  pose proof (wf_gamma0 Wf) as G0.
  destruct (finite_sup (nS m) (fun s => Rmax 0 (f s))) as (D & HD0 & HDle & HDat).
  assert (Hpos : forall s, (s < nS m)%nat -> f s <= D).
  { intros s Hs. specialize (HDle s Hs). rewrite Rabs_right in HDle.
    - eapply Rle_trans; [apply Rmax_r|exact HDle].
    - apply Rle_ge, Rmax_l. }
  assert (HDz : D = 0).
  { destruct HDat as [|(i & Hi & He)]; [auto|].
    rewrite Rabs_right in He by (apply Rle_ge, Rmax_l).
    destruct (Rle_dec (f i) 0) as [Hle|Hgt].
    { rewrite Rmax_left in He; lra. }
    rewrite Rmax_right in He by lra.
    assert (D <= gamma m * D) by (apply (Hstep D HD0 Hpos i Hi He); lra).
    assert (0 <= (1 - gamma m) * D) by (apply Rmult_le_pos; lra). nra. }
  intros s Hs. specialize (Hpos s Hs). lra.
Qed.

Theorem supersolution_upper V Vs :
  wf -> gamma m < 1 -> fixpoint Vs -> (forall s, (s < nS m)%nat -> Top V s <= V s) ->
  forall s, (s < nS m)%nat -> Vs s <= V s.
Proof.
  intros Wf G1 Hfix Hsup s Hs.
  pose proof (wf_gamma0 Wf) as G0.
  cut (Vs s - V s <= 0); [lra|].
  apply (sup_pos_part_zero (fun s => Vs s - V s) Wf G1); auto.
  intros D HD0 Hpos i Hi He HDpos.
  set (W := fun s => V s + D).
  assert (H1 : Top Vs i <= Top W i).
  { apply Top_mono; auto. intros ns Hns. unfold W. specialize (Hpos ns Hns). lra. }
  assert (H2 : Rabs (Top W i - Top V i) <= gamma m * D).
  { apply Top_contraction; auto. intros ns Hns. unfold W.
    replace (V ns + D - V ns) with D by lra. rewrite Rabs_right; lra. }
  apply Rabs_le_inv' in H2. specialize (Hsup i Hi). rewrite <- (Hfix i Hi) in H1. lra.
Qed.

Theorem subsolution_lower V Vs :
  wf -> gamma m < 1 -> fixpoint Vs -> (forall s, (s < nS m)%nat -> V s <= Top V s) ->
  forall s, (s < nS m)%nat -> V s <= Vs s.
Proof.
  intros Wf G1 Hfix Hsub s Hs.
  pose proof (wf_gamma0 Wf) as G0.
  cut (V s - Vs s <= 0); [lra|].
  apply (sup_pos_part_zero (fun s => V s - Vs s) Wf G1); auto.
  intros D HD0 Hpos i Hi He HDpos.
  set (W := fun s => Vs s + D).
  assert (H1 : Top V i <= Top W i).
  { apply Top_mono; auto. intros ns Hns. unfold W. specialize (Hpos ns Hns). lra. }
  assert (H2 : Rabs (Top W i - Top Vs i) <= gamma m * D).
  { apply Top_contraction; auto. intros ns Hns. unfold W.
    replace (Vs ns + D - Vs ns) with D by lra. rewrite Rabs_right; lra. }
  apply Rabs_le_inv' in H2. specialize (Hsub i Hi). rewrite <- (Hfix i Hi) in H2. lra.
Qed.

(* ------------------------------------------------------------------ *)
(* policy operator  T^pi V s = sum_a pi s a * Qval V s a               *)
(* ------------------------------------------------------------------ *)
Definition Tpol (pi : nat -> nat -> R) (V : nat -> R) (s : nat) : R := Qpol m pi V s.

(* pi is a stochastic policy supported on available actions *)
Record wfpol (pi : nat -> nat -> R) : Prop := {
  wp_nn : forall s a, (s < nS m)%nat -> (a < nA m)%nat -> 0 <= pi s a;
  wp_sum : forall s, (s < nS m)%nat -> sumf (nA m) (pi s) = 1;
  wp_av : forall s a, (s < nS m)%nat -> (a < nA m)%nat -> avail m s a = false -> pi s a = 0
}.

Lemma Tpol_diff pi V W d :
  wf -> wfpol pi -> 0 <= d ->
  (forall ns, (ns < nS m)%nat -> Rabs (V ns - W ns) <= d) ->
  forall s, (s < nS m)%nat -> Rabs (Tpol pi V s - Tpol pi W s) <= gamma m * d.
Proof.
  intros Wf Wp Hd0 Hd s Hs. unfold Tpol, Qpol.
  change (Rabs (sumf (nA m) (fun a => pi s a * Qval m V s a)
                - sumf (nA m) (fun a => pi s a * Qval m W s a)) <= gamma m * d).
  eapply Rle_trans.
  - apply wsum_diff_bound with (d := gamma m * d).
    + intros a Ha. apply (wp_nn _ Wp); auto.
    + intros a Ha. apply Qval_diff; auto.
  - rewrite (wp_sum _ Wp s Hs). lra.
Qed.

Lemma Tpol_le_Top pi V s :
  wf -> wfpol pi -> (s < nS m)%nat -> Tpol pi V s <= Top V s.
Proof.
  intros Wf Wp Hs. unfold Tpol, Qpol.
  change (sumf (nA m) (fun a => pi s a * Qval m V s a) <= Top V s).
  pose proof (backup_some V s Wf Hs) as Hb. unfold backup in Hb.
  (* sum_a pi a * q a <= sum_a pi a * top = top *)
  eapply Rle_trans.
  - apply (sumf_le (nA m) _ (fun a => pi s a * Top V s)). intros a Ha. cbv beta.
    destruct (avail m s a) eqn:E.
    + apply Rmult_le_compat_l; [apply (wp_nn _ Wp); auto|].
      eapply maxf_ge; eauto.
    + rewrite (wp_av _ Wp s a Hs Ha E). lra.
  - rewrite sumf_scal_r, (wp_sum _ Wp s Hs). lra.
Qed.

Definition fixpol pi (V : nat -> R) : Prop :=
  forall s, (s < nS m)%nat -> V s = Tpol pi V s.

(* eta-greedy policies lose at most eta/(1-gamma):
   if pi only plays actions whose optimal action value is within eta of the optimum ... *)
Theorem greedy_loss pi Vs Vpi eta :
  wf -> gamma m < 1 -> wfpol pi -> fixpoint Vs -> fixpol pi Vpi -> 0 <= eta ->
  (forall s a, (s < nS m)%nat -> (a < nA m)%nat -> 0 < pi s a -> Vs s - eta <= Qval m Vs s a) ->
  forall s, (s < nS m)%nat -> Rabs (Vpi s - Vs s) <= eta / (1 - gamma m).
Proof.
  intros Wf G1 Wp Hfix Hfp He Hgr.
  pose proof (wf_gamma0 Wf) as G0.
  (* |Vs - Tpol Vs| <= eta *)
  assert (Hres : forall s, (s < nS m)%nat -> Rabs (Vs s - Tpol pi Vs s) <= eta).
  { intros s Hs. apply Rabs_le. split.
    - pose proof (Tpol_le_Top pi Vs s Wf Wp Hs). rewrite <- (Hfix s Hs) in H. lra.
    - (* Tpol Vs >= sum pi (Vs - eta) = Vs - eta *)
      assert (H : sumf (nA m) (fun a => pi s a * (Vs s - eta)) <= Tpol pi Vs s).
      { unfold Tpol, Qpol. apply sumf_le. intros a Ha. cbv beta.
        destruct (Rle_lt_or_eq_dec 0 (pi s a) (wp_nn _ Wp s a Hs Ha)) as [Hp|Hz].
        - apply Rmult_le_compat_l; [lra|]. apply Hgr; auto.
        - rewrite <- Hz. change (0 * (Vs s - eta) <= 0 * Qval m Vs s a). lra. }
      rewrite sumf_scal_r, (wp_sum _ Wp s Hs) in H. lra. }
  destruct (finite_sup (nS m) (fun s => Vpi s - Vs s)) as (D & HD0 & HDle & HDat).
  assert (HD : D <= eta / (1 - gamma m)).
  { destruct HDat as [->|(i & Hi & Hei)].
    - apply Rmult_le_pos; [lra|]. left. apply Rinv_0_lt_compat. lra.
    - cbv beta in Hei.
      assert (Hc : Rabs (Tpol pi Vpi i - Tpol pi Vs i) <= gamma m * D)
        by (apply Tpol_diff; auto).
      pose proof (Hres i Hi) as Hr. pose proof (Hfp i Hi) as Hf.
      apply Rabs_le_inv' in Hc. apply Rabs_le_inv' in Hr.
      assert (H1 : D <= eta + gamma m * D).
      { rewrite <- Hei at 1. apply Rabs_le. lra. }
      apply Rmult_le_reg_r with (1 - gamma m); [lra|].
      unfold Rdiv. rewrite Rmult_assoc, Rinv_l; lra. }
  intros s Hs. eapply Rle_trans; [apply HDle; auto|exact HD].
Qed.

End Theory.
