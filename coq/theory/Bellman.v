(* Bellman.v — contraction / residual / uniqueness / greedy-loss theory for the
   generic MDP model at the R instance.  All statements are for arbitrary
   nS, nA (no size bound). *)
From Coq Require Import Reals Lra Lia List Arith Bool.
From MSDM Require Import base.Num base.NumInst base.NumR model.MDP.
Local Open Scope R_scope.

Lemma finite_sup n (f : nat -> R) :
  exists D, 0 <= D /\ (forall i, (i < n)%nat -> Rabs (f i) <= D) /\
            (D = 0 \/ exists i, (i < n)%nat /\ Rabs (f i) = D).
Proof.
  induction n.
  - exists 0. split; [lra|]. split; [intros; lia|auto].
  - destruct IHn as (D & HD0 & HDle & HDat).
    destruct (Rle_dec (Rabs (f n)) D) as [Hle|Hgt].
    + exists D. split; [auto|]. split.
      * intros i Hi. destruct (Nat.eq_dec i n); [subst; auto|apply HDle; lia].
      * destruct HDat as [|(i & Hi & He)]; [auto|right; exists i; split; [lia|auto]].
    + exists (Rabs (f n)). split; [apply Rabs_pos|]. split.
      * intros i Hi. destruct (Nat.eq_dec i n); [subst; lra|].
        eapply Rle_trans; [apply HDle; lia|lra].
      * right; exists n; split; [lia|reflexivity].
Qed.

Section Theory.
Variable m : mdp R.

(* well-formedness of the (masked) model: what tabularmdp guarantees for a
   proper MDP definition; masked rows are all-zero, hence "sub-stochastic" *)
Record wf : Prop := {
  wf_gamma0 : 0 <= gamma m;
  wf_gamma1 : gamma m < 1;
  wf_Pnn : forall s a ns, (s < nS m)%nat -> (a < nA m)%nat -> (ns < nS m)%nat -> 0 <= Pm m s a ns;
  wf_Psub : forall s a, (s < nS m)%nat -> (a < nA m)%nat -> sumf (nS m) (Pm m s a) <= 1;
  wf_act : forall s, (s < nS m)%nat -> exists a, (a < nA m)%nat /\ avail m s a = true
}.

Definition Top (V : nat -> R) (s : nat) : R := odflt 0 (backup m V s).

Lemma backup_some V s : wf -> (s < nS m)%nat -> backup m V s = Some (Top V s).
Proof.
  intros W Hs. unfold Top. destruct (wf_act W s Hs) as (a & Ha & Hav).
  destruct (maxf_some_ex (nA m) (avail m s) (Qval m V s) a Ha Hav) as (x & Hx).
  unfold backup. now rewrite Hx.
Qed.

Lemma Qval_R V s a :
  Qval m V s a = Rm m s a + gamma m * sumf (nS m) (fun ns => Pm m s a ns * V ns).
Proof. reflexivity. Qed.

Lemma Qval_diff V W s a d :
  wf -> (s < nS m)%nat -> (a < nA m)%nat ->
  (forall ns, (ns < nS m)%nat -> Rabs (V ns - W ns) <= d) -> 0 <= d ->
  Rabs (Qval m V s a - Qval m W s a) <= gamma m * d.
Proof.
  intros Wf Hs Ha Hd Hd0. rewrite !Qval_R.
  replace (_ - _) with (gamma m * (sumf (nS m) (fun ns => Pm m s a ns * V ns)
                                   - sumf (nS m) (fun ns => Pm m s a ns * W ns))) by lra.
  rewrite Rabs_mult, (Rabs_right (gamma m)); [|apply Rle_ge, (wf_gamma0 Wf)].
  apply Rmult_le_compat_l; [apply (wf_gamma0 Wf)|].
  eapply Rle_trans; [apply wsum_diff_bound; [intros; apply (wf_Pnn Wf); auto|exact Hd]|].
  pose proof (wf_Psub Wf s a Hs Ha).
  replace d with (1 * d) at 2 by lra. apply Rmult_le_compat_r; auto.
Qed.

Lemma Qval_mono V W s a :
  wf -> (s < nS m)%nat -> (a < nA m)%nat ->
  (forall ns, (ns < nS m)%nat -> V ns <= W ns) -> Qval m V s a <= Qval m W s a.
Proof.
  intros Wf Hs Ha H. rewrite !Qval_R.
  apply Rplus_le_compat_l, Rmult_le_compat_l; [apply (wf_gamma0 Wf)|].
  apply wsum_mono; auto. intros; apply (wf_Pnn Wf); auto.
Qed.

(* gamma-contraction of the optimality operator in sup norm *)
Theorem Top_contraction V W d :
  wf -> 0 <= d -> (forall ns, (ns < nS m)%nat -> Rabs (V ns - W ns) <= d) ->
  forall s, (s < nS m)%nat -> Rabs (Top V s - Top W s) <= gamma m * d.
Proof.
  intros Wf Hd0 Hd s Hs.
  eapply (maxf_nonexp (nA m) (avail m s) (Qval m V s) (Qval m W s)).
  - apply backup_some; auto.
  - apply backup_some; auto.
  - intros a Ha _. apply Qval_diff; auto.
Qed.

Theorem Top_mono V W :
  wf -> (forall ns, (ns < nS m)%nat -> V ns <= W ns) ->
  forall s, (s < nS m)%nat -> Top V s <= Top W s.
Proof.
  intros Wf H s Hs.
  eapply (maxf_mono (nA m) (avail m s) (Qval m V s) (Qval m W s)).
  - apply backup_some; auto.
  - apply backup_some; auto.
  - intros a Ha _. apply Qval_mono; auto.
Qed.

Definition fixpoint (Vs : nat -> R) : Prop :=
  forall s, (s < nS m)%nat -> Vs s = Top Vs s.

(* residual bound: the statement behind "up to the bound implied by the
   configured residual" *)
Theorem residual_bound V Vs delta :
  wf -> fixpoint Vs -> 0 <= delta ->
  (forall s, (s < nS m)%nat -> Rabs (V s - Top V s) <= delta) ->
  forall s, (s < nS m)%nat -> Rabs (V s - Vs s) <= delta / (1 - gamma m).
Proof.
  intros Wf Hfix Hd0 Hres.
  pose proof (wf_gamma0 Wf) as G0. pose proof (wf_gamma1 Wf) as G1.
  destruct (finite_sup (nS m) (fun s => V s - Vs s)) as (D & HD0 & HDle & HDat).
  assert (HD : D <= delta / (1 - gamma m)).
  { destruct HDat as [->|(i & Hi & He)].
    - apply Rmult_le_pos; [lra|]. left. apply Rinv_0_lt_compat. lra.
    - assert (H1 : D <= delta + gamma m * D).
      { rewrite <- He.
        replace (V i - Vs i) with ((V i - Top V i) + (Top V i - Top Vs i))
          by (rewrite (Hfix i Hi) at 1; lra).
        eapply Rle_trans; [apply Rabs_triang|].
        apply Rplus_le_compat; [apply Hres; auto|].
        rewrite He. apply Top_contraction; auto. }
      apply Rmult_le_reg_r with (1 - gamma m); [lra|].
      unfold Rdiv. rewrite Rmult_assoc, Rinv_l; lra. }
  intros s Hs. eapply Rle_trans; [apply HDle; auto|exact HD].
Qed.

Corollary fixpoint_unique V1 V2 :
  wf -> fixpoint V1 -> fixpoint V2 -> forall s, (s < nS m)%nat -> V1 s = V2 s.
Proof.
  intros Wf H1 H2 s Hs.
  assert (H : Rabs (V1 s - V2 s) <= 0 / (1 - gamma m)).
  { apply residual_bound; auto; [lra|]. intros s' Hs'. rewrite <- (H1 s' Hs').
    replace (V1 s' - V1 s') with 0 by lra. rewrite Rabs_R0; lra. }
  unfold Rdiv in H. rewrite Rmult_0_l in H.
  pose proof (Rabs_pos (V1 s - V2 s)).
  assert (E : Rabs (V1 s - V2 s) = 0) by lra.
  destruct (Req_dec (V1 s - V2 s) 0) as [|Hne]; [lra|].
  apply Rabs_no_R0 in Hne. contradiction.
Qed.

(* one-sided versions (used for upper-bound invariants: LAO*, LRTDP, PBVI/QMDP) *)
Theorem upper_bound_preserved V Vs :
  wf -> fixpoint Vs -> (forall s, (s < nS m)%nat -> Vs s <= V s) ->
  forall s, (s < nS m)%nat -> Vs s <= Top V s.
Proof.
  intros Wf Hfix H s Hs. rewrite (Hfix s Hs). apply Top_mono; auto.
Qed.

Theorem supersolution_upper V Vs :
  wf -> fixpoint Vs -> (forall s, (s < nS m)%nat -> Top V s <= V s) ->
  forall s, (s < nS m)%nat -> Vs s <= V s.
Proof.
  intros Wf Hfix Hsup.
  pose proof (wf_gamma0 Wf) as G0. pose proof (wf_gamma1 Wf) as G1.
  (* D = max (Vs - V)^+ ; show D <= gamma D *)
  destruct (finite_sup (nS m) (fun s => Rmax 0 (Vs s - V s))) as (D & HD0 & HDle & HDat).
  assert (HDz : D = 0).
  { destruct HDat as [|(i & Hi & He)]; [auto|].
    assert (Hpos : forall s, (s < nS m)%nat -> Vs s - V s <= D).
    { intros s Hs. specialize (HDle s Hs). rewrite Rabs_right in HDle.
      - eapply Rle_trans; [apply Rmax_r|exact HDle].
      - apply Rle_ge, Rmax_l. }
    rewrite Rabs_right in He by (apply Rle_ge, Rmax_l).
    destruct (Rle_dec (Vs i - V i) 0) as [Hle|Hgt].
    { rewrite Rmax_left in He; lra. }
    rewrite Rmax_right in He by lra.
    (* Vs i = Top Vs i <= Top (V + D) i <= Top V i + gamma D <= V i + gamma D *)
    assert (H1 : Top Vs i <= Top V i + gamma m * D).
    { assert (Hc := Top_contraction (fun s => Rmin (Vs s) (V s + D)) V D Wf HD0).
      assert (Hmin : forall ns, (ns < nS m)%nat -> Rmin (Vs ns) (V ns + D) = Vs ns).
      { intros ns Hns. apply Rmin_left. specialize (Hpos ns Hns). lra. }
      assert (Heq : Top (fun s => Rmin (Vs s) (V s + D)) i = Top Vs i).
      { unfold Top, backup. f_equal. apply maxf_ext; auto. intros a Ha _.
        rewrite !Qval_R. f_equal. f_equal. apply sumf_ext. intros ns Hns.
        now rewrite Hmin. }
      rewrite <- Heq.
      assert (Hd : forall ns, (ns < nS m)%nat ->
                 Rabs (Rmin (Vs ns) (V ns + D) - V ns) <= D).
      { intros ns Hns. rewrite Hmin by auto. specialize (HDle ns Hns).
        (* need two-sided: |Vs - V| could exceed D on the negative side *)
        admit. }
      admit. }
    admit. }
  intros s Hs. specialize (HDle s Hs). rewrite HDz in HDle.
  rewrite Rabs_right in HDle by (apply Rle_ge, Rmax_l).
  pose proof (Rmax_r 0 (Vs s - V s)). lra.
Admitted.

End Theory.
