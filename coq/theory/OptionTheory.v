(* OptionTheory.v — proofs about model/Option.v (property C15).
   All statements are about the very functions the harness evaluates with vm_compute;
   they quantify over ALL objects, override sets, choice streams, step limits and
   simulation lists. *)
From Coq Require Import QArith List Bool String Arith Lia Setoid Morphisms.
From MSDM Require Import model.Option.
Import ListNotations.
Local Open Scope string_scope.
Local Open Scope list_scope.

(* ================================================================== *)
(** * Part A — augment *)

Lemma assoc_app : forall (A : Type) (k : key) (l1 l2 : list (key * A)),
  assoc k (l1 ++ l2) = match assoc k l1 with Some v => Some v | None => assoc k l2 end.
Proof.
  intros A k l1 l2. induction l1 as [|[k' v] r IH]; simpl; [reflexivity|].
  destruct (String.eqb k k'); [reflexivity|exact IH].
Qed.

Lemma aug_entries_in : forall o ov ks es k,
  aug_entries o ov ks = Some es -> In k ks ->
  exists v, assoc k es = Some (CVal v) /\
            match assoc k ov with Some w => v = w | None => getattr o k = Some v end.
Proof.
  intros o ov ks. induction ks as [|k0 r IH]; intros es k Hes Hin; [destruct Hin|].
  simpl in Hes. unfold aug_entry in Hes at 1.
  destruct (assoc k0 ov) as [w|] eqn:Hov.
  - destruct (aug_entries o ov r) as [es'|] eqn:Hr; [|discriminate].
    inversion Hes; subst es; clear Hes. simpl.
    destruct (String.eqb k k0) eqn:Hk.
    + apply String.eqb_eq in Hk. subst k0. exists w. rewrite Hov. split; reflexivity.
    + destruct Hin as [Heq|Hin]; [subst k0; rewrite String.eqb_refl in Hk; discriminate|].
      exact (IH es' k eq_refl Hin).
  - destruct (getattr o k0) as [v0|] eqn:Hg; [|discriminate].
    destruct (aug_entries o ov r) as [es'|] eqn:Hr; [|discriminate].
    inversion Hes; subst es; clear Hes. simpl.
    destruct (String.eqb k k0) eqn:Hk.
    + apply String.eqb_eq in Hk. subst k0. exists v0. rewrite Hov. split; [reflexivity|exact Hg].
    + destruct Hin as [Heq|Hin]; [subst k0; rewrite String.eqb_refl in Hk; discriminate|].
      exact (IH es' k eq_refl Hin).
Qed.

Lemma aug_entries_notin : forall o ov ks es k,
  aug_entries o ov ks = Some es -> ~ In k ks -> assoc k es = None.
Proof.
  intros o ov ks. induction ks as [|k0 r IH]; intros es k Hes Hnin.
  - simpl in Hes. inversion Hes. reflexivity.
  - simpl in Hes.
    destruct (aug_entry o ov k0) as [[k1 e]|] eqn:He; [|discriminate].
    destruct (aug_entries o ov r) as [es'|] eqn:Hr; [|discriminate].
    inversion Hes; subst es; clear Hes.
    assert (Hk1 : k1 = k0).
    { unfold aug_entry in He. destruct (assoc k0 ov); [inversion He; reflexivity|].
      destruct (getattr o k0); inversion He; reflexivity. }
    subst k1. simpl.
    destruct (String.eqb k k0) eqn:Hk.
    + apply String.eqb_eq in Hk. subst k0. exfalso. apply Hnin. left. reflexivity.
    + apply (IH es' k eq_refl). intro Hin. apply Hnin. right. exact Hin.
Qed.

(* the keys a call of augment_gen writes into the new class *)
Definition copied_keys (extra : list key) (o : obj) : list key :=
  components ++ (if is_tabular o then tab_components else []) ++ extra.

Lemma augment_gen_shape : forall extra o ov o',
  augment_gen extra o ov = Some o' ->
  exists es ts xs,
    aug_entries o ov components = Some es /\
    (if is_tabular o then aug_entries o ov tab_components else Some []) = Some ts /\
    aug_entries o [] extra = Some xs /\
    o' = mkObj [] (mkClass "AugmentedMDP" (es ++ ts ++ xs) :: mro o).
Proof.
  intros extra o ov o' H. unfold augment_gen in H.
  destruct ((has_key "state_list" ov || has_key "action_list" ov) && negb (is_tabular o)); [discriminate|].
  destruct (aug_entries o ov components) as [es|]; [|discriminate].
  destruct (if is_tabular o then aug_entries o ov tab_components else Some []) as [ts|]; [|discriminate].
  destruct (aug_entries o [] extra) as [xs|]; [|discriminate].
  inversion H. exists es, ts, xs. repeat split; reflexivity.
Qed.

(* The augmented object is a FRESH instance: empty instance dict, new class in front. *)
Theorem augment_fresh_instance : forall extra o ov o',
  augment_gen extra o ov = Some o' ->
  inst o' = [] /\ exists c, cname c = "AugmentedMDP" /\ mro o' = c :: mro o.
Proof.
  intros extra o ov o' H. destruct (augment_gen_shape _ _ _ _ H) as (es & ts & xs & _ & _ & _ & ->).
  split; [reflexivity|]. eexists. split; [|reflexivity]. reflexivity.
Qed.

Lemma getattr_new_class : forall d cs k v,
  assoc k d = Some (CVal v) -> getattr (mkObj [] (mkClass "AugmentedMDP" d :: cs)) k = Some v.
Proof. intros d cs k v H. unfold getattr. simpl. rewrite H. reflexivity. Qed.

(* what an overridden / copied key evaluates to on the augmented object *)
Lemma augment_gen_copied : forall extra o ov o' k,
  augment_gen extra o ov = Some o' ->
  In k components \/ (is_tabular o = true /\ In k tab_components) ->
  getattr o' k = match assoc k ov with Some w => Some w | None => getattr o k end.
Proof.
  intros extra o ov o' k H Hk.
  destruct (augment_gen_shape _ _ _ _ H) as (es & ts & xs & Hes & Hts & Hxs & ->).
  destruct Hk as [Hk|[Htab Hk]].
  - destruct (aug_entries_in _ _ _ _ _ Hes Hk) as (v & Ha & Hv).
    rewrite (getattr_new_class _ _ _ v); [|rewrite assoc_app, Ha; reflexivity].
    destruct (assoc k ov); [subst; reflexivity|symmetry; exact Hv].
  - rewrite Htab in Hts.
    destruct (aug_entries_in _ _ _ _ _ Hts Hk) as (v & Ha & Hv).
    assert (Hn : ~ In k components).
    { simpl in Hk. destruct Hk as [<-|[<-|[]]]; simpl; intros [E|[E|[E|[E|[E|[]]]]]]; discriminate. }
    rewrite (getattr_new_class _ _ _ v).
    + destruct (assoc k ov); [subst; reflexivity|symmetry; exact Hv].
    + rewrite assoc_app, (aug_entries_notin _ _ _ _ _ Hes Hn), assoc_app, Ha. reflexivity.
Qed.

Lemma augment_gen_extra : forall extra o ov o' k,
  augment_gen extra o ov = Some o' -> In k extra ->
  ~ In k components -> ~ In k tab_components ->
  getattr o' k = getattr o k.
Proof.
  intros extra o ov o' k H Hk Hnc Hnt.
  destruct (augment_gen_shape _ _ _ _ H) as (es & ts & xs & Hes & Hts & Hxs & ->).
  destruct (aug_entries_in _ _ _ _ _ Hxs Hk) as (v & Ha & Hv). simpl in Hv.
  rewrite (getattr_new_class _ _ _ v); [symmetry; exact Hv|].
  rewrite assoc_app, (aug_entries_notin _ _ _ _ _ Hes Hnc), assoc_app.
  assert (Hts' : assoc k ts = None).
  { destruct (is_tabular o).
    - exact (aug_entries_notin _ _ _ _ _ Hts Hnt).
    - inversion Hts. reflexivity. }
  rewrite Hts'. exact Ha.
Qed.

(* a key that augment does not write: looked up on the class chain with an EMPTY instance
   dict; plain class attributes survive, instance attributes do not *)
Lemma augment_gen_other_plain : forall extra o ov o' k,
  augment_gen extra o ov = Some o' -> ~ In k (copied_keys extra o) ->
  assoc k (inst o) = None ->
  (forall body, mro_lookup k (mro o) <> Some (CFun body)) ->
  getattr o' k = getattr o k.
Proof.
  intros extra o ov o' k H Hn Hinst Hplain.
  destruct (augment_gen_shape _ _ _ _ H) as (es & ts & xs & Hes & Hts & Hxs & ->).
  unfold copied_keys in Hn.
  assert (Hd : assoc k (es ++ ts ++ xs) = None).
  { rewrite assoc_app, (aug_entries_notin _ _ _ _ _ Hes), assoc_app.
    - assert (Hts' : assoc k ts = None).
      { destruct (is_tabular o).
        - apply (aug_entries_notin _ _ _ _ _ Hts). intro Hi. apply Hn. apply in_or_app. right. apply in_or_app. left. exact Hi.
        - inversion Hts. reflexivity. }
      rewrite Hts'. apply (aug_entries_notin _ _ _ _ _ Hxs). intro Hi. apply Hn. apply in_or_app. right. apply in_or_app. right. exact Hi.
    - intro Hi. apply Hn. apply in_or_app. left. exact Hi. }
  unfold getattr. simpl. rewrite Hd, Hinst.
  destruct (mro_lookup k (mro o)) as [[v|body]|] eqn:Hl; try reflexivity.
  exfalso. exact (Hplain body eq_refl).
Qed.

Lemma augment_gen_other_class_level : forall extra o ov o' k v,
  augment_gen extra o ov = Some o' -> ~ In k (copied_keys extra o) ->
  mro_lookup k (mro o) = Some (CVal v) ->
  getattr o' k = Some v.
Proof.
  intros extra o ov o' k v H Hn Hl.
  destruct (augment_gen_shape _ _ _ _ H) as (es & ts & xs & Hes & Hts & Hxs & ->).
  unfold copied_keys in Hn.
  assert (Hd : assoc k (es ++ ts ++ xs) = None).
  { rewrite assoc_app, (aug_entries_notin _ _ _ _ _ Hes), assoc_app.
    - assert (Hts' : assoc k ts = None).
      { destruct (is_tabular o).
        - apply (aug_entries_notin _ _ _ _ _ Hts). intro Hi. apply Hn. apply in_or_app. right. apply in_or_app. left. exact Hi.
        - inversion Hts. reflexivity. }
      rewrite Hts'. apply (aug_entries_notin _ _ _ _ _ Hxs). intro Hi. apply Hn. apply in_or_app. right. apply in_or_app. right. exact Hi.
    - intro Hi. apply Hn. apply in_or_app. left. exact Hi. }
  unfold getattr. simpl. rewrite Hd, Hl. reflexivity.
Qed.

(* --- the property's first sentence ------------------------------------ *)

(* the keys the property names: the functional interface, the discount rate, and (for
   tabular MDPs, the only ones that have them) the state and action lists *)
Definition preserved_keys (o : obj) : list key :=
  components ++ ["discount_rate"] ++ (if is_tabular o then tab_components else []).

(* FULL statement, for an augment function [aug] *)
Definition preserves (aug : obj -> overrides -> option obj) : Prop :=
  forall o ov o', aug o ov = Some o' ->
  forall k, In k (preserved_keys o) -> assoc k ov = None -> getattr o' k = getattr o k.

Lemma preserved_cases : forall o k, In k (preserved_keys o) ->
  In k components \/ k = "discount_rate" \/ (is_tabular o = true /\ In k tab_components).
Proof.
  intros o k H. unfold preserved_keys in H.
  apply in_app_or in H. destruct H as [H|H]; [left; exact H|].
  apply in_app_or in H. destruct H as [H|H].
  - right. left. simpl in H. destruct H as [H|[]]. symmetry. exact H.
  - right. right. destruct (is_tabular o); [split; [reflexivity|exact H]|destruct H].
Qed.

(* It holds for every variant of augment that also copies discount_rate ... *)
Theorem augment_gen_preserves : forall extra, In "discount_rate" extra -> preserves (augment_gen extra).
Proof.
  intros extra Hex o ov o' H k Hk Hov.
  destruct (preserved_cases _ _ Hk) as [Hc|[->|Ht]].
  - rewrite (augment_gen_copied _ _ _ _ _ H (or_introl Hc)), Hov. reflexivity.
  - apply (augment_gen_extra _ _ _ _ _ H Hex).
    + simpl. intros [E|[E|[E|[E|[E|[]]]]]]; discriminate.
    + simpl. intros [E|[E|[]]]; discriminate.
  - rewrite (augment_gen_copied _ _ _ _ _ H (or_intror Ht)), Hov. reflexivity.
Qed.

(* a concrete object with an instance-level discount_rate (as QuickMDP, GridWorld, ... build) *)
Definition witness_class : pyclass :=
  mkClass "MarkovDecisionProcess" [("discount_rate", CVal (VNum 1%Q))].
Definition witness_obj : obj :=
  mkObj [("discount_rate", VNum (1 # 2)%Q);
         ("initial_state_dist", VInit [(O, 1%Q)]); ("actions", VActs (fun _ => [O]));
         ("next_state_dist", VTrans (fun _ _ => [(O, 1%Q)])); ("reward", VRew (fun _ _ _ => 0%Q));
         ("is_absorbing", VAbs (fun _ => false))]
        [witness_class].

Lemma vnum_inj : forall a b, Some (VNum a) = Some (VNum b) -> a = b.
Proof. intros a b H. inversion H. reflexivity. Qed.

(* THE FULL STATEMENT for augment as option.py writes it (since /repo commit 29c9a36). *)
Theorem augment_preserves : preserves augment.
Proof. exact (augment_gen_preserves copied_plain (or_introl eq_refl)). Qed.

(* HISTORICAL (the variant of augment BEFORE commit 29c9a36, augment_gen []): the full
   statement was false for it - an instance-level discount_rate (QuickMDP, GridWorld, ...
   set it in __init__) was lost, the fresh instance falling back to the class default.
   This is the defect the check reports as C15:augment:instance-level-discount_rate-lost
   if the old behaviour ever comes back. *)
Theorem augment_old_variant_loses_discount :
  exists o ov o' k,
    augment_gen [] o ov = Some o' /\ In k (preserved_keys o) /\ assoc k ov = None /\
    getattr o k = Some (VNum (1 # 2)%Q) /\ getattr o' k = Some (VNum 1%Q) /\
    getattr o' k <> getattr o k.
Proof.
  exists witness_obj, [].
  eexists. exists "discount_rate".
  split; [vm_compute; reflexivity|].
  split; [vm_compute; right; right; right; right; right; left; reflexivity|].
  split; [reflexivity|].
  split; [reflexivity|].
  split; [reflexivity|].
  intro E. apply vnum_inj in E. discriminate E.
Qed.

Corollary augment_old_variant_refuted : ~ preserves (augment_gen []).
Proof.
  intro P.
  destruct augment_old_variant_loses_discount as (o & ov & o' & k & Ha & Hk & Hov & _ & _ & Hne).
  exact (Hne (P o ov o' Ha k Hk Hov)).
Qed.

(* and the repaired augment keeps it on that very object *)
Example augment_keeps_instance_discount :
  exists o', augment witness_obj [] = Some o' /\ getattr o' "discount_rate" = Some (VNum (1 # 2)%Q).
Proof. eexists. split; [vm_compute; reflexivity|reflexivity]. Qed.


(* The finer picture (kept from before the fix; copied_keys now includes discount_rate):
   every copied key is preserved / overridden; any OTHER attribute is preserved exactly
   when it is a plain class-level attribute not shadowed on the instance, and in general
   evaluates to what the CLASS CHAIN gives for an empty instance dict. *)
Theorem augment_preserves_partial : forall o ov o',
  augment o ov = Some o' ->
  (forall k, In k components \/ (is_tabular o = true /\ In k tab_components) ->
             assoc k ov = None -> getattr o' k = getattr o k) /\
  (forall k, In k components \/ (is_tabular o = true /\ In k tab_components) ->
             forall w, assoc k ov = Some w -> getattr o' k = Some w) /\
  (forall k, ~ In k (copied_keys copied_plain o) -> assoc k (inst o) = None ->
             (forall body, mro_lookup k (mro o) <> Some (CFun body)) ->
             getattr o' k = getattr o k) /\
  (forall k v, ~ In k (copied_keys copied_plain o) -> mro_lookup k (mro o) = Some (CVal v) ->
             getattr o' k = Some v).
Proof.
  intros o ov o' H. unfold augment in H. repeat split.
  - intros k Hk Hov. rewrite (augment_gen_copied _ _ _ _ _ H Hk), Hov. reflexivity.
  - intros k Hk w Hov. rewrite (augment_gen_copied _ _ _ _ _ H Hk), Hov. reflexivity.
  - intros k Hn Hi Hp. exact (augment_gen_other_plain _ _ _ _ _ H Hn Hi Hp).
  - intros k v Hn Hl. exact (augment_gen_other_class_level _ _ _ _ _ _ H Hn Hl).
Qed.

(* non-vacuity: augment succeeds on the witness, with and without overrides, and a
   class-held discount survives *)
Definition witness_obj_cls : obj :=
  mkObj (tl (inst witness_obj)) [mkClass "Sub" [("discount_rate", CVal (VNum (1 # 2)%Q))]; witness_class].
Example augment_nonvacuous :
  (exists o', augment witness_obj [("reward", VRew (fun _ _ _ => 1%Q))] = Some o') /\
  (exists o', augment witness_obj_cls [] = Some o' /\ getattr o' "discount_rate" = Some (VNum (1 # 2)%Q)
              /\ getattr witness_obj_cls "discount_rate" = Some (VNum (1 # 2)%Q)).
Proof.
  split; [eexists; vm_compute; reflexivity|].
  eexists. split; [vm_compute; reflexivity|]. split; reflexivity.
Qed.

(* --- sub-goal sub-task -------------------------------------------------- *)

Lemma clipped_reward_spec : forall so rw s a ns,
  (memb ns (so_subgoals so) = true -> clipped_reward so rw s a ns = rw s a ns) /\
  (so_maxr so = None -> clipped_reward so rw s a ns = rw s a ns) /\
  (forall m, so_maxr so = Some m -> memb ns (so_subgoals so) = false ->
     ((rw s a ns <= m)%Q -> clipped_reward so rw s a ns = rw s a ns) /\
     ((m < rw s a ns)%Q -> clipped_reward so rw s a ns = m)).
Proof.
  intros so rw s a ns. unfold clipped_reward. repeat split.
  - intros ->. reflexivity.
  - intros ->. destruct (memb ns (so_subgoals so)); reflexivity.
  - intros Hle. rewrite H, H0. apply Qle_bool_iff in Hle. rewrite Hle. reflexivity.
  - intros Hlt. rewrite H, H0.
    destruct (Qle_bool (rw s a ns) m) eqn:E; [|reflexivity].
    apply Qle_bool_iff in E. exfalso. exact (Qlt_not_le _ _ Hlt E).
Qed.

(* The sub-task keeps the base dynamics and action sets, its reward is the base reward
   clipped only at non-terminal successors, its absorbing set is the sub-goal set (plus
   the base's when requested); with a discount-copying augment it also keeps the base
   discount rate (today: only a class-level one, see augment_preserves_partial). *)
Lemma subtask_aux : forall extra o o' ab r' d,
  augment_gen extra o [("is_absorbing", VAbs ab); ("reward", VRew r'); ("initial_state_dist", VInit d)] = Some o' ->
  getattr o' "next_state_dist" = getattr o "next_state_dist" /\
  getattr o' "actions" = getattr o "actions" /\
  getattr o' "reward" = Some (VRew r') /\
  getattr o' "is_absorbing" = Some (VAbs ab) /\
  getattr o' "initial_state_dist" = Some (VInit d) /\
  (In "discount_rate" extra -> getattr o' "discount_rate" = getattr o "discount_rate") /\
  (forall g, ~ In "discount_rate" extra -> mro_lookup "discount_rate" (mro o) = Some (CVal g) ->
             getattr o' "discount_rate" = Some g).
Proof.
  intros extra o o' ab r' d H.
  pose proof (augment_gen_copied _ _ _ _ "next_state_dist" H) as Ht.
  pose proof (augment_gen_copied _ _ _ _ "actions" H) as Hac.
  pose proof (augment_gen_copied _ _ _ _ "reward" H) as Hr.
  pose proof (augment_gen_copied _ _ _ _ "is_absorbing" H) as Hb.
  pose proof (augment_gen_copied _ _ _ _ "initial_state_dist" H) as Hi.
  simpl in Ht, Hac, Hr, Hb, Hi.
  split; [apply Ht; left; tauto|].
  split; [apply Hac; left; tauto|].
  split; [apply Hr; left; tauto|].
  split; [apply Hb; left; tauto|].
  split; [apply Hi; left; tauto|].
  split.
  - intro Hex. apply (augment_gen_extra _ _ _ _ _ H Hex).
    + simpl. intros [E|[E|[E|[E|[E|[]]]]]]; discriminate.
    + simpl. intros [E|[E|[]]]; discriminate.
  - intros g Hnex Hl. apply (augment_gen_other_class_level _ _ _ _ _ _ H); [|exact Hl].
    unfold copied_keys. intro Hin. apply in_app_or in Hin. destruct Hin as [Hin|Hin].
    + simpl in Hin. destruct Hin as [E|[E|[E|[E|[E|[]]]]]]; discriminate.
    + apply in_app_or in Hin. destruct Hin as [Hin|Hin]; [|exact (Hnex Hin)].
      destruct (is_tabular o); simpl in Hin; [destruct Hin as [E|[E|[]]]; discriminate|destruct Hin].
Qed.

Theorem subtask_gen_spec : forall extra o so o',
  sub_task_gen extra o so = Some o' ->
  getattr o' "next_state_dist" = getattr o "next_state_dist" /\
  getattr o' "actions" = getattr o "actions" /\
  (exists rw, getattr o "reward" = Some (VRew rw) /\
              getattr o' "reward" = Some (VRew (clipped_reward so rw))) /\
  (exists ab, getattr o' "is_absorbing" = Some (VAbs ab) /\
              forall s, ab s = true <-> (memb s (so_subgoals so) = true \/
                 (so_include_abs so = true /\ exists ab0, getattr o "is_absorbing" = Some (VAbs ab0) /\ ab0 s = true))) /\
  getattr o' "initial_state_dist" = Some (VInit (uniform (so_initial so))) /\
  (In "discount_rate" extra -> getattr o' "discount_rate" = getattr o "discount_rate") /\
  (forall g, ~ In "discount_rate" extra -> mro_lookup "discount_rate" (mro o) = Some (CVal g) ->
             getattr o' "discount_rate" = Some g).
Proof.
  intros extra o so o' H. unfold sub_task_gen in H.
  destruct (getattr o "reward") as [[| | | | |rw| |]|] eqn:Hrw; try discriminate.
  cbv zeta in H.
  destruct (so_include_abs so) eqn:Hinc.
  - destruct (getattr o "is_absorbing") as [[| | | | | |ab0|]|] eqn:Hab0; try discriminate.
    destruct (subtask_aux _ _ _ _ _ _ H) as (H1 & H2 & H3 & H4 & H5 & H6 & H7).
    split; [exact H1|]. split; [exact H2|].
    split; [exists rw; split; [reflexivity|exact H3]|].
    split; [|split; [exact H5|split; [exact H6|exact H7]]].
    eexists. split; [exact H4|]. intro s. simpl. rewrite orb_true_iff. split.
    + intros [Hm|Ha]; [left; exact Hm|right; split; [reflexivity|exists ab0; split; [reflexivity|exact Ha]]].
    + intros [Hm|[_ (ab1 & E & Ha)]]; [left; exact Hm|right]. inversion E; subst. exact Ha.
  - destruct (subtask_aux _ _ _ _ _ _ H) as (H1 & H2 & H3 & H4 & H5 & H6 & H7).
    split; [exact H1|]. split; [exact H2|].
    split; [exists rw; split; [reflexivity|exact H3]|].
    split; [|split; [exact H5|split; [exact H6|exact H7]]].
    eexists. split; [exact H4|]. intro s. simpl. split; [intro Hm; left; exact Hm|].
    intros [Hm|[E _]]; [exact Hm|discriminate].
Qed.

(* --- tabular views of the derived MDP ------------------------------------ *)

Lemma cached_fresh : forall o attr c, inst o = [] -> cached o attr c = c.
Proof. intros o attr c H. unfold cached. rewrite H. reflexivity. Qed.

(* Whatever the base object has cached (because it was used: matrices touched, planned on,
   reachability run), the augmented MDP / sub-task computes every tabular view from ITS OWN
   components and lists: no cache entry of the base is visible through it. *)
Theorem derived_views_own : forall extra o ov o' fuel,
  augment_gen extra o ov = Some o' ->
  view_tf o' = compute_tf o' /\ view_am o' = compute_am o' /\ view_rf o' = compute_rf o' /\
  view_dead o' = compute_dead o' /\ view_absvec o' = compute_absvec o' /\
  view_s0 o' = compute_s0 o' /\ view_reachable fuel o' = compute_reachable fuel o'.
Proof.
  intros extra o ov o' fuel H. destruct (augment_fresh_instance _ _ _ _ H) as (Hi & _).
  repeat split; apply cached_fresh; exact Hi.
Qed.

(* using (touching) an object does not change what getattr gives for any attribute that is
   not a cache entry, so augment of a used base = augment of the fresh base on components *)
Lemma assoc_app_none : forall (A : Type) k (l1 l2 : list (key * A)),
  assoc k l2 = None -> assoc k (l1 ++ l2) = assoc k l1.
Proof. intros A k l1 l2 H. rewrite assoc_app, H. destruct (assoc k l1); reflexivity. Qed.

Corollary subtask_views_own : forall extra o so o' fuel,
  sub_task_gen extra o so = Some o' ->
  view_rf o' = compute_rf o' /\ view_absvec o' = compute_absvec o' /\ view_tf o' = compute_tf o' /\
  view_reachable fuel o' = compute_reachable fuel o'.
Proof.
  intros extra o so o' fuel H. unfold sub_task_gen in H.
  destruct (getattr o "reward") as [[| | | | |rw| |]|]; try discriminate. cbv zeta in H.
  destruct (so_include_abs so).
  - destruct (getattr o "is_absorbing") as [[| | | | | |ab0|]|]; try discriminate.
    destruct (derived_views_own _ _ _ _ fuel H) as (A & _ & B & _ & C & _ & D). tauto.
  - destruct (derived_views_own _ _ _ _ fuel H) as (A & _ & B & _ & C & _ & D). tauto.
Qed.

(* non-vacuity: a USED base (caches filled; state 0 absorbing implicitly, state 1 not) augmented
   with is_absorbing := (s = 1): the derived absorbing vector reflects the override, not the cache *)
Definition witness_tab : obj :=
  mkObj (inst witness_obj ++ [("state_list", VNats [O; 1%nat]); ("action_list", VNats [O])])
        [mkClass tabular_name []; witness_class].
Example derived_views_nonvacuous :
  view_absvec (touch 5 witness_tab) = Some (TB1 [true; false]) /\
  exists o', augment (touch 5 witness_tab) [("is_absorbing", VAbs (fun s => Nat.eqb s 1))] = Some o' /\
             view_absvec o' = Some (TB1 [true; true]) /\
             getattr o' "_cached_absorbing_state_vec" = None.
Proof.
  split; [vm_compute; reflexivity|]. eexists. split; [vm_compute; reflexivity|].
  split; vm_compute; reflexivity.
Qed.

(* ================================================================== *)
(** * Part B — Option.run_on stops at the first terminal state *)
Local Open Scope nat_scope.

(* the state sequence a choice stream induces from state s at time t, whatever the
   termination rule: after j steps *)
Definition state_from (ch : stream) (t s j : nat) : nat :=
  match j with O => s | S j' => snd (ch (t + j')) end.

Arguments state_from : simpl never.

Lemma state_from_shift : forall ch t s j,
  state_from ch (S t) (snd (ch t)) j = state_from ch t s (S j).
Proof.
  intros ch t s [|j]; unfold state_from.
  - rewrite Nat.add_0_r. reflexivity.
  - f_equal. f_equal. lia.
Qed.

(* step j of the roll-out that starts in s at time t *)
Definition step_at (rew : nat -> nat -> nat -> Q) (ch : stream) (t s j : nat) : step :=
  mkStep (state_from ch t s j) (fst (ch (t + j))) (state_from ch t s (S j))
         (rew (state_from ch t s j) (fst (ch (t + j))) (state_from ch t s (S j))).
Arguments step_at : simpl never.

Lemma policy_run_on_spec : forall absb rew ch ms t s,
  let r := policy_run_on absb rew ch ms t s in
  let k := List.length (steps r) in
  k <= ms /\
  final r = state_from ch t s k /\
  (forall j, j < k -> absb (state_from ch t s j) = false) /\
  (k < ms -> absb (state_from ch t s k) = true) /\
  (forall j, j < k -> nth_error (steps r) j = Some (step_at rew ch t s j)).
Proof.
  intros absb rew ch ms. induction ms as [|m IH]; intros t s; simpl.
  - repeat split; try lia; intros; lia.
  - destruct (absb s) eqn:Hs; simpl.
    + repeat split; try lia; try (intros; lia). intros _. exact Hs.
    + specialize (IH (S t) (snd (ch t))). cbv zeta in IH.
      destruct IH as (Hle & Hfin & Hbefore & Hend & Hsteps).
      set (r := policy_run_on absb rew ch m (S t) (snd (ch t))) in *.
      split; [lia|]. split.
      { rewrite Hfin. apply (state_from_shift ch t s). }
      split.
      { intros [|j] Hj; [exact Hs|]. rewrite <- (state_from_shift ch t s j). apply Hbefore. lia. }
      split.
      { intro Hk. rewrite <- (state_from_shift ch t s). apply Hend. lia. }
      intros [|j] Hj; simpl.
      * unfold step_at, state_from. rewrite !Nat.add_0_r. reflexivity.
      * rewrite Hsteps by lia. unfold step_at.
        rewrite !(state_from_shift ch t s). replace (S t + j) with (t + S j) by lia. reflexivity.
Qed.

(* Option.run_on on an MDP with all components present never fails for another reason,
   and its result is determined by the roll-out on (is_terminal, base reward) *)
Lemma option_run_on_unfold : forall o term ms ch s0 rw,
  getattr o "reward" = Some (VRew rw) ->
  augment o [("is_absorbing", VAbs term)] <> None ->
  option_run_on o term ms ch s0 =
    let r := policy_run_on term rw ch ms 0 s0 in
    if Nat.leb ms (sim_len r) then RaiseMaxSteps else Ret r.
Proof.
  intros o term ms ch s0 rw Hrw Haug. unfold option_run_on.
  destruct (augment o [("is_absorbing", VAbs term)]) as [sub|] eqn:Hsub; [|exfalso; exact (Haug eq_refl)].
  unfold augment in Hsub.
  pose proof (augment_gen_copied _ _ _ _ "is_absorbing" Hsub) as Hb.
  pose proof (augment_gen_copied _ _ _ _ "reward" Hsub) as Hr.
  simpl in Hb, Hr.
  rewrite Hb by (left; tauto). rewrite Hr by (left; tauto). rewrite Hrw. reflexivity.
Qed.

Definition state_at (ch : stream) (s0 t : nat) : nat := state_from ch 0 s0 t.

(* THE THEOREM.  For every object, termination predicate, step limit, stream, start:
   - a returned roll-out is exactly the stream's trajectory cut at the FIRST state the
     option declares terminal (none of the earlier states is terminal, every step is a
     step of the base MDP with the base reward), and it took at most max_steps - 2 steps;
   - AlgorithmException is raised iff none of the first max_steps - 1 states (times
     0 .. max_steps - 2) is terminal — i.e. iff len(result) = steps + 1 reaches max_steps,
     even when the state reached at that very moment is terminal. *)
Theorem option_stops : forall o term ms ch s0 rw,
  getattr o "reward" = Some (VRew rw) ->
  augment o [("is_absorbing", VAbs term)] <> None ->
  (forall r, option_run_on o term ms ch s0 = Ret r ->
     let k := List.length (steps r) in
     k + 2 <= ms /\
     term (final r) = true /\ final r = state_at ch s0 k /\
     (forall j, j < k -> term (state_at ch s0 j) = false) /\
     (forall j, j < k -> nth_error (steps r) j = Some (step_at rw ch 0 s0 j))) /\
  (option_run_on o term ms ch s0 = RaiseMaxSteps <->
     forall j, j + 2 <= ms -> term (state_at ch s0 j) = false) /\
  ((exists r, option_run_on o term ms ch s0 = Ret r) <->
     exists k, k + 2 <= ms /\ term (state_at ch s0 k) = true /\
               forall j, j < k -> term (state_at ch s0 j) = false) /\
  option_run_on o term ms ch s0 <> RaiseOther.
Proof.
  intros o term ms ch s0 rw Hrw Haug.
  rewrite (option_run_on_unfold _ _ _ _ _ _ Hrw Haug). cbv zeta.
  destruct (policy_run_on_spec term rw ch ms 0 s0) as (Hle & Hfin & Hbefore & Hend & Hsteps).
  set (r0 := policy_run_on term rw ch ms 0 s0) in *.
  unfold sim_len, state_at in *.
  destruct (Nat.leb ms (S (List.length (steps r0)))) eqn:Hcmp.
  - apply Nat.leb_le in Hcmp.
    split; [intros r E; discriminate E|].
    split; [split; [intros _ j Hj; apply Hbefore; lia|reflexivity]|].
    split; [|discriminate].
    split; [intros [r E]; discriminate E|].
    intros (k & Hk & Ht & Hb). exfalso.
    assert (Hkk : k < List.length (steps r0)) by lia.
    rewrite (Hbefore k Hkk) in Ht. discriminate Ht.
  - apply Nat.leb_gt in Hcmp.
    split.
    { intros r E. inversion E; subst r; clear E.
      split; [lia|]. split; [rewrite Hfin; apply Hend; lia|].
      split; [exact Hfin|]. split; [exact Hbefore|exact Hsteps]. }
    split.
    { split; [intro E; discriminate E|].
      intro Hall. exfalso.
      assert (Ht : term (state_from ch 0 s0 (List.length (steps r0))) = true) by (apply Hend; lia).
      rewrite Hall in Ht by lia. discriminate Ht. }
    split; [|discriminate].
    split.
    + intros _. exists (List.length (steps r0)). split; [lia|]. split; [apply Hend; lia|exact Hbefore].
    + intros _. exists r0. reflexivity.
Qed.

(* consecutive steps chain, and a returned roll-out starts where it was asked to *)
Corollary option_run_chain : forall o term ms ch s0 rw r,
  getattr o "reward" = Some (VRew rw) ->
  augment o [("is_absorbing", VAbs term)] <> None ->
  option_run_on o term ms ch s0 = Ret r ->
  sim_first_state r = s0 /\
  (forall j st, nth_error (steps r) j = Some st ->
     term (s_state st) = false /\ s_reward st = rw (s_state st) (s_action st) (s_next st) /\
     s_next st = match nth_error (steps r) (S j) with Some st' => s_state st' | None => final r end).
Proof.
  intros o term ms ch s0 rw r Hrw Haug Hret.
  destruct (option_stops o term ms ch s0 rw Hrw Haug) as (H1 & _).
  destruct (H1 r Hret) as (Hk & Hterm & Hfin & Hbefore & Hsteps). split.
  - unfold sim_first_state. destruct (steps r) as [|st rest] eqn:Hst; [rewrite Hfin; reflexivity|].
    assert (E : nth_error (st :: rest) 0 = Some (step_at rw ch 0 s0 0)) by (apply Hsteps; simpl; lia).
    simpl in E. inversion E. reflexivity.
  - intros j st Hj.
    assert (Hlt : j < List.length (steps r)) by (apply nth_error_Some; rewrite Hj; discriminate).
    rewrite (Hsteps j Hlt) in Hj. inversion Hj; subst st; clear Hj. unfold step_at at 1 2 3 4 5 6. cbn [s_state s_action s_next s_reward].
    split; [apply Hbefore; exact Hlt|]. split; [reflexivity|].
    destruct (Nat.lt_ge_cases (S j) (List.length (steps r))) as [Hl|Hl].
    + rewrite (Hsteps (S j) Hl). reflexivity.
    + assert (E : nth_error (steps r) (S j) = None) by (apply nth_error_None; exact Hl).
      rewrite E. rewrite Hfin. unfold state_at. f_equal. lia.
Qed.

(* non-vacuity: on the witness MDP an option that terminates in state 1 returns after one
   step when the stream moves to state 1 and the limit is 3, and raises when the limit is 2 *)
Example option_stops_nonvacuous :
  let term := fun s => Nat.eqb s 1 in
  let ch : stream := fun _ => (O, 1%nat) in
  getattr witness_obj "reward" <> None /\
  augment witness_obj [("is_absorbing", VAbs term)] <> None /\
  (exists r, option_run_on witness_obj term 3 ch 0 = Ret r /\ List.length (steps r) = 1%nat /\ final r = 1%nat) /\
  option_run_on witness_obj term 2 ch 0 = RaiseMaxSteps.
Proof.
  cbv zeta. split; [discriminate|]. split; [vm_compute; discriminate|].
  split; [eexists; split; [vm_compute; reflexivity|split; reflexivity]|vm_compute; reflexivity].
Qed.

(* ================================================================== *)
(** * Part C — the semi-MDP's outcome distribution *)

(* --- counting into a dict keyed up to a boolean equivalence ----------- *)
Section Counting.
Context {K : Type} (eqb : K -> K -> bool).
Hypothesis eqb_refl : forall x, eqb x x = true.
Hypothesis eqb_sym : forall x y, eqb x y = eqb y x.
Hypothesis eqb_trans : forall x y z, eqb x y = true -> eqb y z = true -> eqb x z = true.

(* an event: a predicate that does not distinguish equal keys *)
Definition respects (P : K -> bool) : Prop := forall x y, eqb x y = true -> P x = P y.
Definition respectsQ (g : K -> Q) : Prop := forall x y, eqb x y = true -> (g x == g y)%Q.

Definition countb {A : Type} (P : A -> bool) (l : list A) : nat := List.length (filter P l).

Lemma countb_cons : forall (A : Type) (P : A -> bool) x l,
  countb P (x :: l) = (if P x then 1 else 0) + countb P l.
Proof. intros A P x l. unfold countb. simpl. destruct (P x); reflexivity. Qed.

Lemma countb_map : forall (A B : Type) (f : A -> B) (P : B -> bool) l,
  countb P (map f l) = countb (fun a => P (f a)) l.
Proof.
  intros A B f P l. induction l as [|x r IH]; [reflexivity|].
  simpl map. rewrite !countb_cons, IH. reflexivity.
Qed.

Lemma countb_true : forall (A : Type) (l : list A), countb (fun _ => true) l = List.length l.
Proof. intros A l. induction l as [|x r IH]; [reflexivity|]. rewrite countb_cons, IH. reflexivity. Qed.

Lemma eqb_respects : forall k, respects (eqb k).
Proof.
  intros k x y Hxy. destruct (eqb k x) eqn:Hx.
  - symmetry. exact (eqb_trans _ _ _ Hx Hxy).
  - destruct (eqb k y) eqn:Hy; [|reflexivity].
    rewrite eqb_sym in Hxy. rewrite (eqb_trans _ _ _ Hy Hxy) in Hx. discriminate Hx.
Qed.

(* total count of the entries whose key satisfies P *)
Fixpoint csum (P : K -> bool) (cs : list (K * nat)) : nat :=
  match cs with [] => 0 | kc :: r => (if P (fst kc) then snd kc else 0) + csum P r end.

Lemma csum_count_add : forall P, respects P -> forall k cs,
  csum P (count_add eqb k cs) = csum P cs + (if P k then 1 else 0).
Proof.
  intros P HP k cs. induction cs as [|[k' c] r IH]; simpl.
  - lia.
  - destruct (eqb k k') eqn:Hk; simpl.
    + rewrite (HP _ _ Hk). destruct (P k'); lia.
    + rewrite IH. lia.
Qed.

Lemma csum_fold : forall P, respects P -> forall ks acc,
  csum P (fold_left (fun cs k => count_add eqb k cs) ks acc) = csum P acc + countb P ks.
Proof.
  intros P HP ks. induction ks as [|k r IH]; intro acc; simpl.
  - unfold countb. simpl. lia.
  - rewrite IH, csum_count_add by exact HP. rewrite countb_cons. lia.
Qed.

Theorem csum_count_all : forall P, respects P -> forall ks, csum P (count_all eqb ks) = countb P ks.
Proof. intros P HP ks. unfold count_all. rewrite csum_fold by exact HP. reflexivity. Qed.

(* keys of a dict are pairwise different *)
Fixpoint keys_distinct (ks : list K) : Prop :=
  match ks with [] => True | k :: r => (forall k', In k' r -> eqb k k' = false) /\ keys_distinct r end.

Lemma count_add_keys : forall k cs k',
  In k' (map fst (count_add eqb k cs)) -> k' = k \/ In k' (map fst cs).
Proof.
  intros k cs k'. induction cs as [|[k0 c] r IH]; simpl.
  - intros [E|[]]. left. symmetry. exact E.
  - destruct (eqb k k0); simpl.
    + intros [E|H]; right; [left; exact E|right; exact H].
    + intros [E|H]; [right; left; exact E|]. destruct (IH H) as [E|H']; [left; exact E|right; right; exact H'].
Qed.

Lemma count_add_distinct : forall k cs,
  keys_distinct (map fst cs) -> keys_distinct (map fst (count_add eqb k cs)).
Proof.
  intros k cs. induction cs as [|[k0 c] r IH]; simpl.
  - intros _. split; [intros k' []|exact I].
  - intros [Hh Ht]. destruct (eqb k k0) eqn:Hk; simpl.
    + split; assumption.
    + split; [|exact (IH Ht)].
      intros k' Hin. destruct (count_add_keys _ _ _ Hin) as [E|Hin'].
      * subst k'. rewrite eqb_sym. exact Hk.
      * exact (Hh _ Hin').
Qed.

Lemma count_all_distinct : forall ks, keys_distinct (map fst (count_all eqb ks)).
Proof.
  intro ks. unfold count_all.
  assert (G : forall acc, keys_distinct (map fst acc) ->
                          keys_distinct (map fst (fold_left (fun cs k => count_add eqb k cs) ks acc))).
  { induction ks as [|k r IH]; intros acc Hacc; simpl; [exact Hacc|].
    apply IH. apply count_add_distinct. exact Hacc. }
  apply G. exact I.
Qed.

(* every stored count is positive *)
Lemma count_add_pos : forall k cs,
  Forall (fun kc => 0 < snd kc) cs -> Forall (fun kc => 0 < snd kc) (count_add eqb k cs).
Proof.
  intros k cs H. induction H as [|[k0 c] r Hc Hr IH]; simpl.
  - constructor; [simpl; lia|constructor].
  - destruct (eqb k k0); constructor; simpl in *; try lia; assumption.
Qed.

Lemma count_all_pos : forall ks, Forall (fun kc => 0 < snd kc) (count_all eqb ks).
Proof.
  intro ks. unfold count_all.
  assert (G : forall acc, Forall (fun kc : K * nat => 0 < snd kc) acc ->
                          Forall (fun kc : K * nat => 0 < snd kc) (fold_left (fun cs k => count_add eqb k cs) ks acc)).
  { induction ks as [|k r IH]; intros acc Hacc; simpl; [exact Hacc|].
    apply IH. apply count_add_pos. exact Hacc. }
  apply G. constructor.
Qed.

(* --- probability mass of an event under a dict distribution ---------- *)
Fixpoint mass (P : K -> bool) (d : dist K) : Q :=
  match d with [] => 0%Q | kp :: r => ((if P (fst kp) then snd kp else 0) + mass P r)%Q end.

Lemma qnat_add : forall a b, (qnat (a + b) == qnat a + qnat b)%Q.
Proof. intros a b. unfold qnat. rewrite Nat2Z.inj_add, inject_Z_plus. reflexivity. Qed.

Lemma qnat_S : forall a, (qnat (S a) == qnat a + 1)%Q.
Proof. intro a. replace (S a) with (a + 1) by lia. rewrite qnat_add. reflexivity. Qed.

Lemma mass_counts : forall P n cs,
  (mass P (map (fun kc => (fst kc, (qnat (snd kc) / qnat n)%Q)) cs) == qnat (csum P cs) / qnat n)%Q.
Proof.
  intros P n cs. induction cs as [|[k c] r IH]; cbn [mass map csum fst snd].
  - change (qnat 0) with 0%Q. unfold Qdiv. ring.
  - rewrite IH, qnat_add. destruct (P k); [unfold Qdiv; ring|].
    change (qnat 0) with 0%Q. unfold Qdiv. ring.
Qed.

(* weighted sums (for expectations) *)
Fixpoint wsum (g : K -> Q) (d : dist K) : Q :=
  match d with [] => 0%Q | kp :: r => (g (fst kp) * snd kp + wsum g r)%Q end.
Fixpoint cw (g : K -> Q) (cs : list (K * nat)) : Q :=
  match cs with [] => 0%Q | kc :: r => (g (fst kc) * qnat (snd kc) + cw g r)%Q end.
Fixpoint lsum (g : K -> Q) (l : list K) : Q :=
  match l with [] => 0%Q | x :: r => (g x + lsum g r)%Q end.

Lemma cw_count_add : forall g, respectsQ g -> forall k cs,
  (cw g (count_add eqb k cs) == cw g cs + g k)%Q.
Proof.
  intros g Hg k cs. induction cs as [|[k' c] r IH]; simpl.
  - unfold qnat. simpl. ring.
  - destruct (eqb k k') eqn:Hk; simpl.
    + rewrite qnat_S, (Hg _ _ Hk). ring.
    + rewrite IH. ring.
Qed.

Lemma cw_fold : forall g, respectsQ g -> forall ks acc,
  (cw g (fold_left (fun cs k => count_add eqb k cs) ks acc) == cw g acc + lsum g ks)%Q.
Proof.
  intros g Hg ks. induction ks as [|k r IH]; intro acc; simpl.
  - ring.
  - rewrite IH, cw_count_add by exact Hg. ring.
Qed.

Lemma wsum_counts : forall g n cs,
  (wsum g (map (fun kc => (fst kc, (qnat (snd kc) / qnat n)%Q)) cs) == cw g cs / qnat n)%Q.
Proof.
  intros g n cs. induction cs as [|[k c] r IH]; simpl.
  - unfold Qdiv. ring.
  - rewrite IH. unfold Qdiv. ring.
Qed.

(* --- marginalize is a push-forward ------------------------------------ *)
Lemma mass_madd : forall P, respects P -> forall k p acc,
  (mass P (madd eqb k p acc) == mass P acc + (if P k then p else 0))%Q.
Proof.
  intros P HP k p acc. induction acc as [|[k' p'] r IH]; simpl.
  - ring.
  - destruct (eqb k k') eqn:Hk; simpl.
    + rewrite (HP _ _ Hk). destruct (P k'); ring.
    + rewrite IH. ring.
Qed.

Lemma madd_keys : forall k p acc k',
  In k' (map fst (madd eqb k p acc)) -> k' = k \/ In k' (map fst acc).
Proof.
  intros k p acc k'. induction acc as [|[k0 c] r IH]; simpl.
  - intros [E|[]]. left. symmetry. exact E.
  - destruct (eqb k k0); simpl.
    + intros [E|H]; right; [left; exact E|right; exact H].
    + intros [E|H]; [right; left; exact E|]. destruct (IH H) as [E|H']; [left; exact E|right; right; exact H'].
Qed.

Lemma madd_distinct : forall k p acc,
  keys_distinct (map fst acc) -> keys_distinct (map fst (madd eqb k p acc)).
Proof.
  intros k p acc. induction acc as [|[k0 c] r IH]; simpl.
  - intros _. split; [intros k' []|exact I].
  - intros [Hh Ht]. destruct (eqb k k0) eqn:Hk; simpl.
    + split; assumption.
    + split; [|exact (IH Ht)].
      intros k' Hin. destruct (madd_keys _ _ _ _ Hin) as [E|Hin'].
      * subst k'. rewrite eqb_sym. exact Hk.
      * exact (Hh _ Hin').
Qed.

Lemma madd_fresh : forall k p acc,
  (forall k', In k' (map fst acc) -> eqb k k' = false) -> madd eqb k p acc = acc ++ [(k, p)].
Proof.
  intros k p acc. induction acc as [|[k0 c] r IH]; simpl; intro H; [reflexivity|].
  rewrite (H k0 (or_introl eq_refl)). f_equal. apply IH. intros k' Hin. apply H. right. exact Hin.
Qed.

End Counting.

Arguments respects {K} eqb P.
Arguments respectsQ {K} eqb g.
Arguments keys_distinct {K} eqb ks.
Arguments mass {K} P d.
Arguments wsum {K} g d.
Arguments lsum {K} g l.

Section Marginal.
Context {A K : Type} (eqb : K -> K -> bool).
Hypothesis eqb_refl : forall x, eqb x x = true.
Hypothesis eqb_sym : forall x y, eqb x y = eqb y x.
Hypothesis eqb_trans : forall x y z, eqb x y = true -> eqb y z = true -> eqb x z = true.
Variable f : A -> K.

Lemma mass_marginalize_acc : forall P, respects eqb P -> forall (d : dist A) acc,
  (mass P (fold_left (fun acc ep => madd eqb (f (fst ep)) (snd ep) acc) d acc)
   == mass P acc + mass (fun a => P (f a)) d)%Q.
Proof.
  intros P HP d. induction d as [|[a p] r IH]; intro acc; simpl.
  - ring.
  - rewrite IH, (mass_madd eqb) by exact HP. ring.
Qed.

(* the mass the marginal gives to an event = the mass the original gives to its preimage *)
Theorem mass_marginalize : forall P, respects eqb P -> forall d : dist A,
  (mass P (marginalize eqb f d) == mass (fun a => P (f a)) d)%Q.
Proof.
  intros P HP d. unfold marginalize. rewrite mass_marginalize_acc by exact HP. simpl. ring.
Qed.

Theorem marginalize_distinct : forall d : dist A, keys_distinct eqb (map fst (marginalize eqb f d)).
Proof.
  intro d. unfold marginalize.
  assert (G : forall acc, keys_distinct eqb (map fst acc) ->
     keys_distinct eqb (map fst (fold_left (fun acc ep => madd eqb (f (fst ep)) (snd ep) acc) d acc))).
  { induction d as [|[a p] r IH]; intros acc Hacc; simpl; [exact Hacc|].
    apply IH. apply (madd_distinct eqb eqb_sym). exact Hacc. }
  apply G. exact I.
Qed.

(* every key of the marginal is the image of an element of the original *)
Theorem marginalize_keys : forall (d : dist A) k,
  In k (map fst (marginalize eqb f d)) -> exists a, In a (map fst d) /\ k = f a.
Proof.
  intros d k. unfold marginalize.
  assert (G : forall acc, In k (map fst (fold_left (fun acc ep => madd eqb (f (fst ep)) (snd ep) acc) d acc)) ->
                          In k (map fst acc) \/ exists a, In a (map fst d) /\ k = f a).
  { induction d as [|[a p] r IH]; intros acc Hin; simpl in *; [left; exact Hin|].
    destruct (IH _ Hin) as [H|(a' & Ha & E)].
    - destruct (madd_keys eqb _ _ _ _ H) as [E|H']; [right; exists a; split; [left; reflexivity|exact E]|left; exact H'].
    - right. exists a'. split; [right; exact Ha|exact E]. }
  intro Hin. destruct (G [] Hin) as [[]|H]. exact H.
Qed.

(* injective projection of a dict: the marginal is the relabelled dict, entry by entry *)
Theorem marginalize_injective : forall d : dist A,
  (forall a b, In a (map fst d) -> In b (map fst d) -> eqb (f a) (f b) = true -> a = b) ->
  NoDup (map fst d) ->
  marginalize eqb f d = map (fun ep => (f (fst ep), snd ep)) d.
Proof.
  intros d Hinj Hnd. unfold marginalize.
  assert (G : forall acc : dist K,
     (forall k' a, In k' (map fst acc) -> In a (map fst d) -> eqb (f a) k' = false) ->
     fold_left (fun acc ep => madd eqb (f (fst ep)) (snd ep) acc) d acc
       = acc ++ map (fun ep => (f (fst ep), snd ep)) d).
  { induction d as [|[a p] r IH]; intros acc Hacc; simpl.
    - rewrite app_nil_r. reflexivity.
    - simpl in Hnd. inversion Hnd as [|? ? Hna Hnd']; subst.
      rewrite (madd_fresh eqb).
      + rewrite IH.
        * rewrite <- app_assoc. reflexivity.
        * intros x y Hx Hy. apply Hinj; simpl; [right; exact Hx|right; exact Hy].
        * exact Hnd'.
        * intros k' b Hk' Hb. rewrite map_app in Hk'. apply in_app_or in Hk'. destruct Hk' as [Hk'|Hk'].
          -- apply Hacc; [exact Hk'|right; exact Hb].
          -- simpl in Hk'. destruct Hk' as [<-|[]].
             destruct (eqb (f b) (f a)) eqn:E; [|reflexivity].
             exfalso. apply Hna. rewrite <- (Hinj b a); [exact Hb|right; exact Hb|left; reflexivity|exact E].
      + intros k' Hk'. apply Hacc; [exact Hk'|left; reflexivity]. }
  rewrite G; [reflexivity|]. intros k' a [].
Qed.

End Marginal.

(* --- the outcome key equality is an equivalence ------------------------- *)
Lemma Qeq_bool_sym : forall x y, Qeq_bool x y = Qeq_bool y x.
Proof.
  intros x y. destruct (Qeq_bool x y) eqn:E1; destruct (Qeq_bool y x) eqn:E2; try reflexivity.
  - apply Qeq_bool_iff in E1. apply Qeq_bool_neq in E2. exfalso. apply E2. symmetry. exact E1.
  - apply Qeq_bool_iff in E2. apply Qeq_bool_neq in E1. exfalso. apply E1. symmetry. exact E2.
Qed.

Lemma okey_eqb_refl : forall x, okey_eqb x x = true.
Proof.
  intros [[a b] c]. unfold okey_eqb. simpl. rewrite !Nat.eqb_refl. simpl.
  apply Qeq_bool_iff. reflexivity.
Qed.
Lemma okey_eqb_sym : forall x y, okey_eqb x y = okey_eqb y x.
Proof.
  intros [[a b] c] [[a' b'] c']. unfold okey_eqb. simpl.
  rewrite (Nat.eqb_sym a a'), (Nat.eqb_sym b b'), (Qeq_bool_sym c c'). reflexivity.
Qed.
Lemma okey_eqb_true : forall x y, okey_eqb x y = true <->
  fst (fst x) = fst (fst y) /\ snd (fst x) = snd (fst y) /\ (snd x == snd y)%Q.
Proof.
  intros [[a b] c] [[a' b'] c']. unfold okey_eqb. simpl.
  rewrite !andb_true_iff, !Nat.eqb_eq, Qeq_bool_iff. tauto.
Qed.
Lemma okey_eqb_trans : forall x y z, okey_eqb x y = true -> okey_eqb y z = true -> okey_eqb x z = true.
Proof.
  intros x y z H1 H2. apply okey_eqb_true in H1. apply okey_eqb_true in H2. apply okey_eqb_true.
  destruct H1 as (A1 & B1 & C1), H2 as (A2 & B2 & C2).
  split; [congruence|]. split; [congruence|]. rewrite C1. exact C2.
Qed.

Lemma nt_eqb_refl : forall x, nt_eqb x x = true.
Proof. intros [a b]. unfold nt_eqb. simpl. rewrite !Nat.eqb_refl. reflexivity. Qed.
Lemma nt_eqb_sym : forall x y, nt_eqb x y = nt_eqb y x.
Proof. intros [a b] [a' b']. unfold nt_eqb. simpl. rewrite (Nat.eqb_sym a a'), (Nat.eqb_sym b b'). reflexivity. Qed.
Lemma nt_eqb_trans : forall x y z, nt_eqb x y = true -> nt_eqb y z = true -> nt_eqb x z = true.
Proof.
  intros [a b] [a' b'] [a'' b'']. unfold nt_eqb. simpl. rewrite !andb_true_iff, !Nat.eqb_eq.
  intros [-> ->] [-> ->]. split; reflexivity.
Qed.
Lemma nat_eqb_trans : forall x y z, Nat.eqb x y = true -> Nat.eqb y z = true -> Nat.eqb x z = true.
Proof. intros x y z. rewrite !Nat.eqb_eq. congruence. Qed.

(* --- what one simulation contributes ------------------------------------- *)
(* sum_t gamma^t r_t, discounting from t = 0 *)
Fixpoint disc_sum (gamma : Q) (rs : list Q) : Q :=
  match rs with [] => 0%Q | r :: rest => (r + gamma * disc_sum gamma rest)%Q end.

Lemma last_cons : forall (A : Type) (a : A) l d, last (a :: l) d = last l a.
Proof.
  intros A a l. revert a. induction l as [|b r IH]; intros a d; [reflexivity|].
  change (last (a :: b :: r) d) with (last (b :: r) d). rewrite !IH. reflexivity.
Qed.

Lemma outcome_loop_spec : forall gamma sts ns t disc cum,
  let res := outcome_loop gamma (map (fun st => (Some (s_next st), s_reward st)) sts ++ [(None, 0%Q)]) ns t disc cum in
  fst (fst res) = last (map s_next sts) ns /\
  snd (fst res) = t + List.length sts /\
  (snd res == cum + disc * disc_sum gamma (map s_reward sts))%Q.
Proof.
  intros gamma sts. induction sts as [|st r IH]; intros ns t disc cum.
  - cbn. split; [reflexivity|]. split; [lia|]. ring.
  - cbn [map app outcome_loop List.length disc_sum].
    specialize (IH (s_next st) (S t) (disc * gamma)%Q (cum + s_reward st * disc)%Q). cbv zeta in IH.
    destruct IH as (H1 & H2 & H3). cbv zeta.
    split; [rewrite H1, last_cons; reflexivity|]. split; [rewrite H2; lia|].
    rewrite H3. ring.
Qed.

(* For ANY recorded simulation: end state = last successor (or the start if none),
   steps = number of full steps, reward = sum_t gamma^t r_t. *)
Theorem sim_outcome_spec : forall gamma r,
  fst (fst (sim_outcome gamma r)) = last (map s_next (steps r)) (sim_first_state r) /\
  snd (fst (sim_outcome gamma r)) = List.length (steps r) /\
  (snd (sim_outcome gamma r) == disc_sum gamma (map s_reward (steps r)))%Q.
Proof.
  intros gamma r. unfold sim_outcome, sim_rows.
  destruct (outcome_loop_spec gamma (steps r) (sim_first_state r) 0 1%Q 0%Q) as (H1 & H2 & H3).
  cbv zeta in *. split; [exact H1|]. split; [rewrite H2; reflexivity|]. rewrite H3. ring.
Qed.

Lemma policy_run_on_last : forall absb rew ch ms t s,
  last (map s_next (steps (policy_run_on absb rew ch ms t s))) s = final (policy_run_on absb rew ch ms t s) /\
  sim_first_state (policy_run_on absb rew ch ms t s) = s.
Proof.
  intros absb rew ch ms. induction ms as [|m IH]; intros t s; cbn [policy_run_on].
  - split; reflexivity.
  - destruct (absb s); [split; reflexivity|].
    destruct (IH (S t) (snd (ch t))) as (H1 & _).
    cbn [steps final map s_next]. split; [rewrite last_cons; exact H1|reflexivity].
Qed.

Lemma option_run_on_ret_inv : forall o term ms ch s0 r,
  option_run_on o term ms ch s0 = Ret r ->
  exists ab rw, r = policy_run_on ab rw ch ms 0 s0.
Proof.
  intros o term ms ch s0 r H. unfold option_run_on in H.
  destruct (augment o [("is_absorbing", VAbs term)]) as [sub|]; [|discriminate].
  destruct (getattr sub "is_absorbing") as [[| | | | | |ab|]|]; try discriminate.
  destruct (getattr sub "reward") as [[| | | | |rw| |]|]; try discriminate.
  destruct (Nat.leb ms (sim_len (policy_run_on ab rw ch ms 0 s0))); [discriminate|].
  inversion H. exists ab, rw. reflexivity.
Qed.

(* the triple an option's own simulation contributes:
   (state where it ended, number of primitive steps, sum_t gamma^t r_t) *)
Theorem sim_outcome_of_run : forall gamma o term ms ch s0 r,
  option_run_on o term ms ch s0 = Ret r ->
  fst (fst (sim_outcome gamma r)) = final r /\
  snd (fst (sim_outcome gamma r)) = List.length (steps r) /\
  (snd (sim_outcome gamma r) == disc_sum gamma (map s_reward (steps r)))%Q.
Proof.
  intros gamma o term ms ch s0 r H.
  destruct (option_run_on_ret_inv _ _ _ _ _ _ H) as (ab & rw & ->).
  destruct (sim_outcome_spec gamma (policy_run_on ab rw ch ms 0 s0)) as (H1 & H2 & H3).
  destruct (policy_run_on_last ab rw ch ms 0 s0) as (L1 & L2).
  split; [rewrite H1, L2; exact L1|]. split; [exact H2|exact H3].
Qed.

(* --- run_simulations ------------------------------------------------------ *)
Lemma run_simulations_ret : forall o op s n streams sims,
  run_simulations o op s n streams = Ret sims ->
  List.length sims = n /\
  forall i, i < n ->
    option_run_on o (op_terminal op) (op_max_steps op) (nth i streams default_stream) s
      = Ret (nth i sims (mkSim [] 0)).
Proof.
  intros o op s n. induction n as [|m IH]; intros streams sims H; simpl in H.
  - inversion H. split; [reflexivity|]. intros i Hi. lia.
  - destruct (option_run_on o (op_terminal op) (op_max_steps op) (hd default_stream streams) s) as [r| |] eqn:Hr; try discriminate.
    destruct (run_simulations o op s m (tl streams)) as [rs| |] eqn:Hrs; try discriminate.
    inversion H; subst sims; clear H.
    destruct (IH _ _ Hrs) as (Hlen & Hnth). split; [simpl; rewrite Hlen; reflexivity|].
    intros [|i] Hi.
    + simpl. destruct streams; exact Hr.
    + simpl nth at 2. replace (nth (S i) streams default_stream) with (nth i (tl streams) default_stream).
      * apply Hnth. lia.
      * destruct streams as [|x xs]; [destruct i; reflexivity|reflexivity].
Qed.

Lemma run_simulations_maxsteps : forall o op s n streams,
  run_simulations o op s n streams = RaiseMaxSteps ->
  exists i, i < n /\
    option_run_on o (op_terminal op) (op_max_steps op) (nth i streams default_stream) s = RaiseMaxSteps /\
    forall j, j < i -> exists r,
      option_run_on o (op_terminal op) (op_max_steps op) (nth j streams default_stream) s = Ret r.
Proof.
  intros o op s n. induction n as [|m IH]; intros streams H; simpl in H; [discriminate|].
  destruct (option_run_on o (op_terminal op) (op_max_steps op) (hd default_stream streams) s) as [r| |] eqn:Hr; try discriminate.
  - destruct (run_simulations o op s m (tl streams)) as [rs| |] eqn:Hrs; try discriminate.
    destruct (IH _ Hrs) as (i & Hi & Hraise & Hbefore).
    assert (Hshift : forall j, nth (S j) streams default_stream = nth j (tl streams) default_stream).
    { intro j. destruct streams as [|x xs]; [destruct j; reflexivity|reflexivity]. }
    exists (S i). split; [lia|]. split; [rewrite Hshift; exact Hraise|].
    intros [|j] Hj.
    + exists r. destruct streams; exact Hr.
    + rewrite Hshift. apply Hbefore. lia.
  - exists 0. split; [lia|]. split; [destruct streams; exact Hr|]. intros j Hj. lia.
Qed.

(* --- THE THEOREM for options ------------------------------------------------ *)
Lemma qnat_nonzero : forall n, 0 < n -> ~ (qnat n == 0)%Q.
Proof. intros n Hn E. unfold qnat, Qeq in E. simpl in E. lia. Qed.

Theorem smdp_outcome_mass : forall gamma n sims P,
  respects okey_eqb P ->
  (mass P (smdp_outcome gamma n sims) == qnat (countb (fun r => P (sim_outcome gamma r)) sims) / qnat n)%Q.
Proof.
  intros gamma n sims P HP. unfold smdp_outcome.
  rewrite mass_counts, (csum_count_all okey_eqb) by exact HP.
  rewrite countb_map. reflexivity.
Qed.

Theorem smdp_outcome_normalised : forall gamma sims,
  0 < List.length sims ->
  (mass (fun _ => true) (smdp_outcome gamma (List.length sims) sims) == 1)%Q.
Proof.
  intros gamma sims Hn. rewrite smdp_outcome_mass by (intros x y _; reflexivity).
  rewrite countb_true. unfold Qdiv. apply Qmult_inv_r. apply qnat_nonzero. exact Hn.
Qed.

Theorem smdp_outcome_distinct : forall gamma n sims,
  keys_distinct okey_eqb (map fst (smdp_outcome gamma n sims)) /\
  Forall (fun kp => (0 < snd kp)%Q) (smdp_outcome gamma n sims) \/ n = 0.
Proof.
  intros gamma n sims. destruct n as [|n]; [right; reflexivity|left]. split.
  - unfold smdp_outcome. rewrite map_map. simpl.
    apply (count_all_distinct okey_eqb okey_eqb_sym).
  - unfold smdp_outcome. apply Forall_forall. intros [k p] Hin.
    apply in_map_iff in Hin. destruct Hin as ([k' c] & E & Hin). inversion E; subst; clear E. simpl.
    pose proof (count_all_pos okey_eqb (map (sim_outcome gamma) sims)) as Hpos.
    rewrite Forall_forall in Hpos. specialize (Hpos _ Hin). simpl in Hpos.
    unfold Qdiv. apply Qmult_lt_0_compat.
    + unfold qnat, Qlt. simpl. lia.
    + apply Qinv_lt_0_compat. unfold qnat, Qlt. simpl. lia.
Qed.

Theorem smdp_expected_reward_mean : forall gamma n sims,
  (smdp_expected_reward (smdp_outcome gamma n sims)
   == lsum (fun k => snd k) (map (sim_outcome gamma) sims) / qnat n)%Q.
Proof.
  intros gamma n sims. unfold smdp_expected_reward, expectation.
  assert (G : forall (d : dist okey) acc,
            (fold_left (fun tot ep => tot + snd (fst ep) * snd ep) d acc == acc + wsum (fun k => snd k) d)%Q).
  { induction d as [|[k p] r IH]; intro acc; simpl; [ring|]. rewrite IH. ring. }
  rewrite G. unfold smdp_outcome. rewrite wsum_counts. unfold count_all.
  rewrite (cw_fold okey_eqb).
  - cbn [cw]. rewrite !Qplus_0_l. reflexivity.
  - intros x y H. apply okey_eqb_true in H. tauto.
Qed.

Theorem smdp_outcome_empirical : forall m s op streams d,
  0 < sm_n m ->
  smdp_nstr m s (Opt op) streams = Ret d ->
  exists gamma sims,
    getattr (sm_mdp m) "discount_rate" = Some (VNum gamma) /\
    List.length sims = sm_n m /\
    (* its own simulations: simulation i is Option.run_on driven by stream i *)
    (forall i, i < sm_n m ->
       option_run_on (sm_mdp m) (op_terminal op) (op_max_steps op) (nth i streams default_stream) s
         = Ret (nth i sims (mkSim [] 0))) /\
    (* each contributes (end state, primitive steps, sum_t gamma^t r_t) *)
    (forall r, In r sims ->
       fst (fst (sim_outcome gamma r)) = final r /\
       snd (fst (sim_outcome gamma r)) = List.length (steps r) /\
       (snd (sim_outcome gamma r) == disc_sum gamma (map s_reward (steps r)))%Q) /\
    (* the distribution is the empirical measure of those triples: for EVERY event *)
    (forall P, respects okey_eqb P ->
       (mass P d == qnat (countb (fun r => P (sim_outcome gamma r)) sims) / qnat (sm_n m))%Q) /\
    (* it is a dict (distinct keys) and sums to 1 *)
    keys_distinct okey_eqb (map fst d) /\
    (mass (fun _ => true) d == 1)%Q /\
    (* the three derived views are push-forwards of it *)
    (forall P, respects nt_eqb P ->
       (mass P (smdp_marginal_nt d) == mass (fun k => P (fst k)) d)%Q) /\
    (forall P : nat -> bool,
       (mass P (smdp_marginal_n d) == mass (fun k => P (fst (fst k))) d)%Q) /\
    (smdp_expected_reward d == lsum (fun k => snd k) (map (sim_outcome gamma) sims) / qnat (sm_n m))%Q.
Proof.
  intros m s op streams d Hn H. unfold smdp_nstr in H.
  destruct (run_simulations (sm_mdp m) op s (sm_n m) streams) as [sims| |] eqn:Hsims; try discriminate.
  destruct (getattr (sm_mdp m) "discount_rate") as [[gamma| | | | | | |]|] eqn:Hg; try discriminate.
  inversion H; subst d; clear H.
  destruct (run_simulations_ret _ _ _ _ _ _ Hsims) as (Hlen & Hnth).
  exists gamma, sims.
  split; [reflexivity|]. split; [exact Hlen|]. split; [exact Hnth|].
  split.
  { intros r Hin. destruct (In_nth _ _ (mkSim [] 0) Hin) as (i & Hi & E).
    rewrite Hlen in Hi. specialize (Hnth i Hi). rewrite E in Hnth.
    exact (sim_outcome_of_run gamma _ _ _ _ _ _ Hnth). }
  split; [intros P HP; apply smdp_outcome_mass; exact HP|].
  split.
  { destruct (smdp_outcome_distinct gamma (sm_n m) sims) as [[Hd _]|E]; [exact Hd|lia]. }
  split.
  { rewrite <- Hlen. apply smdp_outcome_normalised. lia. }
  split.
  { intros P HP. unfold smdp_marginal_nt. apply (mass_marginalize nt_eqb). exact HP. }
  split.
  { intros P. unfold smdp_marginal_n. apply (mass_marginalize Nat.eqb).
    intros x y E. apply Nat.eqb_eq in E. subst. reflexivity. }
  apply smdp_expected_reward_mean.
Qed.

(* and when the call raises the step-limit exception, it is because its own first
   failing simulation reached the limit (all earlier ones returned) *)
Theorem smdp_outcome_raises : forall m s op streams,
  smdp_nstr m s (Opt op) streams = RaiseMaxSteps ->
  exists i, i < sm_n m /\
    option_run_on (sm_mdp m) (op_terminal op) (op_max_steps op) (nth i streams default_stream) s = RaiseMaxSteps /\
    forall j, j < i -> exists r,
      option_run_on (sm_mdp m) (op_terminal op) (op_max_steps op) (nth j streams default_stream) s = Ret r.
Proof.
  intros m s op streams H. unfold smdp_nstr in H.
  destruct (run_simulations (sm_mdp m) op s (sm_n m) streams) as [sims| |] eqn:Hsims; try discriminate.
  - destruct (getattr (sm_mdp m) "discount_rate") as [[gamma| | | | | | |]|]; discriminate.
  - exact (run_simulations_maxsteps _ _ _ _ _ Hsims).
Qed.

(* --- primitive actions ---------------------------------------------------- *)
Theorem smdp_primitive : forall m s a streams acts tr rw,
  getattr (sm_mdp m) "actions" = Some (VActs acts) ->
  getattr (sm_mdp m) "next_state_dist" = Some (VTrans tr) ->
  getattr (sm_mdp m) "reward" = Some (VRew rw) ->
  (memb a (acts s) = false -> smdp_nstr m s (Prim a) streams = RaiseOther) /\
  (memb a (acts s) = true ->
   exists d, smdp_nstr m s (Prim a) streams = Ret d /\
     (* duration 1, one-step outcomes of the base MDP with the base reward *)
     (forall k, In k (map fst d) ->
        exists ns, In ns (map fst (tr s a)) /\ k = (ns, 1, rw s a ns)) /\
     (* same probabilities as the base transition: as a measure ... *)
     (forall P, respects okey_eqb P ->
        (mass P d == mass (fun ns => P (ns, 1%nat, rw s a ns)) (tr s a))%Q) /\
     keys_distinct okey_eqb (map fst d) /\
     (* ... and entry by entry when the transition is a dict *)
     (NoDup (map fst (tr s a)) ->
        d = map (fun ep => ((fst ep, 1, rw s a (fst ep)), snd ep)) (tr s a))).
Proof.
  intros m s a streams acts tr rw Ha Ht Hr. unfold smdp_nstr. rewrite Ha, Ht, Hr. split.
  - intros ->. reflexivity.
  - intros ->. eexists. split; [reflexivity|]. split.
    { intros k Hk. destruct (marginalize_keys okey_eqb _ _ _ Hk) as (ns & Hns & E). exists ns. split; assumption. }
    split.
    { intros P HP. apply (mass_marginalize okey_eqb). exact HP. }
    split.
    { apply (marginalize_distinct okey_eqb okey_eqb_sym). }
    intro Hnd.
    rewrite (marginalize_injective okey_eqb (fun ns => (ns, 1, rw s a ns)) (tr s a)); [reflexivity| |exact Hnd].
    intros x y _ _ E. apply okey_eqb_true in E. simpl in E. tauto.
Qed.

(* --- non-vacuity ------------------------------------------------------------ *)
(* two simulations on the witness MDP (reward 0 replaced by 1 through a class-held MDP):
   stream A reaches the terminal state 1 after one step, stream B after two *)
Definition witness_mdp2 : obj :=
  mkObj [("initial_state_dist", VInit [(O, 1%Q)]); ("actions", VActs (fun _ => [O]));
         ("next_state_dist", VTrans (fun _ _ => [(O, (1 # 2)%Q); (1%nat, (1 # 2)%Q)]));
         ("reward", VRew (fun _ _ _ => 1%Q)); ("is_absorbing", VAbs (fun _ => false))]
        [mkClass "Sub" [("discount_rate", CVal (VNum (1 # 2)%Q))]; witness_class].
Definition witness_option : poption :=
  mkOption (fun _ => [(O, 1%Q)]) (fun _ => true) (fun s => Nat.eqb s 1) 5.
Definition streamA : stream := fun _ => (O, 1%nat).
Definition streamB : stream := fun t => (O, if Nat.eqb t 0 then O else 1%nat).

Example smdp_outcome_nonvacuous :
  exists d, smdp_nstr (mkSMDP witness_mdp2 [witness_option] 2 true) 0 (Opt witness_option) [streamA; streamB] = Ret d /\
            List.length d = 2 /\
            (mass (okey_eqb (1%nat, 1%nat, 1%Q)) d == 1 # 2)%Q /\
            (mass (okey_eqb (1%nat, 2%nat, (3 # 2)%Q)) d == 1 # 2)%Q.
Proof.
  eexists. split; [vm_compute; reflexivity|]. split; [reflexivity|]. split; vm_compute; reflexivity.
Qed.

Example smdp_primitive_nonvacuous :
  exists d, smdp_nstr (mkSMDP witness_mdp2 [] 2 true) 0 (Prim 0) [] = Ret d /\
            d = [((O, 1%nat, 1%Q), (1 # 2)%Q); ((1%nat, 1%nat, 1%Q), (1 # 2)%Q)].
Proof. eexists. split; vm_compute; reflexivity. Qed.
