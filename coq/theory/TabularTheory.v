(* TabularTheory.v — proofs about model/Tabular.v (property C06). *)
From Coq Require Import List Arith Bool QArith Lia Permutation Sorting.Mergesort.
From MSDM Require Import model.Tabular.
Import ListNotations.
Local Open Scope Q_scope.

(* ------------------------------------------------------------------ *)
(* sets as lists                                                       *)
(* ------------------------------------------------------------------ *)
Lemma mem_In : forall x l, mem x l = true <-> In x l.
Proof.
  intros x l. unfold mem. rewrite existsb_exists. split.
  - intros [y [Hy He]]. apply Nat.eqb_eq in He. subst. exact Hy.
  - intros H. exists x. split; [exact H | apply Nat.eqb_refl].
Qed.

Lemma mem_false : forall x l, mem x l = false <-> ~ In x l.
Proof.
  intros x l. rewrite <- mem_In. destruct (mem x l); split; intro H; try discriminate; try reflexivity.
  exfalso. apply H. reflexivity.
Qed.

Lemma In_add : forall x y l, In y (add x l) <-> y = x \/ In y l.
Proof.
  intros x y l. unfold add. destruct (mem x l) eqn:E.
  - apply mem_In in E. split; [intro H; right; exact H | intros [H | H]; [subst; exact E | exact H]].
  - rewrite in_app_iff. simpl. split.
    + intros [H | [H | []]]; [right; exact H | left; symmetry; exact H].
    + intros [H | H]; [right; left; symmetry; exact H | left; exact H].
Qed.

Lemma NoDup_add : forall x l, NoDup l -> NoDup (add x l).
Proof.
  intros x l Hnd. unfold add. destruct (mem x l) eqn:E; [exact Hnd |].
  apply mem_false in E. apply NoDup_rev in Hnd.
  rewrite <- (rev_involutive (l ++ [x])). apply NoDup_rev. rewrite rev_app_distr. simpl.
  constructor; [rewrite <- in_rev; exact E | exact Hnd].
Qed.

Lemma length_add_le : forall x l, (length (add x l) <= S (length l))%nat.
Proof. intros x l. unfold add. destruct (mem x l); [lia | rewrite app_length; simpl; lia]. Qed.

Lemma length_add_new : forall x l, ~ In x l -> length (add x l) = S (length l).
Proof.
  intros x l H. unfold add. apply mem_false in H. rewrite H. rewrite app_length. simpl. lia.
Qed.

Lemma length_add_ge : forall x l, (length l <= length (add x l))%nat.
Proof. intros x l. unfold add. destruct (mem x l); [lia | rewrite app_length; simpl; lia]. Qed.

Lemma In_del : forall x y l, In y (del x l) <-> y <> x /\ In y l.
Proof.
  intros x y l. induction l as [| z t IH]; simpl.
  - tauto.
  - destruct (Nat.eqb x z) eqn:E.
    + apply Nat.eqb_eq in E. subst z. rewrite IH. split; [tauto |].
      intros [Hne [H | H]]; [exfalso; apply Hne; symmetry; exact H | tauto].
    + apply Nat.eqb_neq in E. simpl. rewrite IH. split.
      * intros [H | H]; [subst; split; [intro; apply E; symmetry; assumption | left; reflexivity] | tauto].
      * tauto.
Qed.

Lemma NoDup_del : forall x l, NoDup l -> NoDup (del x l).
Proof.
  intros x l Hnd. induction Hnd as [| z t Hz Hnd IH]; simpl; [constructor |].
  destruct (Nat.eqb x z); [exact IH |].
  constructor; [rewrite In_del; tauto | exact IH].
Qed.

Lemma length_del : forall x l, NoDup l -> In x l -> S (length (del x l)) = length l.
Proof.
  intros x l Hnd. induction Hnd as [| z t Hz Hnd IH]; simpl; [tauto |].
  intros [H | H].
  - subst z. rewrite Nat.eqb_refl. f_equal.
    clear IH Hnd. induction t as [| w t IH]; simpl; [reflexivity |].
    destruct (Nat.eqb x w) eqn:E.
    + apply Nat.eqb_eq in E. subst. exfalso. apply Hz. left. reflexivity.
    + simpl. f_equal. apply IH. intro H. apply Hz. right. exact H.
  - destruct (Nat.eqb x z) eqn:E.
    + apply Nat.eqb_eq in E. subst. contradiction.
    + simpl. f_equal. apply IH. exact H.
Qed.

(* ------------------------------------------------------------------ *)
(* reachability                                                        *)
(* ------------------------------------------------------------------ *)
Section Reach.
Variable m : fmdp.

(* which members have their successors added: what the code does *)
Definition expanded (s : nat) : Prop := In s (init_support m) \/ fabsorbing m s = false.
(* ... and what the property text says *)
Definition expanded_words (s : nat) : Prop := fabsorbing m s = false.

Inductive ReachBy (ex : nat -> Prop) : nat -> Prop :=
| RB_init : forall s, In s (init_support m) -> ReachBy ex s
| RB_step : forall s e, ReachBy ex s -> ex s -> In e (succs m s) -> Qnz (snd e) = true ->
                        ReachBy ex (fst e).
Definition Reach := ReachBy expanded.
Definition ReachWords := ReachBy expanded_words.

(* the inductive set is the least set containing the initial support and closed under
   positive-probability successors of expanded members *)
Definition closed_set (ex : nat -> Prop) (X : nat -> Prop) : Prop :=
  (forall s, In s (init_support m) -> X s) /\
  (forall s e, X s -> ex s -> In e (succs m s) -> Qnz (snd e) = true -> X (fst e)).

Lemma ReachBy_closed : forall ex, closed_set ex (ReachBy ex).
Proof. intro ex. split; [apply RB_init | apply RB_step]. Qed.

Lemma ReachBy_least : forall ex X, closed_set ex X -> forall s, ReachBy ex s -> X s.
Proof.
  intros ex X [H0 H1] s Hr. induction Hr as [s Hs | s e Hr IH Hex He Hp].
  - apply H0. exact Hs.
  - apply (H1 s e); assumption.
Qed.

Lemma init_support_acc : forall l acc,
  NoDup acc ->
  NoDup (fold_left (fun acc e => if Qpos (snd e) then add (fst e) acc else acc) l acc) /\
  forall s, In s (fold_left (fun acc e => if Qpos (snd e) then add (fst e) acc else acc) l acc) <->
            In s acc \/ exists p, In (s, p) l /\ Qpos p = true.
Proof.
  induction l as [| [x p] l IH]; intros acc Hnd; simpl.
  - split; [exact Hnd |]. intro s. split; [tauto | intros [H | [p [[] _]]]; exact H].
  - destruct (Qpos p) eqn:E.
    + destruct (IH (add x acc) (NoDup_add x acc Hnd)) as [H1 H2]. split; [exact H1 |].
      intro s. rewrite H2. rewrite In_add. split.
      * intros [[H | H] | [p' [H Hp]]].
        -- right. exists p. split; [left; subst; reflexivity | exact E].
        -- left. exact H.
        -- right. exists p'. split; [right; exact H | exact Hp].
      * intros [H | [p' [[H | H] Hp]]].
        -- left. right. exact H.
        -- inversion H. subst. left. left. reflexivity.
        -- right. exists p'. split; assumption.
    + destruct (IH acc Hnd) as [H1 H2]. split; [exact H1 |].
      intro s. rewrite H2. split.
      * intros [H | [p' [H Hp]]]; [left; exact H | right; exists p'; split; [right; exact H | exact Hp]].
      * intros [H | [p' [[H | H] Hp]]]; [left; exact H | | right; exists p'; split; assumption].
        inversion H. subst. rewrite E in Hp. discriminate.
Qed.

(* S0 = { e | (e, p) in initial_state_dist().items(), p > 0 }, without duplicates *)
Lemma init_support_spec : forall s,
  In s (init_support m) <-> exists p, In (s, p) (finit m) /\ Qpos p = true.
Proof.
  intro s. unfold init_support. destruct (init_support_acc (finit m) [] (NoDup_nil _)) as [_ H].
  rewrite H. simpl. tauto.
Qed.
Lemma init_support_nodup : NoDup (init_support m).
Proof. unfold init_support. apply (init_support_acc (finit m) [] (NoDup_nil _)). Qed.

(* loop invariant of reachable_states *)
Record Inv (fr vis : list nat) : Prop := {
  inv_nd_fr : NoDup fr;
  inv_nd_vis : NoDup vis;
  inv_fr_vis : incl fr vis;
  inv_sound : forall s, In s vis -> Reach s;
  inv_fr_exp : forall s, In s fr -> expanded s;
  inv_init : incl (init_support m) vis;
  inv_closed : forall s, In s vis -> expanded s -> ~ In s fr ->
               forall e, In e (succs m s) -> Qnz (snd e) = true -> In (fst e) vis
}.

(* invariant inside the for-loops over the successors of the popped state s *)
Record InvIn (s : nat) (fr vis : list nat) : Prop := {
  ii_nd_fr : NoDup fr;
  ii_nd_vis : NoDup vis;
  ii_fr_vis : incl fr vis;
  ii_sound : forall t, In t vis -> Reach t;
  ii_fr_exp : forall t, In t fr -> expanded t;
  ii_init : incl (init_support m) vis;
  ii_s_vis : In s vis;
  ii_s_fr : ~ In s fr;
  ii_closed : forall t, In t vis -> t <> s -> expanded t -> ~ In t fr ->
              forall e, In e (succs m t) -> Qnz (snd e) = true -> In (fst e) vis
}.

Lemma expand1_inv : forall s fr vis e,
  InvIn s fr vis -> (Qnz (snd e) = true -> Reach (fst e)) ->
  InvIn s (fst (expand1 m (fr, vis) e)) (snd (expand1 m (fr, vis) e)) /\
  incl vis (snd (expand1 m (fr, vis) e)) /\
  (Qnz (snd e) = true -> In (fst e) (snd (expand1 m (fr, vis) e))).
Proof.
  intros s fr vis e HI Hr. unfold expand1. simpl.
  destruct (Qnz (snd e)) eqn:Enz; simpl.
  2:{ split; [exact HI | split; [apply incl_refl | discriminate]]. }
  specialize (Hr eq_refl).
  assert (Hincl : incl vis (add (fst e) vis)) by (intros t Ht; apply In_add; right; exact Ht).
  split; [| split; [exact Hincl | intros _; apply In_add; left; reflexivity]].
  destruct HI as [H1 H2 H3 H4 H5 H6 H7 H8 H9].
  destruct (mem (fst e) vis) eqn:Emem; simpl.
  - (* already visited: frontier unchanged, visited unchanged as a set *)
    apply mem_In in Emem.
    assert (Hsame : forall t, In t (add (fst e) vis) <-> In t vis).
    { intro t. rewrite In_add. split; [intros [H | H]; [subst; exact Emem | exact H] | tauto]. }
    constructor; try assumption.
    + apply NoDup_add. exact H2.
    + intros t Ht. apply Hsame. apply H3. exact Ht.
    + intros t Ht. apply H4. apply Hsame. exact Ht.
    + intros t Ht. apply Hsame. apply H6. exact Ht.
    + apply Hsame. exact H7.
    + intros t Ht Hne Hex Hnf e' He' Hp. apply Hsame. apply (H9 t); try assumption. apply Hsame. exact Ht.
  - apply mem_false in Emem.
    assert (Hne_s : fst e <> s) by (intro H; apply Emem; rewrite H; exact H7).
    destruct (fabsorbing m (fst e)) eqn:Eabs; simpl.
    + (* new absorbing state: visited only *)
      constructor; try assumption.
      * apply NoDup_add. exact H2.
      * intros t Ht. apply Hincl. apply H3. exact Ht.
      * intros t Ht. apply In_add in Ht. destruct Ht as [Ht | Ht]; [subst; exact Hr | apply H4; exact Ht].
      * intros t Ht. apply Hincl. apply H6. exact Ht.
      * apply Hincl. exact H7.
      * intros t Ht Hne Hex Hnf e' He' Hp. apply In_add in Ht. destruct Ht as [Ht | Ht].
        -- subst t. destruct Hex as [Hex | Hex].
           ++ exfalso. apply Emem. apply H6. exact Hex.
           ++ rewrite Eabs in Hex. discriminate.
        -- apply Hincl. apply (H9 t); assumption.
    + (* new non-absorbing state: frontier and visited *)
      constructor.
      * apply NoDup_add. exact H1.
      * apply NoDup_add. exact H2.
      * intros t Ht. apply In_add in Ht. apply In_add. destruct Ht as [Ht | Ht]; [left; exact Ht | right; apply H3; exact Ht].
      * intros t Ht. apply In_add in Ht. destruct Ht as [Ht | Ht]; [subst; exact Hr | apply H4; exact Ht].
      * intros t Ht. apply In_add in Ht. destruct Ht as [Ht | Ht]; [subst; right; exact Eabs | apply H5; exact Ht].
      * intros t Ht. apply Hincl. apply H6. exact Ht.
      * apply Hincl. exact H7.
      * intro H. apply In_add in H. destruct H as [H | H]; [apply Hne_s; symmetry; exact H | apply H8; exact H].
      * intros t Ht Hne Hex Hnf e' He' Hp. apply In_add in Ht. destruct Ht as [Ht | Ht].
        -- subst t. exfalso. apply Hnf. apply In_add. left. reflexivity.
        -- apply Hincl. apply (H9 t); try assumption. intro H. apply Hnf. apply In_add. right. exact H.
Qed.

Lemma expand_fold_inv : forall s l fr vis,
  InvIn s fr vis -> (forall e, In e l -> Qnz (snd e) = true -> Reach (fst e)) ->
  let st := fold_left (expand1 m) l (fr, vis) in
  InvIn s (fst st) (snd st) /\ incl vis (snd st) /\
  (forall e, In e l -> Qnz (snd e) = true -> In (fst e) (snd st)).
Proof.
  intros s l. induction l as [| e l IH]; intros fr vis HI Hr; simpl.
  - split; [exact HI | split; [apply incl_refl | intros e []]].
  - destruct (expand1_inv s fr vis e HI (Hr e (or_introl eq_refl))) as [HI' [Hinc Hin]].
    destruct (expand1 m (fr, vis) e) as [fr' vis'] eqn:E. simpl in *.
    destruct (IH fr' vis' HI' (fun e' He' => Hr e' (or_intror He'))) as [HI'' [Hinc' Hin']].
    split; [exact HI'' | split].
    + intros t Ht. apply Hinc'. apply Hinc. exact Ht.
    + intros e' [He' | He'] Hp; [subst e'; apply Hinc'; apply Hin; exact Hp | apply Hin'; assumption].
Qed.

Lemma expand_fold_len : forall l fr vis,
  let st := fold_left (expand1 m) l (fr, vis) in
  (length (fst st) + length vis <= length fr + length (snd st))%nat /\ (length vis <= length (snd st))%nat.
Proof.
  induction l as [| e l IH]; intros fr vis; simpl; [lia |].
  destruct (expand1 m (fr, vis) e) as [fr' vis'] eqn:E.
  assert (H : (length fr' + length vis <= length fr + length vis')%nat /\ (length vis <= length vis')%nat).
  { unfold expand1 in E. simpl in E. destruct (Qnz (snd e)); [| inversion E; subst; lia].
    inversion E; subst; clear E.
    destruct (mem (fst e) vis) eqn:Em; simpl.
    - pose proof (length_add_ge (fst e) vis). lia.
    - apply mem_false in Em. rewrite (length_add_new _ _ Em).
      destruct (fabsorbing m (fst e)); simpl; [lia |].
      pose proof (length_add_le (fst e) fr). lia. }
  specialize (IH fr' vis'). simpl in IH. lia.
Qed.

Lemma popped_in : forall pick k fr, fr <> [] -> In (popped pick k fr) fr.
Proof.
  intros pick k fr Hne. unfold popped. destruct (mem (pick k fr) fr) eqn:E.
  - apply mem_In. exact E.
  - destruct fr; [contradiction | left; reflexivity].
Qed.

(* one iteration of the while loop *)
Lemma step_inv : forall fr vis s,
  Inv fr vis -> In s fr ->
  let st := fold_left (expand1 m) (succs m s) (del s fr, vis) in
  Inv (fst st) (snd st) /\
  (S (length (fst st)) + length vis <= length fr + length (snd st))%nat /\
  (length vis <= length (snd st))%nat.
Proof.
  intros fr vis s [H1 H2 H3 H4 H5 H6 H7] Hs.
  assert (HI : InvIn s (del s fr) vis).
  { constructor; try assumption.
    - apply NoDup_del. exact H1.
    - intros t Ht. apply In_del in Ht. apply H3. tauto.
    - intros t Ht. apply In_del in Ht. apply H5. tauto.
    - apply H3. exact Hs.
    - rewrite In_del. tauto.
    - intros t Ht Hne Hex Hnf. apply (H7 t); try assumption.
      intro H. apply Hnf. apply In_del. tauto. }
  assert (Hr : forall e, In e (succs m s) -> Qnz (snd e) = true -> Reach (fst e)).
  { intros e He Hp. apply (RB_step expanded s e); try assumption; [apply H4; apply H3; exact Hs | apply H5; exact Hs]. }
  destruct (expand_fold_inv s (succs m s) (del s fr) vis HI Hr) as [HI' [Hinc Hin]].
  pose proof (expand_fold_len (succs m s) (del s fr) vis) as Hlen.
  pose proof (length_del s fr H1 Hs) as Hd.
  simpl in *. split; [| lia].
  destruct HI' as [G1 G2 G3 G4 G5 G6 G7 G8 G9].
  constructor; try assumption.
  intros t Ht Hex Hnf e He Hp. destruct (Nat.eq_dec t s) as [-> | Hne].
  - apply Hin; assumption.
  - apply (G9 t); assumption.
Qed.

Variable U : list nat.    (* finitely many reachable states *)
Hypothesis Hfin : forall s, Reach s -> In s U.

Lemma Inv_len : forall fr vis, Inv fr vis -> (length vis <= length U)%nat.
Proof.
  intros fr vis HI. apply NoDup_incl_length; [apply (inv_nd_vis _ _ HI) |].
  intros s Hs. apply Hfin. apply (inv_sound _ _ HI). exact Hs.
Qed.

Lemma loop_spec : forall pick maxs fuel k fr vis pops,
  Inv fr vis ->
  let R := fst (reach_loop m pick maxs fuel k fr vis pops) in
  exists fr', Inv fr' R /\
    ((2 * length U + length fr + 1 <= fuel + 2 * length vis)%nat -> fr' = [] \/ cut maxs R = true).
Proof.
  intros pick maxs fuel. induction fuel as [| f IH]; intros k fr vis pops HI; simpl.
  - exists fr. split; [exact HI |]. intro Hf. pose proof (Inv_len fr vis HI). lia.
  - destruct fr as [| x fr0] eqn:Efr.
    + simpl. exists []. split; [exact HI | intro; left; reflexivity].
    + rewrite <- Efr in *. destruct (cut maxs vis) eqn:Ecut.
      * simpl. exists fr. split; [exact HI | intro; right; exact Ecut].
      * assert (Hne : fr <> []) by (rewrite Efr; discriminate).
        pose proof (popped_in pick k fr Hne) as Hs.
        destruct (step_inv fr vis (popped pick k fr) HI Hs) as [HI' [Hl1 Hl2]].
        simpl in *.
        destruct (IH (S k) _ _ (pops ++ [popped pick k fr]) HI') as [fr' [HI'' Hdone]].
        exists fr'. split; [exact HI'' |]. intro Hf. apply Hdone. lia.
Qed.

Lemma Inv_start : Inv (init_support m) (init_support m).
Proof.
  constructor.
  - apply init_support_nodup.
  - apply init_support_nodup.
  - apply incl_refl.
  - intros s Hs. apply RB_init. exact Hs.
  - intros s Hs. left. exact Hs.
  - apply incl_refl.
  - intros s Hs _ Hn. contradiction.
Qed.

Lemma Inv_closed_complete : forall R, Inv [] R -> forall s, Reach s -> In s R.
Proof.
  intros R HI s Hr. induction Hr as [s Hs | s e Hr IH Hex He Hp].
  - apply (inv_init _ _ HI). exact Hs.
  - apply (inv_closed _ _ HI s IH Hex (fun H => H) e He Hp).
Qed.

(* enough fuel: every pop either shrinks the frontier or grows the visited set *)
Definition enough_fuel (fuel : nat) : Prop := (2 * length U + 1 <= fuel)%nat.

(* reachable_states with a cut-off, for every pop order: duplicate-free, contains the
   positive initial support, contains only reachable states, and is either the full
   reachable set or has at least max_states members *)
Theorem reachable_cutoff_spec_thm : forall pick maxs fuel,
  enough_fuel fuel ->
  let R := reachable m pick maxs fuel in
  NoDup R /\ incl (init_support m) R /\ (forall s, In s R -> Reach s) /\
  ((forall s, Reach s -> In s R) \/ exists k, maxs = Some k /\ (k <= length R)%nat).
Proof.
  intros pick maxs fuel Hf. unfold reachable, reach_run.
  destruct (loop_spec pick maxs fuel O _ _ [] Inv_start) as [fr' [HI Hdone]].
  simpl in *. split; [apply (inv_nd_vis _ _ HI) |]. split; [apply (inv_init _ _ HI) |].
  split; [apply (inv_sound _ _ HI) |].
  unfold enough_fuel in Hf.
  destruct Hdone as [Hd | Hd]; [lia | |].
  - left. subst fr'. apply Inv_closed_complete. exact HI.
  - right. unfold cut in Hd. destruct maxs as [k |]; [| discriminate].
    exists k. split; [reflexivity | apply Nat.leb_le; exact Hd].
Qed.

(* without a cut-off: exactly the least closed set, whatever the pop order *)
Theorem reachable_spec_thm : forall pick fuel,
  enough_fuel fuel -> forall s, In s (reachable m pick None fuel) <-> Reach s.
Proof.
  intros pick fuel Hf s.
  destruct (reachable_cutoff_spec_thm pick None fuel Hf) as [_ [_ [Hs Hc]]].
  split; [apply Hs |]. destruct Hc as [Hc | [k [Hk _]]]; [apply Hc | discriminate].
Qed.

Theorem reachable_order_indep_thm : forall pick1 pick2 fuel1 fuel2,
  enough_fuel fuel1 -> enough_fuel fuel2 ->
  forall s, In s (reachable m pick1 None fuel1) <-> In s (reachable m pick2 None fuel2).
Proof.
  intros. rewrite (reachable_spec_thm pick1 fuel1), (reachable_spec_thm pick2 fuel2); tauto.
Qed.

Theorem reachable_nodup_thm : forall pick maxs fuel, NoDup (reachable m pick maxs fuel).
Proof.
  (* holds for every fuel: it is part of the loop invariant *)
  intros pick maxs fuel. unfold reachable, reach_run.
  destruct (loop_spec pick maxs fuel O _ _ [] Inv_start) as [fr' [HI _]].
  apply (inv_nd_vis _ _ HI).
Qed.

End Reach.

(* ------------------------------------------------------------------ *)
(* arrays filled by assignment                                         *)
(* ------------------------------------------------------------------ *)
Lemma length_upd : forall A i (f : A -> A) l, length (upd i f l) = length l.
Proof. intros A i f l. revert i. induction l as [| x t IH]; intros [| i]; simpl; try reflexivity. f_equal. apply IH. Qed.

Lemma nth_upd : forall A i i' (f : A -> A) l d,
  nth i' (upd i f l) d = if Nat.eqb i i' && Nat.ltb i (length l) then f (nth i l d) else nth i' l d.
Proof.
  intros A i i' f l d. revert i i'. induction l as [| x t IH]; intros i i'.
  - simpl. rewrite andb_false_r. destruct i; reflexivity.
  - destruct i as [| i]; destruct i' as [| i']; simpl; try reflexivity.
    rewrite IH. reflexivity.
Qed.

Lemma nth_repeat_lt : forall A (x d : A) n i, (i < n)%nat -> nth i (repeat x n) d = x.
Proof. intros A x d n. induction n as [| n IH]; intros [| i] H; simpl; try lia; try reflexivity. apply IH. lia. Qed.

Definition dims3 (M : list (list (list Q))) (a b c : nat) : Prop :=
  length M = a /\ forall i, (i < a)%nat -> length (nth i M []) = b /\
                 forall j, (j < b)%nat -> length (nth j (nth i M []) []) = c.
Definition dims2 (M : list (list Q)) (a b : nat) : Prop :=
  length M = a /\ forall i, (i < a)%nat -> length (nth i M []) = b.

Lemma dims3_zeros : forall a b c, dims3 (zeros3 a b c) a b c.
Proof.
  intros a b c. unfold zeros3. split; [apply repeat_length |].
  intros i Hi. rewrite (nth_repeat_lt _ _ _ _ _ Hi). split; [apply repeat_length |].
  intros j Hj. rewrite (nth_repeat_lt _ _ _ _ _ Hj). apply repeat_length.
Qed.
Lemma nth_repeat_any : forall A (x : A) n i, nth i (repeat x n) x = x.
Proof. intros A x n. induction n as [| n IH]; intros [| i]; simpl; try reflexivity. apply IH. Qed.
Lemma get3_zeros : forall a b c i j k, get3 (zeros3 a b c) i j k = 0.
Proof.
  intros a b c i j k. unfold get3, zeros3.
  assert (H1 : nth i (repeat (repeat (repeat 0 c) b) a) [] = repeat (repeat 0 c) b \/
               nth i (repeat (repeat (repeat 0 c) b) a) [] = []).
  { destruct (Nat.lt_ge_cases i a) as [Hi | Hi]; [left; apply nth_repeat_lt; exact Hi | right; apply nth_overflow; rewrite repeat_length; exact Hi]. }
  destruct H1 as [-> | ->]; [| destruct j; destruct k; reflexivity].
  assert (H2 : nth j (repeat (repeat 0 c) b) [] = repeat 0 c \/ nth j (repeat (repeat 0 c) b) [] = []).
  { destruct (Nat.lt_ge_cases j b) as [Hj | Hj]; [left; apply nth_repeat_lt; exact Hj | right; apply nth_overflow; rewrite repeat_length; exact Hj]. }
  destruct H2 as [-> | ->]; [apply nth_repeat_any | destruct k; reflexivity].
Qed.
Lemma dims2_zeros : forall a b, dims2 (zeros2 a b) a b.
Proof.
  intros a b. unfold zeros2. split; [apply repeat_length |].
  intros i Hi. rewrite (nth_repeat_lt _ _ _ _ _ Hi). apply repeat_length.
Qed.
Lemma get2_zeros : forall a b i j, get2 (zeros2 a b) i j = 0.
Proof.
  intros a b i j. unfold get2, zeros2.
  assert (H1 : nth i (repeat (repeat 0 b) a) [] = repeat 0 b \/ nth i (repeat (repeat 0 b) a) [] = []).
  { destruct (Nat.lt_ge_cases i a) as [Hi | Hi]; [left; apply nth_repeat_lt; exact Hi | right; apply nth_overflow; rewrite repeat_length; exact Hi]. }
  destruct H1 as [-> | ->]; [apply nth_repeat_any | destruct j; reflexivity].
Qed.

Lemma dims3_set3 : forall M a b c i j k v, dims3 M a b c -> dims3 (set3 M i j k v) a b c.
Proof.
  intros M a b c i j k v [H1 H2]. unfold set3. split; [rewrite length_upd; exact H1 |].
  intros i0 Hi0. rewrite nth_upd. destruct (Nat.eqb i i0 && Nat.ltb i (length M)) eqn:E.
  - apply andb_true_iff in E. destruct E as [E _]. apply Nat.eqb_eq in E. subst i0.
    destruct (H2 i Hi0) as [G1 G2]. split; [rewrite length_upd; exact G1 |].
    intros j0 Hj0. rewrite nth_upd. destruct (Nat.eqb j j0 && Nat.ltb j (length (nth i M []))) eqn:E'.
    + apply andb_true_iff in E'. destruct E' as [E' _]. apply Nat.eqb_eq in E'. subst j0.
      rewrite length_upd. apply G2. exact Hj0.
    + apply G2. exact Hj0.
  - apply H2. exact Hi0.
Qed.

Lemma get3_set3_same : forall M a b c i j k v,
  dims3 M a b c -> (i < a)%nat -> (j < b)%nat -> (k < c)%nat -> get3 (set3 M i j k v) i j k = v.
Proof.
  intros M a b c i j k v [H1 H2] Hi Hj Hk. unfold get3, set3.
  destruct (H2 i Hi) as [G1 G2]. specialize (G2 j Hj).
  rewrite nth_upd. rewrite Nat.eqb_refl. rewrite H1. apply Nat.ltb_lt in Hi. rewrite Hi. simpl.
  rewrite nth_upd. rewrite Nat.eqb_refl. rewrite G1. apply Nat.ltb_lt in Hj. rewrite Hj. simpl.
  rewrite nth_upd. rewrite Nat.eqb_refl. rewrite G2. apply Nat.ltb_lt in Hk. rewrite Hk. reflexivity.
Qed.

Lemma get3_set3_other : forall M i j k v i' j' k',
  (i, j, k) <> (i', j', k') -> get3 (set3 M i j k v) i' j' k' = get3 M i' j' k'.
Proof.
  intros M i j k v i' j' k' Hne. unfold get3, set3.
  rewrite nth_upd. destruct (Nat.eqb i i' && Nat.ltb i (length M)) eqn:E; [| reflexivity].
  apply andb_true_iff in E. destruct E as [E _]. apply Nat.eqb_eq in E. subst i'.
  rewrite nth_upd. destruct (Nat.eqb j j' && Nat.ltb j (length (nth i M []))) eqn:E'; [| reflexivity].
  apply andb_true_iff in E'. destruct E' as [E' _]. apply Nat.eqb_eq in E'. subst j'.
  rewrite nth_upd. destruct (Nat.eqb k k' && Nat.ltb k (length (nth j (nth i M []) []))) eqn:E''; [| reflexivity].
  apply andb_true_iff in E''. destruct E'' as [E'' _]. apply Nat.eqb_eq in E''. subst k'.
  exfalso. apply Hne. reflexivity.
Qed.

Lemma dims2_set2 : forall M a b i j v, dims2 M a b -> dims2 (set2 M i j v) a b.
Proof.
  intros M a b i j v [H1 H2]. unfold set2. split; [rewrite length_upd; exact H1 |].
  intros i0 Hi0. rewrite nth_upd. destruct (Nat.eqb i i0 && Nat.ltb i (length M)) eqn:E.
  - apply andb_true_iff in E. destruct E as [E _]. apply Nat.eqb_eq in E. subst i0.
    rewrite length_upd. apply H2. exact Hi0.
  - apply H2. exact Hi0.
Qed.
Lemma get2_set2_same : forall M a b i j v,
  dims2 M a b -> (i < a)%nat -> (j < b)%nat -> get2 (set2 M i j v) i j = v.
Proof.
  intros M a b i j v [H1 H2] Hi Hj. unfold get2, set2. specialize (H2 i Hi).
  rewrite nth_upd. rewrite Nat.eqb_refl. rewrite H1. apply Nat.ltb_lt in Hi. rewrite Hi. simpl.
  rewrite nth_upd. rewrite Nat.eqb_refl. rewrite H2. apply Nat.ltb_lt in Hj. rewrite Hj. reflexivity.
Qed.
Lemma get2_set2_other : forall M i j v i' j',
  (i, j) <> (i', j') -> get2 (set2 M i j v) i' j' = get2 M i' j'.
Proof.
  intros M i j v i' j' Hne. unfold get2, set2.
  rewrite nth_upd. destruct (Nat.eqb i i' && Nat.ltb i (length M)) eqn:E; [| reflexivity].
  apply andb_true_iff in E. destruct E as [E _]. apply Nat.eqb_eq in E. subst i'.
  rewrite nth_upd. destruct (Nat.eqb j j' && Nat.ltb j (length (nth i M []))) eqn:E'; [| reflexivity].
  apply andb_true_iff in E'. destruct E' as [E' _]. apply Nat.eqb_eq in E'. subst j'.
  exfalso. apply Hne. reflexivity.
Qed.

Lemma triple_dec : forall x y : nat * nat * nat, {x = y} + {x <> y}.
Proof. decide equality; try apply Nat.eq_dec. decide equality; apply Nat.eq_dec. Qed.
Lemma pair_dec : forall x y : nat * nat, {x = y} + {x <> y}.
Proof. decide equality; apply Nat.eq_dec. Qed.

(* last-write-wins: if every assignment to (i,j,k) stores a value == v, then after the
   loop the entry is == v, provided it was == v before or at least one assignment happens *)
Lemma fill3_inv : forall ws M a b c i j k v,
  dims3 M a b c -> (i < a)%nat -> (j < b)%nat -> (k < c)%nat ->
  (forall w, In w ws -> fst w = (i, j, k) -> snd w == v) ->
  (get3 M i j k == v \/ exists w, In w ws /\ fst w = (i, j, k)) ->
  get3 (fill3 ws M) i j k == v /\ dims3 (fill3 ws M) a b c.
Proof.
  induction ws as [| w ws IH]; intros M a b c i j k v Hd Hi Hj Hk Hall Hex; simpl.
  - split; [| exact Hd]. destruct Hex as [H | [w [[] _]]]. exact H.
  - destruct w as [[[i0 j0] k0] v0]. apply IH; try assumption.
    + apply dims3_set3. exact Hd.
    + intros w Hw. apply Hall. right. exact Hw.
    + destruct (triple_dec (i0, j0, k0) (i, j, k)) as [E | E].
      * left. inversion E. subst. rewrite (get3_set3_same M a b c); try assumption.
        apply (Hall (i, j, k, v0)); [left; reflexivity | reflexivity].
      * rewrite get3_set3_other; [| exact E].
        destruct Hex as [H | [w [[Hw | Hw] Hf]]]; [left; exact H | | right; exists w; split; assumption].
        subst w. simpl in Hf. contradiction.
Qed.

Lemma fill2_inv : forall ws M a b i j v,
  dims2 M a b -> (i < a)%nat -> (j < b)%nat ->
  (forall w, In w ws -> fst w = (i, j) -> snd w == v) ->
  (get2 M i j == v \/ exists w, In w ws /\ fst w = (i, j)) ->
  get2 (fill2 ws M) i j == v /\ dims2 (fill2 ws M) a b.
Proof.
  induction ws as [| w ws IH]; intros M a b i j v Hd Hi Hj Hall Hex; simpl.
  - split; [| exact Hd]. destruct Hex as [H | [w [[] _]]]. exact H.
  - destruct w as [[i0 j0] v0]. apply IH; try assumption.
    + apply dims2_set2. exact Hd.
    + intros w Hw. apply Hall. right. exact Hw.
    + destruct (pair_dec (i0, j0) (i, j)) as [E | E].
      * left. inversion E. subst. rewrite (get2_set2_same M a b); try assumption.
        apply (Hall (i, j, v0)); [left; reflexivity | reflexivity].
      * rewrite get2_set2_other; [| exact E].
        destruct Hex as [H | [w [[Hw | Hw] Hf]]]; [left; exact H | | right; exists w; split; assumption].
        subst w. simpl in Hf. contradiction.
Qed.

Lemma fill3_dims : forall ws M a b c, dims3 M a b c -> dims3 (fill3 ws M) a b c.
Proof.
  induction ws as [| w ws IH]; intros M a b c Hd; simpl; [exact Hd |].
  destruct w as [[[i0 j0] k0] v0]. apply IH. apply dims3_set3. exact Hd.
Qed.
Lemma fill2_dims : forall ws M a b, dims2 M a b -> dims2 (fill2 ws M) a b.
Proof.
  induction ws as [| w ws IH]; intros M a b Hd; simpl; [exact Hd |].
  destruct w as [[i0 j0] v0]. apply IH. apply dims2_set2. exact Hd.
Qed.

(* enumerate / index *)
Lemma In_enum_gen : forall A (l : list A) a i x,
  In (i, x) (combine (seq a (length l)) l) <-> (a <= i)%nat /\ nth_error l (i - a) = Some x.
Proof.
  intros A l. induction l as [| y t IH]; intros a i x; simpl.
  - split; [tauto | intros [_ H]; destruct (i - a)%nat; discriminate].
  - rewrite IH. split.
    + intros [H | [H1 H2]].
      * inversion H. subst. rewrite Nat.sub_diag. split; [lia | reflexivity].
      * split; [lia |]. replace (i - a)%nat with (S (i - S a)) by lia. exact H2.
    + intros [H1 H2]. destruct (Nat.eq_dec a i) as [-> | Hne].
      * rewrite Nat.sub_diag in H2. inversion H2. left. reflexivity.
      * right. split; [lia |]. replace (i - a)%nat with (S (i - S a)) in H2 by lia. exact H2.
Qed.
Lemma In_enum : forall A (l : list A) i x, In (i, x) (enum l) <-> nth_error l i = Some x.
Proof. intros. unfold enum. rewrite In_enum_gen. rewrite Nat.sub_0_r. split; [tauto | split; [lia | assumption]]. Qed.

Lemma index_le : forall x l, (index x l <= length l)%nat.
Proof. intros x l. induction l as [| y t IH]; simpl; [lia |]. destruct (Nat.eqb x y); lia. Qed.
Lemma index_lt_nth : forall x l d, (index x l < length l)%nat -> nth (index x l) l d = x.
Proof.
  intros x l d. induction l as [| y t IH]; simpl; [lia |].
  destruct (Nat.eqb x y) eqn:E; [intros _; apply Nat.eqb_eq in E; symmetry; exact E | intro H; apply IH; lia].
Qed.
Lemma index_nth : forall l i d, NoDup l -> (i < length l)%nat -> index (nth i l d) l = i.
Proof.
  intros l i d Hnd. revert i. induction Hnd as [| y t Hy Hnd IH]; intros i Hi; simpl in *; [lia |].
  destruct i as [| i].
  - rewrite Nat.eqb_refl. reflexivity.
  - destruct (Nat.eqb (nth i t d) y) eqn:E.
    + apply Nat.eqb_eq in E. exfalso. apply Hy. rewrite <- E. apply nth_In. lia.
    + f_equal. apply IH. lia.
Qed.
Lemma index_In : forall x l, In x l -> (index x l < length l)%nat.
Proof.
  intros x l. induction l as [| y t IH]; simpl; [tauto |].
  destruct (Nat.eqb x y) eqn:E; [lia |]. intros [H | H]; [subst; rewrite Nat.eqb_refl in E; discriminate | specialize (IH H); lia].
Qed.

Lemma find_key : forall (d : dist) e,
  NoDup (map fst d) -> In e d -> find (fun x => Nat.eqb (fst x) (fst e)) d = Some e.
Proof.
  intros d e. induction d as [| y t IH]; simpl; [tauto |].
  intros Hnd [H | H].
  - subst. rewrite Nat.eqb_refl. reflexivity.
  - inversion Hnd as [| ? ? Hy Hnd']; subst. destruct (Nat.eqb (fst y) (fst e)) eqn:E.
    + apply Nat.eqb_eq in E. exfalso. apply Hy. rewrite E. apply in_map. exact H.
    + apply IH; assumption.
Qed.

Section Matrices.
Variable m : fmdp.
Variables sl al : list nat.
Hypothesis Hsl : NoDup sl.
Hypothesis Hal : NoDup al.

(* both 3-d arrays are filled by the same loop nest; only the stored value differs *)
Definition writes_g (val : nat -> nat -> nat * Q -> Q) : list (nat * nat * nat * Q) :=
  flat_map (fun ss => flat_map (fun a => flat_map (fun e =>
      if Qnz (snd e) then [(fst ss, index a al, index (fst e) sl, val (snd ss) a e)] else [])
    (fnext m (snd ss) a)) (factions m (snd ss))) (enum sl).

Lemma In_writes_g : forall val w,
  In w (writes_g val) <->
  exists si s a e, nth_error sl si = Some s /\ In a (factions m s) /\ In e (fnext m s a) /\
                   Qnz (snd e) = true /\ w = (si, index a al, index (fst e) sl, val s a e).
Proof.
  intros val w. unfold writes_g. rewrite in_flat_map. split.
  - intros [[si s] [Hss H]]. apply In_enum in Hss. simpl in H.
    apply in_flat_map in H. destruct H as [a [Ha H]]. apply in_flat_map in H. destruct H as [e [He H]].
    destruct (Qnz (snd e)) eqn:E; [| destruct H]. destruct H as [H | []].
    exists si, s, a, e. repeat split; try assumption. symmetry. exact H.
  - intros [si [s [a [e [Hs [Ha [He [Hp Hw]]]]]]]]. exists (si, s). split; [apply In_enum; exact Hs |].
    simpl. apply in_flat_map. exists a. split; [exact Ha |]. apply in_flat_map. exists e. split; [exact He |].
    rewrite Hp. left. symmetry. exact Hw.
Qed.

Definition entry_g (val : nat -> nat -> nat * Q -> Q) (s a ns : nat) : Q :=
  if mem a (factions m s) then
    match find (fun e => Nat.eqb (fst e) ns) (fnext m s a) with
    | Some e => if Qnz (snd e) then val s a e else 0
    | None => 0
    end
  else 0.

Lemma fill_g_exact : forall val i j k,
  (i < length sl)%nat -> (j < length al)%nat -> (k < length sl)%nat ->
  NoDup (map fst (fnext m (nth i sl O) (nth j al O))) ->
  get3 (fill3 (writes_g val) (zeros3 (length sl) (length al) (length sl))) i j k
  == entry_g val (nth i sl O) (nth j al O) (nth k sl O).
Proof.
  intros val i j k Hi Hj Hk Hkeys.
  set (s := nth i sl O) in *. set (a := nth j al O) in *. set (ns := nth k sl O) in *.
  apply (fill3_inv (writes_g val) _ (length sl) (length al) (length sl)); try assumption.
  - apply dims3_zeros.
  - (* every assignment to (i,j,k) stores entry_g *)
    intros w Hw Hidx. apply In_writes_g in Hw.
    destruct Hw as [si [s' [a' [e [Hs [Ha [He [Hp Hw]]]]]]]]. subst w. simpl in *. inversion Hidx as [[E1 E2 E3]].
    subst si. assert (s' = s) by (unfold s; symmetry; apply nth_error_nth; exact Hs). subst s'.
    assert (a' = a).
    { unfold a. rewrite <- E2. symmetry. apply index_lt_nth. rewrite E2. exact Hj. }
    subst a'.
    assert (Hns : fst e = ns).
    { unfold ns. rewrite <- E3. symmetry. apply index_lt_nth. rewrite E3. exact Hk. }
    unfold entry_g. apply mem_In in Ha. rewrite Ha. rewrite <- Hns.
    rewrite (find_key _ e Hkeys He). rewrite Hp. apply Qeq_refl.
  - unfold entry_g. destruct (mem a (factions m s)) eqn:Ea; [| left; rewrite get3_zeros; apply Qeq_refl].
    destruct (find (fun e => Nat.eqb (fst e) ns) (fnext m s a)) as [e |] eqn:Ef; [| left; rewrite get3_zeros; apply Qeq_refl].
    destruct (Qnz (snd e)) eqn:Ep; [| left; rewrite get3_zeros; apply Qeq_refl].
    right. apply find_some in Ef. destruct Ef as [He Hk']. apply Nat.eqb_eq in Hk'.
    exists (i, index a al, index (fst e) sl, val s a e). split.
    + apply In_writes_g. exists i, s, a, e. repeat split; try assumption.
      * unfold s. apply nth_error_nth'. exact Hi.
      * apply mem_In. exact Ea.
    + simpl. unfold a. rewrite (index_nth al j O Hal Hj). rewrite Hk'. unfold ns.
      rewrite (index_nth sl k O Hsl Hk). reflexivity.
Qed.

Lemma writes_tf_g : writes_tf m sl al = writes_g (fun _ _ e => snd e).
Proof. reflexivity. Qed.
Lemma writes_rf_g : writes_rf m sl al = writes_g (fun s a e => freward m s a (fst e)).
Proof. reflexivity. Qed.

(* tf[si, ai, nsi] = next_state_dist(s, a).prob(ns) for available actions, 0 otherwise *)
Theorem transition_matrix_exact : forall i j k,
  (i < length sl)%nat -> (j < length al)%nat -> (k < length sl)%nat ->
  NoDup (map fst (fnext m (nth i sl O) (nth j al O))) ->
  get3 (transition_matrix m sl al) i j k ==
  if mem (nth j al O) (factions m (nth i sl O)) then prob (fnext m (nth i sl O) (nth j al O)) (nth k sl O) else 0.
Proof.
  intros i j k Hi Hj Hk Hkeys. unfold transition_matrix. rewrite writes_tf_g.
  rewrite (fill_g_exact _ i j k Hi Hj Hk Hkeys). unfold entry_g, prob.
  destruct (mem (nth j al O) (factions m (nth i sl O))); [| apply Qeq_refl].
  destruct (find _ _) as [e |]; [| apply Qeq_refl].
  unfold Qnz. destruct (Qeq_bool (snd e) 0) eqn:E; simpl; [| apply Qeq_refl].
  apply Qeq_bool_iff in E. symmetry. exact E.
Qed.

(* rf[si, ai, nsi] = reward(s, a, ns) exactly where the transition probability is non-zero *)
Theorem reward_matrix_exact : forall i j k,
  (i < length sl)%nat -> (j < length al)%nat -> (k < length sl)%nat ->
  NoDup (map fst (fnext m (nth i sl O) (nth j al O))) ->
  get3 (reward_matrix m sl al) i j k ==
  if mem (nth j al O) (factions m (nth i sl O)) && Qnz (prob (fnext m (nth i sl O) (nth j al O)) (nth k sl O))
  then freward m (nth i sl O) (nth j al O) (nth k sl O) else 0.
Proof.
  intros i j k Hi Hj Hk Hkeys. unfold reward_matrix. rewrite writes_rf_g.
  rewrite (fill_g_exact _ i j k Hi Hj Hk Hkeys). unfold entry_g, prob.
  destruct (mem (nth j al O) (factions m (nth i sl O))); simpl; [| apply Qeq_refl].
  destruct (find _ _) as [e |] eqn:Ef; [| simpl; apply Qeq_refl].
  apply find_some in Ef. destruct Ef as [_ Ef]. apply Nat.eqb_eq in Ef. rewrite Ef.
  destruct (Qnz (snd e)); apply Qeq_refl.
Qed.

Lemma In_writes_am : forall w,
  In w (writes_am m sl al) <->
  exists si s a, nth_error sl si = Some s /\ In a (factions m s) /\ w = (si, index a al, 1).
Proof.
  intro w. unfold writes_am. rewrite in_flat_map. split.
  - intros [[si s] [Hss H]]. apply In_enum in Hss. simpl in H. apply in_map_iff in H.
    destruct H as [a [Hw Ha]]. exists si, s, a. repeat split; try assumption. symmetry. exact Hw.
  - intros [si [s [a [Hs [Ha Hw]]]]]. exists (si, s). split; [apply In_enum; exact Hs |].
    simpl. apply in_map_iff. exists a. split; [symmetry; exact Hw | exact Ha].
Qed.

(* am[si, ai] = 1 for available actions, 0 otherwise *)
Theorem action_matrix_exact : forall i j,
  (i < length sl)%nat -> (j < length al)%nat ->
  get2 (action_matrix m sl al) i j == if mem (nth j al O) (factions m (nth i sl O)) then 1 else 0.
Proof.
  intros i j Hi Hj. unfold action_matrix.
  apply (fill2_inv (writes_am m sl al) _ (length sl) (length al)); try assumption.
  - apply dims2_zeros.
  - intros w Hw Hidx. apply In_writes_am in Hw. destruct Hw as [si [s [a [Hs [Ha Hw]]]]]. subst w.
    simpl in *. inversion Hidx as [[E1 E2]]. subst si.
    assert (s = nth i sl O) by (symmetry; apply nth_error_nth; exact Hs). subst s.
    assert (a = nth j al O) by (rewrite <- E2; symmetry; apply index_lt_nth; rewrite E2; exact Hj). subst a.
    apply mem_In in Ha. rewrite E2. rewrite Ha. apply Qeq_refl.
  - destruct (mem (nth j al O) (factions m (nth i sl O))) eqn:Ea; [| left; rewrite get2_zeros; apply Qeq_refl].
    right. exists (i, index (nth j al O) al, 1). split.
    + apply In_writes_am. exists i, (nth i sl O), (nth j al O). repeat split.
      * apply nth_error_nth'. exact Hi.
      * apply mem_In. exact Ea.
    + simpl. rewrite (index_nth al j O Hal Hj). reflexivity.
Qed.

(* initial_state_vec[si] = initial_state_dist().prob(s) *)
Theorem initial_state_vec_exact : forall i,
  (i < length sl)%nat -> nth i (initial_state_vec m sl) 0 = prob (finit m) (nth i sl O).
Proof.
  intros i Hi. unfold initial_state_vec.
  rewrite (nth_indep _ 0 (prob (finit m) O)); [apply map_nth | rewrite map_length; exact Hi].
Qed.

Lemma transition_matrix_dims : dims3 (transition_matrix m sl al) (length sl) (length al) (length sl).
Proof. apply fill3_dims. apply dims3_zeros. Qed.
Lemma reward_matrix_dims : dims3 (reward_matrix m sl al) (length sl) (length al) (length sl).
Proof. apply fill3_dims. apply dims3_zeros. Qed.
Lemma action_matrix_dims : dims2 (action_matrix m sl al) (length sl) (length al).
Proof. apply fill2_dims. apply dims2_zeros. Qed.

End Matrices.

(* ------------------------------------------------------------------ *)
(* state_list / action_list                                            *)
(* ------------------------------------------------------------------ *)
Lemma order_set_perm : forall cmp ord l,
  (forall l, Permutation (ord l) l) -> Permutation (order_set cmp ord l) l.
Proof.
  intros cmp ord l Hord. unfold order_set. destruct (sortable cmp l); [| apply Hord].
  apply Permutation_sym. apply NatSort.Permuted_sort.
Qed.

Lemma order_set_sorted : forall cmp ord l,
  sortable cmp l = true -> Sorted.Sorted (fun x y => is_true (NatOrder.leb x y)) (order_set cmp ord l).
Proof. intros cmp ord l H. unfold order_set. rewrite H. apply NatSort.Sorted_sort. Qed.

(* inferred state list: no duplicates, exactly the reachable states, in sorted order
   when the labels are sortable; explicit list: returned as given *)
Theorem state_list_spec_thm : forall m U cmp ord pick fuel,
  (forall s, Reach m s -> In s U) -> enough_fuel U fuel ->
  (forall l, Permutation (ord l) l) ->
  let sl := state_list m None cmp ord pick fuel in
  NoDup sl /\ (forall s, In s sl <-> Reach m s) /\
  (sortable cmp (reachable m pick None fuel) = true ->
   Sorted.Sorted (fun x y => is_true (NatOrder.leb x y)) sl).
Proof.
  intros m U cmp ord pick fuel Hfin Hfuel Hord. simpl.
  pose proof (order_set_perm cmp ord (reachable m pick None fuel) Hord) as Hp.
  split; [| split].
  - apply (Permutation_NoDup (Permutation_sym Hp)). apply (reachable_nodup_thm m U Hfin).
  - intro s. rewrite <- (reachable_spec_thm m U Hfin pick fuel Hfuel s). split.
    + apply Permutation_in. exact Hp.
    + apply Permutation_in. apply Permutation_sym. exact Hp.
  - apply order_set_sorted.
Qed.

Lemma state_list_explicit : forall m l cmp ord pick fuel, state_list m (Some l) cmp ord pick fuel = l.
Proof. reflexivity. Qed.

Lemma action_set_acc : forall m sl acc,
  NoDup acc ->
  NoDup (fold_left (fun acc s => fold_left (fun acc a => add a acc) (factions m s) acc) sl acc) /\
  forall a, In a (fold_left (fun acc s => fold_left (fun acc a => add a acc) (factions m s) acc) sl acc) <->
            In a acc \/ exists s, In s sl /\ In a (factions m s).
Proof.
  intros m sl. induction sl as [| s sl IH]; intros acc Hnd; simpl.
  - split; [exact Hnd |]. intro a. split; [tauto | intros [H | [s [[] _]]]; exact H].
  - assert (Hin : forall l acc0, NoDup acc0 ->
              NoDup (fold_left (fun acc a => add a acc) l acc0) /\
              forall a, In a (fold_left (fun acc a => add a acc) l acc0) <-> In a acc0 \/ In a l).
    { induction l as [| x l IHl]; intros acc0 Hnd0; simpl.
      - split; [exact Hnd0 | intro a; tauto].
      - destruct (IHl (add x acc0) (NoDup_add x acc0 Hnd0)) as [G1 G2]. split; [exact G1 |].
        intro a. rewrite G2. rewrite In_add. split; [intros [[H | H] | H] | intros [H | [H | H]]]; auto. }
    destruct (Hin (factions m s) acc Hnd) as [G1 G2].
    destruct (IH _ G1) as [K1 K2]. split; [exact K1 |].
    intro a. rewrite K2. rewrite G2. split.
    + intros [[H | H] | [s' [Hs' Ha]]]; [left; exact H | right; exists s; split; [left; reflexivity | exact H] |
                                        right; exists s'; split; [right; exact Hs' | exact Ha]].
    + intros [H | [s' [[Hs' | Hs'] Ha]]]; [left; left; exact H | subst; left; right; exact Ha | right; exists s'; split; assumption].
Qed.

(* inferred action list: no duplicates, exactly the union of actions(s) over the state list *)
Theorem action_list_spec_thm : forall m sl cmp ord,
  (forall l, Permutation (ord l) l) ->
  let al := action_list m sl None cmp ord in
  NoDup al /\ (forall a, In a al <-> exists s, In s sl /\ In a (factions m s)) /\
  (sortable cmp (action_set m sl) = true -> Sorted.Sorted (fun x y => is_true (NatOrder.leb x y)) al).
Proof.
  intros m sl cmp ord Hord. simpl.
  pose proof (order_set_perm cmp ord (action_set m sl) Hord) as Hp.
  destruct (action_set_acc m sl [] (NoDup_nil _)) as [H1 H2]. fold (action_set m sl) in H1, H2.
  split; [| split].
  - apply (Permutation_NoDup (Permutation_sym Hp)). exact H1.
  - intro a. split.
    + intro Ha. apply (Permutation_in _ Hp) in Ha. apply H2 in Ha. destruct Ha as [[] | Ha]. exact Ha.
    + intro Ha. apply (Permutation_in _ (Permutation_sym Hp)). apply H2. right. exact Ha.
  - apply order_set_sorted.
Qed.

(* ------------------------------------------------------------------ *)
(* the property's wording of reachability, and its refutation          *)
(* ------------------------------------------------------------------ *)
(* "successors of absorbing states not expanded", read literally *)
Definition reachable_spec_full_stmt : Prop :=
  forall m U pick fuel, (forall s, Reach m s -> In s U) -> enough_fuel U fuel ->
  forall s, In s (reachable m pick None fuel) <-> ReachWords m s.

(* witness: state 0 is initial and absorbing, and moves to state 1 with probability 1 *)
Definition refute_mdp : fmdp :=
  mkF [(O, 1)] (fun _ => [O]) (fun _ _ => [(1%nat, 1)]) (fun _ _ _ => 0) (fun s => Nat.eqb s O) (9 # 10).

Lemma refute_reach_U : forall s, Reach refute_mdp s -> In s [O; 1%nat].
Proof.
  intros s H. induction H as [s Hs | s e Hr IH Hex He Hp].
  - simpl in Hs. destruct Hs as [<- | []]. left. reflexivity.
  - unfold succs in He. simpl in He. destruct He as [<- | []]. right. left. reflexivity.
Qed.

Lemma refute_words : forall s, ReachWords refute_mdp s -> s = O.
Proof.
  intros s H. induction H as [s Hs | s e Hr IH Hex He Hp].
  - simpl in Hs. destruct Hs as [<- | []]. reflexivity.
  - subst s. unfold expanded_words in Hex. simpl in Hex. discriminate.
Qed.

Theorem reachable_spec_full_refuted_thm :
  exists m U pick fuel s,
    (forall s, Reach m s -> In s U) /\ enough_fuel U fuel /\
    In s (init_support m) /\ fabsorbing m s = true /\
    In (1%nat) (reachable m pick None fuel) /\ ~ ReachWords m (1%nat).
Proof.
  exists refute_mdp, [O; 1%nat], pick_head, 5%nat, O.
  split; [exact refute_reach_U |]. split; [unfold enough_fuel; simpl; lia |].
  split; [left; reflexivity |]. split; [reflexivity |].
  split; [vm_compute; right; left; reflexivity |].
  intro H. apply refute_words in H. discriminate.
Qed.

Corollary reachable_spec_full_false : ~ reachable_spec_full_stmt.
Proof.
  intro H. destruct reachable_spec_full_refuted_thm as [m [U [pick [fuel [s [H1 [H2 [_ [_ [H3 H4]]]]]]]]]].
  apply H4. apply (H m U pick fuel H1 H2). exact H3.
Qed.

(* ... and it does hold whenever absorbing initial states have no positive-probability
   successor other than themselves (e.g. they self-loop) *)
Theorem reachable_spec_full_when_thm : forall m U pick fuel,
  (forall s, Reach m s -> In s U) -> enough_fuel U fuel ->
  (forall s e, In s (init_support m) -> fabsorbing m s = true -> In e (succs m s) ->
               Qnz (snd e) = true -> fst e = s) ->
  forall s, In s (reachable m pick None fuel) <-> ReachWords m s.
Proof.
  intros m U pick fuel Hfin Hfuel Hself s. rewrite (reachable_spec_thm m U Hfin pick fuel Hfuel). split.
  - intro H. induction H as [s Hs | s e Hr IH Hex He Hp].
    + apply RB_init. exact Hs.
    + destruct (fabsorbing m s) eqn:Eab.
      * destruct Hex as [Hex | Hex]; [| rewrite Eab in Hex; discriminate].
        rewrite (Hself s e Hex Eab He Hp). exact IH.
      * apply (RB_step m (expanded_words m) s e); try assumption.
  - intro H. induction H as [s Hs | s e Hr IH Hex He Hp].
    + apply RB_init. exact Hs.
    + apply (RB_step m (expanded m) s e); try assumption. right. exact Hex.
Qed.

(* ------------------------------------------------------------------ *)
(* quick constructors                                                  *)
(* ------------------------------------------------------------------ *)
Theorem quick_equiv_thm : forall m, quick_wrap m = Some m.
Proof. intros [i a n r b g]. reflexivity. Qed.

(* constants / deterministic variants denote the obvious functions *)
Theorem quick_variants_thm : forall nsd rw ac ini isabs nxt ist g m',
  quick nsd rw ac ini isabs nxt ist g = Some m' ->
  (forall s, factions m' s = match ac with AConst l => l | AFun f => f s end) /\
  (forall s a ns, freward m' s a ns = match rw with RConst r => r | RFun f => f s a ns end) /\
  (forall s a, fnext m' s a = match nxt with
                              | Some f => [(f s a, 1)]
                              | None => match nsd with Some d => d s a | None => [] end
                              end) /\
  finit m' = (match ist with
              | Some s => [(s, 1)]
              | None => match ini with Some (IFun f) => f tt | Some (IDist d) => d | None => [] end
              end) /\
  fabsorbing m' = isabs /\ fgamma m' = g.
Proof.
  intros nsd rw ac ini isabs nxt ist g m' H. unfold quick in H.
  destruct nxt as [f |]; destruct ist as [s0 |]; destruct nsd as [d |]; destruct ini as [[d0 | f0] |];
    simpl in H; try discriminate; inversion H; subst; clear H; simpl;
    (repeat split; try reflexivity; intros; destruct ac; destruct rw; reflexivity).
Qed.

(* ------------------------------------------------------------------ *)
(* from_matrices o to_matrices                                         *)
(* ------------------------------------------------------------------ *)
Lemma Qnz_compat : forall x y, x == y -> Qnz x = Qnz y.
Proof.
  intros x y H. unfold Qnz. f_equal.
  destruct (Qeq_bool x 0) eqn:E1; destruct (Qeq_bool y 0) eqn:E2; try reflexivity.
  - apply Qeq_bool_iff in E1. apply Qeq_bool_neq in E2. exfalso. apply E2. rewrite <- H. exact E1.
  - apply Qeq_bool_iff in E2. apply Qeq_bool_neq in E1. exfalso. apply E1. rewrite H. exact E2.
Qed.

Lemma Qpos_clip : forall t, 0 <= t -> (if Qpos t then t else 0) == t.
Proof.
  intros t Ht. unfold Qpos. destruct (Qle_bool t 0) eqn:E; simpl; [| apply Qeq_refl].
  apply Qle_bool_iff in E. apply Qle_antisym; assumption.
Qed.

Lemma Qnz_1 : Qnz 1 = true. Proof. reflexivity. Qed.
Lemma Qnz_0 : Qnz 0 = false. Proof. reflexivity. Qed.

(* zip(labels, row) filtered by a predicate on the number: membership and lookup by position *)
Lemma zip_filter_keys : forall (P : Q -> bool) (l : list nat) (r : list Q) x,
  In x (map fst (filter (fun e => P (snd e)) (combine l r))) -> In x l.
Proof.
  intros P l. induction l as [| y l IH]; intros [| v r] x; simpl; try tauto.
  destruct (P v); simpl; [intros [H | H]; [left; exact H | right; apply (IH r); exact H] | intro H; right; apply (IH r); exact H].
Qed.

Lemma zip_filter_nodup : forall (P : Q -> bool) (l : list nat) (r : list Q),
  NoDup l -> NoDup (map fst (filter (fun e => P (snd e)) (combine l r))).
Proof.
  intros P l. induction l as [| y l IH]; intros [| v r] Hnd; simpl; try constructor.
  inversion Hnd as [| ? ? Hy Hnd']; subst.
  destruct (P v); simpl; [constructor; [intro H; apply Hy; apply (zip_filter_keys P l r); exact H | apply IH; exact Hnd'] | apply IH; exact Hnd'].
Qed.

Lemma zip_filter_mem : forall (P : Q -> bool) (l : list nat) (r : list Q) j,
  NoDup l -> length r = length l -> (j < length l)%nat ->
  mem (nth j l O) (map fst (filter (fun e => P (snd e)) (combine l r))) = P (nth j r 0).
Proof.
  intros P l. induction l as [| y l IH]; intros [| v r] j Hnd Hlen Hj; simpl in *; try lia.
  inversion Hnd as [| ? ? Hy Hnd']; subst.
  destruct j as [| j].
  - destruct (P v) eqn:E; simpl.
    + unfold mem. simpl. rewrite Nat.eqb_refl. reflexivity.
    + apply mem_false. intro H. apply Hy. apply (zip_filter_keys P l r). exact H.
  - assert (Hne : nth j l O <> y) by (intro H; apply Hy; rewrite <- H; apply nth_In; lia).
    rewrite <- (IH r j Hnd'); try lia.
    destruct (P v); simpl; [| reflexivity].
    unfold mem. simpl. apply Nat.eqb_neq in Hne. rewrite Hne. reflexivity.
Qed.

Lemma zip_filter_prob : forall (P : Q -> bool) (l : list nat) (r : list Q) k,
  NoDup l -> length r = length l -> (k < length l)%nat ->
  prob (filter (fun e => P (snd e)) (combine l r)) (nth k l O) = if P (nth k r 0) then nth k r 0 else 0.
Proof.
  intros P l. induction l as [| y l IH]; intros [| v r] k Hnd Hlen Hk; simpl in *; try lia.
  inversion Hnd as [| ? ? Hy Hnd']; subst.
  destruct k as [| k].
  - destruct (P v) eqn:E; simpl.
    + unfold prob. simpl. rewrite Nat.eqb_refl. reflexivity.
    + unfold prob. destruct (find _ _) as [e |] eqn:Ef; [| reflexivity].
      apply find_some in Ef. destruct Ef as [He Hk']. apply Nat.eqb_eq in Hk'.
      exfalso. apply Hy. rewrite <- Hk'. apply (zip_filter_keys P l r). apply in_map. exact He.
  - assert (Hne : y <> nth k l O) by (intro H; apply Hy; rewrite H; apply nth_In; lia).
    rewrite <- (IH r k Hnd'); try lia.
    destruct (P v); simpl; [| reflexivity].
    unfold prob. simpl. apply Nat.eqb_neq in Hne. rewrite Hne. reflexivity.
Qed.

Lemma prob_nonneg : forall (d : dist) s, (forall e, In e d -> 0 <= snd e) -> 0 <= prob d s.
Proof.
  intros d s H. unfold prob. destruct (find _ _) as [e |] eqn:Ef; [| apply Qle_refl].
  apply find_some in Ef. apply H. apply Ef.
Qed.

Section RoundTrip.
Variable m : fmdp.
Variables sl al : list nat.
Hypothesis Hsl : NoDup sl.
Hypothesis Hal : NoDup al.
(* distributions are dicts (unique keys) with non-negative numbers *)
Hypothesis Hkeys : forall s a, NoDup (map fst (fnext m s a)).
Hypothesis Hnonneg : forall s a e, In e (fnext m s a) -> 0 <= snd e.
Hypothesis Hinit_nonneg : forall e, In e (finit m) -> 0 <= snd e.

Let M := to_matrices m sl al.
Let m' := from_matrices M.

Lemma rt_mem : forall i j, (i < length sl)%nat -> (j < length al)%nat ->
  mem (nth j al O) (factions m' (nth i sl O)) = mem (nth j al O) (factions m (nth i sl O)).
Proof.
  intros i j Hi Hj. unfold m', from_matrices, M. simpl.
  rewrite (index_nth sl i O Hsl Hi).
  destruct (action_matrix_dims m sl al) as [D1 D2].
  rewrite (zip_filter_mem Qnz al _ j Hal (D2 i Hi) Hj).
  pose proof (action_matrix_exact m sl al Hal i j Hi Hj) as Ham. unfold get2 in Ham.
  rewrite (Qnz_compat _ _ Ham). destruct (mem _ _); reflexivity.
Qed.

Lemma rt_prob : forall i j k, (i < length sl)%nat -> (j < length al)%nat -> (k < length sl)%nat ->
  prob (fnext m' (nth i sl O) (nth j al O)) (nth k sl O) =
  if Qpos (get3 (m_tf M) i j k) then get3 (m_tf M) i j k else 0.
Proof.
  intros i j k Hi Hj Hk. unfold m', from_matrices, M. simpl.
  rewrite (index_nth sl i O Hsl Hi). rewrite (index_nth al j O Hal Hj).
  destruct (transition_matrix_dims m sl al) as [D1 D2]. destruct (D2 i Hi) as [D3 D4].
  rewrite (zip_filter_prob Qpos sl _ k Hsl (D4 j Hj) Hk). reflexivity.
Qed.

Lemma rt_keys : forall s a, NoDup (map fst (fnext m' s a)).
Proof. intros s a. unfold m', from_matrices. simpl. apply zip_filter_nodup. exact Hsl. Qed.

Lemma rt_tf_nonneg : forall i j k, (i < length sl)%nat -> (j < length al)%nat -> (k < length sl)%nat ->
  0 <= get3 (m_tf M) i j k.
Proof.
  intros i j k Hi Hj Hk. unfold M. simpl.
  rewrite (transition_matrix_exact m sl al Hsl Hal i j k Hi Hj Hk (Hkeys _ _)).
  destruct (mem _ _); [apply prob_nonneg; apply Hnonneg | apply Qle_refl].
Qed.

(* rebuilding from the arrays gives back the same arrays, lists and discount rate *)
Theorem round_trip_tf : forall i j k, (i < length sl)%nat -> (j < length al)%nat -> (k < length sl)%nat ->
  get3 (m_tf (to_matrices m' sl al)) i j k == get3 (m_tf M) i j k.
Proof.
  intros i j k Hi Hj Hk. simpl.
  rewrite (transition_matrix_exact m' sl al Hsl Hal i j k Hi Hj Hk (rt_keys _ _)).
  rewrite (rt_mem i j Hi Hj). rewrite (rt_prob i j k Hi Hj Hk).
  pose proof (rt_tf_nonneg i j k Hi Hj Hk) as Hge.
  destruct (mem (nth j al O) (factions m (nth i sl O))) eqn:E; [apply Qpos_clip; exact Hge |].
  unfold M. simpl. rewrite (transition_matrix_exact m sl al Hsl Hal i j k Hi Hj Hk (Hkeys _ _)).
  rewrite E. apply Qeq_refl.
Qed.

Theorem round_trip_am : forall i j, (i < length sl)%nat -> (j < length al)%nat ->
  get2 (m_am (to_matrices m' sl al)) i j == get2 (m_am M) i j.
Proof.
  intros i j Hi Hj. simpl.
  rewrite (action_matrix_exact m' sl al Hal i j Hi Hj). rewrite (rt_mem i j Hi Hj).
  unfold M. simpl. rewrite (action_matrix_exact m sl al Hal i j Hi Hj). apply Qeq_refl.
Qed.

Theorem round_trip_rf : forall i j k, (i < length sl)%nat -> (j < length al)%nat -> (k < length sl)%nat ->
  get3 (m_rf (to_matrices m' sl al)) i j k == get3 (m_rf M) i j k.
Proof.
  intros i j k Hi Hj Hk. simpl.
  rewrite (reward_matrix_exact m' sl al Hsl Hal i j k Hi Hj Hk (rt_keys _ _)).
  rewrite (rt_mem i j Hi Hj). rewrite (rt_prob i j k Hi Hj Hk).
  pose proof (rt_tf_nonneg i j k Hi Hj Hk) as Hge.
  rewrite (Qnz_compat _ _ (Qpos_clip _ Hge)).
  assert (Hrw : freward m' (nth i sl O) (nth j al O) (nth k sl O) = get3 (m_rf M) i j k).
  { unfold m', from_matrices. simpl. rewrite (index_nth sl i O Hsl Hi), (index_nth al j O Hal Hj), (index_nth sl k O Hsl Hk). reflexivity. }
  rewrite Hrw.
  pose proof (transition_matrix_exact m sl al Hsl Hal i j k Hi Hj Hk (Hkeys _ _)) as Htf.
  pose proof (reward_matrix_exact m sl al Hsl Hal i j k Hi Hj Hk (Hkeys _ _)) as Hrf.
  unfold M in *. simpl in *. rewrite (Qnz_compat _ _ Htf).
  destruct (mem (nth j al O) (factions m (nth i sl O))); simpl in *.
  - destruct (Qnz (prob _ _)); [apply Qeq_refl | symmetry; exact Hrf].
  - symmetry. exact Hrf.
Qed.

Theorem round_trip_s0 : forall k, (k < length sl)%nat ->
  nth k (m_s0 (to_matrices m' sl al)) 0 == nth k (m_s0 M) 0.
Proof.
  intros k Hk. simpl. rewrite (initial_state_vec_exact m' sl k Hk).
  unfold m', from_matrices, M. simpl.
  assert (Hlen : length (initial_state_vec m sl) = length sl) by (unfold initial_state_vec; apply map_length).
  rewrite (zip_filter_prob Qpos sl _ k Hsl Hlen Hk). apply Qpos_clip.
  rewrite (initial_state_vec_exact m sl k Hk). apply prob_nonneg. exact Hinit_nonneg.
Qed.

Theorem round_trip_rest :
  m_sl (to_matrices m' sl al) = m_sl M /\ m_al (to_matrices m' sl al) = m_al M /\
  m_gamma (to_matrices m' sl al) = m_gamma M /\
  dims3 (m_tf (to_matrices m' sl al)) (length sl) (length al) (length sl) /\
  dims3 (m_tf M) (length sl) (length al) (length sl) /\
  dims3 (m_rf (to_matrices m' sl al)) (length sl) (length al) (length sl) /\
  dims3 (m_rf M) (length sl) (length al) (length sl) /\
  dims2 (m_am (to_matrices m' sl al)) (length sl) (length al) /\
  dims2 (m_am M) (length sl) (length al) /\
  length (m_s0 (to_matrices m' sl al)) = length (m_s0 M).
Proof.
  split; [reflexivity |]. split; [reflexivity |]. split; [reflexivity |].
  split; [apply transition_matrix_dims |]. split; [apply transition_matrix_dims |].
  split; [apply reward_matrix_dims |]. split; [apply reward_matrix_dims |].
  split; [apply action_matrix_dims |]. split; [apply action_matrix_dims |].
  unfold M. simpl. unfold initial_state_vec. rewrite !map_length. reflexivity.
Qed.

End RoundTrip.

(* ------------------------------------------------------------------ *)
(* non-vacuity: a concrete MDP satisfying every hypothesis used above  *)
(* ------------------------------------------------------------------ *)
(* 3 states, 2 actions, state-dependent action sets, a zero-probability successor, a
   zero-probability initial entry, an explicit absorbing state *)
Definition ex_mdp : fmdp :=
  mkF [(O, 1 # 2); (1%nat, 1 # 2); (2%nat, 0)]
      (fun s => match s with O => [O; 1%nat] | _ => [1%nat] end)
      (fun s a => match s, a with
                  | O, O => [(1%nat, 1 # 2); (2%nat, 1 # 2)]
                  | O, _ => [(O, 1); (2%nat, 0)]
                  | S O, _ => [(1%nat, 1)]
                  | _, _ => [(2%nat, 1)]
                  end)
      (fun s a ns => match s, a, ns with O, O, S (S O) => 3 # 4 | O, S O, S (S O) => 5 | _, _, _ => (-1) # 4 end)
      (fun s => Nat.eqb s 2)
      (9 # 10).
Definition ex_U : list nat := [O; 1%nat; 2%nat].

Example ex_fin : forall s, Reach ex_mdp s -> In s ex_U.
Proof.
  intros s H. induction H as [s Hs | s e Hr IH Hex He Hp].
  - vm_compute in Hs. unfold ex_U. simpl. tauto.
  - unfold ex_U in *. simpl in IH.
    destruct IH as [<- | [<- | [<- | []]]]; vm_compute in He;
      repeat (destruct He as [<- | He]; [simpl; tauto |]); destruct He.
Qed.
Example ex_fuel : enough_fuel ex_U 7. Proof. unfold enough_fuel. simpl. lia. Qed.
Example ex_keys : forall s a, NoDup (map fst (fnext ex_mdp s a)).
Proof.
  intros s a. destruct s as [| [| s]]; destruct a as [| a]; simpl;
    repeat (constructor; [simpl; intuition discriminate |]); constructor.
Qed.
Example ex_nonneg : forall s a e, In e (fnext ex_mdp s a) -> 0 <= snd e.
Proof.
  intros s a e H. destruct s as [| [| s]]; destruct a as [| a]; simpl in H;
    repeat (destruct H as [<- | H]; [simpl; discriminate |]); destruct H.
Qed.
Example ex_init_nonneg : forall e, In e (finit ex_mdp) -> 0 <= snd e.
Proof. intros e H. simpl in H. repeat (destruct H as [<- | H]; [simpl; discriminate |]). destruct H. Qed.
Example ex_nodup_sl : NoDup [2%nat; O; 1%nat].
Proof. repeat (constructor; [simpl; intuition discriminate |]). constructor. Qed.
Example ex_nodup_al : NoDup [1%nat; O].
Proof. repeat (constructor; [simpl; intuition discriminate |]). constructor. Qed.

(* the reachable set really has three members, found in different orders by different pops *)
Example ex_reach_head : reachable ex_mdp pick_head None 7 = [O; 1%nat; 2%nat]. Proof. reflexivity. Qed.
Example ex_reach_cut : reachable ex_mdp pick_last (Some 2%nat) 7 = [O; 1%nat]. Proof. reflexivity. Qed.
Example ex_reach_all : forall pick s, In s (reachable ex_mdp pick None 7) <-> Reach ex_mdp s.
Proof. intros pick s. apply (reachable_spec_thm ex_mdp ex_U ex_fin pick 7 ex_fuel). Qed.
(* entries: an available action's row, an unavailable action's zero row, the reward kept
   off the zero-probability successor *)
Example ex_entries :
  get3 (transition_matrix ex_mdp [2%nat; O; 1%nat] [1%nat; O]) 1 1 2 == 1 # 2 /\
  get3 (transition_matrix ex_mdp [2%nat; O; 1%nat] [1%nat; O]) 2 1 2 == 0 /\
  get3 (reward_matrix ex_mdp [2%nat; O; 1%nat] [1%nat; O]) 1 0 0 == 0 /\
  get3 (reward_matrix ex_mdp [2%nat; O; 1%nat] [1%nat; O]) 1 1 0 == 3 # 4.
Proof. vm_compute. repeat split; reflexivity. Qed.
Example ex_round_trip : forall i j k, (i < 3)%nat -> (j < 2)%nat -> (k < 3)%nat ->
  get3 (m_tf (to_matrices (from_matrices (to_matrices ex_mdp [2%nat; O; 1%nat] [1%nat; O])) [2%nat; O; 1%nat] [1%nat; O])) i j k
  == get3 (m_tf (to_matrices ex_mdp [2%nat; O; 1%nat] [1%nat; O])) i j k.
Proof. intros. apply (round_trip_tf ex_mdp _ _ ex_nodup_sl ex_nodup_al ex_keys ex_nonneg); assumption. Qed.

(* ------------------------------------------------------------------ *)
(* absorbing_state_vec                                                 *)
(* ------------------------------------------------------------------ *)
Lemma forallb_nth : forall A (P : A -> bool) l d,
  forallb P l = true <-> forall j, (j < length l)%nat -> P (nth j l d) = true.
Proof.
  intros A P l d. rewrite forallb_forall. split.
  - intros H j Hj. apply H. apply nth_In. exact Hj.
  - intros H x Hx. destruct (In_nth l x d Hx) as [j [Hj <-]]. apply H. exact Hj.
Qed.

Lemma forallb_seq : forall P n, forallb P (seq 0 n) = true <-> forall j, (j < n)%nat -> P j = true.
Proof.
  intros P n. rewrite forallb_forall. split.
  - intros H j Hj. apply H. apply in_seq. lia.
  - intros H x Hx. apply in_seq in Hx. apply H. lia.
Qed.

Lemma nth_map_lt : forall A B (f : A -> B) l i d d', (i < length l)%nat -> nth i (map f l) d' = f (nth i l d).
Proof.
  intros A B f l i d d' Hi. rewrite (nth_indep _ d' (f d)); [apply map_nth | rewrite map_length; exact Hi].
Qed.

Lemma nth_enum : forall A (l : list A) i d, (i < length l)%nat -> nth i (enum l) (O, d) = (i, nth i l d).
Proof.
  intros A l i d Hi. unfold enum. rewrite combine_nth; [| apply seq_length].
  rewrite seq_nth; [reflexivity | exact Hi].
Qed.

Lemma length_enum : forall A (l : list A), length (enum l) = length l.
Proof. intros. unfold enum. rewrite combine_length, seq_length. apply Nat.min_id. Qed.

Definition absorbing_cond (tf : list (list (list Q))) (am : list (list Q)) (rf : list (list (list Q)))
           (b c i : nat) : Prop :=
  (forall j, (j < b)%nat -> get3 tf i j i == 1 \/ get2 am i j == 0) /\
  (exists j, (j < b)%nat /\ ~ get2 am i j == 0) /\
  (forall j k, (j < b)%nat -> (k < c)%nat -> get3 rf i j k == 0).

(* array level: explicit flag, or: some action available, every available action self-loops
   with probability 1, and the whole reward slice of the state is zero *)
Lemma absorbing_vec_arrays : forall m sl tf am rf b c i,
  dims2 am (length sl) b -> dims3 rf (length sl) b c -> (i < length sl)%nat ->
  (nth i (absorbing_vec m sl tf am rf) false = true <->
   fabsorbing m (nth i sl O) = true \/ absorbing_cond tf am rf b c i).
Proof.
  intros m sl tf am rf b c i [Da1 Da2] [Dr1 Dr2] Hi. unfold absorbing_vec.
  rewrite (nth_map_lt _ _ _ (enum sl) i (O, O) false); [| rewrite length_enum; exact Hi].
  rewrite (nth_enum _ sl i O Hi). simpl.
  unfold dead_end_vec. rewrite (nth_map_lt _ _ _ am i [] false); [| rewrite Da1; exact Hi].
  specialize (Da2 i Hi). destruct (Dr2 i Hi) as [Dr3 Dr4]. rewrite Da2.
  rewrite orb_true_iff, !andb_true_iff, negb_true_iff.
  rewrite forallb_seq. rewrite (forallb_nth _ _ (nth i rf []) []).
  rewrite <- not_true_iff_false. rewrite (forallb_nth _ _ (nth i am []) 0).
  rewrite Dr3, Da2. unfold absorbing_cond.
  split; [intros [H | H]; [right | left; exact H] | intros [H | H]; [right; exact H | left]].
  - destruct H as [[H1 H2] H3]. split; [| split].
    + intros j Hj. specialize (H1 j Hj). apply orb_true_iff in H1.
      destruct H1 as [H1 | H1]; apply Qeq_bool_iff in H1; [left | right]; exact H1.
    + (* not all zero: some j has a non-zero entry *)
      assert (Hex : exists j, (j < b)%nat /\ Qeq_bool (nth j (nth i am []) 0) 0 = false).
      { clear - H2. revert H2. generalize (nth i am []) as row. intro row. revert b.
        induction row as [| x row IH]; intros b H2.
        - exfalso. apply H2. intros j Hj. destruct j; reflexivity.
        - destruct (Qeq_bool x 0) eqn:E.
          + destruct b as [| b]; [exfalso; apply H2; intros j Hj; lia |].
            destruct (IH b) as [j [Hj Hz]].
            * intro H. apply H2. intros [| j] Hj; [exact E | apply H; lia].
            * exists (S j). split; [lia | exact Hz].
          + destruct b as [| b]; [exfalso; apply H2; intros j Hj; lia |].
            exists O. split; [lia | exact E]. }
      destruct Hex as [j [Hj Hz]]. exists j. split; [exact Hj |].
      intro H. apply Qeq_bool_iff in H. unfold get2 in H. rewrite Hz in H. discriminate.
    + intros j k Hj Hk. specialize (H3 j Hj). rewrite (forallb_nth _ _ _ 0) in H3.
      rewrite (Dr4 j Hj) in H3. apply Qeq_bool_iff. apply (H3 k Hk).
  - destruct H as [H1 [[j0 [Hj0 H2]] H3]]. split; [split |].
    + intros j Hj. apply orb_true_iff. destruct (H1 j Hj) as [H | H]; apply Qeq_bool_iff in H; [left | right]; exact H.
    + intro H. apply H2. apply Qeq_bool_iff. apply (H j0 Hj0).
    + intros j Hj. rewrite (forallb_nth _ _ _ 0). rewrite (Dr4 j Hj). intros k Hk.
      apply Qeq_bool_iff. apply (H3 j k Hj Hk).
Qed.

(* in terms of the functions: explicit flag, or the state has an available (listed) action,
   each of them returns to the state with probability 1, and no reward is non-zero on a
   non-zero-probability transition out of it *)
Theorem absorbing_vec_exact : forall m sl al i,
  NoDup sl -> NoDup al -> (forall s a, NoDup (map fst (fnext m s a))) -> (i < length sl)%nat ->
  let s := nth i sl O in
  (nth i (m_abs (to_matrices m sl al)) false = true <->
   fabsorbing m s = true \/
   ((forall j, (j < length al)%nat -> mem (nth j al O) (factions m s) = true ->
               prob (fnext m s (nth j al O)) s == 1) /\
    (exists j, (j < length al)%nat /\ mem (nth j al O) (factions m s) = true) /\
    (forall j k, (j < length al)%nat -> (k < length sl)%nat ->
                 mem (nth j al O) (factions m s) = true ->
                 Qnz (prob (fnext m s (nth j al O)) (nth k sl O)) = true ->
                 freward m s (nth j al O) (nth k sl O) == 0))).
Proof.
  intros m sl al i Hsl Hal Hkeys Hi. simpl.
  rewrite (absorbing_vec_arrays m sl _ _ _ (length al) (length sl) i
             (action_matrix_dims m sl al) (reward_matrix_dims m sl al) Hi).
  unfold absorbing_cond.
  assert (Ham : forall j, (j < length al)%nat ->
            get2 (action_matrix m sl al) i j == (if mem (nth j al O) (factions m (nth i sl O)) then 1 else 0))
    by (intros j Hj; apply action_matrix_exact; assumption).
  assert (Htf : forall j k, (j < length al)%nat -> (k < length sl)%nat ->
            get3 (transition_matrix m sl al) i j k ==
            (if mem (nth j al O) (factions m (nth i sl O)) then prob (fnext m (nth i sl O) (nth j al O)) (nth k sl O) else 0))
    by (intros j k Hj Hk; apply transition_matrix_exact; try assumption; apply Hkeys).
  assert (Hrf : forall j k, (j < length al)%nat -> (k < length sl)%nat ->
            get3 (reward_matrix m sl al) i j k ==
            (if mem (nth j al O) (factions m (nth i sl O)) && Qnz (prob (fnext m (nth i sl O) (nth j al O)) (nth k sl O))
             then freward m (nth i sl O) (nth j al O) (nth k sl O) else 0))
    by (intros j k Hj Hk; apply reward_matrix_exact; try assumption; apply Hkeys).
  split; (intros [H | H]; [left; exact H | right]); destruct H as [H1 [[j0 [Hj0 H2]] H3]]; (split; [| split]).
  - intros j Hj Hm. destruct (H1 j Hj) as [H | H].
    + rewrite (Htf j i Hj Hi), Hm in H. exact H.
    + rewrite (Ham j Hj), Hm in H. discriminate.
  - exists j0. split; [exact Hj0 |]. destruct (mem (nth j0 al O) (factions m (nth i sl O))) eqn:E; [reflexivity |].
    exfalso. apply H2. rewrite (Ham j0 Hj0), E. reflexivity.
  - intros j k Hj Hk Hm Hp. specialize (H3 j k Hj Hk). rewrite (Hrf j k Hj Hk), Hm, Hp in H3. exact H3.
  - intros j Hj. destruct (mem (nth j al O) (factions m (nth i sl O))) eqn:E.
    + left. rewrite (Htf j i Hj Hi), E. apply H1; assumption.
    + right. rewrite (Ham j Hj), E. reflexivity.
  - exists j0. split; [exact Hj0 |]. rewrite (Ham j0 Hj0), H2. discriminate.
  - intros j k Hj Hk. rewrite (Hrf j k Hj Hk).
    destruct (mem (nth j al O) (factions m (nth i sl O))) eqn:E; simpl; [| reflexivity].
    destruct (Qnz _) eqn:Ep; [| reflexivity]. apply H3; assumption.
Qed.

(* the absorbing vector survives the round trip as well (the rebuilt MDP declares every
   originally detected absorbing state explicitly; detection adds nothing new) *)
Theorem round_trip_abs : forall m sl al,
  NoDup sl -> NoDup al ->
  (forall s a, NoDup (map fst (fnext m s a))) ->
  (forall s a e, In e (fnext m s a) -> 0 <= snd e) ->
  forall i, (i < length sl)%nat ->
  nth i (m_abs (to_matrices (from_matrices (to_matrices m sl al)) sl al)) false =
  nth i (m_abs (to_matrices m sl al)) false.
Proof.
  intros m sl al Hsl Hal Hkeys Hnn i Hi.
  set (M := to_matrices m sl al). set (m' := from_matrices M).
  assert (Hiff : nth i (m_abs (to_matrices m' sl al)) false = true <-> nth i (m_abs M) false = true).
  { simpl.
    rewrite (absorbing_vec_arrays m' sl _ _ _ (length al) (length sl) i
               (action_matrix_dims m' sl al) (reward_matrix_dims m' sl al) Hi).
    assert (Hflag : fabsorbing m' (nth i sl O) = nth i (m_abs M) false).
    { unfold m', from_matrices. simpl. rewrite (index_nth sl i O Hsl Hi). reflexivity. }
    rewrite Hflag.
    assert (Hcond : absorbing_cond (transition_matrix m' sl al) (action_matrix m' sl al) (reward_matrix m' sl al)
                                   (length al) (length sl) i <->
                    absorbing_cond (transition_matrix m sl al) (action_matrix m sl al) (reward_matrix m sl al)
                                   (length al) (length sl) i).
    { unfold absorbing_cond.
      pose proof (fun j k Hj Hk => round_trip_tf m sl al Hsl Hal Hkeys Hnn i j k Hi Hj Hk) as Etf.
      pose proof (fun j k Hj Hk => round_trip_rf m sl al Hsl Hal Hkeys Hnn i j k Hi Hj Hk) as Erf.
      pose proof (fun j Hj => round_trip_am m sl al Hsl Hal i j Hi Hj) as Eam.
      fold M in Etf, Erf, Eam. fold m' in Etf, Erf, Eam. simpl in Etf, Erf, Eam.
      split; intros [H1 [[j0 [Hj0 H2]] H3]]; (split; [| split]).
      - intros j Hj. destruct (H1 j Hj) as [H | H]; [left; rewrite <- (Etf j i Hj Hi); exact H | right; rewrite <- (Eam j Hj); exact H].
      - exists j0. split; [exact Hj0 |]. rewrite <- (Eam j0 Hj0). exact H2.
      - intros j k Hj Hk. rewrite <- (Erf j k Hj Hk). apply H3; assumption.
      - intros j Hj. destruct (H1 j Hj) as [H | H]; [left; rewrite (Etf j i Hj Hi); exact H | right; rewrite (Eam j Hj); exact H].
      - exists j0. split; [exact Hj0 |]. rewrite (Eam j0 Hj0). exact H2.
      - intros j k Hj Hk. rewrite (Erf j k Hj Hk). apply H3; assumption. }
    rewrite Hcond. unfold M. simpl.
    rewrite (absorbing_vec_arrays m sl _ _ _ (length al) (length sl) i
               (action_matrix_dims m sl al) (reward_matrix_dims m sl al) Hi).
    tauto. }
  destruct (nth i (m_abs (to_matrices m' sl al)) false); destruct (nth i (m_abs M) false); try reflexivity.
  - symmetry. apply Hiff. reflexivity.
  - apply Hiff. reflexivity.
Qed.

(* hypotheses of the list theorems: any permutation serves as set iteration order *)
Example ex_state_list :
  let sl := state_list ex_mdp None (fun _ _ => false) (@rev nat) pick_last 7 in
  NoDup sl /\ (forall s, In s sl <-> Reach ex_mdp s) /\ sl = [2%nat; 1%nat; O].
Proof.
  destruct (state_list_spec_thm ex_mdp ex_U (fun _ _ => false) (@rev nat) pick_last 7 ex_fin ex_fuel
              (fun l => Permutation_sym (Permutation_rev l))) as [H1 [H2 _]].
  split; [exact H1 | split; [exact H2 | reflexivity]].
Qed.
Example ex_action_list : action_list ex_mdp [2%nat; 1%nat; O] None (fun _ _ => true) (@rev nat) = [O; 1%nat].
Proof. reflexivity. Qed.
Example ex_absorbing : m_abs (to_matrices ex_mdp [2%nat; O; 1%nat] [1%nat; O]) = [true; false; false].
Proof. reflexivity. Qed.

(* the cut-off is tested BEFORE every pop: once max_states states are visited nothing more is
   expanded; in particular max_states <= |initial support| (max_states = 0, or 1 with a
   non-empty support) returns exactly the positive initial support *)
Theorem reachable_cutoff_stop_thm : forall m pick k fuel,
  (k <= length (init_support m))%nat -> reachable m pick (Some k) fuel = init_support m.
Proof.
  intros m pick k fuel Hk. unfold reachable, reach_run.
  destruct fuel as [| f]; [reflexivity |].
  unfold reach_loop. destruct (init_support m) as [| x l] eqn:E; [reflexivity |].
  unfold cut. apply Nat.leb_le in Hk. rewrite Hk. reflexivity.
Qed.
Example ex_reach_cut0 : reachable ex_mdp pick_last (Some O) 7 = [O; 1%nat]. Proof. reflexivity. Qed.
