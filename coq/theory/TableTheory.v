(* TableTheory — proofs about model/PyVal.v (Python ==) and model/Table.v (msdm table indexing).
   All statements are for tables with ANY number of fields and domains of ANY size.            *)
From Coq Require Import ZArith List Bool Arith Lia.
From MSDM Require Import model.PyVal model.Table.
Import ListNotations.

(* ============================================================================================ *)
(*  Python ==                                                                                    *)
(* ============================================================================================ *)
Section PvInd.
  Variable P : pv -> Prop.
  Hypothesis Hint : forall z, P (PInt z).
  Hypothesis Hbool : forall b, P (PBool b).
  Hypothesis Hfloat : forall n d, P (PFloat n d).
  Hypothesis Hstr : forall s, P (PStr s).
  Hypothesis Hnone : P PNone.
  Hypothesis Hell : P PEllipsis.
  Hypothesis Hsl : forall f, P (PSlice f).
  Hypothesis Htup : forall l, Forall P l -> P (PTuple l).
  Hypothesis Hdt : forall l, Forall P l -> P (PDomTuple l).
  Hypothesis Hlist : forall l, Forall P l -> P (PList l).
  Hypothesis Hfs : forall l, Forall P l -> P (PFrozenset l).
  Fixpoint pv_ind' (v : pv) : P v :=
    let go := fix go (l : list pv) : Forall P l :=
                match l with
                | [] => Forall_nil P
                | x :: r => Forall_cons x (pv_ind' x) (go r)
                end in
    match v with
    | PInt z => Hint z
    | PBool b => Hbool b
    | PFloat n d => Hfloat n d
    | PStr s => Hstr s
    | PNone => Hnone
    | PEllipsis => Hell
    | PSlice f => Hsl f
    | PTuple l => Htup l (go l)
    | PDomTuple l => Hdt l (go l)
    | PList l => Hlist l (go l)
    | PFrozenset l => Hfs l (go l)
    end.
End PvInd.

Definition fs_sub (l m : list pv) : bool := forallb (fun x => existsb (fun y => pyeq x y) m) l.
Definition fs_sup (l m : list pv) : bool := forallb (fun y => existsb (fun x => pyeq x y) l) m.

Lemma pyeq_tt : forall l m, pyeq (PTuple l) (PTuple m) = pyeq_list l m.
Proof. induction l; destruct m; simpl; auto; f_equal; exact (IHl m). Qed.
Lemma pyeq_td : forall l m, pyeq (PTuple l) (PDomTuple m) = pyeq_list l m.
Proof. intros. rewrite <- pyeq_tt. reflexivity. Qed.
Lemma pyeq_dt : forall l m, pyeq (PDomTuple l) (PTuple m) = pyeq_list l m.
Proof. intros. rewrite <- pyeq_tt. reflexivity. Qed.
Lemma pyeq_dd : forall l m, pyeq (PDomTuple l) (PDomTuple m) = pyeq_list l m.
Proof. intros. rewrite <- pyeq_tt. reflexivity. Qed.
Lemma pyeq_ll : forall l m, pyeq (PList l) (PList m) = pyeq_list l m.
Proof. induction l; destruct m; simpl; auto; f_equal; exact (IHl m). Qed.
Lemma pyeq_ff : forall l m, pyeq (PFrozenset l) (PFrozenset m) = fs_sub l m && fs_sup l m.
Proof. reflexivity. Qed.

Lemma numeq_refl : forall x, numeq x x = true.
Proof. intros [a b]. unfold numeq. apply Z.eqb_refl. Qed.
Lemma numeq_sym : forall x y, numeq x y = numeq y x.
Proof. intros [a b] [c d]. unfold numeq. apply Z.eqb_sym. Qed.

Lemma pyeq_list_refl : forall l, Forall (fun x => pyeq x x = true) l -> pyeq_list l l = true.
Proof. induction 1; simpl; auto. rewrite H, IHForall. reflexivity. Qed.

Lemma fs_refl : forall l, Forall (fun x => pyeq x x = true) l -> fs_sub l l = true /\ fs_sup l l = true.
Proof.
  intros l H. rewrite Forall_forall in H. split; apply forallb_forall; intros x Hx;
    apply existsb_exists; exists x; split; auto.
Qed.

Theorem pyeq_refl : forall v, pyeq v v = true.
Proof.
  induction v using pv_ind'; try reflexivity.
  - simpl. apply numeq_refl.
  - simpl. apply numeq_refl.
  - simpl. apply numeq_refl.
  - simpl. apply String.eqb_refl.
  - simpl. destruct f; reflexivity.
  - rewrite pyeq_tt. apply pyeq_list_refl; assumption.
  - rewrite pyeq_dd. apply pyeq_list_refl; assumption.
  - rewrite pyeq_ll. apply pyeq_list_refl; assumption.
  - rewrite pyeq_ff. destruct (fs_refl l H) as [A B]. rewrite A, B. reflexivity.
Qed.

Lemma pyeq_list_sym : forall l, Forall (fun x => forall b, pyeq x b = pyeq b x) l ->
  forall m, pyeq_list l m = pyeq_list m l.
Proof. induction 1; destruct m; simpl; auto. rewrite H, IHForall. reflexivity. Qed.

Lemma forallb_ext_in : forall (A : Type) (f g : A -> bool) l,
  (forall x, In x l -> f x = g x) -> forallb f l = forallb g l.
Proof. induction l; simpl; intros; auto. rewrite H, IHl; auto. Qed.
Lemma existsb_ext_in : forall (A : Type) (f g : A -> bool) l,
  (forall x, In x l -> f x = g x) -> existsb f l = existsb g l.
Proof. induction l; simpl; intros; auto. rewrite H, IHl; auto. Qed.

Lemma fs_sym : forall l, Forall (fun x => forall b, pyeq x b = pyeq b x) l ->
  forall m, fs_sub l m = fs_sup m l /\ fs_sup l m = fs_sub m l.
Proof.
  intros l H m. rewrite Forall_forall in H. unfold fs_sub, fs_sup. split.
  - apply forallb_ext_in. intros x Hx. apply existsb_ext_in. intros y _. apply H; assumption.
  - apply forallb_ext_in. intros y _. apply existsb_ext_in. intros x Hx. apply H; assumption.
Qed.

Theorem pyeq_sym : forall a b, pyeq a b = pyeq b a.
Proof.
  induction a using pv_ind'; intros y.
  - destruct y; simpl; try reflexivity; apply numeq_sym.
  - destruct y; simpl; try reflexivity; apply numeq_sym.
  - destruct y; simpl; try reflexivity; apply numeq_sym.
  - destruct y; simpl; try reflexivity. apply String.eqb_sym.
  - destruct y; reflexivity.
  - destruct y; reflexivity.
  - destruct y; simpl; try reflexivity. destruct f, full; reflexivity.
  - destruct y; try reflexivity.
    + rewrite !pyeq_tt. apply pyeq_list_sym; assumption.
    + rewrite pyeq_td, pyeq_dt. apply pyeq_list_sym; assumption.
  - destruct y; try reflexivity.
    + rewrite pyeq_td, pyeq_dt. apply pyeq_list_sym; assumption.
    + rewrite !pyeq_dd. apply pyeq_list_sym; assumption.
  - destruct y; try reflexivity. rewrite !pyeq_ll. apply pyeq_list_sym; assumption.
  - destruct y; try reflexivity. rewrite !pyeq_ff.
    destruct (fs_sym l H l0) as [A B]. rewrite A, B. apply andb_comm.
Qed.

(* ---- positions in a domain ------------------------------------------------------------------ *)
Lemma index_of_Some : forall k dom i, index_of k dom = Some i ->
  i < length dom /\ pyeq (nth i dom PNone) k = true.
Proof.
  induction dom as [|e r IH]; simpl; intros i H; try discriminate.
  destruct (pyeq e k) eqn:E.
  - inversion H; subst. split; [lia | assumption].
  - destruct (index_of k r) as [j|] eqn:J; simpl in H; try discriminate.
    inversion H; subst. destruct (IH j eq_refl). split; [lia | assumption].
Qed.

Lemma index_of_pin : forall k dom, pin k dom = match index_of k dom with Some _ => true | None => false end.
Proof.
  unfold pin. induction dom as [|e r IH]; simpl; auto.
  destruct (pyeq e k); simpl; auto. rewrite IH. destruct (index_of k r); reflexivity.
Qed.

Lemma dupfree_lt : forall dom i j, dupfreeb dom = true -> i < j -> j < length dom ->
  pyeq (nth i dom PNone) (nth j dom PNone) = false.
Proof.
  induction dom as [|x r IH]; simpl; intros i j H Hij Hj; try lia.
  apply andb_true_iff in H. destruct H as [H1 H2].
  destruct i, j; try lia.
  - apply negb_true_iff in H1.
    destruct (pyeq x (nth j r PNone)) eqn:E; auto.
    assert (existsb (fun y => pyeq x y) r = true).
    { apply existsb_exists. exists (nth j r PNone). split; auto. apply nth_In. lia. }
    congruence.
  - apply IH; auto; lia.
Qed.

Lemma dupfree_inj : forall dom i j, dupfreeb dom = true -> i < length dom -> j < length dom ->
  pyeq (nth i dom PNone) (nth j dom PNone) = true -> i = j.
Proof.
  intros dom i j H Hi Hj E.
  destruct (Nat.lt_trichotomy i j) as [L|[L|L]]; auto.
  - rewrite (dupfree_lt dom i j) in E; auto. discriminate.
  - rewrite pyeq_sym in E. rewrite (dupfree_lt dom j i) in E; auto. discriminate.
Qed.

Lemma index_of_first : forall k dom j, j < length dom -> pyeq (nth j dom PNone) k = true ->
  (forall i, i < j -> pyeq (nth i dom PNone) k = false) -> index_of k dom = Some j.
Proof.
  induction dom as [|e r IH]; simpl; intros j Hj E F; try lia.
  destruct j.
  - rewrite E. reflexivity.
  - rewrite (F 0) by lia. rewrite (IH j); auto. lia.
    intros i Hi. apply (F (S i)). lia.
Qed.

Lemma dupfree_index_nth : forall dom j, dupfreeb dom = true -> j < length dom ->
  index_of (nth j dom PNone) dom = Some j.
Proof.
  intros dom j H Hj. apply index_of_first; auto.
  - apply pyeq_refl.
  - intros i Hi. apply dupfree_lt; auto.
Qed.

(* ============================================================================================ *)
(*  Tables                                                                                       *)
(* ============================================================================================ *)

(* well-formed table: at least one field; every domain is ==-duplicate-free (what
   Table._validate_table enforces) and made of hashable values (they are dict keys)              *)
Definition wf_index (ix : tindex) : Prop :=
  Forall (fun f => dupfreeb (fdom f) = true /\ forallb hashable (fdom f) = true) ix.
Definition wf (t : table) : Prop := tix t <> [] /\ wf_index (tix t).

(* the class of a returned sub-table with k remaining fields *)
Definition subcls (c : cls) (k : nat) : cls := if cls_prob c && Nat.leb k 1 then CDist else c.

(* ks are keys of the leading fields fs, at positions ps *)
Fixpoint keys_at (ks : list pv) (fs : list field) (ps : list nat) : Prop :=
  match ks, fs, ps with
  | [], _, [] => True
  | k :: ks', f :: fs', p :: ps' => dom_index k (fdom f) = Ok p /\ keys_at ks' fs' ps'
  | _, _, _ => False
  end.

Lemma domval_dom_eq : forall l f, pyeq (PDomTuple l) (domval f) = true -> pyeq_list l (fdom f) = true.
Proof.
  intros l f. unfold domval. destruct (fkind f).
  - rewrite pyeq_dd. auto.
  - rewrite pyeq_dt. auto.
  - simpl. discriminate.
Qed.

Lemma nonseq_neq_domval : forall k f, is_seqval k = false -> pyeq k (domval f) = false.
Proof. intros k f H. unfold domval. destruct (fkind f); destruct k; simpl in *; auto; discriminate. Qed.

Lemma keys_at_length : forall ks fs ps, keys_at ks fs ps ->
  length ks = length ps /\ length ps <= length fs.
Proof.
  induction ks; destruct fs, ps; simpl; intros H; try contradiction; try (split; auto; lia).
  destruct H as [_ H]. destruct (IHks _ _ H). split; lia.
Qed.

Lemma dom_index_Ok : forall k dom p, dom_index k dom = Ok p ->
  hashable k = true /\ index_of k dom = Some p.
Proof.
  unfold dom_index. intros k dom p. destruct (hashable k); try discriminate.
  destruct (index_of k dom); intros H; inversion H; auto.
Qed.

Lemma dom_index_pin : forall k dom p, dom_index k dom = Ok p -> pin k dom = true.
Proof. intros. apply dom_index_Ok in H. destruct H as [_ H]. rewrite index_of_pin, H. reflexivity. Qed.

Lemma iif_keys_at : forall ks fs ps cs, keys_at ks fs ps -> iif ks fs cs = Ok (map AInt ps).
Proof.
  induction ks as [|k ks IH]; destruct fs as [|f fs], ps as [|p ps]; simpl; intros cs H; try contradiction; auto.
  destruct H as [H1 H2]. rewrite (dom_index_pin _ _ _ H1), H1, (IH _ _ cs H2). reflexivity.
Qed.

Lemma one_special_plain : forall l, forallb plainkey l = true -> one_special l = None.
Proof.
  intros [|k [|k2 r]] H; simpl in *; auto; destruct k; simpl in *; auto; discriminate.
Qed.

Lemma plain_no_ellipsis : forall l, forallb plainkey l = true -> existsb is_ellipsis l = false.
Proof.
  induction l; simpl; intros; auto. apply andb_true_iff in H. destruct H.
  rewrite IHl by assumption. destruct a; simpl in *; auto; discriminate.
Qed.

Lemma pad_out_plain : forall l n, forallb plainkey l = true -> pad_out l n = Ok l.
Proof. intros. unfold pad_out. rewrite plain_no_ellipsis; auto. Qed.

Lemma upd_fields_ints : forall ps fs, upd_fields (map AInt ps) fs = skipn (length ps) fs.
Proof. induction ps; destruct fs; simpl; auto. Qed.

Lemma oshape_inorder_ints : forall ps sh, oshape_inorder (map AInt ps) sh = skipn (length ps) sh.
Proof. induction ps; destruct sh; simpl; auto. Qed.

Lemma src_inorder_ints : forall ps out, src_inorder (map AInt ps) out = ps ++ out.
Proof. induction ps; simpl; intros; auto. rewrite IHps. reflexivity. Qed.

Lemma no_seq_ints : forall ps, existsb is_aseq (map AInt ps) = false.
Proof. induction ps; simpl; auto. Qed.

Lemma tindex_eqb_length : forall a b, tindex_eqb a b = true -> length a = length b.
Proof.
  induction a; destruct b; simpl; intros; try discriminate; auto.
  apply andb_true_iff in H. destruct H. f_equal. auto.
Qed.

Lemma natlist_eqb_refl : forall l, natlist_eqb l l = true.
Proof. induction l; simpl; auto. rewrite Nat.eqb_refl. assumption. Qed.

Lemma shape_of_skipn : forall n ix, skipn n (shape_of ix) = shape_of (skipn n ix).
Proof. induction n; destruct ix; simpl; auto. Qed.

Lemma wf_index_skipn : forall n ix, wf_index ix -> wf_index (skipn n ix).
Proof.
  unfold wf_index. induction n; destruct ix; simpl; intros; auto. apply IHn. inversion H; assumption.
Qed.

Lemma wf_index_validate : forall ix, wf_index ix -> validate (shape_of ix) ix = true.
Proof.
  intros ix H. unfold validate. rewrite natlist_eqb_refl. simpl.
  apply forallb_forall. intros f Hf. unfold wf_index in H. rewrite Forall_forall in H.
  destruct (H f Hf). assumption.
Qed.

(* --- what Table.__getitem__ does once the selector resolved to integer positions of the
       leading fields: the scalar cell, or the sub-table of the remaining fields --- *)
Definition selects (t : table) (r : res gres) (ps : list nat) : Prop :=
  match skipn (length ps) (tix t) with
  | [] => r = Ok (GScalar (tcell t ps))
  | rest => exists t', r = Ok (GTable t') /\ tcls t' = subcls (tcls t) (length rest) /\
                       tix t' = rest /\ forall out, tcell t' out = tcell t (ps ++ out)
  end.

Lemma getitem_raw_ints : forall t sel ps, wf t -> ps <> [] -> length ps <= length (tix t) ->
  array_index (tix t) sel = Ok (AITuple (map AInt ps)) -> selects t (getitem_raw t sel) ps.
Proof.
  intros t sel ps [Hne Hwf] Hps Hlen Hai. unfold selects, getitem_raw. rewrite Hai.
  unfold updated_index.
  assert (Hfs : forallb is_aslice (map AInt ps) = false) by (destruct ps; [congruence | reflexivity]).
  rewrite Hfs, upd_fields_ints.
  assert (Hneq : tindex_eqb (skipn (length ps) (tix t)) (tix t) = false).
  { destruct (tindex_eqb (skipn (length ps) (tix t)) (tix t)) eqn:E; auto.
    apply tindex_eqb_length in E. rewrite skipn_length in E. destruct ps; [congruence|].
    destruct (tix t); [congruence|]. simpl in *. lia. }
  rewrite Hneq. unfold np_get, entries_of. rewrite no_seq_ints. simpl fst. simpl snd.
  rewrite oshape_inorder_ints, shape_of_skipn.
  pose proof (wf_index_skipn (length ps) _ Hwf) as Hwf'.
  destruct (skipn (length ps) (tix t)) as [|f rest] eqn:Hsk.
  - simpl. rewrite src_inorder_ints, app_nil_r. reflexivity.
  - pose proof (wf_index_validate _ Hwf') as V. simpl shape_of in V |- *. cbv beta iota. rewrite V.
    eexists. split; [reflexivity|]. simpl. repeat split.
    + unfold subcls. simpl. unfold shape_of. rewrite map_length. reflexivity.
    + intros out. rewrite src_inorder_ints. reflexivity.
Qed.

Lemma getitem_of_raw_ok : forall t sel g, getitem_raw t sel = Ok g -> getitem t sel = Ok g.
Proof. intros. unfold getitem. rewrite H. reflexivity. Qed.

Lemma selects_getitem : forall t sel ps, selects t (getitem_raw t sel) ps -> selects t (getitem t sel) ps.
Proof.
  unfold selects. intros t sel ps. destruct (skipn (length ps) (tix t)).
  - intros H. apply getitem_of_raw_ok. assumption.
  - intros [t' [H R]]. exists t'. split; auto. apply getitem_of_raw_ok. assumption.
Qed.

(* ---- outer_element_wins ------------------------------------------------------------------- *)
Theorem outer_element_wins_thm : forall t sel i, wf t ->
  dom_index sel (dom0 (tix t)) = Ok i -> selects t (getitem t sel) [i].
Proof.
  intros t sel i Hwf H. apply selects_getitem. apply (getitem_raw_ints t sel [i]); auto.
  - discriminate.
  - destruct Hwf as [Hne _]. destruct (tix t); [congruence | simpl; lia].
  - unfold array_index. rewrite H. reflexivity.
Qed.

(* ---- full keys and prefixes of full keys ---------------------------------------------------- *)
Definition not_outer_element (t : table) (sel : pv) : Prop :=
  forall i, dom_index sel (dom0 (tix t)) <> Ok i.

Lemma array_index_tuple_keys : forall t ks ps, ks <> [] -> forallb plainkey ks = true ->
  keys_at ks (tix t) ps -> not_outer_element t (PTuple ks) ->
  array_index (tix t) (PTuple ks) = Ok (AITuple (map AInt ps)).
Proof.
  intros t ks ps Hne Hpl Hk Hno. unfold array_index.
  destruct (dom_index (PTuple ks) (dom0 (tix t))) as [i|e] eqn:E.
  - exfalso. apply (Hno i). assumption.
  - rewrite (one_special_plain _ Hpl). unfold index_into_fields. rewrite (pad_out_plain _ _ Hpl).
    destruct (keys_at_length _ _ _ Hk) as [L1 L2].
    assert (Hlt : Nat.ltb (length (tix t)) (length ks) = false) by (apply Nat.ltb_ge; lia).
    rewrite Hlt, (iif_keys_at _ _ _ false Hk). reflexivity.
Qed.

Theorem prefix_key_thm : forall t ks ps, wf t -> ks <> [] -> forallb plainkey ks = true ->
  keys_at ks (tix t) ps -> not_outer_element t (PTuple ks) ->
  selects t (getitem t (PTuple ks)) ps.
Proof.
  intros t ks ps Hwf Hne Hpl Hk Hno. apply selects_getitem.
  destruct (keys_at_length _ _ _ Hk) as [L1 L2].
  apply getitem_raw_ints; auto.
  - destruct ps; [destruct ks; [congruence | discriminate] | discriminate].
  - apply array_index_tuple_keys; auto.
Qed.

Theorem full_key_cell_thm : forall t ks ps, wf t -> length ks = length (tix t) ->
  forallb plainkey ks = true -> keys_at ks (tix t) ps -> not_outer_element t (PTuple ks) ->
  getitem t (PTuple ks) = Ok (GScalar (tcell t ps)).
Proof.
  intros t ks ps Hwf Hlen Hpl Hk Hno.
  assert (Hne : ks <> []) by (destruct Hwf as [Hne _]; destruct ks; [destruct (tix t); [congruence|discriminate]|discriminate]).
  pose proof (prefix_key_thm t ks ps Hwf Hne Hpl Hk Hno) as S.
  unfold selects in S. destruct (keys_at_length _ _ _ Hk) as [L1 _].
  rewrite skipn_all2 in S by lia. assumption.
Qed.

(* ---- nested single-field indexing ------------------------------------------------------------ *)
Lemma keys_at_nil_fields : forall ks ps, keys_at ks [] ps -> ks = [] /\ ps = [].
Proof. destruct ks, ps; simpl; intros; try contradiction; auto. Qed.

Theorem nested_chain_thm : forall ks t ps, wf t -> ks <> [] -> keys_at ks (tix t) ps ->
  match skipn (length ps) (tix t) with
  | [] => chain t ks = Ok (GScalar (tcell t ps))
  | rest => exists t', chain t ks = Ok (GTable t') /\ tix t' = rest /\
                       forall out, tcell t' out = tcell t (ps ++ out)
  end.
Proof.
  induction ks as [|k ks IH]; intros t ps Hwf Hne Hk; [congruence|].
  destruct (tix t) as [|f fs] eqn:Hix; [destruct ps; simpl in Hk; contradiction|].
  destruct ps as [|p ps]; [simpl in Hk; contradiction|].
  simpl in Hk. destruct Hk as [Hk1 Hk2].
  assert (Hd : dom_index k (dom0 (tix t)) = Ok p) by (rewrite Hix; exact Hk1).
  pose proof (outer_element_wins_thm t k p Hwf Hd) as S. unfold selects in S.
  rewrite Hix in S. simpl skipn in S. simpl length. simpl skipn.
  destruct fs as [|f2 fs2].
  - destruct (keys_at_nil_fields _ _ Hk2); subst. simpl. rewrite S. reflexivity.
  - destruct S as [t1 [G [C [X Hc]]]].
    destruct ks as [|k2 ks2].
    + destruct ps; [|simpl in Hk2; contradiction]. simpl. rewrite G.
      exists t1. repeat split; auto.
    + assert (Hwf1 : wf t1).
      { split. rewrite X; discriminate. rewrite X. destruct Hwf as [_ W]. rewrite Hix in W.
        inversion W; assumption. }
      assert (Hk2' : keys_at (k2 :: ks2) (tix t1) ps) by (rewrite X; exact Hk2).
      pose proof (IH t1 ps Hwf1 ltac:(discriminate) Hk2') as R.
      rewrite X in R.
      change (chain t (k :: k2 :: ks2)) with
        (match getitem t k with
         | Err e => Err e
         | Ok GSelf => chain t (k2 :: ks2)
         | Ok (GTable t') => chain t' (k2 :: ks2)
         | Ok (GScalar z) => Err EType
         end).
      rewrite G.
      destruct (skipn (length ps) (f2 :: fs2)) as [|g rest].
      * rewrite R. rewrite Hc. reflexivity.
      * destruct R as [t' [R1 [R2 R3]]]. exists t'. repeat split; auto.
        intros out. rewrite R3, Hc. reflexivity.
Qed.

Theorem nested_eq_full_thm : forall t ks ps, wf t -> length ks = length (tix t) ->
  forallb plainkey ks = true -> keys_at ks (tix t) ps -> not_outer_element t (PTuple ks) ->
  chain t ks = getitem t (PTuple ks) /\ chain t ks = Ok (GScalar (tcell t ps)).
Proof.
  intros t ks ps Hwf Hlen Hpl Hk Hno.
  assert (Hne : ks <> []) by (destruct Hwf as [Hne _]; destruct ks; [destruct (tix t); [congruence|discriminate]|discriminate]).
  pose proof (nested_chain_thm ks t ps Hwf Hne Hk) as N.
  destruct (keys_at_length _ _ _ Hk) as [L1 _]. rewrite skipn_all2 in N by lia.
  rewrite (full_key_cell_thm t ks ps); auto.
Qed.

(* ---- keys / items / len ----------------------------------------------------------------------- *)
Theorem keys_items_len_thm : forall t, wf t ->
  keys t = dom0 (tix t) /\ len t = length (dom0 (tix t)) /\
  items t = map (fun k => (k, getitem t k)) (dom0 (tix t)) /\
  forall j, j < len t -> selects t (getitem t (nth j (keys t) PNone)) [j].
Proof.
  intros t Hwf. repeat split; auto.
  intros j Hj. apply outer_element_wins_thm; auto.
  destruct Hwf as [Hne W]. unfold keys, len in *. destruct (tix t) as [|f fs]; [congruence|].
  simpl in *. inversion W as [|? ? [D Hh] ?]; subst.
  unfold dom_index.
  assert (Hhk : hashable (nth j (fdom f) PNone) = true).
  { rewrite forallb_forall in Hh. apply Hh. apply nth_In. assumption. }
  rewrite Hhk, dupfree_index_nth; auto.
Qed.

(* ---- lists of outer keys ---------------------------------------------------------------------- *)
Lemma index_into_domain_spec : forall ks dom js, index_into_domain ks dom = Ok js ->
  length js = length ks /\ Forall (fun j => j < length dom) js /\
  forall a, a < length ks -> dom_index (nth a ks PNone) dom = Ok (nth a js 0).
Proof.
  induction ks as [|k ks IH]; simpl; intros dom js H.
  - inversion H; subst. repeat split; auto. intros; lia.
  - destruct (dom_index k dom) as [i|] eqn:E; try discriminate.
    destruct (index_into_domain ks dom) as [js'|] eqn:E2; try discriminate.
    inversion H; subst. destruct (IH _ _ E2) as [L [F N]]. simpl. repeat split; auto.
    + constructor; auto. apply dom_index_Ok in E. destruct E as [_ E].
      apply index_of_Some in E. tauto.
    + intros [|a] Ha; auto. apply N. lia.
Qed.

Lemma restrict_dupfree : forall dom js, dupfreeb dom = true -> NoDup js ->
  Forall (fun j => j < length dom) js -> dupfreeb (restrict dom js) = true.
Proof.
  intros dom js D. induction 1 as [|j js Hnin Hnd IH]; intros F; simpl; auto.
  inversion F; subst. rewrite IH by assumption. rewrite andb_true_r.
  apply negb_true_iff. destruct (existsb _ _) eqn:E; auto.
  apply existsb_exists in E. destruct E as [y [Hy Ey]].
  unfold restrict in Hy. apply in_map_iff in Hy. destruct Hy as [j' [Hj' Hin]]. subst y.
  rewrite Forall_forall in H2.
  assert (j = j') by (apply (dupfree_inj dom); auto). subst. contradiction.
Qed.

Lemma pyeq_list_nth : forall l m, pyeq_list l m = true ->
  length l = length m /\ forall a, a < length l -> pyeq (nth a l PNone) (nth a m PNone) = true.
Proof.
  induction l; destruct m; simpl; intros H; try discriminate.
  - split; auto; intros; lia.
  - apply andb_true_iff in H. destruct H as [H1 H2]. destruct (IHl _ H2) as [L N].
    split; [lia|]. intros [|a'] Ha; auto. apply N. lia.
Qed.

Theorem outer_list_subtable_thm : forall t ks js, wf t -> ks <> [] -> forallb plainkey ks = true ->
  index_into_domain ks (dom0 (tix t)) = Ok js -> NoDup js ->
  exists t', (getitem t (PList ks) = Ok (GTable t') \/ (getitem t (PList ks) = Ok GSelf /\ t' = t)) /\
     tindex_eqb (tix t') (match tix t with f :: fs => mkField (fname f) (restrict (fdom f) js) DKDom :: fs | [] => [] end) = true /\
     forall j rest, j < length js -> tcell t' (j :: rest) = tcell t (nth j js 0 :: rest).
Proof.
  intros t ks js Hwf Hne Hpl Hidx Hnd.
  destruct Hwf as [Hix W]. destruct (tix t) as [|f fs] eqn:Hx; [congruence|].
  simpl in Hidx. destruct (index_into_domain_spec _ _ _ Hidx) as [L [F N]].
  assert (Hjs : js <> []) by (destruct js; [destruct ks; [congruence|discriminate]|discriminate]).
  assert (Hai : array_index (tix t) (PList ks) = Ok (AIList js)).
  { unfold array_index. unfold dom_index at 1. simpl hashable. cbv iota.
    rewrite (one_special_plain _ Hpl). rewrite Hx. simpl dom0. rewrite Hidx. reflexivity. }
  inversion W as [|? ? [D Hh] W']; subst.
  assert (Hrefl : forall ix, wf_index ix -> tindex_eqb ix ix = true).
  { induction ix as [|g ix IHx]; simpl; auto. intros Wg. inversion Wg; subst.
    unfold field_eqb. rewrite !pyeq_refl, IHx by assumption. reflexivity. }
  unfold getitem, getitem_raw. rewrite Hai, Hx.
  assert (Hup : updated_index (f :: fs) (AIList js) = Some (mkField (fname f) (restrict (fdom f) js) DKDom :: fs)).
  { destruct js; [congruence | reflexivity]. }
  rewrite Hup.
  destruct (tindex_eqb (mkField (fname f) (restrict (fdom f) js) DKDom :: fs) (f :: fs)) eqn:E.
  - (* the list is the whole domain in order: self *)
    exists t. split; [right; auto|]. rewrite Hx. split.
    + simpl. simpl in E. apply andb_true_iff in E. destruct E as [E1 E2].
      unfold field_eqb in *. apply andb_true_iff in E1. destruct E1 as [E1a E1b].
      rewrite (pyeq_sym (fname f)), E1a, (pyeq_sym (domval f)), E1b. simpl. apply Hrefl. assumption.
    + intros j rest Hj. simpl in E. apply andb_true_iff in E. destruct E as [E1 _].
      unfold field_eqb in E1. apply andb_true_iff in E1. destruct E1 as [_ E1].
      apply domval_dom_eq in E1. simpl in E1.
      apply pyeq_list_nth in E1. destruct E1 as [L1 N1]. unfold restrict in *. rewrite map_length in *.
      specialize (N1 j Hj). rewrite (nth_indep _ PNone (nth 0 (fdom f) PNone)) in N1 by (rewrite map_length; assumption).
      rewrite (map_nth (fun i => nth i (fdom f) PNone)) in N1.
      rewrite Forall_forall in F.
      assert (nth j js 0 = j).
      { apply (dupfree_inj (fdom f)); [assumption | apply F; apply nth_In; assumption | lia | exact N1]. }
      rewrite H. reflexivity.
  - unfold np_get, entries_of. simpl existsb. unfold adv_adjacent. simpl.
    assert (Hv : validate (length js :: shape_of fs) (mkField (fname f) (restrict (fdom f) js) DKDom :: fs) = true).
    { unfold validate. simpl. unfold restrict at 1. rewrite map_length, Nat.eqb_refl, natlist_eqb_refl. simpl.
      rewrite restrict_dupfree by assumption. simpl.
      apply forallb_forall. intros g Hg. unfold wf_index in W'. rewrite Forall_forall in W'.
      destruct (W' g Hg). assumption. }
    rewrite Hv. eexists. split; [left; reflexivity|]. simpl. split.
    + unfold field_eqb. rewrite !pyeq_refl. simpl. apply Hrefl. assumption.
    + intros j rest Hj. reflexivity.
Qed.

(* the edge the statement above excludes: msdm returns the WHOLE table for the empty list *)
Lemma outer_list_empty_self : forall t, getitem t (PList []) = Ok GSelf.
Proof. intros t. unfold getitem, getitem_raw, array_index. simpl. reflexivity. Qed.

(* ---- slices and ellipses ----------------------------------------------------------------------- *)
Definition plain_dom (d : list pv) : Prop := forallb plainkey d = true.

Lemma plain_index_of_special : forall d s, plain_dom d -> plainkey s = false -> index_of s d = None.
Proof.
  unfold plain_dom. induction d as [|e r IH]; simpl; intros s H Hs; auto.
  apply andb_true_iff in H. destruct H as [H1 H2].
  assert (pyeq e s = false).
  { destruct s; simpl in Hs; try discriminate; destruct e; simpl in *; auto; discriminate. }
  rewrite H, IH; auto.
Qed.

Theorem slice_identity_thm : forall t, plain_dom (dom0 (tix t)) ->
  getitem t (PSlice true) = Ok GSelf /\ getitem t PEllipsis = Ok GSelf /\
  getitem t (PSlice false) = Err ESlice.
Proof.
  intros t H. unfold getitem, getitem_raw, array_index, dom_index. simpl hashable. cbv iota.
  rewrite !(plain_index_of_special _ _ H) by reflexivity. simpl.
  destruct (cls_state (tcls t)); auto.
Qed.

Theorem slice_identity_wrapped_thm : forall t s, (s = PSlice true \/ s = PEllipsis) ->
  not_outer_element t (PTuple [s]) ->
  getitem t (PTuple [s]) = Ok GSelf /\ getitem t (PList [s]) = Ok GSelf.
Proof.
  intros t s Hs Hno. unfold getitem, getitem_raw, array_index.
  destruct (dom_index (PTuple [s]) (dom0 (tix t))) eqn:E; [exfalso; apply (Hno a); assumption|].
  assert (dom_index (PList [s]) (dom0 (tix t)) = Err EType) by reflexivity.
  rewrite H. destruct Hs; subst; simpl; auto.
Qed.

Lemma iif_slices : forall m fs cs, m <= length fs -> Forall (fun f => plain_dom (fdom f)) fs ->
  iif (repeat (PSlice true) m) fs cs = Ok (repeat ASlice m).
Proof.
  induction m; intros fs cs Hm F; simpl; [reflexivity|].
  destruct fs as [|f fs]; [simpl in Hm; lia|]. inversion F; subst.
  rewrite index_of_pin, (plain_index_of_special _ (PSlice true) H1) by reflexivity.
  unfold domval. destruct (fkind f); simpl; (rewrite IHm; auto; simpl in Hm; lia).
Qed.

(* t[:, :, ...] with at most one full slice per field is the table itself *)
Theorem slice_tuple_identity_thm : forall t m, m <= length (tix t) ->
  Forall (fun f => plain_dom (fdom f)) (tix t) ->
  not_outer_element t (PTuple (repeat (PSlice true) m)) ->
  getitem t (PTuple (repeat (PSlice true) m)) = Ok GSelf.
Proof.
  intros t m Hm F Hno. unfold getitem, getitem_raw, array_index.
  destruct (dom_index (PTuple (repeat (PSlice true) m)) (dom0 (tix t))) eqn:E; [exfalso; apply (Hno a); assumption|].
  assert (Hne : existsb is_ellipsis (repeat (PSlice true) m) = false) by (clear; induction m; simpl; auto).
  assert (Hall : forallb is_aslice (repeat ASlice m) = true) by (clear; induction m; simpl; auto).
  assert (Hlt : Nat.ltb (length (tix t)) m = false) by (apply Nat.ltb_ge; lia).
  destruct m as [|[|m]].
  - simpl. reflexivity.
  - simpl. reflexivity.
  - change (one_special (repeat (PSlice true) (S (S m)))) with (@None bool). cbv iota.
    unfold index_into_fields, pad_out. rewrite Hne, repeat_length, Hlt, iif_slices; auto.
    unfold updated_index. rewrite Hall. reflexivity.
Qed.

(* ---- rows of probability tables ----------------------------------------------------------------- *)
(* what "the result is the distribution of the row at positions ps" means *)
Definition is_row_dist (t : table) (r : res gres) (ps : list nat) (f : field) : Prop :=
  exists d, r = Ok (GTable d) /\ tcls d = CDist /\ keys d = fdom f /\ tix d = [f] /\
    (forall j, j < length (fdom f) ->
       table_get d (nth j (fdom f) PNone) = Ok (Some (GScalar (tcell t (ps ++ [j]))))) /\
    (forall e, is_seqval e = false -> plainkey e = true -> index_of e (fdom f) = None -> table_get d e = Ok None).

Lemma row_is_dist : forall t r ps f, wf t -> cls_prob (tcls t) = true ->
  selects t r ps -> skipn (length ps) (tix t) = [f] -> is_row_dist t r ps f.
Proof.
  intros t r ps f Hwf Hp S Hsk. unfold selects in S. rewrite Hsk in S.
  destruct S as [d [G [C [X Hc]]]]. exists d.
  assert (Hwfd : wf d).
  { split. rewrite X; discriminate. rewrite X. destruct Hwf as [_ W].
    pose proof (wf_index_skipn (length ps) _ W) as W2. rewrite Hsk in W2. assumption. }
  split; [assumption|].
  split. { rewrite C. unfold subcls. rewrite Hp. reflexivity. }
  split. { unfold keys. rewrite X. reflexivity. }
  split; [assumption|].
  assert (Cd : cls_state (tcls d) = false) by (rewrite C; unfold subcls; rewrite Hp; reflexivity).
  split.
  - intros j Hj.
    pose proof (keys_items_len_thm d Hwfd) as [Kk [_ [_ Hit]]].
    assert (Hl : j < len d) by (unfold len; rewrite X; exact Hj).
    specialize (Hit j Hl). unfold selects in Hit. rewrite X in Hit. simpl in Hit.
    unfold table_get. unfold keys in Hit. rewrite X in Hit. simpl in Hit. rewrite Hit, Hc. reflexivity.
  - intros e He1 He2 He3. unfold table_get, getitem. rewrite Cd. simpl.
    unfold getitem_raw, array_index, dom_index. rewrite X. simpl dom0. rewrite He3.
    destruct (hashable e); destruct e; simpl in *; try discriminate; reflexivity.
Qed.

(* a row: all fields but the last are fixed by the keys of a tuple *)
Theorem prob_row_dist_thm : forall t ks ps f, wf t -> cls_prob (tcls t) = true ->
  ks <> [] -> forallb plainkey ks = true -> keys_at ks (tix t) ps ->
  skipn (length ps) (tix t) = [f] -> not_outer_element t (PTuple ks) ->
  is_row_dist t (getitem t (PTuple ks)) ps f.
Proof.
  intros. apply row_is_dist; auto. apply prefix_key_thm; auto.
Qed.

(* TabularPolicy.action_dist(s) = self[s] : the row of state s as a distribution over the actions *)
Theorem policy_action_dist_thm : forall t fs fa s i, wf t -> cls_prob (tcls t) = true ->
  tix t = [fs; fa] -> dom_index s (fdom fs) = Ok i ->
  is_row_dist t (action_dist t s) [i] fa.
Proof.
  intros t fs fa s i Hwf Hp Hx Hs. apply row_is_dist; auto.
  - unfold action_dist. apply outer_element_wins_thm; auto. rewrite Hx. exact Hs.
  - rewrite Hx. reflexivity.
Qed.

(* ---- foreign keys raise ------------------------------------------------------------------------- *)
(* a scalar (not a list / tuple / slice / ellipsis) that is not an element of the outermost domain *)
Theorem foreign_scalar_raises_thm : forall t k, is_seqval k = false -> plainkey k = true ->
  index_of k (dom0 (tix t)) = None ->
  getitem_raw t k = Err EKey /\
  getitem t k = Err (if cls_state (tcls t) then EStateAction else EKey) /\
  table_get t k = (if cls_state (tcls t) then Err EStateAction else Ok None).
Proof.
  intros t k H1 H2 H3.
  assert (R : getitem_raw t k = Err EKey).
  { unfold getitem_raw, array_index, dom_index. rewrite H3.
    destruct (hashable k); destruct k; simpl in *; try discriminate; reflexivity. }
  split; auto. unfold table_get, getitem. rewrite R. simpl.
  destruct (cls_state (tcls t)); auto.
Qed.

(* a tuple whose first m components are keys of their fields and whose next component is a foreign
   scalar: IndexError (the state/action index error through an MDP table); get re-raises it *)
Lemma iif_foreign : forall ks fs ps k rest cs, keys_at ks fs ps ->
  length ps < length fs ->
  is_seqval k = false -> plainkey k = true ->
  index_of k (fdom (nth (length ps) fs (mkField PNone [] DKDom))) = None ->
  iif (ks ++ k :: rest) fs cs = Err EIndex.
Proof.
  induction ks as [|k0 ks IH]; intros fs ps k rest cs Hk Hlen S P I.
  - destruct ps; [|simpl in Hk; contradiction]. destruct fs as [|f fs]; [simpl in Hlen; lia|].
    simpl in *. rewrite index_of_pin, I.
    rewrite (nonseq_neq_domval k f S). destruct k; simpl in *; auto; discriminate.
  - destruct fs as [|f fs], ps as [|p ps]; simpl in Hk; try contradiction.
    destruct Hk as [K1 K2]. simpl. rewrite (dom_index_pin _ _ _ K1), K1.
    rewrite (IH fs ps k rest cs); auto. simpl in Hlen. lia.
Qed.

Theorem foreign_tuple_raises_thm : forall t ks ps k rest, wf t ->
  forallb plainkey (ks ++ k :: rest) = true -> keys_at ks (tix t) ps ->
  length (ks ++ k :: rest) <= length (tix t) ->
  is_seqval k = false ->
  index_of k (fdom (nth (length ps) (tix t) (mkField PNone [] DKDom))) = None ->
  not_outer_element t (PTuple (ks ++ k :: rest)) ->
  getitem_raw t (PTuple (ks ++ k :: rest)) = Err EIndex /\
  getitem t (PTuple (ks ++ k :: rest)) = Err (if cls_state (tcls t) then EStateAction else EIndex) /\
  table_get t (PTuple (ks ++ k :: rest)) = Err (if cls_state (tcls t) then EStateAction else EIndex).
Proof.
  intros t ks ps k rest Hwf Hpl Hk Hlen S I Hno.
  assert (Pk : plainkey k = true).
  { rewrite forallb_app in Hpl. apply andb_true_iff in Hpl. destruct Hpl as [_ Hpl]. simpl in Hpl.
    apply andb_true_iff in Hpl. tauto. }
  destruct (keys_at_length _ _ _ Hk) as [L1 L2].
  assert (R : getitem_raw t (PTuple (ks ++ k :: rest)) = Err EIndex).
  { unfold getitem_raw, array_index.
    destruct (dom_index (PTuple (ks ++ k :: rest)) (dom0 (tix t))) eqn:E; [exfalso; apply (Hno a); assumption|].
    rewrite (one_special_plain _ Hpl). unfold index_into_fields. rewrite (pad_out_plain _ _ Hpl).
    assert (Hlt : Nat.ltb (length (tix t)) (length (ks ++ k :: rest)) = false) by (apply Nat.ltb_ge; lia).
    rewrite Hlt. rewrite (iif_foreign ks (tix t) ps k rest false); auto.
    rewrite app_length in Hlen. simpl in Hlen. lia. }
  split; auto. unfold table_get, getitem. rewrite R. simpl.
  destruct (cls_state (tcls t)); auto.
Qed.

(* more entries than fields *)
Theorem too_many_keys_raises_thm : forall t ks, forallb plainkey ks = true ->
  length (tix t) < length ks -> not_outer_element t (PTuple ks) ->
  getitem t (PTuple ks) = Err (if cls_state (tcls t) then EStateAction else EIndexSize).
Proof.
  intros t ks Hpl Hlen Hno. unfold getitem, getitem_raw, array_index.
  destruct (dom_index (PTuple ks) (dom0 (tix t))) eqn:E; [exfalso; apply (Hno a); assumption|].
  rewrite (one_special_plain _ Hpl). unfold index_into_fields. rewrite (pad_out_plain _ _ Hpl).
  assert (Hlt : Nat.ltb (length (tix t)) (length ks) = true) by (apply Nat.ltb_lt; lia).
  rewrite Hlt. simpl. destruct (cls_state (tcls t)); auto.
Qed.

(* a list holding a key that is not in the outermost domain: DomainError *)
Lemma index_into_domain_foreign : forall ks dom k rest,
  index_of k dom = None -> index_into_domain (ks ++ k :: rest) dom = Err EDomain.
Proof.
  induction ks as [|k0 ks IH]; simpl; intros dom k rest I.
  - unfold dom_index. rewrite I. destruct (hashable k); reflexivity.
  - destruct (dom_index k0 dom); auto. rewrite IH; auto.
Qed.

Theorem foreign_list_raises_thm : forall t ks k rest, forallb plainkey (ks ++ k :: rest) = true ->
  index_of k (dom0 (tix t)) = None ->
  getitem t (PList (ks ++ k :: rest)) = Err (if cls_state (tcls t) then EStateAction else EDomain).
Proof.
  intros t ks k rest Hpl I. unfold getitem, getitem_raw, array_index.
  assert (dom_index (PList (ks ++ k :: rest)) (dom0 (tix t)) = Err EType) by reflexivity.
  rewrite H. rewrite (one_special_plain _ Hpl), index_into_domain_foreign; auto.
  simpl. destruct (cls_state (tcls t)); auto.
Qed.

(* the domaintuple quirk: a domaintuple selector is first resolved against the outermost domain
   (DomainError if one of its components is not an outer key) even when it is a valid full key *)
Theorem domtuple_key_quirk_thm : forall t ks k rest, forallb plainkey (ks ++ k :: rest) = true ->
  not_outer_element t (PDomTuple (ks ++ k :: rest)) ->
  index_of k (dom0 (tix t)) = None ->
  getitem_raw t (PDomTuple (ks ++ k :: rest)) = Err EDomain.
Proof.
  intros t ks k rest Hpl Hno I. unfold getitem_raw, array_index.
  destruct (dom_index (PDomTuple (ks ++ k :: rest)) (dom0 (tix t))) eqn:E; [exfalso; apply (Hno a); assumption|].
  rewrite (one_special_plain _ Hpl), index_into_domain_foreign; auto.
Qed.

(* ============================================================================================ *)
(*  Non-vacuity: a concrete 2 x 3 table with colliding keys                                      *)
(* ============================================================================================ *)
Definition ex_t (c : cls) : table :=
  arange_table c [ (PInt 0, [PInt 1; PTuple [PInt 1; PInt 7]; PNone]);
                   (PInt 1, [PInt 7; PFloat 1 2]) ].

Lemma ex_wf : forall c, wf (ex_t c).
Proof. intros c. split; [discriminate|]. repeat constructor. Qed.

(* full key (True, 0.5) : cell (0,1) = 1 *)
Example ex_full : getitem (ex_t CTable) (PTuple [PBool true; PFloat 1 2]) = Ok (GScalar 1%Z).
Proof.
  apply (full_key_cell_thm (ex_t CTable) [PBool true; PFloat 1 2] [0; 1]); auto using ex_wf.
  - simpl. auto.
  - intros i. vm_compute. discriminate.
Qed.
(* the tuple (1, 7) is BOTH a full key (cell 0) and the outer element at position 1: the element wins *)
Example ex_outer_wins : exists t', getitem (ex_t CTable) (PTuple [PInt 1; PInt 7]) = Ok (GTable t') /\
  tix t' = [mkField (PInt 1) [PInt 7; PFloat 1 2] DKDom] /\ tcell t' [0] = 2%Z.
Proof.
  pose proof (outer_element_wins_thm (ex_t CTable) (PTuple [PInt 1; PInt 7]) 1 (ex_wf _) eq_refl) as S.
  unfold selects in S. simpl in S. destruct S as [t' [G [_ [X C]]]]. exists t'. repeat split; auto.
  rewrite C. reflexivity.
Qed.
Example ex_nested : chain (ex_t CState) [PNone; PInt 7] = Ok (GScalar 4%Z).
Proof.
  pose proof (nested_chain_thm [PNone; PInt 7] (ex_t CState) [2; 0] (ex_wf _) ltac:(discriminate)) as N.
  simpl in N. apply N. auto.
Qed.
Example ex_outer_list : exists t', getitem (ex_t CTable) (PList [PNone; PFloat 1 1]) = Ok (GTable t') /\
  tcell t' [0; 1] = 5%Z /\ tcell t' [1; 0] = 0%Z.
Proof.
  assert (ND : NoDup [2; 0]) by (repeat constructor; simpl; intuition discriminate).
  destruct (outer_list_subtable_thm (ex_t CTable) [PNone; PFloat 1 1] [2; 0] (ex_wf _)
              ltac:(discriminate) eq_refl eq_refl ND) as [t' [[G|[G _]] [_ C]]].
  - exists t'. split; auto. rewrite !C by (simpl; lia). split; reflexivity.
  - vm_compute in G. discriminate.
Qed.
Example ex_prob_row : exists d, action_dist (ex_t CPolicy) PNone = Ok (GTable d) /\ tcls d = CDist /\
  keys d = [PInt 7; PFloat 1 2] /\ table_get d (PFloat 1 2) = Ok (Some (GScalar 5%Z)) /\ table_get d (PInt 8) = Ok None.
Proof.
  destruct (policy_action_dist_thm (ex_t CPolicy) _ _ PNone 2 (ex_wf _) eq_refl eq_refl eq_refl)
    as [d [G [C [K [X [P F]]]]]].
  exists d. repeat split; auto.
  all: try (apply (P 1); simpl; lia); try (apply F; reflexivity).
Qed.
Example ex_prob_row_tuple : is_row_dist (ex_t CProb) (getitem (ex_t CProb) (PTuple [PBool true])) [0]
                                        (mkField (PInt 1) [PInt 7; PFloat 1 2] DKDom).
Proof.
  apply prob_row_dist_thm; auto using ex_wf; try discriminate; simpl; auto.
Qed.
Example ex_foreign : getitem (ex_t CTable) (PInt 9) = Err EKey /\ getitem (ex_t CStateAction) (PInt 9) = Err EStateAction
  /\ getitem (ex_t CStateAction) (PTuple [PNone; PInt 9]) = Err EStateAction
  /\ table_get (ex_t CTable) (PTuple [PNone; PInt 9]) = Err EIndex.
Proof.
  split; [|split; [|split]].
  - apply (foreign_scalar_raises_thm (ex_t CTable) (PInt 9)); reflexivity.
  - apply (foreign_scalar_raises_thm (ex_t CStateAction) (PInt 9)); reflexivity.
  - apply (foreign_tuple_raises_thm (ex_t CStateAction) [PNone] [2] (PInt 9) []); auto using ex_wf;
      try (simpl; tauto); intros i; vm_compute; discriminate.
  - apply (foreign_tuple_raises_thm (ex_t CTable) [PNone] [2] (PInt 9) []); auto using ex_wf;
      try (simpl; tauto); intros i; vm_compute; discriminate.
Qed.

(* the same theorems on a table whose domains are held in a plain list and a plain tuple
   (TableIndex(fields=[Field("..", [...]), Field("..", (...))])) *)
Definition ex_plain : table :=
  mkTable CTable [mkField (PInt 0) [PInt 1; PNone] DKList; mkField (PInt 1) [PInt 7; PFloat 1 2] DKTuple]
          (fun ixs => Z.of_nat (ravel [2; 2] ixs 0)).
Lemma ex_plain_wf : wf ex_plain.
Proof. split; [discriminate|]. repeat constructor. Qed.
Example ex_full_plain : getitem ex_plain (PTuple [PNone; PFloat 1 2]) = Ok (GScalar 3%Z).
Proof.
  apply (full_key_cell_thm ex_plain [PNone; PFloat 1 2] [1; 1]); auto using ex_plain_wf.
  - simpl. auto.
  - intros i. vm_compute. discriminate.
Qed.
(* a plain tuple equal to a LIST domain is not "the whole domain" for msdm (tuple == list is False):
   it is resolved as a subset given as a tuple, whose field is then dropped -> ValueError *)
Example ex_plain_whole_domain_tuple :
  getitem ex_plain (PTuple [PTuple [PInt 1; PNone]; PInt 7]) = Err EValue /\
  exists t', getitem ex_plain (PTuple [PList [PInt 1; PNone]; PInt 7]) = Ok (GTable t').
Proof. split; [reflexivity | eexists; reflexivity]. Qed.
