(* VIUndisc.v — C01, undiscounted case (gamma <= 1 allowed, rewards <= 0): the value-iteration
   iterates T^k 0 decrease, dominate every non-positive sub-solution (hence the optimal value),
   and stay above  V - delta * N  for a result V accepted by the checker, where N is a checked
   expected-number-of-lossy-steps vector of the reported policy.  So every later iterate, and
   therefore their limit (the optimal total reward), lies in [V - delta*N, T^k 0]. *)
From Coq Require Import Reals Lra Lia List Arith Bool.
From MSDM Require Import base.Num base.NumInst base.NumR model.MDP model.VI theory.Bellman theory.VITheory.
Import ListNotations.
Local Open Scope R_scope.

Section Undisc.
Variable m : mdp R.

Fixpoint itT (k : nat) : nat -> R :=
  match k with O => fun _ => 0 | S k' => Top m (itT k') end.
Fixpoint itP (pi : nat -> nat -> R) (k : nat) : nat -> R :=
  match k with O => fun _ => 0 | S k' => Tpol m pi (itP pi k') end.

Lemma Tpol_mono pi V W :
  wf m -> wfpol m pi -> (forall ns, (ns < nS m)%nat -> V ns <= W ns) ->
  forall s, (s < nS m)%nat -> Tpol m pi V s <= Tpol m pi W s.
Proof.
  intros Wf Wp H s Hs. unfold Tpol, Qpol. apply sumf_le. intros a Ha. cbv beta.
  change (pi s a * Qval m V s a <= pi s a * Qval m W s a).
  apply Rmult_le_compat_l; [apply (wp_nn m pi Wp); auto|apply Qval_mono; auto].
Qed.

Lemma itP_le_itT pi :
  wf m -> wfpol m pi -> forall k s, (s < nS m)%nat -> itP pi k s <= itT k s.
Proof.
  intros Wf Wp. induction k; intros s Hs; [simpl; lra|]. cbn [itP itT].
  eapply Rle_trans; [apply Tpol_mono with (W := itT k); auto|apply Tpol_le_Top; auto].
Qed.

(* every VI iterate dominates every non-positive sub-solution of the optimality equation *)
Theorem itT_upper U :
  wf m -> (forall s, (s < nS m)%nat -> U s <= 0) ->
  (forall s, (s < nS m)%nat -> U s <= Top m U s) ->
  forall k s, (s < nS m)%nat -> U s <= itT k s.
Proof.
  intros Wf H0 Hsub. induction k; intros s Hs; [simpl; auto|]. cbn [itT].
  eapply Rle_trans; [apply Hsub; auto|apply Top_mono; auto].
Qed.

Lemma Qval_zero s a : Qval m (fun _ => 0) s a = Rm m s a.
Proof. rewrite Qval_R. rewrite sumf_0; [lra|]. intros; lra. Qed.

(* with non-positive rewards the iterates decrease *)
Theorem itT_decreasing :
  wf m -> (forall s a, (s < nS m)%nat -> (a < nA m)%nat -> avail m s a = true -> Rm m s a <= 0) ->
  forall k s, (s < nS m)%nat -> itT (S k) s <= itT k s.
Proof.
  intros Wf Hr. induction k; intros s Hs.
  - cbn [itT]. pose proof (backup_some m (fun _ => 0) s Wf Hs) as Hb. unfold backup in Hb.
    eapply maxf_le_bound; [exact Hb|]. intros a Ha Hav. rewrite Qval_zero. auto.
  - cbn [itT]. apply Top_mono; auto.
Qed.

Corollary itT_antitone :
  wf m -> (forall s a, (s < nS m)%nat -> (a < nA m)%nat -> avail m s a = true -> Rm m s a <= 0) ->
  forall j k s, (k <= j)%nat -> (s < nS m)%nat -> itT j s <= itT k s.
Proof.
  intros Wf Hr j k s Hle Hs. induction Hle; [lra|].
  eapply Rle_trans; [apply itT_decreasing; auto|exact IHHle].
Qed.

(* ---- lower bound through an expected-lossy-steps certificate ---- *)
Definition PN (pi : nat -> nat -> R) (N : nat -> R) (s : nat) : R :=
  sumf (nA m) (fun a => pi s a * sumf (nS m) (fun ns => Pm m s a ns * N ns)).

Lemma Tpol_shift pi V N c s :
  Tpol m pi (fun x => V x - c * N x) s = Tpol m pi V s - gamma m * c * PN pi N s.
Proof.
  unfold Tpol, Qpol, PN.
  change (sumf (nA m) (fun a => pi s a * Qval m (fun x => V x - c * N x) s a) =
          sumf (nA m) (fun a => pi s a * Qval m V s a)
          - gamma m * c * sumf (nA m) (fun a => pi s a * sumf (nS m) (fun ns => Pm m s a ns * N ns))).
  rewrite <- sumf_scal, <- sumf_minus. apply sumf_ext. intros a Ha. cbv beta.
  rewrite !Qval_R.
  replace (sumf (nS m) (fun ns => Pm m s a ns * (V ns - c * N ns)))
    with (sumf (nS m) (fun ns => Pm m s a ns * V ns) - c * sumf (nS m) (fun ns => Pm m s a ns * N ns)).
  - lra.
  - rewrite <- sumf_scal, <- sumf_minus. apply sumf_ext. intros ns Hns. cbv beta. lra.
Qed.

Lemma PN_nonneg pi N s :
  wf m -> wfpol m pi -> (s < nS m)%nat -> (forall x, (x < nS m)%nat -> 0 <= N x) -> 0 <= PN pi N s.
Proof.
  intros Wf Wp Hs HN. unfold PN. apply sumf_nonneg. intros a Ha. cbv beta.
  apply Rmult_le_pos; [apply (wp_nn m pi Wp); auto|].
  apply sumf_nonneg. intros ns Hns. cbv beta. apply Rmult_le_pos; [apply (wf_Pnn m Wf); auto|auto].
Qed.

Theorem itP_lower pi V N L delta :
  wf m -> wfpol m pi -> 0 <= delta ->
  (forall s, (s < nS m)%nat -> V s <= 0) ->
  (forall s, (s < nS m)%nat -> 0 <= N s) ->
  (forall s, (s < nS m)%nat -> 0 <= L s) ->
  (forall s, (s < nS m)%nat -> V s - delta * L s <= Tpol m pi V s) ->
  (forall s, (s < nS m)%nat -> L s + PN pi N s <= N s) ->
  forall k s, (s < nS m)%nat -> V s - delta * N s <= itP pi k s.
Proof.
  intros Wf Wp Hd HV HN HL Hloss Hcert.
  pose proof (wf_gamma0 m Wf) as G0. pose proof (wf_gamma1 m Wf) as G1.
  induction k; intros s Hs.
  - simpl. specialize (HV s Hs). specialize (HN s Hs).
    assert (0 <= delta * N s) by (apply Rmult_le_pos; auto). lra.
  - cbn [itP].
    eapply Rle_trans; [|apply Tpol_mono with (V := fun x => V x - delta * N x); auto].
    rewrite Tpol_shift.
    pose proof (PN_nonneg pi N s Wf Wp Hs HN) as Hp.
    specialize (Hloss s Hs). specialize (Hcert s Hs). specialize (HL s Hs).
    assert (gamma m * delta * PN pi N s <= delta * PN pi N s).
    { replace (gamma m * delta * PN pi N s) with (gamma m * (delta * PN pi N s)) by lra.
      assert (0 <= delta * PN pi N s) by (apply Rmult_le_pos; auto). nra. }
    assert (delta * (L s + PN pi N s) <= delta * N s) by (apply Rmult_le_compat_l; auto).
    lra.
Qed.

End Undisc.

(* ---- instantiate with a checker-accepted result ---- *)
Section Cert.
Variable m : mdp R.
Variable o : @planout R.
Variable t : @tols R.
Notation Vz := (Vz m o).

Lemma upolT_upol s a : upolT m o s a = upol m o s a.
Proof.
  unfold upolT, upol. destruct (masked m s).
  - destruct (avail m s a); [|reflexivity]. rewrite nofnat_R. numR.
    unfold Rdivg. destruct (Req_EM_T _ 0) as [E|E]; [rewrite E; unfold Rdiv; rewrite Rinv_0; lra|reflexivity].
  - destruct (insupp o s a); [|reflexivity]. rewrite nofnat_R. numR.
    unfold Rdivg. destruct (Req_EM_T _ 0) as [E|E]; [rewrite E; unfold Rdiv; rewrite Rinv_0; lra|reflexivity].
Qed.

Definition Lfun (s : nat) : R := if lossy m o s then 1 else 0.

(* one step of the reported policy loses at most delta' = epsb + B + 2 qtol, and nothing at
   non-lossy states *)
Lemma policy_step_loss B :
  wf m -> 0 <= epsb t -> 0 <= qtol t -> 0 <= atol_lo t -> 0 <= rtol_lo t -> 0 <= B ->
  c_abs m o = true -> c_res m o t = true -> c_q m o t = true -> c_pol m o t = true ->
  (forall s mx, (s < nS m)%nat -> maxQ m o s = Some mx -> band_hi t mx <= B) ->
  forall s, (s < nS m)%nat ->
    Vz s - (epsb t + B + 2 * qtol t) * Lfun s <= Tpol m (upol m o) Vz s.
Proof.
  intros Wf He Hq0 Hat Hrt HB0 Hab Hres Hq Hpol HB s Hs.
  unfold Lfun. destruct (lossy m o s) eqn:El.
  - (* lossy: must be non-masked or else Tpol = Vz = 0 *)
    rewrite Rmult_1_r.
    pose proof (upol_wf m o t Wf Hpol Hat Hrt) as Wp.
    destruct (masked m s) eqn:Hm.
    + assert (Tpol m (upol m o) Vz s = 0).
      { unfold Tpol, Qpol. apply sumf_0. intros a Ha. rewrite Qval_masked by auto.
        change (upol m o s a * 0 = 0). lra. }
      pose proof (residual_all m o t Wf He Hab Hres s Hs) as Hr.
      rewrite Top_masked in Hr by auto. apply Rabs_le_inv' in Hr. lra.
    + (* sum_a pi a * Qval a >= sum_a pi a * (Vz - d) = Vz - d *)
      set (d := epsb t + B + 2 * qtol t).
      assert (H : sumf (nA m) (fun a => upol m o s a * (Vz s - d)) <= Tpol m (upol m o) Vz s).
      { unfold Tpol, Qpol. apply sumf_le. intros a Ha. cbv beta.
        change (upol m o s a * (Vz s - d) <= upol m o s a * Qval m Vz s a).
        assert (Hu : upol m o s a = if insupp o s a then 1 / INR (suppcount m o s) else 0)
          by (unfold upol; now rewrite Hm).
        pose proof (wp_nn m _ Wp s a Hs Ha) as Hnn. rewrite Hu in *.
        destruct (insupp o s a) eqn:E; [|lra].
        apply Rmult_le_compat_l; [exact Hnn|].
        destruct (c_pol_spec m o t s Hpol Hs Hm) as (mx & Hmx & Hall).
        destruct (proj1 (Hall a Ha) E) as (Hav & Hband & _).
        pose proof (c_q_spec m o t s a Hq Hs Ha Hm Hav) as H2. apply Rabs_le_inv' in H2.
        assert (Hup : Top m Vz s <= mx + qtol t).
        { pose proof (backup_some m Vz s Wf Hs) as Hb. unfold backup in Hb.
          eapply maxf_le_bound; [exact Hb|]. intros a' Ha' Hav'.
          pose proof (c_q_spec m o t s a' Hq Hs Ha' Hm Hav') as H3. apply Rabs_le_inv' in H3.
          pose proof (maxf_ge _ _ _ _ _ Hmx Ha' Hav') as H4. lra. }
        pose proof (residual_all m o t Wf He Hab Hres s Hs) as Hr. apply Rabs_le_inv' in Hr.
        specialize (HB s mx Hs Hmx). unfold d. lra. }
      rewrite sumf_scal_r, (wp_sum m _ Wp s Hs) in H. unfold d in *. lra.
  - rewrite Rmult_0_r. unfold lossy in El. apply negb_false_iff in El.
    apply nleb_Rle in El. unfold Tpol.
    replace (Qpol m (upol m o) Vz s) with (Qpol m (upolT m o) Vz s); [lra|].
    unfold Qpol. apply sumf_ext. intros a Ha. now rewrite upolT_upol.
Qed.

Theorem undisc_lower N B :
  wf m -> 0 <= epsb t -> 0 <= qtol t -> 0 <= atol_lo t -> 0 <= rtol_lo t -> 0 <= B ->
  c_abs m o = true -> c_res m o t = true -> c_q m o t = true -> c_pol m o t = true ->
  c_nonpos m o = true -> c_N m o N = true ->
  (forall s mx, (s < nS m)%nat -> maxQ m o s = Some mx -> band_hi t mx <= B) ->
  forall k s, (s < nS m)%nat ->
    Vz s - (epsb t + B + 2 * qtol t) * N s <= itT m k s.
Proof.
  intros Wf He Hq0 Hat Hrt HB0 Hab Hres Hq Hpol Hnp HcN HB k s Hs.
  pose proof (upol_wf m o t Wf Hpol Hat Hrt) as Wp.
  eapply Rle_trans; [|apply (itP_le_itT m (upol m o) Wf Wp k s Hs)].
  unfold c_nonpos in Hnp. rewrite forallbn_spec in Hnp.
  unfold c_N in HcN. rewrite forallbn_spec in HcN.
  apply (itP_lower m (upol m o) Vz N Lfun (epsb t + B + 2 * qtol t)); auto.
  - lra.
  - intros x Hx. apply nleb_Rle. apply Hnp; auto.
  - intros x Hx. specialize (HcN x Hx). apply andb_true_iff in HcN as [H _]. now apply nleb_Rle in H.
  - intros x Hx. unfold Lfun. destruct (lossy m o x); lra.
  - intros x Hx. apply policy_step_loss; auto.
  - intros x Hx. specialize (HcN x Hx). apply andb_true_iff in HcN as [_ H]. apply nleb_Rle in H.
    unfold Lfun, PN.
    replace (sumf (nA m) (fun a => upol m o x a * sumf (nS m) (fun ns => Pm m x a ns * N ns)))
      with (sumf (nA m) (fun a => upolT m o x a * sumf (nS m) (fun ns => Pm m x a ns * N ns))).
    + destruct (lossy m o x); numR; exact H.
    + apply sumf_ext. intros a Ha. now rewrite upolT_upol.
Qed.

End Cert.

(* ---- the mirror's iterates are the mathematical iterates ---- *)
Section Mirror.
Variable m : mdp R.

Lemma Top_ext V W s :
  (forall ns, (ns < nS m)%nat -> V ns = W ns) -> Top m V s = Top m W s.
Proof.
  intros H. unfold Top, backup. f_equal. apply maxf_ext; auto. intros a Ha _.
  rewrite !Qval_R. f_equal. f_equal. apply sumf_ext. intros ns Hns. now rewrite H.
Qed.

Lemma vi_iter_itT k s : (s < nS m)%nat -> untab (vi_iter m k) s = itT m k s.
Proof.
  revert s. induction k; intros s Hs.
  - cbn [vi_iter itT]. rewrite untab_tab by auto. reflexivity.
  - cbn [vi_iter itT]. unfold sweep. rewrite untab_tab by auto.
    unfold Top. apply Top_ext. intros ns Hns. apply IHk; auto.
Qed.

(* the loops only ever return iterates *)
Lemma vi_vec_loop_iter fuel : forall i eps k,
  exists k', (k <= k')%nat /\ fst (vi_vec_loop m fuel i eps (vi_iter m k)) = vi_iter m k'.
Proof.
  induction fuel; intros i eps k; cbn [vi_vec_loop].
  - exists k. split; [lia|reflexivity].
  - destruct (allclose m eps (vi_iter m k) (sweep m (vi_iter m k))).
    + exists k. split; [lia|reflexivity].
    + change (sweep m (vi_iter m k)) with (vi_iter m (S k)).
      destruct (IHfuel (S i) eps (S k)) as (k' & Hk & E). exists k'. split; [lia|exact E].
Qed.
Theorem vi_vec_returns_iterate mi eps : exists k, fst (vi_vec m mi eps) = vi_iter m k.
Proof. destruct (vi_vec_loop_iter mi 0%nat eps 0%nat) as (k & _ & E). exists k. exact E. Qed.

Lemma vi_dict_loop_iter fuel : forall i eps k,
  exists k', (k <= k')%nat /\ fst (vi_dict_loop m fuel i eps (vi_iter m k)) = vi_iter m k'.
Proof.
  induction fuel; intros i eps k; cbn [vi_dict_loop].
  - exists k. split; [lia|reflexivity].
  - destruct (nltb (maxdiff m (vi_iter m k) (sweep m (vi_iter m k))) eps).
    + exists (S k). split; [lia|reflexivity].
    + change (sweep m (vi_iter m k)) with (vi_iter m (S k)).
      destruct (IHfuel (S i) eps (S k)) as (k' & Hk & E). exists k'. split; [lia|exact E].
Qed.
Theorem vi_dict_returns_iterate mi eps : exists k, fst (vi_dict m mi eps) = vi_iter m k.
Proof. destruct (vi_dict_loop_iter mi 0%nat eps 0%nat) as (k & _ & E). exists k. exact E. Qed.

End Mirror.
