(* MultichainTransfer.v — C16: (i) what vm_compute evaluates on Q is the checker the theorems of
   MultichainTheory.v are about (R instance), by the parametricity translation;
   (ii) the end-to-end statements "checker returned all-true on the exact rationals of msdm's
   output  ==>  property clauses over R";  (iii) non-vacuity examples. *)
From Coq Require Import QArith Qreals Reals Lra Lia List Bool.
From Param Require Import Param.
From MSDM Require Import base.Num base.NumInst base.NumR base.Transfer model.MDP model.VI
     model.Multichain theory.Bellman theory.VITheory theory.VITransfer theory.VIMain theory.VIExample
     theory.MultichainTheory.
Import ListNotations.

Parametricity Recursive mk_mc.
Parametricity Recursive mk_gc.
Parametricity Recursive c16_gain_check.
Parametricity Recursive c16_tight_check.
Parametricity Recursive c16_disc_check.

Definition dtolsR (t : @dtols Q) : @dtols R :=
  mkDT (Q2R (d_eps t)) (Q2R (d_eta t)) (Q2R (d_gz t)) (Q2R (d_ptol t)) (Q2R (d_itol t)).

Theorem c16_gain_check_transfer nS nA P Rw av ab ini gm g h Pi ig iv g' w h' dup dlo gt pt it :
  @c16_gain_check Q NumQ (mk_mdp nS nA P Rw av ab ini gm) (mk_mc g h Pi ig iv)
                  (mk_gc g' w h' dup dlo gt pt it) =
  @c16_gain_check R NumR
     (mk_mdp nS nA (map3 Q2R P) (map3 Q2R Rw) av ab (map Q2R ini) (Q2R gm))
     (mk_mc (map Q2R g) (map Q2R h) (map2 Q2R Pi) (Q2R ig) (Q2R iv))
     (mk_gc (map Q2R g') (map Q2R w) (map Q2R h') (Q2R dup) (Q2R dlo) (Q2R gt) (Q2R pt) (Q2R it)).
Proof.
  apply list_R_bool_eq.
  apply (c16_gain_check_R Q R QR NumQ NumR NumQR).
  - apply (mk_mdp_R Q R QR NumQ NumR NumQR); try apply nat_R_refl;
      auto using list_R_map1, list_R_map2, list_R_map3, list_R_bool_refl, list_R_bool2_refl.
    reflexivity.
  - apply (mk_mc_R Q R QR NumQ NumR NumQR); auto using list_R_map1, list_R_map2; reflexivity.
  - apply (mk_gc_R Q R QR NumQ NumR NumQR); auto using list_R_map1; reflexivity.
Qed.

Theorem c16_tight_check_transfer nS nA P Rw av ab ini gm g h Pi ig iv g' w h' dup dlo gt pt it d :
  @c16_tight_check Q NumQ (mk_mdp nS nA P Rw av ab ini gm) (mk_mc g h Pi ig iv)
                   (mk_gc g' w h' dup dlo gt pt it) d =
  @c16_tight_check R NumR
     (mk_mdp nS nA (map3 Q2R P) (map3 Q2R Rw) av ab (map Q2R ini) (Q2R gm))
     (mk_mc (map Q2R g) (map Q2R h) (map2 Q2R Pi) (Q2R ig) (Q2R iv))
     (mk_gc (map Q2R g') (map Q2R w) (map Q2R h') (Q2R dup) (Q2R dlo) (Q2R gt) (Q2R pt) (Q2R it))
     (Q2R d).
Proof.
  apply bool_R_inv.
  apply (c16_tight_check_R Q R QR NumQ NumR NumQR).
  - apply (mk_mdp_R Q R QR NumQ NumR NumQR); try apply nat_R_refl;
      auto using list_R_map1, list_R_map2, list_R_map3, list_R_bool_refl, list_R_bool2_refl.
    reflexivity.
  - apply (mk_mc_R Q R QR NumQ NumR NumQR); auto using list_R_map1, list_R_map2; reflexivity.
  - apply (mk_gc_R Q R QR NumQ NumR NumQR); auto using list_R_map1; reflexivity.
  - reflexivity.
Qed.

Theorem c16_disc_check_transfer nS nA P Rw av ab ini gm g h Pi ig iv (tl : @dtols Q) :
  @c16_disc_check Q NumQ (mk_mdp nS nA P Rw av ab ini gm) (mk_mc g h Pi ig iv) tl =
  @c16_disc_check R NumR
     (mk_mdp nS nA (map3 Q2R P) (map3 Q2R Rw) av ab (map Q2R ini) (Q2R gm))
     (mk_mc (map Q2R g) (map Q2R h) (map2 Q2R Pi) (Q2R ig) (Q2R iv))
     (dtolsR tl).
Proof.
  apply list_R_bool_eq.
  apply (c16_disc_check_R Q R QR NumQ NumR NumQR).
  - apply (mk_mdp_R Q R QR NumQ NumR NumQR); try apply nat_R_refl;
      auto using list_R_map1, list_R_map2, list_R_map3, list_R_bool_refl, list_R_bool2_refl.
    reflexivity.
  - apply (mk_mc_R Q R QR NumQ NumR NumQR); auto using list_R_map1, list_R_map2; reflexivity.
  - destruct tl. constructor; reflexivity.
Qed.

Local Open Scope R_scope.

(* ------------------------------------------------------------------ *)
(* end-to-end statements                                               *)
(* ------------------------------------------------------------------ *)
Section Main.
Variables (nS nA : nat) (P Rw : list (list (list Q))) (av : list (list bool)) (ab : list bool)
          (ini : list Q) (gm : Q) (g h : list Q) (Pi : list (list Q)) (ig iv : Q).

Notation mR := (mR nS nA P Rw av ab ini gm).
Definition ocR : @mcout R := mk_mc (map Q2R g) (map Q2R h) (map2 Q2R Pi) (Q2R ig) (Q2R iv).

Section Gain.
Variables (g' w h' : list Q) (dup dlo gt pt it : Q).
Definition gcR : @gcert R :=
  mk_gc (map Q2R g') (map Q2R w) (map Q2R h') (Q2R dup) (Q2R dlo) (Q2R gt) (Q2R pt) (Q2R it).

Hypothesis Hchk :
  @c16_gain_check Q NumQ (mk_mdp nS nA P Rw av ab ini gm) (mk_mc g h Pi ig iv)
                  (mk_gc g' w h' dup dlo gt pt it) = gain_all_true.

Lemma gchkR : c16_gain_check mR ocR gcR = gain_all_true.
Proof. unfold VIMain.mR, ocR, gcR. rewrite <- c16_gain_check_transfer. exact Hchk. Qed.

Theorem main_gain_undiscounted : Q2R gm = 1.
Proof. pose proof (gclauses mR ocR gcR gchkR) as (_ & H & _). exact H. Qed.

Theorem main_gain_upper :
  0 <= Q2R dup -> 0 <= Q2R gt ->
  exists W, 0 <= W /\
    forall pol, wfh mR pol -> forall T hist s, (s < nS)%nat ->
      Jn mR pol T hist s <= INR T * (og ocR s + (Q2R gt + Q2R dup)) + W.
Proof. intros H1 H2. exact (mcpi_gain_upper mR ocR gcR gchkR H1 H2). Qed.

Theorem main_gain_attained :
  0 <= Q2R dlo -> 0 <= Q2R gt ->
  exists W, 0 <= W /\
    forall T hist s, (s < nS)%nat ->
      INR T * (og ocR s - (Q2R gt + Q2R dlo)) - W <= Jn mR (stationary (upol mR ocR)) T hist s.
Proof. intros H1 H2. exact (mcpi_gain_attained mR ocR gcR gchkR H1 H2). Qed.

Theorem main_gain_attained_support d :
  @c16_tight_check Q NumQ (mk_mdp nS nA P Rw av ab ini gm) (mk_mc g h Pi ig iv)
                   (mk_gc g' w h' dup dlo gt pt it) d = true ->
  0 <= Q2R d -> 0 <= Q2R gt ->
  exists W, 0 <= W /\
    forall pol, wfh mR pol -> supported mR pol (opi ocR) -> forall T hist s, (s < nS)%nat ->
      INR T * (og ocR s - (Q2R gt + Q2R d)) - W <= Jn mR pol T hist s.
Proof.
  intros Ht H1 H2. rewrite c16_tight_check_transfer in Ht.
  exact (mcpi_gain_attained_support mR ocR gcR gchkR (Q2R d) Ht H1 H2).
Qed.

Theorem main_gain_optimal eps :
  0 <= Q2R dup -> 0 <= Q2R dlo -> 0 <= Q2R gt -> 0 < eps ->
  wfh mR (stationary (upol mR ocR)) /\ supported mR (stationary (upol mR ocR)) (opi ocR) /\
  exists T0 : nat, forall T, (T0 <= T)%nat -> forall s, (s < nS)%nat ->
    (forall pol hist, wfh mR pol ->
       Jn mR pol T hist s <= INR T * (og ocR s + (Q2R gt + Q2R dup) + eps)) /\
    (forall hist,
       INR T * (og ocR s - (Q2R gt + Q2R dlo) - eps)
         <= Jn mR (stationary (upol mR ocR)) T hist s).
Proof. intros H1 H2 H3 H4. exact (mcpi_gain_optimal mR ocR gcR gchkR eps H1 H2 H3 H4). Qed.

Theorem main_gain_policy_available s a :
  (s < nS)%nat -> (a < nA)%nat -> 0 < opi ocR s a -> avail mR s a = true.
Proof. exact (mcpi_gain_policy_available mR ocR gcR gchkR s a). Qed.

Theorem main_gain_policy_uniform s a :
  (s < nS)%nat -> (a < nA)%nat ->
  (0 < opi ocR s a -> Rabs (opi ocR s a * INR (pcount mR (opi ocR) s) - 1) <= Q2R pt) /\
  (~ 0 < opi ocR s a -> opi ocR s a = 0).
Proof. exact (mcpi_gain_policy_uniform mR ocR gcR gchkR s a). Qed.

Theorem main_gain_initial :
  Rabs (oig ocR - sumf nS (fun s => init mR s * og ocR s)) <= Q2R it /\
  Rabs (oiv ocR - sumf nS (fun s => init mR s * oh ocR s)) <= Q2R it.
Proof. exact (mcpi_gain_initial mR ocR gcR gchkR). Qed.
End Gain.

Section Disc.
Variable tl : @dtols Q.
Hypothesis Hchk :
  @c16_disc_check Q NumQ (mk_mdp nS nA P Rw av ab ini gm) (mk_mc g h Pi ig iv) tl = gain_all_true.

Lemma dchkR : c16_disc_check mR ocR (dtolsR tl) = gain_all_true.
Proof. unfold VIMain.mR, ocR. rewrite <- c16_disc_check_transfer. exact Hchk. Qed.

Theorem main_disc_discounted : Q2R gm < 1.
Proof. pose proof (dclauses mR ocR (dtolsR tl) dchkR) as (_ & H & _). exact H. Qed.

Theorem main_disc_values Vs :
  0 <= Q2R (d_eps tl) -> fixpoint mR Vs ->
  forall s, (s < nS)%nat -> Rabs (oh ocR s - Vs s) <= Q2R (d_eps tl) / (1 - Q2R gm).
Proof. exact (mcpi_disc_values mR ocR (dtolsR tl) dchkR Vs). Qed.

Theorem main_disc_support Vs s a :
  0 <= Q2R (d_eps tl) -> fixpoint mR Vs -> (s < nS)%nat -> (a < nA)%nat -> 0 < opi ocR s a ->
  avail mR s a = true /\ Vs s - d_loss mR (dtolsR tl) <= Qval mR Vs s a.
Proof. exact (mcpi_disc_support mR ocR (dtolsR tl) dchkR Vs s a). Qed.

Theorem main_disc_policy_return Vs pi Vpi :
  0 <= Q2R (d_eps tl) -> 0 <= Q2R (d_eta tl) -> fixpoint mR Vs -> wfpol mR pi ->
  (forall s a, (s < nS)%nat -> (a < nA)%nat -> 0 < pi s a -> 0 < opi ocR s a) ->
  fixpol mR pi Vpi ->
  forall s, (s < nS)%nat -> Rabs (Vpi s - Vs s) <= d_loss mR (dtolsR tl) / (1 - Q2R gm).
Proof. exact (mcpi_disc_policy_return mR ocR (dtolsR tl) dchkR Vs pi Vpi). Qed.

Theorem main_disc_returned_policy Vs Vpi :
  0 <= Q2R (d_eps tl) -> 0 <= Q2R (d_eta tl) -> fixpoint mR Vs -> fixpol mR (upol mR ocR) Vpi ->
  forall s, (s < nS)%nat -> Rabs (Vpi s - Vs s) <= d_loss mR (dtolsR tl) / (1 - Q2R gm).
Proof. exact (mcpi_disc_returned_policy mR ocR (dtolsR tl) dchkR Vs Vpi). Qed.

Theorem main_disc_policy_available s a :
  (s < nS)%nat -> (a < nA)%nat -> 0 < opi ocR s a -> avail mR s a = true.
Proof. exact (mcpi_disc_policy_available mR ocR (dtolsR tl) dchkR s a). Qed.

Theorem main_disc_gain_zero s : (s < nS)%nat -> Rabs (og ocR s) <= Q2R (d_gz tl).
Proof. exact (mcpi_disc_gain_zero mR ocR (dtolsR tl) dchkR s). Qed.
End Disc.
End Main.

(* ------------------------------------------------------------------ *)
(* non-vacuity                                                         *)
(* ------------------------------------------------------------------ *)
Local Open Scope Q_scope.

(* A genuinely multichain undiscounted MDP.  s0 (transient): a0 -> s1, reward 0;
   a1 -> s2 | s3 (1/2 each), reward 5.  s1: a0 self-loop paying 2 (closed class, gain 2).
   s2: a0 self-loop paying 1 (closed class, gain 1); a1 -> s3 paying 3.  s3: explicitly absorbing
   (its self-loop pays 7, which must be ignored).  Optimal gain (2, 2, 1, 0); the greedy immediate
   reward at s0 (a1, 5) is NOT gain-optimal; the dual vector needs M = 4: w = h + 4 g. *)
Definition mxP : list (list (list Q)) :=
  [ [[0; 1; 0; 0]; [0; 0; 1#2; 1#2]]; [[0; 1; 0; 0]; [0; 0; 0; 0]];
    [[0; 0; 1; 0]; [0; 0; 0; 1]]; [[0; 0; 0; 1]; [0; 0; 0; 0]] ].
Definition mxR : list (list (list Q)) :=
  [ [[0; 0; 0; 0]; [0; 0; 5; 5]]; [[0; 2; 0; 0]; [0; 0; 0; 0]];
    [[0; 0; 1; 0]; [0; 0; 0; 3]]; [[0; 0; 0; 7]; [0; 0; 0; 0]] ].
Definition mxAv := [[true; true]; [true; false]; [true; true]; [true; false]].
Definition mxAb := [false; false; false; true].
Definition mxIni : list Q := [1#2; 0; 1#2; 0].
(* a (slightly perturbed) result as the implementation would report it *)
Definition mxG : list Q := [2 + (1#1000000000); 2; 1 - (1#1000000000); 0].
Definition mxH : list Q := [-2 + (1#1000000000); 0; 0; 1#1000000000000].
Definition mxPi : list (list Q) := [[1; 0]; [1; 0]; [1; 0]; [1; 0]].
(* the certificate *)
Definition mxG' : list Q := [2; 2; 1; 0].
Definition mxW : list Q := [6 + (1#1000000000); 8; 4; 1#1000000000000].
Definition mxH' : list Q := [-2; 0; 0; 0].     (* exact bias of the returned policy *)

Example mx_check :
  @c16_gain_check Q NumQ (mk_mdp 4 2 mxP mxR mxAv mxAb mxIni 1)
     (mk_mc mxG mxH mxPi (3#2) (-1 + (1#2000000000)))
     (mk_gc mxG' mxW mxH' (1#100000000) 0 (1#100000000) (1#1000000000) (1#100000000))
  = gain_all_true.
Proof. vm_compute. reflexivity. Qed.
Example mx_tight :
  @c16_tight_check Q NumQ (mk_mdp 4 2 mxP mxR mxAv mxAb mxIni 1)
     (mk_mc mxG mxH mxPi (3#2) (-1 + (1#2000000000)))
     (mk_gc mxG' mxW mxH' (1#100000000) 0 (1#100000000) (1#1000000000) (1#100000000)) (1#100000000)
  = true.
Proof. vm_compute. reflexivity. Qed.

(* the hypotheses of the policy quantifier are inhabited beyond the returned policy:
   "always a1 where possible" is a well-formed policy of this MDP *)
Example mx_other_policy :
  wfh (mR 4 2 mxP mxR mxAv mxAb mxIni 1)
      (stationary (fun s a => if Nat.eqb s 0 || Nat.eqb s 2 then (if Nat.eqb a 1 then 1 else 0)
                              else (if Nat.eqb a 0 then 1 else 0)))%R.
Proof.
  constructor; unfold stationary.
  - intros _ s a Hs Ha. destruct s as [|[|[|[|s]]]]; destruct a as [|[|a]]; simpl in *; try lia; lra.
  - intros _ s Hs. destruct s as [|[|[|[|s]]]]; simpl in *; try lia; numR; lra.
  - intros _ s a Hs Ha. destruct s as [|[|[|[|s]]]]; destruct a as [|[|a]]; simpl in *;
      try lia; try discriminate; auto.
Qed.

(* discounted: the MDP of theory/VIExample.v *)
Example dx_check :
  @c16_disc_check Q NumQ (mk_mdp 3 2 exP exR exAv exAb exIni (1#2))
     (mk_mc [1#100000000000; 0; 0] exV exPi (1#200000000000) ((3#2) + (1#2000000)))
     (mkDT (1#100000) (1#100000) (1#1000000000) (1#1000000000000) (1#1000000))
  = gain_all_true.
Proof. vm_compute. reflexivity. Qed.
