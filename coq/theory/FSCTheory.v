(* FSCTheory.v — C09: theory of the controller x POMDP cross-product chain at the R instance.
   All statements are for arbitrary numbers of states, actions, observations, nodes. *)
From Coq Require Import Reals Lra Lia List Arith Bool.
From MSDM Require Import base.Num base.NumInst base.NumR model.FSC.
Import ListNotations.
Local Open Scope R_scope.

(* ================================================================== *)
(* A. contractive (and monotone) operators on tables  nat -> nat -> R   *)
(* ================================================================== *)
Lemma finite_sup1 n (f : nat -> R) :
  exists D, 0 <= D /\ (forall i, (i < n)%nat -> Rabs (f i) <= D) /\
            (D = 0 \/ exists i, (i < n)%nat /\ Rabs (f i) = D).
Proof.
  induction n.
  - exists 0. split; [lra|]. split; [intros; lia|auto].
  - destruct IHn as (D & HD0 & HDle & HDat).
    destruct (Rle_dec (Rabs (f n)) D) as [Hle|Hgt].
    + exists D. split; [auto|]. split.
      * intros i Hi. destruct (Nat.eq_dec i n); [subst; auto|apply HDle; lia].
      * destruct HDat as [|(i & Hi & He)]; [auto|right; exists i; split; [lia|auto]].
    + exists (Rabs (f n)). split; [apply Rabs_pos|]. split.
      * intros i Hi. destruct (Nat.eq_dec i n); [subst; lra|].
        eapply Rle_trans; [apply HDle; lia|lra].
      * right; exists n; split; [lia|reflexivity].
Qed.

Lemma finite_sup2 N S (f : nat -> nat -> R) :
  exists D, 0 <= D /\ (forall n s, (n < N)%nat -> (s < S)%nat -> Rabs (f n s) <= D) /\
            (D = 0 \/ exists n s, (n < N)%nat /\ (s < S)%nat /\ Rabs (f n s) = D).
Proof.
  induction N.
  - exists 0. split; [lra|]. split; [intros; lia|auto].
  - destruct IHN as (D & HD0 & HDle & HDat).
    destruct (finite_sup1 S (f N)) as (E & HE0 & HEle & HEat).
    destruct (Rle_dec E D) as [Hle|Hgt].
    + exists D. split; [auto|]. split.
      * intros n s Hn Hs. destruct (Nat.eq_dec n N) as [->|Hne].
        -- eapply Rle_trans; [apply HEle; auto|exact Hle].
        -- apply HDle; auto; lia.
      * destruct HDat as [|(n & s & Hn & Hs & He)]; [auto|].
        right; exists n, s. repeat split; auto; lia.
    + exists E. split; [auto|]. split.
      * intros n s Hn Hs. destruct (Nat.eq_dec n N) as [->|Hne].
        -- apply HEle; auto.
        -- eapply Rle_trans; [apply HDle; auto; lia|lra].
      * destruct HEat as [->|(s & Hs & He)]; [lra|].
        right; exists N, s. repeat split; auto.
Qed.

Section Op2.
Variables (N S : nat) (B : (nat -> nat -> R) -> nat -> nat -> R) (c : R).
Hypothesis c0 : 0 <= c.
Hypothesis c1 : c < 1.
Hypothesis Bcontr : forall V W d, 0 <= d ->
  (forall n s, (n < N)%nat -> (s < S)%nat -> Rabs (V n s - W n s) <= d) ->
  forall n s, (n < N)%nat -> (s < S)%nat -> Rabs (B V n s - B W n s) <= c * d.

Definition opfix (Vs : nat -> nat -> R) : Prop :=
  forall n s, (n < N)%nat -> (s < S)%nat -> Vs n s = B Vs n s.

Theorem op_residual_bound V Vs delta :
  opfix Vs -> 0 <= delta ->
  (forall n s, (n < N)%nat -> (s < S)%nat -> Rabs (V n s - B V n s) <= delta) ->
  forall n s, (n < N)%nat -> (s < S)%nat -> Rabs (V n s - Vs n s) <= delta / (1 - c).
Proof.
  intros Hfix Hd0 Hres.
  destruct (finite_sup2 N S (fun n s => V n s - Vs n s)) as (D & HD0 & HDle & HDat).
  assert (HD : D <= delta / (1 - c)).
  { destruct HDat as [->|(i & j & Hi & Hj & He)].
    - apply Rmult_le_pos; [lra|]. left. apply Rinv_0_lt_compat. lra.
    - cbv beta in He.
      assert (H1 : D <= delta + c * D).
      { assert (Hc : Rabs (B V i j - B Vs i j) <= c * D) by (apply Bcontr; auto).
        pose proof (Hres i j Hi Hj) as Hr. pose proof (Hfix i j Hi Hj) as Hf.
        apply Rabs_le_inv' in Hc. apply Rabs_le_inv' in Hr.
        rewrite <- He at 1. apply Rabs_le. lra. }
      apply Rmult_le_reg_r with (1 - c); [lra|].
      unfold Rdiv. rewrite Rmult_assoc, Rinv_l; lra. }
  intros n s Hn Hs. eapply Rle_trans; [apply HDle; auto|exact HD].
Qed.

Corollary op_unique V1 V2 :
  opfix V1 -> opfix V2 -> forall n s, (n < N)%nat -> (s < S)%nat -> V1 n s = V2 n s.
Proof.
  intros H1 H2 n s Hn Hs.
  assert (H : Rabs (V1 n s - V2 n s) <= 0 / (1 - c)).
  { apply op_residual_bound; auto; [lra|]. intros n' s' Hn' Hs'. rewrite <- (H1 n' s' Hn' Hs').
    replace (V1 n' s' - V1 n' s') with 0 by lra. rewrite Rabs_R0; lra. }
  unfold Rdiv in H. rewrite Rmult_0_l in H.
  pose proof (Rabs_pos (V1 n s - V2 n s)).
  assert (E : Rabs (V1 n s - V2 n s) = 0) by lra.
  destruct (Req_dec (V1 n s - V2 n s) 0) as [|Hne]; [lra|].
  apply Rabs_no_R0 in Hne. contradiction.
Qed.

Fixpoint opiter (k : nat) (V0 : nat -> nat -> R) : nat -> nat -> R :=
  match k with O => V0 | Datatypes.S k' => B (opiter k' V0) end.

(* distance of an approximate solution to the k-th iterate *)
Theorem op_iter_bound V V0 delta M k :
  0 <= delta -> 0 <= M ->
  (forall n s, (n < N)%nat -> (s < S)%nat -> Rabs (V n s - B V n s) <= delta) ->
  (forall n s, (n < N)%nat -> (s < S)%nat -> Rabs (V n s - V0 n s) <= M) ->
  forall n s, (n < N)%nat -> (s < S)%nat ->
    Rabs (V n s - opiter k V0 n s) <= delta / (1 - c) + c ^ k * M.
Proof.
  intros Hd0 HM0 Hres H0.
  assert (Hinv : 0 < / (1 - c)) by (apply Rinv_0_lt_compat; lra).
  assert (Hdc : 0 <= delta / (1 - c)) by (apply Rmult_le_pos; lra).
  induction k as [|k IH]; intros n s Hn Hs.
  - simpl. specialize (H0 n s Hn Hs). lra.
  - cbn [opiter].
    assert (Hpow : 0 <= c ^ k) by (apply pow_le; auto).
    assert (Hb0 : 0 <= delta / (1 - c) + c ^ k * M).
    { apply Rplus_le_le_0_compat; auto. apply Rmult_le_pos; auto. }
    pose proof (Bcontr V (opiter k V0) _ Hb0 IH n s Hn Hs) as Hc.
    pose proof (Hres n s Hn Hs) as Hr.
    apply Rabs_le_inv' in Hc. apply Rabs_le_inv' in Hr.
    assert (E : delta + c * (delta / (1 - c) + c ^ k * M) = delta / (1 - c) + c ^ Datatypes.S k * M).
    { simpl. field. lra. }
    rewrite <- E. apply Rabs_le. lra.
Qed.

(* the iterates converge to any exact solution *)
Corollary op_iter_limit Vs V0 M :
  opfix Vs -> 0 <= M ->
  (forall n s, (n < N)%nat -> (s < S)%nat -> Rabs (Vs n s - V0 n s) <= M) ->
  forall eps, 0 < eps -> exists K, forall k, (K <= k)%nat ->
  forall n s, (n < N)%nat -> (s < S)%nat -> Rabs (Vs n s - opiter k V0 n s) < eps.
Proof.
  intros Hfix HM0 H0 eps Heps.
  assert (Hc : Rabs c < 1) by (rewrite Rabs_right; lra).
  assert (HM1 : 0 < M + 1) by lra.
  destruct (pow_lt_1_zero c Hc (eps / (M + 1))) as (K & HK).
  { apply Rdiv_lt_0_compat; lra. }
  exists K. intros k Hk n s Hn Hs.
  assert (Hb : Rabs (Vs n s - opiter k V0 n s) <= 0 / (1 - c) + c ^ k * M).
  { apply op_iter_bound; auto; [lra|]. intros n' s' Hn' Hs'. rewrite <- (Hfix n' s' Hn' Hs').
    replace (Vs n' s' - Vs n' s') with 0 by lra. rewrite Rabs_R0; lra. }
  specialize (HK k Hk). rewrite Rabs_right in HK by (apply Rle_ge, pow_le; auto).
  assert (Hpk : 0 <= c ^ k) by (apply pow_le; auto).
  assert (c ^ k * M <= c ^ k * (M + 1)) by (apply Rmult_le_compat_l; lra).
  assert (c ^ k * (M + 1) < eps).
  { apply Rmult_lt_reg_r with (/ (M + 1)); [apply Rinv_0_lt_compat; lra|].
    rewrite Rmult_assoc, Rinv_r by lra. unfold Rdiv in HK. lra. }
  unfold Rdiv in Hb. lra.
Qed.

(* monotone operators: sub-solutions lie below the solution *)
Hypothesis Bmono : forall V W,
  (forall n s, (n < N)%nat -> (s < S)%nat -> V n s <= W n s) ->
  forall n s, (n < N)%nat -> (s < S)%nat -> B V n s <= B W n s.

Theorem op_subsolution_lower V Vs :
  opfix Vs ->
  (forall n s, (n < N)%nat -> (s < S)%nat -> V n s <= B V n s) ->
  forall n s, (n < N)%nat -> (s < S)%nat -> V n s <= Vs n s.
Proof.
  intros Hfix Hsub.
  destruct (finite_sup2 N S (fun n s => Rmax 0 (V n s - Vs n s))) as (D & HD0 & HDle & HDat).
  assert (Hpos : forall n s, (n < N)%nat -> (s < S)%nat -> V n s - Vs n s <= D).
  { intros n s Hn Hs. specialize (HDle n s Hn Hs). rewrite Rabs_right in HDle.
    - eapply Rle_trans; [apply Rmax_r|exact HDle].
    - apply Rle_ge, Rmax_l. }
  assert (HDz : D = 0).
  { destruct HDat as [|(i & j & Hi & Hj & He)]; [auto|].
    rewrite Rabs_right in He by (apply Rle_ge, Rmax_l).
    destruct (Rle_dec (V i j - Vs i j) 0) as [Hle|Hgt].
    { rewrite Rmax_left in He; lra. }
    rewrite Rmax_right in He by lra.
    set (W := fun n s => Vs n s + D).
    assert (H1 : B V i j <= B W i j).
    { apply Bmono; auto. intros n s Hn Hs. unfold W. specialize (Hpos n s Hn Hs). lra. }
    assert (H2 : Rabs (B W i j - B Vs i j) <= c * D).
    { apply Bcontr; auto. intros n s Hn Hs. unfold W.
      replace (Vs n s + D - Vs n s) with D by lra. rewrite Rabs_right; lra. }
    apply Rabs_le_inv' in H2. specialize (Hsub i j Hi Hj). rewrite <- (Hfix i j Hi Hj) in H2.
    assert (D <= c * D) by lra.
    assert (0 <= (1 - c) * D) by (apply Rmult_le_pos; lra). nra. }
  intros n s Hn Hs. specialize (Hpos n s Hn Hs). lra.
Qed.

(* ... and approximate sub-solutions lie below it up to tau/(1-c) *)
Theorem op_subsolution_slack V Vs tau :
  opfix Vs -> 0 <= tau ->
  (forall n s, (n < N)%nat -> (s < S)%nat -> V n s <= B V n s + tau) ->
  forall n s, (n < N)%nat -> (s < S)%nat -> V n s <= Vs n s + tau / (1 - c).
Proof.
  intros Hfix Ht Hsub.
  set (k := tau / (1 - c)).
  assert (Hk0 : 0 <= k).
  { unfold k. apply Rmult_le_pos; [lra|]. left. apply Rinv_0_lt_compat. lra. }
  assert (Hk : (1 - c) * k = tau) by (unfold k; field; lra).
  set (U := fun n s => V n s - k).
  assert (HU : forall n s, (n < N)%nat -> (s < S)%nat -> U n s <= B U n s).
  { intros n s Hn Hs.
    assert (Hc : Rabs (B V n s - B U n s) <= c * k).
    { apply Bcontr; auto. intros n' s' _ _. unfold U.
      replace (V n' s' - (V n' s' - k)) with k by lra. rewrite Rabs_right; lra. }
    apply Rabs_le_inv' in Hc. specialize (Hsub n s Hn Hs). change (V n s - k <= B U n s).
    assert (Hk' : c * k = k - tau) by (rewrite <- Hk; ring). lra. }
  intros n s Hn Hs. pose proof (op_subsolution_lower U Vs Hfix HU n s Hn Hs) as H.
  unfold U in H. lra.
Qed.

End Op2.

(* ================================================================== *)
(* B. the cross-product operator of a controller on a POMDP             *)
(* ================================================================== *)
Lemma asum_diff_bound n (w x y : nat -> R) d kap :
  0 <= d -> sumf n (fun i => Rabs (w i)) <= kap ->
  (forall i, (i < n)%nat -> w i = 0 \/ Rabs (x i - y i) <= d) ->
  Rabs (sumf n (fun i => w i * x i) - sumf n (fun i => w i * y i)) <= kap * d.
Proof.
  intros Hd Hk H. rewrite <- sumf_minus.
  eapply Rle_trans; [apply sumf_abs|].
  apply Rle_trans with (sumf n (fun i => Rabs (w i)) * d).
  - rewrite <- sumf_scal_r. apply sumf_le. intros i Hi. cbv beta.
    replace (w i * x i - w i * y i) with (w i * (x i - y i)) by lra. rewrite Rabs_mult.
    destruct (H i Hi) as [Hz|Hb].
    + rewrite Hz, Rabs_R0. lra.
    + apply Rmult_le_compat_l; [apply Rabs_pos|auto].
  - apply Rmult_le_compat_r; auto.
Qed.

Lemma sum_abs_nonneg n (w : nat -> R) k :
  (forall i, (i < n)%nat -> 0 <= w i) -> sumf n w <= k -> sumf n (fun i => Rabs (w i)) <= k.
Proof.
  intros H Hs. rewrite (sumf_ext n _ w); auto. intros i Hi. apply Rabs_right, Rle_ge, H, Hi.
Qed.

Lemma untab2_tab2 {T} {NT : Num T} N S (g : nat -> nat -> T) n s :
  (n < N)%nat -> (s < S)%nat -> untab2 (tab2 N S g) n s = g n s.
Proof.
  intros Hn Hs. unfold untab2, tab2.
  rewrite (nth_indep _ [] ((fun i => tab S (g i)) 0%nat)) by (rewrite map_length, seq_length; auto).
  rewrite (map_nth (fun i => tab S (g i))), seq_nth by auto. simpl. apply untab_tab; auto.
Qed.

(* well-formed POMDP: discount >= 0, sub-stochastic non-negative T and O rows *)
Record wfp (p : pomdp R) : Prop := {
  wp_g0 : 0 <= pgamma p;
  wp_Tnn : forall s a t, (s < pS p)%nat -> (a < pA p)%nat -> (t < pS p)%nat -> 0 <= pT p s a t;
  wp_Tsum : forall s a, (s < pS p)%nat -> (a < pA p)%nat -> sumf (pS p) (pT p s a) <= 1;
  wp_Onn : forall a t o, (a < pA p)%nat -> (t < pS p)%nat -> (o < pO p)%nat -> 0 <= pOb p a t o;
  wp_Osum : forall a t, (a < pA p)%nat -> (t < pS p)%nat -> sumf (pO p) (pOb p a t) <= 1
}.

(* l1-bounded strategy rows (what floating-point controllers satisfy with kpi, kom = 1 + tiny) *)
Record bfsc (p : pomdp R) (f : fsc R) (kpi kom : R) : Prop := {
  bf_kpi0 : 0 <= kpi;
  bf_kom0 : 0 <= kom;
  bf_pi : forall n, (n < fN f)%nat -> sumf (pA p) (fun a => Rabs (fpi f n a)) <= kpi;
  bf_om : forall n a o, (n < fN f)%nat -> (a < pA p)%nat -> (o < pO p)%nat ->
          sumf (fN f) (fun m => Rabs (fom f n a o m)) <= kom
}.

(* a proper stochastic controller *)
Record wff (p : pomdp R) (f : fsc R) : Prop := {
  wf_pinn : forall n a, (n < fN f)%nat -> (a < pA p)%nat -> 0 <= fpi f n a;
  wf_pisum : forall n, (n < fN f)%nat -> sumf (pA p) (fpi f n) = 1;
  wf_omnn : forall n a o m, (n < fN f)%nat -> (a < pA p)%nat -> (o < pO p)%nat -> (m < fN f)%nat ->
            0 <= fom f n a o m;
  wf_omsum : forall n a o, (n < fN f)%nat -> (a < pA p)%nat -> (o < pO p)%nat ->
             sumf (fN f) (fom f n a o) = 1;
  wf_ininn : forall n, (n < fN f)%nat -> 0 <= finit f n;
  wf_inisum : sumf (fN f) (finit f) = 1
}.

Lemma wff_bfsc (p : pomdp R) (f : fsc R) : wff p f -> bfsc p f 1 1.
Proof.
  intros W. constructor; try lra.
  - intros n Hn. apply sum_abs_nonneg; [intros; apply (wf_pinn _ _ W); auto|].
    rewrite (wf_pisum _ _ W); auto; lra.
  - intros n a o Hn Ha Ho. apply sum_abs_nonneg; [intros; apply (wf_omnn _ _ W); auto|].
    rewrite (wf_omsum _ _ W); auto; lra.
Qed.

Section Chain.
Variables (p : pomdp R) (f : fsc R).

Lemma run_step_contr msk kpi kom V W d n s :
  wfp p -> bfsc p f kpi kom -> 0 <= d -> (n < fN f)%nat -> (s < pS p)%nat ->
  (forall t, (t < pS p)%nat ->
     (forall a, (a < pA p)%nat -> pT p s a t = 0) \/
     (forall m, (m < fN f)%nat -> Rabs (V m t - W m t) <= d)) ->
  Rabs (run_step p f msk V n s - run_step p f msk W n s) <= pgamma p * kpi * kom * d.
Proof.
  intros Wp Bf Hd Hn Hs H.
  pose proof (wp_g0 _ Wp) as G0. pose proof (bf_kpi0 _ _ _ _ Bf) as K1. pose proof (bf_kom0 _ _ _ _ Bf) as K2.
  assert (Hkd : 0 <= kom * d) by (apply Rmult_le_pos; auto).
  assert (Hgkd : 0 <= pgamma p * (kom * d)) by (apply Rmult_le_pos; auto).
  unfold run_step. destruct (msk s).
  { numR. replace (0 - 0) with 0 by lra. rewrite Rabs_R0.
    apply Rmult_le_pos; auto. apply Rmult_le_pos; auto. apply Rmult_le_pos; auto. }
  numR.
  set (ZV := fun (U : nat -> nat -> R) a => sumf (pS p) (fun t => pT p s a t *
        sumf (pO p) (fun o => pOb p a t o * sumf (fN f) (fun m => fom f n a o m * U m t)))).
  change (Rabs (sumf (pA p) (fun a => fpi f n a * (pR p s a + pgamma p * ZV V a))
              - sumf (pA p) (fun a => fpi f n a * (pR p s a + pgamma p * ZV W a)))
          <= pgamma p * kpi * kom * d).
  eapply Rle_trans.
  - apply (asum_diff_bound (pA p) (fpi f n) (fun a => pR p s a + pgamma p * ZV V a)
             (fun a => pR p s a + pgamma p * ZV W a) (pgamma p * (kom * d)) kpi); auto.
    + apply (bf_pi _ _ _ _ Bf); auto.
    + intros a Ha. right.
      replace (pR p s a + pgamma p * ZV V a - (pR p s a + pgamma p * ZV W a))
        with (pgamma p * (ZV V a - ZV W a)) by lra.
      rewrite Rabs_mult, (Rabs_right (pgamma p)) by (apply Rle_ge; auto).
      apply Rmult_le_compat_l; auto.
      unfold ZV. replace (kom * d) with (1 * (kom * d)) by lra.
      apply asum_diff_bound; auto.
      { apply sum_abs_nonneg; [intros; apply (wp_Tnn _ Wp); auto|apply (wp_Tsum _ Wp); auto]. }
      intros t Ht. destruct (H t Ht) as [Hz|Hb]; [left; apply Hz; auto|right].
      replace (kom * d) with (1 * (kom * d)) by lra.
      apply asum_diff_bound; auto.
      { apply sum_abs_nonneg; [intros; apply (wp_Onn _ Wp); auto|apply (wp_Osum _ Wp); auto]. }
      intros o Ho. right.
      apply asum_diff_bound; auto.
      { apply (bf_om _ _ _ _ Bf); auto. }
  - lra.
Qed.

Lemma run_step_Bcontr msk kpi kom :
  wfp p -> bfsc p f kpi kom ->
  forall V W d, 0 <= d ->
  (forall n s, (n < fN f)%nat -> (s < pS p)%nat -> Rabs (V n s - W n s) <= d) ->
  forall n s, (n < fN f)%nat -> (s < pS p)%nat ->
    Rabs (run_step p f msk V n s - run_step p f msk W n s) <= (pgamma p * kpi * kom) * d.
Proof.
  intros Wp Bf V W d Hd H n s Hn Hs. apply run_step_contr; auto.
Qed.

Lemma run_step_ext msk V W n s :
  (forall m t, (m < fN f)%nat -> (t < pS p)%nat -> V m t = W m t) ->
  run_step p f msk V n s = run_step p f msk W n s.
Proof.
  intros H. unfold run_step. destruct (msk s); [reflexivity|].
  apply sumf_ext. intros a Ha. f_equal. f_equal. f_equal.
  apply sumf_ext. intros t Ht. f_equal.
  apply sumf_ext. intros o Ho. f_equal.
  apply sumf_ext. intros m Hm. f_equal. auto.
Qed.

Lemma run_step_mono msk V W n s :
  wfp p -> wff p f -> (n < fN f)%nat -> (s < pS p)%nat ->
  (forall m t, (m < fN f)%nat -> (t < pS p)%nat -> V m t <= W m t) ->
  run_step p f msk V n s <= run_step p f msk W n s.
Proof.
  intros Wp Wf Hn Hs H. pose proof (wp_g0 _ Wp) as G0.
  unfold run_step. destruct (msk s); [numR; lra|]. numR.
  apply wsum_mono; [intros; apply (wf_pinn _ _ Wf); auto|].
  intros a Ha. apply Rplus_le_compat_l, Rmult_le_compat_l; auto.
  apply wsum_mono; [intros; apply (wp_Tnn _ Wp); auto|].
  intros t Ht. apply wsum_mono; [intros; apply (wp_Onn _ Wp); auto|].
  intros o Ho. apply wsum_mono; [intros; apply (wf_omnn _ _ Wf); auto|].
  intros m Hm. auto.
Qed.

(* the code's algebraic form (Tmu, Cmu) is the run-semantics step *)
Lemma sum4_perm A S' O' N' (F : nat -> nat -> nat -> nat -> R) :
  sumf A (fun a => sumf S' (fun t => sumf O' (fun o => sumf N' (fun m => F a t o m)))) =
  sumf N' (fun m => sumf S' (fun t => sumf A (fun a => sumf O' (fun o => F a t o m)))).
Proof.
  transitivity (sumf A (fun a => sumf S' (fun t => sumf N' (fun m => sumf O' (fun o => F a t o m))))).
  { apply sumf_ext; intros a _. apply sumf_ext; intros t _. apply sumf_swap. }
  transitivity (sumf A (fun a => sumf N' (fun m => sumf S' (fun t => sumf O' (fun o => F a t o m))))).
  { apply sumf_ext; intros a _. apply (sumf_swap S' N' (fun t m => sumf O' (fun o => F a t o m))). }
  transitivity (sumf N' (fun m => sumf A (fun a => sumf S' (fun t => sumf O' (fun o => F a t o m))))).
  { apply (sumf_swap A N' (fun a m => sumf S' (fun t => sumf O' (fun o => F a t o m)))). }
  apply sumf_ext; intros m _.
  apply (sumf_swap A S' (fun a t => sumf O' (fun o => F a t o m))).
Qed.

Lemma run_step_chain msk V n s : run_step p f msk V n s = chain_backup p f msk V n s.
Proof.
  unfold run_step, chain_backup. destruct (msk s); [reflexivity|]. unfold Cmu, Tmu. numR.
  set (F := fun a t o m => fpi f n a * pT p s a t * pOb p a t o * fom f n a o m * V m t).
  transitivity (sumf (pA p) (fun a => fpi f n a * pR p s a) + pgamma p *
     sumf (pA p) (fun a => sumf (pS p) (fun t => sumf (pO p) (fun o => sumf (fN f) (fun m => F a t o m))))).
  - rewrite <- sumf_scal, <- sumf_plus. apply sumf_ext. intros a _.
    rewrite Rmult_plus_distr_l. f_equal.
    rewrite <- Rmult_assoc, (Rmult_comm (fpi f n a)), Rmult_assoc. f_equal.
    rewrite <- sumf_scal. apply sumf_ext. intros t _.
    rewrite <- Rmult_assoc, <- sumf_scal. apply sumf_ext. intros o _.
    rewrite <- Rmult_assoc, <- sumf_scal. apply sumf_ext. intros m _. unfold F. ring.
  - f_equal. f_equal. rewrite sum4_perm.
    apply sumf_ext. intros m _. apply sumf_ext. intros t _.
    rewrite <- sumf_scal_r. apply sumf_ext. intros a _.
    rewrite <- sumf_scal_r. apply sumf_ext. intros o _. reflexivity.
Qed.

Definition syst (msk : nat -> bool) (tol : R) (V : nat -> nat -> R) : Prop :=
  forall n s, (n < fN f)%nat -> (s < pS p)%nat -> Rabs (V n s - chain_backup p f msk V n s) <= tol.

Lemma fsc_eval_system_sound msk tol V : fsc_eval_system p f msk tol V = true <-> syst msk tol V.
Proof.
  unfold fsc_eval_system, syst. rewrite forallbn_spec. split; intros H n.
  - intros s Hn Hs. specialize (H n Hn). rewrite forallbn_spec in H. apply ncloseb_R, H, Hs.
  - intros Hn. rewrite forallbn_spec. intros s Hs. apply ncloseb_R, H; auto.
Qed.

Lemma syst0_fix msk V : syst msk 0 V <-> opfix (fN f) (pS p) (run_step p f msk) V.
Proof.
  unfold syst, opfix. split; intros H n s Hn Hs; specialize (H n s Hn Hs).
  - rewrite run_step_chain. pose proof (Rabs_pos (V n s - chain_backup p f msk V n s)).
    destruct (Req_dec (V n s - chain_backup p f msk V n s) 0) as [|Hne]; [lra|].
    apply Rabs_no_R0 in Hne. lra.
  - rewrite run_step_chain in H. rewrite <- H. replace (V n s - V n s) with 0 by lra.
    rewrite Rabs_R0. lra.
Qed.

Definition zero2 : nat -> nat -> R := fun _ _ => 0.

Lemma fsc_return_opiter k n s :
  (n < fN f)%nat -> (s < pS p)%nat ->
  fsc_return p f k n s = opiter (run_step p f (pabs p)) k zero2 n s.
Proof.
  revert n s. induction k as [|k IH]; intros n s Hn Hs.
  - unfold fsc_return. cbn [ret_tab opiter]. rewrite untab2_tab2; auto.
  - unfold fsc_return. cbn [ret_tab opiter]. rewrite untab2_tab2; auto.
    apply run_step_ext. intros m t Hm Ht. apply (IH m t Hm Ht).
Qed.

Lemma fsc_return_S k n s :
  (n < fN f)%nat -> (s < pS p)%nat ->
  fsc_return p f (Datatypes.S k) n s = run_step p f (pabs p) (fsc_return p f k) n s.
Proof.
  intros Hn Hs. unfold fsc_return at 1. cbn [ret_tab]. rewrite untab2_tab2; auto.
Qed.

Lemma fsc_return_abs k n s :
  (n < fN f)%nat -> (s < pS p)%nat -> pabs p s = true -> fsc_return p f k n s = 0.
Proof.
  intros Hn Hs Ha. destruct k.
  - unfold fsc_return. cbn [ret_tab]. rewrite untab2_tab2; auto.
  - rewrite fsc_return_S; auto. unfold run_step. now rewrite Ha.
Qed.

(* ---- evaluation = return ---- *)
Theorem fsc_eval_is_return kpi kom V delta M k :
  wfp p -> bfsc p f kpi kom -> pgamma p * kpi * kom < 1 -> 0 <= delta -> 0 <= M ->
  syst (pabs p) delta V ->
  (forall n s, (n < fN f)%nat -> (s < pS p)%nat -> Rabs (V n s) <= M) ->
  forall n s, (n < fN f)%nat -> (s < pS p)%nat ->
    Rabs (V n s - fsc_return p f k n s)
      <= delta / (1 - pgamma p * kpi * kom) + (pgamma p * kpi * kom) ^ k * M.
Proof.
  intros Wp Bf C1 Hd HM Hs HV n s Hn Hss. rewrite fsc_return_opiter; auto.
  assert (C0 : 0 <= pgamma p * kpi * kom).
  { apply Rmult_le_pos; [apply Rmult_le_pos|]; [apply (wp_g0 _ Wp)|apply (bf_kpi0 _ _ _ _ Bf)|apply (bf_kom0 _ _ _ _ Bf)]. }
  apply (op_iter_bound (fN f) (pS p) (run_step p f (pabs p)) _ C0 C1
           (run_step_Bcontr (pabs p) kpi kom Wp Bf)); auto.
  - intros n' s' Hn' Hs'. rewrite run_step_chain. apply Hs; auto.
  - intros n' s' Hn' Hs'. unfold zero2. rewrite Rminus_0_r. apply HV; auto.
Qed.

Theorem fsc_eval_unique msk kpi kom V1 V2 :
  wfp p -> bfsc p f kpi kom -> pgamma p * kpi * kom < 1 ->
  syst msk 0 V1 -> syst msk 0 V2 ->
  forall n s, (n < fN f)%nat -> (s < pS p)%nat -> V1 n s = V2 n s.
Proof.
  intros Wp Bf C1 H1 H2.
  assert (C0 : 0 <= pgamma p * kpi * kom).
  { apply Rmult_le_pos; [apply Rmult_le_pos|]; [apply (wp_g0 _ Wp)|apply (bf_kpi0 _ _ _ _ Bf)|apply (bf_kom0 _ _ _ _ Bf)]. }
  eapply op_unique with (B := run_step p f msk) (c := pgamma p * kpi * kom);
    try exact C1; try exact C0; try (apply run_step_Bcontr; assumption); apply syst0_fix; assumption.
Qed.

Theorem fsc_eval_residual msk kpi kom V Vs delta :
  wfp p -> bfsc p f kpi kom -> pgamma p * kpi * kom < 1 -> 0 <= delta ->
  syst msk 0 Vs -> syst msk delta V ->
  forall n s, (n < fN f)%nat -> (s < pS p)%nat ->
    Rabs (V n s - Vs n s) <= delta / (1 - pgamma p * kpi * kom).
Proof.
  intros Wp Bf C1 Hd H1 H2.
  assert (C0 : 0 <= pgamma p * kpi * kom).
  { apply Rmult_le_pos; [apply Rmult_le_pos|]; [apply (wp_g0 _ Wp)|apply (bf_kpi0 _ _ _ _ Bf)|apply (bf_kom0 _ _ _ _ Bf)]. }
  eapply op_residual_bound with (B := run_step p f msk);
    try exact C1; try exact C0; try (apply run_step_Bcontr; assumption); auto.
  - apply syst0_fix; auto.
  - intros n s Hn Hs. rewrite run_step_chain. apply H2; auto.
Qed.

(* the exact (masked) evaluation is the limit of the k-step returns *)
Theorem fsc_eval_limit V :
  wfp p -> wff p f -> pgamma p < 1 -> syst (pabs p) 0 V ->
  forall eps, 0 < eps -> exists K, forall k, (K <= k)%nat ->
  forall n s, (n < fN f)%nat -> (s < pS p)%nat -> Rabs (V n s - fsc_return p f k n s) < eps.
Proof.
  intros Wp Wf G1 Hs eps Heps.
  pose proof (wff_bfsc _ _ Wf) as Bf.
  assert (C0 : 0 <= pgamma p * 1 * 1) by (pose proof (wp_g0 _ Wp); lra).
  assert (C1 : pgamma p * 1 * 1 < 1) by lra.
  destruct (finite_sup2 (fN f) (pS p) V) as (M & HM0 & HMle & _).
  assert (HL : exists K, forall k, (K <= k)%nat -> forall n s, (n < fN f)%nat -> (s < pS p)%nat ->
             Rabs (V n s - opiter (run_step p f (pabs p)) k zero2 n s) < eps).
  { eapply op_iter_limit with (c := pgamma p * 1 * 1) (M := M);
      try exact C1; try exact C0; try (apply run_step_Bcontr; assumption); auto.
    - apply syst0_fix; auto.
    - intros n s Hn Hss. unfold zero2. rewrite Rminus_0_r. apply HMle; auto. }
  destruct HL as (K & HK).
  exists K. intros k Hk n s Hn Hss. rewrite fsc_return_opiter; auto.
Qed.

End Chain.

(* ================================================================== *)
(* C. the code's unmasked system vs the run semantics                   *)
(* ================================================================== *)
Definition benign (p : pomdp R) : Prop :=
  forall s, (s < pS p)%nat -> pabs p s = true -> forall a, (a < pA p)%nat ->
    pR p s a = 0 /\ forall t, (t < pS p)%nat -> t <> s -> pT p s a t = 0.

Lemma run_step_zero (p : pomdp R) (f : fsc R) msk n s :
  (forall a, (a < pA p)%nat -> pR p s a = 0) -> run_step p f msk zero2 n s = 0.
Proof.
  intros HR. unfold run_step. destruct (msk s); [reflexivity|]. numR.
  apply sumf_0. intros a Ha. rewrite (HR a Ha).
  rewrite (sumf_0 (pS p)); [lra|]. intros t Ht.
  rewrite (sumf_0 (pO p)); [lra|]. intros o Ho.
  rewrite (sumf_0 (fN f)); [lra|]. intros m Hm. unfold zero2. lra.
Qed.

Lemma benign_code_zero (p : pomdp R) (f : fsc R) V :
  wfp p -> wff p f -> pgamma p < 1 -> benign p -> syst p f nomask 0 V ->
  forall n s, (n < fN f)%nat -> (s < pS p)%nat -> pabs p s = true -> V n s = 0.
Proof.
  intros Wp Wf G1 Hb Hsys n s Hn Hs Ha.
  pose proof (wp_g0 _ Wp) as G0.
  destruct (finite_sup1 (fN f) (fun m => V m s)) as (D & HD0 & HDle & HDat).
  assert (HDz : D = 0).
  { destruct HDat as [|(i & Hi & He)]; [auto|].
    apply syst0_fix in Hsys. pose proof (Hsys i s Hi Hs) as Hfix.
    assert (Hc : Rabs (run_step p f nomask V i s - run_step p f nomask zero2 i s)
                 <= pgamma p * 1 * 1 * D).
    { apply run_step_contr; auto using wff_bfsc.
      intros t Ht. destruct (Nat.eq_dec t s) as [->|Hne].
      - right. intros m Hm. unfold zero2. rewrite Rminus_0_r. apply HDle; auto.
      - left. intros a Ha'. apply (Hb s Hs Ha a Ha'); auto. }
    rewrite run_step_zero in Hc by (intros a Ha'; apply (Hb s Hs Ha a Ha')).
    rewrite Rminus_0_r, <- Hfix, He in Hc.
    assert (0 <= (1 - pgamma p) * D) by (apply Rmult_le_pos; lra). nra. }
  specialize (HDle n Hn). cbv beta in HDle. rewrite HDz in HDle.
  pose proof (Rabs_pos (V n s)).
  destruct (Req_dec (V n s) 0) as [|Hne]; [auto|]. apply Rabs_no_R0 in Hne. lra.
Qed.

Lemma benign_code_is_run (p : pomdp R) (f : fsc R) V :
  wfp p -> wff p f -> pgamma p < 1 -> benign p -> syst p f nomask 0 V -> syst p f (pabs p) 0 V.
Proof.
  intros Wp Wf G1 Hb Hsys n s Hn Hs. destruct (pabs p s) eqn:Ha.
  - unfold chain_backup. rewrite Ha. numR.
    rewrite (benign_code_zero p f V Wp Wf G1 Hb Hsys n s Hn Hs Ha).
    replace (0 - 0) with 0 by lra. rewrite Rabs_R0. lra.
  - specialize (Hsys n s Hn Hs). unfold chain_backup in *. rewrite Ha. exact Hsys.
Qed.

(* the full-strength clause "what the code solves is the return of running the controller" *)
Definition fsc_eval_code_vs_run_stmt : Prop :=
  forall (p : pomdp R) (f : fsc R) (V : nat -> nat -> R),
  wfp p -> wff p f -> pgamma p < 1 -> syst p f nomask 0 V ->
  forall eps, 0 < eps -> exists K, forall k, (K <= k)%nat ->
  forall n s, (n < fN f)%nat -> (s < pS p)%nat -> Rabs (V n s - fsc_return p f k n s) < eps.

(* ... holds when terminal states are zero-reward and never left *)
Theorem fsc_eval_code_vs_run_benign (p : pomdp R) (f : fsc R) (V : nat -> nat -> R) :
  wfp p -> wff p f -> pgamma p < 1 -> benign p -> syst p f nomask 0 V ->
  forall eps, 0 < eps -> exists K, forall k, (K <= k)%nat ->
  forall n s, (n < fN f)%nat -> (s < pS p)%nat -> Rabs (V n s - fsc_return p f k n s) < eps.
Proof.
  intros Wp Wf G1 Hb Hsys. apply fsc_eval_limit; auto. apply benign_code_is_run; auto.
Qed.

(* ... and fails in general: two states, state 1 terminal but paying 1 on its self-loop,
   one action, one observation, one node, gamma = 1/2: the code's system gives 2 at
   state 0, every run from state 0 returns exactly 1 *)
Definition wP : pomdp R :=
  mkPOMDP 2 1 1 (fun _ _ t => if Nat.eqb t 1 then 1 else 0) (fun _ _ _ => 1) (fun _ _ => 1)
          (fun s => Nat.eqb s 1) (fun s => if Nat.eqb s 0 then 1 else 0) (1 / 2).
Definition wF : fsc R := mkFSC 1 (fun _ _ => 1) (fun _ _ _ _ => 1) (fun _ => 1).
Definition wV : nat -> nat -> R := fun _ _ => 2.

Lemma wP_wf : wfp wP.
Proof.
  constructor; simpl; intros; numR; try lra.
  - destruct (Nat.eqb t 1); lra.
Qed.
Lemma wF_wf : wff wP wF.
Proof. constructor; simpl; intros; numR; lra. Qed.
Lemma wV_code : syst wP wF nomask 0 wV.
Proof.
  intros n s Hn Hs. unfold chain_backup, nomask, Cmu, Tmu, wV. simpl. numR.
  match goal with |- Rabs ?x <= 0 => replace x with 0 by lra end. rewrite Rabs_R0. lra.
Qed.
Lemma wV_run k : (1 <= k)%nat -> fsc_return wP wF k 0 0 = 1.
Proof.
  intros Hk. destruct k as [|k]; [lia|].
  rewrite fsc_return_S by (simpl; lia).
  pose proof (fsc_return_abs wP wF k 0 1) as E. simpl in E.
  specialize (E ltac:(lia) ltac:(lia) eq_refl).
  unfold run_step. set (W := fsc_return wP wF k) in *. simpl. numR. rewrite E. ring.
Qed.

Theorem fsc_eval_code_vs_run_refuted :
  exists (p : pomdp R) (f : fsc R) (V : nat -> nat -> R),
    wfp p /\ wff p f /\ pgamma p < 1 /\ syst p f nomask 0 V /\
    exists n s, (n < fN f)%nat /\ (s < pS p)%nat /\
      forall k, (1 <= k)%nat -> Rabs (V n s - fsc_return p f k n s) = 1.
Proof.
  exists wP, wF, wV. split; [exact wP_wf|]. split; [exact wF_wf|].
  split; [simpl; lra|]. split; [exact wV_code|].
  exists 0%nat, 0%nat. split; [simpl; lia|]. split; [simpl; lia|].
  intros k Hk. rewrite (wV_run k Hk). unfold wV. replace (2 - 1) with 1 by lra. apply Rabs_R1.
Qed.

Corollary fsc_eval_code_vs_run_false : ~ fsc_eval_code_vs_run_stmt.
Proof.
  intros H. destruct (H wP wF wV wP_wf wF_wf ltac:(simpl; lra) wV_code (1 / 2) ltac:(lra)) as (K & HK).
  specialize (HK (Datatypes.S K) ltac:(lia) 0%nat 0%nat ltac:(simpl; lia) ltac:(simpl; lia)).
  rewrite wV_run in HK by lia. unfold wV in HK. replace (2 - 1) with 1 in HK by lra.
  rewrite Rabs_R1 in HK. lra.
Qed.

(* ================================================================== *)
(* D. the controller object vs the latent-node semantics                *)
(* ================================================================== *)
Definition hist_inr (A O : nat) (h : list (nat * nat)) : Prop :=
  Forall (fun ao => (fst ao < A)%nat /\ (snd ao < O)%nat) h.

Lemma hist_prob_from_ext (f : fsc R) h : forall ag ag',
  (forall n, (n < fN f)%nat -> ag n = ag' n) -> hist_prob_from f ag h = hist_prob_from f ag' h.
Proof.
  induction h as [|[a o] h IH]; intros ag ag' H; [reflexivity|]. cbn [hist_prob_from]. f_equal.
  - unfold ctrl_action_dist. apply sumf_ext. intros n Hn. now rewrite H.
  - apply IH. intros m Hm. unfold ctrl_next_agentstate. apply sumf_ext. intros n Hn. now rewrite H.
Qed.

Section HistShared.
Variables (A O : nat) (f : fsc R) (q : nat -> R).
Hypothesis om_sum : forall n a o, (n < fN f)%nat -> (a < A)%nat -> (o < O)%nat ->
  sumf (fN f) (fom f n a o) = 1.
Hypothesis shared : forall n a, (n < fN f)%nat -> (a < A)%nat -> fpi f n a = q a.

Fixpoint hprod (h : list (nat * nat)) : R :=
  match h with [] => 1 | (a, _) :: h' => q a * hprod h' end.

Lemma node_shared h : hist_inr A O h -> forall n, (n < fN f)%nat -> node_hist_prob f h n = hprod h.
Proof.
  induction h as [|[a o] h IH]; intros Hh n Hn; [reflexivity|].
  inversion Hh as [|x l [Ha Ho] Hl]; subst. simpl in Ha, Ho.
  cbn [node_hist_prob hprod]. numR. rewrite shared by auto.
  rewrite (sumf_ext (fN f) _ (fun m => fom f n a o m * hprod h)).
  - rewrite sumf_scal_r, om_sum by auto. ring.
  - intros m Hm. rewrite IH; auto.
Qed.

Lemma impl_shared h : hist_inr A O h -> forall ag, sumf (fN f) ag = 1 ->
  hist_prob_from f ag h = hprod h.
Proof.
  induction h as [|[a o] h IH]; intros Hh ag Hag; [reflexivity|].
  inversion Hh as [|x l [Ha Ho] Hl]; subst. simpl in Ha, Ho.
  cbn [hist_prob_from hprod]. numR. f_equal.
  - unfold ctrl_action_dist. rewrite (sumf_ext (fN f) _ (fun n => ag n * q a)).
    + rewrite sumf_scal_r, Hag. ring.
    + intros n Hn. rewrite shared; auto.
  - apply IH; auto. unfold ctrl_next_agentstate.
    rewrite sumf_swap.
    rewrite (sumf_ext (fN f) _ ag); auto.
    intros n Hn. rewrite sumf_scal, om_sum by auto. ring.
Qed.

Theorem ctrl_hist_prob_shared h :
  sumf (fN f) (finit f) = 1 -> hist_inr A O h -> hist_prob_impl f h = hist_prob_spec f h.
Proof.
  intros Hi Hh. unfold hist_prob_impl, hist_prob_spec. rewrite impl_shared; auto.
  rewrite (sumf_ext (fN f) _ (fun n => finit f n * hprod h)).
  - rewrite sumf_scal_r, Hi. ring.
  - intros n Hn. rewrite node_shared; auto.
Qed.
End HistShared.

Section HistDet.
Variables (A O : nat) (f : fsc R) (nx : nat -> nat -> nat -> nat) (i0 : nat).
Hypothesis i0_in : (i0 < fN f)%nat.
Hypothesis nx_in : forall n a o, (n < fN f)%nat -> (a < A)%nat -> (o < O)%nat -> (nx n a o < fN f)%nat.
Hypothesis om_det : forall n a o m, (n < fN f)%nat -> (a < A)%nat -> (o < O)%nat -> (m < fN f)%nat ->
  fom f n a o m = if Nat.eqb m (nx n a o) then 1 else 0.
Hypothesis init_det : forall n, (n < fN f)%nat -> finit f n = if Nat.eqb n i0 then 1 else 0.

Definition onehot (n : nat) : nat -> R := fun k => if Nat.eqb k n then 1 else 0.

Lemma sumf_onehot N n (g : nat -> R) : (n < N)%nat -> sumf N (fun k => onehot n k * g k) = g n.
Proof.
  intros Hn. rewrite (sumf_single N _ n Hn).
  - unfold onehot. rewrite Nat.eqb_refl. ring.
  - intros i Hi Hne. unfold onehot. apply Nat.eqb_neq in Hne. rewrite Hne. ring.
Qed.

Lemma impl_det h : hist_inr A O h -> forall n, (n < fN f)%nat ->
  hist_prob_from f (onehot n) h = node_hist_prob f h n.
Proof.
  induction h as [|[a o] h IH]; intros Hh n Hn; [reflexivity|].
  inversion Hh as [|x l [Ha Ho] Hl]; subst. simpl in Ha, Ho.
  cbn [hist_prob_from node_hist_prob]. numR. f_equal.
  - unfold ctrl_action_dist. apply (sumf_onehot (fN f) n (fun k => fpi f k a)); auto.
  - rewrite (hist_prob_from_ext f h _ (onehot (nx n a o))).
    + rewrite IH by auto.
      rewrite (sumf_ext (fN f) _ (fun m => onehot (nx n a o) m * node_hist_prob f h m)).
      * now rewrite sumf_onehot by auto.
      * intros m Hm. rewrite om_det by auto. reflexivity.
    + intros m Hm. unfold ctrl_next_agentstate.
      transitivity (fom f n a o m); [apply (sumf_onehot (fN f) n (fun k => fom f k a o m)); auto|].
      rewrite om_det by auto. reflexivity.
Qed.

Theorem ctrl_hist_prob_det h :
  hist_inr A O h -> hist_prob_impl f h = hist_prob_spec f h.
Proof.
  intros Hh. unfold hist_prob_impl, hist_prob_spec.
  rewrite (hist_prob_from_ext f h _ (onehot i0)) by (intros n Hn; apply init_det; auto).
  rewrite impl_det by auto.
  rewrite (sumf_ext (fN f) _ (fun n => onehot i0 n * node_hist_prob f h n)).
  - now rewrite sumf_onehot.
  - intros n Hn. rewrite init_det by auto. reflexivity.
Qed.
End HistDet.

(* the first action is always right; with a one-hot initial node so is the second *)
Theorem ctrl_hist_prob_len1 A O (f : fsc R) a o :
  (forall n a o, (n < fN f)%nat -> (a < A)%nat -> (o < O)%nat -> sumf (fN f) (fom f n a o) = 1) ->
  (a < A)%nat -> (o < O)%nat ->
  hist_prob_impl f [(a, o)] = hist_prob_spec f [(a, o)].
Proof.
  intros Hom Ha Ho. unfold hist_prob_impl, hist_prob_spec. cbn [hist_prob_from node_hist_prob]. numR.
  unfold ctrl_action_dist. numR. rewrite Rmult_1_r. apply sumf_ext. intros n Hn.
  rewrite (sumf_ext (fN f) _ (fom f n a o)) by (intros; ring). rewrite Hom by auto. ring.
Qed.

(* full statement and its refutation *)
Definition ctrl_hist_prob_stmt : Prop :=
  forall (p : pomdp R) (f : fsc R) h, wff p f -> hist_inr (pA p) (pO p) h ->
  hist_prob_impl f h = hist_prob_spec f h.

(* two nodes, node i always plays action i and never moves, uniform initial node:
   the history "action 0 then action 1" is impossible, the object gives it 1/4 *)
Definition hP : pomdp R :=
  mkPOMDP 1 2 1 (fun _ _ _ => 1) (fun _ _ _ => 1) (fun _ _ => 0) (fun _ => false) (fun _ => 1) (1 / 2).
Definition hF : fsc R :=
  mkFSC 2 (fun n a => if Nat.eqb n a then 1 else 0) (fun n _ _ m => if Nat.eqb n m then 1 else 0)
        (fun _ => 1 / 2).
Lemma hF_wf : wff hP hF.
Proof.
  constructor; simpl; intros; numR; try lra.
  - destruct (Nat.eqb n a); lra.
  - destruct n as [|[|n]]; simpl; try lra; lia.
  - destruct (Nat.eqb n m); lra.
  - destruct n as [|[|n]]; simpl; try lra; lia.
Qed.

(* one-hot initial node (as bounded policy iteration returns), stochastic node transition:
   node 0 plays action 0 and moves to a fair coin over the nodes, node 1 plays action 1 and stays *)
Definition hF2 : fsc R :=
  mkFSC 2 (fun n a => if Nat.eqb n a then 1 else 0)
        (fun n _ _ m => if Nat.eqb n 0 then 1 / 2 else if Nat.eqb m 1 then 1 else 0)
        (fun n => if Nat.eqb n 0 then 1 else 0).
Lemma hF2_wf : wff hP hF2.
Proof.
  constructor; simpl; intros; numR; try lra.
  - destruct (Nat.eqb n a); lra.
  - destruct n as [|[|n]]; simpl; try lra; lia.
  - destruct (Nat.eqb n 0); [lra|]. destruct (Nat.eqb m 1); lra.
  - destruct n as [|[|n]]; simpl; try lra; lia.
  - destruct (Nat.eqb n 0); lra.
Qed.

Theorem ctrl_hist_prob_refuted :
  (exists (p : pomdp R) (f : fsc R) h, wff p f /\ hist_inr (pA p) (pO p) h /\
     hist_prob_impl f h = 1 / 4 /\ hist_prob_spec f h = 0) /\
  (exists (p : pomdp R) (f : fsc R) h, wff p f /\ hist_inr (pA p) (pO p) h /\
     (exists i0, forall n, finit f n = if Nat.eqb n i0 then 1 else 0) /\
     hist_prob_impl f h = 1 / 8 /\ hist_prob_spec f h = 1 / 4).
Proof.
  split.
  - exists hP, hF, [(0, 0); (1, 0)]%nat. split; [exact hF_wf|]. split.
    { repeat constructor. }
    split.
    + unfold hist_prob_impl. simpl. unfold ctrl_action_dist, ctrl_next_agentstate. simpl. numR. lra.
    + unfold hist_prob_spec. simpl. numR. lra.
  - exists hP, hF2, [(0, 0); (0, 0); (0, 0)]%nat. split; [exact hF2_wf|]. split.
    { repeat constructor. }
    split; [exists 0%nat; reflexivity|]. split.
    + unfold hist_prob_impl. simpl. unfold ctrl_action_dist, ctrl_next_agentstate. simpl. numR. lra.
    + unfold hist_prob_spec. simpl. numR. lra.
Qed.

Corollary ctrl_hist_prob_false : ~ ctrl_hist_prob_stmt.
Proof.
  intros H. destruct ctrl_hist_prob_refuted as [(p & f & h & Wf & Hh & Hi & Hs) _].
  specialize (H p f h Wf Hh). lra.
Qed.

(* ================================================================== *)
(* E. the learners: improvement steps, escape nodes, validity, value    *)
(* ================================================================== *)
(* run_step only reads node n's own rows *)
Lemma run_step_rows (p : pomdp R) (f f' : fsc R) msk W n s :
  fN f' = fN f ->
  (forall a, (a < pA p)%nat -> fpi f' n a = fpi f n a) ->
  (forall a o m, (a < pA p)%nat -> (o < pO p)%nat -> (m < fN f)%nat -> fom f' n a o m = fom f n a o m) ->
  run_step p f' msk W n s = run_step p f msk W n s.
Proof.
  intros HN Hpi Hom. unfold run_step. destruct (msk s); [reflexivity|].
  apply sumf_ext. intros a Ha. rewrite Hpi by auto. f_equal. f_equal. f_equal.
  apply sumf_ext. intros t Ht. f_equal.
  apply sumf_ext. intros o Ho. f_equal. rewrite HN.
  apply sumf_ext. intros m Hm. rewrite Hom by auto. reflexivity.
Qed.

(* policy-improvement lemma on the cross product: replacing node i0 by ANY rows that satisfy
   the LP's improvement constraint with eps >= 0 cannot lower any node's value at any state
   (V, V' = exact evaluations before / after; msk = which states are terminal) *)
Theorem bpi_feasible_improves (p : pomdp R) (f f' : fsc R) msk V V' i0 :
  wfp p -> pgamma p < 1 -> wff p f' -> fN f' = fN f ->
  (forall n, (n < fN f)%nat -> n <> i0 ->
     (forall a, (a < pA p)%nat -> fpi f' n a = fpi f n a) /\
     (forall a o m, (a < pA p)%nat -> (o < pO p)%nat -> (m < fN f)%nat -> fom f' n a o m = fom f n a o m)) ->
  syst p f msk 0 V -> syst p f' msk 0 V' ->
  (forall s, (s < pS p)%nat -> V i0 s <= chain_backup p f' msk V i0 s) ->
  forall n s, (n < fN f)%nat -> (s < pS p)%nat -> V n s <= V' n s.
Proof.
  intros Wp G1 Wf' HN Hrows HV HV' Hfeas n s Hn Hs.
  pose proof (wp_g0 _ Wp) as G0.
  assert (C0 : 0 <= pgamma p * 1 * 1) by lra.
  assert (C1 : pgamma p * 1 * 1 < 1) by lra.
  apply syst0_fix in HV. apply syst0_fix in HV'.
  rewrite <- HN in Hn.
  revert n s Hn Hs.
  eapply op_subsolution_lower with (B := run_step p f' msk) (c := pgamma p * 1 * 1);
    try exact C0; try exact C1; try exact HV'.
  - apply run_step_Bcontr; auto using wff_bfsc.
  - intros U W H n s Hn Hs. apply run_step_mono; auto.
  - intros n s Hn Hs. destruct (Nat.eq_dec n i0) as [->|Hne].
    + rewrite run_step_chain. apply Hfeas; auto.
    + rewrite HN in Hn. destruct (Hrows n Hn Hne) as [Hpi Hom].
      rewrite (run_step_rows p f f' msk V n s HN Hpi Hom). rewrite <- (HV n s Hn Hs). lra.
Qed.

(* the same from what is actually recorded: V evaluates f up to residual delta, the accepted
   row satisfies the constraint up to tau; V' is the exact evaluation of the new controller *)
Theorem bpi_feasible_improves_approx (p : pomdp R) (f f' : fsc R) msk V V' i0 delta tau :
  wfp p -> pgamma p < 1 -> wff p f' -> fN f' = fN f ->
  (forall n, (n < fN f)%nat -> n <> i0 ->
     (forall a, (a < pA p)%nat -> fpi f' n a = fpi f n a) /\
     (forall a o m, (a < pA p)%nat -> (o < pO p)%nat -> (m < fN f)%nat -> fom f' n a o m = fom f n a o m)) ->
  0 <= delta -> 0 <= tau ->
  syst p f msk delta V -> syst p f' msk 0 V' ->
  (forall s, (s < pS p)%nat -> V i0 s <= chain_backup p f' msk V i0 s + tau) ->
  forall n s, (n < fN f)%nat -> (s < pS p)%nat ->
    V n s <= V' n s + Rmax delta tau / (1 - pgamma p).
Proof.
  intros Wp G1 Wf' HN Hrows Hd Ht HV HV' Hfeas n s Hn Hs.
  pose proof (wp_g0 _ Wp) as G0.
  assert (C0 : 0 <= pgamma p * 1 * 1) by lra.
  assert (C1 : pgamma p * 1 * 1 < 1) by lra.
  apply syst0_fix in HV'.
  rewrite <- HN in Hn.
  replace (1 - pgamma p) with (1 - pgamma p * 1 * 1) by ring.
  revert n s Hn Hs.
  eapply op_subsolution_slack with (B := run_step p f' msk) (c := pgamma p * 1 * 1);
    try exact C0; try exact C1; try exact HV'.
  - apply run_step_Bcontr; auto using wff_bfsc.
  - intros U W H n s Hn Hs. apply run_step_mono; auto.
  - eapply Rle_trans; [exact Hd|apply Rmax_l].
  - intros n s Hn Hs. destruct (Nat.eq_dec n i0) as [->|Hne].
    + rewrite run_step_chain. specialize (Hfeas s Hs). pose proof (Rmax_r delta tau). lra.
    + rewrite HN in Hn. destruct (Hrows n Hn Hne) as [Hpi Hom].
      rewrite (run_step_rows p f f' msk V n s HN Hpi Hom). rewrite run_step_chain.
      specialize (HV n s Hn Hs). apply Rabs_le_inv' in HV. pose proof (Rmax_l delta tau). lra.
Qed.

(* adding an escape node (no old node moves to it) leaves the old nodes' values unchanged *)
Theorem bpi_escape_preserves (p : pomdp R) (f f' : fsc R) msk V V' :
  wfp p -> pgamma p < 1 -> wff p f -> fN f' = Datatypes.S (fN f) ->
  (forall n, (n < fN f)%nat ->
     (forall a, (a < pA p)%nat -> fpi f' n a = fpi f n a) /\
     (forall a o, (a < pA p)%nat -> (o < pO p)%nat ->
        fom f' n a o (fN f) = 0 /\ forall m, (m < fN f)%nat -> fom f' n a o m = fom f n a o m)) ->
  syst p f msk 0 V -> syst p f' msk 0 V' ->
  forall n s, (n < fN f)%nat -> (s < pS p)%nat -> V' n s = V n s.
Proof.
  intros Wp G1 Wf HN Hrows HV HV'.
  pose proof (wp_g0 _ Wp) as G0.
  apply syst0_fix in HV. apply syst0_fix in HV'.
  assert (C0 : 0 <= pgamma p * 1 * 1) by lra.
  assert (C1 : pgamma p * 1 * 1 < 1) by lra.
  eapply op_unique with (B := run_step p f msk) (c := pgamma p * 1 * 1);
    try exact C0; try exact C1; try exact HV.
  - apply run_step_Bcontr; auto using wff_bfsc.
  - intros n s Hn Hs. rewrite (HV' n s) by (rewrite ?HN; auto; lia).
    destruct (Hrows n Hn) as [Hpi Hom].
    unfold run_step. destruct (msk s); [reflexivity|].
    apply sumf_ext. intros a Ha. rewrite Hpi by auto. f_equal. f_equal. f_equal.
    apply sumf_ext. intros t Ht. f_equal.
    apply sumf_ext. intros o Ho. f_equal. rewrite HN, sumf_S.
    destruct (Hom a o Ha Ho) as [Hz Hm]. rewrite Hz.
    rewrite (sumf_ext (fN f) _ (fun m => fom f n a o m * V' m t)).
    + numR. lra.
    + intros m Hmm. rewrite Hm by auto. reflexivity.
Qed.

(* strategies extracted from an LP point (c_{a,o,.}/c_a) and softmax rows are distributions *)
Lemma normalize_valid n (x : nat -> R) :
  (forall i, (i < n)%nat -> 0 <= x i) -> 0 < sumf n x ->
  (forall i, (i < n)%nat -> 0 <= x i / sumf n x) /\ sumf n (fun i => x i / sumf n x) = 1.
Proof.
  intros Hx Hs. split.
  - intros i Hi. apply Rmult_le_pos; [auto|]. left. now apply Rinv_0_lt_compat.
  - unfold Rdiv. rewrite sumf_scal_r. apply Rinv_r. lra.
Qed.
Definition bpi_valid := normalize_valid.
Lemma ga_valid n (l : nat -> R) :
  (0 < n)%nat ->
  (forall i, (i < n)%nat -> 0 <= exp (l i) / sumf n (fun j => exp (l j))) /\
  sumf n (fun i => exp (l i) / sumf n (fun j => exp (l j))) = 1.
Proof.
  intros Hn. apply (normalize_valid n (fun i => exp (l i))).
  - intros i _. left. apply exp_pos.
  - destruct n; [lia|]. rewrite sumf_S.
    assert (0 <= sumf n (fun j => exp (l j))) by (apply sumf_nonneg; intros; left; apply exp_pos).
    pose proof (exp_pos (l n)). lra.
Qed.

(* ================================================================== *)
(* F. soundness of the boolean checkers (R instance)                    *)
(* ================================================================== *)
Lemma neqb_R_eq x y : @neqb R NumR x y = true <-> x = y.
Proof. unfold neqb; numR. rewrite andb_true_iff, !Rleb_true. split; [lra|intros ->; lra]. Qed.
Lemma nleb_R_le x y : @nleb R NumR x y = true <-> x <= y.
Proof. numR. apply Rleb_true. Qed.

Lemma pomdp_wfb_wf (p : pomdp R) : pomdp_wfb p = true -> wfp p.
Proof.
  unfold pomdp_wfb. rewrite !andb_true_iff. intros [[Hg HT] HO].
  rewrite forallbn_spec in HT, HO. constructor.
  - now apply nleb_R_le.
  - intros s a t Hs Ha Ht. specialize (HT s Hs). rewrite forallbn_spec in HT. specialize (HT a Ha).
    apply andb_true_iff in HT as [HT _]. rewrite forallbn_spec in HT. apply nleb_R_le, HT, Ht.
  - intros s a Hs Ha. specialize (HT s Hs). rewrite forallbn_spec in HT. specialize (HT a Ha).
    apply andb_true_iff in HT as [_ HT]. now apply nleb_R_le.
  - intros a t o Ha Ht Ho. specialize (HO a Ha). rewrite forallbn_spec in HO. specialize (HO t Ht).
    apply andb_true_iff in HO as [HO _]. rewrite forallbn_spec in HO. apply nleb_R_le, HO, Ho.
  - intros a t Ha Ht. specialize (HO a Ha). rewrite forallbn_spec in HO. specialize (HO t Ht).
    apply andb_true_iff in HO as [_ HO]. now apply nleb_R_le.
Qed.

Lemma dist_row_sound k (r : nat -> R) :
  dist_row k r = true -> (forall i, (i < k)%nat -> 0 <= r i) /\ sumf k r = 1.
Proof.
  unfold dist_row. rewrite andb_true_iff, forallbn_spec. intros [H1 H2]. split.
  - intros i Hi. apply nleb_R_le, H1, Hi.
  - now apply neqb_R_eq.
Qed.

Lemma fsc_wfb_wf (p : pomdp R) (f : fsc R) : fsc_wfb p f = true -> wff p f.
Proof.
  unfold fsc_wfb. rewrite andb_true_iff, forallbn_spec. intros [H Hi].
  apply dist_row_sound in Hi as [Hi1 Hi2].
  assert (Hn : forall n, (n < fN f)%nat ->
     ((forall a, (a < pA p)%nat -> 0 <= fpi f n a) /\ sumf (pA p) (fpi f n) = 1) /\
     forall a o, (a < pA p)%nat -> (o < pO p)%nat ->
       (forall m, (m < fN f)%nat -> 0 <= fom f n a o m) /\ sumf (fN f) (fom f n a o) = 1).
  { intros n Hn. specialize (H n Hn). apply andb_true_iff in H as [Hp Ho]. split.
    - now apply dist_row_sound.
    - intros a o Ha Hoo. rewrite forallbn_spec in Ho. specialize (Ho a Ha).
      rewrite forallbn_spec in Ho. now apply dist_row_sound, Ho. }
  constructor; auto.
  - intros n a Hnn Ha. apply (Hn n Hnn); auto.
  - intros n Hnn. apply (Hn n Hnn).
  - intros n a o m Hnn Ha Ho Hm. apply (Hn n Hnn); auto.
  - intros n a o Hnn Ha Ho. apply (Hn n Hnn); auto.
Qed.

Lemma fsc_bounded_sound (p : pomdp R) (f : fsc R) kpi kom : fsc_bounded p f kpi kom = true -> bfsc p f kpi kom.
Proof.
  unfold fsc_bounded. rewrite !andb_true_iff, forallbn_spec. intros [[H1 H2] H].
  constructor; try (now apply nleb_R_le).
  - intros n Hn. specialize (H n Hn). apply andb_true_iff in H as [H _].
    unfold abs_row_le in H. apply nleb_R_le in H.
    erewrite sumf_ext; [exact H|]. intros i _. cbv beta. now rewrite nabs_R.
  - intros n a o Hn Ha Ho. specialize (H n Hn). apply andb_true_iff in H as [_ H].
    rewrite forallbn_spec in H. specialize (H a Ha). rewrite forallbn_spec in H. specialize (H o Ho).
    unfold abs_row_le in H. apply nleb_R_le in H.
    erewrite sumf_ext; [exact H|]. intros i _. cbv beta. now rewrite nabs_R.
Qed.

Lemma abs_benign_sound (p : pomdp R) : abs_benign p = true -> benign p.
Proof.
  unfold abs_benign, benign. rewrite forallbn_spec. intros H s Hs Hab a Ha.
  specialize (H s Hs). rewrite Hab, forallbn_spec in H. specialize (H a Ha).
  apply andb_true_iff in H as [HR HT]. split; [now apply neqb_R_eq|].
  intros t Ht Hne. rewrite forallbn_spec in HT. specialize (HT t Ht).
  apply orb_true_iff in HT as [HT|HT]; [apply Nat.eqb_eq in HT; contradiction|now apply neqb_R_eq].
Qed.

Lemma vbound_sound (p : pomdp R) (f : fsc R) M V :
  vbound p f M V = true -> forall n s, (n < fN f)%nat -> (s < pS p)%nat -> Rabs (V n s) <= M.
Proof.
  unfold vbound. rewrite forallbn_spec. intros H n s Hn Hs. specialize (H n Hn).
  rewrite forallbn_spec in H. specialize (H s Hs). rewrite nabs_R in H. now apply nleb_R_le.
Qed.

(* validity of a returned controller, with the float slack tol *)
Definition row_valid (tol : R) (k : nat) (r : nat -> R) : Prop :=
  (forall i, (i < k)%nat -> - tol <= r i) /\ Rabs (sumf k r - 1) <= tol.
Lemma row_ok_sound (tol : R) k (r : nat -> R) : row_ok tol k r = true -> row_valid tol k r.
Proof.
  unfold row_ok, row_valid. rewrite andb_true_iff, forallbn_spec. intros [H1 H2]. split.
  - intros i Hi. specialize (H1 i Hi). apply nleb_R_le in H1. numR. lra.
  - now apply ncloseb_R.
Qed.
Definition fsc_valid (p : pomdp R) (f : fsc R) (tol : R) : Prop :=
  (forall n, (n < fN f)%nat -> row_valid tol (pA p) (fpi f n) /\
     forall a o, (a < pA p)%nat -> (o < pO p)%nat -> row_valid tol (fN f) (fom f n a o)) /\
  row_valid tol (fN f) (finit f).
Lemma fsc_rows_valid_sound (p : pomdp R) (f : fsc R) tol : fsc_rows_valid p f tol = true -> fsc_valid p f tol.
Proof.
  unfold fsc_rows_valid, fsc_valid. rewrite andb_true_iff, forallbn_spec. intros [H Hi].
  split; [|now apply row_ok_sound]. intros n Hn. specialize (H n Hn). apply andb_true_iff in H as [Hp Ho].
  split; [now apply row_ok_sound|]. intros a o Ha Hoo. rewrite forallbn_spec in Ho. specialize (Ho a Ha).
  rewrite forallbn_spec in Ho. now apply row_ok_sound, Ho.
Qed.

Lemma value_ok_sound (p : pomdp R) (f : fsc R) tol rep V : value_ok p f tol rep V = true -> Rabs (rep - init_value p f V) <= tol.
Proof. unfold value_ok. apply ncloseb_R. Qed.

Lemma bpi_node_feasible_sound (p : pomdp R) (f : fsc R) msk tol V n eps :
  bpi_node_feasible p f msk tol V n eps = true ->
  0 <= eps /\ forall s, (s < pS p)%nat -> msk s = false -> V n s + eps <= chain_backup p f msk V n s + tol.
Proof.
  unfold bpi_node_feasible. rewrite andb_true_iff, forallbn_spec. intros [H1 H2]. split; [now apply nleb_R_le|].
  intros s Hs Hm. specialize (H2 s Hs). rewrite Hm in H2. apply nleb_R_le in H2. exact H2.
Qed.

Lemma mono_ok_sound (tol : R) N S (V W : nat -> nat -> R) :
  mono_ok tol N S V W = true -> forall n s, (n < N)%nat -> (s < S)%nat -> V n s <= W n s + tol.
Proof.
  unfold mono_ok. rewrite forallbn_spec. intros H n s Hn Hs. specialize (H n Hn).
  rewrite forallbn_spec in H. apply nleb_R_le, H, Hs.
Qed.

(* every consecutive pair of recorded tables is monotone node by node *)
Theorem mono_chain_sound (tol : R) S (l : list (list (list R))) :
  mono_chain tol S l = true ->
  forall i V W, nth_error l i = Some V -> nth_error l (Datatypes.S i) = Some W ->
  forall n s, (n < length V)%nat -> (s < S)%nat -> untab2 V n s <= untab2 W n s + tol.
Proof.
  induction l as [|V0 tl IH]; intros H i V W HV HW; [destruct i; discriminate|].
  destruct tl as [|W0 tl']; [destruct i as [|[|i]]; discriminate|].
  cbn [mono_chain] in H. apply andb_true_iff in H as [H1 H2].
  destruct i as [|i].
  - simpl in HV, HW. inversion HV; inversion HW; subst. apply mono_ok_sound; auto.
  - apply (IH H2 i V W); auto.
Qed.
