(* POMDPTransfer.v — C07: what vm_compute evaluates on Q (the mirror functions of model/POMDP.v and
   the comparison check_ba / check_b) is the Q2R-preimage of the R functions the theorems of
   POMDPTheory.v are about, by the parametricity translation. *)
From Coq Require Import QArith Qreals Reals List Bool.
From Param Require Import Param.
From MSDM Require Import base.Num base.NumInst base.Transfer model.MDP model.POMDP.
Import ListNotations.

Parametricity Recursive mk_pomdp.
Parametricity Recursive untab.
Parametricity Recursive wfpb.
Parametricity Recursive beliefb.
Parametricity Recursive estimator_dict.
Parametricity Recursive estimator_vec.
Parametricity Recursive pred_obs_dict.
Parametricity Recursive pred_obs_vec.
Parametricity Recursive belief_next.
Parametricity Recursive belief_reward.
Parametricity Recursive belief_absorbing.
Parametricity Recursive obs_matrix_eq.
Parametricity Recursive check_ba.
Parametricity Recursive check_b.

(* ---- Q data and the R data it denotes ---- *)
Definition mapQ1 := map Q2R.
Definition mapQ2 := map (map Q2R).
Definition mapQ3 := map (map (map Q2R)).
Definition mapQd (d : list (nat * Q)) : list (nat * R) := map (fun e => (fst e, Q2R (snd e))) d.
Definition mapQdd := map mapQd.
Definition mapQbn (l : list (list Q * Q)) : list (list R * R) :=
  map (fun e => (map Q2R (fst e), Q2R (snd e))) l.

Lemma lR1 (l : list Q) : list_R Q R QR l (mapQ1 l).
Proof. apply list_R_map. intros x. reflexivity. Qed.
Lemma lR2 (l : list (list Q)) : list_R _ _ (list_R Q R QR) l (mapQ2 l).
Proof. apply list_R_map. intros x. apply lR1. Qed.
Lemma lR3 (l : list (list (list Q))) : list_R _ _ (list_R _ _ (list_R Q R QR)) l (mapQ3 l).
Proof. apply list_R_map. intros x. apply lR2. Qed.
Lemma lRd (d : list (nat * Q)) : list_R _ _ (prod_R nat nat nat_R Q R QR) d (mapQd d).
Proof. apply list_R_map. intros [k x]. constructor; [apply nat_R_refl|reflexivity]. Qed.
Lemma lRdd (d : list (list (nat * Q))) :
  list_R _ _ (list_R _ _ (prod_R nat nat nat_R Q R QR)) d (mapQdd d).
Proof. apply list_R_map. intros x. apply lRd. Qed.
Lemma lRbn (l : list (list Q * Q)) :
  list_R _ _ (prod_R (list Q) (list R) (list_R Q R QR) Q R QR) l (mapQbn l).
Proof. apply list_R_map. intros [k x]. constructor; [apply lR1|reflexivity]. Qed.

(* relations back to equalities *)
Lemma lR_bool_eq l1 l2 : list_R bool bool bool_R l1 l2 -> l1 = l2.
Proof. induction 1 as [|? ? H ? ? ? IH]; [reflexivity|]. f_equal; [now apply bool_R_inv|exact IH]. Qed.
Lemma lR1_eq l1 l2 : list_R Q R QR l1 l2 -> mapQ1 l1 = l2.
Proof. induction 1 as [|? ? H ? ? ? IH]; [reflexivity|]. simpl. f_equal; [exact H|exact IH]. Qed.
Lemma lRd_eq d1 d2 : list_R _ _ (prod_R nat nat nat_R Q R QR) d1 d2 -> mapQd d1 = d2.
Proof.
  induction 1 as [|? ? H ? ? ? IH]; [reflexivity|]. simpl. f_equal; [|exact IH].
  destruct H as [k1 k2 Hk x1 x2 Hx]. simpl. apply nat_R_eq in Hk. now rewrite Hk, Hx.
Qed.
Lemma lRbn_eq l1 l2 :
  list_R _ _ (prod_R (list Q) (list R) (list_R Q R QR) Q R QR) l1 l2 -> mapQbn l1 = l2.
Proof.
  induction 1 as [|? ? H ? ? ? IH]; [reflexivity|]. simpl. f_equal; [|exact IH].
  destruct H as [k1 k2 Hk x1 x2 Hx]. simpl. apply lR1_eq in Hk. unfold mapQ1 in Hk. now rewrite Hk, Hx.
Qed.

Section Transfer.
Variables (nS nA nO : nat) (P Rw : list (list (list Q))) (ab : list bool) (ini : list Q) (g : Q)
          (Obl : list (list (list Q))).

Definition mQ : pomdp Q := mk_pomdp nS nA nO P Rw ab ini g Obl.
Definition mR : pomdp R := mk_pomdp nS nA nO (mapQ3 P) (mapQ3 Rw) ab (mapQ1 ini) (Q2R g) (mapQ3 Obl).

Lemma mQR : pomdp_R Q R QR mQ mR.
Proof.
  apply (mk_pomdp_R Q R QR NumQ NumR NumQR); try apply nat_R_refl;
    auto using lR1, lR3, list_R_bool_refl. reflexivity.
Qed.

(* beliefs enter as lists; the model reads them through untab *)
Lemma bQR (bl : list Q) : forall n1 n2, nat_R n1 n2 -> QR (untab bl n1) (untab (mapQ1 bl) n2).
Proof. intros n1 n2 Hn. apply (untab_R Q R QR NumQ NumR NumQR); auto using lR1. Qed.

Theorem wfpb_transfer : @wfpb Q NumQ mQ = @wfpb R NumR mR.
Proof. apply bool_R_inv. apply (wfpb_R Q R QR NumQ NumR NumQR). apply mQR. Qed.

Theorem beliefb_transfer bl : @beliefb Q NumQ mQ (untab bl) = @beliefb R NumR mR (untab (mapQ1 bl)).
Proof. apply bool_R_inv. apply (beliefb_R Q R QR NumQ NumR NumQR); [apply mQR|apply bQR]. Qed.

Theorem estimator_dict_transfer bl a o :
  mapQd (@estimator_dict Q NumQ mQ (untab bl) a o) = @estimator_dict R NumR mR (untab (mapQ1 bl)) a o.
Proof.
  apply lRd_eq. apply (estimator_dict_R Q R QR NumQ NumR NumQR); try apply nat_R_refl; [apply mQR|apply bQR].
Qed.
Theorem estimator_vec_transfer bl a o :
  mapQ1 (@estimator_vec Q NumQ mQ (untab bl) a o) = @estimator_vec R NumR mR (untab (mapQ1 bl)) a o.
Proof.
  apply lR1_eq. apply (estimator_vec_R Q R QR NumQ NumR NumQR); try apply nat_R_refl; [apply mQR|apply bQR].
Qed.
Theorem pred_obs_dict_transfer bl a :
  mapQd (@pred_obs_dict Q NumQ mQ (untab bl) a) = @pred_obs_dict R NumR mR (untab (mapQ1 bl)) a.
Proof.
  apply lRd_eq. apply (pred_obs_dict_R Q R QR NumQ NumR NumQR); try apply nat_R_refl; [apply mQR|apply bQR].
Qed.
Theorem pred_obs_vec_transfer bl a :
  mapQ1 (@pred_obs_vec Q NumQ mQ (untab bl) a) = @pred_obs_vec R NumR mR (untab (mapQ1 bl)) a.
Proof.
  apply lR1_eq. apply (pred_obs_vec_R Q R QR NumQ NumR NumQR); try apply nat_R_refl; [apply mQR|apply bQR].
Qed.
Theorem belief_next_transfer bl a :
  mapQbn (@belief_next Q NumQ mQ (untab bl) a) = @belief_next R NumR mR (untab (mapQ1 bl)) a.
Proof.
  apply lRbn_eq. apply (belief_next_R Q R QR NumQ NumR NumQR); try apply nat_R_refl; [apply mQR|apply bQR].
Qed.
Theorem belief_reward_transfer bl a :
  Q2R (@belief_reward Q NumQ mQ (untab bl) a) = @belief_reward R NumR mR (untab (mapQ1 bl)) a.
Proof.
  apply (belief_reward_R Q R QR NumQ NumR NumQR); try apply nat_R_refl; [apply mQR|apply bQR].
Qed.
Theorem belief_absorbing_transfer bl :
  @belief_absorbing Q NumQ mQ (untab bl) = @belief_absorbing R NumR mR (untab (mapQ1 bl)).
Proof.
  apply bool_R_inv. apply (belief_absorbing_R Q R QR NumQ NumR NumQR); [apply mQR|apply bQR].
Qed.
Theorem obs_matrix_eq_transfer om :
  @obs_matrix_eq Q NumQ mQ om = @obs_matrix_eq R NumR mR (mapQ3 om).
Proof.
  apply bool_R_inv. apply (obs_matrix_eq_R Q R QR NumQ NumR NumQR); [apply mQR|apply lR3].
Qed.

(* the comparison the harness runs on msdm's outputs *)
Theorem check_ba_transfer tol bl a ed ev nag pd pv bn rw :
  @check_ba Q NumQ mQ tol bl a ed ev nag pd pv bn rw =
  @check_ba R NumR mR (Q2R tol) (mapQ1 bl) a (mapQdd ed) (mapQ2 ev) (mapQ2 nag) (mapQd pd)
            (mapQ1 pv) (mapQbn bn) (Q2R rw).
Proof.
  apply lR_bool_eq.
  apply (check_ba_R Q R QR NumQ NumR NumQR); try apply nat_R_refl;
    auto using mQR, lR1, lR2, lRd, lRdd, lRbn; reflexivity.
Qed.
Theorem check_b_transfer bl ia :
  @check_b Q NumQ mQ bl ia = @check_b R NumR mR (mapQ1 bl) ia.
Proof.
  apply lR_bool_eq.
  apply (check_b_R Q R QR NumQ NumR NumQR); auto using mQR, lR1, bool_R_eq.
Qed.

End Transfer.
