(* VIProper.v — C01, proper MDPs at ANY discount factor gamma <= 1 (in particular gamma = 1).
   With the all-policies properness certificate of theory/LAOStarProper.v (weights w >= 0 with
   1 + gamma * sum_ns Pm(s,a,ns) * w ns <= w s for every available action; boolean [c_proper], evaluated
   per case in exact rationals):
     - the fixed point of the optimality operator of C01's masked model is unique ([main_proper_unique]);
     - the values a planner reports are within  epsb * w(s)  of it ([main_proper_values]): the residual
       bound of C01_values with the geometric factor 1/(1-gamma) replaced by the weight.
   New file; nothing in the earlier C01 files changes. *)
From Coq Require Import QArith Qreals Reals Lra Lia List Arith Bool.
From MSDM Require Import base.Num base.NumInst base.NumR base.Transfer model.MDP model.VI model.LAOStar
     theory.Bellman theory.VITheory theory.VITransfer theory.VIMain
     theory.LAOStarTheory theory.LAOStarTransfer theory.LAOStarProper.
Import ListNotations.

(* what vm_compute evaluates on Q is the certificate over R *)
Theorem c_proper_transfer nS nA P Rw av ab ini g (W : list Q) :
  @c_proper Q NumQ (mk_mdp nS nA P Rw av ab ini g) (masktab (mk_mdp nS nA P Rw av ab ini g)) W =
  @c_proper R NumR (mk_mdp nS nA (map3 Q2R P) (map3 Q2R Rw) av ab (map Q2R ini) (Q2R g))
            (masktab (mk_mdp nS nA (map3 Q2R P) (map3 Q2R Rw) av ab (map Q2R ini) (Q2R g))) (map Q2R W).
Proof.
  apply bool_R_inv.
  apply (c_proper_R Q R QR NumQ NumR NumQR).
  - apply mk_mdp_rel.
  - apply (masktab_R Q R QR NumQ NumR NumQR). apply mk_mdp_rel.
  - apply list_R_map1.
Qed.

Local Open Scope R_scope.

Section Gap.
Variable m : mdp R.
Hypothesis Wf : wf m.

(* A is an e1-approximate sub-solution and B an e2-approximate super-solution of the optimality equation:
   A - B <= (e1 + e2) * w.  (proper_le of LAOStarProper.v is the case e1 = e2 = 0.) *)
Theorem proper_gap w A B e1 e2 :
  proper_cert m w -> 0 <= e1 + e2 ->
  (forall s, (s < nS m)%nat -> A s <= Top m A s + e1) ->
  (forall s, (s < nS m)%nat -> Top m B s <= B s + e2) ->
  forall s, (s < nS m)%nat -> A s - B s <= (e1 + e2) * w s.
Proof.
  intros Hw He HA HB.
  assert (Hex : forall s, (s < nS m)%nat ->
            exists a, (a < nA m)%nat /\ avail m s a = true /\ Qval m A s a = Top m A s).
  { intros s Hs. pose proof (backup_some m A s Wf Hs) as Hb. unfold backup in Hb.
    destruct (maxf_attained _ _ _ _ Hb) as (a & Ha & Hav & Hq). eauto. }
  destruct (fin_choice (nS m) _ Hex) as (pol & Hpol).
  set (inC := fun _ : nat => true).
  assert (HC : closedC m inC pol).
  { intros s Hs _. destruct (Hpol s Hs) as (Ha & Hav & _). repeat split; auto. }
  pose proof (proper_steps m w inC pol Hw HC) as HN.
  intros s Hs.
  apply (weighted_bound m Wf inC pol w (fun s => A s - B s) (e1 + e2) HC HN He); auto.
  clear s Hs. intros s Hs _. rewrite psum_minus.
  destruct (Hpol s Hs) as (Ha & Hav & Hq).
  pose proof (backup_some m B s Wf Hs) as Hb. unfold backup in Hb.
  pose proof (maxf_ge _ _ _ _ _ Hb Ha Hav) as Hge.
  pose proof (HA s Hs) as H1. pose proof (HB s Hs) as H2. rewrite <- Hq in H1.
  rewrite !Qval_psum in *. lra.
Qed.

(* an eps-approximate fixed point is within eps * w of THE fixed point *)
Theorem proper_residual_bound w V Vs eps :
  proper_cert m w -> 0 <= eps -> fixpoint m Vs ->
  (forall s, (s < nS m)%nat -> Rabs (V s - Top m V s) <= eps) ->
  forall s, (s < nS m)%nat -> Rabs (V s - Vs s) <= eps * w s.
Proof.
  intros Hw He Hfix Hres s Hs.
  assert (H1 : V s - Vs s <= (eps + 0) * w s).
  { apply (proper_gap w V Vs eps 0 Hw); auto; [lra| |].
    - intros s' Hs'. pose proof (Hres s' Hs') as H. apply Rabs_le_inv' in H. lra.
    - intros s' Hs'. rewrite <- (Hfix s' Hs'). lra. }
  assert (H2 : Vs s - V s <= (0 + eps) * w s).
  { apply (proper_gap w Vs V 0 eps Hw); auto; [lra| |].
    - intros s' Hs'. rewrite <- (Hfix s' Hs'). lra.
    - intros s' Hs'. pose proof (Hres s' Hs') as H. apply Rabs_le_inv' in H. lra. }
  apply Rabs_le. lra.
Qed.
End Gap.

(* ------------------------------------------------------------------ *)
(* end-to-end on C01's data                                              *)
(* ------------------------------------------------------------------ *)
Section MainProperVI.
Variables (nS nA : nat) (P Rw : list (list (list Q))) (av : list (list bool)) (ab : list bool)
          (ini : list Q) (g : Q) (V : list Q) (Qv : list (list (option Q))) (Pi : list (list Q))
          (iv : Q) (tl : @tols Q) (W : list Q).

Notation mR := (VIMain.mR nS nA P Rw av ab ini g).
Notation oR := (VIMain.oR V Qv Pi iv).

Hypothesis HW :
  @c_proper Q NumQ (mk_mdp nS nA P Rw av ab ini g) (masktab (mk_mdp nS nA P Rw av ab ini g)) W = true.

Lemma mR_proper_cert : proper_cert mR (WR W).
Proof.
  apply c_proper_spec. unfold VIMain.mR. rewrite <- c_proper_transfer. exact HW.
Qed.

(* (1) uniqueness of the optimum, any gamma <= 1; only well-formedness of the MDP is needed *)
Theorem main_proper_unique V1 V2 :
  wfb mR = true -> fixpoint mR V1 -> fixpoint mR V2 -> forall s, (s < nS)%nat -> V1 s = V2 s.
Proof.
  intros Hwf H1 H2 s Hs.
  apply (proper_unique mR (wfb_wf mR Hwf) (WR W) V1 V2 mR_proper_cert H1 H2 s Hs).
Qed.

Hypothesis Hchk :
  @c01_check Q NumQ (mk_mdp nS nA P Rw av ab ini g) (mk_out V Qv Pi iv) tl = all_true.

(* (2) reported values within epsb * W of the optimum.  Vz = the reported values with the placeholder of
   states that can never reach an absorbing state read as 0 (those states are masked); at every other
   state Vz is the reported value itself. *)
Theorem main_proper_values Vs :
  0 <= Q2R (epsb tl) -> fixpoint mR Vs ->
  forall s, (s < nS)%nat ->
    Rabs (Vz mR oR s - Vs s) <= Q2R (epsb tl) * WR W s /\
    (unable_to_reach mR s = false -> Rabs (oV oR s - Vs s) <= Q2R (epsb tl) * WR W s).
Proof.
  intros He Hfix s Hs.
  destruct (VIMain.clauses nS nA P Rw av ab ini g V Qv Pi iv tl Hchk) as (Hwf & Ha & _ & Hr & _).
  pose proof (wfb_wf mR Hwf) as Wf.
  assert (H : Rabs (Vz mR oR s - Vs s) <= Q2R (epsb tl) * WR W s).
  { apply (proper_residual_bound mR Wf (WR W) (Vz mR oR) Vs (Q2R (epsb tl)) mR_proper_cert He Hfix); auto.
    intros s' Hs'. apply (residual_all mR oR (VIMain.tR tl) Wf He Ha Hr s' Hs'). }
  split; [exact H|]. intros Hu. unfold Vz in H. rewrite Hu in H. exact H.
Qed.

End MainProperVI.

(* ------------------------------------------------------------------ *)
(* non-vacuity at gamma = 1: 3 states, s0 -a0-> s1 | s2 (1/2 each, cost 1 towards s1), s0 -a1-> s0 (cost 1/4, never
   pays off... it loops), s1 -> s2 (cost 2), s2 absorbing.  Action a1 at s0 would never terminate, so it is
   made a move to s1 with cost 3 instead: every policy is proper.  V* = (-2, -2, 0)                      *)
(* ------------------------------------------------------------------ *)
Local Open Scope Q_scope.
Definition pxP : list (list (list Q)) :=
  [ [[0; 1#2; 1#2]; [0; 1; 0]]; [[0; 0; 1]; [0; 0; 0]]; [[0; 0; 1]; [0; 0; 0]] ].
Definition pxR : list (list (list Q)) :=
  [ [[0; -1; -1]; [0; -3; 0]]; [[0; 0; -2]; [0; 0; 0]]; [[0; 0; 5]; [0; 0; 0]] ].
Definition pxAv := [[true; true]; [true; false]; [true; false]].
Definition pxAb := [false; false; true].
Definition pxIni : list Q := [1; 0; 0].
Definition pxVs : list Q := [-2; -2; 0].
Definition pxW : list Q := [3; 2; 1].

Example px_proper :
  @c_proper Q NumQ (mk_mdp 3 2 pxP pxR pxAv pxAb pxIni 1) (masktab (mk_mdp 3 2 pxP pxR pxAv pxAb pxIni 1)) pxW = true.
Proof. vm_compute. reflexivity. Qed.

Example px_fix : fixpoint (VIMain.mR 3 2 pxP pxR pxAv pxAb pxIni 1) (untab (map Q2R pxVs)).
Proof. apply fixb_fixpoint. unfold VIMain.mR. rewrite <- fixb_transfer. vm_compute. reflexivity. Qed.

From MSDM Require Import theory.VIExample.
Definition pxQ : list (list (option Q)) := [[Some (-2); Some (-5)]; [Some (-2); None]; [Some 0; None]].
Definition pxPi : list (list Q) := [[1; 0]; [1; 0]; [1; 0]].

Example px_check :
  @c01_check Q NumQ (mk_mdp 3 2 pxP pxR pxAv pxAb pxIni 1) (mk_out pxVs pxQ pxPi (-2)) exT = all_true.
Proof. vm_compute. reflexivity. Qed.

(* the conclusion of main_proper_values is a real statement at gamma = 1 *)
Example px_values_bound :
  forall s, (s < 3)%nat ->
  (Rabs (Vz (VIMain.mR 3 2 pxP pxR pxAv pxAb pxIni 1) (VIMain.oR pxVs pxQ pxPi (-2)) s
         - untab (map Q2R pxVs) s) <= Q2R (epsb exT) * WR pxW s)%R.
Proof.
  intros s Hs.
  assert (He : (0 <= Q2R (epsb exT))%R) by (unfold Q2R; simpl; lra).
  exact (proj1 (main_proper_values 3 2 pxP pxR pxAv pxAb pxIni 1 pxVs pxQ pxPi (-2) exT pxW
                  px_proper px_check (untab (map Q2R pxVs)) He px_fix s Hs)).
Qed.
