(* LRTDPMachine.v — C04: invariants of the abstract LRTDP machine (model/LRTDP.v: step/run)
   at the R instance.  For EVERY operation sequence whose guards hold (every trial history,
   every seed, every action order):
     * admissible heuristic      ==>  V >= V* in every reachable state            (run_inv)
     * every labelled state keeps: residual of its recorded greedy action within the margin,
       successors labelled; later steps never disturb it                            (run_inv)
     * monotone heuristic (h >= T h, "_partial" w.r.t. the property's wording)
       ==>  values only decrease, and the recorded action stays THE greedy action   (run_mono_partial)
     * labelled states obey the error bound of theory/LRTDPTheory.v                 (run_bound) *)
From Coq Require Import Reals Lra Lia List Arith Bool.
From MSDM Require Import base.Num base.NumInst base.NumR model.MDP model.LRTDP
     theory.Bellman theory.LRTDPTheory.
Import ListNotations.
Local Open Scope R_scope.

(* ---------- lists ---------- *)
Lemma setnth_cons {A} (a : A) l i x : setnth (a :: l) (S i) x = a :: setnth l i x.
Proof. reflexivity. Qed.
Lemma setnth_length {A} (l : list A) i x : length (setnth l i x) = length l.
Proof.
  revert i. induction l as [|a l IH]; intros [|i]; try reflexivity.
  rewrite setnth_cons. simpl. now rewrite IH.
Qed.
Lemma nth_setnth {A} (l : list A) i j x d :
  (i < length l)%nat -> nth j (setnth l i x) d = if (j =? i)%nat then x else nth j l d.
Proof.
  revert i j. induction l as [|a l IH]; intros i j Hi; [simpl in Hi; lia|].
  destruct i as [|i].
  - destruct j; reflexivity.
  - rewrite setnth_cons. destruct j as [|j]; [reflexivity|]. simpl in Hi. simpl nth.
    rewrite IH by lia. reflexivity.
Qed.

Lemma inb_spec x l : inb x l = true <-> In x l.
Proof.
  unfold inb. rewrite existsb_exists. split.
  - intros (y & Hy & E). apply Nat.eqb_eq in E. now subst.
  - intros H. exists x. split; [auto|apply Nat.eqb_refl].
Qed.

Lemma fold_set_true (C : list nat) (l0 : list bool) s :
  (forall x, In x C -> (x < length l0)%nat) ->
  nth s (fold_left (fun l x => setnth l x true) C l0) false = nth s l0 false || inb s C.
Proof.
  revert l0. induction C as [|x C IH]; intros l0 H; simpl.
  - now rewrite orb_false_r.
  - rewrite IH.
    + rewrite nth_setnth by (apply H; left; auto). unfold inb. simpl existsb.
      destruct (s =? x)%nat; destruct (nth s l0 false); reflexivity.
    + intros y Hy. rewrite setnth_length. apply H. right; auto.
Qed.
Lemma fold_set_true_length (C : list nat) (l0 : list bool) :
  length (fold_left (fun l x => setnth l x true) C l0) = length l0.
Proof. revert l0. induction C; intros; simpl; [auto|]. now rewrite IHC, setnth_length. Qed.

Lemma fold_set_act (g : nat -> option nat) (C : list nat) (l0 : list nat) s :
  (forall x, In x C -> (x < length l0)%nat) ->
  nth s (fold_left (fun l x => match g x with Some a => setnth l x a | None => l end) C l0) 0%nat
  = if inb s C then match g s with Some a => a | None => nth s l0 0%nat end else nth s l0 0%nat.
Proof.
  revert l0. induction C as [|x C IH]; intros l0 H; [reflexivity|]. simpl fold_left.
  assert (Hx : (x < length l0)%nat) by (apply H; left; auto).
  rewrite IH by (intros y Hy; destruct (g x); [rewrite setnth_length|]; apply H; right; auto).
  unfold inb. simpl existsb. fold (inb s C).
  destruct (s =? x)%nat eqn:E.
  - apply Nat.eqb_eq in E. subst x. simpl. destruct (g s) eqn:G.
    + rewrite nth_setnth by auto. rewrite Nat.eqb_refl. destruct (inb s C); reflexivity.
    + destruct (inb s C); reflexivity.
  - simpl. destruct (g x) eqn:G; [|reflexivity]. rewrite nth_setnth by auto. rewrite E. reflexivity.
Qed.
Lemma fold_set_act_length (g : nat -> option nat) (C : list nat) (l0 : list nat) :
  length (fold_left (fun l x => match g x with Some a => setnth l x a | None => l end) C l0)
  = length l0.
Proof.
  revert l0. induction C as [|x C IH]; intros; simpl; [auto|]. rewrite IH.
  destruct (g x); [apply setnth_length|reflexivity].
Qed.

(* ---------- argmax_first at R ---------- *)
Lemma argmax_first_R (l : list nat) (f : nat -> R) :
  argmax_first l f =
  match l with
  | [] => None
  | a :: r => match argmax_first r f with
              | None => Some a
              | Some b => if Rleb (f b) (f a) then Some a else Some b
              end
  end.
Proof. destruct l; reflexivity. Qed.

Lemma argmax_first_none (l : list nat) (f : nat -> R) : argmax_first l f = None -> l = [].
Proof.
  destruct l as [|a r]; [auto|]. rewrite argmax_first_R.
  destruct (argmax_first r f); [destruct (Rleb _ _)|]; discriminate.
Qed.

Lemma argmax_first_in (l : list nat) (f : nat -> R) a : argmax_first l f = Some a -> In a l.
Proof.
  revert a. induction l as [|x r IH]; intros a H; [discriminate|]. rewrite argmax_first_R in H.
  destruct (argmax_first r f) as [b|] eqn:E.
  - destruct (Rleb (f b) (f x)); inversion H; subst; [left; auto|right; auto].
  - inversion H; left; auto.
Qed.

Lemma argmax_first_max (l : list nat) (f : nat -> R) a :
  argmax_first l f = Some a -> forall x, In x l -> f x <= f a.
Proof.
  revert a. induction l as [|y r IH]; intros a H x Hx; [destruct Hx|]. rewrite argmax_first_R in H.
  destruct (argmax_first r f) as [b|] eqn:E.
  - destruct (Rleb (f b) (f y)) eqn:L.
    + apply Rleb_true in L. inversion H; subst. destruct Hx as [->|Hx]; [lra|].
      specialize (IH b eq_refl x Hx). lra.
    + apply Rleb_false in L. inversion H; subst. destruct Hx as [->|Hx]; [lra|].
      apply (IH a eq_refl x Hx).
  - apply argmax_first_none in E. subst r. inversion H; subst.
    destruct Hx as [->|[]]. lra.
Qed.

(* the first maximiser is stable when its own score is kept and no score increases *)
Lemma argmax_first_stable (l : list nat) (f f' : nat -> R) a0 :
  argmax_first l f = Some a0 -> f' a0 = f a0 -> (forall a, In a l -> f' a <= f a) ->
  argmax_first l f' = Some a0.
Proof.
  revert a0. induction l as [|x r IH]; intros a0 H E Hle; [discriminate|].
  rewrite argmax_first_R in H. rewrite argmax_first_R.
  destruct (argmax_first r f) as [b|] eqn:Er.
  - destruct (Rleb (f b) (f x)) eqn:L.
    + apply Rleb_true in L. inversion H; subst a0.
      destruct (argmax_first r f') as [b'|] eqn:Er'; [|reflexivity].
      assert (Hb' : In b' r) by (eapply argmax_first_in; eauto).
      pose proof (argmax_first_max r f b Er b' Hb') as H1.
      pose proof (Hle b' (or_intror Hb')) as H2.
      assert (L' : Rleb (f' b') (f' x) = true) by (apply Rleb_true; lra).
      now rewrite L'.
    + apply Rleb_false in L. inversion H; subst a0.
      rewrite (IH b eq_refl E) by (intros a Ha; apply Hle; right; auto).
      pose proof (Hle x (or_introl eq_refl)) as H2.
      assert (L' : Rleb (f' b) (f' x) = false) by (apply Rleb_false; lra).
      now rewrite L'.
  - apply argmax_first_none in Er. subst r. simpl. exact H.
Qed.

(* ------------------------------------------------------------------ *)
Section MachineTheory.
Variable m : mdp R.
Variable eps : R.
Variable ord : nat -> list nat.
Hypothesis Wf : lrwf m.
Hypothesis ord_ok : forall s a, In a (ord s) -> (a < nA m)%nat.

Notation lst := (@lst R).
Notation step := (step m eps ord).
Notation run := (run m eps ord).

Definition wfst (st : lst) : Prop :=
  length (stV st) = nS m /\ length (stSolved st) = nS m /\ length (stAct st) = nS m.

(* what a label certifies *)
Definition labelled_ok (st : lst) (s : nat) : Prop :=
  (sAct st s < nA m)%nat /\ avail m s (sAct st s) = true /\
  Rabs (sV st s - Qlr m (sV st) s (sAct st s)) <= eps /\
  (forall ns, (ns < nS m)%nat -> 0 < P m s (sAct st s) ns -> sSol st ns = true).

Record inv (Vs : nat -> R) (st : lst) : Prop := {
  inv_wf : wfst st;
  inv_upper : forall s, (s < nS m)%nat -> absflag m s = false -> Vs s <= sV st s;
  inv_solved : forall s, (s < nS m)%nat -> sSol st s = true -> absflag m s = false ->
               labelled_ok st s
}.

Lemma sV_upd (st : lst) s b j :
  (s < length (stV st))%nat ->
  sV (mkSt (setnth (stV st) s b) (stSolved st) (stAct st)) j = if (j =? s)%nat then b else sV st j.
Proof. intros H. unfold sV, untab. simpl. now rewrite nth_setnth. Qed.

Lemma P_pos_ne0 s a ns :
  (s < nS m)%nat -> (a < nA m)%nat -> (ns < nS m)%nat -> P m s a ns <> 0 -> 0 < P m s a ns.
Proof. intros Hs Ha Hns H. pose proof (lw_P m Wf s a ns Hs Ha Hns). lra. Qed.

(* ---- preservation ---- *)
Lemma step_inv Vs st op st' :
  optfix m Vs -> inv Vs st -> step st op = Some st' -> inv Vs st'.
Proof.
  intros Hfix [(HlV & HlS & HlA) Hup Hsol] Hstep. destruct op as [s|s|C]; simpl in Hstep.
  - (* update *)
    destruct ((s <? nS m)%nat && negb (sSol st s)) eqn:G; [|discriminate].
    apply andb_true_iff in G as [Hs Hun]. apply Nat.ltb_lt in Hs. apply negb_true_iff in Hun.
    destruct (Blr m (sV st) s) as [b|] eqn:Hb; [|discriminate]. inversion Hstep; subst st'. clear Hstep.
    assert (HsV : (s < length (stV st))%nat) by lia.
    constructor.
    + repeat split; simpl; auto. now rewrite setnth_length.
    + intros j Hj Hab. rewrite sV_upd by auto. destruct (j =? s)%nat eqn:E; [|auto].
      apply Nat.eqb_eq in E. subst j.
      apply (Blr_mono m Vs (sV st) s (Vs s) b Wf Hs (Hfix s Hs Hab) Hb). intros ns Hns Hn. auto.
    + intros j Hj Hsj Hab. change (sSol st j = true) in Hsj.
      destruct (Hsol j Hj Hsj Hab) as (Ha & Hav & Hres & Hcl).
      assert (Hne : j <> s) by (intros ->; congruence).
      assert (HQ : Qlr m (sV (mkSt (setnth (stV st) s b) (stSolved st) (stAct st))) j (sAct st j)
                   = Qlr m (sV st) j (sAct st j)).
      { apply Qlr_ext. intros ns Hns Hn Hp. rewrite sV_upd by auto.
        destruct (ns =? s)%nat eqn:E; [|reflexivity]. apply Nat.eqb_eq in E. subst ns.
        rewrite (Hcl s Hs (P_pos_ne0 j _ s Hj Ha Hs Hp)) in Hun. discriminate. }
      unfold labelled_ok. change (sAct (mkSt (setnth (stV st) s b) (stSolved st) (stAct st)) j) with (sAct st j).
      rewrite HQ, sV_upd by auto. apply Nat.eqb_neq in Hne. rewrite Hne.
      repeat split; auto.
  - (* absorbing successor *)
    destruct ((s <? nS m)%nat && absflag m s) eqn:G; [|discriminate].
    apply andb_true_iff in G as [Hs Hab]. apply Nat.ltb_lt in Hs.
    inversion Hstep; subst st'. clear Hstep.
    assert (Hsol' : forall j, sSol (mkSt (stV st) (setnth (stSolved st) s true) (stAct st)) j
                              = if (j =? s)%nat then true else sSol st j).
    { intros j. unfold sSol. simpl. rewrite nth_setnth by lia. reflexivity. }
    constructor.
    + repeat split; simpl; auto. now rewrite setnth_length.
    + intros j Hj Habj. apply Hup; auto.
    + intros j Hj Hsj Habj. rewrite Hsol' in Hsj. destruct (j =? s)%nat eqn:E.
      { apply Nat.eqb_eq in E. subst j. congruence. }
      destruct (Hsol j Hj Hsj Habj) as (Ha & Hav & Hres & Hcl).
      repeat split; auto. intros ns Hns Hp. rewrite Hsol'. destruct (ns =? s)%nat; auto.
  - (* label *)
    destruct (forallb (label_ok1 m eps ord st C) C) eqn:G; [|discriminate].
    inversion Hstep; subst st'. clear Hstep. rewrite forallb_forall in G.
    assert (HC : forall x, In x C -> (x < nS m)%nat).
    { intros x Hx. specialize (G x Hx). unfold label_ok1 in G. rewrite !andb_true_iff in G.
      destruct G as [[G _] _]. now apply Nat.ltb_lt. }
    assert (Hsol' : forall j, sSol (do_label m ord st C) j = sSol st j || inb j C).
    { intros j. unfold sSol, do_label. simpl. apply fold_set_true. intros x Hx. rewrite HlS. auto. }
    assert (Hact' : forall j, sAct (do_label m ord st C) j
                    = if inb j C then match greedy m ord (sV st) j with Some a => a | None => sAct st j end
                      else sAct st j).
    { intros j. unfold sAct, do_label. simpl. apply fold_set_act. intros x Hx. rewrite HlA. auto. }
    constructor.
    + repeat split; simpl; auto; [now rewrite fold_set_true_length|now rewrite fold_set_act_length].
    + intros j Hj Habj. apply Hup; auto.
    + intros j Hj Hsj Habj. rewrite Hsol' in Hsj. unfold labelled_ok. rewrite Hact'.
      change (sV (do_label m ord st C)) with (sV st).
      destruct (inb j C) eqn:Ein.
      * apply inb_spec in Ein. specialize (G j Ein). unfold label_ok1 in G.
        rewrite Habj in G. rewrite !andb_true_iff in G. destruct G as [[_ Hunj] G].
        destruct (greedy m ord (sV st) j) as [a|]; [|discriminate].
        rewrite !andb_true_iff in G. destruct G as [[[Ga Gav] Gres] Gcl].
        apply Nat.ltb_lt in Ga. apply ncloseb_R in Gres. rewrite forallbn_spec in Gcl.
        repeat split; auto. intros ns Hns Hp. rewrite Hsol'. specialize (Gcl ns Hns).
        assert (E : @nltb R NumR n0 (P m j a ns) = true) by (apply nltb_R; exact Hp).
        now rewrite E in Gcl.
      * rewrite orb_false_r in Hsj. destruct (Hsol j Hj Hsj Habj) as (Ha & Hav & Hres & Hcl).
        repeat split; auto. intros ns Hns Hp. rewrite Hsol', (Hcl ns Hns Hp). reflexivity.
Qed.

Lemma init_inv Vs (h : list R) :
  length h = nS m ->
  (forall s, (s < nS m)%nat -> absflag m s = false -> Vs s <= untab h s) ->
  inv Vs (init_state m h).
Proof.
  intros Hl Hadm. constructor.
  - repeat split; simpl; auto; apply repeat_length.
  - intros s Hs Hab. apply Hadm; auto.
  - intros s Hs Hsol. unfold sSol, init_state in Hsol. simpl in Hsol.
    rewrite nth_repeat in Hsol. discriminate.
Qed.

(* ---- every reachable state: upper bound + labelled states certified ---- *)
Theorem run_inv Vs (h : list R) ops st :
  optfix m Vs -> length h = nS m ->
  (forall s, (s < nS m)%nat -> absflag m s = false -> Vs s <= untab h s) ->
  run (init_state m h) ops = Some st -> inv Vs st.
Proof.
  intros Hfix Hl Hadm. pose proof (init_inv Vs h Hl Hadm) as H0.
  generalize dependent (init_state m h). induction ops as [|op r IH]; intros st0 H0 Hrun; simpl in Hrun.
  - inversion Hrun; subst; auto.
  - destruct (step st0 op) as [st1|] eqn:E; [|discriminate].
    apply (IH st1); auto. eapply step_inv; eauto.
Qed.

(* ---- monotone heuristic: values only decrease, greedy action of a labelled state is stable ---- *)
Definition supersol (V : nat -> R) : Prop :=
  forall s a, (s < nS m)%nat -> (a < nA m)%nat -> absflag m s = false -> avail m s a = true ->
              Qlr m V s a <= V s.

Definition greedy_rec (st : lst) : Prop :=
  forall s, (s < nS m)%nat -> sSol st s = true -> absflag m s = false ->
            greedy m ord (sV st) s = Some (sAct st s).

Lemma step_mono_partial Vs st op st' :
  inv Vs st -> supersol (sV st) -> greedy_rec st -> step st op = Some st' ->
  supersol (sV st') /\ greedy_rec st' /\
  (forall s, (s < nS m)%nat -> absflag m s = false -> sV st' s <= sV st s).
Proof.
  intros [(HlV & HlS & HlA) Hup Hsol] Hsup Hgr Hstep. destruct op as [s|s|C]; simpl in Hstep.
  - destruct ((s <? nS m)%nat && negb (sSol st s)) eqn:G; [|discriminate].
    apply andb_true_iff in G as [Hs Hun]. apply Nat.ltb_lt in Hs. apply negb_true_iff in Hun.
    destruct (Blr m (sV st) s) as [b|] eqn:Hb; [|discriminate]. inversion Hstep; subst st'. clear Hstep.
    assert (HsV : (s < length (stV st))%nat) by lia.
    set (st' := mkSt (setnth (stV st) s b) (stSolved st) (stAct st)).
    assert (Hdec : forall j, (j < nS m)%nat -> absflag m j = false -> sV st' j <= sV st j).
    { intros j Hj Hab. unfold st'. rewrite sV_upd by auto. destruct (j =? s)%nat eqn:E; [|lra].
      apply Nat.eqb_eq in E. subst j.
      destruct (maxf_attained _ _ _ _ Hb) as (a & Ha & Hav & <-). apply Hsup; auto. }
    assert (HQle : forall j a, (j < nS m)%nat -> (a < nA m)%nat -> Qlr m (sV st') j a <= Qlr m (sV st) j a).
    { intros j a Hj Ha. apply Qlr_mono; auto. }
    split; [|split; [|exact Hdec]].
    + intros j a Hj Ha Hab Hav. eapply Rle_trans; [apply HQle; auto|].
      unfold st'. rewrite sV_upd by auto. destruct (j =? s)%nat eqn:E.
      * apply Nat.eqb_eq in E. subst j. apply (maxf_ge _ _ _ _ _ Hb Ha Hav).
      * apply Hsup; auto.
    + intros j Hj Hsj Hab. change (sSol st j = true) in Hsj. change (sAct st' j) with (sAct st j).
      destruct (Hsol j Hj Hsj Hab) as (Ha & Hav & Hres & Hcl).
      unfold greedy. apply (argmax_first_stable (ord j) (Qlr m (sV st) j) (Qlr m (sV st') j)).
      * apply Hgr; auto.
      * apply Qlr_ext. intros ns Hns Hn Hp. unfold st'. rewrite sV_upd by auto.
        destruct (ns =? s)%nat eqn:E; [|reflexivity]. apply Nat.eqb_eq in E. subst ns.
        rewrite (Hcl s Hs (P_pos_ne0 j _ s Hj Ha Hs Hp)) in Hun. discriminate.
      * intros a Ha'. apply HQle; auto. eapply ord_ok; eauto.
  - destruct ((s <? nS m)%nat && absflag m s) eqn:G; [|discriminate].
    apply andb_true_iff in G as [Hs Hab]. apply Nat.ltb_lt in Hs.
    inversion Hstep; subst st'. clear Hstep.
    split; [exact Hsup|split; [|intros; change (sV st s0 <= sV st s0); lra]].
    intros j Hj Hsj Habj. unfold sSol in Hsj. simpl in Hsj. rewrite nth_setnth in Hsj by lia.
    destruct (j =? s)%nat eqn:E; [apply Nat.eqb_eq in E; subst j; congruence|].
    apply (Hgr j Hj Hsj Habj).
  - destruct (forallb (label_ok1 m eps ord st C) C) eqn:G; [|discriminate].
    inversion Hstep; subst st'. clear Hstep. rewrite forallb_forall in G.
    assert (HC : forall x, In x C -> (x < nS m)%nat).
    { intros x Hx. specialize (G x Hx). unfold label_ok1 in G. rewrite !andb_true_iff in G.
      destruct G as [[G _] _]. now apply Nat.ltb_lt. }
    split; [exact Hsup|split; [|intros; change (sV st s <= sV st s); lra]].
    intros j Hj Hsj Habj. change (sV (do_label m ord st C)) with (sV st).
    assert (Hsol' : sSol (do_label m ord st C) j = sSol st j || inb j C).
    { unfold sSol, do_label. simpl. apply fold_set_true. intros x Hx. rewrite HlS. auto. }
    assert (Hact' : sAct (do_label m ord st C) j
                    = if inb j C then match greedy m ord (sV st) j with Some a => a | None => sAct st j end
                      else sAct st j).
    { unfold sAct, do_label. simpl. apply fold_set_act. intros x Hx. rewrite HlA. auto. }
    rewrite Hact'. rewrite Hsol' in Hsj. destruct (inb j C) eqn:Ein.
    + apply inb_spec in Ein. specialize (G j Ein). unfold label_ok1 in G. rewrite Habj in G.
      rewrite !andb_true_iff in G. destruct G as [_ G].
      destruct (greedy m ord (sV st) j); [reflexivity|discriminate].
    + rewrite orb_false_r in Hsj. apply Hgr; auto.
Qed.

Theorem run_mono_partial Vs (h : list R) ops st :
  optfix m Vs -> length h = nS m ->
  (forall s, (s < nS m)%nat -> absflag m s = false -> Vs s <= untab h s) ->
  supersol (untab h) ->
  run (init_state m h) ops = Some st ->
  supersol (sV st) /\ greedy_rec st /\
  (forall s, (s < nS m)%nat -> absflag m s = false -> sV st s <= untab h s).
Proof.
  intros Hfix Hl Hadm Hsup.
  pose proof (init_inv Vs h Hl Hadm) as H0.
  assert (Hg0 : greedy_rec (init_state m h)).
  { intros s Hs Hsol. unfold sSol, init_state in Hsol. simpl in Hsol.
    rewrite nth_repeat in Hsol. discriminate. }
  assert (Hd0 : forall s, (s < nS m)%nat -> absflag m s = false -> sV (init_state m h) s <= untab h s)
    by (intros; unfold sV; simpl; lra).
  change (supersol (sV (init_state m h))) in Hsup.
  generalize dependent (init_state m h). induction ops as [|op r IH]; intros st0 Hs0 H0 Hg0 Hd0 Hrun; simpl in Hrun.
  - inversion Hrun; subst; auto.
  - destruct (step st0 op) as [st1|] eqn:E; [|discriminate].
    destruct (step_mono_partial Vs st0 op st1 H0 Hs0 Hg0 E) as (H1 & H2 & H3).
    apply (IH st1); auto.
    + eapply step_inv; eauto.
    + intros s Hs Hab. eapply Rle_trans; [apply H3; auto|apply Hd0; auto].
Qed.

(* ---- the error bound for every labelled state of every reachable machine state ---- *)
Definition out_of (st : lst) : @lrout R :=
  mkLR (sV st) (sSol st) (fun _ => false) (sAct st) (fun _ _ => None) (fun _ _ => 0) 0.

Theorem run_bound Vs (h : list R) ops st (N Vpi : nat -> R) :
  0 <= eps ->
  optfix m Vs -> length h = nS m ->
  (forall s, (s < nS m)%nat -> absflag m s = false -> Vs s <= untab h s) ->
  run (init_state m h) ops = Some st ->
  (* N: any non-negative vector with N >= 1 + gamma P_pi N on the labelled states *)
  (forall s, (s < nS m)%nat -> 0 <= N s) ->
  (forall s, (s < nS m)%nat -> sSol st s = true -> absflag m s = false ->
     1 + gamma m * sumf (nS m) (fun ns => P m s (sAct st s) ns * zabs m N ns) <= N s) ->
  (* V^pi: exact policy evaluation of the recorded greedy actions on the labelled states *)
  (forall s, (s < nS m)%nat -> sSol st s = true -> absflag m s = false ->
     Vpi s = Qlr m Vpi s (sAct st s)) ->
  forall s, (s < nS m)%nat -> sSol st s = true -> absflag m s = false ->
    0 <= sV st s - Vs s <= eps * N s /\ 0 <= Vs s - Vpi s <= eps * N s.
Proof.
  intros He Hfix Hl Hadm Hrun HN0 HN HVpi s Hs Hsol Hab.
  destruct (run_inv Vs h ops st Hfix Hl Hadm Hrun) as [_ Hup Hlab].
  set (o := out_of st). set (c := @mkCert R N Vpi Vs (fun _ => 0)).
  set (t := @mkLTol R eps 0 0 0 0).
  assert (Hlive : forall j, live m o j = true <-> sSol st j = true /\ absflag m j = false).
  { intros j. unfold live, o, out_of. simpl. rewrite andb_true_iff, negb_true_iff. tauto. }
  assert (C1 : c_solved m o t = true).
  { unfold c_solved. apply forallbn_spec. intros j Hj. destruct (live m o j) eqn:L; [|reflexivity].
    apply Hlive in L as [Lj Laj]. destruct (Hlab j Hj Lj Laj) as (Ha & Hav & Hres & Hcl).
    unfold o, out_of, t. simpl. rewrite !andb_true_iff. repeat split.
    - now apply Nat.ltb_lt.
    - exact Hav.
    - apply ncloseb_R. exact Hres.
    - apply forallbn_spec. intros ns Hns.
      match goal with |- (if ?b then _ else _) = true => destruct b eqn:E end; [|reflexivity].
      apply nltb_R in E. apply Hcl; auto. }
  assert (C2 : c_N m o c = true).
  { unfold c_N. apply forallbn_spec. intros j Hj. apply andb_true_iff. split.
    - apply nleb_Rle'. apply HN0; auto.
    - destruct (live m o j) eqn:L; [|reflexivity]. apply Hlive in L as [Lj Laj].
      apply nleb_Rle'. apply (HN j Hj Lj Laj). }
  assert (C3 : c_vpi m o c = true).
  { unfold c_vpi. apply forallbn_spec. intros j Hj. destruct (live m o j) eqn:L; [|reflexivity].
    apply Hlive in L as [Lj Laj]. apply neqb_Req'. apply (HVpi j Hj Lj Laj). }
  assert (C4 : c_vstar m c = true).
  { unfold c_vstar. apply forallbn_spec. intros j Hj. destruct (absflag m j) eqn:A; [reflexivity|].
    unfold c. simpl. rewrite (Hfix j Hj A). apply neqb_Req'. reflexivity. }
  assert (C5 : c_upper m o c t = true).
  { unfold c_upper. apply forallbn_spec. intros j Hj. destruct (absflag m j) eqn:A; [reflexivity|].
    apply nleb_Rle'. unfold c, t, o, out_of. simpl. numR. specialize (Hup j Hj A). lra. }
  assert (L : live m o s = true) by (apply Hlive; auto).
  pose proof (cert_bound_state m o c t Wf He C1 C2 C3 C4 C5 s Hs L) as H.
  unfold o, out_of, c, t in H. simpl in H. lra.
Qed.

End MachineTheory.
