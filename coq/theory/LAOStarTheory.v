(* LAOStarTheory.v — C03: soundness of model/LAOStar.v (R instance), any finite MDP of any size.
   Part A: a policy that is consistent (within r) on a closed set C, with values that are upper
           bounds of the optimum, is optimal on C; the reported values are the optimal values and
           the policy's own values.  One weighted sup-norm argument ([weighted_bound]) covers the
           discounted case (weights 1/(1-gamma)) and the undiscounted case (weights = an
           expected-steps certificate N).
   Part B: the abstract machine: every transition that satisfies [step_ok] keeps
           "V >= V* - r/(1-gamma) everywhere" and "every expanded state is policy-consistent". *)
From Coq Require Import Reals Lra Lia List Arith Bool.
From MSDM Require Import base.Num base.NumInst base.NumR model.MDP model.VI model.LAOStar
     theory.Bellman theory.VITheory.
Import ListNotations.
Local Open Scope R_scope.

Lemma nltb0_R x : @nltb R NumR n0 x = true <-> 0 < x.
Proof. apply (nltb_R 0 x). Qed.

(* ---- the tabulated mask is the mask ---- *)
Section Tab.
Variable m : mdp R.
Lemma masktab_nth s : (s < nS m)%nat -> nth s (masktab m) false = masked m s.
Proof.
  intros Hs. unfold masktab.
  rewrite (nth_indep _ false (masked m 0%nat)) by (rewrite map_length, seq_length; auto).
  rewrite map_nth, seq_nth; auto.
Qed.
Lemma PmT_eq s a ns : (s < nS m)%nat -> PmT m (masktab m) s a ns = Pm m s a ns.
Proof. intros Hs. unfold PmT, Pm. now rewrite masktab_nth. Qed.
Lemma QvalT_eq V s a : (s < nS m)%nat -> QvalT m (masktab m) V s a = Qval m V s a.
Proof.
  intros Hs. unfold QvalT. rewrite masktab_nth by auto. rewrite Qval_R. unfold Rm, Pm.
  destruct (masked m s).
  - numR. rewrite sumf_0; [lra|]. intros; lra.
  - reflexivity.
Qed.
Lemma fixbT_fixpoint (V : list R) : fixbT m (masktab m) V = true -> fixpoint m (untab V).
Proof.
  unfold fixbT. rewrite forallbn_spec. intros H s Hs. specialize (H s Hs).
  rewrite (maxf_ext (nA m) (avail m s) (avail m s) _ (Qval m (untab V) s)) in H;
    [|reflexivity|intros; apply QvalT_eq; auto].
  unfold Top, backup. destruct (maxf (nA m) (avail m s) (Qval m (untab V) s)); [|discriminate].
  apply neqb_Req in H. exact H.
Qed.
End Tab.

(* ================================================================== *)
(* Part A                                                              *)
(* ================================================================== *)
Section Closed.
Variable m : mdp R.
Hypothesis Wf : wf m.
Variable inC : nat -> bool.
Variable pol : nat -> nat.

Definition closedC : Prop :=
  forall s, (s < nS m)%nat -> inC s = true ->
    (pol s < nA m)%nat /\ avail m s (pol s) = true /\
    forall ns, (ns < nS m)%nat -> 0 < Pm m s (pol s) ns -> inC ns = true.

(* expected next value under the policy's action *)
Definition psum (s : nat) (f : nat -> R) : R :=
  sumf (nS m) (fun ns => Pm m s (pol s) ns * f ns).

Lemma Qval_psum V s : Qval m V s (pol s) = Rm m s (pol s) + gamma m * psum s V.
Proof. reflexivity. Qed.

Lemma psum_minus s f g : psum s (fun ns => f ns - g ns) = psum s f - psum s g.
Proof.
  unfold psum. rewrite <- sumf_minus. apply sumf_ext. intros; lra.
Qed.
Lemma psum_scal s c f : psum s (fun ns => c * f ns) = c * psum s f.
Proof.
  unfold psum. rewrite <- sumf_scal. apply sumf_ext. intros; lra.
Qed.

Lemma psum_le_C s f g :
  closedC -> (s < nS m)%nat -> inC s = true ->
  (forall ns, (ns < nS m)%nat -> inC ns = true -> f ns <= g ns) ->
  psum s f <= psum s g.
Proof.
  intros HC Hs Hin Hfg. destruct (HC s Hs Hin) as (Ha & _ & Hcl).
  unfold psum. apply sumf_le. intros ns Hns.
  destruct (Rle_lt_or_eq_dec 0 (Pm m s (pol s) ns) (wf_Pnn m Wf s (pol s) ns Hs Ha Hns)) as [Hp|Hz].
  - apply Rmult_le_compat_l; [lra|]. apply Hfg; auto.
  - rewrite <- Hz. lra.
Qed.

Lemma psum_ext_C s f g :
  closedC -> (s < nS m)%nat -> inC s = true ->
  (forall ns, (ns < nS m)%nat -> inC ns = true -> f ns = g ns) ->
  psum s f = psum s g.
Proof.
  intros HC Hs Hin Hfg. apply Rle_antisym; apply psum_le_C; auto; intros ns Hns Hc;
    rewrite (Hfg ns Hns Hc); lra.
Qed.

Lemma psum_nonneg s f :
  (s < nS m)%nat -> (pol s < nA m)%nat -> (forall ns, (ns < nS m)%nat -> 0 <= f ns) -> 0 <= psum s f.
Proof.
  intros Hs Ha Hf. unfold psum. apply sumf_nonneg. intros ns Hns.
  apply Rmult_le_pos; [apply (wf_Pnn m Wf); auto|auto].
Qed.

Lemma psum_masked s f : masked m s = true -> psum s f = 0.
Proof.
  intros Hm. unfold psum. apply sumf_0. intros ns _. unfold Pm. rewrite Hm. numR. lra.
Qed.

(* expected-steps certificate *)
Definition steps_cert (N : nat -> R) : Prop :=
  (forall s, (s < nS m)%nat -> 0 <= N s) /\
  (forall s, (s < nS m)%nat -> inC s = true -> 1 + gamma m * psum s N <= N s).

Lemma steps_ge1 N s :
  closedC -> steps_cert N -> (s < nS m)%nat -> inC s = true -> 1 <= N s.
Proof.
  intros HC (HN0 & HN) Hs Hin. destruct (HC s Hs Hin) as (Ha & _ & _).
  pose proof (psum_nonneg s N Hs Ha HN0) as H0.
  pose proof (wf_gamma0 m Wf) as G0. specialize (HN s Hs Hin).
  assert (0 <= gamma m * psum s N) by (apply Rmult_le_pos; auto). lra.
Qed.

(* the weighted maximum principle *)
Theorem weighted_bound N f c :
  closedC -> steps_cert N -> 0 <= c ->
  (forall s, (s < nS m)%nat -> inC s = true -> f s <= c + gamma m * psum s f) ->
  forall s, (s < nS m)%nat -> inC s = true -> f s <= c * N s.
Proof.
  intros HC HNc Hc0 Hf.
  pose proof (wf_gamma0 m Wf) as G0.
  assert (HN1 : forall s, (s < nS m)%nat -> inC s = true -> 1 <= N s)
    by (intros; eapply steps_ge1; eauto).
  destruct HNc as (HN0 & HN).
  set (g := fun s => if inC s then Rmax 0 (f s / N s) else 0).
  destruct (finite_sup (nS m) g) as (D & HD0 & HDle & HDat).
  assert (Hle : forall s, (s < nS m)%nat -> inC s = true -> f s <= D * N s).
  { intros s Hs Hin. specialize (HDle s Hs). unfold g in HDle. rewrite Hin in HDle.
    pose proof (HN1 s Hs Hin) as H1.
    assert (Hx : f s / N s <= D).
    { eapply Rle_trans; [apply (Rmax_r 0)|]. eapply Rle_trans; [apply Rle_abs|exact HDle]. }
    replace (f s) with (f s / N s * N s) by (field; lra).
    apply Rmult_le_compat_r; lra. }
  assert (HD : D <= c).
  { destruct HDat as [->|(i & Hi & He)]; [exact Hc0|].
    unfold g in He. destruct (inC i) eqn:Hin.
    2:{ rewrite Rabs_R0 in He. lra. }
    rewrite Rabs_right in He by (apply Rle_ge, Rmax_l).
    destruct (Rle_dec (f i / N i) 0) as [Hneg|Hpos].
    { rewrite Rmax_left in He by lra. lra. }
    rewrite Rmax_right in He by lra.
    pose proof (HN1 i Hi Hin) as H1.
    assert (Hfi : f i = D * N i) by (rewrite <- He; field; lra).
    pose proof (Hf i Hi Hin) as Hstep.
    assert (Hps : psum i f <= D * psum i N).
    { rewrite <- psum_scal. apply psum_le_C; auto. }
    pose proof (HN i Hi Hin) as HNi.
    assert (H2 : gamma m * psum i f <= D * (N i - 1)).
    { apply Rle_trans with (gamma m * (D * psum i N)).
      - apply Rmult_le_compat_l; auto.
      - replace (gamma m * (D * psum i N)) with (D * (gamma m * psum i N)) by lra.
        apply Rmult_le_compat_l; lra. }
    nra. }
  intros s Hs Hin. eapply Rle_trans; [apply Hle; auto|].
  apply Rmult_le_compat_r; [apply HN0; auto|exact HD].
Qed.

(* in the discounted case the constant 1/(1-gamma) is a certificate *)
Lemma const_cert :
  closedC -> gamma m < 1 -> steps_cert (fun _ => 1 / (1 - gamma m)).
Proof.
  intros HC G1. pose proof (wf_gamma0 m Wf) as G0.
  assert (Hk : 0 < 1 / (1 - gamma m)) by (apply Rdiv_lt_0_compat; lra).
  split; [intros; lra|]. intros s Hs Hin. destruct (HC s Hs Hin) as (Ha & _ & _).
  assert (Hp : psum s (fun _ => 1 / (1 - gamma m)) <= 1 / (1 - gamma m)).
  { unfold psum. rewrite sumf_scal_r. pose proof (wf_Psub m Wf s (pol s) Hs Ha) as Hsub.
    replace (1 / (1 - gamma m)) with (1 * (1 / (1 - gamma m))) at 2 by lra.
    apply Rmult_le_compat_r; lra. }
  apply Rle_trans with (1 + gamma m * (1 / (1 - gamma m))).
  - apply Rplus_le_compat_l, Rmult_le_compat_l; auto.
  - right. field. lra.
Qed.

(* exact evaluation of the policy on C (C is closed, so this only involves values on C) *)
Definition poleval (Vpi : nat -> R) : Prop :=
  forall s, (s < nS m)%nat -> inC s = true -> Vpi s = Qval m Vpi s (pol s).

Definition consistent (r : R) (V : nat -> R) : Prop :=
  forall s, (s < nS m)%nat -> inC s = true ->
    Rabs (V s - Qval m (Vm m V) s (pol s)) <= r.

Lemma absflag_masked s : absflag m s = true -> masked m s = true.
Proof. intros H. unfold masked, absorbing. rewrite H. now rewrite !orb_true_r. Qed.
Lemma Vm_unmasked V s : masked m s = false -> Vm m V s = V s.
Proof.
  intros H. unfold Vm. destruct (absflag m s) eqn:E; [|reflexivity].
  apply absflag_masked in E. congruence.
Qed.
Lemma Vm_cases V s : Vm m V s = 0 \/ Vm m V s = V s.
Proof. unfold Vm. destruct (absflag m s); auto. Qed.
(* at a masked state of C the value itself is within r of 0, and so is what the look-ahead sees *)
Lemma Vm_masked_small r V s :
  0 <= r -> masked m s = true -> Rabs (V s - Qval m (Vm m V) s (pol s)) <= r ->
  - r <= Vm m V s <= r.
Proof.
  intros Hr Hm Hc. rewrite Qval_masked in Hc by auto. apply Rabs_le_inv' in Hc.
  destruct (Vm_cases V s) as [E|E]; rewrite E; lra.
Qed.

(* exactly consistent values ARE the policy's values (used for the non-vacuity example) *)
Lemma cons0_poleval V : consistent 0 V -> poleval (Vm m V).
Proof.
  intros H s Hs Hin. specialize (H s Hs Hin). apply Rabs_le_inv' in H.
  unfold Vm at 1. destruct (absflag m s) eqn:E.
  - rewrite Qval_masked; [reflexivity|]. now apply absflag_masked.
  - lra.
Qed.

(* values that are r-consistent with the policy on C are within r*N of the policy's own values *)
Theorem eval_close V Vpi N r :
  closedC -> steps_cert N -> 0 <= r -> poleval Vpi -> consistent r V ->
  forall s, (s < nS m)%nat -> inC s = true -> Rabs (V s - Vpi s) <= r * N s.
Proof.
  intros HC HN Hr Hpe Hcons.
  pose proof (wf_gamma0 m Wf) as G0.
  set (W := Vm m V).
  assert (HA : forall s, (s < nS m)%nat -> inC s = true ->
                 W s - Vpi s <= r * N s /\ Vpi s - W s <= r * N s).
  { intros s Hs Hin. split.
    - apply (weighted_bound N (fun s => W s - Vpi s) r HC HN Hr); auto.
      clear s Hs Hin. intros s Hs Hin. rewrite psum_minus.
      destruct (masked m s) eqn:Hm.
      + pose proof (Vm_masked_small r V s Hr Hm (Hcons s Hs Hin)) as Hsm. fold W in Hsm.
        rewrite (Hpe s Hs Hin), Qval_masked by auto.
        rewrite !psum_masked by auto. lra.
      + unfold W at 1. rewrite Vm_unmasked by auto.
        pose proof (Hcons s Hs Hin) as Hc. apply Rabs_le_inv' in Hc.
        rewrite (Hpe s Hs Hin). fold W in Hc. rewrite !Qval_psum in *. lra.
    - apply (weighted_bound N (fun s => Vpi s - W s) r HC HN Hr); auto.
      clear s Hs Hin. intros s Hs Hin. rewrite psum_minus.
      destruct (masked m s) eqn:Hm.
      + pose proof (Vm_masked_small r V s Hr Hm (Hcons s Hs Hin)) as Hsm. fold W in Hsm.
        rewrite (Hpe s Hs Hin), Qval_masked by auto.
        rewrite !psum_masked by auto. lra.
      + unfold W at 1. rewrite Vm_unmasked by auto.
        pose proof (Hcons s Hs Hin) as Hc. apply Rabs_le_inv' in Hc.
        rewrite (Hpe s Hs Hin). fold W in Hc. rewrite !Qval_psum in *. lra. }
  intros s Hs Hin. destruct (masked m s) eqn:Hm.
  - pose proof (Hcons s Hs Hin) as Hc. rewrite Qval_masked in Hc by auto.
    rewrite (Hpe s Hs Hin), Qval_masked by auto.
    pose proof (steps_ge1 N s HC HN Hs Hin) as H1.
    eapply Rle_trans; [exact Hc|]. nra.
  - destruct (HA s Hs Hin) as (H1 & H2). unfold W in H1, H2. rewrite Vm_unmasked in H1, H2 by auto.
    apply Rabs_le. lra.
Qed.

(* no policy beats the optimum on its own closed set *)
Theorem pol_le_opt Vs Vpi N :
  closedC -> steps_cert N -> fixpoint m Vs -> poleval Vpi ->
  forall s, (s < nS m)%nat -> inC s = true -> Vpi s <= Vs s.
Proof.
  intros HC HN Hfix Hpe s Hs Hin.
  cut (Vpi s - Vs s <= 0 * N s); [lra|].
  apply (weighted_bound N (fun s => Vpi s - Vs s) 0 HC HN (Rle_refl 0)); auto.
  clear s Hs Hin. intros s Hs Hin. rewrite psum_minus.
  destruct (HC s Hs Hin) as (Ha & Hav & _).
  rewrite (Hpe s Hs Hin). rewrite (Hfix s Hs).
  pose proof (backup_some m Vs s Wf Hs) as Hb. unfold backup in Hb.
  pose proof (maxf_ge _ _ _ _ _ Hb Ha Hav) as Hge.
  rewrite !Qval_psum in *. lra.
Qed.

(* the core of C03: consistent on a closed set + upper bound  ==>  optimal on that set *)
Theorem lao_final_core Vs V Vpi N r u :
  closedC -> steps_cert N -> fixpoint m Vs -> poleval Vpi -> 0 <= r ->
  consistent r V ->
  (forall s, (s < nS m)%nat -> inC s = true -> Vs s - u <= V s) ->
  forall s, (s < nS m)%nat -> inC s = true ->
    Vs s - u <= V s <= Vs s + r * N s /\
    Vs s - (u + r * N s) <= Vpi s <= Vs s /\
    Rabs (V s - Vpi s) <= r * N s.
Proof.
  intros HC HN Hfix Hpe Hr Hcons Hup s Hs Hin.
  pose proof (eval_close V Vpi N r HC HN Hr Hpe Hcons s Hs Hin) as H1.
  pose proof (pol_le_opt Vs Vpi N HC HN Hfix Hpe s Hs Hin) as H2.
  pose proof (Hup s Hs Hin) as H3. apply Rabs_le_inv' in H1 as H1'.
  repeat split; lra.
Qed.

(* averages over an initial distribution supported in C *)
Lemma init_avg_bound (x y : nat -> R) d :
  (forall s, (s < nS m)%nat -> 0 <= init m s) -> sumf (nS m) (init m) = 1 ->
  (forall s, (s < nS m)%nat -> 0 < init m s -> inC s = true) -> 0 <= d ->
  (forall s, (s < nS m)%nat -> inC s = true -> Rabs (x s - y s) <= d) ->
  Rabs (sumf (nS m) (fun s => init m s * x s) - sumf (nS m) (fun s => init m s * y s)) <= d.
Proof.
  intros Hnn Hsum Hsup Hd Hxy.
  set (x' := fun s => if inC s then x s else y s).
  assert (E : sumf (nS m) (fun s => init m s * x s) = sumf (nS m) (fun s => init m s * x' s)).
  { apply sumf_ext. intros s Hs. unfold x'.
    destruct (Rle_lt_or_eq_dec 0 (init m s) (Hnn s Hs)) as [Hp|Hz].
    - now rewrite (Hsup s Hs Hp).
    - rewrite <- Hz. lra. }
  rewrite E. eapply Rle_trans.
  - apply wsum_diff_bound with (d := d); auto. intros s Hs. unfold x'.
    destruct (inC s) eqn:Hin; [apply Hxy; auto|].
    replace (y s - y s) with 0 by lra. rewrite Rabs_R0. exact Hd.
  - rewrite Hsum. lra.
Qed.

End Closed.

(* ================================================================== *)
(* Part A2: the boolean checker implies the hypotheses of Part A       *)
(* ================================================================== *)
Section Check.
Variable m : mdp R.
Variable o : @laoout R.
Variable t : @ltols R.
Variable Vstar Nst : list R.

Lemma c_initdist_spec :
  c_initdist m = true ->
  (forall s, (s < nS m)%nat -> 0 <= init m s) /\ sumf (nS m) (init m) = 1.
Proof.
  unfold c_initdist. rewrite andb_true_iff, forallbn_spec. intros [H1 H2]. split.
  - intros s Hs. apply nleb_Rle. apply H1; auto.
  - now apply neqb_Req in H2.
Qed.

Lemma c_closed_spec :
  c_closed m (masktab m) o = true ->
  closedC m (lC o) (lPol o) /\
  (forall s, (s < nS m)%nat -> 0 < init m s -> lC o s = true) /\
  (forall s, (s < nS m)%nat -> lC o s = true -> lExp o s = true).
Proof.
  unfold c_closed. rewrite forallbn_spec. intros H. repeat split.
  - specialize (H s H0). apply andb_true_iff in H as [_ H]. rewrite H1 in H.
    rewrite !andb_true_iff in H. destruct H as [[[_ H] _] _]. now apply Nat.ltb_lt.
  - specialize (H s H0). apply andb_true_iff in H as [_ H]. rewrite H1 in H.
    rewrite !andb_true_iff in H. tauto.
  - intros ns Hns Hp. specialize (H s H0). apply andb_true_iff in H as [_ H]. rewrite H1 in H.
    rewrite !andb_true_iff in H. destruct H as [_ H]. rewrite forallbn_spec in H.
    specialize (H ns Hns). rewrite PmT_eq in H by auto. apply nltb0_R in Hp. now rewrite Hp in H.
  - intros s Hs Hp. specialize (H s Hs). apply andb_true_iff in H as [H _].
    apply nltb0_R in Hp. now rewrite Hp in H.
  - intros s Hs Hc. specialize (H s Hs). apply andb_true_iff in H as [_ H]. rewrite Hc in H.
    rewrite !andb_true_iff in H. tauto.
Qed.

Lemma c_cons_spec :
  c_cons m (masktab m) o t = true -> consistent m (lC o) (lPol o) (rho t) (lV o).
Proof.
  unfold c_cons. rewrite forallbn_spec. intros H s Hs Hc. specialize (H s Hs).
  rewrite Hc in H. rewrite QvalT_eq in H by auto. now apply ncloseb_R in H.
Qed.

Lemma c_upper_spec :
  c_upper m o t Vstar = true ->
  forall s, (s < nS m)%nat -> lExp o s = true -> untab Vstar s - ups t <= lV o s.
Proof.
  unfold c_upper. rewrite forallbn_spec. intros H s Hs He. specialize (H s Hs).
  rewrite He in H. apply nleb_Rle in H. numR. exact H.
Qed.

Lemma c_steps_spec :
  c_steps m (masktab m) o Nst = true -> steps_cert m (lC o) (lPol o) (untab Nst).
Proof.
  unfold c_steps. rewrite forallbn_spec. intros H. split.
  - intros s Hs. specialize (H s Hs). apply andb_true_iff in H as [H _]. now apply nleb_Rle in H.
  - intros s Hs Hc. specialize (H s Hs). apply andb_true_iff in H as [_ H]. rewrite Hc in H.
    apply nleb_Rle in H. numR. unfold psum.
    rewrite (sumf_ext _ _ (fun ns => PmT m (masktab m) s (lPol o s) ns * untab Nst ns));
      [exact H|]. intros ns Hns. now rewrite PmT_eq.
Qed.

Lemma c_det_spec :
  c_det m o = true ->
  forall s a, (s < nS m)%nat -> (a < nA m)%nat -> lC o s = true ->
    lPi o s a = if (a =? lPol o s)%nat then 1 else 0.
Proof.
  unfold c_det. rewrite forallbn_spec. intros H s a Hs Ha Hc. specialize (H s Hs).
  rewrite Hc in H. rewrite forallbn_spec in H. specialize (H a Ha). apply neqb_Req in H.
  rewrite H. destruct (a =? lPol o s)%nat; reflexivity.
Qed.

Lemma c_avail_spec :
  c_avail m o t = true ->
  forall s, (s < nS m)%nat ->
    Rabs (sumf (nA m) (lPi o s) - 1) <= ptol t /\
    forall a, (a < nA m)%nat -> 0 <= lPi o s a /\ (0 < lPi o s a -> avail m s a = true).
Proof.
  unfold c_avail. rewrite forallbn_spec. intros H s Hs. specialize (H s Hs).
  apply andb_true_iff in H as [H1 H2]. split; [now apply ncloseb_R in H2|].
  rewrite forallbn_spec in H1. intros a Ha. specialize (H1 a Ha).
  apply andb_true_iff in H1 as [H3 H4]. split; [now apply nleb_Rle in H3|].
  intros Hp. apply nltb0_R in Hp. now rewrite Hp in H4.
Qed.

(* states the returned policy can itself reach from the initial support
   (episodes end at absorbing states: their rows of Pm are zero) *)
Inductive preach : nat -> Prop :=
| pr_init s : (s < nS m)%nat -> 0 < init m s -> preach s
| pr_step s a ns : preach s -> (a < nA m)%nat -> (ns < nS m)%nat ->
                   0 < lPi o s a -> 0 < Pm m s a ns -> preach ns.

Lemma preach_lt s : preach s -> (s < nS m)%nat.
Proof. destruct 1; auto. Qed.

Theorem policy_total :
  c_closed m (masktab m) o = true -> c_det m o = true ->
  forall s, preach s ->
    lC o s = true /\ lExp o s = true /\ (lPol o s < nA m)%nat /\ avail m s (lPol o s) = true /\
    forall a, (a < nA m)%nat -> lPi o s a = if (a =? lPol o s)%nat then 1 else 0.
Proof.
  intros Hcl Hdet. destruct (c_closed_spec Hcl) as (HC & Hini & Hexp).
  assert (Hin : forall s, preach s -> lC o s = true).
  { induction 1 as [s Hs Hp|s a ns Hpr IH Ha Hns Hpi Hpm]; [auto|].
    pose proof (preach_lt s Hpr) as Hs.
    pose proof (c_det_spec Hdet s a Hs Ha IH) as Hd.
    destruct (a =? lPol o s)%nat eqn:E; [|lra].
    apply Nat.eqb_eq in E. subst a. destruct (HC s Hs IH) as (_ & _ & Hsucc). auto. }
  intros s Hpr. pose proof (preach_lt s Hpr) as Hs. pose proof (Hin s Hpr) as Hc.
  destruct (HC s Hs Hc) as (Ha & Hav & _).
  repeat split; auto. intros a Ha'. apply c_det_spec; auto.
Qed.

Theorem policy_available :
  c_avail m o t = true ->
  forall s a, (s < nS m)%nat -> (a < nA m)%nat -> 0 < lPi o s a -> avail m s a = true.
Proof.
  intros H s a Hs Ha Hp. destruct (c_avail_spec H s Hs) as (_ & H2).
  destruct (H2 a Ha) as (_ & H3). auto.
Qed.

(* ---- values, policy values: general (certificate N) ---- *)
Theorem final_general Vpi :
  wfb m = true -> c_closed m (masktab m) o = true -> c_cons m (masktab m) o t = true -> c_fix m (masktab m) Vstar = true ->
  c_upper m o t Vstar = true -> c_steps m (masktab m) o Nst = true -> 0 <= rho t ->
  poleval m (lC o) (lPol o) Vpi ->
  forall s, (s < nS m)%nat -> lC o s = true ->
    untab Vstar s - ups t <= lV o s <= untab Vstar s + rho t * untab Nst s /\
    untab Vstar s - (ups t + rho t * untab Nst s) <= Vpi s <= untab Vstar s /\
    Rabs (lV o s - Vpi s) <= rho t * untab Nst s.
Proof.
  intros Hwf Hcl Hcons Hfix Hup Hst Hr Hpe.
  pose proof (wfb_wf m Hwf) as Wf.
  destruct (c_closed_spec Hcl) as (HC & _ & Hexp).
  apply (lao_final_core m Wf (lC o) (lPol o) (untab Vstar) (lV o) Vpi (untab Nst) (rho t) (ups t));
    auto using c_steps_spec, c_cons_spec, fixbT_fixpoint.
  intros s Hs Hc. apply (c_upper_spec Hup); auto.
Qed.

(* ---- discounted: no certificate needed, and Vs is ANY fixed point of the optimality operator ---- *)
Theorem final_discounted Vs Vpi :
  wfb m = true -> c_closed m (masktab m) o = true -> c_cons m (masktab m) o t = true -> c_fix m (masktab m) Vstar = true ->
  c_upper m o t Vstar = true -> 0 <= rho t -> gamma m < 1 ->
  fixpoint m Vs -> poleval m (lC o) (lPol o) Vpi ->
  forall s, (s < nS m)%nat -> lC o s = true ->
    Vs s - ups t <= lV o s <= Vs s + rho t / (1 - gamma m) /\
    Vs s - (ups t + rho t / (1 - gamma m)) <= Vpi s <= Vs s /\
    Rabs (lV o s - Vpi s) <= rho t / (1 - gamma m).
Proof.
  intros Hwf Hcl Hcons Hfix Hup Hr G1 HVs Hpe s Hs Hc.
  pose proof (wfb_wf m Hwf) as Wf.
  destruct (c_closed_spec Hcl) as (HC & _ & Hexp).
  assert (E : Vs s = untab Vstar s).
  { apply (fixpoint_unique m Vs (untab Vstar) Wf G1 HVs (fixbT_fixpoint m Vstar Hfix) s Hs). }
  pose proof (lao_final_core m Wf (lC o) (lPol o) (untab Vstar) (lV o) Vpi
                (fun _ => 1 / (1 - gamma m)) (rho t) (ups t) HC
                (const_cert m Wf (lC o) (lPol o) HC G1) (fixbT_fixpoint m Vstar Hfix) Hpe Hr
                (c_cons_spec Hcons)) as H.
  assert (Hup' : forall s, (s < nS m)%nat -> lC o s = true -> untab Vstar s - ups t <= lV o s)
    by (intros s' Hs' Hc'; apply (c_upper_spec Hup); auto).
  specialize (H Hup' s Hs Hc). rewrite E.
  replace (rho t / (1 - gamma m)) with (rho t * (1 / (1 - gamma m))) by (unfold Rdiv; lra).
  exact H.
Qed.

(* every value held for an explored state is an upper bound on the optimal value *)
Theorem explored_upper Vs :
  wfb m = true -> c_fix m (masktab m) Vstar = true -> c_upper m o t Vstar = true -> gamma m < 1 ->
  fixpoint m Vs ->
  forall s, (s < nS m)%nat -> lExp o s = true -> Vs s - ups t <= lV o s.
Proof.
  intros Hwf Hfix Hup G1 HVs s Hs He.
  rewrite (fixpoint_unique m Vs (untab Vstar) (wfb_wf m Hwf) G1 HVs (fixbT_fixpoint m Vstar Hfix) s Hs).
  apply (c_upper_spec Hup); auto.
Qed.

(* ---- initial value and the policy's exactly evaluated return ---- *)
Definition avg (x : nat -> R) : R := sumf (nS m) (fun s => init m s * x s).

Theorem initial_general Vpi B :
  wfb m = true -> c_initdist m = true -> c_closed m (masktab m) o = true -> c_cons m (masktab m) o t = true ->
  c_fix m (masktab m) Vstar = true -> c_upper m o t Vstar = true -> c_steps m (masktab m) o Nst = true ->
  c_init m o t = true -> 0 <= rho t -> 0 <= ups t ->
  (forall s, (s < nS m)%nat -> lC o s = true -> untab Nst s <= B) ->
  poleval m (lC o) (lPol o) Vpi ->
  Rabs (lInit o - avg (untab Vstar)) <= itol t + (ups t + rho t * B) /\
  Rabs (avg Vpi - avg (untab Vstar)) <= ups t + rho t * B.
Proof.
  intros Hwf Hid Hcl Hcons Hfix Hup Hst Hin Hr Hu HB Hpe.
  pose proof (wfb_wf m Hwf) as Wf.
  destruct (c_closed_spec Hcl) as (HC & Hini & Hexp).
  destruct (c_initdist_spec Hid) as (Hnn & Hsum).
  pose proof (final_general Vpi Hwf Hcl Hcons Hfix Hup Hst Hr Hpe) as HF.
  assert (HB0 : forall s, (s < nS m)%nat -> lC o s = true -> 0 <= rho t * untab Nst s <= rho t * B).
  { intros s Hs Hc. pose proof (steps_ge1 m Wf (lC o) (lPol o) (untab Nst) s HC (c_steps_spec Hst) Hs Hc).
    specialize (HB s Hs Hc). split; [apply Rmult_le_pos; lra|apply Rmult_le_compat_l; lra]. }
  assert (Hd : 0 <= ups t + rho t * B).
  { destruct (Nat.eq_dec (nS m) 0) as [E|E].
    - rewrite E in Hsum. simpl in Hsum. numR. lra.
    - (* some initial state has positive probability, hence C is non-empty *)
      destruct (Rle_dec 0 (rho t * B)) as [|Hn]; [lra|].
      exfalso. assert (Hz : forall s, (s < nS m)%nat -> init m s = 0).
      { intros s Hs. destruct (Rle_lt_or_eq_dec 0 (init m s) (Hnn s Hs)) as [Hp|Hz]; [|auto].
        destruct (HB0 s Hs (Hini s Hs Hp)). lra. }
      rewrite sumf_0 in Hsum; auto. lra. }
  split.
  - unfold c_init in Hin. apply ncloseb_R in Hin.
    change (Rabs (lInit o - avg (lV o)) <= itol t) in Hin.
    assert (H1 : Rabs (avg (lV o) - avg (untab Vstar)) <= ups t + rho t * B).
    { unfold avg. apply (init_avg_bound m (lC o)); auto.
      intros s Hs Hc. destruct (HF s Hs Hc) as (H1 & _). destruct (HB0 s Hs Hc).
      apply Rabs_le. lra. }
    replace (lInit o - avg (untab Vstar))
      with ((lInit o - avg (lV o)) + (avg (lV o) - avg (untab Vstar))) by lra.
    eapply Rle_trans; [apply Rabs_triang|]. lra.
  - unfold avg. apply (init_avg_bound m (lC o)); auto.
    intros s Hs Hc. destruct (HF s Hs Hc) as (_ & H2 & _). destruct (HB0 s Hs Hc).
    apply Rabs_le. lra.
Qed.

Theorem initial_discounted Vs Vpi :
  wfb m = true -> c_initdist m = true -> c_closed m (masktab m) o = true -> c_cons m (masktab m) o t = true ->
  c_fix m (masktab m) Vstar = true -> c_upper m o t Vstar = true ->
  c_init m o t = true -> 0 <= rho t -> 0 <= ups t -> gamma m < 1 ->
  fixpoint m Vs -> poleval m (lC o) (lPol o) Vpi ->
  Rabs (lInit o - avg Vs) <= itol t + (ups t + rho t / (1 - gamma m)) /\
  Rabs (avg Vpi - avg Vs) <= ups t + rho t / (1 - gamma m).
Proof.
  intros Hwf Hid Hcl Hcons Hfix Hup Hin Hr Hu G1 HVs Hpe.
  pose proof (wfb_wf m Hwf) as Wf.
  destruct (c_closed_spec Hcl) as (HC & Hini & Hexp).
  destruct (c_initdist_spec Hid) as (Hnn & Hsum).
  pose proof (wf_gamma0 m Wf) as G0.
  assert (Hq : 0 <= rho t / (1 - gamma m)).
  { apply Rmult_le_pos; [lra|]. left. apply Rinv_0_lt_compat. lra. }
  assert (Hd : 0 <= ups t + rho t / (1 - gamma m)) by lra.
  pose proof (final_discounted Vs Vpi Hwf Hcl Hcons Hfix Hup Hr G1 HVs Hpe) as HF.
  split.
  - unfold c_init in Hin. apply ncloseb_R in Hin.
    change (Rabs (lInit o - avg (lV o)) <= itol t) in Hin.
    assert (H1 : Rabs (avg (lV o) - avg Vs) <= ups t + rho t / (1 - gamma m)).
    { unfold avg. apply (init_avg_bound m (lC o)); auto.
      intros s Hs Hc. destruct (HF s Hs Hc) as (H1 & _). apply Rabs_le. lra. }
    replace (lInit o - avg Vs) with ((lInit o - avg (lV o)) + (avg (lV o) - avg Vs)) by lra.
    eapply Rle_trans; [apply Rabs_triang|]. lra.
  - unfold avg. apply (init_avg_bound m (lC o)); auto.
    intros s Hs Hc. destruct (HF s Hs Hc) as (_ & H2 & _). apply Rabs_le. lra.
Qed.

End Check.

(* ================================================================== *)
(* Part B: the abstract machine                                        *)
(* ================================================================== *)
Section Machine.
Variable m : mdp R.
Hypothesis Wf : wf m.
Variable r : R.
Hypothesis Hr : 0 <= r.

Lemma step_ok_spec st x Z st' :
  step_ok m (masktab m) r st x Z st' = true ->
  (x < nS m)%nat /\ sE st x = false /\ Z x = true /\
  forall s, (s < nS m)%nat ->
    sE st' s = (sE st s || (s =? x)%nat) /\
    (Z s = true ->
       sE st' s = true /\ (sPol st' s < nA m)%nat /\ avail m s (sPol st' s) = true /\
       Rabs (sV st' s - Qval m (Vm m (sV st')) s (sPol st' s)) <= r /\
       forall a, (a < nA m)%nat -> avail m s a = true ->
                 Qval m (Vm m (sV st')) s a - r <= sV st' s) /\
    (Z s = false ->
       sV st' s = sV st s /\
       (sE st s = true ->
          sPol st' s = sPol st s /\
          forall ns, (ns < nS m)%nat -> 0 < Pm m s (sPol st s) ns -> Z ns = false)).
Proof.
  unfold step_ok. rewrite !andb_true_iff, forallbn_spec. intros [[[Hx Hex] HZx] H].
  split; [now apply Nat.ltb_lt|]. split; [now apply negb_true_iff|]. split; [exact HZx|].
  intros s Hs. specialize (H s Hs). apply andb_true_iff in H as [HE H].
  split; [unfold beqb in HE; destruct (sE st' s), (sE st s || (s =? x)%nat); simpl in HE; congruence|]. split.
  - intros HZ. rewrite HZ in H. rewrite !andb_true_iff in H.
    destruct H as [[[[H1 H2] H3] H4] H5].
    split; [exact H1|]. split; [now apply Nat.ltb_lt|]. split; [exact H3|].
    rewrite QvalT_eq in H4 by auto.
    split; [now apply ncloseb_R in H4|].
    rewrite forallbn_spec in H5. intros a Ha Hav. specialize (H5 a Ha). rewrite Hav in H5.
    rewrite QvalT_eq in H5 by auto.
    apply nleb_Rle in H5. numR. exact H5.
  - intros HZ. rewrite HZ in H. apply andb_true_iff in H as [H1 H2].
    split; [now apply neqb_Req|]. intros HEs. rewrite HEs in H2.
    apply andb_true_iff in H2 as [H2 H3]. split; [now apply Nat.eqb_eq|].
    rewrite forallbn_spec in H3. intros ns Hns Hp. specialize (H3 ns Hns).
    rewrite PmT_eq in H3 by auto.
    apply nltb0_R in Hp. rewrite Hp in H3. now apply negb_true_iff.
Qed.

(* ---- invariant 1: every expanded state is policy-consistent ---- *)
Definition inv_cons (st : @snap R) : Prop :=
  forall s, (s < nS m)%nat -> sE st s = true ->
    (sPol st s < nA m)%nat /\ avail m s (sPol st s) = true /\
    Rabs (sV st s - Qval m (Vm m (sV st)) s (sPol st s)) <= r.

Theorem step_cons st x Z st' :
  step_ok m (masktab m) r st x Z st' = true -> inv_cons st -> inv_cons st'.
Proof.
  intros Hstep Hinv. destruct (step_ok_spec _ _ _ _ Hstep) as (Hx & Hex & HZx & H).
  intros s Hs HE'. destruct (H s Hs) as (HE & HZt & HZf).
  destruct (Z s) eqn:HZ.
  - destruct (HZt eq_refl) as (_ & Ha & Hav & Hc & _). auto.
  - assert (Hsx : (s =? x)%nat = false).
    { destruct (s =? x)%nat eqn:E; [|reflexivity]. apply Nat.eqb_eq in E. congruence. }
    rewrite HE', Hsx, orb_false_r in HE. symmetry in HE.
    destruct (HZf eq_refl) as (HV & Hfr). destruct (Hfr HE) as (Hp & Hsucc).
    destruct (Hinv s Hs HE) as (Ha & Hav & Hc).
    rewrite Hp, HV. split; [exact Ha|]. split; [exact Hav|].
    replace (Qval m (Vm m (sV st')) s (sPol st s)) with (Qval m (Vm m (sV st)) s (sPol st s)); [exact Hc|].
    rewrite !Qval_R. f_equal. f_equal. apply sumf_ext. intros ns Hns.
    destruct (Rle_lt_or_eq_dec 0 _ (wf_Pnn m Wf s (sPol st s) ns Hs Ha Hns)) as [Hpos|Hz].
    + destruct (H ns Hns) as (_ & _ & HZf'). destruct (HZf' (Hsucc ns Hns Hpos)) as (HVn & _).
      unfold Vm. now rewrite HVn.
    + rewrite <- Hz. lra.
Qed.

(* ---- invariant 2: upper bound (discounted) ---- *)
Variable Vs : nat -> R.
Hypothesis Hfix : fixpoint m Vs.
Hypothesis G1 : gamma m < 1.

Definition slack : R := r / (1 - gamma m).

Lemma slack_ge : r <= slack.
Proof.
  unfold slack. pose proof (wf_gamma0 m Wf) as G0.
  apply Rmult_le_reg_r with (1 - gamma m); [lra|].
  unfold Rdiv. rewrite Rmult_assoc, Rinv_l by lra. nra.
Qed.

Definition inv_upper (st : @snap R) : Prop :=
  forall s, (s < nS m)%nat -> Vs s <= sV st s + slack.

Lemma Vs_masked s : (s < nS m)%nat -> masked m s = true -> Vs s = 0.
Proof. intros Hs Hm. rewrite (Hfix s Hs). apply Top_masked; auto. Qed.

Lemma inv_upper_Vm st :
  inv_upper st -> forall s, (s < nS m)%nat -> Vs s <= Vm m (sV st) s + slack.
Proof.
  intros H s Hs. unfold Vm. destruct (absflag m s) eqn:Hm; [|apply H; auto].
  rewrite (Vs_masked s Hs (absflag_masked m s Hm)). pose proof slack_ge. numR. lra.
Qed.

(* this is the sub-MDP argument (DESIGN: submdp_upper): revising Z with boundary values that are
   upper bounds yields upper bounds on Z; the sub-MDP of laostar.py:308-358 folds the boundary
   into a pseudo-terminal reward, which is exactly Qval over the full MDP with V unchanged outside Z *)
Theorem step_upper st x Z st' :
  step_ok m (masktab m) r st x Z st' = true -> inv_upper st -> inv_upper st'.
Proof.
  intros Hstep Hinv. destruct (step_ok_spec _ _ _ _ Hstep) as (Hx & Hex & HZx & H).
  pose proof (wf_gamma0 m Wf) as G0. pose proof slack_ge as Hsl.
  assert (Hm' : forall s, (s < nS m)%nat -> Vs s - Vm m (sV st') s - slack <= 0).
  { apply (sup_pos_part_zero m (fun s => Vs s - Vm m (sV st') s - slack) Wf G1).
    intros D HD0 Hpos i Hi He HDpos. cbv beta in He.
    destruct (H i Hi) as (_ & HZt & HZf).
    destruct (masked m i) eqn:Hmi.
    { exfalso. rewrite (Vs_masked i Hi Hmi) in He.
      destruct (Vm_cases m (sV st') i) as [E|E]; rewrite E in He; [lra|].
      destruct (Z i) eqn:HZ.
      - destruct (HZt eq_refl) as (_ & _ & _ & Hc & _). rewrite Qval_masked in Hc by auto.
        apply Rabs_le_inv' in Hc. lra.
      - destruct (HZf eq_refl) as (HV & _). rewrite HV in He. specialize (Hinv i Hi).
        rewrite (Vs_masked i Hi Hmi) in Hinv. lra. }
    rewrite Vm_unmasked in He by auto.
    destruct (Z i) eqn:HZ.
    2:{ destruct (HZf eq_refl) as (HV & _). rewrite HV in He. specialize (Hinv i Hi). lra. }
    destruct (HZt eq_refl) as (_ & _ & _ & _ & Hgr).
    pose proof (backup_some m Vs i Wf Hi) as Hb. unfold backup in Hb.
    destruct (maxf_attained _ _ _ _ Hb) as (a & Ha & Hav & Hq).
    specialize (Hgr a Ha Hav).
    set (W := Vm m (sV st')) in *.
    set (W2 := fun s => W s + (slack + D)).
    assert (H1 : Qval m Vs i a <= Qval m W2 i a).
    { apply Qval_mono; auto. intros ns Hns. unfold W2. specialize (Hpos ns Hns). cbv beta in Hpos. lra. }
    assert (H2 : Rabs (Qval m W2 i a - Qval m W i a) <= gamma m * (slack + D)).
    { apply Qval_diff; auto; [|lra]. intros ns Hns. unfold W2.
      replace (W ns + (slack + D) - W ns) with (slack + D) by lra. rewrite Rabs_right; lra. }
    apply Rabs_le_inv' in H2. rewrite <- (Hfix i Hi) in Hq.
    assert (Hs1 : slack * (1 - gamma m) = r).
    { unfold slack, Rdiv. rewrite Rmult_assoc, Rinv_l; lra. }
    nra. }
  intros s Hs. destruct (masked m s) eqn:Hms.
  - rewrite (Vs_masked s Hs Hms). destruct (H s Hs) as (_ & HZt & HZf). destruct (Z s) eqn:HZ.
    + destruct (HZt eq_refl) as (_ & _ & _ & Hc & _). rewrite Qval_masked in Hc by auto.
      apply Rabs_le_inv' in Hc. lra.
    + destruct (HZf eq_refl) as (HV & _). rewrite HV. specialize (Hinv s Hs).
      rewrite (Vs_masked s Hs Hms) in Hinv. exact Hinv.
  - specialize (Hm' s Hs). rewrite Vm_unmasked in Hm' by auto. lra.
Qed.

(* ---- runs ---- *)
Theorem run_cons st l :
  run_ok m (masktab m) r st l = true -> inv_cons st -> inv_cons (run_last st l).
Proof.
  revert st. induction l as [|k l IH]; intros st Hrun Hinv; [exact Hinv|].
  simpl in Hrun. apply andb_true_iff in Hrun as [H1 H2]. simpl.
  apply IH; auto. eapply step_cons; eauto.
Qed.

Theorem run_upper st l :
  run_ok m (masktab m) r st l = true -> inv_upper st -> inv_upper (run_last st l).
Proof.
  revert st. induction l as [|k l IH]; intros st Hrun Hinv; [exact Hinv|].
  simpl in Hrun. apply andb_true_iff in Hrun as [H1 H2]. simpl.
  apply IH; auto. eapply step_upper; eauto.
Qed.

End Machine.

(* ================================================================== *)
(* Part C: a conforming run + the structural clauses of the final result give optimality
   WITHOUT consulting the optimal values on the final result (only admissibility of h uses them) *)
(* ================================================================== *)
Section RunFinal.
Variable m : mdp R.
Variable o : @laoout R.
Variable t : @ltols R.
Variable Vstar : list R.
Variable h : nat -> R.
Variable l : list (@lstep R).

Definition st0 : @snap R := mkSnap (fun _ => false) h (fun _ => 0%nat).

Lemma admissibleb_spec :
  admissibleb m Vstar h = true -> forall s, (s < nS m)%nat -> untab Vstar s <= h s.
Proof.
  unfold admissibleb. rewrite forallbn_spec. intros H s Hs. apply nleb_Rle. apply H; auto.
Qed.

Lemma sync_ok_spec st :
  sync_ok m o st = true ->
  forall s, (s < nS m)%nat ->
    (lExp o s = true -> lV o s = sV st s) /\
    (lC o s = true -> sE st s = true /\ lPol o s = sPol st s).
Proof.
  unfold sync_ok. rewrite forallbn_spec. intros H s Hs. specialize (H s Hs).
  apply andb_true_iff in H as [H1 H2]. split.
  - intros He. rewrite He in H1. now apply neqb_Req.
  - intros Hc. rewrite Hc in H2. apply andb_true_iff in H2 as [H2 H3].
    split; [exact H2|now apply Nat.eqb_eq].
Qed.

Theorem run_final Vs Vpi :
  wfb m = true -> c_closed m (masktab m) o = true -> c_fix m (masktab m) Vstar = true ->
  admissibleb m Vstar h = true -> run_ok m (masktab m) (rho t) st0 l = true ->
  sync_ok m o (run_last st0 l) = true -> 0 <= rho t -> gamma m < 1 ->
  fixpoint m Vs -> poleval m (lC o) (lPol o) Vpi ->
  (forall s, (s < nS m)%nat -> lExp o s = true -> Vs s - rho t / (1 - gamma m) <= lV o s) /\
  (forall s, (s < nS m)%nat -> lC o s = true ->
     Vs s - rho t / (1 - gamma m) <= lV o s <= Vs s + rho t / (1 - gamma m) /\
     Vs s - (rho t / (1 - gamma m) + rho t / (1 - gamma m)) <= Vpi s <= Vs s /\
     Rabs (lV o s - Vpi s) <= rho t / (1 - gamma m)).
Proof.
  intros Hwf Hcl Hfix Hadm Hrun Hsync Hr G1 HVs Hpe.
  pose proof (wfb_wf m Hwf) as Wf.
  destruct (c_closed_spec m o Hcl) as (HC & Hini & Hexp).
  set (last := run_last st0 l) in *.
  assert (EV : forall s, (s < nS m)%nat -> Vs s = untab Vstar s).
  { intros s Hs. apply (fixpoint_unique m Vs (untab Vstar) Wf G1 HVs (fixbT_fixpoint m Vstar Hfix) s Hs). }
  assert (Hup : inv_upper m (rho t) Vs last).
  { apply run_upper; auto. intros s Hs. simpl.
    pose proof (admissibleb_spec Hadm s Hs) as Ha. rewrite <- (EV s Hs) in Ha.
    pose proof (slack_ge m Wf (rho t) Hr G1). lra. }
  assert (Hco : inv_cons m (rho t) last).
  { apply run_cons; auto. intros s Hs He. simpl in He. discriminate. }
  pose proof (sync_ok_spec last Hsync) as Hsy.
  assert (Hupx : forall s, (s < nS m)%nat -> lExp o s = true -> Vs s - rho t / (1 - gamma m) <= lV o s).
  { intros s Hs He. destruct (Hsy s Hs) as (H1 & _). rewrite (H1 He).
    specialize (Hup s Hs). unfold slack in Hup. lra. }
  split; [exact Hupx|].
  assert (Hcons : consistent m (lC o) (lPol o) (rho t) (lV o)).
  { intros s Hs Hc. destruct (Hsy s Hs) as (H1 & H2). destruct (H2 Hc) as (HE & Hp).
    destruct (Hco s Hs HE) as (_ & _ & Hres).
    rewrite (H1 (Hexp s Hs Hc)). rewrite Qval_psum.
    rewrite (psum_ext_C m Wf (lC o) (lPol o) s (Vm m (lV o)) (Vm m (sV last)) HC Hs Hc).
    - rewrite <- Qval_psum. rewrite Hp. exact Hres.
    - intros ns Hns Hcn. destruct (Hsy ns Hns) as (H1n & _). unfold Vm.
      now rewrite (H1n (Hexp ns Hns Hcn)). }
  intros s Hs Hc.
  pose proof (lao_final_core m Wf (lC o) (lPol o) Vs (lV o) Vpi
                (fun _ => 1 / (1 - gamma m)) (rho t) (rho t / (1 - gamma m)) HC
                (const_cert m Wf (lC o) (lPol o) HC G1) HVs Hpe Hr Hcons) as H.
  assert (Hup' : forall s, (s < nS m)%nat -> lC o s = true -> Vs s - rho t / (1 - gamma m) <= lV o s)
    by (intros s' Hs' Hc'; apply Hupx; auto).
  specialize (H Hup' s Hs Hc). cbv beta in H.
  assert (E : rho t * (1 / (1 - gamma m)) = rho t / (1 - gamma m)) by (unfold Rdiv; lra).
  rewrite E in H. exact H.
Qed.

End RunFinal.

(* ================================================================== *)
(* Part D: update_ancestors_of computes the valid-parent closure, whatever the iteration order
   of the parent sets (discrete; no number type involved)                                       *)
(* ================================================================== *)
Section AncestorsTheory.
Variable vp : nat -> nat -> bool.
Variable parents : nat -> nat -> Prop.       (* parents n p : p is in n.parent_states *)

(* the specification: least set containing x and closed under valid parents *)
Inductive anc (x : nat) : nat -> Prop :=
| anc_root : anc x x
| anc_step n p : anc x n -> parents n p -> vp p n = true -> anc x p.

Lemma memn_In x l : memn x l = true <-> In x l.
Proof.
  unfold memn. rewrite existsb_exists. split.
  - intros (y & Hy & E). apply Nat.eqb_eq in E. now subst.
  - intros H. exists x. split; [auto|apply Nat.eqb_refl].
Qed.

Section Order.
Variable pord : nat -> list nat.
Hypothesis pord_spec : forall n p, In p (pord n) <-> parents n p.

(* invariant of the loop *)
Definition anc_inv (x : nat) (fr A : list nat) : Prop :=
  (In x A \/ In x fr) /\
  (forall s, In s A \/ In s fr -> anc x s) /\
  (forall n p, In n A -> parents n p -> vp p n = true -> In p A \/ In p fr).

Lemma anc_loop_inv x fuel : forall fr A A',
  anc_inv x fr A -> anc_loop pord vp fuel fr A = Some A' -> anc_inv x [] A'.
Proof.
  induction fuel as [|f IH]; intros fr A A' Hinv Hrun.
  - destruct fr; simpl in Hrun; [|discriminate]. now inversion Hrun; subst.
  - destruct fr as [|n fr']; simpl in Hrun; [now inversion Hrun; subst|].
    apply IH in Hrun; [exact Hrun|]. clear IH Hrun.
    destruct Hinv as (Hroot & Hsound & Hclosed).
    set (A1 := if memn n A then A else n :: A) in *.
    assert (HA1 : forall s, In s A1 <-> s = n \/ In s A).
    { intros s. unfold A1. destruct (memn n A) eqn:E.
      - apply memn_In in E. split; [auto|]. intros [->|H]; auto.
      - simpl. split; intros [H|H]; auto. }
    set (new := filter (fun p => negb (memn p A1) && vp p n) (pord n)).
    assert (Hnew : forall p, In p (rev new) <-> parents n p /\ vp p n = true /\ ~ In p A1).
    { intros p. rewrite <- in_rev. unfold new. rewrite filter_In, pord_spec, andb_true_iff, negb_true_iff.
      split.
      - intros (H1 & H2 & H3). repeat split; auto. intros Hin. apply memn_In in Hin. congruence.
      - intros (H1 & H2 & H3). repeat split; auto. destruct (memn p A1) eqn:E; [|reflexivity].
        apply memn_In in E. contradiction. }
    assert (Hn : anc x n) by (apply Hsound; right; left; reflexivity).
    split; [|split].
    + destruct Hroot as [H|[H|H]].
      * left. apply HA1. auto.
      * left. apply HA1. auto.
      * right. apply in_or_app. auto.
    + intros s [H|H].
      * apply HA1 in H as [->|H]; [exact Hn|apply Hsound; auto].
      * apply in_app_or in H as [H|H].
        -- apply Hnew in H as (H1 & H2 & _). eapply anc_step; eauto.
        -- apply Hsound. right. right. exact H.
    + intros k p Hk Hpar Hv. apply HA1 in Hk as [->|Hk].
      * destruct (in_dec Nat.eq_dec p A1) as [Hin|Hnin]; [left; exact Hin|].
        right. apply in_or_app. left. apply Hnew. auto.
      * destruct (Hclosed k p Hk Hpar Hv) as [H|[H|H]].
        -- left. apply HA1. auto.
        -- left. apply HA1. auto.
        -- right. apply in_or_app. auto.
Qed.

(* the collected set is exactly the valid-parent closure of x *)
Theorem ancestors_closure fuel x A :
  ancestors_of pord vp fuel x = Some A -> forall s, In s A <-> anc x s.
Proof.
  intros H. assert (Hinv : anc_inv x [] A).
  { apply (anc_loop_inv x fuel [x] [] A); [|exact H].
    split; [right; left; reflexivity|]. split.
    - intros s [[]|[<-|[]]]. constructor.
    - intros n p []. }
  destruct Hinv as (Hroot & Hsound & Hclosed). intros s. split.
  - intros Hs. apply Hsound. auto.
  - induction 1 as [|n p Hn IH Hp Hv].
    + destruct Hroot as [H0|[]]. exact H0.
    + destruct (Hclosed n p IH Hp Hv) as [H0|[]]. exact H0.
Qed.
End Order.

(* two iteration orders of the same parent sets collect the same set *)
Theorem ancestors_order_indep pord1 pord2 fuel1 fuel2 x A1 A2 :
  (forall n p, In p (pord1 n) <-> parents n p) ->
  (forall n p, In p (pord2 n) <-> parents n p) ->
  ancestors_of pord1 vp fuel1 x = Some A1 -> ancestors_of pord2 vp fuel2 x = Some A2 ->
  forall s, In s A1 <-> In s A2.
Proof.
  intros H1 H2 R1 R2 s.
  rewrite (ancestors_closure pord1 H1 fuel1 x A1 R1 s), (ancestors_closure pord2 H2 fuel2 x A2 R2 s).
  reflexivity.
Qed.

End AncestorsTheory.

(* the set update_ancestors_of collects satisfies the closure part of the machine's guard *)
Lemma ancestors_guard (m : mdp R) (E : nat -> bool) (pol : nat -> nat)
      (vp : nat -> nat -> bool) (parents : nat -> nat -> Prop) (x : nat) (Z : nat -> bool) :
  (forall s ns, (s < nS m)%nat -> (ns < nS m)%nat -> E s = true -> 0 < Pm m s (pol s) ns ->
                parents ns s /\ vp s ns = true) ->
  (forall s, Z s = true <-> anc vp parents x s) ->
  forall s, (s < nS m)%nat -> E s = true -> Z s = false ->
  forall ns, (ns < nS m)%nat -> 0 < Pm m s (pol s) ns -> Z ns = false.
Proof.
  intros H HZ s Hs HE HZs ns Hns Hp. destruct (Z ns) eqn:E1; [|reflexivity]. exfalso.
  apply HZ in E1. destruct (H s ns Hs Hns HE Hp) as (Hpar & Hv).
  assert (Ha : anc vp parents x s) by (eapply anc_step; eauto).
  apply HZ in Ha. congruence.
Qed.
