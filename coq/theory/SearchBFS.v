(* SearchBFS.v — C05: the mirror of BreadthFirstSearch.plan_on returns a real path with the
   least number of steps (any action order), falls through to "no plan" only when no
   goal is reachable, and never exhausts its fuel. *)
From Coq Require Import List Arith ZArith Bool Lia.
From MSDM Require Import model.Search theory.SearchTheory theory.SearchInv.
Import ListNotations.
Local Open Scope Z_scope.

Fixpoint sortedq (q : list (nat * Z)) : Prop :=
  match q with
  | [] => True
  | x :: q' => (forall y, In y q' -> snd x <= snd y) /\ sortedq q'
  end.

Lemma sortedq_snoc q x : sortedq q -> (forall y, In y q -> snd y <= snd x) -> sortedq (q ++ [x]).
Proof.
  induction q as [|a q IH]; simpl; intros S H.
  - split; auto. intros y [].
  - destruct S as [S1 S2]. split.
    + intros y Hy. apply in_app_or in Hy. destruct Hy as [Hy | [<- | []]]; auto.
    + apply IH; auto.
Qed.

Lemma NoDup_snoc {A} (l : list A) x : NoDup l -> ~ In x l -> NoDup (l ++ [x]).
Proof.
  induction l as [|a l IH]; simpl; intros N H.
  - constructor; auto.
  - inversion N; subst. constructor.
    + intros Hin. apply in_app_or in Hin. destruct Hin as [Hin | [E | []]]; auto.
    + apply IH; auto.
Qed.

Section BFS.
Variable g : graph.
Variable start : nat.
Variable ord : nat -> list edge -> list edge.
Hypothesis Hwf : wf_graph g.
Hypothesis Hstart : (start < g_n g)%nat.
Hypothesis Hord : forall k l e, In e (ord k l) <-> In e l.

Definition w1 : edge -> Z := fun _ => 1.

Lemma wcost_len p : wcost w1 p = Z.of_nat (length p).
Proof.
  induction p as [|e p IH]; [reflexivity|].
  change (wcost w1 (e :: p)) with (1 + wcost w1 p). rewrite IH.
  change (length (e :: p)) with (S (length p)). lia.
Qed.

Definition OpB (st : bstate) (t : nat) (gt : Z) : Prop := In (t, gt) (b_queue st).

Record binv (st : bstate) (ps : nat) (pend : list edge) (lo : Z) : Prop := {
  b_s : sinv g start w1 (b_came st) (b_visited st) (OpB st) ps pend;
  b_sorted : sortedq (b_queue st);
  b_band : forall y dy, In (y, dy) (b_queue st) -> lo <= dy <= lo + 1;
  b_nd : NoDup (map fst (b_queue st));
  b_vg : forall x gx, In (x, gx) (b_visited st) -> g_goal g x = false
}.

Lemma binv_init : binv (bfs_init start) start [] 0.
Proof.
  unfold bfs_init. constructor; simpl.
  - constructor; simpl.
    + constructor.
    + intros t gt [E | []]. inversion E; subst. auto.
    + intros t gt _ [].
    + left. split; auto. now left.
    + intros x gx e [].
    + intros x gx p [].
  - split; auto. intros y [].
  - intros y dy [E | []]. inversion E; subst. lia.
  - constructor; [intros [] | constructor].
  - intros x gx [].
Qed.

Lemma bfs_push_visited s d st e : b_visited (bfs_push s d st e) = b_visited st.
Proof. unfold bfs_push. destruct (_ || _); reflexivity. Qed.

Lemma bfs_push_inv s ds st e pend :
  binv st s (e :: pend) ds -> In (s, ds) (b_visited st) -> In e (g_succ g s) ->
  binv (bfs_push s ds st e) s pend ds.
Proof.
  intros I Hs He. unfold bfs_push.
  destruct (memn (e_dst e) (map fst (b_visited st))) eqn:Mv; simpl.
  { apply memn_In in Mv. constructor; try apply I.
    eapply sinv_discharge; eauto. apply I. }
  destruct (memn (e_dst e) (map fst (b_queue st))) eqn:Mq.
  { apply memn_In in Mq. apply in_map_iff in Mq. destruct Mq as [[y dy] [Ey Hy]]. simpl in Ey. subst y.
    constructor; try apply I.
    eapply sinv_discharge; eauto. apply I. right. exists dy. split; auto.
    pose proof (b_band _ _ _ _ I _ _ Hy). unfold w1. lia. }
  apply memn_false in Mv. apply memn_false in Mq.
  assert (Hnq : forall gy, ~ In (e_dst e, gy) (b_queue st)).
  { intros gy Hin. apply Mq. eapply in_map_fst; eauto. }
  constructor; simpl.
  - apply sinv_push with (Op := OpB st) (gs := ds); auto.
    + apply I.
    + intros gy Hy. exfalso. eapply Hnq; eauto.
    + unfold OpB. simpl. apply in_or_app. right. now left.
    + unfold OpB. simpl. intros gt Hin. apply in_app_or in Hin. destruct Hin as [Hin | [E | []]].
      * exfalso. eapply Hnq; eauto.
      * inversion E. reflexivity.
    + unfold OpB. simpl. intros y gy Hy. split.
      * intros Hin. apply in_app_or in Hin. destruct Hin as [Hin | [E | []]]; auto. inversion E. congruence.
      * intros Hin. apply in_or_app. now left.
  - apply sortedq_snoc; [apply I|]. intros [y dy] Hy. simpl.
    pose proof (b_band _ _ _ _ I _ _ Hy). lia.
  - intros y dy Hin. apply in_app_or in Hin. destruct Hin as [Hin | [E | []]].
    + eapply b_band; eauto.
    + inversion E; subst. lia.
  - rewrite map_app. simpl. apply NoDup_snoc; auto. apply I.
  - apply I.
Qed.

Lemma bfs_expand_inv s ds es : forall st,
  binv st s es ds -> In (s, ds) (b_visited st) -> (forall e, In e es -> In e (g_succ g s)) ->
  binv (bfs_expand s ds st es) s [] ds.
Proof.
  induction es as [|e es IH]; intros st I Hs Hes; simpl; auto.
  apply IH.
  - apply bfs_push_inv; auto. apply Hes. now left.
  - now rewrite bfs_push_visited.
  - intros e' He'. apply Hes. now right.
Qed.

Lemma bfs_expand_visited s ds es : forall st, b_visited (bfs_expand s ds st es) = b_visited st.
Proof. induction es as [|e es IH]; intros st; simpl; auto. now rewrite IH, bfs_push_visited. Qed.

Definition bfs_result_ok (r : sresult) : Prop :=
  match r with
  | Found path acts v _ => valid_bfs_plan g start (Some (path, acts)) /\ v = Z.of_nat (length acts)
  | NoPlan _ => valid_bfs_plan g start None
  | Broken => False
  | OutOfFuel => True
  end.

(* fuel: every iteration that continues closes a new state *)
Definition unvisited (Vs l : list nat) : nat := length (filter (fun x => negb (memn x Vs)) l).
Definition bmu (st : bstate) : nat := unvisited (map fst (b_visited st)) (seq 0 (g_n g)).

Lemma unvisited_cons Vs x l :
  unvisited Vs (x :: l) = if memn x Vs then unvisited Vs l else S (unvisited Vs l).
Proof. unfold unvisited. simpl. destruct (memn x Vs); reflexivity. Qed.

Lemma unvisited_le Vs l : (unvisited Vs l <= length l)%nat.
Proof.
  induction l as [|x l IH]; [unfold unvisited; simpl; lia|].
  rewrite unvisited_cons. simpl length. destruct (memn x Vs); lia.
Qed.

Lemma unvisited_close Vs s : ~ In s Vs -> forall l, NoDup l ->
  (In s l -> S (unvisited (s :: Vs) l) = unvisited Vs l) /\
  (~ In s l -> unvisited (s :: Vs) l = unvisited Vs l).
Proof.
  intros Hs. induction l as [|x l IH]; intros N.
  - split; [intros [] | reflexivity].
  - inversion N as [|? ? Hx N']; subst. destruct (IH N') as [IH1 IH2].
    rewrite !unvisited_cons. change (memn x (s :: Vs)) with ((x =? s)%nat || memn x Vs).
    destruct (Nat.eq_dec x s) as [E | Hn].
    + subst x. rewrite Nat.eqb_refl. simpl. apply memn_false in Hs. rewrite Hs. split.
      * intros _. rewrite IH2 by auto. reflexivity.
      * intros H. exfalso. apply H. now left.
    + apply Nat.eqb_neq in Hn. rewrite Hn. simpl. apply Nat.eqb_neq in Hn. split.
      * intros [E | Hin]; [congruence|]. specialize (IH1 Hin). destruct (memn x Vs); lia.
      * intros H. assert (Hnl : ~ In s l) by (intros Hin; apply H; now right).
        specialize (IH2 Hnl). destruct (memn x Vs); lia.
Qed.

Lemma bfs_loop_ok : forall fuel st ps lo, binv st ps [] lo ->
  bfs_result_ok (bfs_loop g start ord fuel st) /\
  ((bmu st < fuel)%nat -> bfs_loop g start ord fuel st <> OutOfFuel).
Proof.
  induction fuel as [|fuel IH]; intros st ps lo I; [split; [exact Logic.I | intros H; lia]|].
  cbn [bfs_loop].
  destruct (b_queue st) as [|[s ds] q] eqn:Q.
  { split; [|discriminate]. simpl. intros p u W. destruct (g_goal g u) eqn:G; auto. exfalso.
    assert (Hu : ~ In u (map fst (b_visited st))).
    { intros Hin. apply in_map_iff in Hin. destruct Hin as [[x gx] [E Hx]]. simpl in E. subst x.
      rewrite (b_vg _ _ _ _ I _ _ Hx) in G. discriminate. }
    destruct (frontier _ _ _ _ _ _ _ (b_s _ _ _ _ I) _ _ W Hu) as [p1 [p2 [y [gy [_ [_ [_ [O _]]]]]]]].
    unfold OpB in O. rewrite Q in O. contradiction. }
  assert (Ops : OpB st s ds) by (unfold OpB; rewrite Q; now left).
  assert (Mv : ~ In s (map fst (b_visited st))) by (eapply s_opv; [apply (b_s _ _ _ _ I) | exact Ops]).
  assert (Hs : (s < g_n g)%nat).
  { destruct (s_opr _ _ _ _ _ _ _ _ (b_s _ _ _ _ I) _ _ Ops) as [[_ [E _]] | [x [a [gx [e [_ [Hx [He [_ [Ed _]]]]]]]]]].
    - now rewrite E.
    - destruct (closed_realised _ _ _ _ _ _ _ _ _ _ (b_s _ _ _ _ I) Hx) as [p [W _]].
      rewrite <- Ed. apply (Hwf x); auto. apply (walk_wf _ _ _ _ Hwf Hstart W). }
  pose proof (b_sorted _ _ _ _ I) as Sq. rewrite Q in Sq. destruct Sq as [Sq1 Sq2].
  assert (Hbound : forall p u, walk g start p u -> ~ In u (map fst (b_visited st)) ->
                               ds <= Z.of_nat (length p)).
  { intros p u W Hu.
    destruct (frontier _ _ _ _ _ _ _ (b_s _ _ _ _ I) _ _ W Hu) as [p1 [p2 [y [gy [E [_ [_ [O B]]]]]]]].
    unfold OpB in O. rewrite Q in O. rewrite wcost_len in B. subst p. rewrite app_length.
    assert (ds <= gy).
    { destruct O as [E | Hin]; [inversion E; lia | apply (Sq1 _ Hin)]. }
    lia. }
  destruct (g_goal g s) eqn:G.
  { (* goal at the head of the queue *)
    assert (Hmin : forall p' u', walk g start p' u' -> g_goal g u' = true -> ds <= Z.of_nat (length p')).
    { intros p' u' W' G'. apply (Hbound _ _ W').
      intros Hin. apply in_map_iff in Hin. destruct Hin as [[x gx] [E Hx]]. simpl in E. subst x.
      rewrite (b_vg _ _ _ _ I _ _ Hx) in G'. discriminate. }
    destruct (s_opr _ _ _ _ _ _ _ _ (b_s _ _ _ _ I) _ _ Ops) as [[Ev [Es Eg]] | L].
    - rewrite Ev, Es. simpl. rewrite Nat.eqb_refl. simpl. rewrite Es in G.
      split; [|discriminate]. split; [|now subst ds].
      exists [], start. split; [constructor|]. split; [exact G|]. split; [reflexivity|].
      split; [reflexivity|]. intros p' u' _ _. simpl. lia.
    - destruct (recon_open _ _ _ _ _ _ _ (s_ch _ _ _ _ _ _ _ _ (b_s _ _ _ _ I)) L) as [p [R [W Cst]]].
      rewrite R. split; [|discriminate]. simpl. rewrite wcost_len in Cst. split.
      + exists p, s. repeat split; auto. intros p' u' W' G'. specialize (Hmin _ _ W' G'). lia.
      + rewrite map_length. lia. }
  (* expansion *)
  set (st1 := mkB q ((s, ds) :: b_visited st) (b_came st)).
  set (es := ord (length (b_visited st)) (g_succ g s)).
  assert (I2 : binv (bfs_expand s ds st1 es) s [] ds).
  { apply bfs_expand_inv.
    - pose proof (b_nd _ _ _ _ I) as N. rewrite Q in N. simpl in N. inversion N as [|? ? Hnq Nq]; subst.
      constructor; simpl.
      + apply sinv_close with (Op := OpB st) (ps := ps); auto.
        * apply I.
        * intros p W. rewrite wcost_len. apply (Hbound _ _ W Mv).
        * intros t gt. unfold OpB. simpl. rewrite Q. split.
          -- intros Hin. split; [now right|]. intros E. subst t. apply Hnq. eapply in_map_fst; eauto.
          -- intros [[E | Hin] Hn]; auto. inversion E. congruence.
        * intros e He. apply Hord. exact He.
      + exact Sq2.
      + intros y dy Hin. pose proof (b_band _ _ _ _ I) as Bd. rewrite Q in Bd.
        pose proof (Bd s ds (or_introl eq_refl)). pose proof (Bd y dy (or_intror Hin)).
        pose proof (Sq1 _ Hin). simpl in *. lia.
      + exact Nq.
      + intros x gx [E | Hx]; [inversion E; subst; auto | eapply b_vg; eauto].
    - simpl. now left.
    - intros e He. apply Hord in He. exact He. }
  destruct (IH _ _ _ I2) as [IH1 IH2]. split; auto.
  intros Hmu. apply IH2. unfold bmu in *. rewrite bfs_expand_visited. simpl.
  destruct (unvisited_close (map fst (b_visited st)) s Mv (seq 0 (g_n g)) (seq_NoDup _ _)) as [Hu _].
  specialize (Hu ltac:(apply in_seq; lia)). lia.
Qed.

(* bfs_sound + bfs_shortest + bfs_complete in one statement *)
Theorem bfs_correct : bfs_result_ok (bfs g start ord) /\ bfs g start ord <> OutOfFuel.
Proof.
  unfold bfs. destruct (bfs_loop_ok (S (S (g_n g))) _ start 0 binv_init) as [H1 H2]. split; auto.
  apply H2. unfold bmu, bfs_init. simpl.
  pose proof (unvisited_le [] (seq 0 (g_n g))) as H. rewrite seq_length in H. lia.
Qed.

End BFS.

(* ---- closed statements ---- *)
Definition ord_perm (ord : nat -> list edge -> list edge) : Prop :=
  forall k l e, In e (ord k l) <-> In e l.

Definition no_goal_reachable (g : graph) (start : nat) : Prop :=
  forall p u, walk g start p u -> g_goal g u = false.

Theorem bfs_total g start ord :
  wf_graph g -> (start < g_n g)%nat -> ord_perm ord ->
  match bfs g start ord with
  | Found path acts v _ => valid_bfs_plan g start (Some (path, acts)) /\ v = Z.of_nat (length acts)
  | NoPlan _ => no_goal_reachable g start
  | Broken | OutOfFuel => False
  end.
Proof.
  intros Hwf Hs Ho. destruct (bfs_correct g start ord Hwf Hs Ho) as [H1 H2].
  destruct (bfs g start ord); simpl in *; auto.
Qed.

(* sound + shortest: a returned path is a real path to a goal with the fewest possible steps *)
Theorem bfs_sound_shortest g start ord path acts v vis :
  wf_graph g -> (start < g_n g)%nat -> ord_perm ord ->
  bfs g start ord = Found path acts v vis ->
  exists p u, walk g start p u /\ g_goal g u = true /\ verts start p = path /\ map e_act p = acts /\
              (forall p' u', walk g start p' u' -> g_goal g u' = true -> (length p <= length p')%nat).
Proof.
  intros Hwf Hs Ho E. pose proof (bfs_total g start ord Hwf Hs Ho) as H. rewrite E in H.
  destruct H as [H _]. exact H.
Qed.

(* complete: "no plan" exactly when no goal is reachable (the fuel is part of the statement) *)
Theorem bfs_complete g start ord :
  wf_graph g -> (start < g_n g)%nat -> ord_perm ord ->
  ((exists vis, bfs g start ord = NoPlan vis) <-> no_goal_reachable g start).
Proof.
  intros Hwf Hs Ho. pose proof (bfs_total g start ord Hwf Hs Ho) as H. split.
  - intros [vis E]. rewrite E in H. exact H.
  - intros Hn. destruct (bfs g start ord) as [| |vis|path acts v vis]; try contradiction.
    + eauto.
    + destruct H as [[p [u [W [G _]]]] _]. rewrite (Hn _ _ W) in G. discriminate.
Qed.

Theorem bfs_complete_total g start ord :
  wf_graph g -> (start < g_n g)%nat -> ord_perm ord ->
  ((exists vis, bfs g start ord = NoPlan vis) <-> no_goal_reachable g start) /\
  bfs g start ord <> OutOfFuel /\ bfs g start ord <> Broken.
Proof.
  intros Hwf Hs Ho. split; [apply bfs_complete; auto|].
  pose proof (bfs_total g start ord Hwf Hs Ho) as H.
  destruct (bfs g start ord); split; try discriminate; contradiction.
Qed.

(* non-vacuity: the hypotheses hold on the example graph, and the loop does return the 2-step path there *)
Example bfs_example :
  wf_graph ex_graph /\ (0 < g_n ex_graph)%nat /\ ord_perm (fun _ l => l) /\
  bfs ex_graph 0 (fun _ l => l) = Found [0; 2; 3]%nat [1; 0]%nat 2 [2; 1; 0]%nat.
Proof.
  split; [apply wf_graphb_sound; reflexivity|]. split; [simpl; lia|]. split; [intros k l e; tauto | reflexivity].
Qed.
