(* theory/DomainsClosure.v — reachability-defined state lists of the GridMDP domains (windy grid world, cliff walking).

   msdm: MarkovDecisionProcess.reachable_states (core/mdp/mdp.py) starts from the support of the initial
   distribution, expands every initial state, and expands any other state only when it is not absorbing;
   TabularMarkovDecisionProcess.state_list is the sorted result.

   Here:  [reach_list] is an EXECUTABLE iterated closure (the function vm_compute runs in the harness, where its
   result is compared as a set with msdm's state_list), [lreach] is the inductive definition of the same set, and
     reach_list_spec    : In s reach_list <-> lreach s            (for any fuel-free bound: fuel = |universe| + 1)
     reach_list_closed  : successors of EXPANDABLE (= non-absorbing or initial) listed states are listed
   instantiated for the mirror models of model/Domains.v:  windy_states / cliff_states. *)
From Coq Require Import ZArith QArith List Bool Lia Arith.
From MSDM Require Import model.GridWorld model.Domains theory.DomainsTheory.
Import ListNotations.

(* ------------------------------------------------------------------------------------------ *)
(* generic iterated closure                                                                      *)
(* ------------------------------------------------------------------------------------------ *)
Section Closure.
  Context {St : Type}.
  Variable eqb : St -> St -> bool.
  Hypothesis eqb_eq : forall a b, eqb a b = true <-> a = b.
  Variable succs : St -> list St.          (* all positive-probability successors over all actions *)
  Variable expandable : St -> bool.        (* not absorbing, or initial *)
  Variable init : list St.                 (* support of the initial distribution *)
  Variable U : list St.                    (* a finite universe closed under succs (the grid cells) *)
  Hypothesis U_init : incl init U.
  Hypothesis U_succ : forall s, In s U -> incl (succs s) U.

  Definition mem (x : St) (l : list St) : bool := existsb (eqb x) l.
  Definition add1 (acc : list St) (x : St) : list St := if mem x acc then acc else acc ++ [x].
  Definition add_all (V xs : list St) : list St := fold_left add1 xs V.
  Definition new_of (V : list St) : list St := flat_map succs (filter expandable V).
  Definition cstep (V : list St) : list St := add_all V (new_of V).
  Fixpoint close (fuel : nat) (V : list St) : list St :=
    match fuel with
    | O => V
    | S k => let V' := cstep V in if Nat.eqb (length V') (length V) then V else close k V'
    end.
  Definition reach_list : list St := close (S (length U)) (add_all [] init).

  Inductive lreach : St -> Prop :=
  | lreach_init : forall s, In s init -> lreach s
  | lreach_step : forall s ns, lreach s -> expandable s = true -> In ns (succs s) -> lreach ns.

  Lemma mem_In (x : St) (l : list St) : mem x l = true <-> In x l.
  Proof.
    unfold mem. rewrite existsb_exists. split.
    - intros [y [Hy He]]. apply eqb_eq in He. subst; auto.
    - intros H. exists x. split; auto. apply eqb_eq; reflexivity.
  Qed.

  (* ---- add1 ---- *)
  Lemma add1_incl acc x : incl acc (add1 acc x).
  Proof. unfold add1. destruct (mem x acc); intros y Hy; auto. apply in_or_app; auto. Qed.
  Lemma add1_in acc x : In x (add1 acc x).
  Proof.
    unfold add1. destruct (mem x acc) eqn:E; [apply mem_In; auto|]. apply in_or_app; right; left; auto.
  Qed.
  Lemma add1_inv acc x y : In y (add1 acc x) -> In y acc \/ y = x.
  Proof.
    unfold add1. destruct (mem x acc); auto. intros H. apply in_app_or in H.
    destruct H as [H|[H|[]]]; auto.
  Qed.
  Lemma add1_nodup acc x : NoDup acc -> NoDup (add1 acc x).
  Proof.
    unfold add1. destruct (mem x acc) eqn:E; auto. intros H.
    assert (Hn : ~ In x acc) by (intros Hi; apply mem_In in Hi; congruence).
    clear E. induction acc as [|a t IH]; simpl.
    - constructor; [intros []|constructor].
    - inversion H as [|? ? Ha Ht]; subst. constructor.
      + intros Hi. apply in_app_or in Hi. destruct Hi as [Hi|[Hi|[]]]; auto. subst. apply Hn; left; auto.
      + apply IH; auto. intros Hi; apply Hn; right; auto.
  Qed.
  Lemma add1_len acc x : (length acc <= length (add1 acc x))%nat.
  Proof. unfold add1. destruct (mem x acc); auto. rewrite app_length; simpl; lia. Qed.
  Lemma add1_len_eq acc x : length (add1 acc x) = length acc -> add1 acc x = acc /\ In x acc.
  Proof.
    unfold add1. destruct (mem x acc) eqn:E.
    - intros _. split; auto. apply mem_In; auto.
    - rewrite app_length; simpl; lia.
  Qed.

  (* ---- add_all ---- *)
  Lemma add_all_incl xs : forall V, incl V (add_all V xs).
  Proof.
    induction xs as [|x t IH]; intros V; simpl; [apply incl_refl|].
    eapply incl_tran; [apply add1_incl | apply IH].
  Qed.
  Lemma add_all_in xs : forall V x, In x xs -> In x (add_all V xs).
  Proof.
    induction xs as [|y t IH]; intros V x Hx; simpl; [contradiction|].
    destruct Hx as [->|Hx]; [apply add_all_incl, add1_in | apply IH; auto].
  Qed.
  Lemma add_all_inv xs : forall V y, In y (add_all V xs) -> In y V \/ In y xs.
  Proof.
    induction xs as [|x t IH]; intros V y Hy; simpl in *; auto.
    apply IH in Hy. destruct Hy as [Hy|Hy]; auto.
    apply add1_inv in Hy. destruct Hy as [Hy| ->]; auto.
  Qed.
  Lemma add_all_nodup xs : forall V, NoDup V -> NoDup (add_all V xs).
  Proof. induction xs as [|x t IH]; intros V H; simpl; auto. apply IH, add1_nodup; auto. Qed.
  Lemma add_all_len xs : forall V, (length V <= length (add_all V xs))%nat.
  Proof.
    induction xs as [|x t IH]; intros V; simpl; auto.
    eapply Nat.le_trans; [apply add1_len | apply IH].
  Qed.
  Lemma add_all_len_eq xs : forall V, length (add_all V xs) = length V -> incl xs V.
  Proof.
    induction xs as [|x t IH]; intros V H; simpl in *; [intros y []|].
    pose proof (add1_len V x) as H1. pose proof (add_all_len t (add1 V x)) as H2.
    assert (E : length (add1 V x) = length V) by lia.
    apply add1_len_eq in E. destruct E as [E Hx]. rewrite E in H.
    intros y [->|Hy]; auto. apply (IH V H); auto.
  Qed.

  (* ---- close ---- *)
  Lemma close_preserves (P : list St -> Prop) :
    (forall V, P V -> P (cstep V)) -> forall n V, P V -> P (close n V).
  Proof.
    intros HP. induction n as [|k IH]; intros V HV; simpl; auto.
    destruct (Nat.eqb (length (cstep V)) (length V)); auto.
  Qed.

  Lemma close_stable_or_grown : forall n V,
    length (cstep (close n V)) = length (close n V) \/ (length V + n <= length (close n V))%nat.
  Proof.
    induction n as [|k IH]; intros V; simpl.
    - right; lia.
    - destruct (Nat.eqb (length (cstep V)) (length V)) eqn:E.
      + left. apply Nat.eqb_eq; auto.
      + apply Nat.eqb_neq in E. pose proof (add_all_len (new_of V) V) as Hl. fold (cstep V) in Hl.
        destruct (IH (cstep V)) as [H|H]; auto. right; lia.
  Qed.

  Lemma cstep_inv V y : In y (cstep V) -> In y V \/ exists s, In s V /\ expandable s = true /\ In y (succs s).
  Proof.
    intros H. apply add_all_inv in H. destruct H as [H|H]; auto. right.
    unfold new_of in H. apply in_flat_map in H. destruct H as [s [Hs Hy]].
    apply filter_In in Hs. destruct Hs as [Hs He]. exists s; auto.
  Qed.

  Lemma reach_list_nodup : NoDup reach_list.
  Proof.
    unfold reach_list. apply (close_preserves (@NoDup St)).
    - intros V HV. apply add_all_nodup; auto.
    - apply add_all_nodup. constructor.
  Qed.

  Lemma reach_list_in_U : incl reach_list U.
  Proof.
    unfold reach_list. apply (close_preserves (fun V => incl V U)).
    - intros V HV y Hy. apply cstep_inv in Hy. destruct Hy as [Hy|[s [Hs [_ Hy]]]]; auto.
      apply (U_succ s); auto.
    - intros y Hy. apply add_all_inv in Hy. destruct Hy as [[]|Hy]. auto.
  Qed.

  Lemma reach_list_init : incl init reach_list.
  Proof.
    unfold reach_list. apply (close_preserves (fun V => incl init V)).
    - intros V HV. eapply incl_tran; [exact HV | apply add_all_incl].
    - intros y Hy. apply add_all_in; auto.
  Qed.

  Lemma reach_list_sound : forall s, In s reach_list -> lreach s.
  Proof.
    unfold reach_list. apply (close_preserves (fun V => forall s, In s V -> lreach s)).
    - intros V HV y Hy. apply cstep_inv in Hy. destruct Hy as [Hy|[s [Hs [He Hy]]]]; auto.
      apply (lreach_step s); auto.
    - intros y Hy. apply add_all_inv in Hy. destruct Hy as [[]|Hy]. apply lreach_init; auto.
  Qed.

  (* the iteration has reached its fixpoint: fuel |U| + 1 always suffices *)
  Lemma reach_list_stable : incl (new_of reach_list) reach_list.
  Proof.
    apply add_all_len_eq. fold (cstep reach_list).
    pose proof reach_list_nodup as Hn. pose proof reach_list_in_U as Hu.
    pose proof (NoDup_incl_length Hn Hu) as Hl.
    unfold reach_list in *.
    destruct (close_stable_or_grown (S (length U)) (add_all [] init)) as [H|H]; auto. lia.
  Qed.

  (* successors of expandable listed states are listed *)
  Theorem reach_list_closed :
    forall s ns, In s reach_list -> expandable s = true -> In ns (succs s) -> In ns reach_list.
  Proof.
    intros s ns Hs He Hn. apply reach_list_stable. unfold new_of. apply in_flat_map.
    exists s. split; auto. apply filter_In; auto.
  Qed.

  Lemma reach_list_complete : forall s, lreach s -> In s reach_list.
  Proof.
    induction 1 as [s Hi | s ns Hr IH He Hn].
    - apply reach_list_init; auto.
    - apply (reach_list_closed s); auto.
  Qed.

  (* the executable list is exactly the inductively defined reachable set *)
  Theorem reach_list_spec : forall s, In s reach_list <-> lreach s.
  Proof. intros s; split; [apply reach_list_sound | apply reach_list_complete]. Qed.
End Closure.

(* ------------------------------------------------------------------------------------------ *)
(* positive-probability successors of a distribution-valued transition function                  *)
(* ------------------------------------------------------------------------------------------ *)
Definition support (d : list (pos * Q)) : list pos :=
  map fst (filter (fun e => negb (Qeq_bool (snd e) 0)) d).

Lemma in_support (d : list (pos * Q)) (ns : pos) :
  In ns (support d) <-> exists p, In (ns, p) d /\ ~ (p == 0)%Q.
Proof.
  unfold support. rewrite in_map_iff. split.
  - intros [[k p] [E H]]. simpl in E; subst. apply filter_In in H. destruct H as [H Hp]. simpl in Hp.
    exists p. split; auto. intros Hq. apply Qeq_eq_bool in Hq. rewrite Hq in Hp. discriminate.
  - intros [p [H Hp]]. exists (ns, p). split; auto. apply filter_In. split; auto. simpl.
    destruct (Qeq_bool p 0) eqn:E; auto. apply Qeq_bool_eq in E. contradiction.
Qed.

Lemma in_range_grid (rows : layout) (s : pos) : In s (grid_states (gm rows)) <-> in_range (gm rows) s.
Proof. apply in_grid_states. Qed.

(* ------------------------------------------------------------------------------------------ *)
(* windy grid world                                                                              *)
(* ------------------------------------------------------------------------------------------ *)
Definition windy_init_states (w : windyp) : list pos := map fst (windy_init w).
Definition windy_succs (w : windyp) (s : pos) : list pos :=
  flat_map (fun a => support (windy_next w s a)) gm_actions.
(* reachable_states expands initial states unconditionally, other states only when not absorbing *)
Definition windy_expandable (w : windyp) (s : pos) : bool :=
  negb (windy_is_absorbing w s) || pos_mem s (windy_init_states w).
Definition windy_universe (w : windyp) : list pos := grid_states (gm (w_rows w)).
(* the state list of the model: same set as msdm's WindyGridWorld(...).state_list (compared on every run) *)
Definition windy_states (w : windyp) : list pos :=
  reach_list pos_eqb (windy_succs w) (windy_expandable w) (windy_init_states w) (windy_universe w).
Definition windy_reach (w : windyp) : pos -> Prop :=
  lreach (windy_succs w) (windy_expandable w) (windy_init_states w).

Lemma windy_U_init (w : windyp) : incl (windy_init_states w) (windy_universe w).
Proof.
  intros s Hs. unfold windy_init_states, windy_init, uniform in Hs. rewrite map_map in Hs. simpl in Hs.
  rewrite map_id in Hs. apply in_flat_map in Hs. destruct Hs as [c [_ Hs]].
  apply in_gm_locations in Hs. apply in_range_grid. tauto.
Qed.

Lemma windy_U_succ (w : windyp) : forall s, In s (windy_universe w) -> incl (windy_succs w s) (windy_universe w).
Proof.
  intros s Hs ns Hn. unfold windy_succs in Hn. apply in_flat_map in Hn. destruct Hn as [a [_ Hn]].
  apply in_support in Hn. destruct Hn as [p [Hin _]].
  apply in_range_grid in Hs. pose proof (windy_in_grid w s a Hs) as Hk. unfold kkeys in Hk.
  rewrite Forall_forall in Hk. apply in_range_grid. apply (Hk (ns, p)); auto.
Qed.

(* (a) closure for non-absorbing states: every positive-probability successor of a listed non-absorbing state
   is listed — the true part of "all positive-probability successors inside the state list" *)
Theorem windy_reach_closed (w : windyp) (s a ns : pos) (p : Q) :
  In s (windy_states w) -> windy_is_absorbing w s = false -> In a gm_actions ->
  In (ns, p) (windy_next w s a) -> ~ (p == 0)%Q -> In ns (windy_states w).
Proof.
  intros Hs Habs Ha Hin Hp.
  apply (reach_list_closed pos_eqb pos_eqb_eq (windy_succs w) (windy_expandable w) (windy_init_states w)
           (windy_universe w) (windy_U_init w) (windy_U_succ w) s ns); auto.
  - unfold windy_expandable. rewrite Habs. reflexivity.
  - unfold windy_succs. apply in_flat_map. exists a. split; auto. apply in_support. exists p; auto.
Qed.

(* the same for initial states, absorbing or not (reachable_states expands them) *)
Theorem windy_reach_closed_init (w : windyp) (s a ns : pos) (p : Q) :
  In s (windy_init_states w) -> In a gm_actions ->
  In (ns, p) (windy_next w s a) -> ~ (p == 0)%Q -> In ns (windy_states w).
Proof.
  intros Hs Ha Hin Hp.
  apply (reach_list_closed pos_eqb pos_eqb_eq (windy_succs w) (windy_expandable w) (windy_init_states w)
           (windy_universe w) (windy_U_init w) (windy_U_succ w) s ns); auto.
  - apply (reach_list_init pos_eqb pos_eqb_eq); auto.
  - unfold windy_expandable. apply orb_true_iff. right. apply pos_mem_In; auto.
  - unfold windy_succs. apply in_flat_map. exists a. split; auto. apply in_support. exists p; auto.
Qed.

(* the executable list is exactly the reachable set, has no duplicates and lies in the grid *)
Theorem windy_states_spec (w : windyp) (s : pos) : In s (windy_states w) <-> windy_reach w s.
Proof.
  apply (reach_list_spec pos_eqb pos_eqb_eq (windy_succs w) (windy_expandable w) (windy_init_states w)
           (windy_universe w) (windy_U_init w) (windy_U_succ w)).
Qed.

Theorem windy_states_wf (w : windyp) :
  NoDup (windy_states w) /\ incl (windy_init_states w) (windy_states w) /\
  forall s, In s (windy_states w) -> in_range (gm (w_rows w)) s.
Proof.
  split; [|split].
  - unfold windy_states. apply reach_list_nodup; first [exact pos_eqb_eq | apply windy_U_init | apply windy_U_succ].
  - unfold windy_states. apply reach_list_init; first [exact pos_eqb_eq | apply windy_U_init | apply windy_U_succ].
  - intros s Hs. apply in_range_grid. revert s Hs.
    change (incl (windy_states w) (windy_universe w)). unfold windy_states.
    apply reach_list_in_U; first [exact pos_eqb_eq | apply windy_U_init | apply windy_U_succ].
Qed.

(* (b) REFUTED for absorbing states: layout "@$." (the known finding).  The goal cell (1,0) is listed and
   absorbing; moving right from it leads with probability 1 to (2,0), which is not in the state list. *)
Definition windy_ex : windyp :=
  mkWindy [[64; 36; 46]]%nat [] (-1)%Q (-1)%Q (1 # 2)%Q [64%nat] [36%nat] [35%nat].

Example windy_ex_states : windy_states windy_ex = [(0, 0); (1, 0)]%Z.
Proof. vm_compute. reflexivity. Qed.

Theorem windy_closure_refuted :
  exists w s a ns p,
    In s (windy_states w) /\ windy_is_absorbing w s = true /\ In a gm_actions /\
    In (ns, p) (windy_next w s a) /\ (p == 1)%Q /\ in_range (gm (w_rows w)) ns /\ ~ In ns (windy_states w).
Proof.
  exists windy_ex, (1, 0)%Z, (1, 0)%Z, (2, 0)%Z, 1%Q.
  rewrite windy_ex_states.
  split; [simpl; auto|]. split; [vm_compute; reflexivity|]. split; [simpl; auto|].
  split; [vm_compute; left; reflexivity|]. split; [reflexivity|]. split.
  - unfold in_range. vm_compute. repeat split; intros H; discriminate H.
  - simpl. intros [H|[H|[]]]; discriminate H.
Qed.

(* non-vacuity of (a): a layout with wind where closure is exercised: ">.$" / "@#." *)
Example windy_closed_nonvacuous :
  let w := mkWindy [[62; 46; 36]; [64; 35; 46]]%nat [] (-1)%Q (-1)%Q (1 # 4)%Q [64%nat] [36%nat] [35%nat] in
  windy_states w = [(0, 0); (0, 1); (1, 1); (2, 1)]%Z /\
  windy_is_absorbing w (0, 1)%Z = false /\
  In ((1, 1)%Z, (1 # 4)%Q) (windy_next w (0, 1)%Z (0, 1)%Z).
Proof. cbv zeta. split; [vm_compute; reflexivity|]. split; [vm_compute; reflexivity|]. vm_compute. auto 10. Qed.

(* ------------------------------------------------------------------------------------------ *)
(* cliff walking (any GridMDP grid)                                                              *)
(* ------------------------------------------------------------------------------------------ *)
Definition cliff_init_states (rows : layout) : list pos := map fst (cliff_init rows).
Definition cliff_succs (rows : layout) (s : pos) : list pos :=
  flat_map (fun a => support (cliff_next rows s a)) gm_actions.
Definition cliff_expandable (rows : layout) (s : pos) : bool :=
  negb (cliff_is_absorbing rows s) || pos_mem s (cliff_init_states rows).
Definition cliff_states (rows : layout) : list pos :=
  reach_list pos_eqb (cliff_succs rows) (cliff_expandable rows) (cliff_init_states rows) (grid_states (gm rows)).
Definition cliff_reach (rows : layout) : pos -> Prop :=
  lreach (cliff_succs rows) (cliff_expandable rows) (cliff_init_states rows).

Lemma cliff_U_init (rows : layout) : incl (cliff_init_states rows) (grid_states (gm rows)).
Proof.
  intros s Hs. unfold cliff_init_states, cliff_init, uniform in Hs. rewrite map_map in Hs. simpl in Hs.
  rewrite map_id in Hs. apply in_gm_locations in Hs. apply in_range_grid. tauto.
Qed.

Lemma cliff_U_succ (rows : layout) :
  forall s, In s (grid_states (gm rows)) -> incl (cliff_succs rows s) (grid_states (gm rows)).
Proof.
  intros s Hs ns Hn. apply in_range_grid in Hs. apply in_range_grid.
  unfold cliff_succs in Hn. apply in_flat_map in Hn. destruct Hn as [a [_ Hn]].
  apply in_support in Hn. destruct Hn as [p [Hin _]]. unfold cliff_next in Hin.
  destruct (gm_is rows (cliff_apply rows s a) C_X).
  - unfold uniform in Hin. apply in_map_iff in Hin. destruct Hin as [s' [E Hin]]. inversion E; subst.
    apply in_gm_locations in Hin. tauto.
  - destruct Hin as [Hin|[]]. inversion Hin; subst.
    unfold cliff_apply, in_range, gm_w, gm_h in *. simpl. lia.
Qed.

Theorem cliff_reach_closed (rows : layout) (s a ns : pos) (p : Q) :
  In s (cliff_states rows) -> cliff_is_absorbing rows s = false -> In a gm_actions ->
  In (ns, p) (cliff_next rows s a) -> ~ (p == 0)%Q -> In ns (cliff_states rows).
Proof.
  intros Hs Habs Ha Hin Hp.
  apply (reach_list_closed pos_eqb pos_eqb_eq (cliff_succs rows) (cliff_expandable rows) (cliff_init_states rows)
           (grid_states (gm rows)) (cliff_U_init rows) (cliff_U_succ rows) s ns); auto.
  - unfold cliff_expandable. rewrite Habs. reflexivity.
  - unfold cliff_succs. apply in_flat_map. exists a. split; auto. apply in_support. exists p; auto.
Qed.

Theorem cliff_states_spec (rows : layout) (s : pos) : In s (cliff_states rows) <-> cliff_reach rows s.
Proof.
  apply (reach_list_spec pos_eqb pos_eqb_eq (cliff_succs rows) (cliff_expandable rows) (cliff_init_states rows)
           (grid_states (gm rows)) (cliff_U_init rows) (cliff_U_succ rows)).
Qed.

(* the CliffWalking instance itself: 38 states (the ten cliff cells are never occupied); here even the
   absorbing goal's successors are listed, so the whole list is closed (evaluated) *)
Example cliff_grid_states_closed :
  length (cliff_states cliff_grid) = 38%nat /\
  forallb (fun s => forallb (fun ns => pos_mem ns (cliff_states cliff_grid)) (cliff_succs cliff_grid s))
          (cliff_states cliff_grid) = true /\
  cliff_is_absorbing cliff_grid (11, 0)%Z = true /\ pos_mem (11, 0)%Z (cliff_states cliff_grid) = true.
Proof.
  split; [vm_compute; reflexivity|]. split; [vm_compute; reflexivity|].
  split; vm_compute; reflexivity.
Qed.

(* for other GridMDP grids the absorbing-state clause fails in the same way: "sg." *)
Theorem cliff_closure_refuted :
  exists rows s a ns p,
    In s (cliff_states rows) /\ cliff_is_absorbing rows s = true /\ In a gm_actions /\
    In (ns, p) (cliff_next rows s a) /\ (p == 1)%Q /\ ~ In ns (cliff_states rows).
Proof.
  exists [[C_S; C_G; 46%nat]], (1, 0)%Z, (1, 0)%Z, (2, 0)%Z, 1%Q.
  assert (E : cliff_states [[C_S; C_G; 46%nat]] = [(0, 0); (1, 0)]%Z) by (vm_compute; reflexivity).
  rewrite E.
  split; [simpl; auto|]. split; [vm_compute; reflexivity|]. split; [simpl; auto|].
  split; [vm_compute; left; reflexivity|]. split; [reflexivity|].
  simpl. intros [H|[H|[]]]; discriminate H.
Qed.
