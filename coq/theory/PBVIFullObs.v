(* PBVIFullObs.v — C08, the PBVI half of "when every observation reveals the state exactly, both values
   coincide with the optimal value up to the slack".
   Under full observability, if the belief list B is closed under the model's successor map (boolean checker
   [closedb], evaluated per case by the harness on the recorded belief set), then the alpha vector that the
   mirror of point_based_value_iteration holds for the i-th belief point after j sweeps has EXACTLY the
   j-horizon optimal value at that point; hence the PBVI value there is Wopt j and lies within the geometric
   tail of the infinite-horizon optimum W*. *)
From Coq Require Import QArith Qreals Reals Lra Lia List Arith Bool.
From Param Require Import Param.
From MSDM Require Import base.Num base.NumInst base.NumR base.Transfer model.MDP model.POMDP model.PBVI
     theory.Bellman theory.PBVITheory theory.PBVITransfer.
Import ListNotations.

(* ------------------------------------------------------------------ *)
(* the closure checker (generic in the number type: executed on Q)     *)
(* ------------------------------------------------------------------ *)
Section Checker.
Context {T : Type} {NT : Num T}.
Variable p : pomdp T.
Variable tO : nat -> nat -> nat -> nat -> T.

(* b is exactly the vertex e_s *)
Definition vertexb (b : list T) (s : nat) : bool :=
  forallbn (nS (base p)) (fun x => neqb (untab b x) (if Nat.eqb x s then n1 else n0)).

(* every belief of B is non-negative, and every successor (b, a, o) of positive mass — under full
   observability the vertex e_o — is itself a point of B *)
Definition closedb (B : list (list T)) : bool :=
  forallb (fun b => nonnegb p (untab b)) B &&
  forallb (fun b => forallbn (nA (base p)) (fun a => forallbn (nO p) (fun o =>
     if nltb n0 (stepf p tO (untab b) a o o) then existsb (fun b' => vertexb b' o) B else true))) B.
End Checker.

(* what the harness evaluates: the closure test on the tabulated table *)
Definition closedF {T} {NT : Num T} (p : pomdp T) (B : list (list T)) : bool := closedb p (tO_tab p) B.
Parametricity Recursive closedF.

Local Open Scope R_scope.

Lemma argmaxf_spec n (f : nat -> R) i v :
  argmaxf n f = Some (i, v) -> (i < n)%nat /\ v = f i /\ forall j, (j < n)%nat -> f j <= v.
Proof.
  revert i v. induction n; intros i v H; [discriminate|]. cbn [argmaxf] in H.
  destruct (argmaxf n f) as [[i0 v0]|] eqn:E.
  - destruct (IHn i0 v0 eq_refl) as (Hi & Hv & Hle).
    destruct (nltb v0 (f n)) eqn:L.
    + assert (Ei : i = n) by congruence. assert (Ev : v = f n) by congruence. subst i v.
      apply NumR.nltb_R in L. split; [lia|]. split; [reflexivity|]. intros j Hj.
      destruct (Nat.eq_dec j n) as [Ej|Ej]; [subst j; lra|]. specialize (Hle j ltac:(lia)). lra.
    + assert (Ei : i = i0) by congruence. assert (Ev : v = v0) by congruence. subst i v.
      assert (Hge : f n <= v0).
      { destruct (Rle_dec (f n) v0); [auto|]. exfalso.
        assert (X : @nltb R NumR v0 (f n) = true) by (apply NumR.nltb_R; lra). congruence. }
      split; [lia|]. split; [exact Hv|]. intros j Hj.
      destruct (Nat.eq_dec j n) as [Ej|Ej]; [subst j; exact Hge|]. apply Hle. lia.
  - assert (Ei : i = n) by congruence. assert (Ev : v = f n) by congruence. subst i v.
    split; [lia|]. split; [reflexivity|]. intros j Hj.
    assert (En : n = 0%nat).
    { destruct n; [reflexivity|]. destruct (argmaxf_some (S n) f) as (? & ? & E' & _); [lia|]. congruence. }
    subst n. assert (j = 0%nat) by lia. subst j. lra.
Qed.

Lemma nth_map_in {A B} (g : A -> B) (l : list A) i d d' :
  (i < length l)%nat -> nth i (map g l) d' = g (nth i l d).
Proof. intros H. rewrite (nth_indep _ d' (g d)) by (rewrite map_length; auto). apply map_nth. Qed.

Section FullObsPBVI.
Variable p : pomdp R.
Notation m := (base p).
Notation nSp := (nS (base p)).
Notation nAp := (nA (base p)).
Variable tO : nat -> nat -> nat -> nat -> R.
Variable rM : nat -> nat -> R.
Hypothesis W : wfp p tO rM.
Hypothesis F : fullobs p.

Notation dot := (dot p).
Notation step := (step p tO).
Notation stepf := (stepf p tO).
Notation Wopt := (Wopt p tO rM).

(* the picked candidate is a candidate and is maximal at u *)
Lemma pick_spec amb (cands : list (list R)) u :
  cands <> [] ->
  In (fst (pick p amb cands u)) cands /\
  forall c, In c cands -> dot u (untab c) <= dot u (untab (fst (pick p amb cands u))).
Proof.
  intros Hne. split; [apply pick_in; auto|]. unfold pick.
  set (vals := map (fun c => dot u (untab c)) cands).
  destruct (argmaxf_some (length cands) (fun i => nth i vals n0)) as (i & v & E & Hi).
  { destruct cands; [congruence|simpl; lia]. }
  rewrite E. cbn [fst]. destruct (argmaxf_spec _ _ _ _ E) as (_ & Hv & Hle).
  intros c Hc. destruct (In_nth _ _ [] Hc) as (j & Hj & Hjc).
  specialize (Hle j Hj). rewrite Hv in Hle. unfold vals in Hle.
  rewrite (nth_indep _ n0 (dot u (untab []))) in Hle by (rewrite map_length; auto).
  rewrite (nth_indep _ n0 (dot u (untab []))) in Hle by (rewrite map_length; auto).
  rewrite !(map_nth (fun c => dot u (untab c))) in Hle. now rewrite Hjc in Hle.
Qed.

Lemma vertexb_spec (b : list R) s : vertexb p b s = true ->
  forall x, (x < nSp)%nat -> untab b x = if Nat.eqb x s then 1 else 0.
Proof.
  unfold vertexb. rewrite forallbn_spec. intros H x Hx. specialize (H x Hx). apply neqb_Req' in H.
  rewrite H. destruct (Nat.eqb x s); reflexivity.
Qed.

Lemma dot_vertex (b : list R) s al :
  (s < nSp)%nat -> vertexb p b s = true -> dot (untab b) al = al s.
Proof.
  intros Hs Hv. unfold PBVI.dot. numR.
  rewrite (sumf_single nSp (fun x => untab b x * al x) s Hs).
  - rewrite (vertexb_spec b s Hv s Hs), Nat.eqb_refl. lra.
  - intros x Hx Hne. rewrite (vertexb_spec b s Hv x Hx).
    assert (E : Nat.eqb x s = false) by (apply Nat.eqb_neq; auto). rewrite E. lra.
Qed.

Lemma vertex_nonneg (b : list R) s : vertexb p b s = true -> nonneg p (untab b).
Proof.
  intros Hv x Hx. rewrite (vertexb_spec b s Hv x Hx). destruct (Nat.eqb x s); lra.
Qed.

(* the k-horizon optimum at a vertex is the k-step MDP value *)
Lemma Wopt_vertex k (b : list R) s :
  (s < nSp)%nat -> vertexb p b s = true -> Wopt k (untab b) = Vk p k s.
Proof.
  intros Hs Hv. rewrite (fullobs_Wopt_QW p tO rM W F k _ (vertex_nonneg b s Hv)).
  destruct k; cbn [QW]; [reflexivity|].
  unfold qmdp_value, qmdp_action_value.
  rewrite (maxf_ext nAp (fun _ => true) (fun _ => true) _ (Qval m (Vk p k) s)).
  - now rewrite (Vk_S p tO rM k s W Hs).
  - reflexivity.
  - intros a Ha _. numR.
    rewrite (sumf_single nSp (fun x => Qval m (Vk p k) x a * untab b x) s Hs).
    + rewrite (vertexb_spec b s Hv s Hs), Nat.eqb_refl. lra.
    + intros x Hx Hne. rewrite (vertexb_spec b s Hv x Hx).
      assert (E : Nat.eqb x s = false) by (apply Nat.eqb_neq; auto). rewrite E. lra.
Qed.

(* ---------------- the invariant ---------------- *)
Variable B : list (list R).
Hypothesis HB : closedb p tO B = true.

Lemma B_nonneg b : In b B -> nonneg p (untab b).
Proof.
  intros Hb. unfold closedb in HB. apply andb_true_iff in HB as [H _].
  rewrite forallb_forall in H. apply nonnegb_nonneg. auto.
Qed.

Lemma B_closed b a o :
  In b B -> (a < nAp)%nat -> (o < nO p)%nat -> 0 < stepf (untab b) a o o ->
  exists b', In b' B /\ vertexb p b' o = true.
Proof.
  intros Hb Ha Ho Hpos. unfold closedb in HB. apply andb_true_iff in HB as [_ H].
  rewrite forallb_forall in H. specialize (H b Hb). rewrite forallbn_spec in H. specialize (H a Ha).
  rewrite forallbn_spec in H. specialize (H o Ho).
  assert (E : @nltb R NumR n0 (stepf (untab b) a o o) = true) by (apply NumR.nltb_R; numR; exact Hpos).
  rewrite E in H. apply existsb_exists in H. exact H.
Qed.

(* exact at the belief points: the i-th vector has the k-horizon optimal value at the i-th point *)
Definition exact_at (k : nat) (G : list (list R)) : Prop :=
  length G = length B /\
  forall i, (i < length B)%nat ->
    dot (untab (nth i B [])) (untab (nth i G [])) = Wopt k (untab (nth i B [])).

(* value of the best vector of G at a successor belief = optimal value there *)
Lemma best_at_successor amb k G b a o :
  genl p tO rM k G -> exact_at k G -> In b B -> (a < nAp)%nat -> (o < nO p)%nat ->
  dot (step (untab b) a o) (untab (fst (pick p amb G (step (untab b) a o)))) = Wopt k (step (untab b) a o).
Proof.
  intros HG [HL HE] Hb Ha Ho.
  destruct F as [EO _]. assert (Ho' : (o < nSp)%nat) by lia.
  pose proof (B_nonneg b Hb) as Hu.
  assert (Hne : G <> []).
  { intros ->. simpl in HL. destruct B; [inversion Hb|discriminate]. }
  set (u' := step (untab b) a o).
  assert (Hu' : nonneg p u') by (apply step_nonneg; auto; apply (wfp_wf0 _ _ _ W)).
  set (c := stepf (untab b) a o o).
  assert (Hc : 0 <= c).
  { pose proof (Hu' o Ho') as H. unfold u' in H. now rewrite step_eq in H. }
  (* every vector's value at u' is c * (its o-th entry) *)
  assert (Hdot : forall al, dot u' al = c * al o).
  { intros al. unfold PBVI.dot. numR.
    rewrite (sumf_single nSp (fun x => u' x * al x) o Ho').
    - unfold u'. now rewrite step_eq.
    - intros x Hx Hne'. unfold u'. rewrite step_eq by auto.
      rewrite (stepf_off p tO rM W F (untab b) a o x Ha Ho Hx Hne'). lra. }
  rewrite (fullobs_Wopt_QW p tO rM W F k u' Hu').
  unfold u'. rewrite (QW_step p tO rM W F k (untab b) a o Hu Ha Ho). fold c. fold u'.
  destruct (pick_spec amb G u' Hne) as [Hin Hmax].
  rewrite Hdot.
  destruct (Rle_lt_or_eq_dec 0 c Hc) as [Hpos|Hz]; [|rewrite <- Hz; lra].
  destruct (B_closed b a o Hb Ha Ho Hpos) as (b' & Hb' & Hv).
  destruct (In_nth _ _ [] Hb') as (j & Hj & Hjb).
  (* upper bound: every vector of G is below the optimum at e_o *)
  assert (Hup : forall al, In al G -> untab al o <= Vk p k o).
  { intros al Hal. unfold genl in HG. rewrite Forall_forall in HG.
    pose proof (pbvi_lower p tO rM k (untab al) (wfp_wf0 _ _ _ W) (HG al Hal) (untab b') (vertex_nonneg b' o Hv)) as H.
    rewrite (dot_vertex b' o _ Ho' Hv), (Wopt_vertex k b' o Ho' Hv) in H. exact H. }
  (* attained by the vector of the point e_o *)
  assert (Hat : untab (nth j G []) o = Vk p k o).
  { pose proof (HE j Hj) as H. rewrite Hjb in H.
    rewrite (dot_vertex b' o _ Ho' Hv), (Wopt_vertex k b' o Ho' Hv) in H. exact H. }
  assert (HjG : In (nth j G []) G) by (apply nth_In; lia).
  pose proof (Hmax _ HjG) as H1. rewrite !Hdot, Hat in H1.
  pose proof (Hup _ Hin) as H2.
  apply Rle_antisym; [apply Rmult_le_compat_l; auto|exact H1].
Qed.

Lemma point_backup_exact amb k G b :
  genl p tO rM k G -> exact_at k G -> In b B ->
  dot (untab b) (untab (fst (point_backup p tO rM amb G b))) = Wopt (S k) (untab b).
Proof.
  intros HG HE Hb. pose proof (B_nonneg b Hb) as Hu.
  unfold point_backup. cbn [fst].
  set (u := untab b).
  set (per_a := map _ (seq 0 nAp)).
  set (cands := map fst per_a).
  assert (HnA : (0 < nAp)%nat) by apply (wp_nA _ _ _ W).
  assert (Hlen : length cands = nAp) by (unfold cands, per_a; now rewrite !map_length, seq_length).
  assert (Hne : cands <> []) by (intros E; rewrite E in Hlen; simpl in Hlen; lia).
  (* value of the a-th candidate at u *)
  assert (Hcand : forall a, (a < nAp)%nat ->
            dot u (untab (nth a cands [])) =
            dot u (fun s => rM s a) + gamma m * sumf (nO p) (fun o => Wopt k (step u a o))).
  { intros a Ha. unfold cands, per_a.
    rewrite (nth_indep _ [] (fst (back_vec p tO rM 0 (fun _ => []), false))) by (rewrite !map_length, seq_length; auto).
    rewrite (map_nth fst), (nth_indep _ _ ((fun a0 => (back_vec p tO rM a0 (fun o => fst (nth o (map (fun o0 => pick p amb G (step u a0 o0)) (seq 0 (nO p))) (zerov p, false))),
                 existsb snd (map (fun o0 => pick p amb G (step u a0 o0)) (seq 0 (nO p))))) 0%nat))
      by (rewrite map_length, seq_length; auto).
    rewrite (map_nth (fun a0 => (back_vec p tO rM a0 (fun o => fst (nth o (map (fun o0 => pick p amb G (step u a0 o0)) (seq 0 (nO p))) (zerov p, false))),
                 existsb snd (map (fun o0 => pick p amb G (step u a0 o0)) (seq 0 (nO p)))))), seq_nth by auto.
    cbn [fst plus].
    set (chs := map (fun o0 => pick p amb G (step u a o0)) (seq 0 (nO p))).
    assert (E : dot u (untab (back_vec p tO rM a (fun o => fst (nth o chs (zerov p, false))))) =
                dot u (fun s => rM s a) +
                gamma m * sumf (nO p) (fun o => sumf nSp (fun ns => stepf u a o ns * untab (fst (nth o chs (zerov p, false))) ns))).
    { unfold PBVI.dot, PBVI.stepf. numR.
      etransitivity; [|apply (dot_backup nSp (nO p) u (fun s => rM s a) (fun o s ns => tO a o s ns)
                                (fun o => untab (fst (nth o chs (zerov p, false)))) (gamma m))].
      apply sumf_ext. intros s Hs. unfold back_vec. rewrite untab_tab by auto. reflexivity. }
    rewrite E. f_equal. f_equal. apply sumf_ext. intros o Ho.
    unfold chs.
    rewrite (nth_indep _ _ (pick p amb G (step u a 0%nat))) by (rewrite map_length, seq_length; auto).
    rewrite (map_nth (fun o0 => pick p amb G (step u a o0))), seq_nth by auto. cbn [plus].
    unfold u. rewrite <- (best_at_successor amb k G b a o HG HE Hb Ha Ho).
    unfold PBVI.dot. apply sumf_ext. intros ns Hns. now rewrite step_eq. }
  destruct (pick_spec amb cands u Hne) as [Hin Hmax].
  destruct (In_nth _ _ [] Hin) as (a0 & Ha0 & Ea0). rewrite Hlen in Ha0.
  rewrite Wopt_S.
  destruct (maxf_all_some nAp (fun a => dot u (fun s => rM s a) +
      gamma m * sumf (nO p) (fun o => Wopt k (step u a o))) HnA) as (x & Hx).
  rewrite Hx. cbn [odflt]. apply Rle_antisym.
  - rewrite <- Ea0, (Hcand a0 Ha0). apply (maxf_ge _ _ _ _ a0 Hx Ha0 eq_refl).
  - destruct (maxf_attained _ _ _ _ Hx) as (a & Ha & _ & <-).
    rewrite <- (Hcand a Ha). apply Hmax. apply nth_In. lia.
Qed.

Lemma sweep_exact amb k G :
  genl p tO rM k G -> exact_at k G -> exact_at (S k) (fst (sweep p tO rM amb B G)).
Proof.
  intros HG HE. unfold sweep. cbn [fst]. split; [now rewrite !map_length|].
  intros i Hi. rewrite map_map.
  rewrite (nth_map_in (fun b => fst (point_backup p tO rM amb G b)) B i [] []) by exact Hi.
  apply point_backup_exact; auto. apply nth_In. exact Hi.
Qed.

Lemma pbvi_loop_exact amb eps fuel :
  forall j G fl, genl p tO rM j G -> exact_at j G ->
  let r := pbvi_loop p tO rM fuel j amb eps B G fl in
  genl p tO rM (snd (fst r)) (fst (fst r)) /\ exact_at (snd (fst r)) (fst (fst r)).
Proof.
  induction fuel; intros j G fl HG HE; cbn [pbvi_loop]; [split; assumption|].
  destruct (nltb _ eps); [split; assumption|].
  destruct (sweep_gen p tO rM amb j B G (wp_nA _ _ _ W) HG (proj1 HE)) as [H1 _].
  apply IHfuel; [exact H1|apply sweep_exact; auto].
Qed.

(* ------------------------------------------------------------------ *)
(* main statements                                                     *)
(* ------------------------------------------------------------------ *)
(* after the j sweeps the mirror reports, the vector of every belief point has the j-horizon optimal value *)
Theorem fullobs_pbvi_exact horizon amb eps :
  let r := pbvi_run p tO rM horizon amb eps B in
  forall i, (i < length B)%nat ->
    dot (untab (nth i B [])) (untab (nth i (fst (fst r)) [])) = Wopt (snd (fst r)) (untab (nth i B [])).
Proof.
  cbv zeta. unfold pbvi_run.
  assert (H0 : genl p tO rM 0 (map (fun _ => zerov p) B) /\ exact_at 0 (map (fun _ => zerov p) B)).
  { split.
    - unfold genl. apply Forall_forall. intros al Hal. apply in_map_iff in Hal as (b & <- & _).
      apply gen0. intros s Hs. unfold zerov. now rewrite untab_tab.
    - split; [now rewrite map_length|]. intros i Hi.
      rewrite (nth_map_in (fun _ : list R => zerov p) B i [] []) by exact Hi. cbn [PBVI.Wopt]. unfold PBVI.dot. numR.
      apply sumf_0. intros s Hs. unfold zerov. rewrite untab_tab by auto. numR. lra. }
  destruct H0 as [HG HE].
  destruct (pbvi_loop_exact amb eps horizon 0 _ false HG HE) as [_ [_ H]]. exact H.
Qed.

(* ... so the PBVI VALUE (max over all alpha vectors) at a belief point is the j-horizon optimum *)
Theorem fullobs_pbvi_value horizon amb eps :
  let r := pbvi_run p tO rM horizon amb eps B in
  forall i, (i < length B)%nat ->
    alpha_value p (fst (fst r)) (untab (nth i B [])) = Some (Wopt (snd (fst r)) (untab (nth i B []))).
Proof.
  cbv zeta. intros i Hi.
  pose proof (fullobs_pbvi_exact horizon amb eps i Hi) as HE. cbv zeta in HE.
  pose proof (pbvi_run_gen p tO rM horizon amb eps B (wp_nA _ _ _ W)) as HG. cbv zeta in HG.
  set (r := pbvi_run p tO rM horizon amb eps B) in *.
  assert (HL : length (fst (fst r)) = length B).
  { unfold r, pbvi_run.
    assert (H0 : genl p tO rM 0 (map (fun _ => zerov p) B) /\ exact_at 0 (map (fun _ => zerov p) B)).
    { split.
      - unfold genl. apply Forall_forall. intros al Hal. apply in_map_iff in Hal as (b & <- & _).
        apply gen0. intros s Hs. unfold zerov. now rewrite untab_tab.
      - split; [now rewrite map_length|]. intros i' Hi'.
        rewrite (nth_map_in (fun _ : list R => zerov p) B i' [] []) by exact Hi'. cbn [PBVI.Wopt]. unfold PBVI.dot. numR.
        apply sumf_0. intros s Hs. unfold zerov. rewrite untab_tab by auto. numR. lra. }
    destruct H0 as [HG0 HE0].
    destruct (pbvi_loop_exact amb eps horizon 0 _ false HG0 HE0) as [_ [H _]]. exact H. }
  unfold alpha_value. apply maxf_char.
  - intros q Hq. unfold genl in HG. rewrite Forall_forall in HG.
    apply (pbvi_lower p tO rM _ _ (wfp_wf0 _ _ _ W)); [apply HG, nth_In; exact Hq|].
    apply B_nonneg, nth_In. exact Hi.
  - exists i. split; [lia|exact HE].
Qed.

(* ... and is within the geometric tail of the infinite-horizon optimum *)
Corollary fullobs_pbvi_near_Wstar M horizon amb eps :
  let r := pbvi_run p tO rM horizon amb eps B in
  forall i Ws x, (i < length B)%nat ->
    is_Wstar p tO rM M (untab (nth i B [])) Ws ->
    alpha_value p (fst (fst r)) (untab (nth i B [])) = Some x ->
    Rabs (x - Ws) <= tailR p M (snd (fst r)) (untab (nth i B [])).
Proof.
  cbv zeta. intros i Ws x Hi HW Hx.
  rewrite (fullobs_pbvi_value horizon amb eps i Hi) in Hx. inversion Hx; subst. apply HW.
Qed.

End FullObsPBVI.

(* ------------------------------------------------------------------ *)
(* on the data the harness evaluates (Q): the three booleans it computes per case are the hypotheses *)
(* ------------------------------------------------------------------ *)
Section MainFullObs.
Variables (nS nA nO : nat) (ab : list bool) (P Rw : list (list (list Q))) (ini : list Q) (g : Q)
          (Obl : list (list (list Q))).
Notation pq := (pA Q NumQ nS nA nO P Rw ab ini g Obl).
Notation pr := (pR Q Q2R nS nA nO P Rw ab ini g Obl).

Lemma t_closed B : @closedF Q NumQ pq B = @closedF R NumR pr (m2 Q Q2R B).
Proof.
  apply bool_R_inv, (closedF_R Q R QR NumQ NumR NumQR).
  - apply (pAR Q QR NumQ NumQR Q2R QR_refl).
  - apply (r2 Q QR Q2R QR_refl).
Qed.

Theorem main_fullobs_pbvi B horizon amb eps :
  @wfpomdpb Q NumQ pq = true -> @fullobsb Q NumQ pq = true -> @closedF Q NumQ pq B = true ->
  let r := pbvi_run pr (tO_tab pr) (rM_tab pr) horizon amb eps (m2 Q Q2R B) in
  forall i, (i < length B)%nat ->
    alpha_value pr (fst (fst r)) (untab (nth i (m2 Q Q2R B) [])) =
    Some (Wopt pr (tO_tab pr) (rM_tab pr) (snd (fst r)) (untab (nth i (m2 Q Q2R B) []))).
Proof.
  intros Hwf Hfo Hcl. cbv zeta. intros i Hi.
  assert (Wf : wfp pr (tO_tab pr) (rM_tab pr)).
  { apply wfpomdpb_wfp_tab. rewrite <- (t_wf Q QR NumQ NumQR Q2R QR_refl). exact Hwf. }
  assert (Fo : fullobs pr).
  { apply fullobsb_fullobs. rewrite <- (t_fullobs Q QR NumQ NumQR Q2R QR_refl). exact Hfo. }
  rewrite t_closed in Hcl. unfold closedF in Hcl.
  apply (fullobs_pbvi_value pr _ _ Wf Fo (m2 Q Q2R B) Hcl horizon amb eps i).
  unfold m2. now rewrite map_length.
Qed.
End MainFullObs.

(* ------------------------------------------------------------------ *)
(* non-vacuity: a fully observable 3-state POMDP (the MDP of PBVIExample.v with identity observations)
   and a successor-closed belief list containing a non-vertex belief *)
(* ------------------------------------------------------------------ *)
Local Open Scope Q_scope.
Definition foP : list (list (list Q)) :=
  [ [[0; 1#2; 1#2]; [1; 0; 0]]; [[0; 0; 1]; [1; 0; 0]]; [[0; 0; 1]; [0; 0; 1]] ].
Definition foR : list (list (list Q)) :=
  [ [[0; 1; 0]; [0; 0; 0]]; [[0; 0; 2]; [0; 0; 0]]; [[0; 0; 5]; [0; 0; 5]] ].
Definition foO : list (list (list Q)) :=
  [ [[1; 0; 0]; [0; 1; 0]; [0; 0; 1]]; [[1; 0; 0]; [0; 1; 0]; [0; 0; 1]] ].
Definition foAb := [false; false; true].
Definition foIni : list Q := [1#2; 1#2; 0].
Definition foB : list (list Q) := [[1#2; 1#2; 0]; [1; 0; 0]; [0; 1; 0]; [0; 0; 1]].

Example fo_hyps :
  @wfpomdpb Q NumQ (pA Q NumQ 3 2 3 foP foR foAb foIni (1#2) foO) = true /\
  @fullobsb Q NumQ (pA Q NumQ 3 2 3 foP foR foAb foIni (1#2) foO) = true /\
  @closedF Q NumQ (pA Q NumQ 3 2 3 foP foR foAb foIni (1#2) foO) foB = true.
Proof. vm_compute. repeat split; reflexivity. Qed.

(* the conclusion, instantiated: 5 sweeps, at the non-vertex belief (1/2, 1/2, 0) *)
Example fo_conclusion :
  let pr := pR Q Q2R 3 2 3 foP foR foAb foIni (1#2) foO in
  let r := pbvi_run pr (tO_tab pr) (rM_tab pr) 5 (Q2R (1#1000000000)) (Q2R 0) (m2 Q Q2R foB) in
  alpha_value pr (fst (fst r)) (untab (nth 0 (m2 Q Q2R foB) [])) =
  Some (Wopt pr (tO_tab pr) (rM_tab pr) (snd (fst r)) (untab (nth 0 (m2 Q Q2R foB) []))).
Proof.
  destruct fo_hyps as (H1 & H2 & H3).
  apply (main_fullobs_pbvi 3 2 3 foAb foP foR foIni (1#2) foO foB 5 _ _ H1 H2 H3 0%nat). simpl. lia.
Qed.
