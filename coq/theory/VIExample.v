(* VIExample.v — non-vacuity: a concrete 3-state, 2-action MDP with stochastic branching on which
   the checker accepts a (slightly perturbed) result, all hypotheses of the C01 theorems hold,
   and an optimal value function exists (exhibited exactly). *)
From Coq Require Import QArith Qreals Reals Lra List Bool.
From MSDM Require Import base.Num base.NumInst base.NumR base.Transfer model.MDP model.VI
     theory.Bellman theory.VITheory theory.VITransfer theory.VIMain.
Import ListNotations.
Local Open Scope Q_scope.

(* s0: a0 -> s1 (1/2) | s2 (1/2), reward 1 to s1;  a1 -> s0, reward 0.   s1: a0 -> s2, reward 2.
   s2 absorbing (explicit flag, self-loop paying 5 that must be ignored).  gamma = 1/2.
   V* = (1, 2, 0):  Q*(s0,a0) = 1/2*1 + 1/2*(1/2*2) = 1,  Q*(s0,a1) = 1/2*1 = 1/2. *)
Definition exP : list (list (list Q)) :=
  [ [[0; 1#2; 1#2]; [1; 0; 0]]; [[0; 0; 1]; [0; 0; 0]]; [[0; 0; 1]; [0; 0; 0]] ].
Definition exR : list (list (list Q)) :=
  [ [[0; 1; 0]; [0; 0; 0]]; [[0; 0; 2]; [0; 0; 0]]; [[0; 0; 5]; [0; 0; 0]] ].
Definition exAv := [[true; true]; [true; false]; [true; false]].
Definition exAb := [false; false; true].
Definition exIni : list Q := [1#2; 1#2; 0].
Definition exV : list Q := [1 + (1#1000000); 2; 0].
Definition exQ : list (list (option Q)) := [[Some 1; Some (1#2)]; [Some 2; None]; [Some 0; None]].
Definition exPi : list (list Q) := [[1; 0]; [1; 0]; [1; 0]].
Definition exT : @tols Q :=
  mkTols (1#100000) (1#100000) (1001#100000000) (1001#100000000000) (1#200000) (1#200000000)
         (1#1000000000000) (1#1000000) 0.

Definition exVs : list Q := [1; 2; 0].

Example ex_check :
  @c01_check Q NumQ (mk_mdp 3 2 exP exR exAv exAb exIni (1#2))
             (mk_out exV exQ exPi ((3#2) + (1#2000000))) exT = all_true.
Proof. vm_compute. reflexivity. Qed.

Example ex_fix :
  fixpoint (mR 3 2 exP exR exAv exAb exIni (1#2)) (untab (map Q2R exVs)).
Proof.
  apply fixb_fixpoint. unfold mR. rewrite <- fixb_transfer. vm_compute. reflexivity.
Qed.

(* so the conclusion of main_values is a real statement about a real optimum *)
Example ex_values_bound :
  forall s, (s < 3)%nat ->
  (Rabs (oV (oR exV exQ exPi ((3#2) + (1#2000000))) s - untab (map Q2R exVs) s)
   <= Q2R (1#100000) / (1 - Q2R (1#2)))%R.
Proof.
  intros s Hs.
  apply (main_values 3 2 exP exR exAv exAb exIni (1#2) exV exQ exPi _ exT ex_check).
  - unfold Q2R; simpl; lra.
  - unfold Q2R; simpl; lra.
  - apply ex_fix.
  - exact Hs.
Qed.
