(* SearchTheory.v — C05: walks in a finite graph, correctness of the Bellman-Ford
   reference distance (bf_dist_correct) and soundness of the path certificate
   (path_cert_sound, bfs_cert_sound).  All statements are for every finite graph
   with successors in range and non-negative costs. *)
From Coq Require Import List Arith ZArith Bool Lia.
From MSDM Require Import model.Search.
Import ListNotations.
Local Open Scope Z_scope.

(* ------------------------------------------------------------------------- *)
(* walks                                                                      *)
(* ------------------------------------------------------------------------- *)
Inductive walk (g : graph) : nat -> list edge -> nat -> Prop :=
| walk_nil : forall s, walk g s [] s
| walk_cons : forall s e p u,
    In e (g_succ g s) -> walk g (e_dst e) p u -> walk g s (e :: p) u.

Definition wf_graph (g : graph) : Prop :=
  forall s e, (s < g_n g)%nat -> In e (g_succ g s) -> (e_dst e < g_n g)%nat /\ 0 <= e_cost e.

Lemma wf_graphb_sound g : wf_graphb g = true -> wf_graph g.
Proof.
  unfold wf_graphb, wf_graph. intros H s e Hs He.
  rewrite forallb_forall in H. specialize (H s).
  assert (Hin : In s (seq 0 (g_n g))) by (apply in_seq; lia).
  specialize (H Hin). rewrite forallb_forall in H. specialize (H e He).
  apply andb_true_iff in H. destruct H as [H1 H2].
  apply Nat.ltb_lt in H1. apply Z.leb_le in H2. auto.
Qed.

Lemma cost_app p q : cost (p ++ q) = cost p + cost q.
Proof. induction p as [|e p IH]; simpl; [lia|]. unfold cost in *. simpl. rewrite IH. lia. Qed.

Lemma cost_cons e p : cost (e :: p) = e_cost e + cost p.
Proof. reflexivity. Qed.

Lemma walk_app g s p m q u : walk g s p m -> walk g m q u -> walk g s (p ++ q) u.
Proof.
  intros H; induction H; simpl; intros Hq; auto.
  constructor; auto.
Qed.

Lemma walk_split g p : forall s q u, walk g s (p ++ q) u -> exists m, walk g s p m /\ walk g m q u.
Proof.
  induction p as [|e p IH]; simpl; intros s q u H.
  - exists s. split; [constructor | exact H].
  - inversion H; subst. destruct (IH _ _ _ H5) as [m [H1 H2]].
    exists m. split; auto. constructor; auto.
Qed.

Lemma walk_snoc g s p m e : walk g s p m -> In e (g_succ g m) -> walk g s (p ++ [e]) (e_dst e).
Proof.
  intros H He. eapply walk_app; eauto. constructor; auto. constructor.
Qed.

Lemma walk_wf g s p u :
  wf_graph g -> (s < g_n g)%nat -> walk g s p u ->
  (u < g_n g)%nat /\ Forall (fun e => 0 <= e_cost e) p /\ Forall (fun v => (v < g_n g)%nat) (verts s p).
Proof.
  intros Hwf Hs H. induction H.
  - repeat split; auto. unfold verts; simpl. constructor; auto.
  - destruct (Hwf _ _ Hs H) as [Hd Hc]. destruct (IHwalk Hd) as [Hu [Hf Hv]].
    repeat split; auto. unfold verts in *. simpl. constructor; auto.
Qed.

Lemma cost_nonneg_Forall p : Forall (fun e => 0 <= e_cost e) p -> 0 <= cost p.
Proof. induction 1; [unfold cost; simpl; lia | rewrite cost_cons; lia]. Qed.

Lemma walk_cost_nonneg g s p u : wf_graph g -> (s < g_n g)%nat -> walk g s p u -> 0 <= cost p.
Proof. intros Hwf Hs H. apply cost_nonneg_Forall. eapply walk_wf; eauto. Qed.

Lemma verts_length s p : length (verts s p) = S (length p).
Proof. unfold verts; simpl. now rewrite map_length. Qed.

(* a walk through vertex s can be entered at s *)
Lemma walk_from_vertex g t p u s :
  walk g t p u -> In s (verts t p) ->
  exists p1 p2 l1, p = p1 ++ p2 /\ walk g s p2 u /\ verts t p = l1 ++ verts s p2.
Proof.
  intros H. induction H as [t | t e p u He Hw IH]; intros Hin.
  - unfold verts in Hin; simpl in Hin. destruct Hin as [<- | []].
    exists [], [], []. repeat split; constructor.
  - unfold verts in Hin. simpl in Hin. destruct Hin as [<- | Hin].
    + exists [], (e :: p), []. repeat split; auto. constructor; auto.
    + destruct (IH Hin) as [p1 [p2 [l1 [E [W V]]]]].
      exists (e :: p1), p2, (t :: l1). repeat split; auto.
      * simpl. now rewrite E.
      * unfold verts in *. simpl. now rewrite V.
Qed.

Lemma NoDup_app_r {A} (l1 l2 : list A) : NoDup (l1 ++ l2) -> NoDup l2.
Proof. induction l1 as [|x l1 IH]; simpl; auto. intros H. inversion H; auto. Qed.

(* every walk can be replaced by a simple one that costs no more *)
Lemma walk_simple g s p u :
  wf_graph g -> (s < g_n g)%nat -> walk g s p u ->
  exists p', walk g s p' u /\ cost p' <= cost p /\ NoDup (verts s p').
Proof.
  intros Hwf Hs H. induction H as [s | s e p u He Hw IH].
  - exists []. repeat split; [constructor | lia |].
    unfold verts; simpl. constructor; [intros [] | constructor].
  - destruct (Hwf _ _ Hs He) as [Hd Hc].
    destruct (IH Hd) as [p' [W' [C' N']]].
    destruct (in_dec Nat.eq_dec s (verts (e_dst e) p')) as [Hin | Hnin].
    + destruct (walk_from_vertex _ _ _ _ _ W' Hin) as [p1 [p2 [l1 [E [W2 V]]]]].
      exists p2. split; [exact W2|]. split.
      * subst p'. rewrite cost_app in C'. rewrite cost_cons.
        destruct (walk_split _ _ _ _ _ W') as [m [W1 _]].
        pose proof (walk_cost_nonneg _ _ _ _ Hwf Hd W1). lia.
      * rewrite V in N'. eapply NoDup_app_r; eauto.
    + exists (e :: p'). split; [constructor; auto|]. split.
      * rewrite !cost_cons. lia.
      * change (verts s (e :: p')) with (s :: verts (e_dst e) p'). constructor; auto.
Qed.

Lemma walk_short g s p u :
  wf_graph g -> (s < g_n g)%nat -> walk g s p u ->
  exists p', walk g s p' u /\ cost p' <= cost p /\ (length p' < g_n g)%nat.
Proof.
  intros Hwf Hs H. destruct (walk_simple _ _ _ _ Hwf Hs H) as [p' [W [C N]]].
  exists p'. repeat split; auto.
  assert (Hl : (length (verts s p') <= length (seq 0 (g_n g)))%nat).
  { apply NoDup_incl_length; auto. intros v Hv. apply in_seq.
    destruct (walk_wf _ _ _ _ Hwf Hs W) as [_ [_ Hf]].
    rewrite Forall_forall in Hf. specialize (Hf v Hv). lia. }
  rewrite verts_length, seq_length in Hl. lia.
Qed.

(* ------------------------------------------------------------------------- *)
(* Bellman-Ford                                                              *)
(* ------------------------------------------------------------------------- *)
Lemma nth_map_seq {A} (f : nat -> A) n s d : (s < n)%nat -> nth s (map f (seq 0 n)) d = f s.
Proof.
  intros Hs. rewrite (nth_indep _ d (f O)) by (rewrite map_length, seq_length; lia).
  rewrite map_nth. rewrite seq_nth by lia. reflexivity.
Qed.

Definition D (g : graph) (k s : nat) : option Z := nth s (bf_iter g k) None.

Lemma D_0 g s : (s < g_n g)%nat -> D g 0 s = if g_goal g s then Some 0 else None.
Proof. intros Hs. unfold D; simpl. unfold bf_init. now rewrite nth_map_seq. Qed.

Lemma D_S g k s : (s < g_n g)%nat -> D g (S k) s = bf_step g (D g k) s.
Proof. intros Hs. unfold D; simpl. unfold bf_round. now rewrite nth_map_seq. Qed.

Section FoldMin.
Variable F : edge -> option Z.
Let fm (init : option Z) (l : list edge) := fold_right (fun e acc => omin (F e) acc) init l.

Lemma omin_some a b d : omin a b = Some d -> a = Some d \/ b = Some d.
Proof.
  destruct a as [x|], b as [y|]; simpl; intros H; inversion H; auto.
  destruct (Z.min_spec x y) as [[_ E] | [_ E]]; rewrite E; auto.
Qed.

Lemma omin_le_l a b x : a = Some x -> exists d, omin a b = Some d /\ d <= x.
Proof. intros ->. destruct b as [y|]; simpl; eexists; split; eauto; lia. Qed.

Lemma omin_le_r a b x : b = Some x -> exists d, omin a b = Some d /\ d <= x.
Proof. intros ->. destruct a as [y|]; simpl; eexists; split; eauto; lia. Qed.

Lemma fm_some init l d : fm init l = Some d -> init = Some d \/ exists e, In e l /\ F e = Some d.
Proof.
  induction l as [|e l IH]; simpl; intros H; auto.
  apply omin_some in H. destruct H as [H | H].
  - right. exists e. auto.
  - destruct (IH H) as [H' | [e' [Hin He']]]; auto. right. exists e'. auto.
Qed.

Lemma fm_le_init init l x : init = Some x -> exists d, fm init l = Some d /\ d <= x.
Proof.
  intros Hi. induction l as [|e l IH]; simpl.
  - exists x. split; auto; lia.
  - destruct IH as [d [Hd Hle]]. destruct (omin_le_r (F e) _ _ Hd) as [d' [Hd' Hle']].
    exists d'. split; auto; lia.
Qed.

Lemma fm_le_elem init l e x : In e l -> F e = Some x -> exists d, fm init l = Some d /\ d <= x.
Proof.
  induction l as [|e' l IH]; simpl; intros Hin Hx; [contradiction|].
  destruct Hin as [-> | Hin].
  - apply omin_le_l; auto.
  - destruct (IH Hin Hx) as [d [Hd Hle]]. destruct (omin_le_r (F e') _ _ Hd) as [d' [Hd' Hle']].
    exists d'. split; auto; lia.
Qed.
End FoldMin.

(* every finite table entry is the cost of a real walk to a goal *)
Lemma D_realised g : wf_graph g -> forall k s d, (s < g_n g)%nat -> D g k s = Some d ->
  exists p u, walk g s p u /\ g_goal g u = true /\ cost p = d.
Proof.
  intros Hwf. induction k as [|k IH]; intros s d Hs H.
  - rewrite D_0 in H by auto. destruct (g_goal g s) eqn:Hg; inversion H; subst.
    exists [], s. repeat split; auto. constructor.
  - rewrite D_S in H by auto. unfold bf_step in H.
    apply fm_some in H. destruct H as [H | [e [Hin He]]].
    + apply IH; auto.
    + destruct (Hwf _ _ Hs Hin) as [Hd _].
      destruct (D g k (e_dst e)) as [x|] eqn:Hx; simpl in He; inversion He; subst.
      destruct (IH _ _ Hd Hx) as [p [u [W [G C]]]].
      exists (e :: p), u. repeat split; auto. constructor; auto.
      rewrite cost_cons. lia.
Qed.

(* the table after k rounds is below every walk of at most k edges *)
Lemma D_lower g : wf_graph g -> forall k s p u, (s < g_n g)%nat ->
  walk g s p u -> g_goal g u = true -> (length p <= k)%nat ->
  exists d, D g k s = Some d /\ d <= cost p.
Proof.
  intros Hwf. induction k as [|k IH]; intros s p u Hs W G L.
  - destruct p; simpl in L; [|lia]. inversion W; subst.
    rewrite D_0 by auto. rewrite G. exists 0. split; auto. unfold cost; simpl; lia.
  - rewrite D_S by auto. unfold bf_step. inversion W; subst.
    + destruct (IH u [] u Hs W G) as [d [Hd Hle]]; [simpl; lia|].
      destruct (fm_le_init (fun e => oadd (e_cost e) (D g k (e_dst e))) (D g k u) (g_succ g u) d Hd)
        as [d' [Hd' Hle']].
      exists d'. split; auto. lia.
    + destruct (Hwf _ _ Hs H) as [Hd _].
      destruct (IH _ _ _ Hd H0 G) as [d [Hdd Hle]]; [simpl in L; lia|].
      destruct (fm_le_elem (fun e => oadd (e_cost e) (D g k (e_dst e))) (D g k s) (g_succ g s) e (e_cost e + d) H)
        as [d' [Hd' Hle']].
      { rewrite Hdd. reflexivity. }
      exists d'. split; auto. rewrite cost_cons. lia.
Qed.

(* what "the least cost of a path from s to a goal" means *)
Definition least_cost (g : graph) (s : nat) (od : option Z) : Prop :=
  match od with
  | Some d => (exists p u, walk g s p u /\ g_goal g u = true /\ cost p = d) /\
              (forall p u, walk g s p u -> g_goal g u = true -> d <= cost p)
  | None => forall p u, walk g s p u -> g_goal g u = false
  end.

Theorem bf_dist_correct g s :
  wf_graph g -> (s < g_n g)%nat -> least_cost g s (bf_dist g s).
Proof.
  intros Hwf Hs. unfold bf_dist, bf_table. fold (D g (g_n g) s).
  destruct (D g (g_n g) s) as [d|] eqn:Hd; simpl.
  - split.
    + eapply D_realised; eauto.
    + intros p u W G. destruct (walk_short _ _ _ _ Hwf Hs W) as [p' [W' [C' L']]].
      destruct (D_lower _ Hwf (g_n g) _ _ _ Hs W' G) as [d' [Hd' Hle]]; [lia|].
      rewrite Hd in Hd'. inversion Hd'; subst. lia.
  - intros p u W. destruct (g_goal g u) eqn:G; auto.
    destruct (walk_short _ _ _ _ Hwf Hs W) as [p' [W' [C' L']]].
    destruct (D_lower _ Hwf (g_n g) _ _ _ Hs W' G) as [d' [Hd' Hle]]; [lia|].
    rewrite Hd in Hd'. discriminate.
Qed.

(* ------------------------------------------------------------------------- *)
(* path certificate                                                          *)
(* ------------------------------------------------------------------------- *)
Lemma find_edge_sound a t es e :
  find_edge a t es = Some e -> In e es /\ e_act e = a /\ e_dst e = t.
Proof.
  induction es as [|e' es IH]; simpl; intros H; [discriminate|].
  destruct ((e_act e' =? a)%nat && (e_dst e' =? t)%nat) eqn:E.
  - inversion H; subst. apply andb_true_iff in E. destruct E as [E1 E2].
    apply Nat.eqb_eq in E1. apply Nat.eqb_eq in E2. auto.
  - destruct (IH H) as [H1 H2]. auto.
Qed.

Lemma last_cons_indep {A} (x : A) l d d' : last (x :: l) d = last (x :: l) d'.
Proof. revert x. induction l as [|y l IH]; intros x; simpl; auto. apply (IH y). Qed.

Lemma path_edges_sound g : forall rest s acts p,
  path_edges g s rest acts = Some p ->
  walk g s p (last (s :: rest) s) /\ verts s p = s :: rest /\ map e_act p = acts.
Proof.
  induction rest as [|t rest IH]; intros s acts p H; simpl in H.
  - destruct acts; [|discriminate]. inversion H; subst. simpl. repeat split; constructor.
  - destruct acts as [|a acts]; [discriminate|].
    destruct (find_edge a t (g_succ g s)) as [e|] eqn:Fe; [|discriminate].
    destruct (path_edges g t rest acts) as [p'|] eqn:Pe; [|discriminate].
    inversion H; subst. destruct (find_edge_sound _ _ _ _ Fe) as [Hin [Ha Ht]].
    destruct (IH _ _ _ Pe) as [W [V M]].
    split; [|split].
    + constructor; auto. rewrite Ht.
      change (last (s :: t :: rest) s) with (last (t :: rest) s).
      rewrite (last_cons_indep t rest s t). exact W.
    + unfold verts in *. simpl. rewrite Ht. simpl in V. inversion V. now rewrite H1.
    + simpl. now rewrite Ha, M.
Qed.

(* the property's clauses for one search result *)
Definition valid_plan (g : graph) (start : nat) (r : plan) : Prop :=
  match r with
  | None => forall p u, walk g start p u -> g_goal g u = false
  | Some (path, acts, v) =>
      exists p u, walk g start p u /\ g_goal g u = true /\
                  verts start p = path /\ map e_act p = acts /\ cost p = v /\
                  (forall p' u', walk g start p' u' -> g_goal g u' = true -> v <= cost p')
  end.

Theorem path_cert_sound g start r :
  wf_graph g -> (start < g_n g)%nat -> path_cert g start r = true -> valid_plan g start r.
Proof.
  intros Hwf Hs H. pose proof (bf_dist_correct g start Hwf Hs) as BF.
  unfold path_cert, cert_clauses in H. destruct r as [[[path acts] v]|]; simpl.
  - destruct path as [|s0 rest]; [simpl in H; discriminate|].
    destruct (path_edges g s0 rest acts) as [p|] eqn:Pe.
    2:{ simpl in H. rewrite !andb_false_r in H. discriminate. }
    simpl in H. repeat (apply andb_true_iff in H; destruct H as [H ?]).
    apply Nat.eqb_eq in H; subst s0.
    destruct (path_edges_sound _ _ _ _ _ Pe) as [W [V M]].
    exists p, (last (start :: rest) start). repeat split; auto.
    + apply Z.eqb_eq; auto.
    + destruct (bf_dist g start) as [d|]; simpl in *; [|discriminate].
      match goal with Hd : (d =? v) = true |- _ => apply Z.eqb_eq in Hd; subst d end.
      destruct BF as [_ BF]. exact BF.
  - destruct (bf_dist g start); simpl in *; [discriminate|]. exact BF.
Qed.

Theorem path_cert_complete g start r :
  wf_graph g -> (start < g_n g)%nat ->
  match r with
  | None => forall p u, walk g start p u -> g_goal g u = false
  | Some (path, acts, v) =>
      exists p, path_edges g start (tl path) acts = Some p /\ hd_error path = Some start /\
                g_goal g (last path start) = true /\ cost p = v /\
                (forall p' u', walk g start p' u' -> g_goal g u' = true -> v <= cost p')
  end -> path_cert g start r = true.
Proof.
  intros Hwf Hs H. pose proof (bf_dist_correct g start Hwf Hs) as BF.
  unfold path_cert, cert_clauses. destruct r as [[[path acts] v]|].
  - destruct H as [p [Pe [Hh [G [C Hmin]]]]].
    destruct path as [|s0 rest]; [discriminate|]. simpl in Hh. inversion Hh; subst s0.
    simpl in Pe. rewrite Pe. simpl. rewrite Nat.eqb_refl. simpl in G.
    destruct (path_edges_sound _ _ _ _ _ Pe) as [W _].
    assert (E : oZeqb (bf_dist g start) v = true).
    { destruct (bf_dist g start) as [d|]; simpl in *.
      - destruct BF as [[p0 [u0 [W0 [G0 C0]]]] Hlow]. apply Z.eqb_eq.
        specialize (Hlow _ _ W G). specialize (Hmin _ _ W0 G0). lia.
      - specialize (BF _ _ W). simpl in BF. congruence. }
    rewrite E. replace (cost p =? v) with true by (symmetry; apply Z.eqb_eq; auto).
    destruct rest; simpl in *; rewrite G; reflexivity.
  - simpl. destruct (bf_dist g start) as [d|]; simpl in *; auto.
    destruct BF as [[p0 [u0 [W0 [G0 C0]]]] _]. specialize (H _ _ W0). congruence.
Qed.

(* ---- breadth-first search: the unit-cost graph counts steps ---- *)
Lemma wf_unit g : wf_graph g -> wf_graph (unit_graph g).
Proof.
  intros Hwf s e Hs He. simpl in *. apply in_map_iff in He. destruct He as [e0 [<- Hin]].
  destruct (Hwf _ _ Hs Hin). unfold unit_edge, e_dst, e_cost in *; simpl. split; auto; lia.
Qed.

Lemma walk_unit g s p u : walk g s p u -> walk (unit_graph g) s (map unit_edge p) u.
Proof.
  induction 1; simpl; constructor; auto. simpl. apply in_map; auto.
Qed.

Lemma unit_walk g s p u : walk (unit_graph g) s p u ->
  exists p', walk g s p' u /\ map unit_edge p' = p.
Proof.
  induction 1 as [s | s e p u He Hw [p' [W M]]].
  - exists []. split; constructor.
  - simpl in He. apply in_map_iff in He. destruct He as [e0 [<- Hin]].
    exists (e0 :: p'). split; [constructor; auto | simpl; now rewrite M].
Qed.

Lemma cost_unit p : cost (map unit_edge p) = Z.of_nat (length p).
Proof.
  induction p as [|e p IH]; [reflexivity|].
  change (map unit_edge (e :: p)) with (unit_edge e :: map unit_edge p).
  rewrite cost_cons, IH. change (e_cost (unit_edge e)) with 1.
  change (length (e :: p)) with (S (length p)). lia.
Qed.

Lemma verts_unit s p : verts s (map unit_edge p) = verts s p.
Proof. unfold verts. f_equal. rewrite map_map. apply map_ext. reflexivity. Qed.

Lemma acts_unit p : map e_act (map unit_edge p) = map e_act p.
Proof. rewrite map_map. apply map_ext. reflexivity. Qed.

Definition valid_bfs_plan (g : graph) (start : nat) (r : bfs_plan) : Prop :=
  match r with
  | None => forall p u, walk g start p u -> g_goal g u = false
  | Some (path, acts) =>
      exists p u, walk g start p u /\ g_goal g u = true /\
                  verts start p = path /\ map e_act p = acts /\
                  (forall p' u', walk g start p' u' -> g_goal g u' = true -> (length p <= length p')%nat)
  end.

Theorem bfs_cert_sound g start r :
  wf_graph g -> (start < g_n g)%nat -> bfs_cert g start r = true -> valid_bfs_plan g start r.
Proof.
  intros Hwf Hs H. unfold bfs_cert in H.
  apply path_cert_sound in H; [|apply wf_unit; auto | exact Hs].
  destruct r as [[path acts]|]; simpl in *.
  - destruct H as [p [u [W [G [V [M [C Hmin]]]]]]].
    destruct (unit_walk _ _ _ _ W) as [p' [W' E]]. subst p.
    exists p', u. rewrite verts_unit in V. rewrite acts_unit in M. rewrite cost_unit in C.
    repeat split; auto. intros p2 u2 W2 G2.
    specialize (Hmin _ _ (walk_unit _ _ _ _ W2) G2). rewrite cost_unit in Hmin. lia.
  - intros p u W. apply (H _ _ (walk_unit _ _ _ _ W)).
Qed.

(* ---- non-vacuity: a 4-state graph with a zero-cost edge, a cycle and two goals ---- *)
Definition ex_graph : graph :=
  graph_of [ [mkE 0 1 1; mkE 1 2 4] ; [mkE 0 2 0; mkE 1 0 1] ; [mkE 0 3 2] ; [] ; [mkE 0 3 1] ]
           [false; false; false; true; true].

Example ex_wf : wf_graph ex_graph /\ (0 < g_n ex_graph)%nat.
Proof. split; [apply wf_graphb_sound; reflexivity | simpl; lia]. Qed.
Example ex_bf : bf_dist ex_graph 0 = Some 3.
Proof. reflexivity. Qed.
Example ex_cert : path_cert ex_graph 0 (Some ([0; 1; 2; 3]%nat, [0; 0; 0]%nat, 3)) = true
               /\ path_cert ex_graph 0 (Some ([0; 2; 3]%nat, [1; 0]%nat, 6)) = false
               /\ bfs_cert ex_graph 0 (Some ([0; 2; 3]%nat, [1; 0]%nat)) = true
               /\ bfs_cert ex_graph 0 (Some ([0; 1; 2; 3]%nat, [0; 0; 0]%nat)) = false
               /\ path_cert ex_graph 3 None = false.
Proof. repeat split; reflexivity. Qed.

(* ---- from_mdp: "accepts a deterministic MDP however its single-outcome distributions are
   represented" ---- *)
Theorem from_mdp_repr d : from_mdp_read d = Some (dist_outcome d).
Proof. destruct d; reflexivity. Qed.

(* historical (code before /repo 9090d34 read support[0]): that read failed on the dict keys view *)
Lemma from_mdp_index0_refuted_historical : exists d, from_mdp_read_index0 d <> Some (dist_outcome d).
Proof. exists (DDict 0). discriminate. Qed.
