(* LRTDPExample.v — C04 non-vacuity: a concrete undiscounted (gamma = 1) stochastic MDP on which
   (i) the certificate checker accepts an LRTDP-like result whose heuristic default at the
   absorbing state is junk (7) and whose start distribution puts mass on the absorbing state,
   and (ii) an operation log with a failed and a successful labelling replays through the machine.

   s0: a0 -> s1 (1/2) | s2 (1/2), reward -1;  a1 -> s0 (1/2) | s2 (1/2), reward -2.
   s1: a0 -> s2, reward -2.     s2: absorbing (self-loop paying 5, to be ignored).
   V* = (-2, -2, 0); greedy policy a0,a0; expected steps N = (3/2, 1, 0); all-policy weights (2, 1, 0). *)
From Coq Require Import QArith Qreals Reals Lra List Bool.
From MSDM Require Import base.Num base.NumInst base.NumR base.Transfer model.MDP model.VI model.LRTDP
     theory.LRTDPTheory theory.LRTDPMachine theory.LRTDPTransfer theory.LRTDPMain.
Import ListNotations.
Local Open Scope Q_scope.

Definition lxP : list (list (list Q)) :=
  [ [[0; 1#2; 1#2]; [1#2; 0; 1#2]]; [[0; 0; 1]; [0; 0; 0]]; [[0; 0; 1]; [0; 0; 0]] ].
Definition lxR : list (list (list Q)) :=
  [ [[0; -1; -1]; [-2; 0; -2]]; [[0; 0; -2]; [0; 0; 0]]; [[0; 0; 5]; [0; 0; 0]] ].
Definition lxAv := [[true; true]; [true; false]; [true; false]].
Definition lxAb := [false; false; true].
Definition lxIni : list Q := [1#2; 0; 1#2].

Definition lxV : list Q := [-2 + (1#1000); -2; 7].
Definition lxSol := [true; true; true].
Definition lxTch := [true; true; false].
Definition lxPi := [0%nat; 0%nat; 0%nat].
Definition lxQ : list (list (option Q)) :=
  [[Some (-2); Some (-2 + (-1999#2000))]; [Some (-2); None]; [None; None]].
Definition lxRet : list (list Q) := [[1; 0]; [1; 0]; [1; 0]].
Definition lxIv : Q := (1#2) * (-2 + (1#1000)).
Definition lxN : list Q := [3#2; 1; 0].
Definition lxVpi : list Q := [-2; -2; 0].
Definition lxVs : list Q := [-2; -2; 0].
Definition lxW : list Q := [2; 1; 0].
Definition lxT : @lrtols Q := mkLTol (1#100) 0 0 0 0.

Example lx_check :
  @c04_check Q NumQ (mk_mdp 3 2 lxP lxR lxAv lxAb lxIni 1)
             (mk_lrout lxV lxSol lxTch lxPi lxQ lxRet lxIv) (mk_cert lxN lxVpi lxVs lxW) lxT
  = all_true13.
Proof. vm_compute. reflexivity. Qed.

(* the optimum exists: lxVs satisfies the optimality equations *)
Example lx_optfix : optfix (lmR 3 2 lxP lxR lxAv lxAb lxIni 1) (cVs (lcR lxN lxVpi lxVs lxW)).
Proof.
  apply c_vstar_optfix.
  apply (lclauses 3 2 lxP lxR lxAv lxAb lxIni 1 lxV lxSol lxTch lxPi lxQ lxRet lxIv lxN lxVpi lxVs lxW lxT lx_check).
Qed.

(* so the conclusion of main_bound_state is a real statement: at the start state s0
   the estimate exceeds the optimum by at most margin * 3/2 *)
Example lx_bound :
  (- Q2R (tu lxT) <= lV (loR lxV lxSol lxTch lxPi lxQ lxRet lxIv) 0 - cVs (lcR lxN lxVpi lxVs lxW) 0
     <= Q2R (teps lxT) * cN (lcR lxN lxVpi lxVs lxW) 0)%R.
Proof.
  assert (He : (0 <= Q2R (teps lxT))%R) by (unfold Q2R; simpl; lra).
  apply (main_bound_state 3 2 lxP lxR lxAv lxAb lxIni 1 lxV lxSol lxTch lxPi lxQ lxRet lxIv
           lxN lxVpi lxVs lxW lxT lx_check (cVs (lcR lxN lxVpi lxVs lxW)) He lx_optfix
           0%nat (Nat.lt_0_succ 2) eq_refl).
Qed.

(* machine: heuristic 0 on the states, junk 7 at the absorbing state; margin 1/100 *)
Definition lxH : list Q := [0; 0; 7].
Definition lxOrd : list (list nat) := [[0%nat; 1%nat]; [0%nat]; [0%nat]].
Definition lxOps : list (lop * Q) :=
  [(OUpd 0, -1); (OUpd 1, -2); (OAbs 2, 0); (OLabel [1%nat], 0); (OUpd 0, -2); (OLabel [0%nat], 0)].

Example lx_replay :
  @replay_check Q NumQ (mk_mdp 3 2 lxP lxR lxAv lxAb lxIni 1) (1#100) (ordf lxOrd) (1#1000000000)
                lxH lxOps [true; true; true] [-2; -2; 7] [0%nat; 0%nat; 0%nat] = all_true5.
Proof. vm_compute. reflexivity. Qed.

(* labelling s0 right after its first update is refused by the guard (residual 1 > margin) *)
Example lx_guard_refuses :
  @replay_check Q NumQ (mk_mdp 3 2 lxP lxR lxAv lxAb lxIni 1) (1#100) (ordf lxOrd) (1#1000000000)
                lxH [(OUpd 0, -1); (OUpd 1, -2); (OAbs 2, 0); (OLabel [1%nat], 0); (OLabel [0%nat], 0)]
                [true; true; true] [-1; -2; 7] [0%nat; 0%nat; 0%nat] = [false; false; false; false; false].
Proof. vm_compute. reflexivity. Qed.

(* ------------------------------------------------------------------ *)
(* Refutation witness for "every ADMISSIBLE heuristic" when the greedy action of a labelled
   state is RECOMPUTED from the final table (what _tear_down_plan_on does) instead of being the
   action recorded at labelling time.  gamma = 1.
   0=I1 -> s.   1=s: a0 -> G (-10) | a1 -> t (0).   2=p: a0 -> t (1/2) | t2 (1/2) ; a1 -> G (-15).
   3=t -> 4=u -> 5=w (0), w -> G (-20), 6=t2 -> G (-100), 7=G absorbing.
   V* = (-10,-10,-15,-20,-20,-20,-100,0).  h = (-10,-10,-6,-12,-5,-3,0,0) >= V*, but
   (T h)(t) = h(u) = -5 > h(t) = -12: admissible, not monotone.
   Log (a real trial history of msdm's LRTDP, seeds 3 and 9 of harness repro): s is labelled with a0;
   a later trial raises V[t] to -5 and a failed _check_solved leaves it there; p ends on a1.
   Final table: Q(s,a1) = -5 > Q(s,a0) = -10 = V[s]: the recomputed greedy action of the labelled
   state s is a1, its residual is 5 > margin, its successor t is not labelled, and following it
   from I1 returns -20 instead of -10. *)
Definition nmP : list (list (list Q)) :=
  [ [[0;1;0;0;0;0;0;0]; [0;0;0;0;0;0;0;0]];
    [[0;0;0;0;0;0;0;1]; [0;0;0;1;0;0;0;0]];
    [[0;0;0;1#2;0;0;1#2;0]; [0;0;0;0;0;0;0;1]];
    [[0;0;0;0;1;0;0;0]; [0;0;0;0;0;0;0;0]];
    [[0;0;0;0;0;1;0;0]; [0;0;0;0;0;0;0;0]];
    [[0;0;0;0;0;0;0;1]; [0;0;0;0;0;0;0;0]];
    [[0;0;0;0;0;0;0;1]; [0;0;0;0;0;0;0;0]];
    [[0;0;0;0;0;0;0;1]; [0;0;0;0;0;0;0;0]] ].
Definition nmR : list (list (list Q)) :=
  [ [[0;0;0;0;0;0;0;0]; [0;0;0;0;0;0;0;0]];
    [[0;0;0;0;0;0;0;-10]; [0;0;0;0;0;0;0;0]];
    [[0;0;0;0;0;0;0;0]; [0;0;0;0;0;0;0;-15]];
    [[0;0;0;0;0;0;0;0]; [0;0;0;0;0;0;0;0]];
    [[0;0;0;0;0;0;0;0]; [0;0;0;0;0;0;0;0]];
    [[0;0;0;0;0;0;0;-20]; [0;0;0;0;0;0;0;0]];
    [[0;0;0;0;0;0;0;-100]; [0;0;0;0;0;0;0;0]];
    [[0;0;0;0;0;0;0;0]; [0;0;0;0;0;0;0;0]] ].
Definition nmAv := [[true;false];[true;true];[true;true];[true;false];[true;false];[true;false];[true;false];[true;false]].
Definition nmAb := [false;false;false;false;false;false;false;true].
Definition nmIni : list Q := [1#2; 0; 1#2; 0; 0; 0; 0; 0].
Definition nmM : mdp Q := mk_mdp 8 2 nmP nmR nmAv nmAb nmIni 1.
Definition nmH : list Q := [-10; -10; -6; -12; -5; -3; 0; 0].
Definition nmVs : list Q := [-10; -10; -15; -20; -20; -20; -100; 0].
Definition nmW : list Q := [5; 4; 3; 3; 2; 1; 1; 0].
Definition nmOrd : list (list nat) := [[0];[0;1];[0;1];[0];[0];[0];[0];[0]]%nat.
Definition nmOps : list lop :=
  [ OUpd 0; OUpd 1; OAbs 7; OLabel [1%nat]; OLabel [0%nat];              (* trial from I1 *)
    OUpd 2; OUpd 3; OUpd 4; OUpd 5; OLabel [5%nat]; OUpd 4;             (* trial p -> t -> u -> w; check u fails *)
    OUpd 2; OUpd 6; OLabel [6%nat]; OUpd 2;                             (* trial p -> t2; check p fails *)
    OUpd 2; OLabel [2%nat] ].                                           (* trial p -> G; p labelled *)

Definition nm_witness : bool :=
  @lr_wfb Q NumQ nmM &&
  @c_vstar Q NumQ nmM (mk_cert [] [] nmVs nmW) && @c_w Q NumQ nmM (mk_cert [] [] nmVs nmW) &&   (* nmVs IS the optimum; MDP proper *)
  forallbn 8 (fun s => Qle_bool (untab nmVs s) (untab nmH s)) &&                                  (* h admissible *)
  match @run Q NumQ nmM (1#100) (ordf nmOrd) (init_state nmM nmH) nmOps with
  | None => false
  | Some st =>
    forallbn 8 (fun s => if Qle_bool (untab nmIni s) 0 then true else sSol st s) &&   (* all initial states labelled *)
    sSol st 1 && (sAct st 1 =? 0)%nat &&                                            (* s labelled with a0 *)
    match @greedy Q NumQ nmM (ordf nmOrd) (sV st) 1 with
    | Some a => (a =? 1)%nat                                                         (* recomputed: a1 *)
    | None => false end &&
    @nltb Q NumQ (1#100) (@nabs Q NumQ (@nsub Q NumQ (sV st 1) (@Qlr Q NumQ nmM (sV st) 1 1))) &&  (* its residual > margin *)
    negb (sSol st 3) &&                                                              (* its successor t is not labelled *)
    Qle_bool (@Qlr Q NumQ nmM (untab nmVs) 1 1) (-20)                                 (* and it is worth -20, optimum -10 *)
  end.

Example nm_refutes : nm_witness = true.
Proof. vm_compute. reflexivity. Qed.

Lemma nm_refutes_ex :
  @lr_wfb Q NumQ nmM = true /\
  @c_vstar Q NumQ nmM (mk_cert [] [] nmVs nmW) = true /\ @c_w Q NumQ nmM (mk_cert [] [] nmVs nmW) = true /\
  forallbn 8 (fun s => Qle_bool (untab nmVs s) (untab nmH s)) = true /\
  exists st : @lst Q,
    @run Q NumQ nmM (1#100) (ordf nmOrd) (init_state nmM nmH) nmOps = Some st /\
    forallbn 8 (fun s => if Qle_bool (untab nmIni s) 0 then true else sSol st s) = true /\
    sSol st 1 = true /\ sAct st 1 = 0%nat /\
    @greedy Q NumQ nmM (ordf nmOrd) (sV st) 1 = Some 1%nat /\
    @nltb Q NumQ (1#100) (@nabs Q NumQ (@nsub Q NumQ (sV st 1) (@Qlr Q NumQ nmM (sV st) 1 1))) = true /\
    sSol st 3 = false /\
    Qle_bool (@Qlr Q NumQ nmM (untab nmVs) 1 1) (-20) = true.
Proof.
  pose proof nm_refutes as H. unfold nm_witness in H.
  destruct (@run Q NumQ nmM (1#100) (ordf nmOrd) (init_state nmM nmH) nmOps) as [st|] eqn:E.
  - rewrite !andb_true_iff in H. destruct H as [[[[H1 H2] H3] H4] H].
    repeat split; auto. exists st. split; [reflexivity|].
    destruct H as [[[[[[G1 G2] G3] G4] G5] G6] G7].
    destruct (@greedy Q NumQ nmM (ordf nmOrd) (sV st) 1) as [a|]; [|discriminate].
    apply Nat.eqb_eq in G3, G4. subst a. apply negb_true_iff in G6.
    repeat split; auto.
  - rewrite andb_false_r in H. discriminate.
Qed.
