(* LRTDPExample.v — C04 non-vacuity: a concrete undiscounted (gamma = 1) stochastic MDP on which
   (i) the certificate checker accepts an LRTDP-like result whose heuristic default at the
   absorbing state is junk (7) and whose start distribution puts mass on the absorbing state,
   and (ii) an operation log with a failed and a successful labelling replays through the machine.

   s0: a0 -> s1 (1/2) | s2 (1/2), reward -1;  a1 -> s0 (1/2) | s2 (1/2), reward -2.
   s1: a0 -> s2, reward -2.     s2: absorbing (self-loop paying 5, to be ignored).
   V* = (-2, -2, 0); greedy policy a0,a0; expected steps N = (3/2, 1, 0); all-policy weights (2, 1, 0). *)
From Coq Require Import QArith Qreals Reals Lra List Bool.
From MSDM Require Import base.Num base.NumInst base.NumR base.Transfer model.MDP model.VI model.LRTDP
     theory.LRTDPTheory theory.LRTDPMachine theory.LRTDPTransfer theory.LRTDPMain.
Import ListNotations.
Local Open Scope Q_scope.

Definition lxP : list (list (list Q)) :=
  [ [[0; 1#2; 1#2]; [1#2; 0; 1#2]]; [[0; 0; 1]; [0; 0; 0]]; [[0; 0; 1]; [0; 0; 0]] ].
Definition lxR : list (list (list Q)) :=
  [ [[0; -1; -1]; [-2; 0; -2]]; [[0; 0; -2]; [0; 0; 0]]; [[0; 0; 5]; [0; 0; 0]] ].
Definition lxAv := [[true; true]; [true; false]; [true; false]].
Definition lxAb := [false; false; true].
Definition lxIni : list Q := [1#2; 0; 1#2].

Definition lxV : list Q := [-2 + (1#1000); -2; 7].
Definition lxSol := [true; true; true].
Definition lxTch := [true; true; false].
Definition lxPi := [0%nat; 0%nat; 0%nat].
Definition lxQ : list (list (option Q)) :=
  [[Some (-2); Some (-2 + (-1999#2000))]; [Some (-2); None]; [None; None]].
Definition lxRet : list (list Q) := [[1; 0]; [1; 0]; [1; 0]].
Definition lxIv : Q := (1#2) * (-2 + (1#1000)).
Definition lxN : list Q := [3#2; 1; 0].
Definition lxVpi : list Q := [-2; -2; 0].
Definition lxVs : list Q := [-2; -2; 0].
Definition lxW : list Q := [2; 1; 0].
Definition lxT : @lrtols Q := mkLTol (1#100) 0 0 0 0.

Example lx_check :
  @c04_check Q NumQ (mk_mdp 3 2 lxP lxR lxAv lxAb lxIni 1)
             (mk_lrout lxV lxSol lxTch lxPi lxQ lxRet lxIv) (mk_cert lxN lxVpi lxVs lxW) lxT
  = all_true13.
Proof. vm_compute. reflexivity. Qed.

(* the optimum exists: lxVs satisfies the optimality equations *)
Example lx_optfix : optfix (lmR 3 2 lxP lxR lxAv lxAb lxIni 1) (cVs (lcR lxN lxVpi lxVs lxW)).
Proof.
  apply c_vstar_optfix.
  apply (lclauses 3 2 lxP lxR lxAv lxAb lxIni 1 lxV lxSol lxTch lxPi lxQ lxRet lxIv lxN lxVpi lxVs lxW lxT lx_check).
Qed.

(* so the conclusion of main_bound_state is a real statement: at the start state s0
   the estimate exceeds the optimum by at most margin * 3/2 *)
Example lx_bound :
  (- Q2R (tu lxT) <= lV (loR lxV lxSol lxTch lxPi lxQ lxRet lxIv) 0 - cVs (lcR lxN lxVpi lxVs lxW) 0
     <= Q2R (teps lxT) * cN (lcR lxN lxVpi lxVs lxW) 0)%R.
Proof.
  assert (He : (0 <= Q2R (teps lxT))%R) by (unfold Q2R; simpl; lra).
  apply (main_bound_state 3 2 lxP lxR lxAv lxAb lxIni 1 lxV lxSol lxTch lxPi lxQ lxRet lxIv
           lxN lxVpi lxVs lxW lxT lx_check (cVs (lcR lxN lxVpi lxVs lxW)) He lx_optfix
           0%nat (Nat.lt_0_succ 2) eq_refl).
Qed.

(* machine: heuristic 0 on the states, junk 7 at the absorbing state; margin 1/100 *)
Definition lxH : list Q := [0; 0; 7].
Definition lxOrd : list (list nat) := [[0%nat; 1%nat]; [0%nat]; [0%nat]].
Definition lxOps : list (lop * Q) :=
  [(OUpd 0, -1); (OUpd 1, -2); (OAbs 2, 0); (OLabel [1%nat], 0); (OUpd 0, -2); (OLabel [0%nat], 0)].

Example lx_replay :
  @replay_check Q NumQ (mk_mdp 3 2 lxP lxR lxAv lxAb lxIni 1) (1#100) (ordf lxOrd) (1#1000000000)
                lxH lxOps [true; true; true] [-2; -2; 7] = all_true4.
Proof. vm_compute. reflexivity. Qed.

(* labelling s0 right after its first update is refused by the guard (residual 1 > margin) *)
Example lx_guard_refuses :
  @replay_check Q NumQ (mk_mdp 3 2 lxP lxR lxAv lxAb lxIni 1) (1#100) (ordf lxOrd) (1#1000000000)
                lxH [(OUpd 0, -1); (OUpd 1, -2); (OAbs 2, 0); (OLabel [1%nat], 0); (OLabel [0%nat], 0)]
                [true; true; true] [-1; -2; 7] = [false; false; false; false].
Proof. vm_compute. reflexivity. Qed.
