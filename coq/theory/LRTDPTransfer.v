(* LRTDPTransfer.v — C04: what vm_compute evaluates on Q (certificate checker, machine replay)
   is the function the theorems of LRTDPTheory.v / LRTDPMachine.v are about (R instance),
   by the parametricity translation. *)
From Coq Require Import QArith Qreals Reals List Bool.
From Param Require Import Param.
From MSDM Require Import base.Num base.NumInst base.Transfer model.MDP model.VI model.LRTDP
     theory.VITransfer.
Import ListNotations.

Parametricity Recursive mk_lrout.
Parametricity Recursive mk_cert.
Parametricity Recursive c04_check.
Parametricity Recursive replay_check.

Definition ltolsR (t : @lrtols Q) : @lrtols R :=
  mkLTol (Q2R (teps t)) (Q2R (tgre t)) (Q2R (tq t)) (Q2R (ti t)) (Q2R (tu t)).

Theorem c04_check_transfer nS nA P Rw av ab ini g V sol tch pi Qv ret iv N Vpi Vs W (tl : @lrtols Q) :
  @c04_check Q NumQ (mk_mdp nS nA P Rw av ab ini g) (mk_lrout V sol tch pi Qv ret iv)
             (mk_cert N Vpi Vs W) tl =
  @c04_check R NumR
     (mk_mdp nS nA (map3 Q2R P) (map3 Q2R Rw) av ab (map Q2R ini) (Q2R g))
     (mk_lrout (map Q2R V) sol tch pi (map2 (option_map Q2R) Qv) (map2 Q2R ret) (Q2R iv))
     (mk_cert (map Q2R N) (map Q2R Vpi) (map Q2R Vs) (map Q2R W))
     (ltolsR tl).
Proof.
  apply list_R_bool_eq.
  apply (c04_check_R Q R QR NumQ NumR NumQR).
  - apply (mk_mdp_R Q R QR NumQ NumR NumQR); try apply nat_R_refl;
      auto using list_R_map1, list_R_map2, list_R_map3, list_R_bool_refl, list_R_bool2_refl.
    reflexivity.
  - apply (mk_lrout_R Q R QR NumQ NumR NumQR);
      auto using list_R_map1, list_R_map2, list_R_opt2, list_R_bool_refl, list_R_nat_refl.
    reflexivity.
  - apply (mk_cert_R Q R QR NumQ NumR NumQR); auto using list_R_map1.
  - destruct tl. constructor; reflexivity.
Qed.
Print Assumptions c04_check_transfer.

(* ---- machine replay ---- *)
Lemma lop_R_refl (o : lop) : lop_R o o.
Proof. destruct o; constructor; auto using nat_R_refl, list_R_nat_refl. Qed.

Definition opsR (ops : list (lop * Q)) : list (lop * R) := map (fun p => (fst p, Q2R (snd p))) ops.

Lemma ops_R_map (ops : list (lop * Q)) :
  list_R _ _ (prod_R lop lop lop_R Q R QR) ops (opsR ops).
Proof.
  unfold opsR. apply list_R_map. intros [o v]. constructor; [apply lop_R_refl|reflexivity].
Qed.

Definition ordf (l : list (list nat)) (s : nat) : list nat := nth s l [].

Theorem replay_check_transfer nS nA P Rw av ab ini g eps ordl tol h ops solI VI actI :
  @replay_check Q NumQ (mk_mdp nS nA P Rw av ab ini g) eps (ordf ordl) tol h ops solI VI actI =
  @replay_check R NumR
     (mk_mdp nS nA (map3 Q2R P) (map3 Q2R Rw) av ab (map Q2R ini) (Q2R g))
     (Q2R eps) (ordf ordl) (Q2R tol) (map Q2R h) (opsR ops) solI (map Q2R VI) actI.
Proof.
  apply list_R_bool_eq.
  apply (replay_check_R Q R QR NumQ NumR NumQR).
  - apply (mk_mdp_R Q R QR NumQ NumR NumQR); try apply nat_R_refl;
      auto using list_R_map1, list_R_map2, list_R_map3, list_R_bool_refl, list_R_bool2_refl.
    reflexivity.
  - reflexivity.
  - intros s1 s2 Hs. apply nat_R_eq in Hs. subst. apply list_R_nat_refl.
  - reflexivity.
  - apply list_R_map1.
  - apply ops_R_map.
  - apply list_R_bool_refl.
  - apply list_R_map1.
  - apply list_R_nat_refl.
Qed.
Print Assumptions replay_check_transfer.
