(* VITheory.v — C01: soundness of the certificate checker model/VI.v:c01_check
   (R instance), for every finite MDP of any size. *)
From Coq Require Import Reals Lra Lia List Arith Bool.
From MSDM Require Import base.Num base.NumInst base.NumR model.MDP model.VI theory.Bellman.
Import ListNotations.
Local Open Scope R_scope.

Lemma neqb_Req x y : @neqb R NumR x y = true <-> x = y.
Proof.
  unfold neqb; numR. rewrite andb_true_iff, !Rleb_true. split; [lra|intros ->; lra].
Qed.
Lemma nleb_Rle x y : @nleb R NumR x y = true <-> x <= y.
Proof. numR. apply Rleb_true. Qed.

Lemma existsb_seq n p : existsb p (seq 0 n) = true <-> exists i, (i < n)%nat /\ p i = true.
Proof.
  rewrite existsb_exists. split.
  - intros (i & Hi & Hp). apply in_seq in Hi. exists i; split; [lia|auto].
  - intros (i & Hi & Hp). exists i; split; [apply in_seq; lia|auto].
Qed.

Lemma sumf_indicator n (p : nat -> bool) c :
  sumf n (fun i => if p i then c else 0) = INR (countb n p) * c.
Proof.
  unfold countb. induction n.
  - simpl. lra.
  - rewrite sumf_S, IHn, seq_S, filter_app, app_length, plus_INR. simpl.
    destruct (p n); simpl; lra.
Qed.

Section VI.
Variable m : mdp R.
Variable o : @planout R.
Variable t : @tols R.

Notation Vz := (Vz m o).

(* ---------- the boolean well-formedness test implies the theory's wf ---------- *)
Lemma wfb_wf : wfb m = true -> wf m.
Proof.
  unfold wfb. rewrite !andb_true_iff, forallbn_spec. intros [[G0 G1] H].
  apply nleb_Rle in G0. apply nleb_Rle in G1.
  assert (HP : forall s a ns, (s < nS m)%nat -> (a < nA m)%nat -> (ns < nS m)%nat -> 0 <= P m s a ns).
  { intros s a ns Hs Ha Hns. specialize (H s Hs). apply andb_true_iff in H as [_ H].
    rewrite forallbn_spec in H. specialize (H a Ha). apply andb_true_iff in H as [H _].
    rewrite forallbn_spec in H. apply nleb_Rle. apply H; auto. }
  constructor; auto.
  - intros s a ns Hs Ha Hns. unfold Pm. destruct (masked m s); [numR; lra|auto].
  - intros s a Hs Ha. unfold Pm. destruct (masked m s).
    + rewrite sumf_0; [lra|auto].
    + specialize (H s Hs). apply andb_true_iff in H as [_ H].
      rewrite forallbn_spec in H. specialize (H a Ha). apply andb_true_iff in H as [_ H].
      destruct (avail m s a).
      * apply neqb_Req in H. numR. change (sumf (nS m) (P m s a) <= 1). rewrite H. lra.
      * rewrite forallbn_spec in H. rewrite sumf_0; [lra|]. intros ns Hns. apply neqb_Req. auto.
  - intros s Hs. specialize (H s Hs). apply andb_true_iff in H as [H _].
    apply existsb_seq in H. exact H.
Qed.

(* masked states: every look-ahead is 0 *)
Lemma Qval_masked V s a : masked m s = true -> Qval m V s a = 0.
Proof.
  intros Hm. rewrite Qval_R. unfold Rm, Pm. rewrite Hm. numR.
  rewrite sumf_0; [lra|]. intros; lra.
Qed.
Lemma Top_masked V s : wf m -> (s < nS m)%nat -> masked m s = true -> Top m V s = 0.
Proof.
  intros Wf Hs Hm. pose proof (backup_some m V s Wf Hs) as Hb. unfold backup in Hb.
  destruct (maxf_attained _ _ _ _ Hb) as (a & Ha & Hav & Hq).
  rewrite <- Hq. apply Qval_masked; auto.
Qed.

Lemma unable_disc s : gamma m < 1 -> unable_to_reach m s = false.
Proof.
  intros G. unfold unable_to_reach.
  assert (E : @nltb R NumR (gamma m) n1 = true) by (apply nltb_R; numR; exact G).
  now rewrite E.
Qed.
Lemma Vz_disc s : gamma m < 1 -> Vz s = oV o s.
Proof. intros G. unfold VI.Vz. now rewrite unable_disc. Qed.
Lemma masked_disc s : gamma m < 1 -> masked m s = absorbing m s.
Proof. intros G. unfold masked. now rewrite unable_disc. Qed.

Lemma c_abs_spec s :
  c_abs m o = true -> (s < nS m)%nat -> absorbing m s = true -> oV o s = 0.
Proof.
  unfold c_abs. rewrite forallbn_spec. intros H Hs Ha. specialize (H s Hs).
  rewrite Ha in H. apply andb_true_iff in H as [H _]. now apply neqb_Req.
Qed.

(* Bellman residual of the reported values, at every state *)
Lemma residual_all :
  wf m -> 0 <= epsb t -> c_abs m o = true -> c_res m o t = true ->
  forall s, (s < nS m)%nat -> Rabs (Vz s - Top m Vz s) <= epsb t.
Proof.
  intros Wf He Ha Hr s Hs.
  destruct (masked m s) eqn:Hm.
  - rewrite Top_masked; auto. unfold masked in Hm. unfold VI.Vz.
    destruct (unable_to_reach m s) eqn:Hu.
    + match goal with |- Rabs ?x <= _ => replace x with 0 by (numR; lra) end.
      rewrite Rabs_R0; lra.
    + simpl in Hm. rewrite (c_abs_spec s Ha Hs Hm).
      match goal with |- Rabs ?x <= _ => replace x with 0 by (numR; lra) end.
      rewrite Rabs_R0; lra.
  - unfold c_res in Hr. rewrite forallbn_spec in Hr. specialize (Hr s Hs).
    rewrite Hm in Hr. rewrite (backup_some m Vz s Wf Hs) in Hr.
    apply ncloseb_R in Hr. unfold VI.Vz at 1.
    unfold masked in Hm. apply orb_false_iff in Hm as [Hu _]. now rewrite Hu.
Qed.

(* ---- 1. values: within epsb/(1-gamma) of THE optimal value function ---- *)
Theorem c01_values Vs :
  wf m -> gamma m < 1 -> fixpoint m Vs -> 0 <= epsb t ->
  c_abs m o = true -> c_res m o t = true ->
  forall s, (s < nS m)%nat -> Rabs (oV o s - Vs s) <= epsb t / (1 - gamma m).
Proof.
  intros Wf G Hfix He Ha Hr s Hs.
  rewrite <- (Vz_disc s G).
  apply (residual_bound m Vz Vs (epsb t)); auto.
  apply residual_all; auto.
Qed.

(* ---- 2. absorbing states are worth 0 ---- *)
Theorem c01_absorbing_zero s a :
  c_abs m o = true -> (s < nS m)%nat -> (a < nA m)%nat -> absorbing m s = true ->
  oV o s = 0 /\ (avail m s a = true -> oQ o s a = Some 0).
Proof.
  intros H Hs Ha Hab. split; [apply c_abs_spec; auto|].
  unfold c_abs in H. rewrite forallbn_spec in H. specialize (H s Hs).
  rewrite Hab in H. apply andb_true_iff in H as [_ H]. rewrite forallbn_spec in H.
  specialize (H a Ha). intros Hav. rewrite Hav in H.
  destruct (oQ o s a); [|discriminate]. apply neqb_Req in H. now subst.
Qed.

(* ---- 3. policy support ---- *)
Lemma c_q_spec s a :
  c_q m o t = true -> (s < nS m)%nat -> (a < nA m)%nat -> masked m s = false ->
  avail m s a = true -> Rabs (Qfin o s a - Qval m Vz s a) <= qtol t.
Proof.
  unfold c_q. rewrite forallbn_spec. intros H Hs Ha Hm Hav. specialize (H s Hs).
  rewrite Hm in H. rewrite forallbn_spec in H. specialize (H a Ha).
  unfold Qfin. destruct (oQ o s a).
  - apply andb_true_iff in H as [_ H]. now apply ncloseb_R in H.
  - rewrite Hav in H. discriminate.
Qed.

Lemma c_pol_spec s :
  c_pol m o t = true -> (s < nS m)%nat -> masked m s = false ->
  exists mx, maxQ m o s = Some mx /\
    forall a, (a < nA m)%nat ->
      (insupp o s a = true ->
         avail m s a = true /\ mx - band_hi t mx <= Qfin o s a /\
         Rabs (oPi o s a * INR (suppcount m o s) - 1) <= ptol t) /\
      (insupp o s a = false ->
         oPi o s a = 0 /\ (avail m s a = true -> Qfin o s a < mx - band_lo t mx)).
Proof.
  unfold c_pol. rewrite forallbn_spec. intros H Hs Hm. specialize (H s Hs). rewrite Hm in H.
  destruct (maxQ m o s) as [mx|]; [|discriminate]. exists mx. split; [reflexivity|].
  rewrite forallbn_spec in H. intros a Ha. specialize (H a Ha).
  destruct (insupp o s a); split; try discriminate; intros _.
  - rewrite !andb_true_iff in H. destruct H as [[H1 H2] H3].
    apply nleb_Rle in H2. apply ncloseb_R in H3. rewrite nofnat_R in H3.
    split; [auto|]. split; [exact H2|exact H3].
  - rewrite andb_true_iff in H. destruct H as [H1 H2]. apply neqb_Req in H1.
    split; [auto|]. intros Hav. rewrite Hav in H2. simpl in H2. now apply nltb_R in H2.
Qed.

(* placeholder states: the policy row is a distribution over the state's own available actions *)
Lemma c_pol_placeholder s :
  c_polu m o t = true -> (s < nS m)%nat -> masked m s = true -> absorbing m s = false ->
  (forall a, (a < nA m)%nat -> 0 < oPi o s a -> avail m s a = true) /\
  Rabs (sumf (nA m) (oPi o s) - 1) <= ptol t.
Proof.
  unfold c_polu. rewrite forallbn_spec. intros H Hs Hm Hab. specialize (H s Hs).
  rewrite Hm, Hab in H. simpl in H. apply andb_true_iff in H as [H1 H2]. split.
  - rewrite forallbn_spec in H1. intros a Ha Hp. specialize (H1 a Ha).
    assert (Hi : insupp o s a = true) by (unfold insupp; apply nltb_R; numR; exact Hp).
    rewrite Hi in H1. exact H1.
  - now apply ncloseb_R in H2.
Qed.

Definition eta (mx : R) : R :=
  band_hi t mx + 2 * qtol t + 2 * (gamma m * (epsb t / (1 - gamma m))).

Theorem c01_support Vs s a :
  wf m -> gamma m < 1 -> fixpoint m Vs -> 0 <= epsb t ->
  c_abs m o = true -> c_res m o t = true -> c_q m o t = true -> c_pol m o t = true ->
  (s < nS m)%nat -> (a < nA m)%nat -> masked m s = false -> 0 < oPi o s a ->
  exists mx, maxQ m o s = Some mx /\ avail m s a = true /\
             Vs s - eta mx <= Qval m Vs s a.
Proof.
  intros Wf G Hfix He Hab Hres Hq Hpol Hs Ha Hm Hpos.
  destruct (c_pol_spec s Hpol Hs Hm) as (mx & Hmx & Hall).
  exists mx. split; [exact Hmx|].
  assert (Hin : insupp o s a = true) by (unfold insupp; now apply nltb_R).
  destruct (proj1 (Hall a Ha) Hin) as (Hav & Hband & _). split; [exact Hav|].
  set (D := epsb t / (1 - gamma m)).
  assert (HD : forall ns, (ns < nS m)%nat -> Rabs (Vz ns - Vs ns) <= D).
  { intros ns Hns. rewrite Vz_disc by auto. apply c01_values; auto. }
  assert (HD0 : 0 <= D).
  { unfold D. apply Rmult_le_pos; [lra|]. left. apply Rinv_0_lt_compat. lra. }
  (* upper bound on the optimum: Vs s <= mx + qtol + gamma D *)
  assert (Hup : Vs s <= mx + qtol t + gamma m * D).
  { rewrite (Hfix s Hs). pose proof (backup_some m Vs s Wf Hs) as Hb. unfold backup in Hb.
    eapply maxf_le_bound; [exact Hb|]. intros a' Ha' Hav'.
    pose proof (Qval_diff m Vz Vs s a' D Wf Hs Ha' HD HD0) as H1. apply Rabs_le_inv' in H1.
    pose proof (c_q_spec s a' Hq Hs Ha' Hm Hav') as H2. apply Rabs_le_inv' in H2.
    pose proof (maxf_ge _ _ _ _ _ Hmx Ha' Hav') as H3. lra. }
  pose proof (Qval_diff m Vz Vs s a D Wf Hs Ha HD HD0) as H1. apply Rabs_le_inv' in H1.
  pose proof (c_q_spec s a Hq Hs Ha Hm Hav) as H2. apply Rabs_le_inv' in H2.
  unfold eta. fold D. lra.
Qed.

(* exact ties are shared: every available action within band_lo of the best reported
   action value is in the support *)
Theorem c01_ties_shared s a mx :
  c_pol m o t = true -> (s < nS m)%nat -> (a < nA m)%nat -> masked m s = false ->
  maxQ m o s = Some mx -> avail m s a = true -> mx - band_lo t mx <= Qfin o s a ->
  0 < oPi o s a.
Proof.
  intros Hpol Hs Ha Hm Hmx Hav Hge.
  destruct (c_pol_spec s Hpol Hs Hm) as (mx' & Hmx' & Hall).
  rewrite Hmx in Hmx'. inversion Hmx'; subst mx'.
  destruct (insupp o s a) eqn:E.
  - unfold insupp in E. now apply nltb_R in E.
  - destruct (proj2 (Hall a Ha) E) as (_ & Hlt). specialize (Hlt Hav). lra.
Qed.

Theorem c01_uniform s a :
  c_pol m o t = true -> (s < nS m)%nat -> (a < nA m)%nat -> masked m s = false ->
  (0 < oPi o s a -> Rabs (oPi o s a * INR (suppcount m o s) - 1) <= ptol t) /\
  (~ 0 < oPi o s a -> oPi o s a = 0).
Proof.
  intros Hpol Hs Ha Hm. destruct (c_pol_spec s Hpol Hs Hm) as (mx & Hmx & Hall).
  split; intros H.
  - assert (Hin : insupp o s a = true) by (unfold insupp; now apply nltb_R).
    now destruct (proj1 (Hall a Ha) Hin) as (_ & _ & H3).
  - destruct (insupp o s a) eqn:E.
    + unfold insupp in E. apply nltb_R in E. contradiction.
    + now destruct (proj2 (Hall a Ha) E).
Qed.

(* ---- 4. initial value ---- *)
Theorem c01_initial_value :
  c_init m o t = true ->
  Rabs (oInit o - sumf (nS m) (fun s => init m s * oV o s)) <= itol t.
Proof. unfold c_init. intros H. now apply ncloseb_R in H. Qed.

(* ---- 5. exactly evaluated return of the (idealised: exactly uniform) reported policy ---- *)
Definition upol (s a : nat) : R :=
  if masked m s then (if avail m s a then 1 / INR (countb (nA m) (avail m s)) else 0)
  else (if insupp o s a then 1 / INR (suppcount m o s) else 0).

Lemma support_nonempty s :
  c_pol m o t = true -> (s < nS m)%nat -> masked m s = false ->
  0 <= atol_lo t -> 0 <= rtol_lo t -> (0 < suppcount m o s)%nat.
Proof.
  intros Hpol Hs Hm Hat Hrt. destruct (c_pol_spec s Hpol Hs Hm) as (mx & Hmx & Hall).
  unfold maxQ in Hmx. destruct (maxf_attained _ _ _ _ Hmx) as (a & Ha & Hav & Hq).
  destruct (insupp o s a) eqn:E.
  - unfold suppcount, countb.
    assert (In a (filter (insupp o s) (seq 0 (nA m)))).
    { apply filter_In. split; [apply in_seq; lia|auto]. }
    destruct (filter (insupp o s) (seq 0 (nA m))); [contradiction|simpl; lia].
  - destruct (proj2 (Hall a Ha) E) as (_ & Hlt). specialize (Hlt Hav).
    assert (0 <= band_lo t mx).
    { unfold band_lo. numR. rewrite nabs_R. pose proof (Rabs_pos mx). nra. }
    lra.
Qed.

Lemma count_pos_avail s :
  wf m -> (s < nS m)%nat -> (0 < countb (nA m) (avail m s))%nat.
Proof.
  intros Wf Hs. destruct (wf_act m Wf s Hs) as (a & Ha & Hav).
  unfold countb.
  assert (In a (filter (avail m s) (seq 0 (nA m)))).
  { apply filter_In. split; [apply in_seq; lia|auto]. }
  destruct (filter (avail m s) (seq 0 (nA m))); [contradiction|simpl; lia].
Qed.

Lemma upol_wf :
  wf m -> c_pol m o t = true -> 0 <= atol_lo t -> 0 <= rtol_lo t -> wfpol m upol.
Proof.
  intros Wf Hpol Hat Hrt. constructor.
  - intros s a Hs Ha. unfold upol.
    destruct (masked m s) eqn:Hm.
    + destruct (avail m s a); [|lra]. pose proof (count_pos_avail s Wf Hs) as Hc.
      apply lt_0_INR in Hc. apply Rlt_le. apply Rdiv_lt_0_compat; lra.
    + destruct (insupp o s a); [|lra]. pose proof (support_nonempty s Hpol Hs Hm Hat Hrt) as Hc.
      apply lt_0_INR in Hc. apply Rlt_le. apply Rdiv_lt_0_compat; lra.
  - intros s Hs. unfold upol. destruct (masked m s) eqn:Hm.
    + rewrite (sumf_indicator (nA m) (avail m s)).
      pose proof (count_pos_avail s Wf Hs) as Hc. apply lt_0_INR in Hc. field. lra.
    + rewrite (sumf_indicator (nA m) (insupp o s)).
      pose proof (support_nonempty s Hpol Hs Hm Hat Hrt) as Hc. apply lt_0_INR in Hc.
      unfold suppcount in *. field. lra.
  - intros s a Hs Ha Hav. unfold upol. destruct (masked m s) eqn:Hm.
    + now rewrite Hav.
    + destruct (insupp o s a) eqn:E; [|reflexivity].
      destruct (c_pol_spec s Hpol Hs Hm) as (mx & Hmx & Hall).
      destruct (proj1 (Hall a Ha) E) as (Hav' & _). congruence.
Qed.

Theorem c01_policy_return Vs Vpi B :
  wf m -> gamma m < 1 -> fixpoint m Vs -> 0 <= epsb t -> 0 <= qtol t ->
  0 <= atol_lo t -> 0 <= rtol_lo t ->
  c_abs m o = true -> c_res m o t = true -> c_q m o t = true -> c_pol m o t = true ->
  fixpol m upol Vpi ->
  0 <= B -> (forall s mx, (s < nS m)%nat -> maxQ m o s = Some mx -> band_hi t mx <= B) ->
  forall s, (s < nS m)%nat ->
    Rabs (Vpi s - Vs s) <=
    (B + 2 * qtol t + 2 * (gamma m * (epsb t / (1 - gamma m)))) / (1 - gamma m).
Proof.
  intros Wf G Hfix He Hq0 Hat Hrt Hab Hres Hq Hpol Hfp HB0 HB.
  pose proof (wf_gamma0 m Wf) as G0.
  assert (HD0 : 0 <= epsb t / (1 - gamma m)).
  { apply Rmult_le_pos; [lra|]. left. apply Rinv_0_lt_compat. lra. }
  apply greedy_loss with (pi := upol); auto.
  - apply upol_wf; auto.
  - assert (0 <= gamma m * (epsb t / (1 - gamma m))) by (apply Rmult_le_pos; auto). lra.
  - intros s a Hs Ha Hpos. unfold upol in Hpos.
    destruct (masked m s) eqn:Hm.
    + rewrite Qval_masked by auto. rewrite (Hfix s Hs), Top_masked by auto.
      assert (0 <= gamma m * (epsb t / (1 - gamma m))) by (apply Rmult_le_pos; auto). lra.
    + destruct (insupp o s a) eqn:E; [|lra].
      assert (Hp : 0 < oPi o s a) by (unfold insupp in E; now apply nltb_R in E).
      destruct (c01_support Vs s a Wf G Hfix He Hab Hres Hq Hpol Hs Ha Hm Hp) as (mx & Hmx & _ & Hge).
      specialize (HB s mx Hs Hmx). unfold eta in Hge. lra.
Qed.

End VI.

Lemma fixb_fixpoint (m : mdp R) (V : list R) :
  fixb m V = true -> fixpoint m (untab V).
Proof.
  unfold fixb. rewrite forallbn_spec. intros H s Hs. specialize (H s Hs).
  unfold Top. destruct (backup m (untab V) s); [|discriminate].
  apply neqb_Req in H. exact H.
Qed.
