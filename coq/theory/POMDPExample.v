(* POMDPExample.v — C07 non-vacuity: a concrete 3-state, 2-action, 3-observation POMDP with zero
   entries, an asymmetric observation kernel for action 0 and twin observation columns for action 1.
   It satisfies the hypotheses of every C07 theorem; a positive-probability and an impossible
   observation occur; two observations with equal posteriors are merged by belief_next; and concrete
   (slightly perturbed) "implementation outputs" pass the executed comparison. *)
From Coq Require Import QArith Qreals Reals Lra Lia List Bool.
From MSDM Require Import base.Num base.NumInst base.NumR base.Transfer model.MDP model.POMDP
     theory.POMDPTheory theory.POMDPTransfer theory.POMDPMain.
Import ListNotations.
Local Open Scope Q_scope.

(* state 2 is absorbing.  T[s][a][ns], R[s][a][ns], Ob[a][ns][o] *)
Definition exP : list (list (list Q)) :=
  [ [[1#2; 1#2; 0]; [0; 1; 0]]; [[0; 1#4; 3#4]; [1#8; 0; 7#8]]; [[0; 0; 1]; [0; 0; 1]] ].
Definition exR : list (list (list Q)) :=
  [ [[1; -2#1; 0]; [0; 3; 0]]; [[0; 1#2; 4]; [-1#1; 0; 2]]; [[0; 0; 5]; [0; 0; 0]] ].
Definition exOb : list (list (list Q)) :=
  [ [[3#4; 1#4; 0]; [1#4; 1#2; 1#4]; [0; 0; 1]];
    [[1#2; 1#2; 0]; [1#4; 1#4; 1#2]; [1#8; 1#8; 3#4]] ].
Definition exAb := [false; false; true].
Definition exIni : list Q := [1#2; 1#2; 0].
Definition exbl : list Q := [1#2; 1#2; 0].      (* a belief with a zero component *)
Definition exbl2 : list Q := [0; 0; 1].         (* all mass on the absorbing state *)
Definition extol : Q := 1 # 10000000000000.

Definition exmQ : pomdp Q := mQ 3 2 3 exP exR exAb exIni (9#10) exOb.
Definition exmR : pomdp R := mR 3 2 3 exP exR exAb exIni (9#10) exOb.

(* what msdm would return for (exbl, action 1), one entry perturbed by 1e-15 *)
Definition ex_ed : list (list (nat * Q)) :=
  [ [(0%nat, 4#27); (1%nat, 16#27); (2%nat, 7#27)]; [(0%nat, 4#27); (1%nat, 16#27); (2%nat, 7#27)];
    [(1%nat, 16#37); (2%nat, 21#37)]; [] ].
Definition ex_ev : list (list Q) :=
  [ [(4#27) + (1#1000000000000000); 16#27; 7#27]; [4#27; 16#27; 7#27]; [0; 16#37; 21#37] ].
Definition ex_nag : list (list Q) :=
  [ [4#27; 16#27; 7#27]; [4#27; 16#27; 7#27]; [0; 16#37; 21#37]; [0; 0; 0] ].
Definition ex_pd : list (nat * Q) := [(0%nat, 27#128); (1%nat, 27#128); (2%nat, 37#64)].
Definition ex_pv : list Q := [27#128; 27#128; 37#64].
Definition ex_bn : list (list Q * Q) := [ ([4#27; 16#27; 7#27], 27#64); ([0; 16#37; 21#37], 37#64) ].
Definition ex_rw : Q := 37#16.

Example ex_wf : @wfpb Q NumQ exmQ = true.
Proof. vm_compute. reflexivity. Qed.
Example ex_belief : @beliefb Q NumQ exmQ (untab exbl) = true.
Proof. vm_compute. reflexivity. Qed.
Example ex_belief2 : @beliefb Q NumQ exmQ (untab exbl2) = true.
Proof. vm_compute. reflexivity. Qed.
Example ex_check :
  @check_ba Q NumQ exmQ extol exbl 1 ex_ed ex_ev ex_nag ex_pd ex_pv ex_bn ex_rw =
  [true; true; true; true; true; true; true; true].
Proof. vm_compute. reflexivity. Qed.
Example ex_check_b2 : @check_b Q NumQ exmQ exbl2 true = [true; true].
Proof. vm_compute. reflexivity. Qed.
Example ex_check_b : @check_b Q NumQ exmQ exbl false = [true; true].
Proof. vm_compute. reflexivity. Qed.

Local Open Scope R_scope.

Lemma ex_wfp : wfp exmR.
Proof. apply wf_of_Q. exact ex_wf. Qed.
Lemma ex_b : belief 3 (untab (mapQ1 exbl)).
Proof. apply (belief_of_Q 3 2 3 exP exR exAb exIni (9#10)%Q exOb). exact ex_belief. Qed.
Lemma ex_b2 : belief 3 (untab (mapQ1 exbl2)).
Proof. apply (belief_of_Q 3 2 3 exP exR exAb exIni (9#10)%Q exOb). exact ex_belief2. Qed.

(* Pr(o = 0 | exbl, a = 1) = 27/128 > 0 *)
Lemma ex_possible : 0 < Zm exmR (untab (mapQ1 exbl)) 1 0.
Proof.
  destruct (pred_obs_marginal exmR ex_wfp _ ex_b 1%nat ltac:(simpl; lia)) as (H & _).
  destruct (H 0%nat ltac:(simpl; lia)) as (<- & _). unfold exmR.
  rewrite <- pred_obs_vec_transfer.
  replace (@pred_obs_vec Q NumQ (mQ 3 2 3 exP exR exAb exIni (9#10)%Q exOb) (untab exbl) 1)
    with [27#128; 27#128; 37#64]%Q by (vm_compute; reflexivity).
  unfold mapQ1, untab; simpl. unfold Q2R; simpl. lra.
Qed.
(* Pr(o = 0 | exbl2, a = 0) = 0: an impossible observation *)
Lemma ex_impossible : Zm exmR (untab (mapQ1 exbl2)) 0 0 = 0.
Proof.
  destruct (pred_obs_marginal exmR ex_wfp _ ex_b2 0%nat ltac:(simpl; lia)) as (H & _).
  destruct (H 0%nat ltac:(simpl; lia)) as (<- & _). unfold exmR.
  rewrite <- pred_obs_vec_transfer.
  replace (@pred_obs_vec Q NumQ (mQ 3 2 3 exP exR exAb exIni (9#10)%Q exOb) (untab exbl2) 0)
    with [0; 0; 1]%Q by (vm_compute; reflexivity).
  unfold mapQ1, untab; simpl. unfold Q2R; simpl. lra.
Qed.
(* three positive-probability observations, two successor beliefs: a merge of equal posteriors *)
Lemma ex_merge :
  length (pred_obs_dict exmR (untab (mapQ1 exbl)) 1) = 3%nat /\
  length (belief_next exmR (untab (mapQ1 exbl)) 1) = 2%nat.
Proof.
  unfold exmR. rewrite <- pred_obs_dict_transfer, <- belief_next_transfer.
  unfold mapQd, mapQbn. rewrite !map_length. split; vm_compute; reflexivity.
Qed.

Definition nonvacuous_statement : Prop :=
  wfp exmR /\ belief 3 (untab (mapQ1 exbl)) /\ belief 3 (untab (mapQ1 exbl2)) /\
  0 < Zm exmR (untab (mapQ1 exbl)) 1 0 /\
  Zm exmR (untab (mapQ1 exbl2)) 0 0 = 0 /\
  (length (pred_obs_dict exmR (untab (mapQ1 exbl)) 1) = 3%nat /\
   length (belief_next exmR (untab (mapQ1 exbl)) 1) = 2%nat) /\
  @wfpb Q NumQ exmQ = true /\ @beliefb Q NumQ exmQ (untab exbl) = true /\
  @check_ba Q NumQ exmQ extol exbl 1 ex_ed ex_ev ex_nag ex_pd ex_pv ex_bn ex_rw =
    [true; true; true; true; true; true; true; true] /\
  @check_b Q NumQ exmQ exbl2 true = [true; true] /\
  @check_b Q NumQ exmQ exbl false = [true; true].

Theorem nonvacuous : nonvacuous_statement.
Proof.
  exact (conj ex_wfp (conj ex_b (conj ex_b2 (conj ex_possible (conj ex_impossible (conj ex_merge
        (conj ex_wf (conj ex_belief (conj ex_check (conj ex_check_b2 ex_check_b)))))))))).
Qed.
