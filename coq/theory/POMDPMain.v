(* POMDPMain.v — C07 end to end: "the comparison check_ba / check_b, as executed by vm_compute on the
   exact rationals of msdm's outputs, returned true"  ==>  msdm's numbers are within the tolerance of
   the real-valued Bayes quantities of POMDPTheory.v. *)
From Coq Require Import QArith Qreals Reals Lra Lia List Arith Bool.
From MSDM Require Import base.Num base.NumInst base.NumR base.Transfer model.MDP model.POMDP
     theory.POMDPTheory theory.POMDPTransfer.
Import ListNotations.
Local Open Scope R_scope.

(* |x - y| <= tol*|y|  (relative; probabilities)   and   |x - y| <= tol + tol*|y|  (reward) *)
Definition within (tol x y : R) : Prop := Rabs (x - y) <= tol * Rabs y.
Definition within_abs (tol x y : R) : Prop := Rabs (x - y) <= tol + tol * Rabs y.

Lemma close_R tol x y : @close R NumR tol x y = true <-> within tol x y.
Proof. unfold close, within. rewrite !NumR.nabs_R. numR. apply Rleb_true. Qed.
Lemma close_abs_R tol x y : @close_abs R NumR tol x y = true <-> within_abs tol x y.
Proof. unfold close_abs, niscloseb, within_abs. rewrite !NumR.nabs_R. numR. apply Rleb_true. Qed.

Lemma within_refl0 tol : 0 <= tol -> within tol 0 0.
Proof. intros H. unfold within. rewrite Rminus_0_r, Rabs_R0. lra. Qed.
Lemma within_zero tol x : within tol x 0 -> x = 0.
Proof.
  unfold within. rewrite Rminus_0_r, Rabs_R0, Rmult_0_r. intros H.
  pose proof (Rabs_pos x). destruct (Req_dec x 0) as [E|E]; [auto|]. apply Rabs_pos_lt in E. lra.
Qed.

Lemma close_list_untab tol (l1 l2 : list R) :
  0 <= tol -> close_list tol l1 l2 = true -> forall i, within tol (untab l1 i) (untab l2 i).
Proof.
  intros Ht. revert l2. induction l1 as [|x l1 IH]; destruct l2 as [|y l2]; simpl; try discriminate.
  - intros _ i. unfold untab. destruct i; simpl; now apply within_refl0.
  - rewrite andb_true_iff. intros [H1 H2] i. destruct i as [|i]; unfold untab; simpl.
    + now apply close_R.
    + apply (IH l2 H2 i).
Qed.

Lemma close_dict_nil tol (d : list (nat * R)) : close_dict tol d [] = true -> d = [].
Proof. destruct d; simpl; [reflexivity|discriminate]. Qed.

Lemma close_dict_lookup tol (d1 d2 : list (nat * R)) :
  0 <= tol -> close_dict tol d1 d2 = true -> forall k, within tol (lookup d1 k) (lookup d2 k).
Proof.
  intros Ht. revert d2. induction d1 as [|e1 d1 IH]; destruct d2 as [|e2 d2]; simpl; try discriminate.
  - intros _ k. unfold lookup; simpl. now apply within_refl0.
  - rewrite !andb_true_iff. intros [[H1 H2] H3] k. apply Nat.eqb_eq in H1.
    unfold lookup; simpl. rewrite H1. destruct (Nat.eqb (fst e2) k).
    + now apply close_R.
    + apply (IH d2 H3 k).
Qed.

Lemma forall2b_seq {B} (p : nat -> B -> bool) n : forall s l d,
  forall2b p (seq s n) l = true -> forall i, (i < n)%nat -> p (s + i)%nat (nth i l d) = true.
Proof.
  induction n; intros s l d H i Hi; [lia|]. simpl in H. destruct l as [|y r]; [discriminate|].
  apply andb_true_iff in H as [H1 H2]. destruct i as [|i]; simpl.
  - now rewrite Nat.add_0_r.
  - rewrite Nat.add_succ_r. apply (IHn (S s) r d H2 i). lia.
Qed.

Section Main.
Variables (nS nA nO : nat) (P Rw : list (list (list Q))) (ab : list bool) (ini : list Q) (g : Q)
          (Obl : list (list (list Q))).
Notation mq := (mQ nS nA nO P Rw ab ini g Obl).
Notation mr := (mR nS nA nO P Rw ab ini g Obl).

Lemma wf_of_Q : @wfpb Q NumQ mq = true -> wfp mr.
Proof. intros H. apply wfpb_wfp. now rewrite <- wfpb_transfer. Qed.
Lemma belief_of_Q bl : @beliefb Q NumQ mq (untab bl) = true -> belief nS (untab (mapQ1 bl)).
Proof. intros H. apply (beliefb_belief mr). now rewrite <- beliefb_transfer. Qed.

(* what a passed comparison says about msdm's outputs for one (belief, action):
   ed / ev / nag = dictionary posterior, vector posterior, next_agentstate per observation;
   pd / pv = the two predictive observation distributions; rw = the belief-MDP reward *)
Definition checked_ok (tol : Q) (bl : list Q) (a : nat)
           (ed : list (list (nat * Q))) (ev nag : list (list Q)) (pd : list (nat * Q)) (pv : list Q)
           (rw : Q) : Prop :=
  let b := untab (mapQ1 bl) in
  let t := Q2R tol in
  (forall o ns, (o < nO)%nat -> (ns < nS)%nat ->
     (0 < Zm mr b a o ->
        within t (untab (nth o (mapQ2 ev) []) ns) (bayes mr b a o ns) /\
        within t (lookup (nth o (mapQdd ed) []) ns) (bayes mr b a o ns) /\
        within t (untab (nth o (mapQ2 nag) []) ns) (bayes mr b a o ns)) /\
     (Zm mr b a o = 0 ->
        untab (nth o (mapQ2 ev) []) ns = 0 /\
        nth o (mapQdd ed) [] = [] /\
        untab (nth o (mapQ2 nag) []) ns = 0)) /\
  (forall o, (o < nO)%nat ->
     within t (untab (mapQ1 pv) o) (Zm mr b a o) /\ within t (lookup (mapQd pd) o) (Zm mr b a o)) /\
  within_abs t (Q2R rw)
         (sumf nS (fun s => sumf nS (fun ns => b s * MDP.P (base mr) s a ns * MDP.Rw (base mr) s a ns))).

Theorem main_checked tol bl a ed ev nag pd pv bn rw c :
  @wfpb Q NumQ mq = true ->
  @beliefb Q NumQ mq (untab bl) = true ->
  (a < nA)%nat -> 0 <= Q2R tol ->
  @check_ba Q NumQ mq tol bl a ed ev nag pd pv bn rw = [true; true; true; true; true; true; c; true] ->
  checked_ok tol bl a ed ev nag pd pv rw.
Proof.
  intros Hwf Hbel Ha Ht Hchk. rewrite check_ba_transfer in Hchk.
  apply wf_of_Q in Hwf. apply belief_of_Q in Hbel.
  unfold check_ba in Hchk. cbv zeta in Hchk.
  match type of Hchk with [?c1; ?c2; ?c3; ?c4; ?c5; ?c6; ?c7; ?c8] = _ =>
    assert (H1 : c1 = true) by congruence; assert (H2 : c2 = true) by congruence;
    assert (H3 : c3 = true) by congruence; assert (H4 : c4 = true) by congruence;
    assert (H5 : c5 = true) by congruence; assert (H8 : c8 = true) by congruence
  end. clear Hchk.
  set (b := untab (mapQ1 bl)) in *. set (t := Q2R tol) in *.
  assert (HnS : MDP.nS (base mr) = nS) by reflexivity.
  assert (HnA : MDP.nA (base mr) = nA) by reflexivity.
  assert (HnO : POMDP.nO mr = nO) by reflexivity.
  unfold checked_ok. fold b t. cbv zeta. split; [|split].
  - intros o ns Ho Hns.
    assert (Hob : forall ns, (ns < MDP.nS (base mr))%nat -> 0 <= Ob mr a ns o).
    { intros k Hk. apply (Ob_nonneg mr Hwf); auto. }
    pose proof (forall2b_seq _ _ _ _ [] H1 o ltac:(change (POMDP.nO mr) with nO; lia)) as D1.
    cbv beta in D1; change (0 + o)%nat with o in D1.
    pose proof (forall2b_seq _ _ _ _ [] H2 o ltac:(change (POMDP.nO mr) with nO; lia)) as D2.
    cbv beta in D2; change (0 + o)%nat with o in D2.
    pose proof (forall2b_seq _ _ _ _ [] H3 o ltac:(change (POMDP.nO mr) with nO; lia)) as D3.
    cbv beta in D3; change (0 + o)%nat with o in D3.
    destruct (estimator_bayes_obs mr Hwf b Hbel a Ha o Hob) as (_ & Hpos & Hzero).
    split.
    + intros Hz. destruct Hpos as (Hv & _ & _); auto. destruct (Hv ns Hns) as (E1 & E2 & E3 & _).
      split; [|split].
      * rewrite <- E1. now apply close_list_untab.
      * rewrite <- E2. now apply close_dict_lookup.
      * rewrite <- E3. now apply close_list_untab.
    + intros Hz. destruct (Hzero Hz) as (E0 & Hv). destruct (Hv ns Hns) as (E1 & E3).
      repeat split.
      * apply (within_zero t). rewrite <- E1. now apply close_list_untab.
      * rewrite E0 in D1. now apply close_dict_nil in D1.
      * apply (within_zero t). rewrite <- E3. now apply close_list_untab.
  - intros o Ho. destruct (pred_obs_marginal mr Hwf b Hbel a Ha) as (Hm & _).
    destruct (Hm o Ho) as (E1 & E2 & _). split.
    + rewrite <- E1. now apply close_list_untab.
    + rewrite <- E2. now apply close_dict_lookup.
  - apply close_abs_R in H8. now rewrite belief_reward_expect in H8.
Qed.

Theorem main_absorbing bl ia :
  @check_b Q NumQ mq bl ia = [true; true] ->
  (ia = true <-> sumf nS (fun s => if nth s ab false then untab (mapQ1 bl) s else 0) = 1).
Proof.
  intros Hchk. rewrite check_b_transfer in Hchk. unfold check_b in Hchk.
  injection Hchk as H1 H2. apply beliefb_belief in H1.
  rewrite <- (belief_absorbing_iff mr (untab (mapQ1 bl)) H1).
  destruct ia, (belief_absorbing mr (untab (mapQ1 bl))); simpl in H2; try discriminate; tauto.
Qed.

End Main.
