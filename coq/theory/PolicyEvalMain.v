(* PolicyEvalMain.v — C02 end-to-end statements: "the checker, as executed by vm_compute on the exact
   rationals of msdm's output, returned all-true"  ==>  property clauses over R. *)
From Coq Require Import QArith Qreals Reals Lra Lia List Bool Relations.
From MSDM Require Import base.Num base.NumInst base.NumR base.Transfer model.MDP model.VI model.PolicyEval
     theory.Bellman theory.VITheory theory.VITransfer theory.PolicyEvalTheory theory.PolicyEvalUndisc
     theory.PolicyEvalLimit theory.PolicyEvalTransfer.
Import ListNotations.
Local Open Scope R_scope.

Lemma untab_map_Q2R (l : list Q) s : untab (map Q2R l) s = Q2R (untab l s).
Proof.
  unfold untab. revert s. induction l as [|x l IH]; intros s.
  - destruct s; simpl; unfold Q2R; simpl; lra.
  - destruct s; simpl; [reflexivity|apply IH].
Qed.

Section Main.
Variables (nS nA : nat) (P Rw : list (list (list Q))) (av : list (list bool)) (ab : list bool)
          (ini : list Q) (g : Q) (psl pal : list nat) (data : list (list Q))
          (V : list (ext Q)) (Qv : list (list (ext Q))) (Oc : list (ext Q)) (iv : ext Q) (tl : @etols Q).

Notation mR := (mR nS nA P Rw av ab ini g).
Notation piR := (piR psl pal data).
Notation oR := (eoR V Qv Oc iv).
Notation tR := (etolsR tl).
Notation mQ := (mQ nS nA P Rw av ab ini g).
Notation piQ := (piQ psl pal data).

(* ============ discounted ============ *)
Section Disc.
Hypothesis Hchk : @c02_disc Q NumQ mQ piQ (mk_eout V Qv Oc iv) tl = all_true 10.

Lemma chkR : c02_disc mR piR oR tR = all_true 10.
Proof. rewrite <- c02_disc_transfer. exact Hchk. Qed.

Lemma main_wf : wf mR /\ wfpol mR piR /\ Q2R g < 1.
Proof.
  split; [apply (disc_wf mR piR oR tR chkR)|]. split; [apply (disc_wfpol mR piR oR tR chkR)|].
  apply (disc_gamma mR piR oR tR chkR).
Qed.

(* the policy HAS a value function, and only one *)
Theorem main_value_exists_unique :
  exists Vpi, fixpol mR piR Vpi /\
    forall V', fixpol mR piR V' -> forall s, (s < nS)%nat -> V' s = Vpi s.
Proof.
  destruct main_wf as (Wf & Wp & G).
  destruct (fixpol_exists mR piR Wf Wp G) as (Vpi & Hfix). exists Vpi. split; [exact Hfix|].
  intros V' H' s Hs. apply (fixpol_unique mR piR V' Vpi Wf Wp G H' Hfix s Hs).
Qed.

(* ... which is the limit of the k-step expected discounted returns *)
Theorem main_value_is_limit Vpi B :
  fixpol mR piR Vpi -> (forall s, (s < nS)%nat -> Rabs (Vpi s) <= B) ->
  forall k s, (s < nS)%nat -> Rabs (Vpi s - Vn mR piR k s) <= Q2R g ^ k * B.
Proof.
  intros Hfix HB. destruct main_wf as (Wf & Wp & G). apply (Vn_tail mR piR Vpi B Wf Wp Hfix HB).
Qed.

Theorem main_value_converges Vpi :
  fixpol mR piR Vpi ->
  forall eps, 0 < eps -> exists N, forall k, (N <= k)%nat ->
    forall s, (s < nS)%nat -> Rabs (Vn mR piR k s - Vpi s) <= eps.
Proof. intros Hfix. destruct main_wf as (Wf & Wp & G). apply (Vn_limit mR piR Vpi Wf Wp G Hfix). Qed.

Theorem main_values Vpi :
  0 <= Q2R (tolV tl) -> fixpol mR piR Vpi ->
  forall s, (s < nS)%nat -> Rabs (Vf oR s - Vpi s) <= Q2R (tolV tl) / (1 - Q2R g).
Proof. apply (eval_values mR piR oR tR chkR). Qed.

Theorem main_values_finite s : (s < nS)%nat -> eV oR s = Fin (Vf oR s).
Proof. apply (disc_V_fin mR piR oR tR chkR). Qed.

Theorem main_bellman_v s :
  (s < nS)%nat ->
  Rabs (Vf oR s - (rpi mR piR s + Q2R g * sumf nS (fun z => Ppi mR piR s z * Vf oR z))) <= Q2R (tolV tl).
Proof. apply (eval_bellman_v mR piR oR tR chkR). Qed.

Theorem main_absorbing_zero s :
  (s < nS)%nat -> absorbing mR s = true -> eV oR s = Fin 0.
Proof. apply (eval_absorbing_zero mR piR oR tR chkR). Qed.

Theorem main_q_pattern s a :
  (s < nS)%nat -> (a < nA)%nat ->
  (avail mR s a = false <-> eQ oR s a = NInf) /\ (avail mR s a = true <-> exists x, eQ oR s a = Fin x).
Proof. apply (eval_q_pattern mR piR oR tR chkR). Qed.

Theorem main_q Vpi s a :
  0 <= Q2R (tolV tl) -> fixpol mR piR Vpi ->
  (s < nS)%nat -> (a < nA)%nat -> absorbing mR s = false -> avail mR s a = true ->
  exists x, eQ oR s a = Fin x /\
    Rabs (x - (sa_reward mR s a + Q2R g * sumf nS (fun ns => MDP.P mR s a ns * Vf oR ns))) <= Q2R (tolQ tl) /\
    Rabs (x - (sa_reward mR s a + Q2R g * sumf nS (fun ns => MDP.P mR s a ns * Vpi ns)))
      <= Q2R (tolQ tl) + Q2R g * (Q2R (tolV tl) / (1 - Q2R g)).
Proof. apply (eval_q mR piR oR tR chkR). Qed.

Theorem main_occupancy_eq z :
  (z < nS)%nat ->
  Rabs (Of oR z - (init mR z + Q2R g * sumf nS (fun s => Of oR s * Ppi mR piR s z))) <= Q2R (tolO tl).
Proof. apply (eval_occupancy_eq mR piR oR tR chkR). Qed.

Theorem main_occupancy y :
  occfix mR piR y ->
  l1 mR (fun z => Of oR z - y z) <= INR nS * Q2R (tolO tl) / (1 - Q2R g).
Proof. apply (eval_occupancy mR piR oR tR chkR). Qed.

Theorem main_occupancy_unique y1 y2 :
  occfix mR piR y1 -> occfix mR piR y2 -> forall z, (z < nS)%nat -> y1 z = y2 z.
Proof.
  destruct main_wf as (Wf & Wp & G).
  apply (occfix_unique mR piR (disc_mask mR piR oR tR chkR) y1 y2 Wf Wp G).
Qed.

(* the exact occupancy is the discounted visitation series sum_t gamma^t Pr(s_t = z) *)
Theorem main_occupancy_series y K :
  occfix mR piR y ->
  l1 mR (fun z => y z - sumf K (fun t => Q2R g ^ t * dist mR piR t z)) <= Q2R g ^ K * l1 mR y.
Proof.
  intros Hy. destruct main_wf as (Wf & Wp & G).
  pose proof (occn_tail mR piR (disc_mask mR piR oR tR chkR) y Wf Wp Hy K) as H.
  unfold l1 in *. erewrite sumf_ext; [exact H|]. intros z Hz. cbv beta.
  now rewrite (occn_series mR piR K z).
Qed.

Theorem main_initial_value :
  Rabs (fin0 (eInit oR) - sumf nS (fun s => init mR s * Vf oR s)) <= Q2R (tolI tl) /\
  Rabs (fin0 (eInit oR) - sumf nS (fun s => Of oR s * rpi mR piR s)) <= Q2R (tolJ tl).
Proof. apply (eval_initial_value mR piR oR tR chkR). Qed.

Theorem main_initial_value_true Vpi :
  0 <= Q2R (tolV tl) -> fixpol mR piR Vpi ->
  Rabs (fin0 (eInit oR) - sumf nS (fun s => init mR s * Vpi s))
    <= Q2R (tolI tl) + Q2R (tolV tl) / (1 - Q2R g).
Proof. apply (eval_initial_value_true mR piR oR tR chkR). Qed.

Theorem main_initial_value_duality Vpi y :
  fixpol mR piR Vpi -> occfix mR piR y ->
  sumf nS (fun s => init mR s * Vpi s) = sumf nS (fun s => y s * rpi mR piR s).
Proof. apply (initial_value_duality mR piR (disc_mask mR piR oR tR chkR)). Qed.

End Disc.

(* ============ undiscounted, rewards <= 0 ============ *)
Section Undisc.
Hypothesis Hchk : @c02_undisc Q NumQ mQ piQ (mk_eout V Qv Oc iv) tl = all_true 11.

Lemma chkRu : c02_undisc mR piR oR tR = all_true 11.
Proof. rewrite <- c02_undisc_transfer. exact Hchk. Qed.

Theorem main_undisc_neginf s :
  (s < nS)%nat -> (eV oR s = NInf <-> reaches_negative_class mR piR s).
Proof. apply (eval_undisc_neginf mR piR oR tR chkRu). Qed.

Theorem main_undisc_finite s :
  (s < nS)%nat -> ~ reaches_negative_class mR piR s ->
  exists v, eV oR s = Fin v /\
    Rabs (v - (rpi mR piR s + sumf nS (fun z => Pt mR piR (accM mR piR) s z * Vf oR z))) <= Q2R (tolV tl) /\
    forall z, (z < nS)%nat -> 0 < Ppi mR piR s z -> exists w, eV oR z = Fin w.
Proof. apply (eval_undisc_finite mR piR oR tR chkRu). Qed.

Theorem main_undisc_absorbing_zero s :
  (s < nS)%nat -> absorbing mR s = true -> eV oR s = Fin 0.
Proof. apply (eval_undisc_absorbing_zero mR piR oR tR chkRu). Qed.

Theorem main_undisc_q s a :
  (s < nS)%nat -> (a < nA)%nat -> absorbing mR s = false ->
  (eQ oR s a = NInf <->
     avail mR s a = false \/ exists ns, (ns < nS)%nat /\ 0 < MDP.P mR s a ns /\ eV oR ns = NInf) /\
  (forall x, eQ oR s a = Fin x ->
     Rabs (x - (sa_reward mR s a + sumf nS (fun ns => MDP.P mR s a ns * Vf oR ns))) <= Q2R (tolQ tl)) /\
  (eQ oR s a = NInf \/ exists x, eQ oR s a = Fin x).
Proof. apply (eval_undisc_q mR piR oR tR chkRu). Qed.

Theorem main_undisc_q_unavailable s a :
  (s < nS)%nat -> (a < nA)%nat -> avail mR s a = false -> eQ oR s a = NInf.
Proof. apply (eval_undisc_q_unavailable mR piR oR tR chkRu). Qed.

Theorem main_undisc_occupancy z :
  (z < nS)%nat ->
  (eOcc oR z = PInf <->
     closed_class mR piR z /\ exists s, (s < nS)%nat /\ 0 < init mR s /\ preach mR piR s z) /\
  (eOcc oR z = PInf \/
   exists x, eOcc oR z = Fin x /\
     Rabs (x - (init mR z + sumf nS (fun s => Of oR s * Pt mR piR (accM mR piR) s z))) <= Q2R (tolO tl)).
Proof. apply (eval_undisc_occupancy mR piR oR tR chkRu). Qed.

Theorem main_undisc_initial_value :
  (eInit oR = NInf <-> exists s, (s < nS)%nat /\ 0 < init mR s /\ eV oR s = NInf) /\
  (eInit oR = NInf \/
   exists x, eInit oR = Fin x /\
     Rabs (x - sumf nS (fun s => init mR s * Vf oR s)) <= Q2R (tolI tl) /\
     Rabs (x - sumf nS (fun s => Of oR s * rpi mR piR s)) <= Q2R (tolJ tl)).
Proof. apply (eval_undisc_initial_value mR piR oR tR chkRu). Qed.

(* off the -inf set the k-step expected total reward is squeezed between any non-positive exact
   solution of the transient system and 0, and decreases in k: it has a finite limit *)
Theorem main_undisc_kstep_lower (W : nat -> R) :
  (forall s, (s < nS)%nat -> neginf mR piR (accM mR piR) s = false -> W s <= 0) ->
  (forall s, (s < nS)%nat -> neginf mR piR (accM mR piR) s = false ->
     W s = rpi mR piR s + sumf nS (fun z => Pt mR piR (accM mR piR) s z * W z)) ->
  forall k s, (s < nS)%nat -> ~ reaches_negative_class mR piR s ->
    W s <= Vnu mR piR k s /\ Vnu mR piR (S k) s <= Vnu mR piR k s /\ Vnu mR piR k s <= 0.
Proof.
  intros HW0 HWex k s Hs Hno.
  pose proof (undisc_clauses mR piR oR tR chkRu) as (Wfb & Wpb & _ & _ & Hnp & _).
  assert (HF : neginf mR piR (accM mR piR) s = false).
  { destruct (neginf mR piR (accM mR piR) s) eqn:E; [|reflexivity].
    apply (neginf_spec mR piR Wfb Wpb s Hs) in E. contradiction. }
  destruct (undisc_kstep_lower mR piR Wfb Wpb Hnp W HW0 HWex k s Hs HF) as [H1 H2].
  destruct (Vnu_decreasing mR piR Wfb Wpb Hnp k s Hs) as [H3 _]. auto.
Qed.

(* on the -inf set the k-step expected total reward really diverges to -inf *)
Theorem main_undisc_kstep_diverges s :
  (s < nS)%nat -> eV oR s = NInf ->
  forall M, exists K, forall k, (K <= k)%nat -> Vnu mR piR k s < - M.
Proof.
  intros Hs Hv.
  pose proof (undisc_clauses mR piR oR tR chkRu) as (Wfb & Wpb & _ & _ & Hnp & _).
  apply (undisc_kstep_diverges mR piR Wfb Wpb Hnp s Hs). now apply main_undisc_neginf.
Qed.

(* off the -inf set it converges to any solution of the transient system (which is therefore unique) *)
Theorem main_undisc_kstep_converges (W : nat -> R) :
  (forall s, (s < nS)%nat -> neginf mR piR (accM mR piR) s = false ->
     W s = rpi mR piR s + sumf nS (fun z => Pt mR piR (accM mR piR) s z * W z)) ->
  forall s, (s < nS)%nat -> ~ reaches_negative_class mR piR s ->
    Un_cv (fun k => Vnu mR piR k s) (W s).
Proof.
  intros HW s Hs Hno.
  pose proof (undisc_clauses mR piR oR tR chkRu) as (Wfb & Wpb & _ & _ & Hnp & _).
  apply (undisc_kstep_converges mR piR Wfb Wpb Hnp W HW s Hs).
  destruct (neginf mR piR (accM mR piR) s) eqn:E; [|reflexivity].
  apply (neginf_spec mR piR Wfb Wpb s Hs) in E. contradiction.
Qed.

(* with the absorption-time certificate tau (checked by c02_tau on the harness' exact solve): the
   finite reported values are within tolV * tau of THE expected total reward W = lim_k Vnu k *)
Theorem main_undisc_expected_total_reward (tau : list Q) :
  @c02_tau Q NumQ mQ piQ tau = true -> 0 <= Q2R (tolV tl) ->
  exists W : nat -> R,
    (forall s, (s < nS)%nat -> ~ reaches_negative_class mR piR s -> Un_cv (fun k => Vnu mR piR k s) (W s)) /\
    (forall s, (s < nS)%nat -> ~ reaches_negative_class mR piR s ->
       exists v, eV oR s = Fin v /\ Rabs (v - W s) <= Q2R (tolV tl) * Q2R (untab tau s)).
Proof.
  intros Htau Ht0. rewrite c02_tau_transfer in Htau.
  pose proof (undisc_clauses mR piR oR tR chkRu) as (Wfb & Wpb & _ & _ & Hnp & _ & _ & Hv & _).
  pose proof (c02_tau_spec mR piR _ Htau) as Hts.
  assert (HF : forall s, (s < nS)%nat -> ~ reaches_negative_class mR piR s ->
               neginf mR piR (accM mR piR) s = false).
  { intros s Hs Hno. destruct (neginf mR piR (accM mR piR) s) eqn:E; [|reflexivity].
    apply (neginf_spec mR piR Wfb Wpb s Hs) in E. contradiction. }
  destruct (undisc_values_close mR piR Wfb Wpb Hnp (untab (map Q2R tau)) Hts (Vf oR) (Q2R (tolV tl)) Ht0)
    as (W & _ & Hcv & Hclose).
  { intros x Hx HFx. unfold u_v in Hv. rewrite forallbn_spec in Hv. specialize (Hv x Hx).
    rewrite HFx in Hv. now apply MSDM.base.NumR.ncloseb_R in Hv. }
  exists W. split.
  - intros s Hs Hno. apply Hcv; auto.
  - intros s Hs Hno. destruct (main_undisc_finite s Hs Hno) as (v & Hv' & _).
    exists v. split; [exact Hv'|]. specialize (Hclose s Hs (HF s Hs Hno)).
    unfold PolicyEval.Vf in Hclose. rewrite Hv' in Hclose. simpl in Hclose.
    rewrite <- untab_map_Q2R. exact Hclose.
Qed.

End Undisc.
End Main.

(* the class named in the -inf rule really is a closed communicating class without absorbing states *)
Theorem closed_class_is_closed (m : mdp R) pi j k :
  closed_class m pi j -> preach m pi j k ->
  closed_class m pi k /\ absorbing m k = false /\ preach m pi k j.
Proof.
  intros Hc Hjk. pose proof (closed_class_member m pi j k Hc Hjk) as Hk.
  split; [exact Hk|]. split; [apply Hk|apply Hc; exact Hjk].
Qed.
