(* RMaxTheory.v — C17: theorems about model/RMax.v at the R instance, for every nS, nA, m >= 1,
   gamma in [0,1), and every experience list (no size bound anywhere).

   Part 1  tables, the bookkeeping model [tally] and "the first min(count,m) samples"
   Part 2  the learner invariant through [observe] (upper bound, unknown pairs untouched,
           empirical Bellman residual of known pairs) and its consequences for [train]
   Part 2b the optimistic empirical model (unknown pairs = self-loops paying rmax): its backup is a
           gamma-contraction on Q tables, so a small residual means closeness to its optimal Q
   Part 3  soundness of the certificate checker [c17_check] evaluated on msdm's output *)
From Coq Require Import Reals Lra Lia List Arith Bool.
From MSDM Require Import base.Num base.NumInst base.NumR model.RMax.
Import ListNotations.
Local Open Scope R_scope.

(* ------------------------------------------------------------------------------------ *)
(* Part 0: small facts                                                                    *)
(* ------------------------------------------------------------------------------------ *)
Lemma neqb_R_iff x y : @neqb R NumR x y = true <-> x = y.
Proof. unfold neqb; numR. rewrite andb_true_iff, !Rleb_true. split; [lra|intros ->; lra]. Qed.
Lemma nleb_R_iff x y : @nleb R NumR x y = true <-> x <= y.
Proof. numR. apply Rleb_true. Qed.
Lemma nltb_R_false x y : @nltb R NumR x y = false <-> y <= x.
Proof.
  unfold nltb; numR. destruct (Rleb y x) eqn:E; simpl.
  - apply Rleb_true in E. tauto.
  - apply Rleb_false in E. split; [discriminate|lra].
Qed.

Lemma untab2_tab2 {T} {NT : Num T} n k (f : nat -> nat -> T) i j :
  (i < n)%nat -> (j < k)%nat -> untab2 (tab2 n k f) i j = f i j.
Proof.
  intros Hi Hj. unfold untab2, tab2.
  set (g := fun i => tab k (f i)).
  rewrite (nth_indep _ [] (g 0%nat)) by (rewrite map_length, seq_length; auto).
  rewrite map_nth, seq_nth by auto. simpl. apply untab_tab; auto.
Qed.
Lemma untabn_tabn n f i : (i < n)%nat -> untabn (tabn n f) i = f i.
Proof.
  intros Hi. unfold untabn, tabn.
  rewrite (nth_indep _ 0%nat (f 0%nat)) by (rewrite map_length, seq_length; auto).
  rewrite map_nth, seq_nth; auto.
Qed.
Lemma untabn2_tabn2 n k f i j :
  (i < n)%nat -> (j < k)%nat -> untabn2 (tabn2 n k f) i j = f i j.
Proof.
  intros Hi Hj. unfold untabn2, tabn2.
  set (g := fun i => tabn k (f i)).
  rewrite (nth_indep _ [] (g 0%nat)) by (rewrite map_length, seq_length; auto).
  rewrite map_nth, seq_nth by auto. simpl. apply untabn_tabn; auto.
Qed.
Lemma untabn3_tabn3 n k l f i j h :
  (i < n)%nat -> (j < k)%nat -> (h < l)%nat -> untabn3 (tabn3 n k l f) i j h = f i j h.
Proof.
  intros Hi Hj Hh. unfold untabn3, tabn3.
  set (g := fun i => tabn2 k l (f i)).
  rewrite (nth_indep _ [] (g 0%nat)) by (rewrite map_length, seq_length; auto).
  rewrite map_nth, seq_nth by auto. simpl. apply untabn2_tabn2; auto.
Qed.

Lemma sumf_INR n (f : nat -> nat) : sumf n (fun i => INR (f i)) = INR (sumn n f).
Proof. induction n; [reflexivity|]. rewrite sumf_S, IHn. simpl sumn. rewrite plus_INR. reflexivity. Qed.
Lemma sumn_ext n f g : (forall i, (i < n)%nat -> f i = g i) -> sumn n f = sumn n g.
Proof. induction n; intros H; [reflexivity|]. simpl. rewrite IHn, H; auto. Qed.
Lemma sumn_bump n f k :
  (k < n)%nat -> sumn n (fun i => if (i =? k)%nat then S (f i) else f i) = S (sumn n f).
Proof.
  induction n; intros Hk; [lia|]. simpl. destruct (Nat.eq_dec k n) as [->|Hne].
  - rewrite Nat.eqb_refl. rewrite (sumn_ext n _ f); [lia|].
    intros i Hi. destruct (i =? n)%nat eqn:E; [apply Nat.eqb_eq in E; lia|reflexivity].
  - rewrite IHn by lia. destruct (n =? k)%nat eqn:E; [apply Nat.eqb_eq in E; lia|lia].
Qed.

Lemma firstn_snoc {A} k (l : list A) x :
  firstn k (l ++ [x]) = if (length l <? k)%nat then firstn k l ++ [x] else firstn k l.
Proof.
  rewrite firstn_app. destruct (length l <? k)%nat eqn:E.
  - apply Nat.ltb_lt in E. destruct (k - length l)%nat eqn:E2; [lia|]. simpl. now rewrite firstn_nil.
  - apply Nat.ltb_ge in E. replace (k - length l)%nat with 0%nat by lia. simpl. apply app_nil_r.
Qed.

Lemma countb_ext n p p' : (forall i, (i < n)%nat -> p i = p' i) -> countb n p = countb n p'.
Proof.
  unfold countb. intros H. f_equal. apply filter_ext_in. intros i Hi. apply in_seq in Hi. apply H; lia.
Qed.
Lemma countb_pos n p i : (i < n)%nat -> p i = true -> (1 <= countb n p)%nat.
Proof.
  intros Hi Hp. unfold countb.
  assert (Hin : In i (filter p (seq 0 n))) by (apply filter_In; split; [apply in_seq; lia|auto]).
  destruct (filter p (seq 0 n)); [contradiction|simpl; lia].
Qed.


(* a finite family of reals has a largest absolute value *)
Lemma fsup n (f : nat -> R) :
  exists D, 0 <= D /\ (forall i, (i < n)%nat -> Rabs (f i) <= D) /\
            (D = 0 \/ exists i, (i < n)%nat /\ Rabs (f i) = D).
Proof.
  induction n.
  - exists 0. split; [lra|]. split; [intros; lia|auto].
  - destruct IHn as (D & HD0 & HDle & HDat).
    destruct (Rle_dec (Rabs (f n)) D) as [Hle|Hgt].
    + exists D. split; [auto|]. split.
      * intros i Hi. destruct (Nat.eq_dec i n); [subst; auto|apply HDle; lia].
      * destruct HDat as [|(i & Hi & He)]; [auto|right; exists i; split; [lia|auto]].
    + exists (Rabs (f n)). split; [apply Rabs_pos|]. split.
      * intros i Hi. destruct (Nat.eq_dec i n); [subst; lra|].
        eapply Rle_trans; [apply HDle; lia|lra].
      * right; exists n; split; [lia|reflexivity].
Qed.

(* ------------------------------------------------------------------------------------ *)
Section Theory.
Variables (nS nA m : nat) (gamma rmax tol : R).
Hypothesis Hm : (1 <= m)%nat.
Hypothesis Hg0 : 0 <= gamma.
Hypothesis Hg1 : gamma < 1.

Notation stepR := (@step R).
Notation tallyR := (@tally R NumR nS nA m).
Notation talliesR := (@tallies R NumR nS nA m gamma rmax).
Notation knownR := (@known R m).
Notation thatR := (@that R NumR m).
Notation vmaxR := (@vmax R NumR nA).
Notation newqR := (@newq R NumR nS nA m gamma).
Notation sweepR := (@sweep R NumR nS nA m gamma).
Notation convR := (@conv R NumR nS nA m tol).
Notation vi_loopR := (@vi_loop R NumR nS nA m gamma tol).
Notation observeR := (@observe R NumR nS nA m gamma tol).
Notation train_fromR := (@train_from R NumR nS nA m gamma tol).
Notation trainR := (@train R NumR nS nA m gamma rmax tol).
Notation initR := (@init_learner R NumR nS nA gamma rmax).
Notation Q0 := (@q0 R NumR gamma rmax).

Lemma q0_val : Q0 = rmax / (1 - gamma).
Proof. unfold q0; numR. apply Rdivg_nz. lra. Qed.
Lemma q0_fix : rmax + gamma * Q0 = Q0.
Proof. rewrite q0_val. field. lra. Qed.

(* ---------------------------------------------------------------------------------- *)
(* Part 1: bookkeeping                                                                  *)
(* ---------------------------------------------------------------------------------- *)
Lemma tally_skip L s a r ns :
  (m <= cntf L s a)%nat -> tallyR L (s, a, r, ns) = L.
Proof using Type. clear Hm Hg0 Hg1. intros H. unfold tally. destruct (cntf L s a <? m)%nat eqn:E; [apply Nat.ltb_lt in E; lia|reflexivity]. Qed.

Lemma tally_q L e : l_q (tallyR L e) = l_q L.
Proof using Type. clear Hm Hg0 Hg1. destruct e as [[[s a] r] ns]. unfold tally. destruct (cntf L s a <? m)%nat; reflexivity. Qed.

Lemma tally_rw L s a r ns s' a' :
  (cntf L s a < m)%nat -> (s' < nS)%nat -> (a' < nA)%nat ->
  rwf (tallyR L (s, a, r, ns)) s' a' =
  if ((s' =? s) && (a' =? a))%nat then rwf L s' a' + r else rwf L s' a'.
Proof using Type. clear Hm Hg0 Hg1.
  intros H Hs Ha. unfold tally. apply Nat.ltb_lt in H. rewrite H.
  unfold rwf at 1. cbn [l_rw]. rewrite untab2_tab2 by auto. reflexivity.
Qed.
Lemma tally_cnt L s a r ns s' a' :
  (cntf L s a < m)%nat -> (s' < nS)%nat -> (a' < nA)%nat ->
  cntf (tallyR L (s, a, r, ns)) s' a' =
  if ((s' =? s) && (a' =? a))%nat then S (cntf L s' a') else cntf L s' a'.
Proof using Type. clear Hm Hg0 Hg1.
  intros H Hs Ha. unfold tally. apply Nat.ltb_lt in H. rewrite H.
  unfold cntf at 1. cbn [l_cnt]. rewrite untabn2_tabn2 by auto. reflexivity.
Qed.
Lemma tally_tr L s a r ns s' a' n' :
  (cntf L s a < m)%nat -> (s' < nS)%nat -> (a' < nA)%nat -> (n' < nS)%nat ->
  trf (tallyR L (s, a, r, ns)) s' a' n' =
  if ((s' =? s) && (a' =? a) && (n' =? ns))%nat then S (trf L s' a' n') else trf L s' a' n'.
Proof using Type. clear Hm Hg0 Hg1.
  intros H Hs Ha Hn. unfold tally. apply Nat.ltb_lt in H. rewrite H.
  unfold trf at 1. cbn [l_tr]. rewrite untabn3_tabn3 by auto. reflexivity.
Qed.

(* "the first min(count, m) samples of each pair", as a specification on the experience list *)
Definition hits (exp : list stepR) (s a : nat) : list (R * nat) :=
  flat_map (fun e : stepR => let '(s', a', r, ns) := e in
                             if ((s' =? s) && (a' =? a))%nat then [(r, ns)] else []) exp.
Definition firstm (exp : list stepR) (s a : nat) : list (R * nat) := firstn m (hits exp s a).
Definition rsum (l : list (R * nat)) : R := fold_left (fun acc x => acc + fst x) l 0.
Definition ncount (l : list (R * nat)) (ns : nat) : nat :=
  length (filter (fun x => (snd x =? ns)%nat) l).

Lemma rsum_snoc l x : rsum (l ++ [x]) = rsum l + fst x.
Proof. unfold rsum. rewrite fold_left_app. reflexivity. Qed.
Lemma ncount_snoc l x ns :
  ncount (l ++ [x]) ns = if (snd x =? ns)%nat then S (ncount l ns) else ncount l ns.
Proof.
  unfold ncount. rewrite filter_app, app_length. simpl.
  destruct (snd x =? ns)%nat; simpl; lia.
Qed.
Lemma rsum_le l : Forall (fun x => fst x <= rmax) l -> rsum l <= INR (length l) * rmax.
Proof.
  induction l as [|x l IH] using rev_ind; intros H.
  - unfold rsum; simpl. lra.
  - apply Forall_app in H as [H1 H2]. inversion H2; subst.
    rewrite rsum_snoc, app_length, plus_INR. simpl. specialize (IH H1). lra.
Qed.

Lemma hits_snoc exp e s a :
  hits (exp ++ [e]) s a =
  hits exp s a ++ (let '(s', a', r, ns) := e in
                   if ((s' =? s) && (a' =? a))%nat then [(r, ns)] else []).
Proof. unfold hits. rewrite flat_map_app. simpl. now rewrite app_nil_r. Qed.

Definition tally_spec (L : learner R) (exp : list stepR) : Prop :=
  forall s a, (s < nS)%nat -> (a < nA)%nat ->
    cntf L s a = length (firstm exp s a) /\
    rwf L s a = rsum (firstm exp s a) /\
    (forall ns, (ns < nS)%nat -> trf L s a ns = ncount (firstm exp s a) ns).

Lemma firstm_length exp s a : length (firstm exp s a) = Nat.min m (length (hits exp s a)).
Proof. unfold firstm. apply firstn_length. Qed.

Lemma tallies_snoc exp e : talliesR (exp ++ [e]) = tallyR (talliesR exp) e.
Proof. unfold tallies. rewrite fold_left_app. reflexivity. Qed.

Lemma tally_spec_step L exp e :
  tally_spec L exp -> tally_spec (tallyR L e) (exp ++ [e]).
Proof.
  destruct e as [[[s a] r] ns]. intros HL s' a' Hs' Ha'.
  destruct (HL s' a' Hs' Ha') as (Hc & Hr & Ht).
  unfold firstm in *. rewrite hits_snoc.
  destruct ((s =? s') && (a =? a'))%nat eqn:E.
  - apply andb_true_iff in E as [E1 E2]. apply Nat.eqb_eq in E1, E2. subst s' a'.
    rewrite firstn_snoc.
    destruct (length (hits exp s a) <? m)%nat eqn:El.
    + apply Nat.ltb_lt in El.
      assert (Hlt : (cntf L s a < m)%nat) by (rewrite Hc, firstn_length; lia).
      split; [|split].
      * rewrite tally_cnt by auto. rewrite !Nat.eqb_refl. simpl. rewrite app_length. simpl. lia.
      * rewrite tally_rw by auto. rewrite !Nat.eqb_refl. simpl. rewrite rsum_snoc. simpl. now rewrite Hr.
      * intros n' Hn'. rewrite tally_tr by auto. rewrite !Nat.eqb_refl. simpl.
        rewrite ncount_snoc. simpl. rewrite (Nat.eqb_sym ns n'). rewrite Ht by auto.
        destruct (n' =? ns)%nat; reflexivity.
    + apply Nat.ltb_ge in El.
      assert (Hge : (m <= cntf L s a)%nat) by (rewrite Hc, firstn_length; lia).
      rewrite tally_skip by auto. auto.
  - rewrite app_nil_r.
    destruct (Nat.lt_ge_cases (cntf L s a) m) as [Hlt|Hge].
    + rewrite tally_cnt, tally_rw by auto.
      rewrite (Nat.eqb_sym s' s), (Nat.eqb_sym a' a), E. repeat split; auto.
      intros n' Hn'. rewrite tally_tr by auto.
      rewrite (Nat.eqb_sym s' s), (Nat.eqb_sym a' a), E. simpl. auto.
    + rewrite tally_skip by auto. auto.
Qed.

Lemma init_cnt s a : (s < nS)%nat -> (a < nA)%nat -> cntf initR s a = 0%nat.
Proof. intros. unfold cntf, init_learner; cbn [l_cnt]. now rewrite untabn2_tabn2. Qed.
Lemma init_rw s a : (s < nS)%nat -> (a < nA)%nat -> rwf initR s a = 0.
Proof. intros. unfold rwf, init_learner; cbn [l_rw]. now rewrite untab2_tab2. Qed.
Lemma init_tr s a ns : (s < nS)%nat -> (a < nA)%nat -> (ns < nS)%nat -> trf initR s a ns = 0%nat.
Proof. intros. unfold trf, init_learner; cbn [l_tr]. now rewrite untabn3_tabn3. Qed.
Lemma init_q s a : (s < nS)%nat -> (a < nA)%nat -> qf initR s a = Q0.
Proof. intros. unfold qf, init_learner; cbn [l_q]. now rewrite untab2_tab2. Qed.

(* rmax_counts_capped, bookkeeping form: the tallies are exactly the first min(count,m) samples *)
Theorem tallies_spec exp : tally_spec (talliesR exp) exp.
Proof.
  induction exp as [|e exp IH] using rev_ind.
  - intros s a Hs Ha. unfold firstm, hits. simpl. rewrite firstn_nil. simpl.
    rewrite init_cnt, init_rw by auto. repeat split; auto. intros; now rewrite init_tr.
  - rewrite tallies_snoc. apply tally_spec_step; auto.
Qed.

(* the learner's tallies never depend on q: train and the bookkeeping model agree *)
Definition teq (L1 L2 : learner R) : Prop :=
  l_rw L1 = l_rw L2 /\ l_cnt L1 = l_cnt L2 /\ l_tr L1 = l_tr L2.

Lemma tally_teq L1 L2 e : teq L1 L2 -> teq (tallyR L1 e) (tallyR L2 e).
Proof.
  destruct L1, L2, e as [[[s a] r] ns]. unfold teq. simpl. intros (-> & -> & ->).
  unfold tally, cntf, rwf, trf. simpl. destruct (_ <? m)%nat; simpl; auto.
Qed.
Lemma observe_teq fuel L e L' : observeR fuel L e = Some L' -> teq L' (tallyR L e).
Proof.
  destruct e as [[[s a] r] ns]. unfold observe.
  destruct (cntf L s a <? m)%nat eqn:E.
  - destruct (_ =? m)%nat.
    + destruct (vi_loop _ _ _ _ _ _ _ _) eqn:Ev; [|discriminate].
      intros H; inversion H; subst. unfold teq; simpl; auto.
    + intros H; inversion H; subst. unfold teq; auto.
  - intros H; inversion H; subst. unfold tally. rewrite E. unfold teq; auto.
Qed.
Lemma train_from_none fuel exp : train_fromR fuel exp None = None.
Proof. unfold train_from. induction exp; simpl; auto. Qed.
Lemma train_from_cons fuel e exp L :
  train_fromR fuel (e :: exp) (Some L) = train_fromR fuel exp (observeR fuel L e).
Proof. reflexivity. Qed.

Lemma train_from_teq fuel exp L1 L2 L' :
  teq L1 L2 -> train_fromR fuel exp (Some L1) = Some L' -> teq L' (fold_left tallyR exp L2).
Proof.
  revert L1 L2. induction exp as [|e exp IH]; intros L1 L2 Ht H.
  - simpl in H. inversion H; subst. exact Ht.
  - rewrite train_from_cons in H. destruct (observeR fuel L1 e) as [L1'|] eqn:Eo.
    + simpl. eapply IH; [|exact H]. apply observe_teq in Eo.
      destruct Eo as (A & B & C). destruct (tally_teq L1 L2 e Ht) as (A' & B' & C').
      unfold teq. rewrite A, B, C. auto.
    + rewrite train_from_none in H. discriminate.
Qed.

Lemma teq_views L1 L2 : teq L1 L2 ->
  (forall s a, cntf L1 s a = cntf L2 s a) /\ (forall s a, rwf L1 s a = rwf L2 s a) /\
  (forall s a ns, trf L1 s a ns = trf L2 s a ns).
Proof. intros (A & B & C). unfold cntf, rwf, trf. rewrite A, B, C. auto. Qed.

(* rmax_counts_capped *)
Theorem train_counts_capped fuel exp L :
  trainR fuel exp = Some L -> tally_spec L exp.
Proof.
  intros H. unfold train in H.
  assert (Ht : teq L (talliesR exp)).
  { eapply train_from_teq; [|exact H]. unfold teq; auto. }
  apply teq_views in Ht as (A & B & C).
  intros s a Hs Ha. rewrite A, B. destruct (tallies_spec exp s a Hs Ha) as (X & Y & Z).
  repeat split; auto. intros ns Hns. rewrite C. auto.
Qed.

Corollary rmax_counts_capped fuel exp L :
  trainR fuel exp = Some L ->
  forall s a, (s < nS)%nat -> (a < nA)%nat ->
    cntf L s a = length (firstm exp s a) /\
    length (firstm exp s a) = Nat.min m (length (hits exp s a)) /\
    rwf L s a = rsum (firstm exp s a) /\
    (forall ns, (ns < nS)%nat -> trf L s a ns = ncount (firstm exp s a) ns).
Proof.
  intros Ht s a Hs Ha. destruct (train_counts_capped fuel exp L Ht s a Hs Ha) as (A & B & C).
  repeat split; auto. apply firstm_length.
Qed.


(* ---------------------------------------------------------------------------------- *)
(* Part 2: the learner invariant                                                        *)
(* ---------------------------------------------------------------------------------- *)
(* well-formed tallies: what makes the empirical model of the known pairs a model *)
Record tinv (L : learner R) : Prop := {
  ti_cap : forall s a, (s < nS)%nat -> (a < nA)%nat -> (cntf L s a <= m)%nat;
  ti_rsum : forall s a, (s < nS)%nat -> (a < nA)%nat -> rwf L s a <= INR (cntf L s a) * rmax;
  ti_tsum : forall s a, (s < nS)%nat -> (a < nA)%nat -> sumn nS (trf L s a) = cntf L s a
}.

Definition valid_step (e : stepR) : Prop :=
  let '(s, a, r, ns) := e in (s < nS)%nat /\ (a < nA)%nat /\ (ns < nS)%nat /\ r <= rmax.

Lemma known_iff L s a : knownR L s a = true <-> (m <= cntf L s a)%nat.
Proof using Type. clear Hm Hg0 Hg1. unfold known. apply Nat.leb_le. Qed.
Lemma known_false L s a : knownR L s a = false <-> (cntf L s a < m)%nat.
Proof using Type. clear Hm Hg0 Hg1. unfold known. apply Nat.leb_gt. Qed.
Lemma pcount_known (L : learner R) s a : (m <= cntf L s a)%nat -> pcount L s a = cntf L s a.
Proof. intros H. unfold pcount. destruct (cntf L s a =? 0)%nat eqn:E; [apply Nat.eqb_eq in E; lia|reflexivity]. Qed.

Lemma rhat_known L s a :
  (m <= cntf L s a)%nat -> @rhat R NumR L s a = rwf L s a / INR (cntf L s a).
Proof.
  intros H. unfold rhat; numR. rewrite nofnat_R, pcount_known by auto.
  apply Rdivg_nz. apply not_0_INR. lia.
Qed.
Lemma that_known L s a ns :
  (m <= cntf L s a)%nat -> thatR L s a ns = INR (trf L s a ns) / INR (cntf L s a).
Proof.
  intros H. unfold that. rewrite (proj2 (known_iff L s a) H). numR.
  rewrite !nofnat_R, pcount_known by auto. apply Rdivg_nz. apply not_0_INR. lia.
Qed.

Lemma rhat_le L s a :
  tinv L -> (s < nS)%nat -> (a < nA)%nat -> (m <= cntf L s a)%nat -> @rhat R NumR L s a <= rmax.
Proof.
  intros Ht Hs Ha Hk. rewrite rhat_known by auto.
  assert (Hc : 0 < INR (cntf L s a)) by (apply lt_0_INR; lia).
  pose proof (ti_rsum L Ht s a Hs Ha) as Hr.
  apply Rmult_le_reg_r with (INR (cntf L s a)); [auto|].
  unfold Rdiv. rewrite Rmult_assoc, Rinv_l by lra. lra.
Qed.
Lemma that_nonneg L s a ns : (m <= cntf L s a)%nat -> 0 <= thatR L s a ns.
Proof.
  intros Hk. rewrite that_known by auto.
  assert (Hc : 0 < INR (cntf L s a)) by (apply lt_0_INR; lia).
  apply Rmult_le_pos; [apply pos_INR|]. left. now apply Rinv_0_lt_compat.
Qed.
Lemma that_sum L s a :
  tinv L -> (s < nS)%nat -> (a < nA)%nat -> (m <= cntf L s a)%nat ->
  sumf nS (thatR L s a) = 1.
Proof.
  intros Ht Hs Ha Hk.
  rewrite (sumf_ext nS _ (fun ns => INR (trf L s a ns) * / INR (cntf L s a)))
    by (intros; now rewrite that_known).
  rewrite sumf_scal_r, sumf_INR, (ti_tsum L Ht s a Hs Ha).
  apply Rinv_r. apply not_0_INR. lia.
Qed.

(* np.max over the action axis *)
Lemma vmax_some q s : (1 <= nA)%nat ->
  exists mx, maxf nA (fun _ => true) (fun a => untab2 q s a) = Some mx /\ vmaxR q s = mx.
Proof using Type. clear Hm Hg0 Hg1.
  intros H. destruct (maxf_some_ex nA (fun _ => true) (fun a => untab2 q s a) 0%nat) as (mx & E); auto.
  exists mx. split; auto. unfold vmax. now rewrite E.
Qed.
Lemma vmax_ge q s a : (a < nA)%nat -> untab2 q s a <= vmaxR q s.
Proof using Type. clear Hm Hg0 Hg1.
  intros Ha. destruct (vmax_some q s) as (mx & E & ->); [lia|].
  apply (maxf_ge _ _ _ _ _ E Ha eq_refl).
Qed.
Lemma vmax_le q s b : (1 <= nA)%nat -> (forall a, (a < nA)%nat -> untab2 q s a <= b) -> vmaxR q s <= b.
Proof using Type. clear Hm Hg0 Hg1.
  intros H Hb. destruct (vmax_some q s H) as (mx & E & ->).
  apply (maxf_le_bound _ _ _ _ _ E). intros; auto.
Qed.
Lemma vmax_attained q s : (1 <= nA)%nat -> exists a, (a < nA)%nat /\ untab2 q s a = vmaxR q s.
Proof using Type. clear Hm Hg0 Hg1.
  intros H. destruct (vmax_some q s H) as (mx & E & ->).
  destruct (maxf_attained _ _ _ _ E) as (a & Ha & _ & Hf). eauto.
Qed.

Lemma newq_val L q s a :
  newqR L q s a = @rhat R NumR L s a + gamma * sumf nS (fun ns => thatR L s a ns * vmaxR q ns).
Proof using Type. clear Hm Hg0 Hg1. reflexivity. Qed.

(* one Bellman backup of the empirical model keeps the optimistic upper bound *)
Lemma newq_upper L q s a :
  tinv L -> (s < nS)%nat -> (a < nA)%nat -> (m <= cntf L s a)%nat ->
  (forall s' a', (s' < nS)%nat -> (a' < nA)%nat -> untab2 q s' a' <= Q0) ->
  newqR L q s a <= Q0.
Proof.
  intros Ht Hs Ha Hk Hq. rewrite newq_val.
  pose proof (rhat_le L s a Ht Hs Ha Hk) as Hr.
  assert (Hsum : sumf nS (fun ns => thatR L s a ns * vmaxR q ns) <= Q0).
  { eapply Rle_trans.
    - apply wsum_le_max with (m := Q0).
      + intros ns _. now apply that_nonneg.
      + intros ns Hns. apply vmax_le; [lia|]. intros a' Ha'. auto.
    - rewrite that_sum by auto. lra. }
  pose proof q0_fix as Hfix.
  assert (Hg : gamma * sumf nS (fun ns => thatR L s a ns * vmaxR q ns) <= gamma * Q0)
    by (apply Rmult_le_compat_l; auto).
  lra.
Qed.

Lemma newq_congr L1 L2 q s a :
  cntf L1 s a = cntf L2 s a -> rwf L1 s a = rwf L2 s a ->
  (forall ns, (ns < nS)%nat -> trf L1 s a ns = trf L2 s a ns) ->
  newqR L1 q s a = newqR L2 q s a.
Proof.
  intros Hc Hr Ht. rewrite !newq_val. unfold rhat, pcount. rewrite Hc, Hr. f_equal. f_equal.
  apply sumf_ext. intros ns Hns. unfold that, known, pcount. rewrite Hc, (Ht ns Hns). reflexivity.
Qed.

Lemma sweep_val L q s a :
  (s < nS)%nat -> (a < nA)%nat ->
  untab2 (sweepR L q) s a = if knownR L s a then newqR L q s a else untab2 q s a.
Proof using Type. clear Hm Hg0 Hg1. intros Hs Ha. unfold sweep. now rewrite untab2_tab2. Qed.

Lemma conv_spec L q nq :
  convR L q nq = true <->
  (forall s a, (s < nS)%nat -> (a < nA)%nat -> (m <= cntf L s a)%nat ->
               Rabs (untab2 q s a - untab2 nq s a) < tol).
Proof using Type. clear Hm Hg0 Hg1.
  unfold conv. rewrite forallbn_spec. split.
  - intros H s a Hs Ha Hk. specialize (H s Hs). rewrite forallbn_spec in H. specialize (H a Ha).
    rewrite (proj2 (known_iff L s a) Hk) in H. apply nltb_R in H. now rewrite nabs_R in H.
  - intros H s Hs. rewrite forallbn_spec. intros a Ha.
    destruct (knownR L s a) eqn:E; [|reflexivity]. apply nltb_R. rewrite nabs_R.
    apply H; auto. now apply known_iff.
Qed.

(* anything a sweep preserves holds on normal exit of the loop, where the stop test also holds *)
Lemma vi_loop_inv (Pq : list (list R) -> Prop) fuel L q q' :
  (forall q, Pq q -> Pq (sweepR L q)) -> Pq q -> vi_loopR fuel L q = Some q' ->
  Pq q' /\ convR L q' (sweepR L q') = true.
Proof using Type. clear Hm Hg0 Hg1.
  intros Hstep. revert q. induction fuel as [|f IH]; intros q HP H; simpl in H; [discriminate|].
  destruct (convR L q (sweepR L q)) eqn:E.
  - inversion H; subst. auto.
  - apply (IH (sweepR L q)); auto.
Qed.

Record inv (L : learner R) : Prop := {
  inv_t : tinv L;
  inv_upper : forall s a, (s < nS)%nat -> (a < nA)%nat -> qf L s a <= Q0;
  inv_unk : forall s a, (s < nS)%nat -> (a < nA)%nat -> (cntf L s a < m)%nat -> qf L s a = Q0;
  inv_bell : forall s a, (s < nS)%nat -> (a < nA)%nat -> (m <= cntf L s a)%nat ->
             Rabs (qf L s a - newqR L (l_q L) s a) < tol
}.

Lemma tinv_init : tinv initR.
Proof.
  constructor.
  - intros s a Hs Ha. rewrite init_cnt by auto. lia.
  - intros s a Hs Ha. rewrite init_cnt, init_rw by auto. simpl. lra.
  - intros s a Hs Ha. rewrite init_cnt by auto.
    rewrite (sumn_ext nS _ (fun _ => 0%nat)) by (intros; now apply init_tr).
    clear. induction nS; simpl; lia.
Qed.
Lemma inv_init : inv initR.
Proof.
  constructor; [apply tinv_init|..].
  - intros s a Hs Ha. rewrite init_q by auto. lra.
  - intros s a Hs Ha _. now apply init_q.
  - intros s a Hs Ha Hk. rewrite init_cnt in Hk by auto. lia.
Qed.

Lemma pair_eqb_true s a s' a' :
  ((s' =? s) && (a' =? a))%nat = true <-> s' = s /\ a' = a.
Proof. rewrite andb_true_iff, !Nat.eqb_eq. tauto. Qed.

Lemma tinv_tally L e : tinv L -> valid_step e -> tinv (tallyR L e).
Proof.
  destruct e as [[[s a] r] ns]. intros Ht (Hs & Ha & Hns & Hr).
  destruct (Nat.lt_ge_cases (cntf L s a) m) as [Hlt|Hge]; [|now rewrite tally_skip].
  constructor; intros s' a' Hs' Ha'.
  - rewrite tally_cnt by auto. destruct ((s' =? s) && (a' =? a))%nat eqn:E.
    + apply pair_eqb_true in E as [-> ->]. lia.
    + apply (ti_cap L Ht); auto.
  - rewrite tally_cnt, tally_rw by auto. pose proof (ti_rsum L Ht s' a' Hs' Ha') as H.
    destruct ((s' =? s) && (a' =? a))%nat eqn:E; [|auto].
    rewrite S_INR. lra.
  - rewrite tally_cnt by auto.
    rewrite (sumn_ext nS _ (fun n' => if ((s' =? s) && (a' =? a) && (n' =? ns))%nat
                                       then S (trf L s' a' n') else trf L s' a' n'))
      by (intros; now apply tally_tr).
    pose proof (ti_tsum L Ht s' a' Hs' Ha') as H.
    destruct ((s' =? s) && (a' =? a))%nat eqn:E; simpl.
    + rewrite sumn_bump by auto. lia.
    + auto.
Qed.

Lemma tinv_teq L1 L2 : teq L1 L2 -> tinv L1 -> tinv L2.
Proof.
  intros Ht H. apply teq_views in Ht as (A & B & C). destruct H as [H1 H2 H3].
  constructor; intros s a Hs Ha.
  - rewrite <- A; auto.
  - rewrite <- A, <- B; auto.
  - rewrite <- A, <- (H3 s a Hs Ha). apply sumn_ext. intros; symmetry; apply C.
Qed.

Lemma observe_inv fuel L e L' :
  inv L -> valid_step e -> observeR fuel L e = Some L' -> inv L'.
Proof.
  intros HI Hv Ho. pose proof (tinv_tally L e (inv_t L HI) Hv) as Ht1.
  destruct e as [[[s a] r] ns]. destruct Hv as (Hs & Ha & Hns & Hr).
  unfold observe in Ho.
  destruct (cntf L s a <? m)%nat eqn:Elt; [|inversion Ho; subst; exact HI].
  apply Nat.ltb_lt in Elt.
  set (L1 := tallyR L (s, a, r, ns)) in *.
  assert (Hc1 : forall s' a', (s' < nS)%nat -> (a' < nA)%nat ->
            cntf L1 s' a' = if ((s' =? s) && (a' =? a))%nat then S (cntf L s' a') else cntf L s' a')
    by (intros; now apply tally_cnt).
  assert (Hq1 : l_q L1 = l_q L) by apply tally_q.
  assert (Hsa : cntf L1 s a = S (cntf L s a)).
  { rewrite Hc1 by auto. now rewrite !Nat.eqb_refl. }
  destruct (cntf L1 s a =? m)%nat eqn:Em.
  - (* the pair just became known: value iteration runs *)
    apply Nat.eqb_eq in Em.
    destruct (vi_loopR fuel L1 (l_q L1)) as [q'|] eqn:Ev; [|discriminate].
    inversion Ho; subst L'. clear Ho.
    pose (Pq := fun q : list (list R) =>
      (forall s' a', (s' < nS)%nat -> (a' < nA)%nat -> untab2 q s' a' <= Q0) /\
      (forall s' a', (s' < nS)%nat -> (a' < nA)%nat -> (cntf L1 s' a' < m)%nat -> untab2 q s' a' = Q0)).
    destruct (vi_loop_inv Pq fuel L1 (l_q L1) q') as ((Hup & Hunk) & Hconv); auto.
    + intros q (Hup & Hunk). split; intros s' a' Hs' Ha'.
      * rewrite sweep_val by auto. destruct (knownR L1 s' a') eqn:Ek; [|auto].
        apply newq_upper; auto. now apply known_iff.
      * intros Hlt. rewrite sweep_val by auto.
        rewrite (proj2 (known_false L1 s' a') Hlt). auto.
    + rewrite Hq1. split; intros s' a' Hs' Ha'.
      * apply (inv_upper L HI); auto.
      * intros Hlt. apply (inv_unk L HI); auto.
        rewrite Hc1 in Hlt by auto. destruct ((s' =? s) && (a' =? a))%nat eqn:E; [|auto].
        apply pair_eqb_true in E as [-> ->]. lia.
    + assert (Hteq : teq L1 (mkL (l_rw L1) (l_cnt L1) (l_tr L1) q')) by (unfold teq; auto).
      constructor.
      * apply (tinv_teq _ _ Hteq Ht1).
      * intros s' a' Hs' Ha'. apply Hup; auto.
      * intros s' a' Hs' Ha' Hlt. apply Hunk; auto.
      * intros s' a' Hs' Ha' Hk. rewrite conv_spec in Hconv.
        specialize (Hconv s' a' Hs' Ha' Hk). rewrite sweep_val in Hconv by auto.
        rewrite (proj2 (known_iff L1 s' a') Hk) in Hconv. exact Hconv.
  - (* still unknown: only the tallies of an unknown pair moved *)
    apply Nat.eqb_neq in Em. inversion Ho; subst L'. clear Ho.
    pose proof (ti_cap L1 Ht1 s a Hs Ha) as Hcap.
    constructor; auto.
    + intros s' a' Hs' Ha'. unfold qf. rewrite Hq1. apply (inv_upper L HI); auto.
    + intros s' a' Hs' Ha' Hlt. unfold qf. rewrite Hq1.
      apply (inv_unk L HI); auto. rewrite Hc1 in Hlt by auto.
      destruct ((s' =? s) && (a' =? a))%nat eqn:E; [|auto].
      apply pair_eqb_true in E as [-> ->]. lia.
    + intros s' a' Hs' Ha' Hk. unfold qf. rewrite Hq1.
      assert (E : ((s' =? s) && (a' =? a))%nat = false).
      { destruct ((s' =? s) && (a' =? a))%nat eqn:E; [|reflexivity].
        apply pair_eqb_true in E as [-> ->]. lia. }
      rewrite Hc1, E in Hk by auto.
      rewrite (newq_congr L1 L (l_q L) s' a').
      * apply (inv_bell L HI); auto.
      * rewrite Hc1, E by auto. reflexivity.
      * unfold L1. rewrite tally_rw, E by auto. reflexivity.
      * intros n' Hn'. unfold L1. rewrite tally_tr, E by auto. reflexivity.
Qed.

Lemma train_from_inv fuel exp L L' :
  inv L -> Forall valid_step exp -> train_fromR fuel exp (Some L) = Some L' -> inv L'.
Proof.
  revert L. induction exp as [|e exp IH]; intros L HI Hv H.
  - simpl in H. inversion H; subst. exact HI.
  - rewrite train_from_cons in H. inversion Hv; subst.
    destruct (observeR fuel L e) as [L1|] eqn:Eo.
    + apply (IH L1); auto. eapply observe_inv; eauto.
    + rewrite train_from_none in H. discriminate.
Qed.

Theorem train_inv fuel exp L :
  Forall valid_step exp -> trainR fuel exp = Some L -> inv L.
Proof. intros Hv H. apply (train_from_inv fuel exp initR L inv_init Hv H). Qed.

(* "after every step": every prefix of the experience is itself an experience *)
Lemma train_prefix fuel exp1 exp2 L :
  trainR fuel (exp1 ++ exp2) = Some L -> exists L1, trainR fuel exp1 = Some L1.
Proof.
  unfold train, train_from. rewrite fold_left_app.
  destruct (fold_left _ exp1 _) as [L1|] eqn:E; [eauto|].
  intros H. change (train_fromR fuel exp2 None = Some L) in H. rewrite train_from_none in H. discriminate.
Qed.

(* ---- the model-level theorems ---- *)
Theorem rmax_upper fuel exp L :
  Forall valid_step exp -> trainR fuel exp = Some L ->
  forall s a, (s < nS)%nat -> (a < nA)%nat -> qf L s a <= rmax / (1 - gamma).
Proof. intros Hv H s a Hs Ha. rewrite <- q0_val. apply (inv_upper L (train_inv fuel exp L Hv H)); auto. Qed.

Theorem rmax_upper_every_step fuel exp L :
  Forall valid_step exp -> trainR fuel exp = Some L ->
  forall k, exists Lk, trainR fuel (firstn k exp) = Some Lk /\
    forall s a, (s < nS)%nat -> (a < nA)%nat -> qf Lk s a <= rmax / (1 - gamma).
Proof.
  intros Hv H k. rewrite <- (firstn_skipn k exp) in H.
  destruct (train_prefix fuel _ _ L H) as (Lk & Hk). exists Lk. split; auto.
  apply (rmax_upper fuel (firstn k exp)); auto.
  rewrite <- (firstn_skipn k exp) in Hv. apply Forall_app in Hv. tauto.
Qed.

Theorem rmax_unknown_exact fuel exp L :
  Forall valid_step exp -> trainR fuel exp = Some L ->
  forall s a, (s < nS)%nat -> (a < nA)%nat -> (cntf L s a < m)%nat ->
  qf L s a = qf initR s a /\ qf L s a = rmax / (1 - gamma).
Proof.
  intros Hv H s a Hs Ha Hlt. rewrite init_q by auto. rewrite <- q0_val.
  split; apply (inv_unk L (train_inv fuel exp L Hv H)); auto.
Qed.

Theorem rmax_bellman_known fuel exp L :
  Forall valid_step exp -> trainR fuel exp = Some L ->
  forall s a, (s < nS)%nat -> (a < nA)%nat -> (m <= cntf L s a)%nat ->
  Rabs (qf L s a - newqR L (l_q L) s a) < tol.
Proof. intros Hv H. apply (inv_bell L (train_inv fuel exp L Hv H)). Qed.


(* ---------------------------------------------------------------------------------- *)
(* Part 2b: the optimistic empirical model (unknown pairs = self-loops paying rmax) and   *)
(* the distance of a table with small residual to its optimal Q                           *)
(* ---------------------------------------------------------------------------------- *)
Notation boptR := (@bopt R NumR nS nA m gamma rmax).

Lemma tallies_tinv exp : Forall valid_step exp -> tinv (talliesR exp).
Proof.
  induction exp as [|e exp IH] using rev_ind; intros Hv.
  - apply tinv_init.
  - apply Forall_app in Hv as [Hv1 Hv2]. inversion Hv2; subst.
    rewrite tallies_snoc. apply tinv_tally; auto.
Qed.
Lemma tinv_views L1 L2 :
  (forall s a, (s < nS)%nat -> (a < nA)%nat ->
     cntf L2 s a = cntf L1 s a /\ rwf L2 s a = rwf L1 s a /\
     (forall ns, (ns < nS)%nat -> trf L2 s a ns = trf L1 s a ns)) ->
  tinv L1 -> tinv L2.
Proof.
  intros Hv [H1 H2 H3]. constructor; intros s a Hs Ha; destruct (Hv s a Hs Ha) as (A & B & C).
  - rewrite A; auto.
  - rewrite A, B; auto.
  - rewrite A, <- (H3 s a Hs Ha). apply sumn_ext. auto.
Qed.

Lemma vmax_nonexp q1 q2 s D :
  (1 <= nA)%nat ->
  (forall a, (a < nA)%nat -> Rabs (untab2 q1 s a - untab2 q2 s a) <= D) ->
  Rabs (vmaxR q1 s - vmaxR q2 s) <= D.
Proof using Type. clear Hm Hg0 Hg1.
  intros H Hd. destruct (vmax_some q1 s H) as (m1 & E1 & ->). destruct (vmax_some q2 s H) as (m2 & E2 & ->).
  apply (maxf_nonexp _ _ _ _ _ _ _ E1 E2). intros a Ha _. auto.
Qed.

Lemma bopt_contraction L q1 q2 D s a :
  tinv L -> (s < nS)%nat -> (a < nA)%nat ->
  (forall s' a', (s' < nS)%nat -> (a' < nA)%nat -> Rabs (untab2 q1 s' a' - untab2 q2 s' a') <= D) ->
  Rabs (boptR L q1 s a - boptR L q2 s a) <= gamma * D.
Proof.
  intros Ht Hs Ha Hd. unfold bopt. destruct (knownR L s a) eqn:E.
  - apply known_iff in E. rewrite !newq_val.
    set (S1 := sumf nS (fun ns => thatR L s a ns * vmaxR q1 ns)).
    set (S2 := sumf nS (fun ns => thatR L s a ns * vmaxR q2 ns)).
    replace (@rhat R NumR L s a + gamma * S1 - (@rhat R NumR L s a + gamma * S2)) with (gamma * (S1 - S2)) by lra.
    rewrite Rabs_mult, (Rabs_right gamma) by lra. apply Rmult_le_compat_l; [lra|].
    eapply Rle_trans.
    + apply wsum_diff_bound with (d := D).
      * intros ns _. now apply that_nonneg.
      * intros ns Hns. apply vmax_nonexp; [lia|]. intros a' Ha'. auto.
    + rewrite that_sum by auto. lra.
  - numR.
    replace (rmax + gamma * vmaxR q1 s - (rmax + gamma * vmaxR q2 s))
      with (gamma * (vmaxR q1 s - vmaxR q2 s)) by lra.
    rewrite Rabs_mult, (Rabs_right gamma) by lra. apply Rmult_le_compat_l; [lra|].
    apply vmax_nonexp; [lia|]. intros a' Ha'. auto.
Qed.

(* a table whose residual against the optimistic empirical backup is at most delta lies within
   delta/(1-gamma) of any fixed point of that backup (hence of THE fixed point: take delta = 0) *)
Theorem bopt_residual_bound L Qt Qs delta :
  tinv L -> 0 <= delta ->
  (forall s a, (s < nS)%nat -> (a < nA)%nat -> untab2 Qs s a = boptR L Qs s a) ->
  (forall s a, (s < nS)%nat -> (a < nA)%nat -> Rabs (untab2 Qt s a - boptR L Qt s a) <= delta) ->
  forall s a, (s < nS)%nat -> (a < nA)%nat ->
  Rabs (untab2 Qt s a - untab2 Qs s a) <= delta / (1 - gamma).
Proof.
  intros Ht Hd0 Hfix Hres.
  set (f := fun k => untab2 Qt (k / nA) (k mod nA) - untab2 Qs (k / nA) (k mod nA)).
  destruct (fsup (nS * nA) f) as (D & HD0 & HDle & HDat).
  assert (Hpair : forall s a, (s < nS)%nat -> (a < nA)%nat ->
            Rabs (untab2 Qt s a - untab2 Qs s a) <= D).
  { intros s a Hs Ha. specialize (HDle (a + s * nA)%nat).
    unfold f in HDle. rewrite Nat.div_add, Nat.mod_add, Nat.div_small, Nat.mod_small in HDle by lia.
    apply HDle. nia. }
  assert (HD : D <= delta / (1 - gamma)).
  { destruct HDat as [->|(k & Hk & He)].
    - apply Rmult_le_pos; [lra|]. left. apply Rinv_0_lt_compat. lra.
    - assert (HnA : (nA <> 0)%nat) by (intro; subst; lia).
      assert (Hs : (k / nA < nS)%nat) by (apply Nat.div_lt_upper_bound; [auto|lia]).
      assert (Ha : (k mod nA < nA)%nat) by (apply Nat.mod_upper_bound; auto).
      unfold f in He.
      pose proof (bopt_contraction L Qt Qs D _ _ Ht Hs Ha Hpair) as Hc.
      pose proof (Hres _ _ Hs Ha) as Hr. pose proof (Hfix _ _ Hs Ha) as Hf.
      assert (H1 : D <= delta + gamma * D).
      { apply Rabs_le_inv' in Hc. apply Rabs_le_inv' in Hr.
        rewrite <- He at 1. apply Rabs_le. lra. }
      apply Rmult_le_reg_r with (1 - gamma); [lra|].
      unfold Rdiv. rewrite Rmult_assoc, Rinv_l; lra. }
  intros s a Hs Ha. eapply Rle_trans; [apply Hpair; auto|exact HD].
Qed.

(* unknown pairs of a learner state satisfying the invariant are exact fixed points of the backup *)
Lemma inv_unknown_residual L s a :
  inv L -> (s < nS)%nat -> (a < nA)%nat -> (cntf L s a < m)%nat ->
  qf L s a = boptR L (l_q L) s a.
Proof.
  intros HI Hs Ha Hlt. unfold bopt. rewrite (proj2 (known_false L s a) Hlt). numR.
  assert (Hv : vmaxR (l_q L) s = Q0).
  { apply Rle_antisym.
    - apply vmax_le; [lia|]. intros a' Ha'. apply (inv_upper L HI); auto.
    - rewrite <- (inv_unk L HI s a Hs Ha Hlt). now apply vmax_ge. }
  rewrite Hv, q0_fix. apply (inv_unk L HI); auto.
Qed.

Theorem rmax_near_empirical_optimum fuel exp L Qs :
  Forall valid_step exp -> trainR fuel exp = Some L -> 0 <= tol ->
  (forall s a, (s < nS)%nat -> (a < nA)%nat -> untab2 Qs s a = boptR L Qs s a) ->
  forall s a, (s < nS)%nat -> (a < nA)%nat -> Rabs (qf L s a - untab2 Qs s a) <= tol / (1 - gamma).
Proof.
  intros Hv Ht Htol Hfix. pose proof (train_inv fuel exp L Hv Ht) as HI.
  apply (bopt_residual_bound L (l_q L) Qs tol (inv_t L HI) Htol Hfix).
  intros s a Hs Ha. destruct (Nat.lt_ge_cases (cntf L s a) m) as [Hlt|Hge].
  - fold (qf L s a). rewrite <- (inv_unknown_residual L s a HI Hs Ha Hlt).
    replace (qf L s a - qf L s a) with 0 by lra. rewrite Rabs_R0. exact Htol.
  - unfold bopt. rewrite (proj2 (known_iff L s a) Hge). left. apply (inv_bell L HI); auto.
Qed.

(* ---- the returned policy (model side): uniform over the exact maximisers of the row ---- *)
Notation is_maxR := (@is_max R NumR nA).
Notation greedyR := (@greedy R NumR nA).

Lemma is_max_iff q s a : is_maxR q s a = true <-> untab2 q s a = vmaxR q s.
Proof using Type. clear Hm Hg0 Hg1. unfold is_max. apply neqb_R_iff. Qed.

Theorem rmax_policy_greedy q s a :
  (a < nA)%nat ->
  (0 < greedyR q s a <-> (forall a', (a' < nA)%nat -> untab2 q s a' <= untab2 q s a)) /\
  (0 < greedyR q s a -> greedyR q s a = 1 / INR (countb nA (is_maxR q s))) /\
  (~ 0 < greedyR q s a -> greedyR q s a = 0).
Proof using Type. clear Hm Hg0 Hg1.
  intros Ha. unfold greedy. destruct (is_maxR q s a) eqn:E.
  - pose proof (countb_pos nA (is_maxR q s) a Ha E) as Hk.
    assert (Hpos : 0 < INR (countb nA (is_maxR q s))) by (apply lt_0_INR; lia).
    numR. rewrite nofnat_R, Rdivg_nz by lra.
    assert (H1 : 0 < 1 / INR (countb nA (is_maxR q s))) by (apply Rdiv_lt_0_compat; lra).
    apply is_max_iff in E. repeat split; auto.
    + intros _ a' Ha'. rewrite E. now apply vmax_ge.
    + intros H; contradiction.
  - numR. repeat split; try lra.
    intros H. exfalso.
    assert (Heq : untab2 q s a = vmaxR q s).
    { apply Rle_antisym; [now apply vmax_ge|]. apply vmax_le; [lia|auto]. }
    apply is_max_iff in Heq. congruence.
Qed.

(* ---------------------------------------------------------------------------------- *)
(* Part 3: soundness of the certificate checker on the implementation's output          *)
(* ---------------------------------------------------------------------------------- *)
Section Cert.
Variables (P Rw : list (list (list R))) (ab : list bool) (ini : list R).
Variable eps : list (@episode R).
Variable O : learner R.
Variable pi : list (list R).
Variables (utol btol ptol : R).

Notation chainR := (@chain R NumR nS nA rmax P Rw ab).
Notation expR := (@experience R eps).

(* every recorded step is a real transition of the MDP with the MDP's reward *)
Fixpoint chainP (steps : list stepR) (fin : nat) : Prop :=
  match steps with
  | [] => True
  | (s, a, r, ns) :: rest =>
      (s < nS)%nat /\ (a < nA)%nat /\ (ns < nS)%nat /\ absorbing ab s = false /\
      0 < untab3 P s a ns /\ r = untab3 Rw s a ns /\ r <= rmax /\
      ns = next_start rest fin /\ chainP rest fin
  end.
Definition episode_ok (ep : @episode R) : Prop :=
  let st := next_start (fst ep) (snd ep) in
  (st < nS)%nat /\ 0 < untab ini st /\ chainP (fst ep) (snd ep) /\ absorbing ab (snd ep) = true.

Lemma chain_spec steps fin : chainR steps fin = true -> chainP steps fin.
Proof using Type. clear Hm Hg0 Hg1.
  induction steps as [|[[[s a] r] ns] rest IH]; simpl; [auto|].
  rewrite !andb_true_iff, !Nat.ltb_lt, negb_true_iff, nltb_R, neqb_R_iff, nleb_R_iff, Nat.eqb_eq.
  intros ((((((((H1 & H2) & H3) & H4) & H5) & H6) & H7) & H8) & H9). repeat split; auto.
Qed.
Lemma chainP_valid steps fin : chainP steps fin -> Forall valid_step steps.
Proof using Type. clear Hm Hg0 Hg1.
  induction steps as [|[[[s a] r] ns] rest IH]; simpl; intros H; constructor.
  - unfold valid_step. tauto.
  - apply IH. tauto.
Qed.

Theorem cert_valid :
  @c_valid R NumR nS nA rmax P Rw ab ini eps = true -> Forall episode_ok eps.
Proof using Type. clear Hm Hg0 Hg1.
  unfold c_valid. rewrite forallb_forall. intros H. apply Forall_forall. intros ep Hin.
  specialize (H ep Hin). unfold valid_episode in H.
  rewrite !andb_true_iff, Nat.ltb_lt, nltb_R in H. destruct H as (((H1 & H2) & H3) & H4).
  unfold episode_ok. repeat split; auto. now apply chain_spec.
Qed.
Corollary cert_valid_steps :
  @c_valid R NumR nS nA rmax P Rw ab ini eps = true -> Forall valid_step expR.
Proof using Type. clear Hm Hg0 Hg1.
  intros H. apply cert_valid in H. unfold experience. induction H as [|ep l Hep Hl IH]; simpl; [constructor|].
  apply Forall_app. split; [|exact IH]. destruct Hep as (_ & _ & Hc & _). eapply chainP_valid; eauto.
Qed.

(* the learner's tallies are exactly the first min(count, m) recorded samples of each pair *)
Theorem cert_tally :
  @c_tally R NumR nS nA m gamma rmax eps O = true -> tally_spec O expR.
Proof.
  unfold c_tally. rewrite forallbn_spec. intros H s a Hs Ha.
  specialize (H s Hs). rewrite forallbn_spec in H. specialize (H a Ha).
  rewrite !andb_true_iff, neqb_R_iff, Nat.eqb_eq, forallbn_spec in H. destruct H as ((H1 & H2) & H3).
  destruct (tallies_spec expR s a Hs Ha) as (X & Y & Z).
  rewrite H1, H2. repeat split; auto.
  intros ns Hns. specialize (H3 ns Hns). apply Nat.eqb_eq in H3. rewrite H3. auto.
Qed.

Theorem cert_upper :
  @c_upper R NumR nS nA gamma rmax O utol = true ->
  forall s a, (s < nS)%nat -> (a < nA)%nat -> qf O s a <= rmax / (1 - gamma) + utol.
Proof.
  unfold c_upper. rewrite forallbn_spec. intros H s a Hs Ha.
  specialize (H s Hs). rewrite forallbn_spec in H. specialize (H a Ha).
  apply nleb_R_iff in H. rewrite <- q0_val. exact H.
Qed.

Theorem cert_unknown :
  @c_unknown R NumR nS nA m gamma rmax O = true ->
  forall s a, (s < nS)%nat -> (a < nA)%nat -> (cntf O s a < m)%nat -> qf O s a = rmax / (1 - gamma).
Proof.
  unfold c_unknown. rewrite forallbn_spec. intros H s a Hs Ha Hlt.
  specialize (H s Hs). rewrite forallbn_spec in H. specialize (H a Ha).
  rewrite (proj2 (known_false O s a) Hlt) in H. apply neqb_R_iff in H. rewrite <- q0_val. exact H.
Qed.

Theorem cert_bellman :
  @c_bellman R NumR nS nA m gamma O btol = true ->
  forall s a, (s < nS)%nat -> (a < nA)%nat -> (m <= cntf O s a)%nat ->
  Rabs (qf O s a - newqR O (l_q O) s a) <= btol.
Proof.
  unfold c_bellman. rewrite forallbn_spec. intros H s a Hs Ha Hk.
  specialize (H s Hs). rewrite forallbn_spec in H. specialize (H a Ha).
  rewrite (proj2 (known_iff O s a) Hk) in H. apply ncloseb_R in H. exact H.
Qed.

(* ... spelled out: the empirical model is built from the FIRST m recorded samples of the pair;
   successors are valued at their best returned Q-value (unknown pairs sit at the optimistic value
   by cert_unknown, which is the value of a self-loop paying rmax: q0_fix) *)
Theorem cert_bellman_explicit :
  @c_tally R NumR nS nA m gamma rmax eps O = true ->
  @c_bellman R NumR nS nA m gamma O btol = true ->
  forall s a, (s < nS)%nat -> (a < nA)%nat -> (m <= cntf O s a)%nat ->
  let F := firstm expR s a in
  length F = m /\
  Rabs (qf O s a - (rsum F / INR m
                    + gamma * sumf nS (fun ns => INR (ncount F ns) / INR m * vmaxR (l_q O) ns))) <= btol.
Proof.
  intros Ht Hb s a Hs Ha Hk F.
  destruct (cert_tally Ht s a Hs Ha) as (Hc & Hr & Htr). fold F in Hc, Hr, Htr.
  assert (Hlen : length F = m).
  { unfold F in *. rewrite firstm_length in *. lia. }
  split; [exact Hlen|].
  pose proof (cert_bellman Hb s a Hs Ha Hk) as H.
  rewrite newq_val, rhat_known in H by auto.
  rewrite (sumf_ext nS _ (fun ns => INR (ncount F ns) / INR m * vmaxR (l_q O) ns)) in H.
  - rewrite Hr in H. rewrite Hc, Hlen in H. exact H.
  - intros ns Hns. rewrite that_known by auto. rewrite Htr by auto. rewrite Hc, Hlen. reflexivity.
Qed.

(* the returned policy is greedy for the returned Q-values, uniformly over the exact maximisers *)
Theorem cert_policy :
  @c_policy R NumR nS nA O pi ptol = true ->
  forall s a, (s < nS)%nat -> (a < nA)%nat ->
  (0 < untab2 pi s a <-> (forall a', (a' < nA)%nat -> qf O s a' <= qf O s a)) /\
  (0 < untab2 pi s a ->
     Rabs (untab2 pi s a * INR (countb nA (is_maxR (l_q O) s)) - 1) <= ptol) /\
  (~ 0 < untab2 pi s a -> untab2 pi s a = 0).
Proof using Type. clear Hm Hg0 Hg1.
  unfold c_policy. rewrite forallbn_spec. intros H s a Hs Ha.
  specialize (H s Hs). cbv zeta in H. rewrite forallbn_spec in H.
  assert (Hsame : forall a', (a' < nA)%nat -> @insupp R NumR pi s a' = is_maxR (l_q O) s a').
  { intros a' Ha'. specialize (H a' Ha'). destruct (insupp pi s a') eqn:E.
    - apply andb_true_iff in H as [H _]. now rewrite H.
    - apply andb_true_iff in H as [_ H]. apply negb_true_iff in H. now rewrite H. }
  rewrite (countb_ext nA _ _ Hsame) in H.
  specialize (H a Ha). unfold qf.
  destruct (insupp pi s a) eqn:E.
  - apply andb_true_iff in H as [H1 H2]. unfold insupp in E. apply nltb_R in E.
    apply is_max_iff in H1. apply ncloseb_R in H2. rewrite nofnat_R in H2. numR.
    repeat split; auto.
    + intros _ a' Ha'. rewrite H1. now apply vmax_ge.
    + intros; contradiction.
  - apply andb_true_iff in H as [H1 H2]. unfold insupp in E. apply nltb_R_false in E.
    apply neqb_R_iff in H1. apply negb_true_iff in H2.
    numR. split; [split|split].
    + intros; lra.
    + intros Hmax. exfalso.
      assert (Heq : untab2 (l_q O) s a = vmaxR (l_q O) s).
      { apply Rle_antisym; [now apply vmax_ge|]. apply vmax_le; [lia|auto]. }
      apply is_max_iff in Heq. congruence.
    + intros; lra.
    + intros _. exact H1.
Qed.


(* the tallies msdm's learner holds form a model: counts capped, mean reward <= rmax, stochastic rows *)
Lemma cert_tinv :
  @c_valid R NumR nS nA rmax P Rw ab ini eps = true ->
  @c_tally R NumR nS nA m gamma rmax eps O = true -> tinv O.
Proof.
  intros Hv Ht. apply (tinv_views (talliesR expR) O).
  - intros s a Hs Ha. destruct (cert_tally Ht s a Hs Ha) as (A & B & C).
    destruct (tallies_spec expR s a Hs Ha) as (A' & B' & C').
    rewrite A, A', B, B'. repeat split; auto. intros ns Hns. rewrite C, C'; auto.
  - apply tallies_tinv. now apply cert_valid_steps.
Qed.

(* residual of the returned table against the OPTIMISTIC empirical model on every pair:
   known pairs within btol, unknown pairs (exactly optimistic) within gamma*utol *)
Theorem cert_bellman_all :
  0 <= utol ->
  @c_upper R NumR nS nA gamma rmax O utol = true ->
  @c_unknown R NumR nS nA m gamma rmax O = true ->
  @c_bellman R NumR nS nA m gamma O btol = true ->
  forall s a, (s < nS)%nat -> (a < nA)%nat ->
  Rabs (qf O s a - boptR O (l_q O) s a) <= Rmax btol (gamma * utol).
Proof.
  intros Hu0 Hu Hk Hb s a Hs Ha. unfold bopt.
  destruct (Nat.lt_ge_cases (cntf O s a) m) as [Hlt|Hge].
  - rewrite (proj2 (known_false O s a) Hlt). numR.
    pose proof (cert_unknown Hk s a Hs Ha Hlt) as Hq. rewrite <- q0_val in Hq.
    assert (Hlo : Q0 <= vmaxR (l_q O) s) by (rewrite <- Hq; now apply vmax_ge).
    assert (Hhi : vmaxR (l_q O) s <= Q0 + utol).
    { apply vmax_le; [lia|]. intros a' Ha'. rewrite q0_val. apply (cert_upper Hu); auto. }
    pose proof q0_fix as Hfix.
    assert (Hg : gamma * vmaxR (l_q O) s <= gamma * (Q0 + utol)) by (apply Rmult_le_compat_l; lra).
    assert (Hg' : gamma * Q0 <= gamma * vmaxR (l_q O) s) by (apply Rmult_le_compat_l; lra).
    eapply Rle_trans; [|apply Rmax_r]. rewrite Hq. apply Rabs_le. lra.
  - rewrite (proj2 (known_iff O s a) Hge).
    eapply Rle_trans; [|apply Rmax_l]. apply (cert_bellman Hb); auto.
Qed.

Theorem cert_near_empirical_optimum Qs :
  0 <= utol -> 0 <= btol ->
  @c_valid R NumR nS nA rmax P Rw ab ini eps = true ->
  @c_tally R NumR nS nA m gamma rmax eps O = true ->
  @c_upper R NumR nS nA gamma rmax O utol = true ->
  @c_unknown R NumR nS nA m gamma rmax O = true ->
  @c_bellman R NumR nS nA m gamma O btol = true ->
  (forall s a, (s < nS)%nat -> (a < nA)%nat -> untab2 Qs s a = boptR O Qs s a) ->
  forall s a, (s < nS)%nat -> (a < nA)%nat ->
  Rabs (qf O s a - untab2 Qs s a) <= Rmax btol (gamma * utol) / (1 - gamma).
Proof.
  intros Hu0 Hb0 Hv Ht Hu Hk Hb Hfix.
  apply (bopt_residual_bound O (l_q O) Qs _ (cert_tinv Hv Ht)); auto.
  - eapply Rle_trans; [exact Hb0|apply Rmax_l].
  - apply cert_bellman_all; auto.
Qed.

End Cert.

Lemma bopt_fixb_spec L Qs :
  @bopt_fixb R NumR nS nA m gamma rmax L Qs = true ->
  forall s a, (s < nS)%nat -> (a < nA)%nat -> untab2 Qs s a = @bopt R NumR nS nA m gamma rmax L Qs s a.
Proof using Type. clear Hm Hg0 Hg1.
  unfold bopt_fixb. rewrite forallbn_spec. intros H s a Hs Ha.
  specialize (H s Hs). rewrite forallbn_spec in H. apply neqb_R_iff. auto.
Qed.

End Theory.

(* the mirror term the harness evaluates: [train] plus a side flag for the action-selection rule *)
Lemma train_act_fst {T} {NT : Num T} nS nA m (g rmax tol : T) fuel exp :
  fst (@train_act T NT nS nA m g rmax tol fuel exp) = @train T NT nS nA m g rmax tol fuel exp.
Proof.
  unfold train_act, train, train_from.
  generalize (Some (@init_learner T NT nS nA g rmax)) as oL. generalize true as b.
  induction exp as [|e exp IH]; intros b oL; [reflexivity|].
  simpl. destruct oL as [L|].
  - unfold obs_act at 2. simpl. destruct e as [[[s a] r] ns]. apply IH.
  - unfold obs_act at 2. simpl. apply IH.
Qed.
