(* RolloutTheory.v — proofs about model/Rollout.v (property C14).
   All statements are for ALL MDPs/POMDPs, policies, start states, caps and generator streams
   (streams of values in [0,1): what random() returns). *)
From Coq Require Import QArith Qround ZArith List Bool Arith Lia Lqa Psatz.
From MSDM Require Import model.Rollout.
Import ListNotations.
Local Open Scope Q_scope.

(* ------------------------------------------------------------------ streams, well-formed distributions *)
Definition in01 (u : Q) : Prop := 0 <= u /\ u < 1.
Definition good_stream (st : stream) : Prop := Forall in01 st.

Definition wf_dist (d : dist) : Prop :=
  match d with
  | DDict l => Forall (fun xw : nat * Q => 0 <= snd xw) l /\ 0 < qsum (map snd l)
  | DUnif l => l <> []
  | DDet _ => True
  end.

Lemma draw_good st :
  good_stream st -> in01 (fst (draw st)) /\ good_stream (snd (draw st)).
Proof.
  intros H. destruct st as [|u r]; simpl.
  - split; [split; lra | constructor].
  - inversion H; subst. split; assumption.
Qed.

Lemma qsum_nil : qsum [] = 0.
Proof. reflexivity. Qed.

Lemma qsum_cons x l : qsum (x :: l) == x + qsum l.
Proof. change (qsum (x :: l)) with (Qred (x + qsum l)). apply Qred_correct. Qed.

Arguments qsum : simpl never.

Lemma pick_pos ws :
  Forall (fun w => 0 <= w) ws -> forall x, 0 <= x -> x < qsum ws ->
  (pick ws x < length ws)%nat /\ 0 < nth (pick ws x) ws 0.
Proof.
  induction ws as [|w rest IH]; intros Hnn x Hx0 Hx.
  - rewrite qsum_nil in Hx. lra.
  - destruct rest as [|w' rest'].
    + rewrite qsum_cons, qsum_nil in Hx. simpl. split; [lia | lra].
    + change (pick (w :: w' :: rest') x)
        with (if Qle_bool w x then S (pick (w' :: rest') (x - w)) else 0%nat).
      inversion Hnn as [|? ? Hw Hrest]; subst.
      destruct (Qle_bool w x) eqn:E.
      * apply Qle_bool_iff in E.
        assert (Hx' : x - w < qsum (w' :: rest')).
        { rewrite qsum_cons in Hx. lra. }
        destruct (IH Hrest (x - w) ltac:(lra) Hx') as [H1 H2].
        split; [simpl; simpl in H1; lia | exact H2].
      * assert (Hlt : x < w).
        { destruct (Qlt_le_dec x w) as [Hl|Hl]; [exact Hl|].
          apply Qle_bool_iff in Hl. congruence. }
        split; [simpl; lia | simpl; lra].
Qed.

Lemma wkey_nonneg x l : Forall (fun xw : nat * Q => 0 <= snd xw) l -> 0 <= wkey x l.
Proof.
  induction l as [|[y w] r IH]; intros H; simpl; [lra|].
  inversion H; subst. simpl in *. specialize (IH H3).
  destruct (Nat.eqb x y); lra.
Qed.

Lemma wkey_ge l : Forall (fun xw : nat * Q => 0 <= snd xw) l ->
  forall i d, (i < length l)%nat -> snd (nth i l d) <= wkey (fst (nth i l d)) l.
Proof.
  induction l as [|[y w] r IH]; intros H i d Hi; simpl in Hi; [lia|].
  inversion H as [|? ? Hw Hr]; subst. simpl in Hw.
  destruct i as [|i]; simpl.
  - rewrite Nat.eqb_refl. pose proof (wkey_nonneg y r Hr). lra.
  - specialize (IH Hr i d ltac:(lia)).
    destruct (Nat.eqb (fst (nth i r d)) y); lra.
Qed.

Lemma inject_Z_pos z : (0 < z)%Z -> 0 < inject_Z z.
Proof. intros H. unfold Qlt. simpl. lia. Qed.

Lemma qlen_pos {A} (l : list A) : l <> [] -> 0 < qlen l.
Proof.
  intros H. unfold qlen. apply inject_Z_pos. destruct l; [congruence|]. simpl length. lia.
Qed.

Lemma inv_pos z : (0 < z)%Z -> 0 < 1 / inject_Z z.
Proof.
  intros H. unfold Qdiv. rewrite Qmult_1_l. apply Qinv_lt_0_compat. apply inject_Z_pos. exact H.
Qed.

Lemma randbelow_good n : (0 < n)%Z -> forall st, good_stream st ->
  (0 <= fst (randbelow n st) < n)%Z /\ good_stream (snd (randbelow n st)).
Proof.
  intros Hn st. induction st as [|u r IH]; intros H.
  - cbn [randbelow fst snd]. split; [lia | constructor].
  - inversion H; subst. cbn [randbelow].
    destruct (Qle_bool _ u).
    + apply IH. assumption.
    + cbn [fst snd]. split; [apply Z.mod_pos_bound; exact Hn | assumption].
Qed.

(* the event a draw produces has positive probability, and the rest of the stream is still a stream *)
Lemma sample_pos d st :
  wf_dist d -> good_stream st ->
  0 < dweight d (fst (sample d st)) /\ good_stream (snd (sample d st)).
Proof.
  intros Hwf Hst. destruct d as [l|l|x]; simpl in *.
  - destruct Hwf as [Hnn Htot].
    assert (Hgen : forall u st', in01 u -> good_stream st' ->
               0 < wkey (fst (nth (pick (map snd l) (u * qsum (map snd l))) l (0%nat, 0))) l).
    { intros u st' [Hu0 Hu1] _.
      assert (Hnn' : Forall (fun w => 0 <= w) (map snd l)).
      { clear -Hnn. induction Hnn; simpl; constructor; auto. }
      destruct (pick_pos (map snd l) Hnn' (u * qsum (map snd l))) as [Hi Hp].
      - apply Qmult_le_0_compat; lra.
      - nra.
      - rewrite map_length in Hi.
        pose proof (wkey_ge l Hnn _ (0%nat, 0) Hi) as Hge.
        change 0 with (snd (0%nat, 0)) in Hp at 2. rewrite map_nth in Hp. lra. }
    destruct (draw_good st Hst) as [Hu Hst'].
    destruct l as [|[x w] [|p r]].
    + simpl map in Htot. rewrite qsum_nil in Htot. lra.
    + simpl. simpl map in Htot. rewrite qsum_cons, qsum_nil in Htot. simpl in Htot.
      rewrite Nat.eqb_refl. split; [lra | exact Hst].
    + destruct (draw st) as [u st'] eqn:E. simpl in Hu, Hst'. simpl fst. simpl snd.
      split; [apply (Hgen u st' Hu Hst') | exact Hst'].
  - assert (Hn : (0 < Z.of_nat (length l))%Z) by (destruct l; [congruence | simpl length; lia]).
    destruct (randbelow_good _ Hn st Hst) as [Hk Hst'].
    destruct (randbelow (Z.of_nat (length l)) st) as [k st'] eqn:E. simpl in *.
    split; [|exact Hst'].
    assert (Hin : In (nth (Z.to_nat k) l 0%nat) l) by (apply nth_In; lia).
    assert (Hex : existsb (Nat.eqb (nth (Z.to_nat k) l 0%nat)) l = true).
    { apply existsb_exists. eexists. split; [exact Hin | apply Nat.eqb_refl]. }
    rewrite Hex. apply inv_pos. exact Hn.
  - rewrite Nat.eqb_refl. split; [lra | exact Hst].
Qed.

(* ------------------------------------------------------------------ MDP roll-outs *)
Section MDP.
Variable m : fmdp.
Variable pi : policy.

(* the policy is a distribution at every state a roll-out can act in, and so is the successor
   distribution of every action the policy can take there *)
Definition wf_setting : Prop :=
  (forall s, f_abs m s = false -> wf_dist (pi s)) /\
  (forall s a, f_abs m s = false -> 0 < dweight (pi s) a -> wf_dist (f_next m s a)).

(* a valid trajectory from s: every step starts where the previous one ended, is taken from a
   non-absorbing state with an action of positive policy probability and a successor of positive
   probability, and carries the model's reward; `fin` is where the last step ended *)
Fixpoint chain_ok (s : nat) (tr : list step) (fin : nat) : Prop :=
  match tr with
  | [] => fin = s
  | x :: r =>
      st_s x = s /\ f_abs m s = false /\
      0 < dweight (pi s) (st_a x) /\
      0 < dweight (f_next m s (st_a x)) (st_ns x) /\
      st_r x = f_rew m s (st_a x) (st_ns x) /\
      chain_ok (st_ns x) r fin
  end.

Lemma run_from_valid (Hwf : wf_setting) cap : forall s st tr fin st',
  good_stream st -> run_from m pi cap s st = (tr, fin, st') ->
  chain_ok s tr fin /\ good_stream st' /\
  (length tr <= cap)%nat /\ ((length tr < cap)%nat -> f_abs m fin = true).
Proof.
  destruct Hwf as [Hpi Hnext].
  induction cap as [|c IH]; intros s st tr fin st' Hst Hrun; simpl in Hrun.
  - inversion Hrun; subst. simpl. repeat split; auto; lia.
  - destruct (f_abs m s) eqn:Habs.
    + inversion Hrun; subst. simpl. repeat split; auto; lia.
    + destruct (sample (pi s) st) as [a st1] eqn:E1.
      destruct (sample (f_next m s a) st1) as [ns st2] eqn:E2.
      destruct (run_from m pi c ns st2) as [[tr' fin'] st3] eqn:E3.
      inversion Hrun; subst. clear Hrun.
      destruct (sample_pos (pi s) st (Hpi s Habs) Hst) as [Ha Hst1]. rewrite E1 in Ha, Hst1. simpl in Ha, Hst1.
      destruct (sample_pos (f_next m s a) st1 (Hnext s a Habs Ha) Hst1) as [Hns Hst2].
      rewrite E2 in Hns, Hst2. simpl in Hns, Hst2.
      destruct (IH ns st2 tr' fin st' Hst2 E3) as (Hc & Hg & Hl & Hstop).
      simpl. repeat split; auto; try lia. intros Hlt. apply Hstop. lia.
Qed.

Definition start_ok (s0 : option nat) (s : nat) : Prop :=
  match s0 with Some s' => s = s' | None => 0 < dweight (f_init m) s end.

Theorem rollout_valid (Hwf : wf_setting) (Hinit : wf_dist (f_init m)) s0 cap st tr fin st' :
  good_stream st -> run_on m pi s0 cap st = (tr, fin, st') ->
  exists s, start_ok s0 s /\ chain_ok s tr fin /\ good_stream st'.
Proof.
  intros Hst Hrun. destruct s0 as [s|]; simpl in Hrun.
  - exists s. destruct (run_from_valid Hwf cap s st tr fin st' Hst Hrun) as (H1 & H2 & _).
    repeat split; auto.
  - destruct (sample (f_init m) st) as [s st0] eqn:E0.
    destruct (sample_pos (f_init m) st Hinit Hst) as [Hs Hst0]. rewrite E0 in Hs, Hst0. simpl in Hs, Hst0.
    exists s. destruct (run_from_valid Hwf cap s st0 tr fin st' Hst0 Hrun) as (H1 & H2 & _).
    repeat split; auto.
Qed.

(* index of the first absorbing state in a list of states (its length if there is none) *)
Fixpoint first_abs (l : list nat) : nat :=
  match l with
  | [] => 0%nat
  | s :: r => if f_abs m s then 0%nat else S (first_abs r)
  end.

Lemma chain_ok_states s tr fin : chain_ok s tr fin ->
  Forall (fun x => f_abs m (st_s x) = false) tr /\ hd fin (map st_s tr) = s.
Proof.
  revert s. induction tr as [|x r IH]; intros s H; simpl in *.
  - split; [constructor | exact H].
  - destruct H as (H1 & H2 & _ & _ & _ & H6). destruct (IH _ H6) as [IH1 _].
    split; [constructor; [rewrite H1; exact H2 | exact IH1] | exact H1].
Qed.

Lemma first_abs_app tr fin :
  Forall (fun x => f_abs m (st_s x) = false) tr ->
  first_abs (map st_s tr ++ [fin]) = (length tr + first_abs [fin])%nat.
Proof.
  induction 1 as [|x r Hx Hr IH]; simpl; [reflexivity|].
  rewrite Hx. simpl in IH. rewrite IH. reflexivity.
Qed.

(* the roll-out stops exactly at the first absorbing state or at the cap *)
Theorem rollout_stops (Hwf : wf_setting) (Hinit : wf_dist (f_init m)) s0 cap st tr fin st' :
  good_stream st -> run_on m pi s0 cap st = (tr, fin, st') ->
  Forall (fun x => f_abs m (st_s x) = false) tr /\
  (length tr <= cap)%nat /\
  ((length tr < cap)%nat -> f_abs m fin = true) /\
  length tr = Nat.min cap (first_abs (t_states (tr, fin))) /\
  length (t_states (tr, fin)) = S (Nat.min cap (first_abs (t_states (tr, fin)))).
Proof.
  intros Hst Hrun.
  assert (H : exists s st0, good_stream st0 /\ run_from m pi cap s st0 = (tr, fin, st')).
  { destruct s0 as [s|]; simpl in Hrun.
    - exists s, st. auto.
    - destruct (sample (f_init m) st) as [s st0] eqn:E0.
      destruct (sample_pos (f_init m) st Hinit Hst) as [_ Hst0]. rewrite E0 in Hst0.
      exists s, st0. auto. }
  destruct H as (s & st0 & Hst0 & Hrun0).
  destruct (run_from_valid Hwf cap s st0 tr fin st' Hst0 Hrun0) as (Hc & _ & Hl & Hstop).
  destruct (chain_ok_states _ _ _ Hc) as [Hna _].
  assert (Hlen : length tr = Nat.min cap (first_abs (t_states (tr, fin)))).
  { unfold t_states. simpl fst. simpl snd. rewrite (first_abs_app tr fin Hna). simpl.
    destruct (f_abs m fin) eqn:Hf.
    - lia.
    - destruct (Nat.lt_ge_cases (length tr) cap) as [Hlt|Hge].
      + specialize (Hstop Hlt). congruence.
      + lia. }
  repeat split; auto.
  unfold t_states at 1. simpl fst. simpl snd. rewrite app_length, map_length. simpl. lia.
Qed.

Theorem cap_zero s0 st tr fin st' :
  run_on m pi s0 0 st = (tr, fin, st') ->
  tr = [] /\ fin = fst (match s0 with Some s => (s, st) | None => sample (f_init m) st end) /\
  t_states (tr, fin) = [fin] /\ t_rewards (tr, fin) = [0] /\ t_actions (tr, fin) = [None].
Proof.
  intros Hrun. destruct s0 as [s|]; simpl in Hrun.
  - inversion Hrun; subst. repeat split; reflexivity.
  - destruct (sample (f_init m) st) as [s st0] eqn:E0. simpl in Hrun.
    inversion Hrun; subst. repeat split; reflexivity.
Qed.

(* once a run has stopped before the cap, a larger cap changes nothing (the harness evaluates
   cap = 2^30 runs with a smaller fuel that the run did not reach) *)
Lemma run_cap_stable c : forall s st tr fin st',
  run_from m pi c s st = (tr, fin, st') -> (length tr < c)%nat ->
  forall c', (c <= c')%nat -> run_from m pi c' s st = (tr, fin, st').
Proof.
  induction c as [|c IH]; intros s st tr fin st' Hrun Hlt c' Hle; [lia|].
  destruct c' as [|c']; [lia|]. simpl in *.
  destruct (f_abs m s); [exact Hrun|].
  destruct (sample (pi s) st) as [a st1].
  destruct (sample (f_next m s a) st1) as [ns st2].
  destruct (run_from m pi c ns st2) as [[tr' fin'] st3] eqn:E3.
  inversion Hrun; subst. simpl in Hlt.
  rewrite (IH ns st2 tr' fin st' E3 ltac:(lia) c' ltac:(lia)). reflexivity.
Qed.

End MDP.

(* ------------------------------------------------------------------ POMDP roll-outs *)
Section POMDP.
Context {AG : Type}.
Variable m : fpomdp.
Variable pol : ppolicy AG.

(* `reach ag` = the policy's action distribution matters at agent state ag; we simply ask for
   well-formedness everywhere the roll-out can get to, i.e. for all agent states *)
Definition pwf_setting : Prop :=
  (forall ag, wf_dist (pp_act pol ag)) /\
  (forall s a, f_abs (fp_mdp m) s = false -> wf_dist (f_next (fp_mdp m) s a)) /\
  (forall a ns, wf_dist (fp_obs m a ns)).

Fixpoint pchain_ok (s : nat) (ag : AG) (tr : list (pstep AG)) (fin : nat * AG) : Prop :=
  match tr with
  | [] => fin = (s, ag)
  | x :: r =>
      ps_s x = s /\ ps_ag x = ag /\ f_abs (fp_mdp m) s = false /\
      0 < dweight (pp_act pol ag) (ps_a x) /\
      0 < dweight (f_next (fp_mdp m) s (ps_a x)) (ps_ns x) /\
      ps_r x = f_rew (fp_mdp m) s (ps_a x) (ps_ns x) /\
      0 < dweight (fp_obs m (ps_a x) (ps_ns x)) (ps_o x) /\
      ps_nag x = pp_next pol ag (ps_a x) (ps_o x) /\
      pchain_ok (ps_ns x) (ps_nag x) r fin
  end.

Lemma prun_from_valid (Hwf : pwf_setting) cap : forall s ag st tr fin st',
  good_stream st -> prun_from m pol cap s ag st = (tr, fin, st') ->
  pchain_ok s ag tr fin /\ good_stream st' /\
  Forall (fun x => f_abs (fp_mdp m) (ps_s x) = false) tr /\
  (length tr <= cap)%nat /\ ((length tr < cap)%nat -> f_abs (fp_mdp m) (fst fin) = true).
Proof.
  destruct Hwf as (Hact & Hnext & Hobs).
  induction cap as [|c IH]; intros s ag st tr fin st' Hst Hrun; simpl in Hrun.
  - inversion Hrun; subst. simpl. repeat split; auto; lia.
  - destruct (f_abs (fp_mdp m) s) eqn:Habs.
    + inversion Hrun; subst. simpl. repeat split; auto; lia.
    + destruct (sample (pp_act pol ag) st) as [a st1] eqn:E1.
      destruct (sample (f_next (fp_mdp m) s a) st1) as [ns st2] eqn:E2.
      destruct (sample (fp_obs m a ns) st2) as [o st3] eqn:E3.
      destruct (prun_from m pol c ns (pp_next pol ag a o) st3) as [[tr' fin'] st4] eqn:E4.
      inversion Hrun; subst. clear Hrun.
      destruct (sample_pos _ st (Hact ag) Hst) as [Ha Hst1]. rewrite E1 in Ha, Hst1. simpl in Ha, Hst1.
      destruct (sample_pos _ st1 (Hnext s a Habs) Hst1) as [Hns Hst2]. rewrite E2 in Hns, Hst2. simpl in Hns, Hst2.
      destruct (sample_pos _ st2 (Hobs a ns) Hst2) as [Ho Hst3]. rewrite E3 in Ho, Hst3. simpl in Ho, Hst3.
      destruct (IH _ _ _ _ _ _ Hst3 E4) as (Hc & Hg & Hna & Hl & Hstop).
      simpl. repeat split; auto; try lia. intros Hlt. apply Hstop. lia.
Qed.

(* whichever generator serves the initial state (the rng argument, or — as the code does today —
   the global one), the roll-out is valid *)
Theorem prollout_valid (Hwf : pwf_setting) (Hinit : wf_dist (f_init (fp_mdp m)))
        flag s0 ag0 cap gst st tr fin st' gst' :
  good_stream st -> good_stream gst ->
  prun_on flag m pol s0 ag0 cap gst st = (tr, fin, st', gst') ->
  exists s,
    match s0 with Some s' => s = s' | None => 0 < dweight (f_init (fp_mdp m)) s end /\
    pchain_ok s (match ag0 with Some a => a | None => pp_init pol end) tr fin /\
    Forall (fun x => f_abs (fp_mdp m) (ps_s x) = false) tr /\
    (length tr <= cap)%nat /\ ((length tr < cap)%nat -> f_abs (fp_mdp m) (fst fin) = true).
Proof.
  intros Hst Hgst Hrun. unfold prun_on in Hrun.
  set (ag := match ag0 with Some a => a | None => pp_init pol end) in *.
  destruct s0 as [s|].
  - destruct (prun_from m pol cap s ag st) as [[tr0 fin0] st0] eqn:E. inversion Hrun; subst.
    exists s. destruct (prun_from_valid Hwf cap _ _ _ _ _ _ Hst E) as (H1 & _ & H3 & H4 & H5). auto.
  - destruct flag.
    + destruct (sample (f_init (fp_mdp m)) st) as [s st0] eqn:E0.
      destruct (sample_pos _ st Hinit Hst) as [Hs Hst0]. rewrite E0 in Hs, Hst0. simpl in Hs, Hst0.
      destruct (prun_from m pol cap s ag st0) as [[tr0 fin0] st1] eqn:E. inversion Hrun; subst.
      exists s. destruct (prun_from_valid Hwf cap _ _ _ _ _ _ Hst0 E) as (H1 & _ & H3 & H4 & H5). auto.
    + destruct (sample (f_init (fp_mdp m)) gst) as [s gst0] eqn:E0.
      destruct (sample_pos _ gst Hinit Hgst) as [Hs _]. rewrite E0 in Hs. simpl in Hs.
      destruct (prun_from m pol cap s ag st) as [[tr0 fin0] st1] eqn:E. inversion Hrun; subst.
      exists s. destruct (prun_from_valid Hwf cap _ _ _ _ _ _ Hst E) as (H1 & _ & H3 & H4 & H5). auto.
Qed.

End POMDP.

(* ------------------------------------------------------------------ discounted returns *)
Require Import Qpower.

Lemma qsum_ext {A} (f h : A -> Q) l :
  (forall x, In x l -> f x == h x) -> qsum (map f l) == qsum (map h l).
Proof.
  induction l as [|a l IH]; intros H; simpl map; [reflexivity|]. rewrite !qsum_cons.
  rewrite (H a (or_introl eq_refl)), IH; [reflexivity|]. intros x Hx. apply H. right. exact Hx.
Qed.

Lemma qsum_scale {A} (c : Q) (f : A -> Q) l :
  qsum (map (fun x => c * f x) l) == c * qsum (map f l).
Proof.
  induction l as [|a l IH]; simpl map; [rewrite qsum_nil; ring|]. rewrite !qsum_cons, IH. ring.
Qed.

Lemma Qpower_succ (g : Q) (k : nat) : g ^ Z.of_nat (S k) == g * g ^ Z.of_nat k.
Proof.
  replace (Z.of_nat (S k)) with (1 + Z.of_nat k)%Z by lia.
  rewrite Qpower_plus' by lia. simpl. reflexivity.
Qed.

Definition csum (g : Q) (i : nat) (rs : list Q) : Q :=
  qsum (map (fun j => disc_entry g i j * nth j rs 0) (seq 0 (length rs))).

Lemma calc_returns_unfold rs g :
  calc_returns rs g = map (fun i => csum g i rs) (seq 0 (length rs)).
Proof. reflexivity. Qed.

Lemma csum_0_cons g r rs : csum g 0 (r :: rs) == r + g * csum g 0 rs.
Proof.
  unfold csum. simpl length. rewrite <- cons_seq, <- seq_shift. simpl map at 1. rewrite qsum_cons.
  rewrite map_map.
  rewrite (qsum_ext _ (fun j => g * (disc_entry g 0 j * nth j rs 0))).
  - rewrite qsum_scale. unfold disc_entry at 1. simpl. ring.
  - intros j _. unfold disc_entry. simpl Nat.leb. cbv iota.
    rewrite !Nat.sub_0_r. rewrite Qpower_succ. simpl nth. ring.
Qed.

Lemma csum_S_cons g i r rs : csum g (S i) (r :: rs) == csum g i rs.
Proof.
  unfold csum. simpl length. rewrite <- cons_seq, <- seq_shift. simpl map at 1. rewrite qsum_cons.
  rewrite map_map. unfold disc_entry at 1. simpl Nat.leb. cbv iota.
  rewrite Qmult_0_l, Qplus_0_l. apply qsum_ext. intros j _. reflexivity.
Qed.

(* the defining backward recursion *)
Fixpoint brec (rs : list Q) (g : Q) : list Q :=
  match rs with
  | [] => []
  | r :: t => (r + g * hd 0 (brec t g)) :: brec t g
  end.

Lemma Forall2_Qeq_refl l : Forall2 Qeq l l.
Proof. induction l; constructor; [reflexivity | assumption]. Qed.

Lemma Forall2_Qeq_trans l1 l2 l3 : Forall2 Qeq l1 l2 -> Forall2 Qeq l2 l3 -> Forall2 Qeq l1 l3.
Proof.
  intros H. revert l3. induction H; intros l3 H3; inversion H3; subst; constructor.
  - etransitivity; eassumption.
  - auto.
Qed.

Lemma Forall2_Qeq_map {A} (f h : A -> Q) l :
  (forall x, f x == h x) -> Forall2 Qeq (map f l) (map h l).
Proof. intros H. induction l; simpl; constructor; auto. Qed.

Lemma Forall2_Qeq_hd l l' : Forall2 Qeq l l' -> hd 0 l == hd 0 l'.
Proof. intros H. destruct H; simpl; [reflexivity | assumption]. Qed.

Lemma Forall2_Qeq_nth l l' : Forall2 Qeq l l' -> forall i, nth i l 0 == nth i l' 0.
Proof.
  induction 1; intros i; destruct i; simpl; try reflexivity; auto.
Qed.

Lemma Forall2_Qeq_length l l' : Forall2 Qeq l l' -> length l = length l'.
Proof. induction 1; simpl; congruence. Qed.

Lemma hd_calc_returns rs g : hd 0 (calc_returns rs g) == csum g 0 rs.
Proof.
  rewrite calc_returns_unfold. destruct rs as [|r t]; simpl length.
  - reflexivity.
  - rewrite <- cons_seq. reflexivity.
Qed.

Lemma calc_returns_cons r rs g :
  Forall2 Qeq (calc_returns (r :: rs) g) ((r + g * hd 0 (calc_returns rs g)) :: calc_returns rs g).
Proof.
  rewrite (calc_returns_unfold (r :: rs)). simpl length. rewrite <- cons_seq, <- seq_shift.
  simpl map at 1. rewrite map_map. constructor.
  - rewrite csum_0_cons, hd_calc_returns. reflexivity.
  - rewrite calc_returns_unfold. apply Forall2_Qeq_map. intros i. apply csum_S_cons.
Qed.

Lemma calc_returns_brec rs g : Forall2 Qeq (calc_returns rs g) (brec rs g).
Proof.
  induction rs as [|r t IH].
  - constructor.
  - eapply Forall2_Qeq_trans; [apply calc_returns_cons|]. simpl. constructor; [|exact IH].
    rewrite (Forall2_Qeq_hd _ _ IH). reflexivity.
Qed.

Lemma brec_nth rs g : forall i,
  (S i < length rs)%nat -> nth i (brec rs g) 0 == nth i rs 0 + g * nth (S i) (brec rs g) 0.
Proof.
  induction rs as [|r t IH]; intros i Hi; simpl in Hi; [lia|].
  destruct i as [|i].
  - simpl. destruct t as [|r' t']; [simpl in Hi; lia|]. simpl. reflexivity.
  - change (nth (S i) (brec (r :: t) g) 0) with (nth i (brec t g) 0).
    change (nth (S (S i)) (brec (r :: t) g) 0) with (nth (S i) (brec t g) 0).
    change (nth (S i) (r :: t) 0) with (nth i t 0). apply IH. lia.
Qed.

Lemma brec_last rs g : forall i, length rs = S i -> nth i (brec rs g) 0 == nth i rs 0.
Proof.
  induction rs as [|r t IH]; intros i Hi; simpl in Hi; [lia|].
  destruct i as [|i].
  - destruct t; [|simpl in Hi; lia]. simpl. ring.
  - change (nth (S i) (brec (r :: t) g) 0) with (nth i (brec t g) 0).
    change (nth (S i) (r :: t) 0) with (nth i t 0). apply IH. lia.
Qed.

(* Policy.calc_returns = the backward recursion  ret_i = r_i + g * ret_{i+1},  ret_last = r_last *)
Theorem calc_returns_rec rs g :
  length (calc_returns rs g) = length rs /\
  (forall i, (S i < length rs)%nat ->
     nth i (calc_returns rs g) 0 == nth i rs 0 + g * nth (S i) (calc_returns rs g) 0) /\
  (forall i, length rs = S i -> nth i (calc_returns rs g) 0 == nth i rs 0).
Proof.
  pose proof (calc_returns_brec rs g) as H.
  split; [|split].
  - rewrite calc_returns_unfold, map_length, seq_length. reflexivity.
  - intros i Hi. rewrite !(Forall2_Qeq_nth _ _ H). apply brec_nth. exact Hi.
  - intros i Hi. rewrite (Forall2_Qeq_nth _ _ H). apply brec_last. exact Hi.
Qed.

(* ------------------------------------------------------------------ the sample store of evaluate_on *)
Section ALfacts.
Context {K V : Type} (keq : K -> K -> bool).
Hypothesis keq_spec : forall a b, keq a b = true <-> a = b.

Lemma keq_refl a : keq a a = true.
Proof. apply keq_spec. reflexivity. Qed.

Lemma al_get_append k k' (v : V) d :
  al_get keq k (al_append keq k' v d) =
  if keq k k' then al_get keq k d ++ [v] else al_get keq k d.
Proof.
  induction d as [|[k0 vs] r IH]; simpl.
  - destruct (keq k k'); reflexivity.
  - destruct (keq k' k0) eqn:E1; simpl.
    + apply keq_spec in E1. subst k0. destruct (keq k k'); reflexivity.
    + rewrite IH. destruct (keq k k0) eqn:E2; [|reflexivity].
      destruct (keq k k') eqn:E3; [|reflexivity].
      apply keq_spec in E2. apply keq_spec in E3. subst. rewrite keq_refl in E1. discriminate.
Qed.

Lemma al_keys_in x k (v : V) d :
  In x (map fst (al_append keq k v d)) <-> x = k \/ In x (map fst d).
Proof.
  induction d as [|[k0 vs] r IH]; simpl.
  - intuition.
  - destruct (keq k k0) eqn:E1; simpl.
    + apply keq_spec in E1. subst. intuition.
    + rewrite IH. intuition.
Qed.

Lemma al_keys_nodup k (v : V) d :
  NoDup (map fst d) -> NoDup (map fst (al_append keq k v d)).
Proof.
  induction d as [|[k0 vs] r IH]; intros H; simpl.
  - constructor; [intros [] | constructor].
  - inversion H as [|? ? Hni Hnd]; subst. destruct (keq k k0) eqn:E1; simpl.
    + constructor; assumption.
    + constructor; [|apply IH; assumption].
      intros Hin. apply al_keys_in in Hin. destruct Hin as [Hin|Hin]; [|contradiction].
      subst. rewrite keq_refl in E1. discriminate.
Qed.

Lemma al_in_get k (vs : list V) d :
  NoDup (map fst d) -> In (k, vs) d -> al_get keq k d = vs.
Proof.
  induction d as [|[k0 vs0] r IH]; intros Hnd Hin; simpl in *; [contradiction|].
  inversion Hnd as [|? ? Hni Hnd']; subst.
  destruct Hin as [Heq|Hin].
  - inversion Heq; subst. rewrite keq_refl. reflexivity.
  - destruct (keq k k0) eqn:E; [|apply IH; assumption].
    apply keq_spec in E. subst. exfalso. apply Hni. change k0 with (fst (k0, vs)). apply in_map. exact Hin.
Qed.

Variable A : Type.
Variables (key : A -> K) (val : A -> V).
Definition al_step (d : list (K * list V)) (a : A) := al_append keq (key a) (val a) d.

Lemma al_fold_get k vis : forall d,
  al_get keq k (fold_left al_step vis d) =
  al_get keq k d ++ map val (filter (fun a => keq k (key a)) vis).
Proof.
  induction vis as [|a vis IH]; intros d; simpl.
  - rewrite app_nil_r. reflexivity.
  - rewrite IH. unfold al_step. rewrite al_get_append.
    destruct (keq k (key a)); simpl; [rewrite <- app_assoc|]; reflexivity.
Qed.

Lemma al_fold_nodup vis : forall d, NoDup (map fst d) -> NoDup (map fst (fold_left al_step vis d)).
Proof.
  induction vis as [|a vis IH]; intros d H; simpl; [exact H|]. apply IH. apply al_keys_nodup. exact H.
Qed.

Lemma al_fold_keys x vis : forall d,
  In x (map fst (fold_left al_step vis d)) <-> In x (map fst d) \/ In x (map key vis).
Proof.
  induction vis as [|a vis IH]; intros d; simpl; [intuition|].
  rewrite IH. unfold al_step. rewrite al_keys_in. intuition.
Qed.

(* every stored list is exactly the values filed under its key, in order, and is not empty *)
Lemma al_fold_entry k vs vis :
  In (k, vs) (fold_left al_step vis []) ->
  vs = map val (filter (fun a => keq k (key a)) vis) /\ vs <> [].
Proof.
  intros Hin.
  assert (Hnd : NoDup (map fst (fold_left al_step vis []))) by (apply al_fold_nodup; constructor).
  pose proof (al_in_get k vs _ Hnd Hin) as Hg. rewrite al_fold_get in Hg. simpl in Hg.
  split; [symmetry; exact Hg|].
  assert (Hk : In k (map fst (fold_left al_step vis []))).
  { change k with (fst (k, vs)). apply in_map. exact Hin. }
  apply al_fold_keys in Hk. destruct Hk as [[]|Hk].
  apply in_map_iff in Hk. destruct Hk as (a & Ha & Hina).
  subst vs. intros Hnil.
  assert (Hf : In a (filter (fun a0 => keq k (key a0)) vis)).
  { apply filter_In. split; [exact Hina|]. rewrite Ha. apply keq_refl. }
  apply (in_map val) in Hf. rewrite Hnil in Hf. exact Hf.
Qed.
End ALfacts.

Lemma oeqb_spec a b : oeqb a b = true <-> a = b.
Proof.
  destruct a, b; simpl; split; intros H; try discriminate; try reflexivity.
  - apply Nat.eqb_eq in H. congruence.
  - inversion H. apply Nat.eqb_refl.
Qed.

Lemma sa_eqb_spec a b : sa_eqb a b = true <-> a = b.
Proof.
  destruct a as [s x], b as [s' y]. unfold sa_eqb. simpl.
  rewrite andb_true_iff, Nat.eqb_eq, oeqb_spec.
  split; [intros [H1 H2]; congruence | intros H; inversion H; auto].
Qed.

(* ------------------------------------------------------------------ Monte-Carlo evaluation *)
Definition visits (g : Q) (ts : list traj) : list (Q * (nat * option nat)) := flat_map (visits_of g) ts.
(* the returns of the evaluation's own roll-outs observed from state s / after (s, a) *)
Definition returns_at (g : Q) (ts : list traj) (s : nat) : list Q :=
  map fst (filter (fun v => Nat.eqb s (fst (snd v))) (visits g ts)).
Definition returns_at_sa (g : Q) (ts : list traj) (sa : nat * option nat) : list Q :=
  map fst (filter (fun v => sa_eqb sa (snd v)) (visits g ts)).

Theorem mc_tables_averages g n ts :
  let R := mc_tables g n ts in
  (* state values: one entry per visited state, the mean of the returns observed from it *)
  NoDup (map fst (mc_state_value R)) /\
  (forall s, In s (map fst (mc_state_value R)) <-> In s (map (fun v => fst (snd v)) (visits g ts))) /\
  (forall s v, In (s, v) (mc_state_value R) -> v = mean (returns_at g ts s) /\ returns_at g ts s <> []) /\
  (* occupancy: visit count / n *)
  map fst (mc_occupancy R) = map fst (mc_state_value R) /\
  (forall s o, In (s, o) (mc_occupancy R) -> o = qlen (returns_at g ts s) / inject_Z (Z.of_nat n)) /\
  (* action values: one entry per visited (state, action), the mean of the returns after it *)
  NoDup (map fst (mc_action_value R)) /\
  (forall sa, In sa (map fst (mc_action_value R)) <-> In sa (map snd (visits g ts))) /\
  (forall sa v, In (sa, v) (mc_action_value R) -> v = mean (returns_at_sa g ts sa) /\ returns_at_sa g ts sa <> []) /\
  (* initial value: mean of the first returns *)
  mc_initial_value R = mean (map (fun t => hd 0 (calc_returns (t_rewards t) g)) ts).
Proof.
  simpl. unfold mc_tables. simpl. fold (visits g ts).
  set (vis := visits g ts).
  assert (Hs : sv_samples vis =
               fold_left (al_step Nat.eqb _ (fun v : Q * (nat * option nat) => fst (snd v)) fst) vis []) by reflexivity.
  assert (Ha : av_samples vis =
               fold_left (al_step sa_eqb _ (fun v : Q * (nat * option nat) => snd v) fst) vis []) by reflexivity.
  repeat split.
  - rewrite map_map. simpl. rewrite Hs. apply (al_fold_nodup Nat.eqb Nat.eqb_eq). constructor.
  - rewrite map_map. simpl. rewrite Hs. intros H. apply (al_fold_keys Nat.eqb Nat.eqb_eq) in H.
    destruct H as [[]|H]. exact H.
  - rewrite map_map. simpl. rewrite Hs. intros H. apply (al_fold_keys Nat.eqb Nat.eqb_eq). right. exact H.
  - apply in_map_iff in H. destruct H as ([k vs] & Heq & Hin). simpl in Heq. inversion Heq; subst.
    rewrite Hs in Hin. apply (al_fold_entry Nat.eqb Nat.eqb_eq) in Hin. destruct Hin as [Hv _].
    unfold returns_at. fold vis. rewrite <- Hv. reflexivity.
  - apply in_map_iff in H. destruct H as ([k vs] & Heq & Hin). simpl in Heq. inversion Heq; subst.
    rewrite Hs in Hin. apply (al_fold_entry Nat.eqb Nat.eqb_eq) in Hin. destruct Hin as [Hv Hne].
    unfold returns_at. fold vis. rewrite <- Hv. exact Hne.
  - rewrite !map_map. reflexivity.
  - intros s o H. apply in_map_iff in H. destruct H as ([k vs] & Heq & Hin). simpl in Heq. inversion Heq; subst.
    rewrite Hs in Hin. apply (al_fold_entry Nat.eqb Nat.eqb_eq) in Hin. destruct Hin as [Hv _].
    unfold returns_at. fold vis. rewrite <- Hv. unfold qlen. reflexivity.
  - rewrite map_map. simpl. rewrite Ha. apply (al_fold_nodup sa_eqb sa_eqb_spec). constructor.
  - rewrite map_map. simpl. rewrite Ha. intros H. apply (al_fold_keys sa_eqb sa_eqb_spec) in H.
    destruct H as [[]|H]. exact H.
  - rewrite map_map. simpl. rewrite Ha. intros H. apply (al_fold_keys sa_eqb sa_eqb_spec). right. exact H.
  - apply in_map_iff in H. destruct H as ([k vs] & Heq & Hin). simpl in Heq. inversion Heq; subst.
    rewrite Ha in Hin. apply (al_fold_entry sa_eqb sa_eqb_spec) in Hin. destruct Hin as [Hv _].
    unfold returns_at_sa. fold vis. rewrite <- Hv. reflexivity.
  - apply in_map_iff in H. destruct H as ([k vs] & Heq & Hin). simpl in Heq. inversion Heq; subst.
    rewrite Ha in Hin. apply (al_fold_entry sa_eqb sa_eqb_spec) in Hin. destruct Hin as [Hv Hne].
    unfold returns_at_sa. fold vis. rewrite <- Hv. exact Hne.
Qed.

(* the roll-outs evaluate_on averages are n valid roll-outs from sampled starts, on one generator *)
Definition valid_rollout (m : fmdp) (pi : policy) (cap : nat) (t : traj) : Prop :=
  exists s, 0 < dweight (f_init m) s /\ chain_ok m pi s (fst t) (snd t) /\
            (length (fst t) <= cap)%nat /\ ((length (fst t) < cap)%nat -> f_abs m (snd t) = true).

Lemma sims_S m pi cap k st :
  sims m pi cap (S k) st =
  let '(tr, fin, st1) := run_on m pi None cap st in
  let (rest, st2) := sims m pi cap k st1 in ((tr, fin) :: rest, st2).
Proof. reflexivity. Qed.

Lemma sims_valid m pi (Hwf : wf_setting m pi) (Hinit : wf_dist (f_init m)) cap n : forall st ts st',
  good_stream st -> sims m pi cap n st = (ts, st') ->
  length ts = n /\ Forall (valid_rollout m pi cap) ts /\ good_stream st'.
Proof.
  induction n as [|k IH]; intros st ts st' Hst Hs.
  - simpl in Hs. inversion Hs; subst. repeat split; auto.
  - rewrite sims_S in Hs.
    destruct (run_on m pi None cap st) as [[tr fin] st1] eqn:E1.
    destruct (sims m pi cap k st1) as [rest st2] eqn:E2. inversion Hs; subst. clear Hs.
    simpl in E1. destruct (sample (f_init m) st) as [s st0] eqn:E0.
    destruct (sample_pos (f_init m) st Hinit Hst) as [Hs0 Hst0]. rewrite E0 in Hs0, Hst0. simpl in Hs0, Hst0.
    destruct (run_from_valid m pi Hwf cap s st0 tr fin st1 Hst0 E1) as (Hc & Hst1 & Hl & Hstop).
    destruct (IH st1 rest st' Hst1 E2) as (Hlen & Hall & Hst').
    repeat split; [simpl; congruence | | exact Hst'].
    constructor; [|exact Hall]. exists s. simpl. auto.
Qed.

Theorem mc_evaluate_averages m pi (Hwf : wf_setting m pi) (Hinit : wf_dist (f_init m)) cap n st :
  good_stream st ->
  exists ts, length ts = n /\ Forall (valid_rollout m pi cap) ts /\
             ts = fst (sims m pi cap n st) /\
             mc_evaluate m pi cap n st = mc_tables (f_gamma m) n ts.
Proof.
  intros Hst. destruct (sims m pi cap n st) as [ts st'] eqn:E.
  destruct (sims_valid m pi Hwf Hinit cap n st ts st' Hst E) as (H1 & H2 & _).
  exists ts. unfold mc_evaluate. rewrite E. simpl. auto.
Qed.

(* ------------------------------------------------------------------ deterministic policy on deterministic MDP *)
Definition is_det (d : dist) (x : nat) : Prop :=
  match d with
  | DDet y => y = x
  | DUnif l => l <> [] /\ Forall (fun y => y = x) l
  | DDict l => Forall (fun yw : nat * Q => 0 <= snd yw /\ (fst yw = x \/ snd yw == 0)) l /\
               0 < qsum (map snd l)
  end.

Lemma is_det_wf d x : is_det d x -> wf_dist d.
Proof.
  destruct d as [l|l|y]; simpl; auto.
  - intros [H1 H2]. split; [|exact H2]. eapply Forall_impl; [|exact H1]. simpl. tauto.
  - tauto.
Qed.

Lemma det_sample d x st : is_det d x -> good_stream st -> fst (sample d st) = x.
Proof.
  intros Hd Hst. destruct d as [l|l|y]; simpl in *.
  - destruct Hd as [Hall Htot].
    destruct l as [|[y w] [|p r]].
    + simpl map in Htot. rewrite qsum_nil in Htot. lra.
    + simpl. simpl map in Htot. rewrite qsum_cons, qsum_nil in Htot. simpl in Htot.
      inversion Hall as [|? ? [_ [H|H]] _]; subst; simpl in *; [reflexivity | lra].
    + destruct (draw_good st Hst) as [[Hu0 Hu1] _].
      destruct (draw st) as [u st'] eqn:E. simpl in Hu0, Hu1. simpl fst.
      set (l := (y, w) :: p :: r) in *.
      assert (Hnn' : Forall (fun w => 0 <= w) (map snd l)).
      { clear -Hall. induction Hall; simpl; constructor; tauto. }
      destruct (pick_pos (map snd l) Hnn' (u * qsum (map snd l))) as [Hi Hp].
      * apply Qmult_le_0_compat; lra.
      * nra.
      * rewrite map_length in Hi.
        change 0 with (snd (0%nat, 0)) in Hp at 2. rewrite map_nth in Hp.
        assert (Hin : In (nth (pick (map snd l) (u * qsum (map snd l))) l (0%nat, 0)) l) by (apply nth_In; exact Hi).
        rewrite Forall_forall in Hall. destruct (Hall _ Hin) as [_ [H|H]]; [exact H | lra].
  - destruct Hd as [Hne Hall].
    assert (Hn : (0 < Z.of_nat (length l))%Z) by (destruct l; [congruence | simpl length; lia]).
    destruct (randbelow_good _ Hn st Hst) as [Hk _].
    destruct (randbelow (Z.of_nat (length l)) st) as [k st'] eqn:E. simpl in *.
    rewrite Forall_forall in Hall. apply Hall. apply nth_In. lia.
  - exact Hd.
Qed.

Lemma det_sample_good d x st : is_det d x -> good_stream st -> good_stream (snd (sample d st)).
Proof. intros Hd Hst. apply sample_pos; [eapply is_det_wf; eassumption | exact Hst]. Qed.

Lemma det_expect d x f : is_det d x -> dexpect d f == f x.
Proof.
  intros Hd. destruct d as [l|l|y]; simpl in *.
  - destruct Hd as [Hall Htot].
    assert (H : qsum (map (fun xw : nat * Q => if Qeq_bool (snd xw) 0 then 0 else snd xw * f (fst xw)) l)
                == qsum (map snd l) * f x).
    { clear Htot. induction Hall as [|[y w] r [Hw Hy] Hr IH]; simpl map; [rewrite !qsum_nil; ring|].
      simpl in Hw, Hy. rewrite !qsum_cons. simpl fst. simpl snd. rewrite IH.
      destruct (Qeq_bool w 0) eqn:E.
      - apply Qeq_bool_iff in E. rewrite E. ring.
      - destruct Hy as [Hy|Hy]; [subst; ring|].
        apply Qeq_bool_iff in Hy. congruence. }
    rewrite H. field. lra.
  - destruct Hd as [Hne Hall].
    assert (H : qsum (map f l) == qlen l * f x).
    { unfold qlen. clear Hne. induction Hall as [|y r Hy Hr IH]; simpl length; simpl map; [rewrite qsum_nil; simpl; ring|].
      subst. rewrite qsum_cons. rewrite IH. rewrite Nat2Z.inj_succ, <- Z.add_1_r, inject_Z_plus. ring. }
    rewrite H. pose proof (qlen_pos l Hne) as Hp. unfold qlen in *. field. lra.
  - subst. reflexivity.
Qed.

Section Det.
Variable m : fmdp.
Variable pi : policy.
Hypothesis Hpol : forall s, f_abs m s = false -> exists a, is_det (pi s) a.
Hypothesis Hmdp : forall s a, f_abs m s = false -> exists ns, is_det (f_next m s a) ns.

(* the first return of a roll-out = the exact evaluation truncated at the cap, whatever the generator *)
Lemma det_run_from cap : forall s st tr fin st',
  good_stream st -> run_from m pi cap s st = (tr, fin, st') ->
  hd 0 (calc_returns (t_rewards (tr, fin)) (f_gamma m)) == Vn m pi cap s /\ good_stream st'.
Proof.
  induction cap as [|c IH]; intros s st tr fin st' Hst Hrun; simpl in Hrun.
  - inversion Hrun; subst. split; [|exact Hst]. rewrite hd_calc_returns. unfold csum. simpl.
    rewrite qsum_cons, qsum_nil. ring.
  - destruct (f_abs m s) eqn:Habs.
    + inversion Hrun; subst. split; [|exact Hst]. simpl Vn. rewrite Habs.
      rewrite hd_calc_returns. unfold csum. simpl. rewrite qsum_cons, qsum_nil. ring.
    + destruct (Hpol s Habs) as [a0 Ha0].
      destruct (sample (pi s) st) as [a st1] eqn:E1.
      pose proof (det_sample _ _ st Ha0 Hst) as Ea. pose proof (det_sample_good _ _ st Ha0 Hst) as Hst1.
      rewrite E1 in Ea, Hst1. simpl in Ea, Hst1. subst a0.
      destruct (Hmdp s a Habs) as [ns0 Hns0].
      destruct (sample (f_next m s a) st1) as [ns st2] eqn:E2.
      pose proof (det_sample _ _ st1 Hns0 Hst1) as En. pose proof (det_sample_good _ _ st1 Hns0 Hst1) as Hst2.
      rewrite E2 in En, Hst2. simpl in En, Hst2. subst ns0.
      destruct (run_from m pi c ns st2) as [[tr' fin'] st3] eqn:E3.
      inversion Hrun; subst. clear Hrun.
      destruct (IH ns st2 tr' fin st' Hst2 E3) as [IHv IHg]. split; [|exact IHg].
      simpl Vn. rewrite Habs. rewrite (det_expect _ _ _ Ha0). rewrite (det_expect _ _ _ Hns0).
      change (t_rewards (mkStep s a ns (f_rew m s a ns) :: tr', fin))
        with (f_rew m s a ns :: t_rewards (tr', fin)).
      rewrite (Forall2_Qeq_hd _ _ (calc_returns_cons _ _ _)). simpl hd. rewrite IHv. reflexivity.
Qed.

Lemma mean_const (l : list Q) v : l <> [] -> Forall (fun x => x == v) l -> mean l == v.
Proof.
  intros Hne Hall. unfold mean.
  assert (H : qsum l == qlen l * v).
  { unfold qlen. clear Hne. induction Hall as [|y r Hy Hr IH]; simpl length; [rewrite qsum_nil; simpl; ring|].
    rewrite qsum_cons. rewrite IH, Hy. rewrite Nat2Z.inj_succ, <- Z.add_1_r, inject_Z_plus. ring. }
  rewrite H. pose proof (qlen_pos l Hne) as Hp. field. lra.
Qed.

Lemma det_sims s0 (Hinit : is_det (f_init m) s0) cap n : forall st ts st',
  good_stream st -> sims m pi cap n st = (ts, st') ->
  length ts = n /\
  Forall (fun x => x == Vn m pi cap s0) (map (fun t => hd 0 (calc_returns (t_rewards t) (f_gamma m))) ts).
Proof.
  induction n as [|k IH]; intros st ts st' Hst Hs.
  - simpl in Hs. inversion Hs; subst. split; [reflexivity | constructor].
  - rewrite sims_S in Hs.
    destruct (run_on m pi None cap st) as [[tr fin] st1] eqn:E1.
    destruct (sims m pi cap k st1) as [rest st2] eqn:E2. inversion Hs; subst. clear Hs.
    simpl in E1. destruct (sample (f_init m) st) as [s st0] eqn:E0.
    pose proof (det_sample _ _ st Hinit Hst) as Es. pose proof (det_sample_good _ _ st Hinit Hst) as Hst0.
    rewrite E0 in Es, Hst0. simpl in Es, Hst0. subst s.
    destruct (det_run_from cap s0 st0 tr fin st1 Hst0 E1) as [Hv Hst1].
    destruct (IH st1 rest st' Hst1 E2) as [Hlen Hall].
    split; [simpl; congruence|]. simpl. constructor; assumption.
Qed.

(* simulation-based evaluation of a deterministic policy on a deterministic MDP reports exactly the
   evaluation truncated at the step cap, for every generator and every number of simulations *)
Theorem mc_deterministic_exact s0 (Hinit : is_det (f_init m) s0) cap n st :
  good_stream st -> (0 < n)%nat ->
  mc_initial_value (mc_evaluate m pi cap n st) == Vn m pi cap s0.
Proof.
  intros Hst Hn. unfold mc_evaluate. destruct (sims m pi cap n st) as [ts st'] eqn:E.
  destruct (det_sims s0 Hinit cap n st ts st' Hst E) as [Hlen Hall].
  unfold mc_tables. simpl. apply mean_const; [|exact Hall].
  destruct ts; [simpl in Hlen; lia | simpl; discriminate].
Qed.

(* and every single roll-out is the same trajectory, whatever the generator *)
Lemma det_run_same cap : forall s st st2 tr fin st' tr2 fin2 st2',
  good_stream st -> good_stream st2 ->
  run_from m pi cap s st = (tr, fin, st') -> run_from m pi cap s st2 = (tr2, fin2, st2') ->
  tr = tr2 /\ fin = fin2.
Proof.
  induction cap as [|c IH]; intros s st stb tr fin st' tr2 fin2 stb' Hst Hstb H1 H2; simpl in H1, H2.
  - inversion H1; inversion H2; subst. auto.
  - destruct (f_abs m s) eqn:Habs.
    + inversion H1; inversion H2; subst. auto.
    + destruct (Hpol s Habs) as [a0 Ha0].
      destruct (sample (pi s) st) as [a st1] eqn:E1. destruct (sample (pi s) stb) as [a' stb1] eqn:E1'.
      pose proof (det_sample _ _ st Ha0 Hst) as Ea. pose proof (det_sample_good _ _ st Ha0 Hst) as Hst1.
      pose proof (det_sample _ _ stb Ha0 Hstb) as Ea'. pose proof (det_sample_good _ _ stb Ha0 Hstb) as Hstb1.
      rewrite E1 in Ea, Hst1. rewrite E1' in Ea', Hstb1. simpl in *. subst a a'.
      destruct (Hmdp s a0 Habs) as [ns0 Hns0].
      destruct (sample (f_next m s a0) st1) as [ns st2] eqn:E2.
      destruct (sample (f_next m s a0) stb1) as [ns' stb2] eqn:E2'.
      pose proof (det_sample _ _ st1 Hns0 Hst1) as En. pose proof (det_sample_good _ _ st1 Hns0 Hst1) as Hst2.
      pose proof (det_sample _ _ stb1 Hns0 Hstb1) as En'. pose proof (det_sample_good _ _ stb1 Hns0 Hstb1) as Hstb2.
      rewrite E2 in En, Hst2. rewrite E2' in En', Hstb2. simpl in *. subst ns ns'.
      destruct (run_from m pi c ns0 st2) as [[tra fina] st3] eqn:E3.
      destruct (run_from m pi c ns0 stb2) as [[trb finb] stb3] eqn:E3'.
      inversion H1; inversion H2; subst.
      destruct (IH _ _ _ _ _ _ _ _ _ Hst2 Hstb2 E3 E3') as [Ht Hf]. subst. auto.
Qed.
End Det.

(* ------------------------------------------------------------------ non-vacuity: concrete instances *)
Module Examples.
(* 3 states (2 absorbing), 2 actions, stochastic dynamics with a zero entry, stochastic policy using
   all three kinds of distribution, two-point initial distribution *)
Definition ex_m : fmdp :=
  mk_fmdp (DDict [(0%nat, 1#2); (1%nat, 1#2)])
          [[DDict [(1%nat, 1#2); (2%nat, 1#2)]; DDict [(0%nat, 1#1)]];
           [DDict [(2%nat, 1#1); (0%nat, 0#1)]; DDet 2]; []]
          [(0%nat, 0%nat, 1%nat, (-1)#1); (0%nat, 0%nat, 2%nat, 3#1); (1%nat, 0%nat, 2%nat, 5#4)]
          [false; false; true] (9#10).
Definition ex_pi : policy := mk_pol [DDict [(0%nat, 1#3); (1%nat, 2#3)]; DUnif [0%nat; 1%nat]; DDet 0].
Definition ex_st : stream := [1#4; 1#8; 3#8; 7#8; 1#2; 5#8; 1#16; 3#4].

Lemma ex_init : wf_dist (f_init ex_m).
Proof. simpl. split; [repeat constructor; simpl; lra | vm_compute; reflexivity]. Qed.

Lemma ex_wf : wf_setting ex_m ex_pi.
Proof.
  split.
  - intros s _. destruct s as [|[|[|s]]]; simpl; auto;
      try (split; [repeat constructor; simpl; lra | vm_compute; reflexivity]); try discriminate.
    destruct s; exact I.
  - intros s a _ _. destruct s as [|[|[|s]]]; destruct a as [|[|a]]; simpl; auto;
      try (split; [repeat constructor; simpl; lra | vm_compute; reflexivity]);
      try (destruct a; exact I); try (destruct s; exact I).
Qed.

Lemma ex_stream : good_stream ex_st.
Proof. repeat constructor; simpl; lra. Qed.

(* the hypotheses of rollout_valid / rollout_stops / mc_evaluate_averages hold here and the
   roll-out is not trivial: two steps, ending in the absorbing state before the cap *)
Example ex_run :
  let '(tr, fin, rest) := run_on ex_m ex_pi None 5 ex_st in
  (map st_s tr, map st_a tr, fin, length rest) = ([0%nat; 1%nat], [0%nat; 0%nat], 2%nat, 3%nat).
Proof. vm_compute. reflexivity. Qed.

Example ex_valid : exists s tr fin st',
  run_on ex_m ex_pi None 5 ex_st = (tr, fin, st') /\ length tr = 2%nat /\
  start_ok ex_m None s /\ chain_ok ex_m ex_pi s tr fin.
Proof.
  destruct (run_on ex_m ex_pi None 5 ex_st) as [[tr fin] st'] eqn:E.
  destruct (rollout_valid ex_m ex_pi ex_wf ex_init None 5 ex_st tr fin st' ex_stream E) as (s & H1 & H2 & _).
  exists s, tr, fin, st'. repeat split; auto.
  assert (H : length (fst (fst (run_on ex_m ex_pi None 5 ex_st))) = 2%nat) by (vm_compute; reflexivity).
  rewrite E in H. exact H.
Qed.

Example ex_mc : mc_initial_value (mc_evaluate ex_m ex_pi 5 2 ex_st) == 11#16.
Proof. vm_compute. reflexivity. Qed.

(* deterministic policy on a deterministic MDP, with zero-weight entries and every kind of distribution *)
Definition ex_dm : fmdp :=
  mk_fmdp (DDict [(1%nat, 0#1); (0%nat, 1#1)])
          [[DDict [(1%nat, 1#1); (2%nat, 0#1)]; DDet 0];
           [DDict [(2%nat, 1#1)]; DUnif [0%nat]]; []]
          [(0%nat, 0%nat, 1%nat, (-1)#1); (1%nat, 0%nat, 2%nat, 5#4)]
          [false; false; true] (1#2).
Definition ex_dpi : policy := mk_pol [DDict [(1%nat, 0#1); (0%nat, 1#1)]; DUnif [0%nat]; DDet 0].

Lemma ex_dpol : forall s, f_abs ex_dm s = false -> exists a, is_det (ex_dpi s) a.
Proof.
  intros s _. exists 0%nat. destruct s as [|[|[|s]]]; simpl.
  - split; [repeat constructor; simpl; try lra; auto; right; reflexivity | vm_compute; reflexivity].
  - split; [discriminate | repeat constructor].
  - reflexivity.
  - destruct s; reflexivity.
Qed.

Lemma ex_dmdp : forall s a, f_abs ex_dm s = false -> exists ns, is_det (f_next ex_dm s a) ns.
Proof.
  intros s a _. destruct s as [|[|[|s]]]; destruct a as [|[|a]]; simpl.
  - exists 1%nat. split; [repeat constructor; simpl; try lra; auto; right; reflexivity | vm_compute; reflexivity].
  - exists 0%nat. reflexivity.
  - exists 0%nat. destruct a; reflexivity.
  - exists 2%nat. split; [repeat constructor; simpl; try lra; auto | vm_compute; reflexivity].
  - exists 0%nat. split; [discriminate | repeat constructor].
  - exists 0%nat. destruct a; reflexivity.
  - exists 0%nat. reflexivity.
  - exists 0%nat. reflexivity.
  - exists 0%nat. destruct a; reflexivity.
  - exists 0%nat. destruct s; reflexivity.
  - exists 0%nat. destruct s; reflexivity.
  - exists 0%nat. destruct s; destruct a; reflexivity.
Qed.

Lemma ex_dinit : is_det (f_init ex_dm) 0%nat.
Proof. simpl. split; [repeat constructor; simpl; try lra; auto; right; reflexivity | vm_compute; reflexivity]. Qed.

(* hypotheses of mc_deterministic_exact hold; the value is -1 + (1/2)(5/4) = -3/8, not trivial *)
Example ex_det : mc_initial_value (mc_evaluate ex_dm ex_dpi 5 3 ex_st) == (-3)#8 /\ Vn ex_dm ex_dpi 5 0 == (-3)#8.
Proof.
  pose proof (mc_deterministic_exact ex_dm ex_dpi ex_dpol ex_dmdp 0%nat ex_dinit 5 3 ex_st ex_stream ltac:(lia)) as H.
  assert (Hv : Vn ex_dm ex_dpi 5 0 == (-3)#8) by (vm_compute; reflexivity).
  split; [rewrite H; exact Hv | exact Hv].
Qed.

(* POMDP instance: the MDP above with two observations and a two-node controller *)
Definition ex_pm : fpomdp :=
  mk_fpomdp ex_m [[DDict [(0%nat, 1#4); (1%nat, 3#4)]; DDet 1; DUnif [0%nat; 1%nat]];
                  [DDet 0; DDict [(1%nat, 1#1)]; DDet 0]].
Definition ex_ctrl : ppolicy nat :=
  mk_ctrl 0 [DDict [(0%nat, 1#2); (1%nat, 1#2)]; DDet 0] [[[1%nat; 0%nat]; [0%nat; 1%nat]]; [[1%nat; 1%nat]; [0%nat; 0%nat]]].

Lemma ex_pwf : pwf_setting ex_pm ex_ctrl.
Proof.
  split; [|split].
  - intros ag. destruct ag as [|[|ag]]; simpl; auto;
      try (split; [repeat constructor; simpl; lra | vm_compute; reflexivity]). destruct ag; exact I.
  - intros s a _. destruct s as [|[|[|s]]]; destruct a as [|[|a]]; simpl; auto;
      try (split; [repeat constructor; simpl; lra | vm_compute; reflexivity]);
      try (destruct a; exact I); try (destruct s; exact I).
  - intros a ns. destruct a as [|[|a]]; destruct ns as [|[|[|ns]]]; simpl; auto;
      try (split; [repeat constructor; simpl; lra | vm_compute; reflexivity]); try discriminate;
      try (destruct ns; exact I); try (destruct a; exact I).
Qed.

Example ex_prun :
  let '(tr, fin, _, _) := prun_on false ex_pm ex_ctrl None None 5 [1#4] ex_st in
  (length tr, fin) = (2%nat, (2%nat, 1%nat)).
Proof. vm_compute. reflexivity. Qed.

(* calc_returns on a concrete reward list: [1; 2; 4] with g = 1/2 gives [3; 4; 4] *)
Example ex_returns : Forall2 Qeq (calc_returns [1; 2; 4] (1#2)) [3; 4; 4].
Proof. repeat constructor; vm_compute; reflexivity. Qed.
End Examples.
