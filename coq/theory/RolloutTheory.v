(* RolloutTheory.v — proofs about model/Rollout.v (property C14).
   All statements are for ALL MDPs/POMDPs, policies, start states, caps and generator streams
   (streams of values in [0,1): what random() returns). *)
From Coq Require Import QArith Qround ZArith List Bool Arith Lia Lqa Psatz.
From MSDM Require Import model.Rollout.
Import ListNotations.
Local Open Scope Q_scope.

(* ------------------------------------------------------------------ streams, well-formed distributions *)
Definition in01 (u : Q) : Prop := 0 <= u /\ u < 1.
Definition good_stream (st : stream) : Prop := Forall in01 st.

Definition wf_dist (d : dist) : Prop :=
  match d with
  | DDict l => Forall (fun xw : nat * Q => 0 <= snd xw) l /\ 0 < qsum (map snd l)
  | DUnif l => l <> []
  | DDet _ => True
  end.

Lemma draw_good st :
  good_stream st -> in01 (fst (draw st)) /\ good_stream (snd (draw st)).
Proof.
  intros H. destruct st as [|u r]; simpl.
  - split; [split; lra | constructor].
  - inversion H; subst. split; assumption.
Qed.

Lemma pick_pos ws :
  Forall (fun w => 0 <= w) ws -> forall x, 0 <= x -> x < qsum ws ->
  (pick ws x < length ws)%nat /\ 0 < nth (pick ws x) ws 0.
Proof.
  induction ws as [|w rest IH]; intros Hnn x Hx0 Hx.
  - simpl in Hx. lra.
  - destruct rest as [|w' rest'].
    + simpl in *. split; [lia | lra].
    + change (pick (w :: w' :: rest') x)
        with (if Qle_bool w x then S (pick (w' :: rest') (x - w)) else 0%nat).
      inversion Hnn as [|? ? Hw Hrest]; subst.
      destruct (Qle_bool w x) eqn:E.
      * apply Qle_bool_iff in E.
        assert (Hx' : x - w < qsum (w' :: rest')).
        { change (qsum (w :: w' :: rest')) with (w + qsum (w' :: rest')) in Hx. lra. }
        destruct (IH Hrest (x - w) ltac:(lra) Hx') as [H1 H2].
        split; [simpl; simpl in H1; lia | exact H2].
      * assert (Hlt : x < w).
        { destruct (Qlt_le_dec x w) as [Hl|Hl]; [exact Hl|].
          apply Qle_bool_iff in Hl. congruence. }
        split; [simpl; lia | simpl; lra].
Qed.

Lemma wkey_nonneg x l : Forall (fun xw : nat * Q => 0 <= snd xw) l -> 0 <= wkey x l.
Proof.
  induction l as [|[y w] r IH]; intros H; simpl; [lra|].
  inversion H; subst. simpl in *. specialize (IH H3).
  destruct (Nat.eqb x y); lra.
Qed.

Lemma wkey_ge l : Forall (fun xw : nat * Q => 0 <= snd xw) l ->
  forall i d, (i < length l)%nat -> snd (nth i l d) <= wkey (fst (nth i l d)) l.
Proof.
  induction l as [|[y w] r IH]; intros H i d Hi; simpl in Hi; [lia|].
  inversion H as [|? ? Hw Hr]; subst. simpl in Hw.
  destruct i as [|i]; simpl.
  - rewrite Nat.eqb_refl. pose proof (wkey_nonneg y r Hr). lra.
  - specialize (IH Hr i d ltac:(lia)).
    destruct (Nat.eqb (fst (nth i r d)) y); lra.
Qed.

Lemma inject_Z_pos z : (0 < z)%Z -> 0 < inject_Z z.
Proof. intros H. unfold Qlt. simpl. lia. Qed.

Lemma qlen_pos {A} (l : list A) : l <> [] -> 0 < qlen l.
Proof.
  intros H. unfold qlen. apply inject_Z_pos. destruct l; [congruence|]. simpl length. lia.
Qed.

Lemma inv_pos z : (0 < z)%Z -> 0 < 1 / inject_Z z.
Proof.
  intros H. unfold Qdiv. rewrite Qmult_1_l. apply Qinv_lt_0_compat. apply inject_Z_pos. exact H.
Qed.

Lemma randbelow_good n : (0 < n)%Z -> forall st, good_stream st ->
  (0 <= fst (randbelow n st) < n)%Z /\ good_stream (snd (randbelow n st)).
Proof.
  intros Hn st. induction st as [|u r IH]; intros H.
  - cbn [randbelow fst snd]. split; [lia | constructor].
  - inversion H; subst. cbn [randbelow].
    destruct (Qle_bool _ u).
    + apply IH. assumption.
    + cbn [fst snd]. split; [apply Z.mod_pos_bound; exact Hn | assumption].
Qed.

(* the event a draw produces has positive probability, and the rest of the stream is still a stream *)
Lemma sample_pos d st :
  wf_dist d -> good_stream st ->
  0 < dweight d (fst (sample d st)) /\ good_stream (snd (sample d st)).
Proof.
  intros Hwf Hst. destruct d as [l|l|x]; simpl in *.
  - destruct Hwf as [Hnn Htot].
    assert (Hgen : forall u st', in01 u -> good_stream st' ->
               0 < wkey (fst (nth (pick (map snd l) (u * qsum (map snd l))) l (0%nat, 0))) l).
    { intros u st' [Hu0 Hu1] _.
      assert (Hnn' : Forall (fun w => 0 <= w) (map snd l)).
      { clear -Hnn. induction Hnn; simpl; constructor; auto. }
      destruct (pick_pos (map snd l) Hnn' (u * qsum (map snd l))) as [Hi Hp].
      - apply Qmult_le_0_compat; lra.
      - nra.
      - rewrite map_length in Hi.
        pose proof (wkey_ge l Hnn _ (0%nat, 0) Hi) as Hge.
        change 0 with (snd (0%nat, 0)) in Hp at 2. rewrite map_nth in Hp. lra. }
    destruct (draw_good st Hst) as [Hu Hst'].
    destruct l as [|[x w] [|p r]].
    + simpl in Htot. lra.
    + simpl. simpl in Htot. rewrite Nat.eqb_refl. split; [lra | exact Hst].
    + destruct (draw st) as [u st'] eqn:E. simpl in Hu, Hst'. simpl fst. simpl snd.
      split; [apply (Hgen u st' Hu Hst') | exact Hst'].
  - assert (Hn : (0 < Z.of_nat (length l))%Z) by (destruct l; [congruence | simpl length; lia]).
    destruct (randbelow_good _ Hn st Hst) as [Hk Hst'].
    destruct (randbelow (Z.of_nat (length l)) st) as [k st'] eqn:E. simpl in *.
    split; [|exact Hst'].
    assert (Hin : In (nth (Z.to_nat k) l 0%nat) l) by (apply nth_In; lia).
    assert (Hex : existsb (Nat.eqb (nth (Z.to_nat k) l 0%nat)) l = true).
    { apply existsb_exists. eexists. split; [exact Hin | apply Nat.eqb_refl]. }
    rewrite Hex. apply inv_pos. exact Hn.
  - rewrite Nat.eqb_refl. split; [lra | exact Hst].
Qed.

(* ------------------------------------------------------------------ MDP roll-outs *)
Section MDP.
Variable m : fmdp.
Variable pi : policy.

(* the policy is a distribution at every state a roll-out can act in, and so is the successor
   distribution of every action the policy can take there *)
Definition wf_setting : Prop :=
  (forall s, f_abs m s = false -> wf_dist (pi s)) /\
  (forall s a, f_abs m s = false -> 0 < dweight (pi s) a -> wf_dist (f_next m s a)).

(* a valid trajectory from s: every step starts where the previous one ended, is taken from a
   non-absorbing state with an action of positive policy probability and a successor of positive
   probability, and carries the model's reward; `fin` is where the last step ended *)
Fixpoint chain_ok (s : nat) (tr : list step) (fin : nat) : Prop :=
  match tr with
  | [] => fin = s
  | x :: r =>
      st_s x = s /\ f_abs m s = false /\
      0 < dweight (pi s) (st_a x) /\
      0 < dweight (f_next m s (st_a x)) (st_ns x) /\
      st_r x = f_rew m s (st_a x) (st_ns x) /\
      chain_ok (st_ns x) r fin
  end.

Lemma run_from_valid (Hwf : wf_setting) cap : forall s st tr fin st',
  good_stream st -> run_from m pi cap s st = (tr, fin, st') ->
  chain_ok s tr fin /\ good_stream st' /\
  (length tr <= cap)%nat /\ ((length tr < cap)%nat -> f_abs m fin = true).
Proof.
  destruct Hwf as [Hpi Hnext].
  induction cap as [|c IH]; intros s st tr fin st' Hst Hrun; simpl in Hrun.
  - inversion Hrun; subst. simpl. repeat split; auto; lia.
  - destruct (f_abs m s) eqn:Habs.
    + inversion Hrun; subst. simpl. repeat split; auto; lia.
    + destruct (sample (pi s) st) as [a st1] eqn:E1.
      destruct (sample (f_next m s a) st1) as [ns st2] eqn:E2.
      destruct (run_from m pi c ns st2) as [[tr' fin'] st3] eqn:E3.
      inversion Hrun; subst. clear Hrun.
      destruct (sample_pos (pi s) st (Hpi s Habs) Hst) as [Ha Hst1]. rewrite E1 in Ha, Hst1. simpl in Ha, Hst1.
      destruct (sample_pos (f_next m s a) st1 (Hnext s a Habs Ha) Hst1) as [Hns Hst2].
      rewrite E2 in Hns, Hst2. simpl in Hns, Hst2.
      destruct (IH ns st2 tr' fin st' Hst2 E3) as (Hc & Hg & Hl & Hstop).
      simpl. repeat split; auto; try lia. intros Hlt. apply Hstop. lia.
Qed.

Definition start_ok (s0 : option nat) (s : nat) : Prop :=
  match s0 with Some s' => s = s' | None => 0 < dweight (f_init m) s end.

Theorem rollout_valid (Hwf : wf_setting) (Hinit : wf_dist (f_init m)) s0 cap st tr fin st' :
  good_stream st -> run_on m pi s0 cap st = (tr, fin, st') ->
  exists s, start_ok s0 s /\ chain_ok s tr fin /\ good_stream st'.
Proof.
  intros Hst Hrun. destruct s0 as [s|]; simpl in Hrun.
  - exists s. destruct (run_from_valid Hwf cap s st tr fin st' Hst Hrun) as (H1 & H2 & _).
    repeat split; auto.
  - destruct (sample (f_init m) st) as [s st0] eqn:E0.
    destruct (sample_pos (f_init m) st Hinit Hst) as [Hs Hst0]. rewrite E0 in Hs, Hst0. simpl in Hs, Hst0.
    exists s. destruct (run_from_valid Hwf cap s st0 tr fin st' Hst0 Hrun) as (H1 & H2 & _).
    repeat split; auto.
Qed.

(* index of the first absorbing state in a list of states (its length if there is none) *)
Fixpoint first_abs (l : list nat) : nat :=
  match l with
  | [] => 0%nat
  | s :: r => if f_abs m s then 0%nat else S (first_abs r)
  end.

Lemma chain_ok_states s tr fin : chain_ok s tr fin ->
  Forall (fun x => f_abs m (st_s x) = false) tr /\ hd fin (map st_s tr) = s.
Proof.
  revert s. induction tr as [|x r IH]; intros s H; simpl in *.
  - split; [constructor | exact H].
  - destruct H as (H1 & H2 & _ & _ & _ & H6). destruct (IH _ H6) as [IH1 _].
    split; [constructor; [rewrite H1; exact H2 | exact IH1] | exact H1].
Qed.

Lemma first_abs_app tr fin :
  Forall (fun x => f_abs m (st_s x) = false) tr ->
  first_abs (map st_s tr ++ [fin]) = (length tr + first_abs [fin])%nat.
Proof.
  induction 1 as [|x r Hx Hr IH]; simpl; [reflexivity|].
  rewrite Hx. simpl in IH. rewrite IH. reflexivity.
Qed.

(* the roll-out stops exactly at the first absorbing state or at the cap *)
Theorem rollout_stops (Hwf : wf_setting) (Hinit : wf_dist (f_init m)) s0 cap st tr fin st' :
  good_stream st -> run_on m pi s0 cap st = (tr, fin, st') ->
  Forall (fun x => f_abs m (st_s x) = false) tr /\
  (length tr <= cap)%nat /\
  ((length tr < cap)%nat -> f_abs m fin = true) /\
  length tr = Nat.min cap (first_abs (t_states (tr, fin))) /\
  length (t_states (tr, fin)) = S (Nat.min cap (first_abs (t_states (tr, fin)))).
Proof.
  intros Hst Hrun.
  assert (H : exists s st0, good_stream st0 /\ run_from m pi cap s st0 = (tr, fin, st')).
  { destruct s0 as [s|]; simpl in Hrun.
    - exists s, st. auto.
    - destruct (sample (f_init m) st) as [s st0] eqn:E0.
      destruct (sample_pos (f_init m) st Hinit Hst) as [_ Hst0]. rewrite E0 in Hst0.
      exists s, st0. auto. }
  destruct H as (s & st0 & Hst0 & Hrun0).
  destruct (run_from_valid Hwf cap s st0 tr fin st' Hst0 Hrun0) as (Hc & _ & Hl & Hstop).
  destruct (chain_ok_states _ _ _ Hc) as [Hna _].
  assert (Hlen : length tr = Nat.min cap (first_abs (t_states (tr, fin)))).
  { unfold t_states. simpl fst. simpl snd. rewrite (first_abs_app tr fin Hna). simpl.
    destruct (f_abs m fin) eqn:Hf.
    - lia.
    - destruct (Nat.lt_ge_cases (length tr) cap) as [Hlt|Hge].
      + specialize (Hstop Hlt). congruence.
      + lia. }
  repeat split; auto.
  unfold t_states at 1. simpl fst. simpl snd. rewrite app_length, map_length. simpl. lia.
Qed.

Theorem cap_zero s0 st tr fin st' :
  run_on m pi s0 0 st = (tr, fin, st') ->
  tr = [] /\ fin = fst (match s0 with Some s => (s, st) | None => sample (f_init m) st end) /\
  t_states (tr, fin) = [fin] /\ t_rewards (tr, fin) = [0] /\ t_actions (tr, fin) = [None].
Proof.
  intros Hrun. destruct s0 as [s|]; simpl in Hrun.
  - inversion Hrun; subst. repeat split; reflexivity.
  - destruct (sample (f_init m) st) as [s st0] eqn:E0. simpl in Hrun.
    inversion Hrun; subst. repeat split; reflexivity.
Qed.

(* once a run has stopped before the cap, a larger cap changes nothing (the harness evaluates
   cap = 2^30 runs with a smaller fuel that the run did not reach) *)
Lemma run_cap_stable c : forall s st tr fin st',
  run_from m pi c s st = (tr, fin, st') -> (length tr < c)%nat ->
  forall c', (c <= c')%nat -> run_from m pi c' s st = (tr, fin, st').
Proof.
  induction c as [|c IH]; intros s st tr fin st' Hrun Hlt c' Hle; [lia|].
  destruct c' as [|c']; [lia|]. simpl in *.
  destruct (f_abs m s); [exact Hrun|].
  destruct (sample (pi s) st) as [a st1].
  destruct (sample (f_next m s a) st1) as [ns st2].
  destruct (run_from m pi c ns st2) as [[tr' fin'] st3] eqn:E3.
  inversion Hrun; subst. simpl in Hlt.
  rewrite (IH ns st2 tr' fin st' E3 ltac:(lia) c' ltac:(lia)). reflexivity.
Qed.

End MDP.

(* ------------------------------------------------------------------ POMDP roll-outs *)
Section POMDP.
Context {AG : Type}.
Variable m : fpomdp.
Variable pol : ppolicy AG.

(* `reach ag` = the policy's action distribution matters at agent state ag; we simply ask for
   well-formedness everywhere the roll-out can get to, i.e. for all agent states *)
Definition pwf_setting : Prop :=
  (forall ag, wf_dist (pp_act pol ag)) /\
  (forall s a, f_abs (fp_mdp m) s = false -> wf_dist (f_next (fp_mdp m) s a)) /\
  (forall a ns, wf_dist (fp_obs m a ns)).

Fixpoint pchain_ok (s : nat) (ag : AG) (tr : list (pstep AG)) (fin : nat * AG) : Prop :=
  match tr with
  | [] => fin = (s, ag)
  | x :: r =>
      ps_s x = s /\ ps_ag x = ag /\ f_abs (fp_mdp m) s = false /\
      0 < dweight (pp_act pol ag) (ps_a x) /\
      0 < dweight (f_next (fp_mdp m) s (ps_a x)) (ps_ns x) /\
      ps_r x = f_rew (fp_mdp m) s (ps_a x) (ps_ns x) /\
      0 < dweight (fp_obs m (ps_a x) (ps_ns x)) (ps_o x) /\
      ps_nag x = pp_next pol ag (ps_a x) (ps_o x) /\
      pchain_ok (ps_ns x) (ps_nag x) r fin
  end.

Lemma prun_from_valid (Hwf : pwf_setting) cap : forall s ag st tr fin st',
  good_stream st -> prun_from m pol cap s ag st = (tr, fin, st') ->
  pchain_ok s ag tr fin /\ good_stream st' /\
  Forall (fun x => f_abs (fp_mdp m) (ps_s x) = false) tr /\
  (length tr <= cap)%nat /\ ((length tr < cap)%nat -> f_abs (fp_mdp m) (fst fin) = true).
Proof.
  destruct Hwf as (Hact & Hnext & Hobs).
  induction cap as [|c IH]; intros s ag st tr fin st' Hst Hrun; simpl in Hrun.
  - inversion Hrun; subst. simpl. repeat split; auto; lia.
  - destruct (f_abs (fp_mdp m) s) eqn:Habs.
    + inversion Hrun; subst. simpl. repeat split; auto; lia.
    + destruct (sample (pp_act pol ag) st) as [a st1] eqn:E1.
      destruct (sample (f_next (fp_mdp m) s a) st1) as [ns st2] eqn:E2.
      destruct (sample (fp_obs m a ns) st2) as [o st3] eqn:E3.
      destruct (prun_from m pol c ns (pp_next pol ag a o) st3) as [[tr' fin'] st4] eqn:E4.
      inversion Hrun; subst. clear Hrun.
      destruct (sample_pos _ st (Hact ag) Hst) as [Ha Hst1]. rewrite E1 in Ha, Hst1. simpl in Ha, Hst1.
      destruct (sample_pos _ st1 (Hnext s a Habs) Hst1) as [Hns Hst2]. rewrite E2 in Hns, Hst2. simpl in Hns, Hst2.
      destruct (sample_pos _ st2 (Hobs a ns) Hst2) as [Ho Hst3]. rewrite E3 in Ho, Hst3. simpl in Ho, Hst3.
      destruct (IH _ _ _ _ _ _ Hst3 E4) as (Hc & Hg & Hna & Hl & Hstop).
      simpl. repeat split; auto; try lia. intros Hlt. apply Hstop. lia.
Qed.

(* whichever generator serves the initial state (the rng argument, or — as the code does today —
   the global one), the roll-out is valid *)
Theorem prollout_valid (Hwf : pwf_setting) (Hinit : wf_dist (f_init (fp_mdp m)))
        flag s0 ag0 cap gst st tr fin st' gst' :
  good_stream st -> good_stream gst ->
  prun_on flag m pol s0 ag0 cap gst st = (tr, fin, st', gst') ->
  exists s,
    match s0 with Some s' => s = s' | None => 0 < dweight (f_init (fp_mdp m)) s end /\
    pchain_ok s (match ag0 with Some a => a | None => pp_init pol end) tr fin /\
    Forall (fun x => f_abs (fp_mdp m) (ps_s x) = false) tr /\
    (length tr <= cap)%nat /\ ((length tr < cap)%nat -> f_abs (fp_mdp m) (fst fin) = true).
Proof.
  intros Hst Hgst Hrun. unfold prun_on in Hrun.
  set (ag := match ag0 with Some a => a | None => pp_init pol end) in *.
  destruct s0 as [s|].
  - destruct (prun_from m pol cap s ag st) as [[tr0 fin0] st0] eqn:E. inversion Hrun; subst.
    exists s. destruct (prun_from_valid Hwf cap _ _ _ _ _ _ Hst E) as (H1 & _ & H3 & H4 & H5). auto.
  - destruct flag.
    + destruct (sample (f_init (fp_mdp m)) st) as [s st0] eqn:E0.
      destruct (sample_pos _ st Hinit Hst) as [Hs Hst0]. rewrite E0 in Hs, Hst0. simpl in Hs, Hst0.
      destruct (prun_from m pol cap s ag st0) as [[tr0 fin0] st1] eqn:E. inversion Hrun; subst.
      exists s. destruct (prun_from_valid Hwf cap _ _ _ _ _ _ Hst0 E) as (H1 & _ & H3 & H4 & H5). auto.
    + destruct (sample (f_init (fp_mdp m)) gst) as [s gst0] eqn:E0.
      destruct (sample_pos _ gst Hinit Hgst) as [Hs _]. rewrite E0 in Hs. simpl in Hs.
      destruct (prun_from m pol cap s ag st) as [[tr0 fin0] st1] eqn:E. inversion Hrun; subst.
      exists s. destruct (prun_from_valid Hwf cap _ _ _ _ _ _ Hst E) as (H1 & _ & H3 & H4 & H5). auto.
Qed.

End POMDP.

(* ------------------------------------------------------------------ discounted returns *)
Require Import Qpower.

Lemma qsum_ext {A} (f h : A -> Q) l :
  (forall x, In x l -> f x == h x) -> qsum (map f l) == qsum (map h l).
Proof.
  induction l as [|a l IH]; intros H; simpl; [reflexivity|].
  rewrite (H a (or_introl eq_refl)), IH; [reflexivity|]. intros x Hx. apply H. right. exact Hx.
Qed.

Lemma qsum_scale {A} (c : Q) (f : A -> Q) l :
  qsum (map (fun x => c * f x) l) == c * qsum (map f l).
Proof. induction l as [|a l IH]; simpl; [ring|]. rewrite IH. ring. Qed.

Lemma Qpower_succ (g : Q) (k : nat) : g ^ Z.of_nat (S k) == g * g ^ Z.of_nat k.
Proof.
  replace (Z.of_nat (S k)) with (1 + Z.of_nat k)%Z by lia.
  rewrite Qpower_plus' by lia. simpl. reflexivity.
Qed.

Definition csum (g : Q) (i : nat) (rs : list Q) : Q :=
  qsum (map (fun j => disc_entry g i j * nth j rs 0) (seq 0 (length rs))).

Lemma calc_returns_unfold rs g :
  calc_returns rs g = map (fun i => csum g i rs) (seq 0 (length rs)).
Proof. reflexivity. Qed.

Lemma csum_0_cons g r rs : csum g 0 (r :: rs) == r + g * csum g 0 rs.
Proof.
  unfold csum. simpl length. rewrite <- cons_seq, <- seq_shift. simpl map at 1. simpl qsum.
  rewrite map_map.
  rewrite (qsum_ext _ (fun j => g * (disc_entry g 0 j * nth j rs 0))).
  - rewrite qsum_scale. unfold disc_entry at 1. simpl. ring.
  - intros j _. unfold disc_entry. simpl Nat.leb. cbv iota.
    rewrite !Nat.sub_0_r. rewrite Qpower_succ. simpl nth. ring.
Qed.

Lemma csum_S_cons g i r rs : csum g (S i) (r :: rs) == csum g i rs.
Proof.
  unfold csum. simpl length. rewrite <- cons_seq, <- seq_shift. simpl map at 1. simpl qsum.
  rewrite map_map. unfold disc_entry at 1. simpl Nat.leb. cbv iota.
  rewrite Qmult_0_l, Qplus_0_l. apply qsum_ext. intros j _. reflexivity.
Qed.

(* the defining backward recursion *)
Fixpoint brec (rs : list Q) (g : Q) : list Q :=
  match rs with
  | [] => []
  | r :: t => (r + g * hd 0 (brec t g)) :: brec t g
  end.

Lemma Forall2_Qeq_refl l : Forall2 Qeq l l.
Proof. induction l; constructor; [reflexivity | assumption]. Qed.

Lemma Forall2_Qeq_trans l1 l2 l3 : Forall2 Qeq l1 l2 -> Forall2 Qeq l2 l3 -> Forall2 Qeq l1 l3.
Proof.
  intros H. revert l3. induction H; intros l3 H3; inversion H3; subst; constructor.
  - etransitivity; eassumption.
  - auto.
Qed.

Lemma Forall2_Qeq_map {A} (f h : A -> Q) l :
  (forall x, f x == h x) -> Forall2 Qeq (map f l) (map h l).
Proof. intros H. induction l; simpl; constructor; auto. Qed.

Lemma Forall2_Qeq_hd l l' : Forall2 Qeq l l' -> hd 0 l == hd 0 l'.
Proof. intros H. destruct H; simpl; [reflexivity | assumption]. Qed.

Lemma Forall2_Qeq_nth l l' : Forall2 Qeq l l' -> forall i, nth i l 0 == nth i l' 0.
Proof.
  induction 1; intros i; destruct i; simpl; try reflexivity; auto.
Qed.

Lemma Forall2_Qeq_length l l' : Forall2 Qeq l l' -> length l = length l'.
Proof. induction 1; simpl; congruence. Qed.

Lemma hd_calc_returns rs g : hd 0 (calc_returns rs g) == csum g 0 rs.
Proof.
  rewrite calc_returns_unfold. destruct rs as [|r t]; simpl length.
  - reflexivity.
  - rewrite <- cons_seq. reflexivity.
Qed.

Lemma calc_returns_cons r rs g :
  Forall2 Qeq (calc_returns (r :: rs) g) ((r + g * hd 0 (calc_returns rs g)) :: calc_returns rs g).
Proof.
  rewrite (calc_returns_unfold (r :: rs)). simpl length. rewrite <- cons_seq, <- seq_shift.
  simpl map at 1. rewrite map_map. constructor.
  - rewrite csum_0_cons, hd_calc_returns. reflexivity.
  - rewrite calc_returns_unfold. apply Forall2_Qeq_map. intros i. apply csum_S_cons.
Qed.

Lemma calc_returns_brec rs g : Forall2 Qeq (calc_returns rs g) (brec rs g).
Proof.
  induction rs as [|r t IH].
  - constructor.
  - eapply Forall2_Qeq_trans; [apply calc_returns_cons|]. simpl. constructor; [|exact IH].
    rewrite (Forall2_Qeq_hd _ _ IH). reflexivity.
Qed.

Lemma brec_nth rs g : forall i,
  (S i < length rs)%nat -> nth i (brec rs g) 0 == nth i rs 0 + g * nth (S i) (brec rs g) 0.
Proof.
  induction rs as [|r t IH]; intros i Hi; simpl in Hi; [lia|].
  destruct i as [|i].
  - simpl. destruct t as [|r' t']; [simpl in Hi; lia|]. simpl. reflexivity.
  - change (nth (S i) (brec (r :: t) g) 0) with (nth i (brec t g) 0).
    change (nth (S (S i)) (brec (r :: t) g) 0) with (nth (S i) (brec t g) 0).
    change (nth (S i) (r :: t) 0) with (nth i t 0). apply IH. lia.
Qed.

Lemma brec_last rs g : forall i, length rs = S i -> nth i (brec rs g) 0 == nth i rs 0.
Proof.
  induction rs as [|r t IH]; intros i Hi; simpl in Hi; [lia|].
  destruct i as [|i].
  - destruct t; [|simpl in Hi; lia]. simpl. ring.
  - change (nth (S i) (brec (r :: t) g) 0) with (nth i (brec t g) 0).
    change (nth (S i) (r :: t) 0) with (nth i t 0). apply IH. lia.
Qed.

(* Policy.calc_returns = the backward recursion  ret_i = r_i + g * ret_{i+1},  ret_last = r_last *)
Theorem calc_returns_rec rs g :
  length (calc_returns rs g) = length rs /\
  (forall i, (S i < length rs)%nat ->
     nth i (calc_returns rs g) 0 == nth i rs 0 + g * nth (S i) (calc_returns rs g) 0) /\
  (forall i, length rs = S i -> nth i (calc_returns rs g) 0 == nth i rs 0).
Proof.
  pose proof (calc_returns_brec rs g) as H.
  split; [|split].
  - rewrite calc_returns_unfold, map_length, seq_length. reflexivity.
  - intros i Hi. rewrite !(Forall2_Qeq_nth _ _ H). apply brec_nth. exact Hi.
  - intros i Hi. rewrite (Forall2_Qeq_nth _ _ H). apply brec_last. exact Hi.
Qed.
