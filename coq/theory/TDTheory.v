(* TDTheory.v — C10: theorems about the TD-learning folds of model/TD.v on the R instance,
   for every MDP size, every experience list (not only reachable ones) and every parameter setting. *)
From Coq Require Import Reals Lra Lia List Arith Bool.
From MSDM Require Import base.Num base.NumInst base.NumR model.MDP model.TD.
Import ListNotations.
Local Open Scope R_scope.

(* ---------- booleans of the R instance ---------- *)
Lemma td_neqb_eq x y : @neqb R NumR x y = true <-> x = y.
Proof. unfold neqb; numR. rewrite andb_true_iff, !Rleb_true. split; [lra|intros ->; lra]. Qed.
Lemma td_nleb_le x y : @nleb R NumR x y = true <-> x <= y.
Proof. numR. apply Rleb_true. Qed.

Lemma memb_In s l : memb s l = true <-> In s l.
Proof.
  unfold memb. rewrite existsb_exists. split.
  - intros (x & Hx & E). apply Nat.eqb_eq in E. now subst.
  - intros H. exists s. split; [auto|apply Nat.eqb_refl].
Qed.
Lemma memb_false s l : memb s l = false <-> ~ In s l.
Proof. rewrite <- memb_In. destruct (memb s l); split; congruence. Qed.

(* ---------- sums over lists ---------- *)
Definition Rsum (l : list R) : R := fold_right Rplus 0 l.

Lemma fold_left_add l a : fold_left (@nadd R NumR) l a = a + Rsum l.
Proof. revert a. induction l as [|x l IH]; intros a; simpl; [lra|]. rewrite IH. numR. lra. Qed.
Lemma suml_R l : @suml R NumR l = Rsum l.
Proof. unfold suml. rewrite fold_left_add. numR. lra. Qed.

Lemma Rsum_map_plus {A} (f g : A -> R) l :
  Rsum (map (fun x => f x + g x) l) = Rsum (map f l) + Rsum (map g l).
Proof. induction l; simpl; lra. Qed.
Lemma Rsum_map_const {A} (c : R) (l : list A) : Rsum (map (fun _ => c) l) = INR (length l) * c.
Proof. induction l; [simpl; lra|]. cbn [map Rsum fold_right length]. fold (Rsum (map (fun _ => c) l)). rewrite IHl, S_INR. lra. Qed.
Lemma Rsum_map_ind {A} (p : A -> bool) (c : R) (l : list A) :
  Rsum (map (fun x => if p x then c else 0) l) = INR (length (filter p l)) * c.
Proof.
  induction l as [|x l IH]; [simpl; lra|]. cbn [map Rsum fold_right filter].
  fold (Rsum (map (fun x => if p x then c else 0) l)). rewrite IH.
  destruct (p x); [cbn [length]; rewrite S_INR|]; lra.
Qed.
Lemma Rsum_map_ext {A} (f g : A -> R) l :
  (forall x, In x l -> f x = g x) -> Rsum (map f l) = Rsum (map g l).
Proof.
  induction l as [|x l IH]; intros H; [reflexivity|]. simpl.
  f_equal; [apply H; left; reflexivity|apply IH; intros; apply H; right; assumption].
Qed.
Lemma Rsum_weighted_bounds {A} (v w : A -> R) lo hi l :
  (forall x, In x l -> 0 <= w x) -> (forall x, In x l -> lo <= v x <= hi) ->
  lo * Rsum (map w l) <= Rsum (map (fun x => v x * w x) l) <= hi * Rsum (map w l).
Proof.
  induction l as [|x l IH]; intros Hw Hv; [simpl; lra|]. simpl.
  destruct IH as [I1 I2]; [intros; apply Hw|intros; apply Hv|]; auto with datatypes.
  fold (Rsum (map w l)) in *. fold (Rsum (map (fun x => v x * w x) l)) in *.
  pose proof (Hw x (or_introl eq_refl)) as W. pose proof (Hv x (or_introl eq_refl)) as [V1 V2].
  assert (lo * w x <= v x * w x) by (apply Rmult_le_compat_r; auto).
  assert (v x * w x <= hi * w x) by (apply Rmult_le_compat_r; auto).
  lra.
Qed.
Lemma Rsum_nonneg l : (forall x, In x l -> 0 <= x) -> 0 <= Rsum l.
Proof.
  induction l as [|x l IH]; intros H; [simpl; lra|]. simpl. fold (Rsum l).
  pose proof (H x (or_introl eq_refl)). specialize (IH (fun y Hy => H y (or_intror Hy))). lra.
Qed.

(* ---------- max over lists ---------- *)
Lemma fold_max_ge (t : list R) x : x <= fold_left (@nmax R NumR) t x.
Proof.
  revert x. induction t as [|y t IH]; intros x; simpl; [lra|].
  eapply Rle_trans; [|apply IH]. rewrite nmax_R. apply Rmax_l.
Qed.
Lemma fold_max_ge_in (t : list R) x y : In y t -> y <= fold_left (@nmax R NumR) t x.
Proof.
  revert x. induction t as [|z t IH]; intros x Hy; [destruct Hy|]. simpl. destruct Hy as [->|Hy].
  - eapply Rle_trans; [|apply fold_max_ge]. rewrite nmax_R. apply Rmax_r.
  - now apply IH.
Qed.
Lemma fold_max_in (t : list R) x : In (fold_left (@nmax R NumR) t x) (x :: t).
Proof.
  revert x. induction t as [|z t IH]; intros x; simpl; [auto|].
  destruct (IH (nmax x z)) as [E|Hin].
  - rewrite <- E. rewrite nmax_R. unfold Rmax. destruct (Rle_dec x z); auto.
  - auto.
Qed.
Lemma maxl_ge (l : list R) y : In y l -> y <= maxl l.
Proof.
  destruct l as [|x t]; [intros []|]. intros [->|H]; simpl; [apply fold_max_ge|now apply fold_max_ge_in].
Qed.
Lemma maxl_in (l : list R) : l <> [] -> In (maxl l) l.
Proof. destruct l as [|x t]; [congruence|]. intros _. apply fold_max_in. Qed.
Lemma maxl_range lo hi (l : list R) :
  lo <= 0 <= hi -> (forall x, In x l -> lo <= x <= hi) -> lo <= maxl l <= hi.
Proof.
  intros H0 H. destruct l as [|x t]; [simpl; numR; lra|]. apply H. apply maxl_in. discriminate.
Qed.

(* ---------- guarded 1/n ---------- *)
Lemma inv_nat_nonneg n : 0 <= @ndiv R NumR n1 (nofnat n).
Proof.
  rewrite nofnat_R. numR. unfold Rdivg. destruct (Req_EM_T (INR n) 0); [lra|].
  unfold Rdiv. rewrite Rmult_1_l. left. apply Rinv_0_lt_compat.
  pose proof (pos_INR n). lra.
Qed.
Lemma inv_nat_mul n : INR n * @ndiv R NumR n1 (nofnat n) = if Nat.eqb n 0 then 0 else 1.
Proof.
  rewrite nofnat_R. numR. unfold Rdivg. destruct n as [|k].
  - simpl. destruct (Req_EM_T 0 0); lra.
  - cbn [Nat.eqb]. assert (INR (S k) <> 0) by (apply not_0_INR; lia).
    destruct (Req_EM_T (INR (S k)) 0); [contradiction|]. field. auto.
Qed.
Lemma inv_nat_pos n : (n > 0)%nat -> @ndiv R NumR n1 (nofnat n) = 1 / INR n.
Proof.
  intros Hn. rewrite nofnat_R. numR. apply Rdivg_nz. apply not_0_INR. lia.
Qed.

Section Theory.
Variable m : mdp R.
Variable q0 : nat -> nat -> R.
Variables alpha eps : R.

Notation upd := (upd m alpha).
Notation write := (write m alpha).
Notation q_empty := (q_empty m q0).

(* ---------- table primitives ---------- *)
Lemma q_touch_val (q : qtab R) s : qval (q_touch q s) = qval q.
Proof. unfold q_touch. destruct (memb s (qkeys q)); reflexivity. Qed.
Lemma touch2_val (q : qtab R) e : qval (touch2 q e) = qval q.
Proof. unfold touch2. now rewrite !q_touch_val. Qed.
Lemma q_touch_keys (q : qtab R) s x : In x (qkeys (q_touch q s)) <-> In x (qkeys q) \/ x = s.
Proof.
  unfold q_touch. destruct (memb s (qkeys q)) eqn:E; simpl.
  - apply memb_In in E. split; [auto|]. intros [H| ->]; auto.
  - rewrite in_app_iff. simpl. intuition.
Qed.
Lemma write_val (q : qtab R) e tgt s a :
  qval (write q e tgt) s a =
  if ((s =? st_s e)%nat && (a =? st_a e)%nat)%bool then upd (qval q (st_s e) (st_a e)) (st_r e) tgt
  else qval q s a.
Proof. reflexivity. Qed.
Lemma write_keys (q : qtab R) e tgt : qkeys (write q e tgt) = qkeys q.
Proof. reflexivity. Qed.

(* ================================================================== *)
(* td_interval                                                         *)
(* ================================================================== *)
Record icond (lo hi rmin rmax : R) : Prop := {
  ic_lo0 : lo <= 0; ic_hi0 : 0 <= hi;
  ic_lo : lo <= rmin + gamma m * lo;
  ic_hi : rmax + gamma m * hi <= hi }.

Definition inI (lo hi : R) (q : qtab R) : Prop := forall s a, lo <= qval q s a <= hi.
Definition subprob (d : list (nat * R)) : Prop :=
  (forall ap, In ap d -> 0 <= snd ap) /\ Rsum (map snd d) <= 1.
Definition ev_ok (rmin rmax : R) (ev : event R) : Prop :=
  match ev with EStart _ => True | EStep e => rmin <= st_r e <= rmax /\ subprob (st_dist e) end.

Section Interval.
Variables lo hi rmin rmax : R.
Hypothesis Hal : 0 <= alpha <= 1.
Hypothesis Hg : 0 <= gamma m.
Hypothesis IC : icond lo hi rmin rmax.

(* the one lemma behind all four learners: the target r + gamma*I lies in I and the update is a
   convex combination of the old entry and the target *)
Lemma upd_in qsa r tgt :
  lo <= qsa <= hi -> lo <= tgt <= hi -> rmin <= r <= rmax -> lo <= upd qsa r tgt <= hi.
Proof.
  intros Hq Ht Hr. destruct IC as [L0 H0 L H]. unfold TD.upd. numR.
  set (y := r + gamma m * tgt).
  assert (Y : lo <= y <= hi).
  { unfold y. assert (gamma m * lo <= gamma m * tgt) by (apply Rmult_le_compat_l; lra).
    assert (gamma m * tgt <= gamma m * hi) by (apply Rmult_le_compat_l; lra). lra. }
  replace (qsa + alpha * (y - qsa)) with ((1 - alpha) * qsa + alpha * y) by ring.
  assert (0 <= (1 - alpha) * (qsa - lo)) by (apply Rmult_le_pos; lra).
  assert (0 <= (1 - alpha) * (hi - qsa)) by (apply Rmult_le_pos; lra).
  assert (0 <= alpha * (y - lo)) by (apply Rmult_le_pos; lra).
  assert (0 <= alpha * (hi - y)) by (apply Rmult_le_pos; lra).
  lra.
Qed.

Lemma write_in q e tgt :
  inI lo hi q -> lo <= tgt <= hi -> rmin <= st_r e <= rmax -> inI lo hi (write q e tgt).
Proof.
  intros Hq Ht Hr s a. rewrite write_val. destruct (_ && _)%bool; [|apply Hq].
  apply upd_in; auto.
Qed.
Lemma touch2_in q e : inI lo hi q -> inI lo hi (touch2 q e).
Proof. intros H s a. rewrite touch2_val. apply H. Qed.

(* the four kinds of target *)
Lemma ql_target_in q ns : inI lo hi q -> lo <= ql_target m q ns <= hi.
Proof.
  intros H. unfold ql_target. destruct IC as [L0 H0 _ _]. apply maxl_range; [lra|].
  intros x Hx. unfold q_row in Hx. apply in_map_iff in Hx as (a & <- & _). apply H.
Qed.
Lemma exp_target_in q ns d : inI lo hi q -> subprob d -> lo <= exp_target q ns d <= hi.
Proof.
  intros H [Hp Hs]. unfold exp_target. rewrite suml_R. numR.
  destruct (Rsum_weighted_bounds (fun ap : nat * R => qval q ns (fst ap)) snd lo hi d Hp) as [B1 B2].
  { intros; apply H. }
  destruct IC as [L0 H0 _ _].
  assert (S0 : 0 <= Rsum (map snd d)).
  { apply Rsum_nonneg. intros x Hx. apply in_map_iff in Hx as (ap & <- & Hin). auto. }
  assert (lo <= lo * Rsum (map snd d)) by nra.
  assert (hi * Rsum (map snd d) <= hi) by nra.
  lra.
Qed.

Lemma count_filter_map {A B} (f : A -> B) (p : B -> bool) (l : list A) :
  length (filter p (map f l)) = length (filter (fun x => p (f x)) l).
Proof. induction l as [|x l IH]; [reflexivity|]. simpl. destruct (p (f x)); simpl; congruence. Qed.

(* the epsilon-greedy behaviour distribution is a distribution *)
Lemma eg_prob_nonneg row v : 0 <= eps <= 1 -> 0 <= eg_prob eps row v.
Proof.
  intros He. unfold eg_prob.
  pose proof (inv_nat_nonneg (length row)) as A. pose proof (inv_nat_nonneg (nmaxim row)) as B.
  numR.
  assert (0 <= Rdivg 1 (nofnat (length row)) * eps) by (apply Rmult_le_pos; [exact A|lra]).
  destruct (is_max row v).
  - assert (0 <= Rdivg 1 (nofnat (nmaxim row)) * (1 - eps)) by (apply Rmult_le_pos; [exact B|lra]).
    lra.
  - lra.
Qed.
Lemma eg_dist_sum q ns :
  Rsum (map snd (eg_dist m eps q ns)) =
  (if Nat.eqb (length (acts m ns)) 0 then 0 else 1) * eps +
  (if Nat.eqb (nmaxim (q_row m q ns)) 0 then 0 else 1) * (1 - eps).
Proof.
  unfold eg_dist. rewrite map_map. cbn [snd]. unfold eg_prob. numR.
  rewrite (Rsum_map_plus (fun _ : nat => Rdivg 1 (nofnat (length (q_row m q ns))) * eps)
             (fun a => if is_max (q_row m q ns) (qval q ns a)
                       then Rdivg 1 (nofnat (nmaxim (q_row m q ns))) * (1 - eps) else 0)).
  rewrite Rsum_map_const, (Rsum_map_ind (fun a => is_max (q_row m q ns) (qval q ns a))).
  assert (E1 : length (q_row m q ns) = length (acts m ns)) by (unfold q_row; apply map_length).
  assert (E2 : length (filter (fun a => is_max (q_row m q ns) (qval q ns a)) (acts m ns)) = nmaxim (q_row m q ns)).
  { unfold nmaxim at 1. unfold q_row at 3. now rewrite count_filter_map. }
  rewrite E2, E1. rewrite <- !Rmult_assoc, !inv_nat_mul. reflexivity.
Qed.
Lemma nmaxim_pos (row : list R) : row <> [] -> (nmaxim row > 0)%nat.
Proof.
  intros Hne. unfold nmaxim. pose proof (maxl_in row Hne) as Hin.
  assert (Hf : In (maxl row) (filter (is_max row) row)).
  { apply filter_In. split; [auto|]. unfold is_max. now apply td_neqb_eq. }
  destruct (filter (is_max row) row); [destruct Hf|simpl; lia].
Qed.
Lemma eg_dist_subprob q ns : 0 <= eps <= 1 -> subprob (eg_dist m eps q ns).
Proof.
  intros He. split.
  - intros ap Hin. unfold eg_dist in Hin. apply in_map_iff in Hin as (a & <- & _). cbn [snd].
    now apply eg_prob_nonneg.
  - rewrite eg_dist_sum. destruct (Nat.eqb _ 0); destruct (Nat.eqb _ 0); lra.
Qed.
Lemma eg_dist_normalised q ns :
  acts m ns <> [] -> Rsum (map snd (eg_dist m eps q ns)) = 1.
Proof.
  intros Hne. rewrite eg_dist_sum.
  assert (Hrow : q_row m q ns <> []).
  { unfold q_row. destruct (acts m ns); [congruence|discriminate]. }
  pose proof (nmaxim_pos _ Hrow) as Hk.
  destruct (length (acts m ns)) eqn:E1; [destruct (acts m ns); [congruence|discriminate]|].
  destruct (nmaxim (q_row m q ns)) eqn:E2; [lia|]. cbn [Nat.eqb]. lra.
Qed.

(* each learner's step keeps every entry inside the interval *)
Lemma ql_step_in q e : inI lo hi q -> rmin <= st_r e <= rmax -> inI lo hi (ql_step m alpha q e).
Proof.
  intros H Hr. unfold ql_step. apply write_in; auto using touch2_in.
  apply ql_target_in. now apply touch2_in.
Qed.
Lemma sarsa_step_in q e : inI lo hi q -> rmin <= st_r e <= rmax -> inI lo hi (sarsa_step m alpha q e).
Proof.
  intros H Hr. unfold sarsa_step. apply write_in; auto using touch2_in. apply touch2_in. exact H.
Qed.
Lemma esarsa_step_in q e :
  0 <= eps <= 1 -> inI lo hi q -> rmin <= st_r e <= rmax -> inI lo hi (esarsa_step m alpha eps q e).
Proof.
  intros He H Hr. unfold esarsa_step. apply write_in; auto using touch2_in.
  apply exp_target_in; [now apply touch2_in|now apply eg_dist_subprob].
Qed.
Lemma esarsag_step_in q e :
  inI lo hi q -> rmin <= st_r e <= rmax -> subprob (st_dist e) -> inI lo hi (esarsag_step m alpha q e).
Proof.
  intros H Hr Hd. unfold esarsag_step. apply write_in; auto using touch2_in.
  apply exp_target_in; [now apply touch2_in|auto].
Qed.
Lemma dq_step_in qq e :
  inI lo hi (fst qq) /\ inI lo hi (snd qq) -> rmin <= st_r e <= rmax ->
  inI lo hi (fst (dq_step m alpha qq e)) /\ inI lo hi (snd (dq_step m alpha qq e)).
Proof.
  intros [Ha Hb] Hr. unfold dq_step. destruct (st_coin e); cbn [fst snd]; split;
    auto using touch2_in; apply write_in; auto using touch2_in; apply touch2_in; auto.
Qed.
Lemma dq_mean_in qq : inI lo hi (fst qq) -> inI lo hi (snd qq) -> inI lo hi (dq_mean qq).
Proof.
  intros Ha Hb s a. unfold dq_mean. cbn [qval]. unfold half. numR.
  assert (E : Rdivg 1 (1 + 1) = / 2).
  { rewrite Rdivg_nz; lra. }
  rewrite E. specialize (Ha s a). specialize (Hb s a). lra.
Qed.

Lemma q_empty_in q_lo q_hi :
  lo <= q_lo -> q_hi <= hi -> (forall s a, absflag m s = false -> q_lo <= q0 s a <= q_hi) -> inI lo hi q_empty.
Proof.
  intros H1 H2 H s a. cbn [TD.q_empty qval]. unfold q_init_val. destruct IC as [L0 H0 _ _].
  destruct (absflag m s) eqn:E; [numR; lra|]. specialize (H s a E). lra.
Qed.

Lemma fold_inv {S E} (f : S -> E -> S) (Pst : S -> Prop) (Pev : E -> Prop) evs st :
  (forall st ev, Pst st -> Pev ev -> Pst (f st ev)) -> Forall Pev evs -> Pst st ->
  Pst (fold_left f evs st).
Proof.
  intros Hstep Hevs. revert st. induction Hevs as [|ev evs Hev _ IH]; intros st Hst; [auto|].
  simpl. apply IH. now apply Hstep.
Qed.

Lemma dq_train_in q_lo q_hi evs :
  lo <= q_lo -> q_hi <= hi -> (forall s a, absflag m s = false -> q_lo <= q0 s a <= q_hi) ->
  Forall (ev_ok rmin rmax) evs ->
  inI lo hi (fst (dq_train m q0 alpha evs)) /\ inI lo hi (snd (dq_train m q0 alpha evs)).
Proof.
  intros H1 H2 H0 Hev. unfold dq_train.
  apply (fold_inv _ (fun qq => inI lo hi (fst qq) /\ inI lo hi (snd qq)) (ev_ok rmin rmax)); auto.
  - intros st [s|e] Hst Hok; cbn [on_step]; [auto|]. destruct Hok as [Hr _]. now apply dq_step_in.
  - cbn [fst snd]. split; eapply q_empty_in; eauto.
Qed.

Lemma train_in L q_lo q_hi evs :
  0 <= eps <= 1 -> lo <= q_lo -> q_hi <= hi -> (forall s a, absflag m s = false -> q_lo <= q0 s a <= q_hi) ->
  Forall (ev_ok rmin rmax) evs -> inI lo hi (train m q0 alpha eps L evs).
Proof.
  intros He H1 H2 H0 Hev. pose proof (q_empty_in q_lo q_hi H1 H2 H0) as Hinit.
  destruct L; cbn [train].
  - unfold ql_train. apply (fold_inv _ (inI lo hi) (ev_ok rmin rmax)); auto.
    intros st [s|e] Hst Hok; cbn [on_step]; [auto|]. destruct Hok. now apply ql_step_in.
  - unfold sarsa_train. apply (fold_inv _ (inI lo hi) (ev_ok rmin rmax)); auto.
    intros st [s|e] Hst Hok; cbn [sarsa_event].
    + intros s' a'. rewrite q_touch_val. apply Hst.
    + destruct Hok. now apply sarsa_step_in.
  - unfold esarsa_train. apply (fold_inv _ (inI lo hi) (ev_ok rmin rmax)); auto.
    intros st [s|e] Hst Hok; cbn [on_step]; [auto|]. destruct Hok. now apply esarsa_step_in.
  - unfold esarsag_train. apply (fold_inv _ (inI lo hi) (ev_ok rmin rmax)); auto.
    intros st [s|e] Hst Hok; cbn [on_step]; [auto|]. destruct Hok. now apply esarsag_step_in.
  - destruct (dq_train_in q_lo q_hi evs H1 H2 H0 Hev). now apply dq_mean_in.
Qed.
End Interval.

(* the interval of the property: spanned by the initial values, 0 (absorbing states) and the
   discounted reward bounds *)
Definition Ilo (q_lo rmin : R) : R := Rmin q_lo (Rmin 0 (rmin / (1 - gamma m))).
Definition Ihi (q_hi rmax : R) : R := Rmax q_hi (Rmax 0 (rmax / (1 - gamma m))).

Lemma icond_I q_lo q_hi rmin rmax :
  0 <= gamma m < 1 -> icond (Ilo q_lo rmin) (Ihi q_hi rmax) rmin rmax.
Proof.
  intros [G0 G1]. unfold Ilo, Ihi.
  set (lo := Rmin q_lo (Rmin 0 (rmin / (1 - gamma m)))).
  set (hi := Rmax q_hi (Rmax 0 (rmax / (1 - gamma m)))).
  assert (L0 : lo <= 0) by (unfold lo; eapply Rle_trans; [apply Rmin_r|apply Rmin_l]).
  assert (L1 : lo <= rmin / (1 - gamma m)) by (unfold lo; eapply Rle_trans; [apply Rmin_r|apply Rmin_r]).
  assert (H0 : 0 <= hi) by (unfold hi; eapply Rle_trans; [|apply Rmax_r]; apply Rmax_l).
  assert (H1 : rmax / (1 - gamma m) <= hi) by (unfold hi; eapply Rle_trans; [|apply Rmax_r]; apply Rmax_r).
  assert (D : 0 < 1 - gamma m) by lra.
  assert (L2 : lo * (1 - gamma m) <= rmin).
  { apply (Rmult_le_compat_r (1 - gamma m)) in L1; [|lra].
    replace (rmin / (1 - gamma m) * (1 - gamma m)) with rmin in L1 by (field; lra). exact L1. }
  assert (H2 : rmax <= hi * (1 - gamma m)).
  { apply (Rmult_le_compat_r (1 - gamma m)) in H1; [|lra].
    replace (rmax / (1 - gamma m) * (1 - gamma m)) with rmax in H1 by (field; lra). exact H1. }
  constructor; auto; lra.
Qed.

Theorem td_interval L q_lo q_hi rmin rmax evs :
  0 <= alpha <= 1 -> 0 <= eps <= 1 -> 0 <= gamma m < 1 ->
  (forall s a, absflag m s = false -> q_lo <= q0 s a <= q_hi) -> Forall (ev_ok rmin rmax) evs ->
  forall s a, Ilo q_lo rmin <= qval (train m q0 alpha eps L evs) s a <= Ihi q_hi rmax.
Proof.
  intros Hal He Hg H0 Hev.
  apply (train_in (Ilo q_lo rmin) (Ihi q_hi rmax) rmin rmax Hal (proj1 Hg) (icond_I _ _ _ _ Hg) L q_lo q_hi);
    auto; [apply Rmin_l|apply Rmax_l].
Qed.

(* double Q: the two tables themselves (not only their returned mean) stay in the interval *)
Theorem td_interval_double q_lo q_hi rmin rmax evs :
  0 <= alpha <= 1 -> 0 <= gamma m < 1 ->
  (forall s a, absflag m s = false -> q_lo <= q0 s a <= q_hi) -> Forall (ev_ok rmin rmax) evs ->
  forall s a,
    Ilo q_lo rmin <= qval (fst (dq_train m q0 alpha evs)) s a <= Ihi q_hi rmax /\
    Ilo q_lo rmin <= qval (snd (dq_train m q0 alpha evs)) s a <= Ihi q_hi rmax.
Proof.
  intros Hal Hg H0 Hev s a.
  destruct (dq_train_in (Ilo q_lo rmin) (Ihi q_hi rmax) rmin rmax Hal (proj1 Hg) (icond_I _ _ _ _ Hg)
              q_lo q_hi evs) as [A B]; auto; [apply Rmin_l|apply Rmax_l].
Qed.

(* ================================================================== *)
(* td_absorbing_fixed                                                  *)
(* ================================================================== *)
Definition abs0 (q : qtab R) : Prop := forall s a, absflag m s = true -> qval q s a = 0.

Lemma valid_step_nonabs e : valid_step m e = true -> absflag m (st_s e) = false.
Proof.
  unfold valid_step. rewrite !andb_true_iff. intros [[[[_ H] _] _] _].
  now apply negb_true_iff in H.
Qed.
Lemma write_abs0 q e tgt : abs0 q -> absflag m (st_s e) = false -> abs0 (write q e tgt).
Proof.
  intros H Hn s a Hs. rewrite write_val. destruct (Nat.eqb_spec s (st_s e)) as [->|]; [congruence|].
  cbn [andb]. now apply H.
Qed.
Lemma touch2_abs0 q e : abs0 q -> abs0 (touch2 q e).
Proof. intros H s a. rewrite touch2_val. apply H. Qed.
Lemma q_empty_abs0 : abs0 q_empty.
Proof. intros s a Hs. cbn [TD.q_empty qval]. unfold q_init_val. now rewrite Hs. Qed.

Lemma valid_Forall evs : valid_experience m evs = true -> Forall (fun ev => valid_event m ev = true) evs.
Proof. unfold valid_experience. rewrite forallb_forall. apply Forall_forall. Qed.

Lemma dq_train_abs0 evs :
  valid_experience m evs = true ->
  abs0 (fst (dq_train m q0 alpha evs)) /\ abs0 (snd (dq_train m q0 alpha evs)).
Proof.
  intros Hv. apply valid_Forall in Hv. unfold dq_train.
  apply (fold_inv _ (fun qq => abs0 (fst qq) /\ abs0 (snd qq)) _ evs _ ) with (2 := Hv).
  - intros st [s|e] [Ha Hb] Hok; cbn [on_step]; [auto|]. cbn [valid_event] in Hok.
    apply valid_step_nonabs in Hok. unfold dq_step. destruct (st_coin e); cbn [fst snd]; split;
      auto using touch2_abs0, write_abs0.
  - cbn [fst snd]. split; apply q_empty_abs0.
Qed.

Theorem td_absorbing_fixed L evs :
  valid_experience m evs = true ->
  forall s a, absflag m s = true -> qval (train m q0 alpha eps L evs) s a = 0.
Proof.
  intros Hv. pose proof (valid_Forall _ Hv) as Hf. change (abs0 (train m q0 alpha eps L evs)).
  destruct L; cbn [train].
  - unfold ql_train. apply (fold_inv _ abs0 _ evs _) with (2 := Hf); [|apply q_empty_abs0].
    intros st [s|e] Hst Hok; cbn [on_step]; [auto|]. apply valid_step_nonabs in Hok.
    unfold ql_step. auto using touch2_abs0, write_abs0.
  - unfold sarsa_train. apply (fold_inv _ abs0 _ evs _) with (2 := Hf); [|apply q_empty_abs0].
    intros st [s|e] Hst Hok; cbn [sarsa_event].
    + intros s' a'. rewrite q_touch_val. apply Hst.
    + apply valid_step_nonabs in Hok. unfold sarsa_step. auto using touch2_abs0, write_abs0.
  - unfold esarsa_train. apply (fold_inv _ abs0 _ evs _) with (2 := Hf); [|apply q_empty_abs0].
    intros st [s|e] Hst Hok; cbn [on_step]; [auto|]. apply valid_step_nonabs in Hok.
    unfold esarsa_step. auto using touch2_abs0, write_abs0.
  - unfold esarsag_train. apply (fold_inv _ abs0 _ evs _) with (2 := Hf); [|apply q_empty_abs0].
    intros st [s|e] Hst Hok; cbn [on_step]; [auto|]. apply valid_step_nonabs in Hok.
    unfold esarsag_step. auto using touch2_abs0, write_abs0.
  - destruct (dq_train_abs0 evs Hv) as [Ha Hb]. intros s a Hs. unfold dq_mean. cbn [qval].
    rewrite (Ha s a Hs), (Hb s a Hs). numR. lra.
Qed.

(* what valid_experience says, clause by clause *)
Theorem valid_experience_spec evs e :
  valid_experience m evs = true -> In (EStep e) evs ->
  (st_s e < nS m)%nat /\ (st_ns e < nS m)%nat /\ (st_a e < nA m)%nat /\
  absflag m (st_s e) = false /\ avail m (st_s e) (st_a e) = true /\
  0 < P m (st_s e) (st_a e) (st_ns e) /\ st_r e = Rw m (st_s e) (st_a e) (st_ns e).
Proof.
  intros Hv Hin. unfold valid_experience in Hv. rewrite forallb_forall in Hv.
  specialize (Hv _ Hin). cbn [valid_event] in Hv. unfold valid_step in Hv.
  rewrite !andb_true_iff in Hv. destruct Hv as [[[[[[H1 H2] H3] H4] H5] H6] H7].
  apply Nat.ltb_lt in H1, H2, H3. apply negb_true_iff in H4. apply nltb_R in H6.
  apply td_neqb_eq in H7. numR. auto 10.
Qed.

(* the model's own generator only produces valid experience, whatever the choice stream *)
Theorem td_valid_experience s choices : valid_experience m (run_episode m s choices) = true.
Proof.
  revert s. induction choices as [|[a ns] r IH]; intros s; [reflexivity|].
  cbn [run_episode]. destruct (_ && _)%bool eqn:E; [|reflexivity].
  cbn [valid_experience forallb valid_event]. fold (valid_experience m (run_episode m ns r)).
  rewrite IH, andb_true_r. unfold valid_step. cbn [st_s st_a st_r st_ns].
  rewrite E. cbn [andb]. apply td_neqb_eq. reflexivity.
Qed.

(* ================================================================== *)
(* the update rules, as equations                                      *)
(* ================================================================== *)
Definition td_update (qsa r tgt : R) : R := qsa + alpha * (r + gamma m * tgt - qsa).
Lemma upd_R qsa r tgt : upd qsa r tgt = td_update qsa r tgt.
Proof. reflexivity. Qed.

(* every step changes exactly the entry (s, a), by the update rule with the learner's target *)
Theorem ql_step_def q e s a :
  qval (ql_step m alpha q e) s a =
  if ((s =? st_s e)%nat && (a =? st_a e)%nat)%bool
  then td_update (qval q (st_s e) (st_a e)) (st_r e) (maxl (map (qval q (st_ns e)) (acts m (st_ns e))))
  else qval q s a.
Proof. unfold ql_step. rewrite write_val, touch2_val. unfold ql_target, q_row. now rewrite touch2_val. Qed.
Theorem sarsa_step_def q e s a :
  qval (sarsa_step m alpha q e) s a =
  if ((s =? st_s e)%nat && (a =? st_a e)%nat)%bool
  then td_update (qval q (st_s e) (st_a e)) (st_r e) (qval q (st_ns e) (st_na e))
  else qval q s a.
Proof. unfold sarsa_step. now rewrite write_val, touch2_val. Qed.

(* expected SARSA: the target is the expectation of Q(ns, .) under the epsilon-greedy behaviour
   distribution pi, which is a probability distribution on the available actions *)
Definition eg_pi (q : qtab R) (ns a : nat) : R := eg_prob eps (q_row m q ns) (qval q ns a).
Theorem exp_sarsa_target_def q e :
  (forall s a, qval (esarsa_step m alpha eps q e) s a =
     if ((s =? st_s e)%nat && (a =? st_a e)%nat)%bool
     then td_update (qval q (st_s e) (st_a e)) (st_r e)
            (Rsum (map (fun b => qval q (st_ns e) b * eg_pi q (st_ns e) b) (acts m (st_ns e))))
     else qval q s a) /\
  (forall b, eg_pi q (st_ns e) b =
     @ndiv R NumR 1 (INR (length (acts m (st_ns e)))) * eps +
     (if is_max (q_row m q (st_ns e)) (qval q (st_ns e) b)
      then @ndiv R NumR 1 (INR (nmaxim (q_row m q (st_ns e)))) * (1 - eps) else 0)) /\
  (0 <= eps <= 1 -> forall b, 0 <= eg_pi q (st_ns e) b) /\
  (acts m (st_ns e) <> [] -> Rsum (map (eg_pi q (st_ns e)) (acts m (st_ns e))) = 1).
Proof.
  split; [|split; [|split]].
  - intros s a. unfold esarsa_step. rewrite write_val, touch2_val.
    destruct (_ && _)%bool; [|reflexivity].
    unfold exp_target, eg_dist. rewrite suml_R, map_map. cbn [fst snd]. numR.
    match goal with |- TD.upd _ _ _ _ ?x = td_update _ _ ?y => replace x with y; [reflexivity|] end.
    apply Rsum_map_ext. intros b _. unfold eg_pi, q_row. now rewrite !touch2_val.
  - intros b. unfold eg_pi, eg_prob. rewrite !nofnat_R. unfold q_row at 1. rewrite map_length. reflexivity.
  - intros He b. unfold eg_pi. now apply eg_prob_nonneg.
  - intros Hne. pose proof (eg_dist_normalised q (st_ns e) Hne) as H.
    unfold eg_dist in H. rewrite map_map in H. exact H.
Qed.

Theorem esarsag_step_def q e s a :
  qval (esarsag_step m alpha q e) s a =
  if ((s =? st_s e)%nat && (a =? st_a e)%nat)%bool
  then td_update (qval q (st_s e) (st_a e)) (st_r e)
         (Rsum (map (fun ap => qval q (st_ns e) (fst ap) * snd ap) (st_dist e)))
  else qval q s a.
Proof.
  unfold esarsag_step. rewrite write_val, touch2_val. destruct (_ && _)%bool; [|reflexivity].
  unfold exp_target. rewrite suml_R. now rewrite touch2_val.
Qed.

(* double Q: the coin selects the table that is updated, its argmax pick is evaluated in the
   OTHER table, and the returned table is the mean of the two over the union of their keys *)
Theorem double_q_mean qq e :
  (forall s a,
     qval (fst (dq_step m alpha qq e)) s a =
       (if (st_coin e && (s =? st_s e)%nat && (a =? st_a e)%nat)%bool
        then td_update (qval (fst qq) (st_s e) (st_a e)) (st_r e) (qval (snd qq) (st_ns e) (st_pick e))
        else qval (fst qq) s a) /\
     qval (snd (dq_step m alpha qq e)) s a =
       (if (negb (st_coin e) && (s =? st_s e)%nat && (a =? st_a e)%nat)%bool
        then td_update (qval (snd qq) (st_s e) (st_a e)) (st_r e) (qval (fst qq) (st_ns e) (st_pick e))
        else qval (snd qq) s a)) /\
  (forall s a, qval (dq_mean qq) s a = (qval (fst qq) s a + qval (snd qq) s a) / 2) /\
  (forall s, In s (qkeys (dq_mean qq)) <-> In s (qkeys (fst qq)) \/ In s (qkeys (snd qq))).
Proof.
  split; [|split].
  - intros s a. unfold dq_step. destruct (st_coin e); cbn [fst snd andb negb];
      rewrite ?write_val, ?touch2_val; auto.
  - intros s a. unfold dq_mean. cbn [qval]. unfold half. numR.
    assert (E : Rdivg 1 (1 + 1) = / 2) by (rewrite Rdivg_nz; lra). rewrite E. lra.
  - intros s. unfold dq_mean. cbn [qkeys]. rewrite in_app_iff, filter_In, negb_true_iff, memb_false.
    destruct (in_dec Nat.eq_dec s (qkeys (fst qq))); tauto.
Qed.

(* the pick test of the harness: an available action maximising the updated table's row *)
Theorem dq_pick_ok_spec qq e :
  dq_pick_ok m qq e = true ->
  let qsel := if st_coin e then fst qq else snd qq in
  In (st_pick e) (acts m (st_ns e)) /\
  forall b, In b (acts m (st_ns e)) -> qval qsel (st_ns e) b <= qval qsel (st_ns e) (st_pick e).
Proof.
  unfold dq_pick_ok. rewrite andb_true_iff. intros [H1 H2]. apply memb_In in H1.
  split; [exact H1|]. intros b Hb. unfold is_max in H2. apply td_neqb_eq in H2. rewrite H2.
  apply maxl_ge. unfold q_row. now apply in_map.
Qed.

(* ================================================================== *)
(* lazily initialised key set                                          *)
(* ================================================================== *)
(* a step makes exactly its two states present (reads count), nothing is ever removed *)
Theorem step_keys q e x :
  (In x (qkeys (ql_step m alpha q e)) <-> In x (qkeys q) \/ x = st_s e \/ x = st_ns e) /\
  (In x (qkeys (sarsa_step m alpha q e)) <-> In x (qkeys q) \/ x = st_s e \/ x = st_ns e) /\
  (In x (qkeys (esarsa_step m alpha eps q e)) <-> In x (qkeys q) \/ x = st_s e \/ x = st_ns e).
Proof.
  unfold ql_step, sarsa_step, esarsa_step. rewrite !write_keys. unfold touch2.
  rewrite !q_touch_keys. tauto.
Qed.

(* ================================================================== *)
(* td_policy                                                           *)
(* ================================================================== *)
Definition maximal (q : qtab R) (s a : nat) : Prop :=
  In a (acts m s) /\ forall b, In b (acts m s) -> qval q s b <= qval q s a.
Definition n_maximal (q : qtab R) (s : nat) : nat :=
  length (filter (fun b => is_max (q_row m q s) (qval q s b)) (acts m s)).

Lemma is_max_maximal q s a :
  In a (acts m s) -> (is_max (q_row m q s) (qval q s a) = true <-> maximal q s a).
Proof.
  intros Ha. unfold is_max. rewrite td_neqb_eq. split.
  - intros E. split; [auto|]. intros b Hb. rewrite E. apply maxl_ge. unfold q_row. now apply in_map.
  - intros [_ Hmax]. apply Rle_antisym.
    + apply maxl_ge. unfold q_row. now apply in_map.
    + assert (Hne : q_row m q s <> []).
      { unfold q_row. destruct (acts m s); [destruct Ha|discriminate]. }
      pose proof (maxl_in _ Hne) as Hin. unfold q_row in Hin at 2.
      apply in_map_iff in Hin as (b & <- & Hb). auto.
Qed.

Theorem td_policy q s a :
  (In s (qkeys q) ->
     (maximal q s a -> greedy_policy m q s a = 1 / INR (n_maximal q s) /\ (n_maximal q s > 0)%nat) /\
     (~ maximal q s a -> greedy_policy m q s a = 0)) /\
  (~ In s (qkeys q) ->
     (In a (acts m s) -> greedy_policy m q s a = 1 / INR (length (acts m s))) /\
     (~ In a (acts m s) -> greedy_policy m q s a = 0)) /\
  (acts m s <> [] -> Rsum (map (greedy_policy m q s) (acts m s)) = 1).
Proof.
  assert (Ecount : nmaxim (q_row m q s) = n_maximal q s).
  { unfold nmaxim, n_maximal. unfold q_row at 2. now rewrite count_filter_map. }
  split; [|split].
  - intros Hs. apply memb_In in Hs. split.
    + intros Hmax. pose proof Hmax as [Ha _]. unfold greedy_policy.
      apply memb_In in Ha as Ha'. rewrite Ha', Hs.
      apply (is_max_maximal q s a Ha) in Hmax. rewrite Hmax.
      assert (Hpos : (n_maximal q s > 0)%nat).
      { rewrite <- Ecount. apply nmaxim_pos. unfold q_row. destruct (acts m s); [destruct Ha|discriminate]. }
      split; [|exact Hpos]. rewrite Ecount. now apply inv_nat_pos.
    + intros Hn. unfold greedy_policy. destruct (memb a (acts m s)) eqn:Ea; [|reflexivity].
      rewrite Hs. apply memb_In in Ea.
      destruct (is_max (q_row m q s) (qval q s a)) eqn:E; [|reflexivity].
      apply (is_max_maximal q s a Ea) in E. contradiction.
  - intros Hs. apply memb_false in Hs. split.
    + intros Ha. unfold greedy_policy. apply memb_In in Ha as Ha'. rewrite Ha', Hs.
      apply inv_nat_pos. destruct (acts m s); [destruct Ha|simpl; lia].
    + intros Ha. unfold greedy_policy. apply memb_false in Ha. now rewrite Ha.
  - intros Hne. unfold greedy_policy.
    rewrite (Rsum_map_ext _ (fun a => if memb s (qkeys q)
                 then (if is_max (q_row m q s) (qval q s a) then @ndiv R NumR n1 (nofnat (nmaxim (q_row m q s))) else 0)
                 else @ndiv R NumR n1 (nofnat (length (acts m s))))).
    2:{ intros x Hx. apply memb_In in Hx. now rewrite Hx. }
    destruct (memb s (qkeys q)).
    + rewrite (Rsum_map_ind (fun a => is_max (q_row m q s) (qval q s a))).
      fold (n_maximal q s). rewrite Ecount, inv_nat_mul.
      assert (Hpos : (n_maximal q s > 0)%nat).
      { rewrite <- Ecount. apply nmaxim_pos. unfold q_row. destruct (acts m s); [congruence|discriminate]. }
      destruct (n_maximal q s); [lia|reflexivity].
    + rewrite Rsum_map_const, inv_nat_mul. destruct (acts m s); [congruence|reflexivity].
Qed.

(* ================================================================== *)
(* what the comparison booleans of the correspondence check mean       *)
(* ================================================================== *)
Lemma relclose_spec tol x y :
  @relclose R NumR tol x y = true <-> Rabs (x - y) <= tol * (1 + Rabs y).
Proof. unfold relclose. rewrite !nabs_R. numR. apply Rleb_true. Qed.

Lemma absrelclose_spec tol atol x y :
  @absrelclose R NumR tol atol x y = true <-> Rabs (x - y) <= tol * (1 + Rabs y) + atol.
Proof. unfold absrelclose. rewrite !nabs_R. numR. apply Rleb_true. Qed.

Lemma keys_same_ordered k1 k2 : keys_same true k1 k2 = true -> k1 = k2.
Proof.
  unfold keys_same. rewrite andb_true_iff. intros [H L]. apply Nat.eqb_eq in L.
  revert k2 H L. induction k1 as [|x k1 IH]; intros [|y k2] H L; simpl in *; try discriminate; auto.
  apply andb_true_iff in H as [E H]. apply Nat.eqb_eq in E. f_equal; auto.
Qed.
Lemma keys_same_set k1 k2 : keys_same false k1 k2 = true -> forall s, In s k1 <-> In s k2.
Proof.
  unfold keys_same. rewrite !andb_true_iff, !forallb_forall. intros [[H1 H2] _] s. split; intros H.
  - apply memb_In. now apply H1.
  - apply memb_In. now apply H2.
Qed.

Lemma table_close_spec tol atol (q : qtab R) (iq : nat -> nat -> R) :
  table_close m tol atol q iq = true ->
  forall s a, In s (qkeys q) -> In a (acts m s) ->
    Rabs (iq s a - qval q s a) <= tol * (1 + Rabs (qval q s a)) + atol.
Proof.
  unfold table_close. rewrite forallb_forall. intros H s a Hs Ha.
  specialize (H s Hs). rewrite forallb_forall in H. specialize (H a Ha). now apply absrelclose_spec.
Qed.
Lemma policy_close_spec tol (q : qtab R) (ipol : nat -> nat -> R) :
  policy_close m tol q ipol = true ->
  forall s a, (s < nS m)%nat -> (a < nA m)%nat ->
    Rabs (ipol s a - greedy_policy m q s a) <= tol * (1 + Rabs (greedy_policy m q s a)).
Proof.
  unfold policy_close. rewrite forallbn_spec. intros H s a Hs Ha. specialize (H s Hs).
  rewrite forallbn_spec in H. specialize (H a Ha). now apply relclose_spec.
Qed.

End Theory.
