#!/bin/sh
# usage: coq/build.sh [make targets...]   (default target: all)
# Regenerates _CoqProject/Makefile from the .v files present (never cases under
# work/), then runs a full .vo build (no -vos) under a shell timeout.
cd "$(dirname "$0")" || exit 2
(
  flock -w 120 9
  {
    echo "-Q . MSDM"
    echo "-arg -w -arg -notation-overridden,-deprecated-hint-without-locality,-deprecated-instance-without-locality,-large-nat,-ambiguous-paths,-deprecated-hint-rewrite-without-locality,-redundant-canonical-projection,-projection-no-head-constant,-uniform-inheritance"
    find base model theory props gen -name '*.v' 2>/dev/null | LC_ALL=C sort
  } > _CoqProject.new
  if ! cmp -s _CoqProject.new _CoqProject || [ ! -f Makefile ]; then
    mv _CoqProject.new _CoqProject
    coq_makefile -f _CoqProject -o Makefile >/dev/null
  else
    rm -f _CoqProject.new
  fi
) 9>.build.lock
exec timeout "${COQ_BUILD_TIMEOUT:-1500}" make -j"${COQ_JOBS:-16}" "$@"
