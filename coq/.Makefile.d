base/Num.vo base/Num.glob base/Num.v.beautified base/Num.required_vo: base/Num.v 
base/Num.vio: base/Num.v 
base/Num.vos base/Num.vok base/Num.required_vos: base/Num.v 
base/NumInst.vo base/NumInst.glob base/NumInst.v.beautified base/NumInst.required_vo: base/NumInst.v base/Num.vo
base/NumInst.vio: base/NumInst.v base/Num.vio
base/NumInst.vos base/NumInst.vok base/NumInst.required_vos: base/NumInst.v base/Num.vos
base/Transfer.vo base/Transfer.glob base/Transfer.v.beautified base/Transfer.required_vo: base/Transfer.v base/Num.vo base/NumInst.vo
base/Transfer.vio: base/Transfer.v base/Num.vio base/NumInst.vio
base/Transfer.vos base/Transfer.vok base/Transfer.required_vos: base/Transfer.v base/Num.vos base/NumInst.vos
base/NumR.vo base/NumR.glob base/NumR.v.beautified base/NumR.required_vo: base/NumR.v base/Num.vo base/NumInst.vo
base/NumR.vio: base/NumR.v base/Num.vio base/NumInst.vio
base/NumR.vos base/NumR.vok base/NumR.required_vos: base/NumR.v base/Num.vos base/NumInst.vos
