#!/usr/bin/env python3
"""fills the generated tables of DESIGN.md §0 from claims.json, props/*.v, known_findings.json and seeded/*/meta.json"""
import glob, json, os, re
ROOT = os.path.dirname(os.path.dirname(os.path.abspath(__file__)))
def block(s, name, body):
    a, b = "<!-- BEGIN %s -->" % name, "<!-- END %s -->" % name
    i, j = s.index(a) + len(a), s.index(b)
    return s[:i] + "\n" + body.rstrip() + "\n" + s[j:]
props = [json.loads(l) for l in open(os.path.join(ROOT, "properties.jsonl"))]
claims = json.load(open(os.path.join(ROOT, "harness", "claims.json")))
st = ["| Id | Level | Theorems in `props/` | Technique | Axioms (`Print Assumptions`, union over the theorems) | Quick-tier evidence (last run) |", "|---|---|---|---|---|---|"]
for p in props:
    pid = p["id"]
    pf = os.path.join(ROOT, "coq", "props", pid + ".v")
    n = len(re.findall(r"(?m)^\s*Theorem\s", open(pf).read())) if os.path.exists(pf) else 0
    ev = os.path.join(ROOT, "evidence", pid + ".json")
    evs = ""
    ax = ""
    if os.path.exists(ev):
        e = json.load(open(ev)); c = e["coverage"]
        ax = next((x.split(": ", 1)[1] for x in c.get("trusted_base", []) if x.startswith("axioms reported")), "")
        ax = ax.replace("ClassicalDedekindReals.", "").replace("FunctionalExtensionality.", "").replace("Classical_Prop.", "")
        ax = re.sub(r"(Uint63|PrimInt63)\.[\w.]+(, )?", "", ax).strip(", ") + (" + Uint63 primitives/axioms (bigQ)" if "Uint63" in ax else "")
        evs = "%d evaluations, %d distinct non-trivial, %d/%d obligations, %.0f s" % (c.get("evaluations", 0), c.get("distinct_nontrivial", 0), c.get("discharged", 0), c.get("obligations", 0), e.get("wall_s", 0))
    if pid in claims:
        st.append("| %s | %s | %d | %s | %s | %s |" % (pid, claims[pid][0], n, claims[pid][4], ax, evs))
    else:
        st.append("| %s | not claimed yet | %d | — | %s | %s |" % (pid, n, ax, evs))
kf = json.load(open(os.path.join(ROOT, "known_findings.json")))["findings"]
ft = ["| Property | Status | Signature | What |", "|---|---|---|---|"]
for f in kf:
    ft.append("| %s | %s%s | `%s` | %s |" % (f["property"], f["status"], (" " + f["commit"]) if f.get("commit") else "", f["signature"], f["what"].replace("|", "/")[:400]))
miss = json.load(open(os.path.join(ROOT, "seeded", "initially_missed.json")))
sd = ["| Seeded change | What it does | Result | Signatures reported | Strengthening it prompted |", "|---|---|---|---|---|"]
nc = nt = nout = 0
for d in sorted(glob.glob(os.path.join(ROOT, "seeded", "*", ""))):
    m = json.load(open(os.path.join(d, "meta.json")))
    notes = m.get("breaks", "")
    if not notes.strip() and os.path.exists(os.path.join(d, "notes.md")):
        notes = open(os.path.join(d, "notes.md")).read()
    first = next((l.strip("# ").strip() for l in notes.splitlines() if l.strip() and not l.startswith("```")), "")
    first = re.sub(r"^Change \d+\s*[—-]\s*", "", first)
    sig = m["ran"]["check_result"]["0"]["signatures"][:2]
    nm = os.path.basename(d.rstrip("/"))
    if m.get("ruling"):
        nout += 1
        sd.append("| %s | %s | not a violation (silent, correctly) | | %s |" % (nm, first[:140].replace("|", "/"), m["ruling"].replace("|", "/")[:500]))
        continue
    nt += 1; nc += bool(m["caught_by_check"])
    sd.append("| %s | %s | %s | %s | %s |" % (nm, first[:140].replace("|", "/"), ("caught" if m["caught_by_check"] else "MISSED") + (" (missed by the first version)" if nm in miss else ""), "; ".join("`%s`" % x[:90] for x in sig), miss.get(nm, "")))
sd.append("")
sd.append("%d of %d seeded changes that break a property are caught by the quick tier; %d further seeded changes were judged not to break the property text (see their rows)." % (nc, nt, nout))
# behaviour-preserving changes (the check must stay silent)
bn = ["", "*Behaviour-preserving changes* (fresh sub-agents asked for realistic refactors/optimisations that keep the property true; `harness/try_benign.py`, quick tier, seeds 0 and 1):", "",
      "| Change | Result | Signatures if an alarm was raised |", "|---|---|---|"]
nb = na = 0
for d in sorted(glob.glob(os.path.join(ROOT, "benign", "*", ""))):
    m = json.load(open(os.path.join(d, "meta.json")))
    nb += 1; na += bool(m["check_raised_alarm"])
    sg = sorted({x for v in m["check_result"].values() for x in v["signatures"]})[:3]
    notes = open(os.path.join(d, "notes.md")).read() if os.path.exists(os.path.join(d, "notes.md")) else ""
    bn.append("| %s | %s | %s |" % (os.path.basename(d.rstrip("/")), "ALARM" if m["check_raised_alarm"] else "silent", "; ".join("`%s`" % x[:90] for x in sg) + ((" — " + m["note"]) if m.get("note") else "")))
bn.append("")
bn.append("%d of %d behaviour-preserving changes leave the check silent." % (nb - na, nb))
sd += bn
p = os.path.join(ROOT, "DESIGN.md")
s = open(p).read()
s = block(s, "STATUS", "\n".join(st)); s = block(s, "FINDINGS", "\n".join(ft)); s = block(s, "SEEDED", "\n".join(sd))
open(p, "w").write(s)
print("DESIGN.md tables regenerated: %d/%d seeded caught, %d findings" % (nc, nt, len(kf)))
