"""C19 — entropy-regularised policy iteration converges to the soft Bellman fixed point.

Correspondence.  Generated tensors -> msdm `entropy_regularized_policy_iteration` (directly, or through
the planner wrapper `EntropyRegularizedPolicyIteration.plan_on`) -> for every result that REPORTS
convergence the harness writes a Coq file stating, on the implementation's floats as exact rationals,
the three equations of model/EntReg.v for every state / action:

   E1_at  |q s a - sum_n T s a n (R s a n + gamma v n)| <= eps1
   E2_at  |pi s a - softmax(q/lam + ln pi0) s a| <= atol + rtol * softmax ...        (the isclose band)
   E3_at  |v s - lam ln sum_a pi0 exp(q/lam)| <= lam*KL(pi || softmax) + eps3        (theorem value_gap)

each proved by `interval with (i_prec 80)` after applying the proved shift lemmas
(theory/EntRegTheory.v: E2_at_shift_gen / E3_at_shift_gen) with the shift max_a q s a, so that every
exponent is <= 0.  A goal interval cannot prove = broken correspondence; the same clause is then
evaluated independently with mpmath (60 digits) to decide found=True / found=False.
lambda -> 0 clause: q is compared with the exact optimal action values (Fraction policy iteration)
with the bound PROVED in C19_soft_to_hard_rate, instantiated with the tolerances of the proved goals.
"""
import os
import re
from concurrent.futures import ThreadPoolExecutor
from fractions import Fraction as F

import mpmath

import vlib

INFO = {
    "level": "proof",
    "coq_files": ["model/EntReg.v", "theory/EntRegTheory.v"],
    "trusted_base": [
        "generated goals are instances of model/EntReg.v E1_at / E2_at / E3_at on list-encoded tensors (t1/t2/t3), proved by coq-interval (i_prec 80) and checked by Qed",
        "tolerances: eps1 = 1e-11*scale; isclose band atol 1e-8, rtol 1e-5 (torch defaults) widened by 0.1%; eps3 = lam*KL(pi||softmax) (mpmath, rounded up) + 1e-9*scale; scale = max(1,|v|,|q|,|R|)",
        "mpmath (60 digits) evaluation of the same clauses: used to choose the temperature literal and to classify a goal that interval cannot prove; never to accept a clause",
        "exact optimal values by policy iteration over fractions.Fraction (lambda -> 0 clause)",
    ],
    "assumptions": [
        "generated probabilities / rewards / discount / weights / priors reach Coq as the generator's rationals and msdm as the nearest doubles",
        "a scalar Python-float entropy weight is stored by msdm as torch.tensor([w]) = single precision; when the equations do not hold within the tight tolerances at the given weight but do at its float32 rounding, the goals are stated at that rounding (relative distance <= 2^-24) and the case is counted under temperature_float32",
    ],
}

LAMS = ["1/1000", "1/100", "1/10", "1/2", "1", "2", "10"]
mpmath.mp.dps = 60


# ---------------------------------------------------------------------------
# generator
# ---------------------------------------------------------------------------
def split(rng, k, denom):
    cuts = sorted(rng.sample(range(1, denom), k - 1)) if k > 1 else []
    return [b - a for a, b in zip([0] + cuts, cuts + [denom])]


def gen_mdp(rng):
    nS, nA = rng.randint(2, 6), rng.choice([1, 2, 2, 3, 3, 4, 4])
    T = []
    for s in range(nS):
        rows = []
        for a in range(nA):
            denom = rng.choice([2, 4, 8, 16])
            k = rng.randint(1, min(nS, 3, denom))
            sup = rng.sample(range(nS), k)
            row = ["0"] * nS
            for n, p in zip(sup, split(rng, k, denom)):
                row[n] = str(F(p, denom))
            rows.append(row)
        if nA >= 2 and rng.random() < .15:      # duplicate action rows: exact ties in q
            rows[1] = list(rows[0])
        T.append(rows)
    shape = rng.choice(["full"] * 6 + ["sa1", "11n", "1a1", "s11"])
    dims = {"full": (nS, nA, nS), "sa1": (nS, nA, 1), "11n": (1, 1, nS), "1a1": (1, nA, 1), "s11": (nS, 1, 1)}[shape]
    R = [[[str(rng.randint(-5, 5)) for _ in range(dims[2])] for _ in range(dims[1])] for _ in range(dims[0])]
    if shape == "full" and nA >= 2 and T[0][0] == T[0][1] and rng.random() < .7:
        R[0][1] = list(R[0][0])
    return {"nS": nS, "nA": nA, "T": T, "R": R, "gamma": rng.choice(["1/2", "9/10"])}


def gen_prior(rng, nS, nA):
    r = rng.random()
    if r < .25:
        return None                      # code default: uniform
    rows = 1 if r < .7 else nS

    def row():
        if rng.random() < .2:
            return [str(F(1, nA))] * nA
        return [str(F(p, 16)) for p in split(rng, nA, 16)]
    return [row() for _ in range(rows)]


def gen_cases(rng, ncases):
    cases = []
    while len(cases) < ncases:
        m = gen_mdp(rng)
        r = rng.random()
        if r < .1:
            # lambda ladder on one MDP, uniform prior: the lambda -> 0 clause
            for lam in ["1/10", "1/100", "1/1000"]:
                c = dict(m)
                c.update({"lam": lam, "lam_style": rng.choice(["float", "tensor1"]), "pi0": None,
                          "force_nonzero": rng.random() < .5, "via": "function", "n_iters": 300, "group": "ladder"})
                cases.append(c)
            continue
        c = dict(m)
        if r < .3 and len(m["R"]) == m["nS"] and len(m["R"][0]) == m["nA"] and len(m["R"][0][0]) == m["nS"]:
            c.update({"lam": rng.choice(LAMS), "lam_style": rng.choice(["float", "float", "tensor1"]), "pi0": None,
                      "force_nonzero": True, "via": "planner", "n_iters": 300, "group": "planner"})
            cases.append(c)
            continue
        if rng.random() < .3:
            lam, style = [rng.choice(LAMS) for _ in range(m["nS"])], "per_state"
        else:
            lam = rng.choice(LAMS)
            style = rng.choice(["float", "float", "tensor1"] + (["int"] if F(lam).denominator == 1 else []))
        c.update({"lam": lam, "lam_style": style, "pi0": gen_prior(rng, m["nS"], m["nA"]),
                  "force_nonzero": rng.random() < .5, "via": "function", "n_iters": 300, "group": "general"})
        cases.append(c)
    return cases[:ncases]


# ---------------------------------------------------------------------------
# exact views of a case
# ---------------------------------------------------------------------------
def full_arrays(case):
    nS, nA = case["nS"], case["nA"]
    T = [[[F(x) for x in row] for row in m] for m in case["T"]]
    Rb = case["R"]
    R = [[[F(Rb[s if len(Rb) > 1 else 0][a if len(Rb[0]) > 1 else 0][n if len(Rb[0][0]) > 1 else 0])
           for n in range(nS)] for a in range(nA)] for s in range(nS)]
    if case["pi0"] is None:
        p0 = [[F(1, nA)] * nA for _ in range(nS)]
    else:
        p0 = [[F(x) for x in case["pi0"][s if len(case["pi0"]) > 1 else 0]] for s in range(nS)]
    lam = [F(x) for x in case["lam"]] if isinstance(case["lam"], list) else [F(case["lam"])] * nS
    return T, R, p0, lam, F(case["gamma"])


def f32(x):
    import struct
    return F(struct.unpack("f", struct.pack("f", float(x)))[0])


def mpf(x):
    return mpmath.mpf(x.numerator) / mpmath.mpf(x.denominator)


def soft_parts(p0s, qs, lam):
    """(shift c, softmax list, lse) of one state in 60-digit arithmetic"""
    c = max(qs)
    w = [mpf(p) * mpmath.exp(mpf(q - c) / mpf(lam)) for p, q in zip(p0s, qs)]
    Z = mpmath.fsum(w)
    return c, [x / Z for x in w], mpf(c) + mpf(lam) * mpmath.log(Z), Z


def kl_terms(pis, sm, p0s, qs, lam, c, Z):
    """KL(pi || softmax) with ln softmax taken analytically (softmax may underflow any float)"""
    tot = mpmath.mpf(0)
    for p, p0, q in zip(pis, p0s, qs):
        if p > 0:
            lnsm = mpmath.log(mpf(p0)) + mpf(q - c) / mpf(lam) - mpmath.log(Z)
            tot += mpf(p) * (mpmath.log(mpf(p)) - lnsm)
    return tot


def up(x, digits=30):
    """rational upper bound of a non-negative mpf"""
    if x <= 0:
        return F(0)
    e = int(mpmath.floor(mpmath.log10(x))) - digits
    return F(int(mpmath.ceil(x / mpmath.mpf(10) ** e)) + 1) * F(10) ** e


class Eval:
    """all exact data + tolerances of one converged result"""

    def __init__(self, case, res):
        self.case, self.res = case, res
        self.nS, self.nA = case["nS"], case["nA"]
        self.T, self.R, self.p0, self.lam_given, self.g = full_arrays(case)
        self.q = [[vlib.frac(x) for x in row] for row in res["q"]]
        self.pi = [[vlib.frac(x) for x in row] for row in res["pi"]]
        self.v = [vlib.frac(x) for x in res["v"]]
        self.scale = max([F(1)] + [abs(x) for x in self.v] + [abs(x) for r in self.q for x in r]
                         + [abs(x) for m in self.R for r in m for x in r])
        self.eps1 = F(1, 10**11) * self.scale
        self.slack3 = F(1, 10**9) * self.scale
        self.atol = F(1001, 1000) * F(1, 10**8)
        self.rtol = F(1001, 1000) * F(1, 10**5)
        self.temperature = "given"
        self.set_lam(self.lam_given)
        if case["lam_style"] == "float" and not self.mp_ok():
            l32 = [f32(x) for x in self.lam_given]
            if l32 != self.lam_given:
                self.set_lam(l32)
                if self.mp_ok():
                    self.temperature = "float32"
                else:
                    self.set_lam(self.lam_given)

    def set_lam(self, lam):
        self.lam = lam
        self.c, self.sm, self.lse, self.kl, self.eps3 = [], [], [], [], []
        for s in range(self.nS):
            c, sm, lse, Z = soft_parts(self.p0[s], self.q[s], lam[s])
            kl = kl_terms(self.pi[s], sm, self.p0[s], self.q[s], lam[s], c, Z)
            self.c.append(c)
            self.sm.append(sm)
            self.lse.append(lse)
            self.kl.append(kl)
            self.eps3.append(lam[s] * up(kl) * F(1000001, 1000000) + self.slack3)

    def look(self, v, s, a):
        return sum(self.T[s][a][n] * (self.R[s][a][n] + self.g * v[n]) for n in range(self.nS))

    def mp_failures(self):
        """clauses failing in the independent high-precision evaluation"""
        out = []
        for s in range(self.nS):
            for a in range(self.nA):
                d = abs(self.q[s][a] - self.look(self.v, s, a))
                if d > self.eps1:
                    out.append(("e1", s, a, "action value is not the one-step look-ahead of the state values", float(d), float(self.eps1)))
                d = abs(mpf(self.pi[s][a]) - self.sm[s][a])
                band = mpf(self.atol) + mpf(self.rtol) * self.sm[s][a]
                if d > band:
                    out.append(("e2", s, a, "policy is not the prior-weighted softmax of the action values", float(d), float(band)))
            d = abs(mpf(self.v[s]) - self.lse[s])
            if d > mpf(self.eps3[s]):
                out.append(("e3", s, None, "state value is not the prior-weighted log-sum-exp of the action values", float(d), float(self.eps3[s])))
        return out

    def mp_ok(self):
        return not self.mp_failures()


# ---------------------------------------------------------------------------
# Coq text
# ---------------------------------------------------------------------------
def rl(x):
    x = F(x)
    if x.denominator == 1:
        return "(%d)" % x.numerator
    return "((%d) / %d)" % (x.numerator, x.denominator)


def rlist(xs):
    return "[" + "; ".join(rl(x) for x in xs) + "]"


def rmat(m):
    return "[" + "; ".join(rlist(r) for r in m) + "]"


def rten(t):
    return "[" + "; ".join(rmat(m) for m in t) + "]"


HEADER = """From Coq Require Import Reals List Lra.
From Interval Require Import Tactic.
From MSDM Require Import base.Num base.NumInst model.EntReg theory.EntRegTheory.
Import ListNotations.
Local Open Scope R_scope.
"""


def case_module(idx, ev):
    """-> (text lines, [(lemma name, kind, s, a)])"""
    nS, nA = ev.nS, ev.nA
    L = ["Module K%d." % idx,
         "Definition Tt : list (list (list R)) := %s." % rten(ev.T),
         "Definition Rt : list (list (list R)) := %s." % rten(ev.R),
         "Definition gm : R := %s." % rl(ev.g),
         "Definition lt : list R := %s." % rlist(ev.lam),
         "Definition pt : list (list R) := %s." % rmat(ev.p0),
         "Definition qt : list (list R) := %s." % rmat(ev.q),
         "Definition vt : list R := %s." % rlist(ev.v),
         "Definition it : list (list R) := %s." % rmat(ev.pi),
         "Definition ct : list R := %s." % rlist(ev.c),
         "Ltac ev := cbv [E1_at E2sh_at E3sh_at lookahead softmax_sh lse_sh Zsum_sh sumf nadd n0 NumR t1 t2 t3 nth Tt Rt gm lt pt qt vt it ct].",
         "Ltac iv := ev; interval with (i_prec 80)."]
    goals = []
    for s in range(nS):
        L.append("Lemma l%d : t1 lt %d%%nat <> 0. Proof. ev. lra. Qed." % (s, s))
        L.append("Lemma z%d : 0 < Zsum_sh %d%%nat (t1 lt) (t2 pt) (t1 ct) (t2 qt) %d%%nat. Proof. iv. Qed." % (s, nA, s))
        goals.append(("z%d" % s, "side", s, None))
    for s in range(nS):
        for a in range(nA):
            L.append("Lemma e1_%d_%d : E1_at %d%%nat (t3 Tt) (t3 Rt) gm %s (t1 vt) (t2 qt) %d%%nat %d%%nat. Proof. iv. Qed."
                     % (s, a, nS, rl(ev.eps1), s, a))
            goals.append(("e1_%d_%d" % (s, a), "e1", s, a))
    for s in range(nS):
        for a in range(nA):
            L.append("Lemma e2_%d_%d : E2_at %d%%nat (t1 lt) (t2 pt) %s %s (t2 qt) (t2 it) %d%%nat %d%%nat. "
                     "Proof. apply (E2_at_shift_gen _ _ _ (t1 ct)); [exact l%d|exact z%d|iv]. Qed."
                     % (s, a, nA, rl(ev.atol), rl(ev.rtol), s, a, s, s))
            goals.append(("e2_%d_%d" % (s, a), "e2", s, a))
    for s in range(nS):
        L.append("Lemma e3_%d : E3_at %d%%nat (t1 lt) (t2 pt) %s (t1 vt) (t2 qt) %d%%nat. "
                 "Proof. apply (E3_at_shift_gen _ _ _ (t1 ct)); [exact l%d|exact z%d|iv]. Qed."
                 % (s, nA, rl(ev.eps3[s]), s, s, s))
        goals.append(("e3_%d" % s, "e3", s, None))
    L.append("End K%d." % idx)
    return L, goals


def run_shard(ctx, name, mods):
    """mods: [(idx, lines, goals)].  Compiles all modules in one file.  coqc stops at the first lemma it
    cannot prove: that lemma is recorded for its case (one failing goal condemns the case; the mpmath
    evaluation then lists every failing clause), everything before it is proved, and the modules after
    that case are compiled again.  -> {(idx, lemma): error text}"""
    failed = {}
    todo = list(mods)
    rounds = 0
    while todo:
        rounds += 1
        lines, owner = HEADER.splitlines(), [None] * len(HEADER.splitlines())
        for pos, (idx, L, goals) in enumerate(todo):
            for ln in L:
                m = re.match(r"Lemma (\w+) ", ln)
                owner.append((pos, idx, m.group(1) if m else None))
                lines.append(ln)
        ok, out, err = ctx.coq_script("\n".join(lines) + "\n", name=name, timeout=1200)
        if not ok and not re.search(r"line (\d+), characters", err) and err != "timeout":
            # coqc died without a Coq error (killed under memory pressure): one retry
            ok, out, err = ctx.coq_script("\n".join(lines) + "\n", name=name, timeout=1200)
        if ok:
            break
        m = re.search(r"line (\d+), characters", err)
        if not m or int(m.group(1)) > len(owner) or owner[int(m.group(1)) - 1] is None:
            failed[(None, name)] = (err or out or "coqc failed without output")[-1500:]
            break
        pos, idx, lemma = owner[int(m.group(1)) - 1]
        failed[(idx, lemma or "definitions")] = err[-600:]
        todo = todo[pos + 1:]
    return failed


# ---------------------------------------------------------------------------
# exact optimal values (lambda -> 0 clause)
# ---------------------------------------------------------------------------
def solve_linear(A, b):
    n = len(A)
    M = [row[:] + [b[i]] for i, row in enumerate(A)]
    for c in range(n):
        piv = next((r for r in range(c, n) if M[r][c] != 0), None)
        if piv is None:
            return None
        M[c], M[piv] = M[piv], M[c]
        pv = M[c][c]
        M[c] = [x / pv for x in M[c]]
        for r in range(n):
            if r != c and M[r][c] != 0:
                f = M[r][c]
                M[r] = [x - f * y for x, y in zip(M[r], M[c])]
    return [M[i][n] for i in range(n)]


def exact_qstar(T, R, g):
    nS, nA = len(T), len(T[0])
    r = [[sum(T[s][a][n] * R[s][a][n] for n in range(nS)) for a in range(nA)] for s in range(nS)]
    pol = [0] * nS
    for _ in range(500):
        A = [[(F(1) if i == j else F(0)) - g * T[i][pol[i]][j] for j in range(nS)] for i in range(nS)]
        V = solve_linear(A, [r[s][pol[s]] for s in range(nS)])
        Q = [[r[s][a] + g * sum(T[s][a][n] * V[n] for n in range(nS)) for a in range(nA)] for s in range(nS)]
        new = [pol[s] if Q[s][pol[s]] == max(Q[s]) else max(range(nA), key=lambda a: Q[s][a]) for s in range(nS)]
        if new == pol:
            assert all(V[s] == max(Q[s]) for s in range(nS))
            return Q
        pol = new
    return None


# ---------------------------------------------------------------------------
def run(ctx):
    tier = ctx.tier
    ncases = 40 if tier == "quick" else 400
    if ctx.replay_case:
        cases = [ctx.replay_case["detail"]["case"]]
    else:
        cases = gen_cases(ctx.rng, ncases)
    impl = ctx.impl("c19_impl.py", {"cases": cases}, shards=min(8, ctx.jobs) if tier == "quick" else min(16, ctx.jobs))["results"]

    evals, mods = {}, []
    stats = {"converged": 0, "not_converged": 0, "temperature_given": 0, "temperature_float32": 0,
             "via_planner": 0, "force_nonzero": 0, "per_state_weight": 0, "prior_default": 0, "prior_per_state": 0,
             "reward_broadcast": 0, "clamped_policy_entries": 0, "iterations_max": 0}
    by_lam = {}
    for i, (case, res) in enumerate(zip(cases, impl)):
        if "error" in res:
            ctx.violation("C19:raises:" + res["error"].split(":")[0], {"case": case, "error": res["error"], "trace": res.get("trace")}, found=True)
            continue
        stats["via_planner"] += case["via"] == "planner"
        stats["force_nonzero"] += bool(case["force_nonzero"])
        stats["per_state_weight"] += case["lam_style"] == "per_state"
        stats["prior_default"] += case["pi0"] is None
        stats["prior_per_state"] += case["pi0"] is not None and len(case["pi0"]) > 1
        stats["reward_broadcast"] += not (len(case["R"]) == case["nS"] and len(case["R"][0]) == case["nA"] and len(case["R"][0][0]) == case["nS"])
        stats["iterations_max"] = max(stats["iterations_max"], res["iterations"])
        if not res["converged"]:
            stats["not_converged"] += 1          # the property only speaks about reported convergence
            continue
        stats["converged"] += 1
        flat = [x for row in res["pi"] for x in row] + [x for row in res["q"] for x in row] + list(res["v"])
        if any(isinstance(x, str) for x in flat):
            ctx.violation("C19:non-finite-output", {"case": case, "impl": res}, found=True)
            continue
        ev = Eval(case, res)
        evals[i] = ev
        stats["temperature_" + ev.temperature] += 1
        stats["clamped_policy_entries"] += sum(1 for row in ev.pi for x in row if 0 < x < F(1, 10**300))
        for l in set(ev.lam_given):
            by_lam[str(l)] = by_lam.get(str(l), 0) + 1
        L, goals = case_module(i, ev)
        mods.append((i, L, goals))

    # shards balanced by number of goals
    nsh = max(1, min(ctx.jobs, len(mods)) if tier == "quick" else min(2 * ctx.jobs, len(mods)))
    shards = [[] for _ in range(nsh)]
    for m in sorted(mods, key=lambda m: -len(m[2])):
        min(shards, key=lambda sh: sum(len(x[2]) for x in sh)).append(m)
    shards = [sh for sh in shards if sh]
    with ThreadPoolExecutor(max_workers=min(ctx.jobs, int(os.environ.get("C19_COQ_JOBS", "8" if tier == "quick" else "16")))) as ex:
        outs = list(ex.map(lambda kv: run_shard(ctx, "goals_%d" % kv[0], kv[1]), enumerate(shards)))
    failed = {}
    for o in outs:
        failed.update(o)
    ngoals = sum(len(g) for _, _, g in mods)
    bad_cases = {idx for (idx, _) in failed}
    nproved = 0 if None in bad_cases else sum(len(g) for i, _, g in mods if i not in bad_cases)

    for (idx, lemma), err in sorted(failed.items(), key=str):
        if idx is None:
            ctx.violation("C19:coq-goal-file-failed", {"case": None, "file": lemma, "error": err}, found=False)
    for i, ev in evals.items():
        bad = sorted(l for (idx, l) in failed if idx == i)
        if not bad:
            continue
        why = ev.mp_failures()
        detail = {"case": cases[i], "impl": impl[i], "failed_goals": bad, "temperature": ev.temperature,
                  "coq_error": failed[(i, bad[0])][-400:]}
        if why:
            kind, s, a, clause, d, tol = why[0]
            detail["failing_clause"] = {"clause": clause, "state_index": s, "action_index": a, "deviation": d, "tolerance": tol,
                                        "all": [(k, s_, a_) for k, s_, a_, _, _, _ in why][:30]}
            ctx.violation("C19:%s:%s" % (cases[i]["via"], clause), detail, found=True)
        else:
            ctx.violation("C19:interval-goal-not-proved", detail, found=False)

    # lambda -> 0 clause / soft-versus-hard rate (theorem C19_soft_to_hard_rate)
    nrate, worst, ladder = 0, 0.0, {}
    for i, ev in evals.items():
        if any(idx == i for (idx, _) in failed):
            continue
        Qs = exact_qstar(ev.T, ev.R, ev.g)
        if Qs is None:
            continue
        pmin = min(min(r) for r in ev.p0)
        lmax = max(ev.lam)
        kappa = lmax * up(mpmath.log(1 / mpf(pmin))) if pmin < 1 else F(0)
        e3 = max(ev.eps3)
        bound = ev.eps1 + ev.g * (ev.eps1 + e3 + kappa) / (1 - ev.g)
        dist = max(abs(ev.q[s][a] - Qs[s][a]) for s in range(ev.nS) for a in range(ev.nA))
        nrate += 1
        if bound > 0:
            worst = max(worst, float(dist / bound))
        if dist > bound:
            s, a = max(((s, a) for s in range(ev.nS) for a in range(ev.nA)), key=lambda sa: abs(ev.q[sa[0]][sa[1]] - Qs[sa[0]][sa[1]]))
            ctx.violation("C19:%s:action values are not within the proved distance of the optimal action values" % cases[i]["via"],
                          {"case": cases[i], "impl": impl[i], "failing_clause": {"state_index": s, "action_index": a,
                           "q": float(ev.q[s][a]), "q_optimal": str(Qs[s][a]), "distance": float(dist), "bound": float(bound)}}, found=True)
        if cases[i].get("group") == "ladder":
            key = vlib.structural_hash([cases[i]["T"], cases[i]["R"], cases[i]["gamma"]])
            ladder.setdefault(key, {})[cases[i]["lam"]] = float(dist)
    mono = sum(1 for d in ladder.values() if len(d) == 3 and d["1/10"] >= d["1/100"] >= d["1/1000"])
    full = sum(1 for d in ladder.values() if len(d) == 3)

    distinct = {vlib.structural_hash(cases[i]) for i in evals if cases[i]["nA"] >= 2}
    sample = []
    if evals:
        i0 = sorted(evals)[0]
        sample = [{"case": cases[i0], "impl": impl[i0], "temperature": evals[i0].temperature}]
    ctx.coverage.update({
        "evaluations": ngoals,
        "distinct_nontrivial": len(distinct),
        "rule": "row-stochastic tensors with 2-6 states x 1-4 actions, probabilities k/2..k/16 with zero entries and duplicated action rows, "
                "integer rewards -5..5 in shapes (S,A,S),(S,A,1),(1,1,S),(1,A,1),(S,1,1), gamma in {1/2,9/10}, entropy weight in "
                "{1e-3,1e-2,1e-1,1/2,1,2,10} as Python float / int / 1-element tensor / per-state tensor, prior None (uniform) or on the open simplex k/16 "
                "((1,A) or (S,A)), force_nonzero_probabilities both ways; about 20% of cases in lambda ladders (uniform prior, 1e-1,1e-2,1e-3 on one MDP), about 15% through "
                "EntropyRegularizedPolicyIteration.plan_on; one interval-proved goal per number (q, pi: states x actions; v, Z>0: states) of every "
                "CONVERGED result; distinct = structural hash of the case; non-trivial = converged with >= 2 actions (all have >= 2 states)",
        "samples": sample,
        "cases": len(cases), "goals": ngoals, "goals_proved": nproved, "cases_with_unproved_goal": len(bad_cases),
        "rate_checks": nrate, "rate_worst_distance_over_bound": worst,
        "ladders_complete": full, "ladders_monotone": mono,
        "weights_seen": by_lam, "input_features": stats,
        "extra_obligations": ngoals, "extra_discharged": nproved,
    })
