"""C19 — entropy-regularised policy iteration converges to the soft Bellman fixed point.

Correspondence.  Generated tensors -> msdm `entropy_regularized_policy_iteration` (directly, or through
the planner wrapper `EntropyRegularizedPolicyIteration.plan_on`) -> for every result that REPORTS
convergence the harness writes a Coq file stating, on the implementation's floats as exact rationals,
the three equations of model/EntReg.v for every state / action:

   E1_at  |q s a - sum_n T s a n (R s a n + gamma v n)| <= eps1
   E2_at  |pi s a - softmax(q/lam + ln pi0) s a| <= atol + rtol * softmax ...        (the isclose band)
   E3_at  |v s - lam ln sum_a pi0 exp(q/lam)| <= lam*KL(pi || softmax) + eps3        (theorem value_gap)

each proved by `interval with (i_prec 80)` after applying the proved shift lemmas
(theory/EntRegTheory.v: E2_at_shift_gen / E3_at_shift_gen) with the shift max_a q s a, so that every
exponent is <= 0.  A goal interval cannot prove = broken correspondence; the same clause is then
evaluated independently with mpmath (60 digits) to decide found=True / found=False.
lambda -> 0 clause: q is compared with the exact optimal action values (Fraction policy iteration)
with the bound PROVED in C19_soft_to_hard_rate, instantiated with the tolerances of the proved goals.
"""
import os
import re
from concurrent.futures import ThreadPoolExecutor
from fractions import Fraction as F

import mpmath

import vlib

INFO = {
    "level": "proof",
    "coq_files": ["model/EntReg.v", "theory/EntRegTheory.v"],
    "trusted_base": [
        "generated goals are instances of model/EntReg.v E1_at / E2_at / E3_at on list-encoded tensors (t1/t2/t3), proved by coq-interval (i_prec 80) and checked by Qed",
        "tolerances: eps1 = 1e-13*scale; isclose band atol 1e-8, rtol 1e-5 (torch defaults) widened by 0.1%; eps3 = lam*KL(pi||softmax) (mpmath, rounded up) + 1e-12*scale; scale = max(1,|v|,|q|,|T*R|) (float64 rounding of the look-ahead / linear solve is ~1e-15*scale)",
        "mpmath (60 digits) evaluation of the same clauses: used to choose the temperature literal and to classify a goal that interval cannot prove; never to accept a clause",
        "exact optimal values by policy iteration over fractions.Fraction (lambda -> 0 clause)",
    ],
    "assumptions": [
        "generated probabilities / rewards / discount / weights / priors reach Coq as the generator's rationals and msdm as the nearest doubles",
        "a scalar Python-float entropy weight is stored by msdm as torch.tensor([w]) = single precision; when the equations do not hold within the tight tolerances at the given weight but do at its float32 rounding, the goals are stated at that rounding (relative distance <= 2^-24) and the case is counted under temperature_float32",
    ],
}

LAMS = ["1/1000", "1/500", "1/200", "1/100", "1/50", "1/20", "1/10", "3/10", "1/2", "1", "2", "5", "10"]
LOW_LAMS = ["1/1000", "1/800", "1/500", "1/400", "1/300", "1/250", "1/200", "3/500", "7/1000", "1/125", "9/1000"]   # [1e-3, 1e-2)
MID_LAMS = ["1/100", "1/80", "1/50", "3/100", "1/20", "7/100", "1/10"]
mpmath.mp.dps = 60


# ---------------------------------------------------------------------------
# generator: a fixed schedule of case FAMILIES (every family occurs in every quick run), random
# parameters inside each family
# ---------------------------------------------------------------------------
def split(rng, k, denom):
    cuts = sorted(rng.sample(range(1, denom), k - 1)) if k > 1 else []
    return [b - a for a, b in zip([0] + cuts, cuts + [denom])]


def gen_mdp(rng, nS=None, nA=None, anchor=False, rscale=1, gamma=None, nondyadic=None):
    nS = nS or rng.randint(2, 6)
    nA = nA or rng.choice([1, 2, 2, 3, 3, 4, 4])
    if nondyadic is None:
        nondyadic = rng.random() < .25
    T = []
    for s in range(nS):
        rows = []
        for a in range(nA):
            denom = rng.choice([3, 5, 7, 10, 10]) if nondyadic and not anchor else rng.choice([2, 4, 8, 16])
            k = rng.randint(1, min(nS, 3, denom))
            sup = rng.sample(range(nS), k)
            if anchor and 0 not in sup:          # every row reaches state 0: bounded value spans
                sup[0] = 0
            row = ["0"] * nS
            for n, p in zip(sup, split(rng, k, denom)):
                row[n] = str(F(p, denom))
            if anchor and F(row[0]) < F(1, 4):
                # move mass to state 0 so that it holds at least 1/4
                j = max(range(nS), key=lambda n: F(row[n]) if n else F(-1))
                d = F(1, 4) - F(row[0])
                if nS > 1 and F(row[j]) > d:
                    row[j], row[0] = str(F(row[j]) - d), "1/4"
                else:
                    row = ["1"] + ["0"] * (nS - 1)
            rows.append(row)
        if nA >= 2 and rng.random() < .15:      # duplicate action rows: exact ties in q
            rows[1] = list(rows[0])
        T.append(rows)
    shape = rng.choice(["full"] * 6 + ["sa1", "11n", "1a1", "s11", "111"])
    dims = {"full": (nS, nA, nS), "sa1": (nS, nA, 1), "11n": (1, 1, nS), "1a1": (1, nA, 1), "s11": (nS, 1, 1),
            "111": (1, 1, 1)}[shape]
    R = [[[str(rscale * rng.randint(-5, 5)) for _ in range(dims[2])] for _ in range(dims[1])] for _ in range(dims[0])]
    if shape == "full" and nA >= 2 and T[0][0] == T[0][1] and rng.random() < .7:
        R[0][1] = list(R[0][0])
    return {"nS": nS, "nA": nA, "T": T, "R": R,
            "gamma": gamma or rng.choice(["1/2", "9/10"] + (["1/3", "19/20", "7/10"] if nondyadic else []))}


def gen_prior(rng, nS, nA):
    r = rng.random()
    if r < .25:
        return None                      # code default: uniform
    rows = 1 if r < .7 else nS

    def row():
        if rng.random() < .2:
            return [str(F(1, nA))] * nA
        d = rng.choice([16, 16, 10, 7]) if nA <= 7 else 16
        return [str(F(p, d)) for p in split(rng, nA, d)]
    return [row() for _ in range(rows)]


def gen_weight(rng, nS, lams=LAMS, per_state=.3):
    if rng.random() < per_state:
        return [rng.choice(lams) for _ in range(nS)], "per_state"
    lam = rng.choice(lams)
    return lam, rng.choice(["float", "float", "tensor1", "npfloat"] + (["int"] if F(lam).denominator == 1 else []))


def base(rng, m, group, **kw):
    c = dict(m)
    lam, style = gen_weight(rng, m["nS"])
    c.update({"lam": lam, "lam_style": style, "pi0": gen_prior(rng, m["nS"], m["nA"]),
              "force_nonzero": rng.random() < .5, "via": "function", "n_iters": 300, "group": group,
              "gamma_style": "float", "init": None, "noncontig": False, "requires_grad": False, "repeat": False})
    c.update(kw)
    return c


STR_LABELS = ["", "b", "a2", "Z", "a10", "c"]
TUP_LABELS = [[], [0], [1, 0], [0, 0], [2], [0, 1]]


def fam_general(rng):
    return [base(rng, gen_mdp(rng), "general")]


def fam_ladder(rng):
    m = gen_mdp(rng, nA=rng.choice([2, 3, 4]))
    return [base(rng, m, "ladder", lam=lam, lam_style=rng.choice(["float", "tensor1"]), pi0=None)
            for lam in ["1/10", "1/100", "1/1000"]]


def fam_planner(rng, variant):
    """through EntropyRegularizedPolicyIteration.plan_on; the MDP is built with the given labels, the result
    is read back by label.  variants: label kinds (ints in non-sorted order, strings incl. '', tuples incl. ()),
    single start state (unreachable states drop out of the inferred state list), explicit prior, default
    iteration cap (None), cap 1 (warning path), planner object first used on another MDP with the same labels
    and cached views of the MDP touched before planning"""
    m = gen_mdp(rng, nA=rng.choice([3, 4] if variant == "avail" else [1, 2, 3, 4]))
    nS, nA = m["nS"], m["nA"]
    lam = rng.choice(LAMS)
    kind = variant if variant in ("perm", "str", "tuple") else rng.choice(["int", "perm", "str", "tuple"])
    if kind == "int":
        sl, al = list(range(nS)), list(range(nA))
    elif kind == "perm":
        sl, al = rng.sample(range(nS), nS), rng.sample(range(nA), nA)
    elif kind == "str":
        sl, al = rng.sample(STR_LABELS, nS), rng.sample(STR_LABELS, nA)
        if "" not in sl:
            sl[rng.randrange(nS)] = ""
        if "" not in al:
            al[rng.randrange(nA)] = ""
    else:
        sl, al = rng.sample(TUP_LABELS, nS), rng.sample(TUP_LABELS, nA)
        if [] not in sl:
            sl[rng.randrange(nS)] = []
        if [] not in al:
            al[rng.randrange(nA)] = []
    c = base(rng, m, "planner:" + variant, via="planner", lam=lam, pi0=None, force_nonzero=True,
             lam_style=rng.choice(["float", "float", "tensor1"] + (["int"] if F(lam).denominator == 1 else [])),
             state_labels=sl, action_labels=al, start=None, iterations=300, decoy=False)
    if variant == "start":
        # a closed set U around the start state: the other states are unreachable and must drop out
        c["start"] = rng.randrange(nS)
        U = sorted(set([c["start"]] + rng.sample(range(nS), rng.randint(0, nS - 2))))
        T = [[list(r) for r in mm] for mm in m["T"]]
        for s_ in U:
            for a_ in range(nA):
                row = [F(0)] * nS
                for n_, p_ in enumerate(T[s_][a_]):
                    if F(p_) > 0:
                        row[n_ if n_ in U else rng.choice(U)] += F(p_)
                T[s_][a_] = [str(x) for x in row]
        c["T"] = T
    elif variant == "prior":
        c["pi0"] = [[str(F(p, 16)) for p in split(rng, nA, 16)]]
    elif variant == "default_cap":
        c["iterations"] = None
    elif variant == "cap1":
        c["iterations"] = 1
    elif variant == "reuse":
        c["decoy"] = True
    elif variant == "avail":
        # state-dependent action sets: every action is missing in some state (so an unavailable action is not
        # last in action_list somewhere), every state keeps at least one, every action is available somewhere.
        # The planner's default prior is then uniform on the available actions and 0 (clamped to the smallest
        # float) elsewhere; rewards are kept >= 0 unless the weight is >= 1/2, so that exp(-q/weight) stays far
        # below 1/tiny (otherwise the clamped prior of an unavailable action takes over the softmax: reported).
        avail = [[True] * nA for _ in range(nS)]
        for a_ in range(nA):
            avail[rng.randrange(nS)][a_] = False
        for s_ in range(nS):
            for a_ in range(nA):
                if rng.random() < .2:
                    avail[s_][a_] = False
        for s_ in range(nS):
            if not any(avail[s_]):
                avail[s_][rng.randrange(nA)] = True
        for a_ in range(nA):
            if not any(avail[s_][a_] for s_ in range(nS)):
                avail[rng.randrange(nS)][a_] = True
        lo = -5 if F(lam) >= F(1, 2) else 0
        T = [[list(r) for r in mm] for mm in c["T"]]
        R = [[[str(rng.randint(lo, 8 + lo)) for _ in range(nS)] for _ in range(nA)] for _ in range(nS)]
        for s_ in range(nS):
            for a_ in range(nA):
                if not avail[s_][a_]:
                    T[s_][a_], R[s_][a_] = ["0"] * nS, ["0"] * nS
        c.update({"T": T, "R": R, "avail": avail})
    return [c]


def fam_boundary(rng, variant):
    if variant == "gamma0_int":
        return [base(rng, gen_mdp(rng, nA=rng.choice([2, 3, 4]), gamma="0"), "boundary:" + variant, gamma_style="int")]
    if variant == "gamma0_float":
        return [base(rng, gen_mdp(rng, nA=rng.choice([2, 3, 4]), gamma="0"), "boundary:" + variant)]
    if variant == "gamma_near_1":
        # values ~ 1e6-1e7 with spans of a few units (every row puts >= 1/4 on state 0)
        m = gen_mdp(rng, nA=rng.choice([2, 3, 4]), anchor=True, gamma="1048575/1048576")
        lam, style = gen_weight(rng, m["nS"], lams=["1", "2", "10"], per_state=.2)
        return [base(rng, m, "boundary:" + variant, lam=lam, lam_style=style)]
    if variant == "tiny_prob":
        m = gen_mdp(rng, nA=rng.choice([2, 3, 4]))
        eps = F(1, 2**30)
        for s in range(m["nS"]):
            for a in range(m["nA"]):
                if rng.random() < .5:
                    row = [F(x) for x in m["T"][s][a]]
                    j = max(range(m["nS"]), key=lambda n: row[n])
                    k = rng.choice([n for n in range(m["nS"]) if n != j])
                    row[j], row[k] = row[j] - eps, row[k] + eps      # entries 2^-30 and 1-2^-30 style
                    m["T"][s][a] = [str(x) for x in row]
        # two actions whose rows differ by 2^-30 of mass: action values 1e-9 apart
        row = [F(x) for x in m["T"][0][0]]
        j = max(range(m["nS"]), key=lambda n: row[n])
        k = (j + 1) % m["nS"]
        row[j], row[k] = row[j] - eps, row[k] + eps
        m["T"][0][1] = [str(x) for x in row]
        return [base(rng, m, "boundary:" + variant)]
    if variant == "prior_edge":
        m = gen_mdp(rng, nA=rng.choice([2, 3, 4]))
        e = F(1, 2**20)
        row = [e] * m["nA"]
        row[rng.randrange(m["nA"])] = 1 - (m["nA"] - 1) * e
        return [base(rng, m, "boundary:" + variant, pi0=[[str(x) for x in row]])]
    if variant == "one_state":
        return [base(rng, gen_mdp(rng, nS=1, nA=rng.choice([1, 2, 3])), "boundary:" + variant)]
    if variant == "reward_1e3":
        m = gen_mdp(rng, rscale=1000)
        lam, style = gen_weight(rng, m["nS"], lams=["1/10", "1/2", "1", "2", "10"])
        return [base(rng, m, "boundary:" + variant, lam=lam, lam_style=style)]
    if variant == "reward_1e5":
        m = gen_mdp(rng, rscale=100000, gamma="1/2")
        return [base(rng, m, "boundary:" + variant, lam="10", lam_style=rng.choice(["float", "int", "tensor1"]))]
    if variant == "tiny_decisive":
        # a branch of probability 2^-k carrying the integer reward +-c*2^k: it moves the action value by c
        m = gen_mdp(rng, nS=rng.randint(3, 6), nA=rng.choice([2, 3]), nondyadic=False)
        nS, nA = m["nS"], m["nA"]
        m["R"] = [[[str(rng.randint(-3, 3)) for _ in range(nS)] for _ in range(nA)] for _ in range(nS)]
        ks = []
        for s in rng.sample(range(nS), 2):
            a, k = rng.randrange(nA), rng.choice([27, 30, 40, 53, 60])
            # every entry is a double and the row sums to exactly 1 (1 - 2^-60 is not a double, so the
            # complement is split: 1 - 2^-8, 2^-8 - 2^-k, 2^-k)
            j, j2, n = rng.sample(range(nS), 3)
            row = [F(0)] * nS
            row[j], row[j2], row[n] = 1 - F(1, 2**8), F(1, 2**8) - F(1, 2**k), F(1, 2**k)
            assert all(F(float(x)) == x for x in row) and sum(row) == 1
            m["T"][s][a] = [str(x) for x in row]
            m["R"][s][a][n] = str(rng.choice([-3, -2, 2, 3]) * 2**k)
            ks.append(k)
        lam, style = gen_weight(rng, nS, lams=["1/10", "1/2", "1", "2"])
        return [base(rng, m, "boundary:" + variant, lam=lam, lam_style=style, tiny_exponents=ks)]
    if variant == "tiny_prior":
        # prior 2^-k on the action whose reward advantage is about lam*k*ln 2: it still gets about half the mass
        m = gen_mdp(rng, nA=rng.choice([2, 3, 4]))
        nS, nA = m["nS"], m["nA"]
        k, lam = rng.choice([27, 30, 40, 50]), rng.choice(["1/2", "1", "2"])      # 1 - 2^-k must be a double
        best = rng.randrange(nA)
        adv = int(round(float(F(lam)) * k * 0.6931)) + rng.choice([-1, 0, 1])
        m["R"] = [[[str(rng.randint(-1, 1) + (adv if a == best else 0))] for a in range(nA)] for _ in range(nS)]
        row = [(1 - F(1, 2**k)) / (nA - 1)] * nA
        row[best] = F(1, 2**k)
        return [base(rng, m, "boundary:" + variant, lam=lam, lam_style=rng.choice(["float", "tensor1"]),
                     pi0=[[str(x) for x in row]], tiny_exponents=[k])]
    if variant in ("big_neartie_1e3", "big_neartie_1e6"):
        # rewards B + (-5..5): values ~ B/(1-gamma), gaps between actions of relative size 1e-6 .. 1e-3
        B = 1000 if variant.endswith("1e3") else 10**6
        m = gen_mdp(rng, nA=rng.choice([2, 3, 4]), gamma=rng.choice(["1/2", "9/10"]))
        m["R"] = [[[str(B + int(x)) for x in r] for r in mm] for mm in m["R"]]
        lam, style = gen_weight(rng, m["nS"], lams=["1/2", "1", "2", "5"])
        return [base(rng, m, "boundary:" + variant, lam=lam, lam_style=style)]
    if variant == "nondyadic":
        m = gen_mdp(rng, nA=rng.choice([2, 3]), nondyadic=True)
        nA = m["nA"]
        prior = [["7/10", "3/10"]] if nA == 2 else [["7/10", "1/5", "1/10"]]
        return [base(rng, m, "boundary:" + variant, lam=rng.choice(["1/10", "3/10", "1/3", "7/10"]),
                     lam_style=rng.choice(["float", "tensor1"]), pi0=prior)]
    if variant == "square":
        # as many states as actions (every (S,.) / (.,A) shape coincides), per-state weight and (S,A) prior
        n = rng.choice([2, 3, 4])
        m = gen_mdp(rng, nS=n, nA=n)
        return [base(rng, m, "boundary:" + variant, lam=[rng.choice(LAMS) for _ in range(n)], lam_style="per_state",
                     pi0=[[str(F(p, 16)) for p in split(rng, n, 16)] for _ in range(n)])]
    if variant == "chain":
        # corridor of n = 5 or 6 states (not a power of two): the goal reward has to travel n-1 steps
        n = rng.choice([5, 6])
        T = [[["0"] * n for _ in range(2)] for _ in range(n)]
        R = [[["-1"] * n for _ in range(2)] for _ in range(n)]
        for s in range(n):
            T[s][0][min(s + 1, n - 1)] = "1"
            T[s][1][max(s - 1, 0)] = "1"
        R[n - 1][0] = ["5"] * n
        m = {"nS": n, "nA": 2, "T": T, "R": R, "gamma": "9/10"}
        return [base(rng, m, "boundary:" + variant, lam=rng.choice(LOW_LAMS + MID_LAMS), lam_style=rng.choice(["float", "tensor1"]),
                     pi0=None, n_iters=5000)]
    raise ValueError(variant)


def fam_init(rng, variant):
    """explicit initial_policy (the default is derived from the prior): full-support random, or deterministic
    (zeros: nansum branch without clamping, clamp branch with it)"""
    m = gen_mdp(rng, nA=rng.choice([2, 3, 4]))
    nS, nA = m["nS"], m["nA"]
    if variant == "shared":
        # the SAME tensor object is passed as prior and as initial policy, no clamping (pi aliases the caller's tensor)
        pr = [[str(F(p, 8)) for p in split(rng, nA, 8)] for _ in range(nS)]
        return [base(rng, m, "init:shared", init="prior", pi0=pr, force_nonzero=False)]
    if variant == "onehot":
        init = [[("1" if a == k else "0") for a in range(nA)] for k in [rng.randrange(nA) for _ in range(nS)]]
    else:
        init = [[str(F(p, 8)) for p in split(rng, nA, 8)] for _ in range(nS)]
    return [base(rng, m, "init:" + variant, init=init, force_nonzero=ff) for ff in (True, False)]


def fam_cap(rng, cap):
    return [base(rng, gen_mdp(rng), "cap:%d" % cap, n_iters=cap)]


def fam_repr(rng, variant):
    m = gen_mdp(rng)
    if variant == "views":
        return [base(rng, m, "repr:views", noncontig=True, requires_grad=True)]
    return [base(rng, m, "repr:repeat", repeat=True)]


def fam_neartie(rng, variant):
    """action values whose gaps are of the order of the entropy weight (the softmax is neither saturated nor
    flat there): in 1-2 states action 1 is action 0 with a probability mass delta = c*weight (c in 1/2..5) moved
    between two successors, same rewards.  variants: scalar weight in [1e-3,1e-2), in [1e-2,1e-1], per-state
    vector mixing low and ordinary weights"""
    m = gen_mdp(rng, nS=rng.randint(3, 6), nA=rng.choice([2, 3, 4]))
    nS, nA = m["nS"], m["nA"]
    m["R"] = [[[str(rng.randint(-3, 3)) for _ in range(nS)] for _ in range(nA)] for _ in range(nS)]
    if variant == "low":
        lam, style = rng.choice(LOW_LAMS), rng.choice(["float", "tensor1", "npfloat"])
    elif variant == "mid":
        lam, style = rng.choice(MID_LAMS), rng.choice(["float", "tensor1"])
    else:
        lam = [rng.choice(LOW_LAMS if rng.random() < .6 else LAMS) for _ in range(nS)]
        lam[rng.randrange(nS)] = rng.choice(LOW_LAMS)
        style = "per_state"
    for s in rng.sample(range(nS), rng.randint(1, 2)):
        l = F(lam[s]) if isinstance(lam, list) else F(lam)
        j, k = rng.sample(range(nS), 2)
        delta = min(l * rng.choice([F(1, 2), F(1), F(2), F(5)]), F(1, 8))
        row0 = [F(0)] * nS
        row0[j], row0[k] = F(1, 2), F(1, 2)
        row1 = list(row0)
        row1[j], row1[k] = row0[j] - delta, row0[k] + delta
        m["T"][s][0], m["T"][s][1] = [str(x) for x in row0], [str(x) for x in row1]
        m["R"][s][1] = list(m["R"][s][0])
        if m["R"][s][0][j] == m["R"][s][0][k]:
            m["R"][s][0][k] = m["R"][s][1][k] = str(int(m["R"][s][0][j]) + rng.choice([-2, -1, 1, 2]))
    return [base(rng, m, "neartie:" + variant, lam=lam, lam_style=style)]


def sim_history(case, max_iter=60):
    """reference run of the loop (numpy float64, same formulas and isclose band) used ONLY to select inputs by
    their improvement history: -> (list over iterations of the per-state 'row unchanged' flags, converged)"""
    import numpy as np
    T, R, p0, lam, g = full_arrays(case)
    T, R, p0 = np.array(T, dtype=float), np.array(R, dtype=float), np.array(p0, dtype=float)
    lam, g = np.array([float(x) for x in lam]), float(g)
    nS, nA = T.shape[0], T.shape[1]
    tiny = np.finfo(np.float64).tiny
    clamp = case["force_nonzero"]
    pi = np.full((nS, nA), 1.0 / nA)
    hist = []
    for _ in range(max_iter):
        with np.errstate(all="ignore"):
            ent = np.nansum(np.log(pi / p0) * pi, axis=1)
        srf = np.einsum("san,san,sa->s", R, T, pi)
        mp = (pi[:, :, None] * T).sum(1)
        v = np.linalg.solve(np.eye(nS) - g * mp, srf - lam * ent)
        q = (T * (R + g * v[None, None, :])).sum(-1)
        z = q / lam[:, None] + np.log(p0)
        z = z - z.max(-1, keepdims=True)
        new = np.exp(z)
        new /= new.sum(-1, keepdims=True)
        close = (np.abs(pi - new) <= 1e-8 + 1e-5 * np.abs(new)).all(-1)
        hist.append([bool(x) for x in close])
        if close.all():
            return hist, True
        pi = np.maximum(new, tiny) if clamp else new
    return hist, False


def history_score(hist):
    """(every state has sat still in some step before the last one, number of pause-then-move events)"""
    n = len(hist[0])
    seen, turn = [False] * n, False
    for c in hist[:-1]:
        seen = [a or b for a, b in zip(seen, c)]
        turn = turn or all(seen)
    pauses = sum(1 for s in range(n) for t in range(len(hist) - 1)
                 if hist[t][s] and not all(h[s] for h in hist[t + 1:]))
    return turn, pauses


def fam_history(rng, variant):
    """deterministic transitions, integer rewards, low entropy weight: exact ties under the uniform start and
    near-greedy policies that flip one state at a time.  Candidates are drawn until the reference history has
    >= 3 improvement steps and, variant 'turns': every state sits still in some step while another one still
    moves (states settle in turn); variant 'pause': at least one state pauses and moves again."""
    best, best_key = None, None
    for _ in range(600):
        nS, nA = rng.randint(3, 6), rng.choice([2, 2, 3])
        T = [[["0"] * nS for _ in range(nA)] for _ in range(nS)]
        R = [[[None] * nS for _ in range(nA)] for _ in range(nS)]
        for s in range(nS):
            for a in range(nA):
                T[s][a][rng.randrange(nS)] = "1"
                R[s][a] = [str(rng.randint(-3, 3))] * nS
        m = {"nS": nS, "nA": nA, "T": T, "R": R, "gamma": rng.choice(["1/2", "9/10"])}
        if rng.random() < .25:
            lam, style = [rng.choice(LOW_LAMS + MID_LAMS) for _ in range(nS)], "per_state"
        else:
            lam, style = rng.choice(LOW_LAMS + MID_LAMS), rng.choice(["float", "float", "tensor1"])
        c = base(rng, m, "history:" + variant, lam=lam, lam_style=style,
                 pi0=None if rng.random() < .7 else [[str(F(p, 16)) for p in split(rng, nA, 16)]])
        hist, conv = sim_history(c)
        if not conv or len(hist) < 3:
            continue
        turn, pauses = history_score(hist)
        key = (turn if variant == "turns" else pauses > 0, pauses, len(hist))
        if best is None or key > best_key:
            best, best_key = c, key
        if key[0]:
            break
    best["history"] = {"steps": best_key[2], "pauses": best_key[1], "selected": bool(best_key[0])}
    return [best]


SCHEDULE = (
    [("general",)] * 3 + [("ladder",)] + [("planner", v) for v in ("perm", "str", "tuple", "start", "prior", "default_cap", "cap1", "reuse", "avail", "avail")]
    + [("general",)] * 2
    + [("boundary", v) for v in ("gamma0_int", "gamma0_float", "gamma_near_1", "tiny_prob", "prior_edge", "one_state", "reward_1e3", "reward_1e5",
                                   "tiny_decisive", "tiny_prior", "big_neartie_1e3", "big_neartie_1e6", "nondyadic", "square", "chain")]
    + [("neartie", "low"), ("history", "turns"), ("neartie", "vector"), ("history", "turns"), ("neartie", "low"), ("history", "pause"), ("neartie", "mid")]
    + [("general",)] + [("init", "onehot"), ("init", "random"), ("init", "shared"), ("cap", 1), ("cap", 2), ("repr", "views"), ("repr", "repeat")]
    + [("general",)])
FAMS = {"general": fam_general, "ladder": fam_ladder, "planner": fam_planner, "boundary": fam_boundary,
        "init": fam_init, "cap": fam_cap, "repr": fam_repr, "neartie": fam_neartie, "history": fam_history}


def gen_cases(rng, ncases):
    cases, k = [], 0
    while len(cases) < ncases:
        f = SCHEDULE[k % len(SCHEDULE)]
        k += 1
        cases.extend(FAMS[f[0]](rng, *f[1:]))
    return cases[:ncases]


# ---------------------------------------------------------------------------
# exact views of a case
# ---------------------------------------------------------------------------
def full_arrays(case, res=None):
    """exact tensors of the case, in the index order of the result (a planner result lists the states it
    inferred by reachability and its action order; the direct call uses the case's own order)"""
    nS, nA = case["nS"], case["nA"]
    st = list(res["states"]) if res and "states" in res else list(range(nS))
    ac = list(res["actions"]) if res and "actions" in res else list(range(nA))
    Rb = case["R"]
    T = [[[F(case["T"][s][a][n]) for n in st] for a in ac] for s in st]
    R = [[[F(Rb[s if len(Rb) > 1 else 0][a if len(Rb[0]) > 1 else 0][n if len(Rb[0][0]) > 1 else 0])
           for n in st] for a in ac] for s in st]
    if case.get("avail"):
        # planner default prior am/am.sum: uniform over the actions that can be taken, 0 elsewhere
        p0 = [[(F(1, sum(case["avail"][s])) if case["avail"][s][a] else F(0)) for a in ac] for s in st]
    elif case["pi0"] is None:
        p0 = [[F(1, nA)] * nA for _ in st]
    else:
        p0 = [[F(case["pi0"][s if len(case["pi0"]) > 1 else 0][a]) for a in ac] for s in st]
    lam = [F(case["lam"][s]) for s in st] if isinstance(case["lam"], list) else [F(case["lam"])] * len(st)
    return T, R, p0, lam, F(case["gamma"])


def f32(x):
    import struct
    return F(struct.unpack("f", struct.pack("f", float(x)))[0])


def mpf(x):
    return mpmath.mpf(x.numerator) / mpmath.mpf(x.denominator)


def soft_parts(p0s, qs, lam):
    """(shift c, softmax list, lse) of one state in 60-digit arithmetic"""
    c = max(q for p, q in zip(p0s, qs) if p > 0)
    w = [mpf(p) * mpmath.exp(mpf(q - c) / mpf(lam)) if p > 0 else mpmath.mpf(0) for p, q in zip(p0s, qs)]
    Z = mpmath.fsum(w)
    return c, [x / Z for x in w], mpf(c) + mpf(lam) * mpmath.log(Z), Z


def kl_terms(pis, sm, p0s, qs, lam, c, Z):
    """KL(pi || softmax) with ln softmax taken analytically (softmax may underflow any float)"""
    tot = mpmath.mpf(0)
    for p, p0, q in zip(pis, p0s, qs):
        if p > 0 and p0 > 0:
            lnsm = mpmath.log(mpf(p0)) + mpf(q - c) / mpf(lam) - mpmath.log(Z)
            tot += mpf(p) * (mpmath.log(mpf(p)) - lnsm)
    return tot


def up(x, digits=30):
    """rational upper bound of a non-negative mpf"""
    if x <= 0:
        return F(0)
    e = int(mpmath.floor(mpmath.log10(x))) - digits
    return F(int(mpmath.ceil(x / mpmath.mpf(10) ** e)) + 1) * F(10) ** e


class Eval:
    """all exact data + tolerances of one converged result"""

    def __init__(self, case, res):
        self.case, self.res = case, res
        self.T, self.R, self.p0, self.lam_given, self.g = full_arrays(case, res)
        self.nS, self.nA = len(self.T), len(self.T[0])
        # a planner table may leave out entries of actions that cannot be taken in a state: not observed, no goal
        self.skip = {(s, a) for s, row in enumerate(res["q"]) for a, x in enumerate(row) if x is None} | \
                    {(s, a) for s, row in enumerate(res["pi"]) for a, x in enumerate(row) if x is None}
        self.q = [[vlib.frac(x) if x is not None else F(0) for x in row] for row in res["q"]]
        self.pi = [[vlib.frac(x) if x is not None else F(0) for x in row] for row in res["pi"]]
        self.v = [vlib.frac(x) for x in res["v"]]
        self.scale = max([F(1)] + [abs(x) for x in self.v] + [abs(x) for r in self.q for x in r]
                         + [abs(t * x) for mt, mr in zip(self.T, self.R) for rt, rr in zip(mt, mr) for t, x in zip(rt, rr)])
        self.eps1 = F(1, 10**13) * self.scale
        self.slack3 = F(1, 10**12) * self.scale
        self.atol = F(1001, 1000) * F(1, 10**8)
        self.rtol = F(1001, 1000) * F(1, 10**5)
        # Temperatures.  The clauses are stated at the GIVEN weight.  Only when the 60-digit evaluation rejects
        # that, and the weight is a scalar Python/numpy float (which msdm stores as torch.tensor([w]) = float32),
        # are they restated at what the code then demonstrably uses: evaluation multiplies by w32 = float32(w);
        # improvement multiplies q by the float32 quotient 1/w32, i.e. uses the temperature 1/float32(1/w32).
        # Both are within 2^-23 (relative) of the given weight.  lam2 serves E2, lam serves E3.
        self.set_lam(self.lam_given)
        self.set_lam2(self.lam_given)
        self.temperature = "given"
        if case["lam_style"] in ("float", "npfloat"):
            l32 = [f32(x) for x in self.lam_given]
            linv = [1 / f32(1 / x) for x in l32]
            if any(k == "e3" for k, *_ in self.mp_failures()) and l32 != self.lam_given:
                self.set_lam(l32)
                if any(k == "e3" for k, *_ in self.mp_failures()):
                    self.set_lam(self.lam_given)
            if any(k == "e2" for k, *_ in self.mp_failures()):
                for cand in (l32, linv):
                    if cand != self.lam_given:
                        self.set_lam2(cand)
                        if not any(k == "e2" for k, *_ in self.mp_failures()):
                            break
                else:
                    self.set_lam2(self.lam_given)
            if self.lam != self.lam_given or self.lam2 != self.lam_given:
                self.temperature = "float32"

    def set_lam(self, lam):
        """temperature of the evaluation clause E3"""
        self.lam = lam
        self.c, self.lse, self.kl, self.eps3 = [], [], [], []
        for s in range(self.nS):
            c, sm, lse, Z = soft_parts(self.p0[s], self.q[s], lam[s])
            kl = kl_terms(self.pi[s], sm, self.p0[s], self.q[s], lam[s], c, Z)
            self.c.append(c)
            self.lse.append(lse)
            self.kl.append(kl)
            self.eps3.append(lam[s] * up(kl) * F(1000001, 1000000) + self.slack3)

    def set_lam2(self, lam):
        """temperature of the improvement clause E2"""
        self.lam2 = lam
        self.sm = [soft_parts(self.p0[s], self.q[s], lam[s])[1] for s in range(self.nS)]

    def look(self, v, s, a):
        return sum(self.T[s][a][n] * (self.R[s][a][n] + self.g * v[n]) for n in range(self.nS))

    def mp_failures(self):
        """clauses failing in the independent high-precision evaluation"""
        out = []
        for s in range(self.nS):
            for a in range(self.nA):
                if (s, a) in self.skip:
                    continue
                d = abs(self.q[s][a] - self.look(self.v, s, a))
                if d > self.eps1:
                    out.append(("e1", s, a, "action value is not the one-step look-ahead of the state values", float(d), float(self.eps1)))
                d = abs(mpf(self.pi[s][a]) - self.sm[s][a])
                band = mpf(self.atol) + mpf(self.rtol) * self.sm[s][a]
                if d > band:
                    out.append(("e2", s, a, "policy is not the prior-weighted softmax of the action values", float(d), float(band)))
            d = abs(mpf(self.v[s]) - self.lse[s])
            if d > mpf(self.eps3[s]):
                out.append(("e3", s, None, "state value is not the prior-weighted log-sum-exp of the action values", float(d), float(self.eps3[s])))
        return out

    def mp_ok(self):
        return not self.mp_failures()


# ---------------------------------------------------------------------------
# Coq text
# ---------------------------------------------------------------------------
def rl(x):
    x = F(x)
    if x.denominator == 1:
        return "(%d)" % x.numerator
    return "((%d) / %d)" % (x.numerator, x.denominator)


def rlist(xs):
    return "[" + "; ".join(rl(x) for x in xs) + "]"


def rmat(m):
    return "[" + "; ".join(rlist(r) for r in m) + "]"


def rten(t):
    return "[" + "; ".join(rmat(m) for m in t) + "]"


HEADER = """From Coq Require Import Reals List Lra.
From Interval Require Import Tactic.
From MSDM Require Import base.Num base.NumInst model.EntReg theory.EntRegTheory.
Import ListNotations.
Local Open Scope R_scope.
"""


def select_entries(ev, rng, tier):
    """which numbers get a Coq goal.  thorough: all.  quick: 2 states, 2 + 1 actions (drawn from ctx.rng)
    PLUS every entry the 60-digit evaluation finds outside its tolerance (so a wrong number always meets a
    goal that cannot be proved; the evaluation itself never accepts anything)."""
    if tier != "quick":
        return None
    states = rng.sample(range(ev.nS), min(2, ev.nS))
    sel = {"s": set(states), "sa": set()}
    for k, s in enumerate(states):
        for a in rng.sample(range(ev.nA), min(2 - k, ev.nA)):      # 2 actions in the first state, 1 in the second
            sel["sa"].add((s, a))
    for kind, s, a, _, _, _ in ev.mp_failures()[:6]:
        sel["s"].add(s)
        if a is not None:
            sel["sa"].add((s, a))
    assert all(s in sel["s"] for s, _ in sel["sa"])
    return sel


def case_module(idx, ev, sel=None):
    """-> (text lines, [(lemma name, kind, s, a)])"""
    nS, nA = ev.nS, ev.nA
    states = [s for s in range(nS) if sel is None or s in sel["s"]]
    pairs = [(s, a) for s in range(nS) for a in range(nA) if (sel is None or (s, a) in sel["sa"]) and (s, a) not in ev.skip]
    L = ["Module K%d." % idx,
         "Definition Tt : list (list (list R)) := %s." % rten(ev.T),
         "Definition Rt : list (list (list R)) := %s." % rten(ev.R),
         "Definition gm : R := %s." % rl(ev.g),
         "Definition lt : list R := %s." % rlist(ev.lam),
         "Definition lt2 : list R := %s." % rlist(ev.lam2),
         "Definition pt : list (list R) := %s." % rmat(ev.p0),
         "Definition qt : list (list R) := %s." % rmat(ev.q),
         "Definition vt : list R := %s." % rlist(ev.v),
         "Definition it : list (list R) := %s." % rmat(ev.pi),
         "Definition ct : list R := %s." % rlist(ev.c),
         "Ltac ev := cbv [E1_at E2sh_at E3sh_at lookahead softmax_sh lse_sh Zsum_sh sumf nadd n0 NumR t1 t2 t3 nth Tt Rt gm lt lt2 pt qt vt it ct].",
         "Ltac iv := ev; interval with (i_prec 80)."]
    goals = []
    split = ev.lam2 != ev.lam          # E2 at another temperature than E3 (float32 quotient, see Eval)
    w2, l2, z2 = ("lt2", "m", "y") if split else ("lt", "l", "z")
    for s in states:
        L.append("Lemma l%d : t1 lt %d%%nat <> 0. Proof. ev. lra. Qed." % (s, s))
        L.append("Lemma z%d : 0 < Zsum_sh %d%%nat (t1 lt) (t2 pt) (t1 ct) (t2 qt) %d%%nat. Proof. iv. Qed." % (s, nA, s))
        goals.append(("z%d" % s, "side", s, None))
        if split:
            L.append("Lemma m%d : t1 lt2 %d%%nat <> 0. Proof. ev. lra. Qed." % (s, s))
            L.append("Lemma y%d : 0 < Zsum_sh %d%%nat (t1 lt2) (t2 pt) (t1 ct) (t2 qt) %d%%nat. Proof. iv. Qed." % (s, nA, s))
            goals.append(("y%d" % s, "side", s, None))
    for s, a in pairs:
        L.append("Lemma e1_%d_%d : E1_at %d%%nat (t3 Tt) (t3 Rt) gm %s (t1 vt) (t2 qt) %d%%nat %d%%nat. Proof. iv. Qed."
                 % (s, a, nS, rl(ev.eps1), s, a))
        goals.append(("e1_%d_%d" % (s, a), "e1", s, a))
    for s, a in pairs:
        L.append("Lemma e2_%d_%d : E2_at %d%%nat (t1 %s) (t2 pt) %s %s (t2 qt) (t2 it) %d%%nat %d%%nat. "
                 "Proof. apply (E2_at_shift_gen _ _ _ (t1 ct)); [exact %s%d|exact %s%d|iv]. Qed."
                 % (s, a, nA, w2, rl(ev.atol), rl(ev.rtol), s, a, l2, s, z2, s))
        goals.append(("e2_%d_%d" % (s, a), "e2", s, a))
    for s in states:
        L.append("Lemma e3_%d : E3_at %d%%nat (t1 lt) (t2 pt) %s (t1 vt) (t2 qt) %d%%nat. "
                 "Proof. apply (E3_at_shift_gen _ _ _ (t1 ct)); [exact l%d|exact z%d|iv]. Qed."
                 % (s, nA, rl(ev.eps3[s]), s, s, s))
        goals.append(("e3_%d" % s, "e3", s, None))
    L.append("End K%d." % idx)
    return L, goals


def run_shard(ctx, name, mods):
    """mods: [(idx, lines, goals)].  Compiles all modules in one file.  coqc stops at the first lemma it
    cannot prove: that lemma is recorded for its case (one failing goal condemns the case; the mpmath
    evaluation then lists every failing clause), everything before it is proved, and the modules after
    that case are compiled again.  -> {(idx, lemma): error text}"""
    failed = {}
    todo = list(mods)
    rounds = 0
    while todo:
        rounds += 1
        lines, owner = HEADER.splitlines(), [None] * len(HEADER.splitlines())
        for pos, (idx, L, goals) in enumerate(todo):
            for ln in L:
                m = re.match(r"Lemma (\w+) ", ln)
                owner.append((pos, idx, m.group(1) if m else None))
                lines.append(ln)
        ok, out, err = ctx.coq_script("\n".join(lines) + "\n", name=name, timeout=1200)
        if not ok and not re.search(r"line (\d+), characters", err) and err != "timeout":
            # coqc died without a Coq error (killed under memory pressure): one retry
            ok, out, err = ctx.coq_script("\n".join(lines) + "\n", name=name, timeout=1200)
        if ok:
            break
        m = re.search(r"line (\d+), characters", err)
        if not m or int(m.group(1)) > len(owner) or owner[int(m.group(1)) - 1] is None:
            failed[(None, name)] = (err or out or "coqc failed without output")[-1500:]
            break
        pos, idx, lemma = owner[int(m.group(1)) - 1]
        failed[(idx, lemma or "definitions")] = err[-600:]
        todo = todo[pos + 1:]
    return failed


# ---------------------------------------------------------------------------
# exact optimal values (lambda -> 0 clause)
# ---------------------------------------------------------------------------
def solve_linear(A, b):
    n = len(A)
    M = [row[:] + [b[i]] for i, row in enumerate(A)]
    for c in range(n):
        piv = next((r for r in range(c, n) if M[r][c] != 0), None)
        if piv is None:
            return None
        M[c], M[piv] = M[piv], M[c]
        pv = M[c][c]
        M[c] = [x / pv for x in M[c]]
        for r in range(n):
            if r != c and M[r][c] != 0:
                f = M[r][c]
                M[r] = [x - f * y for x, y in zip(M[r], M[c])]
    return [M[i][n] for i in range(n)]


def exact_qstar(T, R, g):
    nS, nA = len(T), len(T[0])
    r = [[sum(T[s][a][n] * R[s][a][n] for n in range(nS)) for a in range(nA)] for s in range(nS)]
    pol = [0] * nS
    for _ in range(500):
        A = [[(F(1) if i == j else F(0)) - g * T[i][pol[i]][j] for j in range(nS)] for i in range(nS)]
        V = solve_linear(A, [r[s][pol[s]] for s in range(nS)])
        Q = [[r[s][a] + g * sum(T[s][a][n] * V[n] for n in range(nS)) for a in range(nA)] for s in range(nS)]
        new = [pol[s] if Q[s][pol[s]] == max(Q[s]) else max(range(nA), key=lambda a: Q[s][a]) for s in range(nS)]
        if new == pol:
            assert all(V[s] == max(Q[s]) for s in range(nS))
            return Q
        pol = new
    return None


# ---------------------------------------------------------------------------
def run(ctx):
    tier = ctx.tier
    ncases = 52 if tier == "quick" else 520
    if ctx.replay_case:
        cases = [ctx.replay_case["detail"]["case"]]
    else:
        cases = gen_cases(ctx.rng, ncases)
    impl = ctx.impl("c19_impl.py", {"cases": cases}, shards=min(4, ctx.jobs) if tier == "quick" else min(16, ctx.jobs))["results"]

    evals, mods = {}, []
    stats = {"converged": 0, "not_converged": 0, "temperature_given": 0, "temperature_float32": 0, "temperature_split_E2_E3": 0,
             "via_planner": 0, "force_nonzero": 0, "per_state_weight": 0, "prior_default": 0, "prior_per_state": 0,
             "reward_broadcast": 0, "clamped_policy_entries": 0, "zero_policy_entries": 0, "iterations_max": 0,
             "states_dropped_by_reachability": 0, "repeat_calls": 0, "repeat_calls_differ": 0, "max_abs_exponent": 0.0,
             "max_abs_value": 0.0, "inputs_mutated": 0, "nondyadic_transitions": 0, "nondyadic_prior": 0, "nondyadic_discount": 0,
             "tiny_probability_cases_2^-27..2^-60": 0, "states_equal_actions": 0, "one_action": 0, "one_state": 0,
             "max_reward_magnitude": 0.0, "min_relative_action_gap": None,
             "unavailable_entries": 0, "unavailable_not_last_in_action_list": 0, "unavailable_entries_absent_from_tables": 0,
             "initial_value_checks": 0, "policy_divergence_checks": 0}
    by_lam, by_group = {}, {}
    for i, (case, res) in enumerate(zip(cases, impl)):
        if "error" in res:
            ctx.violation("C19:raises:" + res["error"].split(":")[0], {"case": case, "error": res["error"], "trace": res.get("trace")}, found=True)
            continue
        stats["via_planner"] += case["via"] == "planner"
        stats["force_nonzero"] += bool(case["force_nonzero"])
        stats["per_state_weight"] += case["lam_style"] == "per_state"
        stats["prior_default"] += case["pi0"] is None
        stats["prior_per_state"] += case["pi0"] is not None and len(case["pi0"]) > 1
        stats["reward_broadcast"] += not (len(case["R"]) == case["nS"] and len(case["R"][0]) == case["nA"] and len(case["R"][0][0]) == case["nS"])
        stats["iterations_max"] = max(stats["iterations_max"], res["iterations"])
        g = by_group.setdefault(case["group"], {"cases": 0, "converged": 0})
        g["cases"] += 1
        g["converged"] += bool(res["converged"])
        def nd(x):
            d = F(x).denominator
            return d & (d - 1) != 0
        stats["nondyadic_transitions"] += any(nd(x) for mm in case["T"] for r in mm for x in r)
        stats["nondyadic_prior"] += case["pi0"] is not None and any(nd(x) for r in case["pi0"] for x in r)
        stats["nondyadic_discount"] += nd(case["gamma"])
        stats["tiny_probability_cases_2^-27..2^-60"] += bool(case.get("tiny_exponents"))
        stats["states_equal_actions"] += case["nS"] == case["nA"]
        stats["one_action"] += case["nA"] == 1
        stats["one_state"] += case["nS"] == 1
        stats["max_reward_magnitude"] = max(stats["max_reward_magnitude"], max(abs(float(F(x))) for mm in case["R"] for r in mm for x in r))
        if res.get("inputs_mutated"):
            stats["inputs_mutated"] += 1
            ctx.violation("C19:%s:caller-objects-mutated" % case["via"], {"case": case, "impl": res}, found=False)
        if res.get("repeat_same") is not None:
            stats["repeat_calls"] += 1
            stats["repeat_calls_differ"] += not res["repeat_same"]
        if "states" in res:
            stats["states_dropped_by_reachability"] += case["nS"] - len(res["states"])
        if not res["converged"]:
            stats["not_converged"] += 1          # the property only speaks about reported convergence
            continue
        stats["converged"] += 1
        flat = [x for row in res["pi"] for x in row] + [x for row in res["q"] for x in row] + list(res["v"])
        if any(isinstance(x, str) for x in flat):
            ctx.violation("C19:non-finite-output", {"case": case, "impl": res}, found=True)
            continue
        ev = Eval(case, res)
        evals[i] = ev
        stats["temperature_" + ev.temperature] += 1
        stats["temperature_split_E2_E3"] += ev.lam2 != ev.lam
        if case.get("avail"):
            st_, ac_ = res["states"], res["actions"]
            stats["unavailable_entries"] += sum(1 for s_ in st_ for a_ in ac_ if not case["avail"][s_][a_])
            stats["unavailable_not_last_in_action_list"] += sum(1 for s_ in st_ for a_ in ac_[:-1] if not case["avail"][s_][a_])
            stats["unavailable_entries_absent_from_tables"] += len(ev.skip)
        # planner tables that are functions of the three checked ones
        if case["via"] == "planner":
            nS_ = case["nS"]
            init = {case["start"]: F(1)} if case.get("start") is not None else {s_: F(1, nS_) for s_ in range(nS_)}
            if res.get("initial_value") is not None and not isinstance(res["initial_value"], str):
                stats["initial_value_checks"] += 1
                want = sum(p_ * ev.v[res["states"].index(s_)] for s_, p_ in init.items() if s_ in res["states"])
                if abs(vlib.frac(res["initial_value"]) - want) > F(1, 10**12) * ev.scale:
                    ctx.violation("C19:planner:initial_value is not the initial-state expectation of the reported state values",
                                  {"case": case, "impl": res, "expected": float(want)}, found=True)
            div = res.get("policy_divergence")
            if div is not None and all(x is not None and not isinstance(x, str) for x in div):
                stats["policy_divergence_checks"] += 1
                for s_ in range(ev.nS):
                    kl = mpmath.fsum(mpf(p_) * (mpmath.log(mpf(p_)) - mpmath.log(mpf(p0_)))
                                     for p_, p0_ in zip(ev.pi[s_], ev.p0[s_]) if p_ > 0 and p0_ > 0)
                    if abs(mpf(vlib.frac(div[s_])) - kl) > mpmath.mpf("1e-4") * (1 + abs(kl)):
                        ctx.violation("C19:planner:policy_divergence is not the divergence of the reported policy from the prior",
                                      {"case": case, "impl": res, "state_index": s_, "expected": float(kl)}, found=True)
                        break
        stats["clamped_policy_entries"] += sum(1 for row in ev.pi for x in row if 0 < x < F(1, 10**300))
        stats["zero_policy_entries"] += sum(1 for row in ev.pi for x in row if x == 0)
        stats["max_abs_exponent"] = max(stats["max_abs_exponent"], max(float((ev.c[s] - x) / min(ev.lam[s], ev.lam2[s])) for s in range(ev.nS) for x in ev.q[s]))
        stats["max_abs_value"] = max(stats["max_abs_value"], float(max(abs(x) for x in ev.v)))
        for s_ in range(ev.nS):
            qs = sorted(ev.q[s_])
            if len(qs) >= 2 and qs[-1] != qs[-2] and qs[-1] != 0:
                rel = float((qs[-1] - qs[-2]) / abs(qs[-1]))
                if stats["min_relative_action_gap"] is None or rel < stats["min_relative_action_gap"]:
                    stats["min_relative_action_gap"] = rel
        for l in set(ev.lam_given):
            by_lam[str(l)] = by_lam.get(str(l), 0) + 1
        L, goals = case_module(i, ev, select_entries(ev, ctx.rng, tier))
        mods.append((i, L, goals))

    # shards balanced by number of goals
    nsh = max(1, min(ctx.jobs, len(mods)) if tier == "quick" else min(2 * ctx.jobs, len(mods)))
    shards = [[] for _ in range(nsh)]
    for m in sorted(mods, key=lambda m: -len(m[2])):
        min(shards, key=lambda sh: sum(len(x[2]) for x in sh)).append(m)
    shards = [sh for sh in shards if sh]
    with ThreadPoolExecutor(max_workers=min(ctx.jobs, int(os.environ.get("C19_COQ_JOBS", "8" if tier == "quick" else "16")))) as ex:
        outs = list(ex.map(lambda kv: run_shard(ctx, "goals_%d" % kv[0], kv[1]), enumerate(shards)))
    failed = {}
    for o in outs:
        failed.update(o)
    ngoals = sum(len(g) for _, _, g in mods)
    bad_cases = {idx for (idx, _) in failed}
    nproved = 0 if None in bad_cases else sum(len(g) for i, _, g in mods if i not in bad_cases)

    for (idx, lemma), err in sorted(failed.items(), key=str):
        if idx is None:
            ctx.violation("C19:coq-goal-file-failed", {"case": None, "file": lemma, "error": err}, found=False)
    for i, ev in evals.items():
        bad = sorted(l for (idx, l) in failed if idx == i)
        if not bad:
            continue
        why = ev.mp_failures()
        detail = {"case": cases[i], "impl": impl[i], "failed_goals": bad, "temperature": ev.temperature,
                  "coq_error": failed[(i, bad[0])][-400:]}
        if why:
            kind, s, a, clause, d, tol = why[0]
            detail["failing_clause"] = {"clause": clause, "state_index": s, "action_index": a, "deviation": d, "tolerance": tol,
                                        "all": [(k, s_, a_) for k, s_, a_, _, _, _ in why][:30]}
            ctx.violation("C19:%s:%s" % (cases[i]["via"], clause), detail, found=True)
        else:
            ctx.violation("C19:interval-goal-not-proved", detail, found=False)

    # lambda -> 0 clause / soft-versus-hard rate (theorem C19_soft_to_hard_rate)
    nrate, worst, ladder = 0, 0.0, {}
    for i, ev in evals.items():
        if any(idx == i for (idx, _) in failed):
            continue
        if any(x == 0 for r in ev.p0 for x in r):
            continue          # state-dependent action sets: the rate theorem is stated for full-support priors
        Qs = exact_qstar(ev.T, ev.R, ev.g)
        if Qs is None:
            continue
        pmin = min(min(r) for r in ev.p0)
        lmax = max(ev.lam + ev.lam2)
        kappa = lmax * up(mpmath.log(1 / mpf(pmin))) if pmin < 1 else F(0)
        e3 = max(ev.eps3)
        bound = ev.eps1 + ev.g * (ev.eps1 + e3 + kappa) / (1 - ev.g)
        dist = max(abs(ev.q[s][a] - Qs[s][a]) for s in range(ev.nS) for a in range(ev.nA))
        nrate += 1
        if bound > 0:
            worst = max(worst, float(dist / bound))
        if dist > bound:
            s, a = max(((s, a) for s in range(ev.nS) for a in range(ev.nA)), key=lambda sa: abs(ev.q[sa[0]][sa[1]] - Qs[sa[0]][sa[1]]))
            ctx.violation("C19:%s:action values are not within the proved distance of the optimal action values" % cases[i]["via"],
                          {"case": cases[i], "impl": impl[i], "failing_clause": {"state_index": s, "action_index": a,
                           "q": float(ev.q[s][a]), "q_optimal": str(Qs[s][a]), "distance": float(dist), "bound": float(bound)}}, found=True)
        if cases[i].get("group") == "ladder":
            key = vlib.structural_hash([cases[i]["T"], cases[i]["R"], cases[i]["gamma"]])
            ladder.setdefault(key, {})[cases[i]["lam"]] = float(dist)
    mono = sum(1 for d in ladder.values() if len(d) == 3 and d["1/10"] >= d["1/100"] >= d["1/1000"])
    full = sum(1 for d in ladder.values() if len(d) == 3)

    distinct = {vlib.structural_hash(cases[i]) for i in evals if cases[i]["nA"] >= 2}
    sample = []
    if evals:
        i0 = sorted(evals)[0]
        sample = [{"case": cases[i0], "impl": impl[i0], "temperature": evals[i0].temperature}]
    ctx.coverage.update({
        "evaluations": ngoals,
        "distinct_nontrivial": len(distinct),
        "rule": "fixed schedule of families (harness/c19.py SCHEDULE, 35 entries = 40 cases, repeated in thorough): general (row-stochastic tensors, "
                "2-6 states x 1-4 actions, probabilities k/2..k/16 with zero entries and duplicated action rows, integer rewards -5..5 in shapes "
                "(S,A,S),(S,A,1),(1,1,S),(1,A,1),(S,1,1),(1,1,1), gamma in {1/2,9/10}, weight in {1e-3..10} as Python float / numpy float / int / "
                "1-element tensor / per-state tensor, prior None or on the open simplex k/16 as (1,A) or (S,A), force_nonzero both ways); lambda ladder "
                "(uniform prior, 1e-1,1e-2,1e-3 on one MDP); planner (plan_on with int labels in non-sorted order / strings incl. '' / tuples incl. (), single "
                "start state so that unreachable states drop out, explicit prior, iterations=None, iterations=1, planner object reused after another MDP with the "
                "same labels and after the MDP's cached matrices were read); boundary (gamma = 0 as int and float, gamma = 1-2^-20, probabilities 2^-30 and "
                "action rows 2^-30 apart, prior entries 2^-20, one state, rewards x1e3 and x1e5); explicit initial_policy (one-hot / random, clamp on and off); "
                "iteration caps 1 and 2; non-contiguous + requires_grad tensors; repeated call on the same tensors.  Goals: thorough = one interval-proved goal "
                "per number (q, pi: states x actions; v, Z>0: states) of every CONVERGED result; quick = 2 states with 2 + 1 actions per case plus every entry the "
                "60-digit evaluation finds out of tolerance.  distinct = structural hash of the case; non-trivial = converged with >= 2 actions",
        "samples": sample,
        "cases": len(cases), "goals": ngoals, "goals_proved": nproved, "cases_with_unproved_goal": len(bad_cases),
        "rate_checks": nrate, "rate_worst_distance_over_bound": worst,
        "ladders_complete": full, "ladders_monotone": mono,
        "weights_seen": by_lam, "families": by_group, "input_features": stats,
        "extra_obligations": ngoals, "extra_discharged": nproved,
    })
